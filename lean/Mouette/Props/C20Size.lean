import Mouette.Lemmas.UnionFindSize
/-!
# C20 (round 3) - `find` keeps EVERY element's root; union by size: the size field of a root is the cardinality of its class

Property theorems only (helpers in `Lemmas/UnionFindSize.lean`).
-/
namespace Mouette.Props.C20Size
open Mouette.UF

private def hist : List Op := [.union 1 2, .union 3 4, .union 2 4, .add 9, .add 1]

/-- `find x` (which halves paths, i.e. rewrites `_par`) returns the same root as before for EVERY stored element, not only
for the queried one: the pure root observer `classOf` is unchanged for all of them, and a later `find y` answers what it
would have answered before. -/
theorem find_preserves_every_root {s s' : State} (h : Inv s) {x r : Nat} (hf : find s x = some (s', r)) :
    Inv s' ∧ ∀ y, y ∈ s.elts → classOf s' y = classOf s y ∧
      (find s' y).map Prod.snd = (find s y).map Prod.snd := by
  have hx : x ∈ s.elts := by
    apply Classical.byContradiction
    intro hn
    rw [find_of_not_mem hn] at hf; cases hf
  obtain ⟨s1, r1, hf1, i1, pe, _⟩ := find_spec h hx
  rw [hf] at hf1
  injection hf1 with hf1; injection hf1 with e1 _
  subst e1
  refine ⟨i1, fun y hy => ?_⟩
  have hy' : y ∈ s'.elts := by rw [pe.elts]; exact hy
  have hc := pe.classOf h i1 hy
  refine ⟨hc, ?_⟩
  obtain ⟨a, ra, fa, _, _, rha, _⟩ := find_spec h hy
  obtain ⟨b, rb, fb, _, _, rhb, _⟩ := find_spec i1 hy'
  rw [fa, fb]
  have ea := (rootOf_eq_iff h (idxOf_lt hy) ra).mpr rha
  have eb := (rootOf_eq_iff i1 (idxOf_lt hy') rb).mpr rhb
  show some rb = some ra
  rw [← ea, ← eb]
  exact congrArg some hc

-- the query really rewrites `par`
example : (find (run hist) 4).map (fun r => r.1.par) = some [0, 0, 0, 0, 4] ∧ (run hist).par = [0, 0, 0, 2, 4] := by decide

/-- Union by size, every history: the `_siz` cell of every ROOT index is the number of stored elements whose class root
it is. (Non-root cells are stale - "correct only for roots", as the source comments.) -/
theorem siz_root_eq_card (ops : List Op) (r : Nat) (hr : r < (run ops).elts.length)
    (hroot : parent (run ops).par r = r) : (run ops).siz.getD r 0 = card (run ops) r :=
  sizeInv_run ops r hr hroot

-- cell 2 is stale (index 2 is not a root any more): only root cells are claimed
example : (run hist).siz = [4, 1, 2, 1, 1] ∧ card (run hist) 0 = 4 ∧ card (run hist) 4 = 1 ∧
    parent (run hist).par 2 ≠ 2 ∧ card (run hist) 2 = 0 := by decide

/-- … and that number is the length of the component listing of the class (`component`, `components`,
`component_mapping` all list `classList`): sizes, counts and listings describe the same partition. -/
theorem card_eq_component_length {s : State} (h : Inv s) (r : Nat) : card s r = (classList s r).length := by
  unfold card classList
  rw [← List.countP_eq_length_filter]
  have hl : s.elts = (List.range s.elts.length).map (eltAt s) := by
    apply List.ext_getElem
    · simp
    · intro i h1 h2
      simp [eltAt, List.getD_eq_getElem?_getD, h1]
  conv => rhs; rw [hl]
  rw [List.countP_map]
  apply List.countP_congr
  intro i hi
  have hi' := List.mem_range.mp hi
  have e : classOf s (eltAt s i) = rootOf s i := by
    unfold classOf; rw [idxOf_eltAt h hi']
  simp only [Function.comp, e]
  simp

/-- History form: after any history, for a present `x`, the size stored at the root of `x` is the number of elements its
component lists. -/
theorem siz_eq_component_length (ops : List Op) {x : Nat} (hx : x ∈ present ops) :
    ∃ s' l, component (run ops) x = some (s', l) ∧
      (run ops).siz.getD (classOf (run ops) x) 0 = l.length := by
  have inv := UF.inv_run ops
  have hx' : x ∈ (run ops).elts := ((refines_run ops).mem x).mpr hx
  obtain ⟨s', hc, _, _⟩ := component_spec' inv hx'
  refine ⟨s', _, hc, ?_⟩
  rw [siz_root_eq_card ops _ (classOf_lt inv hx') (rootOf_isRoot inv (idxOf_lt hx')), card_eq_component_length inv]
  rfl

example : (component (run hist) 3).map (fun r => r.2.length) = some 4 ∧
    (run hist).siz.getD (classOf (run hist) 3) 0 = 4 := by decide

end Mouette.Props.C20Size
