import Mathlib.Tactic.Linarith
import Mouette.Generated.C11
import Mouette.Lemmas.KDTree
/-
C11 — bridge theorems for the fragments translated from the CURRENT source of `mouette/spatial/kdtree.py`
(`Generated/C11.lean`): the write sets of the two queries are empty (so a query cannot change the tree: any history of
queries on one tree is a sequence of independent queries on the tree as built), and the guards with a single correct form
denote the guards of the hand model (`Model/KDTree.lean`, `Model/KDTreeFlat.lean`).
-/
set_option linter.unusedSimpArgs false

namespace Mouette.Props.C11G
open Mouette.KD Mouette.AABB Mouette.AABB.EQ
namespace G
export Mouette.Generated.C11 (queryWrites radiusWrites radiusPrune radiusKeep trimGuard heldGuard fallbackGuard)
end G

/-- `query` and `query_radius` contain no store, in-place update or mutating call that reaches `self`: they are read-only
on the tree -/
theorem gen_queries_read_only : G.queryWrites = [] ∧ G.radiusWrites = [] := by
  constructor <;> rfl

/-- the box test of `query_radius` prunes exactly when the box is farther than the radius (`radius`, `radiusFlat`: `r2 < dist2`) -/
theorem gen_radiusPrune (d r : Rat) : G.radiusPrune d r = true ↔ r < d := by
  simp only [Mouette.Generated.C11.radiusPrune, decide_eq_true_eq, Bool.not_eq_true', decide_eq_false_iff_not, gt_iff_lt, ge_iff_le, not_le, not_lt]

/-- the point test of `query_radius` keeps exactly the points within the radius (closed ball) -/
theorem gen_radiusKeep (d r : Rat) : G.radiusKeep d r = true ↔ d ≤ r := by
  simp only [Mouette.Generated.C11.radiusKeep, decide_eq_true_eq, Bool.not_eq_true', decide_eq_false_iff_not, gt_iff_lt, ge_iff_le, not_le, not_lt]

/-- the trimming loop of `query` pops exactly while more than `k` candidates are held (`push k` = `take k`) -/
theorem gen_trimGuard (n k : Nat) : G.trimGuard n k = true ↔ k < n := by
  simp only [Mouette.Generated.C11.trimGuard, decide_eq_true_eq, Bool.not_eq_true', decide_eq_false_iff_not, gt_iff_lt, ge_iff_le, not_le, not_lt]

/-- the guard of `furthest_so_far` holds exactly when `k` candidates are held — the condition of `furthest` in the model
(candidate list of length ≤ k, k ≥ 1; `found.empty()` is `st.isEmpty`) -/
theorem gen_heldGuard (k : Nat) (st : List Cand) (h : st.length ≤ k) (hk : 1 ≤ k) :
    G.heldGuard st.length k st.isEmpty = true ↔ st.length = k := by
  simp only [Mouette.Generated.C11.heldGuard, Bool.and_eq_true, decide_eq_true_eq, Bool.not_eq_true', ge_iff_le, List.isEmpty_iff]
  constructor
  · intro hh; omega
  · intro hh
    refine ⟨by omega, ?_⟩
    cases st with
    | nil => simp at hh; omega
    | cons a as => simp

/-- hence the model's `furthest` is the code's `furthest_so_far` -/
theorem furthest_eq_gen (k : Nat) (st : List Cand) (h : st.length ≤ k) (hk : 1 ≤ k) :
    furthest k st = if G.heldGuard st.length k st.isEmpty = true
      then (match st.getLast? with | some c => fin c.1 | none => pinf) else pinf := by
  unfold furthest
  by_cases hl : st.length = k
  · rw [if_pos hl, if_pos ((gen_heldGuard k st h hk).mpr hl)]
    rfl
  · rw [if_neg hl, if_neg (fun hh => hl ((gen_heldGuard k st h hk).mp hh))]

/-- the degenerate-split guard of `_split_points` is the guard of `splitIdx`: no point on the right, or none on the left -/
theorem gen_fallbackGuard (P : Nat → Pt) (axis : Nat) (pv : Rat) (idx : List Nat) :
    G.fallbackGuard (idx.all (fun i => decide (coord (P i) axis ≤ pv))) (idx.any (fun i => decide (coord (P i) axis ≤ pv)))
      = ((idx.filter (fun i => !decide (coord (P i) axis ≤ pv))).isEmpty || (idx.filter (fun i => decide (coord (P i) axis ≤ pv))).isEmpty) := by
  simp only [Mouette.Generated.C11.fallbackGuard]
  have e1 : (idx.filter (fun i => !decide (coord (P i) axis ≤ pv))).isEmpty = idx.all (fun i => decide (coord (P i) axis ≤ pv)) := by
    rw [Bool.eq_iff_iff]
    simp [List.isEmpty_iff, List.filter_eq_nil_iff, List.all_eq_true]
  have e2 : (idx.filter (fun i => decide (coord (P i) axis ≤ pv))).isEmpty = !(idx.any (fun i => decide (coord (P i) axis ≤ pv))) := by
    rw [Bool.eq_iff_iff]
    simp [List.isEmpty_iff, List.filter_eq_nil_iff, List.any_eq_true]
  rw [e1, e2]
  -- accept the guard of the source in either operand order (`rw` closes the goal by `rfl` when the order is the model's)
  try (generalize idx.all (fun i => decide (coord (P i) axis ≤ pv)) = a
       generalize idx.any (fun i => decide (coord (P i) axis ≤ pv)) = b
       cases a <;> cases b <;> rfl)

end Mouette.Props.C11G
