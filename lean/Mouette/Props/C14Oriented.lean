import Mouette.Props.C14
/-!
# C14 (continued) — consistent orientation and closedness, for ALL resolutions

For the torus (quads and triangles) and the unit grid (quads and triangles): every directed edge lies in at most one
face (consistent orientation, no non-manifold edge); for the torus, every directed edge has its opposite in some face
(closed surface). Faces are addressed by their grid position `(i, j)`; `torusFaces_eq` / `unit_gridFaces_eq` tie the
addressed faces to the translated loop nest.
-/
namespace Mouette.Props.C14
open Mouette.Generated.C14 Mouette.MeshCheck Mouette.ListCount

theorem idx_inj {N a b c d : Nat} (hb : b < N) (hd : d < N) (h : a * N + b = c * N + d) : a = c ∧ b = d := by
  have h1 : (a * N + b) / N = a := by
    rw [Nat.mul_comm, Nat.mul_add_div (by omega), Nat.div_eq_of_lt hb]; rfl
  have h2 : (c * N + d) / N = c := by
    rw [Nat.mul_comm, Nat.mul_add_div (by omega), Nat.div_eq_of_lt hd]; rfl
  have hac : a = c := by rw [← h1, ← h2, h]
  subst hac
  exact ⟨rfl, by omega⟩

theorem succ_mod_cases (n k : Nat) (hk : k < n) :
    ((k + 1) % n = k + 1 ∧ k + 1 < n) ∨ ((k + 1) % n = 0 ∧ k + 1 = n) := by
  by_cases h : k + 1 < n
  · exact Or.inl ⟨Nat.mod_eq_of_lt h, h⟩
  · have : k + 1 = n := by omega
    exact Or.inr ⟨by rw [this, Nat.mod_self], this⟩

/-- predecessor modulo `n`: `pm n k` is the index whose cyclic successor is `k` -/
def pm (n k : Nat) : Nat := (k + n - 1) % n

theorem pm_lt (n k : Nat) (hn : 0 < n) : pm n k < n := Nat.mod_lt _ hn

theorem pm_succ (n k : Nat) (hk : k < n) : (pm n k + 1) % n = k := by
  unfold pm
  by_cases h0 : k = 0
  · subst h0
    have h1 : (0 + n - 1) % n = n - 1 := by rw [Nat.zero_add]; exact Nat.mod_eq_of_lt (by omega)
    have h2 : n - 1 + 1 = n := by omega
    rw [h1, h2, Nat.mod_self]
  · have h1 : (k + n - 1) % n = k - 1 := by
      have : k + n - 1 = (k - 1) + n := by omega
      rw [this, Nat.add_mod_right]; exact Nat.mod_eq_of_lt (by omega)
    have h2 : k - 1 + 1 = k := by omega
    rw [h1, h2]; exact Nat.mod_eq_of_lt hk

theorem sides_quad (a b c d : Nat) : sides [a, b, c, d] = [(a, b), (b, c), (c, d), (d, a)] := rfl
theorem sides_tri (a b c : Nat) : sides [a, b, c] = [(a, b), (b, c), (c, a)] := rfl

/-! ## torus -/

/-- quad of the torus at grid position (i,j) -/
def torusQuad (M N i j : Nat) : List Nat :=
  [i * N + j, i * N + (j + 1) % N, (i + 1) % M * N + (j + 1) % N, (i + 1) % M * N + j]

/-- the two triangles of the torus at grid position (i,j) -/
def torusTri (M N i j : Nat) (k : Bool) : List Nat :=
  if k then [i * N + (j + 1) % N, (i + 1) % M * N + (j + 1) % N, (i + 1) % M * N + j]
  else [i * N + j, i * N + (j + 1) % N, (i + 1) % M * N + j]

/-- the translated loop nest lists exactly the addressed faces, row-major -/
theorem torusFaces_eq (M N : Nat) :
    torusFaces M N false = (List.range M).flatMap (fun i => (List.range N).flatMap (fun j => [torusQuad M N i j])) ∧
    torusFaces M N true = (List.range M).flatMap (fun i => (List.range N).flatMap (fun j =>
      [torusTri M N i j false, torusTri M N i j true])) := by
  constructor <;> (rw [torusFaces_norm]; simp [torusFacesCanon, torusQuad, torusTri])

/-- consistent orientation (quads): a directed edge lies in at most one face -/
theorem torus_quads_oriented (M N : Nat) (hM : 3 ≤ M) (hN : 3 ≤ N) (i j i' j' : Nat) (hi : i < M) (hj : j < N)
    (hi' : i' < M) (hj' : j' < N) (e : Nat × Nat)
    (h1 : e ∈ sides (torusQuad M N i j)) (h2 : e ∈ sides (torusQuad M N i' j')) : i = i' ∧ j = j' := by
  obtain ⟨p, q⟩ := e
  simp only [torusQuad, sides_quad, List.mem_cons, Prod.mk.injEq, List.mem_nil_iff, or_false] at h1 h2
  have a1 := succ_mod_cases M i hi
  have a2 := succ_mod_cases N j hj
  have a3 := succ_mod_cases M i' hi'
  have a4 := succ_mod_cases N j' hj'
  have b1 : (i + 1) % M < M := Nat.mod_lt _ (by omega)
  have b2 : (j + 1) % N < N := Nat.mod_lt _ (by omega)
  have b3 : (i' + 1) % M < M := Nat.mod_lt _ (by omega)
  have b4 : (j' + 1) % N < N := Nat.mod_lt _ (by omega)
  rcases h1 with ⟨rfl, rfl⟩ | ⟨rfl, rfl⟩ | ⟨rfl, rfl⟩ | ⟨rfl, rfl⟩ <;>
  rcases h2 with ⟨e1, e2⟩ | ⟨e1, e2⟩ | ⟨e1, e2⟩ | ⟨e1, e2⟩ <;>
  (have c1 := idx_inj (by assumption) (by assumption) e1
   have c2 := idx_inj (by assumption) (by assumption) e2
   omega)

/-- the four sides of one quad are pairwise distinct directed edges -/
theorem torus_quad_sides_nodup (M N : Nat) (hM : 2 ≤ M) (hN : 2 ≤ N) (i j : Nat) (hi : i < M) (hj : j < N) :
    (sides (torusQuad M N i j)).Nodup := by
  have a1 := succ_mod_cases M i hi
  have a2 := succ_mod_cases N j hj
  have b1 : (i + 1) % M < M := Nat.mod_lt _ (by omega)
  have b2 : (j + 1) % N < N := Nat.mod_lt _ (by omega)
  have key : ∀ a b c d, b < N → d < N → (a ≠ c ∨ b ≠ d) → a * N + b ≠ c * N + d := by
    intro a b c d hb hd hne heq
    have := idx_inj hb hd heq; omega
  have k1 := key i j i ((j + 1) % N) hj b2 (by omega)
  have k2 := key i ((j + 1) % N) ((i + 1) % M) ((j + 1) % N) b2 b2 (by omega)
  have k3 := key ((i + 1) % M) ((j + 1) % N) ((i + 1) % M) j b2 hj (by omega)
  have k4 := key ((i + 1) % M) j i j hj hj (by omega)
  have k5 := key i j ((i + 1) % M) ((j + 1) % N) hj b2 (by omega)
  have k6 := key i ((j + 1) % N) ((i + 1) % M) j b2 hj (by omega)
  simp only [torusQuad, sides_quad, List.nodup_cons, List.mem_cons, Prod.mk.injEq, List.mem_nil_iff, or_false,
    not_or, not_and, List.nodup_nil, and_true, not_false_eq_true]
  omega

/-- closedness (quads): the opposite of every directed edge lies in the neighbouring face -/
theorem torus_quads_closed (M N : Nat) (hM : 1 ≤ M) (hN : 1 ≤ N) (i j : Nat) (hi : i < M) (hj : j < N) (p q : Nat)
    (h : (p, q) ∈ sides (torusQuad M N i j)) :
    ∃ i' j', i' < M ∧ j' < N ∧ (q, p) ∈ sides (torusQuad M N i' j') := by
  simp only [torusQuad, sides_quad, List.mem_cons, Prod.mk.injEq, List.mem_nil_iff, or_false] at h
  have b1 : (i + 1) % M < M := Nat.mod_lt _ (by omega)
  have b2 : (j + 1) % N < N := Nat.mod_lt _ (by omega)
  rcases h with ⟨rfl, rfl⟩ | ⟨rfl, rfl⟩ | ⟨rfl, rfl⟩ | ⟨rfl, rfl⟩
  · refine ⟨pm M i, j, pm_lt M i (by omega), hj, ?_⟩
    simp [torusQuad, sides_quad, pm_succ M i hi]
  · refine ⟨i, (j + 1) % N, hi, b2, ?_⟩
    simp [torusQuad, sides_quad]
  · refine ⟨(i + 1) % M, j, b1, hj, ?_⟩
    simp [torusQuad, sides_quad]
  · refine ⟨i, pm N j, hi, pm_lt N j (by omega), ?_⟩
    simp [torusQuad, sides_quad, pm_succ N j hj]

/-- consistent orientation (triangulated torus): a directed edge lies in at most one triangle -/
theorem torus_tris_oriented (M N : Nat) (hM : 3 ≤ M) (hN : 3 ≤ N) (i j i' j' : Nat) (k k' : Bool) (hi : i < M)
    (hj : j < N) (hi' : i' < M) (hj' : j' < N) (e : Nat × Nat)
    (h1 : e ∈ sides (torusTri M N i j k)) (h2 : e ∈ sides (torusTri M N i' j' k')) : i = i' ∧ j = j' ∧ k = k' := by
  obtain ⟨p, q⟩ := e
  have a1 := succ_mod_cases M i hi
  have a2 := succ_mod_cases N j hj
  have a3 := succ_mod_cases M i' hi'
  have a4 := succ_mod_cases N j' hj'
  have b1 : (i + 1) % M < M := Nat.mod_lt _ (by omega)
  have b2 : (j + 1) % N < N := Nat.mod_lt _ (by omega)
  have b3 : (i' + 1) % M < M := Nat.mod_lt _ (by omega)
  have b4 : (j' + 1) % N < N := Nat.mod_lt _ (by omega)
  cases k <;> cases k' <;>
  simp only [torusTri, sides_tri, List.mem_cons, Prod.mk.injEq, List.mem_nil_iff, or_false, if_true,
    Bool.false_eq_true, if_false] at h1 h2 <;>
  rcases h1 with ⟨rfl, rfl⟩ | ⟨rfl, rfl⟩ | ⟨rfl, rfl⟩ <;>
  rcases h2 with ⟨e1, e2⟩ | ⟨e1, e2⟩ | ⟨e1, e2⟩ <;>
  (have c1 := idx_inj (by assumption) (by assumption) e1
   have c2 := idx_inj (by assumption) (by assumption) e2
   simp only [Bool.false_eq_true, Bool.true_eq_false, and_false, and_true]
   omega)

/-- closedness (triangulated torus) -/
theorem torus_tris_closed (M N : Nat) (hM : 1 ≤ M) (hN : 1 ≤ N) (i j : Nat) (k : Bool) (hi : i < M) (hj : j < N)
    (p q : Nat) (h : (p, q) ∈ sides (torusTri M N i j k)) :
    ∃ i' j' k', i' < M ∧ j' < N ∧ (q, p) ∈ sides (torusTri M N i' j' k') := by
  have b1 : (i + 1) % M < M := Nat.mod_lt _ (by omega)
  have b2 : (j + 1) % N < N := Nat.mod_lt _ (by omega)
  cases k <;> simp only [torusTri, sides_tri, List.mem_cons, Prod.mk.injEq, List.mem_nil_iff, or_false, if_true,
    Bool.false_eq_true, if_false] at h
  · rcases h with ⟨rfl, rfl⟩ | ⟨rfl, rfl⟩ | ⟨rfl, rfl⟩
    · exact ⟨pm M i, j, true, pm_lt M i (by omega), hj, by simp [torusTri, sides_tri, pm_succ M i hi]⟩
    · exact ⟨i, j, true, hi, hj, by simp [torusTri, sides_tri]⟩
    · exact ⟨i, pm N j, true, hi, pm_lt N j (by omega), by simp [torusTri, sides_tri, pm_succ N j hj]⟩
  · rcases h with ⟨rfl, rfl⟩ | ⟨rfl, rfl⟩ | ⟨rfl, rfl⟩
    · exact ⟨i, (j + 1) % N, false, hi, b2, by simp [torusTri, sides_tri]⟩
    · exact ⟨(i + 1) % M, j, false, b1, hj, by simp [torusTri, sides_tri]⟩
    · exact ⟨i, j, false, hi, hj, by simp [torusTri, sides_tri]⟩

/-- 4·M·N directed edges; with orientation + closedness they pair up into 2·M·N edges, so χ = MN − 2MN + MN = 0 -/
theorem torus_quads_dirEdges_count (M N : Nat) : (dirEdges (torusFaces M N false)).length = 4 * (M * N) := by
  rw [(torusFaces_eq M N).1]
  unfold dirEdges
  rw [List.flatMap_assoc, length_flatMap_const _ _ (N * 4)]
  · simp; rw [Nat.mul_comm 4, Nat.mul_assoc]
  · intro i _
    rw [List.flatMap_assoc, length_flatMap_const _ _ 4]
    · simp
    · intro j _; simp [torusQuad, sides_quad]

/-! ## unit grid -/

def gridQuad (nv i j : Nat) : List Nat := [i * nv + j, i * nv + j + 1, (i + 1) * nv + j + 1, (i + 1) * nv + j]

def gridTri (nv i j : Nat) (k : Bool) : List Nat :=
  if k then [i * nv + j + 1, (i + 1) * nv + j + 1, (i + 1) * nv + j] else [i * nv + j, i * nv + j + 1, (i + 1) * nv + j]

/-- consistent orientation of the quad grid: a directed edge lies in at most one face -/
theorem unit_grid_quads_oriented (nv : Nat) (i j i' j' : Nat) (hj : j + 1 < nv) (hj' : j' + 1 < nv) (e : Nat × Nat)
    (h1 : e ∈ sides (gridQuad nv i j)) (h2 : e ∈ sides (gridQuad nv i' j')) : i = i' ∧ j = j' := by
  obtain ⟨p, q⟩ := e
  simp only [gridQuad, sides_quad, List.mem_cons, Prod.mk.injEq, List.mem_nil_iff, or_false] at h1 h2
  have key : ∀ a b c d, b < nv → d < nv → a * nv + b = c * nv + d → a = c ∧ b = d :=
    fun a b c d hb hd h => idx_inj hb hd h
  rcases h1 with ⟨rfl, rfl⟩ | ⟨rfl, rfl⟩ | ⟨rfl, rfl⟩ | ⟨rfl, rfl⟩ <;>
  rcases h2 with ⟨e1, e2⟩ | ⟨e1, e2⟩ | ⟨e1, e2⟩ | ⟨e1, e2⟩ <;>
  (try simp only [Nat.add_assoc] at e1 e2
   have c1 := key _ _ _ _ (by omega) (by omega) e1
   have c2 := key _ _ _ _ (by omega) (by omega) e2
   omega)

/-- consistent orientation of the triangulated grid -/
theorem unit_grid_tris_oriented (nv : Nat) (i j i' j' : Nat) (k k' : Bool) (hj : j + 1 < nv) (hj' : j' + 1 < nv)
    (e : Nat × Nat) (h1 : e ∈ sides (gridTri nv i j k)) (h2 : e ∈ sides (gridTri nv i' j' k')) :
    i = i' ∧ j = j' ∧ k = k' := by
  obtain ⟨p, q⟩ := e
  have key : ∀ a b c d, b < nv → d < nv → a * nv + b = c * nv + d → a = c ∧ b = d :=
    fun a b c d hb hd h => idx_inj hb hd h
  cases k <;> cases k' <;>
  simp only [gridTri, sides_tri, List.mem_cons, Prod.mk.injEq, List.mem_nil_iff, or_false, if_true,
    Bool.false_eq_true, if_false] at h1 h2 <;>
  rcases h1 with ⟨rfl, rfl⟩ | ⟨rfl, rfl⟩ | ⟨rfl, rfl⟩ <;>
  rcases h2 with ⟨e1, e2⟩ | ⟨e1, e2⟩ | ⟨e1, e2⟩ <;>
  (try simp only [Nat.add_assoc] at e1 e2
   have c1 := key _ _ _ _ (by omega) (by omega) e1
   have c2 := key _ _ _ _ (by omega) (by omega) e2
   simp only [Bool.false_eq_true, Bool.true_eq_false, and_false, and_true]
   omega)

/-- the translated loop nest lists exactly the addressed faces -/
theorem unit_gridFaces_eq (nu nv : Nat) (u : Bool) :
    unit_gridFaces nu nv false u = (List.range nu).flatMap (fun i => (List.range nv).flatMap (fun j =>
      if i < nu - 1 ∧ j < nv - 1 then [gridQuad nv i j] else [])) ∧
    unit_gridFaces nu nv true u = (List.range nu).flatMap (fun i => (List.range nv).flatMap (fun j =>
      if i < nu - 1 ∧ j < nv - 1 then [gridTri nv i j false, gridTri nv i j true] else [])) := by
  constructor <;> (rw [unit_gridFaces_norm]; simp [unit_gridFacesCanon, gridQuad, gridTri])

end Mouette.Props.C14
