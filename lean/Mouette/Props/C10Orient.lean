import Mouette.Lemmas.OrientInv
import Mouette.Lemmas.KruskalMin
/-
C10, orientation of the minimal spanning tree (`EdgeMinimalSpanningTree.compute`, second half): the parent /
children tables built by the BFS from the root over the selected edges — which has NO `seen` flags and only skips
the vertex it came from — orient exactly the root's component of the selected forest.

  `adjT tes u x` : `(u,x)` or `(x,u)` is a stored edge;  `CR tes` : connectivity in the selected forest
  `TreeDepth par r c d` : following `par` from `c` reaches `r` in `d` steps
-/
namespace Mouette.Props.C10
open Mouette.Trees Mouette.UF

theorem CR_of_span {L T : List (Nat × Nat)} (h : ∀ q ∈ L, CR T q.1 q.2) {u v : Nat} (e : CR L u v) : CR T u v := by
  induction e with
  | rel hab => exact h _ hab
  | refl a => exact CR.refl _ _
  | symm _ ih => exact ih.symm
  | trans _ _ i1 i2 => exact i1.trans i2

/-- `orient_spec`: for EVERY forest `tes` (acyclic edge list with endpoints `< n`) and root `< n`, the orientation
loop terminates within fuel `n+1` (so the Python loop, which would spin forever on a cycle, terminates) and
 * the root has no parent, every parent link is a stored edge;
 * the oriented vertices (root + those with a parent) are exactly the component of the root in the forest;
 * children and parent tables are mutually inverse;
 * every vertex of the component hangs below the root (no cycle in the parent table). -/
theorem orient_spec (n : Nat) (tes : List (Nat × Nat)) (root : Nat) (hr : InRange n tes) (hi : Indep tes)
    (hroot : root < n) :
    (orient tes (n + 1) (oinit tes root)).queue = [] ∧
    (orient tes (n + 1) (oinit tes root)).parent root = none ∧
    (∀ c p, (orient tes (n + 1) (oinit tes root)).parent c = some p → adjT tes p c) ∧
    (∀ c, (c = root ∨ ((orient tes (n + 1) (oinit tes root)).parent c).isSome = true) ↔ CR tes root c) ∧
    (∀ p c, c ∈ (orient tes (n + 1) (oinit tes root)).children p ↔
      (orient tes (n + 1) (oinit tes root)).parent c = some p) ∧
    (∀ c, CR tes root c → ∃ d, TreeDepth (orient tes (n + 1) (oinit tes root)).parent root c d) := by
  obtain ⟨Pr, hq, I⟩ := oi_orient hr hi hroot (n + 1) (oinit tes root) [] (oi_init hi) (by simp)
  generalize orient tes (n + 1) (oinit tes root) = o at hq I
  have hAr : o.queue.reverse ++ Pr = Pr := by rw [hq]; simp
  have hatt : Attach root Pr := by have := I.att; rwa [hAr] at this
  have hadj : ∀ q ∈ Pr, adjT tes q.2 q.1 := fun q h => I.adj q (by rw [hAr]; exact h)
  have hnd := attach_nodup Pr hatt
  have hroot_not : root ∉ Pr.map Prod.fst := by
    unfold VV at hnd; exact (List.nodup_cons.mp hnd).1
  -- a vertex with a parent is the first component of a processed entry
  have hentry : ∀ c p, o.parent c = some p → (c, p) ∈ Pr := by
    intro c p hp
    by_cases hc : c ∈ Pr.map Prod.fst
    · obtain ⟨q, hq', rfl⟩ := List.mem_map.mp hc
      have := I.par_some q hq'
      rw [hp] at this
      simp at this
      have : q = (q.1, p) := by ext <;> simp [this]
      rw [← this]; exact hq'
    · rw [I.par_none c hc] at hp; simp at hp
  have hVV : ∀ c, c ∈ VV root Pr ↔ (c = root ∨ (o.parent c).isSome = true) := by
    intro c
    unfold VV
    simp only [List.mem_cons]
    constructor
    · rintro (h | h)
      · exact Or.inl h
      · obtain ⟨q, hq', rfl⟩ := List.mem_map.mp h
        right; rw [I.par_some q hq']; rfl
    · rintro (h | h)
      · exact Or.inl h
      · right
        cases hp : o.parent c with
        | none => rw [hp] at h; simp at h
        | some p => exact List.mem_map.mpr ⟨(c, p), hentry c p hp, rfl⟩
  have hclosed : ∀ u, u ∈ VV root Pr → ∀ x, adjT tes u x → (x, u) ∈ Pr ∨ (u, x) ∈ Pr := by
    intro u hu x hx
    have := I.closed u (by unfold VV at hu; simpa using hu) x hx
    rwa [hAr] at this
  refine ⟨hq, I.par_none root hroot_not, ?_, ?_, ?_, ?_⟩
  · intro c p hp
    exact hadj _ (hentry c p hp)
  · intro c
    rw [← hVV]
    constructor
    · intro hc
      exact CR_of_span (fun q hq' => (adjT_CR (hadj q hq')).symm) (attach_conn Pr hatt c hc)
    · intro hc
      have key : ∀ u w, CR tes u w → (u ∈ VV root Pr ↔ w ∈ VV root Pr) := by
        intro u w h
        induction h with
        | @rel a b hab =>
          constructor
          · intro ha
            rcases hclosed a ha b (Or.inl hab) with h | h
            · exact (attach_endpoints Pr hatt _ h).1
            · exact (attach_endpoints Pr hatt _ h).2
          · intro hb
            rcases hclosed b hb a (Or.inr hab) with h | h
            · exact (attach_endpoints Pr hatt _ h).1
            · exact (attach_endpoints Pr hatt _ h).2
        | refl a => exact Iff.rfl
        | symm _ ih => exact ih.symm
        | trans _ _ i1 i2 => exact i1.trans i2
      exact (key root c hc).mp (by simp [VV])
  · intro p c
    constructor
    · intro hc
      by_cases hpr : p = root
      · subst hpr
        rw [I.ch_root] at hc
        rcases hclosed p (by simp [VV]) c (mem_treeNbrs.mp hc) with h | h
        · exact I.par_some _ h
        · exact absurd (List.mem_map_of_mem (f := Prod.fst) h) hroot_not
      · by_cases hp : p ∈ Pr.map Prod.fst
        · obtain ⟨q, hq', rfl⟩ := List.mem_map.mp hp
          rw [I.ch_proc q hq'] at hc
          obtain ⟨h1, h2⟩ := List.mem_filter.mp hc
          have hne : c ≠ q.2 := by simpa using h2
          rcases hclosed q.1 (by unfold VV; simp [hp]) c (mem_treeNbrs.mp h1) with h | h
          · exact I.par_some _ h
          · have := attach_unique hatt h hq' rfl
            exact absurd (congrArg Prod.snd this) hne
        · rw [I.ch_none p hpr hp] at hc; simp at hc
    · intro hp
      have hmem := hentry c p hp
      have hadjpc : adjT tes p c := hadj _ hmem
      have hcn : c ∈ treeNbrs tes p := mem_treeNbrs.mpr hadjpc
      rcases I.par_proc (c, p) (by rw [hAr]; exact hmem) with h | h
      · simp only at h; subst h
        rw [I.ch_root]; exact hcn
      · obtain ⟨q, hq', hqp⟩ := List.mem_map.mp h
        simp only at hqp
        subst hqp
        rw [I.ch_proc q hq']
        refine List.mem_filter.mpr ⟨hcn, ?_⟩
        have : c ≠ q.2 := by
          intro he
          subst he
          exact attach_no_mutual Pr hatt q.1 q.2 hq' hmem
        simpa using this
  · intro c hc
    have key : ∀ u w, CR tes u w → (u ∈ VV root Pr ↔ w ∈ VV root Pr) := by
      intro u w h
      induction h with
      | @rel a b hab =>
        constructor
        · intro ha
          rcases hclosed a ha b (Or.inl hab) with h | h
          · exact (attach_endpoints Pr hatt _ h).1
          · exact (attach_endpoints Pr hatt _ h).2
        · intro hb
          rcases hclosed b hb a (Or.inr hab) with h | h
          · exact (attach_endpoints Pr hatt _ h).1
          · exact (attach_endpoints Pr hatt _ h).2
      | refl a => exact Iff.rfl
      | symm _ ih => exact ih.symm
      | trans _ _ i1 i2 => exact i1.trans i2
    exact attach_depth Pr hatt I.par_some c ((key root c hc).mp (by simp [VV]))

/-- the edge list of the modelled Kruskal is a forest in the sense of `orient_spec` -/
theorem kruskal_forest (n : Nat) (es : List (Nat × Nat × Rat)) (hwf : ∀ e ∈ es, e.1 < n ∧ e.2.1 < n) :
    InRange n (kruskal n es) ∧ Indep (kruskal n es) := by
  have hS : ∀ e ∈ es.mergeSort wle, e.1 < n ∧ e.2.1 < n := fun e he => hwf e ((List.mergeSort_perm es wle).mem_iff.mp he)
  obtain ⟨I, _, _, _⟩ := kw_fold (es.mergeSort wle) [] ((ufInit n, []), []) hS (kw_init n)
  have h1 : kruskal n es = ((es.mergeSort wle).foldl kStep (ufInit n, [])).2 := rfl
  have hout := I.out
  rw [foldl_kStepW_fst] at hout
  have hsub : ∀ x ∈ ((es.mergeSort wle).foldl kStepW ((ufInit n, []), [])).2, x ∈ es := by
    intro x hx
    have h := I.sub x hx
    rw [List.nil_append] at h
    exact (List.mergeSort_perm es wle).mem_iff.mp h
  have hr0 : InRange n ((((es.mergeSort wle).foldl kStepW ((ufInit n, []), [])).2.map pr).map
      (fun p => keyify p.1 p.2)) := by
    intro p hp
    obtain ⟨q, hq, rfl⟩ := List.mem_map.mp hp
    have hq' := inRange_map_pr hwf hsub q hq
    rcases keyify_fst_snd q.1 q.2 with ⟨e1, e2⟩ | ⟨e1, e2⟩ <;> rw [e1, e2]
    · exact hq'
    · exact ⟨hq'.2, hq'.1⟩
  have hi0 := indep_map_keyify _ I.indep
  have hperm : (((es.mergeSort wle).foldl kStepW ((ufInit n, []), [])).2.map pr).reverse.map
      (fun p => keyify p.1 p.2) = ((((es.mergeSort wle).foldl kStepW ((ufInit n, []), [])).2.map pr).map
      (fun p => keyify p.1 p.2)).reverse := by rw [List.map_reverse]
  rw [h1, hout, hperm]
  refine ⟨fun p hp => hr0 p (List.mem_reverse.mp hp), ?_⟩
  exact Indep.perm hr0 (List.reverse_perm _).symm hi0

/-- P1 `mst_orientation`: `EdgeMinimalSpanningTree` as modelled (`mst`): the edge list is the Kruskal selection and
the parent / children tables orient exactly the root's component of that selected forest: parent links are
selected edges; reached (= root or has a parent) ⇔ connected to the root through selected edges; children and
parent tables are mutually inverse; the parent table has no cycle; the loop terminates. -/
theorem mst_orientation (n root : Nat) (es : List (Nat × Nat × Rat)) (hwf : ∀ e ∈ es, e.1 < n ∧ e.2.1 < n)
    (hroot : root < n) :
    (mst n root es).1 = kruskal n es ∧ (mst n root es).2.queue = [] ∧ (mst n root es).2.parent root = none ∧
    (∀ c p, (mst n root es).2.parent c = some p → adjT (kruskal n es) p c) ∧
    (∀ c, (c = root ∨ ((mst n root es).2.parent c).isSome = true) ↔ CR (kruskal n es) root c) ∧
    (∀ p c, c ∈ (mst n root es).2.children p ↔ (mst n root es).2.parent c = some p) ∧
    (∀ c, CR (kruskal n es) root c → ∃ d, TreeDepth (mst n root es).2.parent root c d) := by
  obtain ⟨hr, hi⟩ := kruskal_forest n es hwf
  have h2 : (mst n root es).2 = orient (kruskal n es) (n + 1) (oinit (kruskal n es) root) := rfl
  rw [h2]
  exact ⟨rfl, orient_spec n (kruskal n es) root hr hi hroot⟩

/-- non-vacuity (test of the model): path 3-2-0 plus edge 1-2, rooted at 0 -/
example : (List.range 4).map (orient [(1, 2), (0, 2), (2, 3)] 5 (oinit [(1, 2), (0, 2), (2, 3)] 0)).parent
    = [none, some 2, some 0, some 2] := by decide +kernel
example : Indep [(2, 3), (0, 2), (1, 2)] := by
  have key : ∀ (T : List (Nat × Nat)) (P : Nat → Prop), (∀ p ∈ T, (P p.1 ↔ P p.2)) →
      ∀ a b, CR T a b → (P a ↔ P b) := by
    intro T P hP a b h
    induction h with
    | rel h => exact hP _ h
    | refl => exact Iff.rfl
    | symm _ ih => exact ih.symm
    | trans _ _ i1 i2 => exact i1.trans i2
  refine ⟨⟨⟨trivial, fun h => ?_⟩, fun h => ?_⟩, fun h => ?_⟩
  · have := key _ (fun x => x = 1) (by simp) _ _ h; simp at this
  · have := key _ (fun x => x = 0) (by simp) _ _ h; simp at this
  · have := key _ (fun x => x = 3) (by simp) _ _ h; simp at this

end Mouette.Props.C10
