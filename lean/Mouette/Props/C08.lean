import Mouette.Model.Operators
import Mouette.Lemmas.OpLemmas
import Mouette.Lemmas.MassEdges
import Mouette.Lemmas.EdgeIncidence
import Mouette.Lemmas.OpPerm
import Mouette.Generated.C08Idx
/-
C08 — discrete differential operators satisfy their defining identities.

Matrices are triplet lists; `toFun T i j` is the entry (duplicates summed).  All statements hold for ALL meshes (any face / edge
list, by induction) and ALL weight functions `w` (so they do not depend on how cotangents were computed).
-/
namespace Mouette.Props.C08
open Mouette.Geom Mouette.Ops

/-! ## the vertex Laplacian (`laplacian(mesh, cotan)`), 12 coefficients per triangle -/

theorem toFun_append (A B : List Trip) (i j : Nat) : toFun (A ++ B) i j = toFun A i j + toFun B i j :=
  Mouette.Ops.toFun_append A B i j

/-- the four coefficients written for a weighted edge are `v (e_p − e_q)(e_p − e_q)ᵀ` -/
theorem edgeBlock_eq_stiffEntry (p q : Nat) (v : Rat) (i j : Nat) :
    toFun (edgeBlock p q v) i j = stiffEntry p q v i j := toFun_edgeBlock p q v i j

theorem lapAux_eq_stiffnessAux (w : Nat → Rat) (faces : List F3) (t i j : Nat) :
    toFun (eval w (lapSAux faces t)) i j = stiffnessAux w faces t i j := by
  induction faces generalizing t with
  | nil => rfl
  | cons f fs ih =>
    simp only [lapSAux, faceLapS, eval_append, Mouette.Ops.toFun_append, eval_edgeBlockS, toFun_edgeBlock, stiffnessAux, ih]

/-- the assembled Laplacian equals, entry by entry, the independently assembled stiffness matrix
`Σ_T Σ_{edges (i,j) of T} w_{opposite corner} (e_i − e_j)(e_i − e_j)ᵀ` -/
theorem lap_eq_stiffness (w : Nat → Rat) (faces : List F3) (i j : Nat) :
    toFun (laplacian w faces) i j = stiffness w faces i j := lapAux_eq_stiffnessAux w faces 0 i j

theorem stiffnessAux_symm (w : Nat → Rat) (faces : List F3) (t i j : Nat) :
    stiffnessAux w faces t i j = stiffnessAux w faces t j i := by
  induction faces generalizing t with
  | nil => rfl
  | cons f fs ih =>
    simp only [stiffnessAux, ih]
    rw [stiffEntry_symm f.1, stiffEntry_symm f.2.1, stiffEntry_symm f.2.2]

theorem lap_symmetric (w : Nat → Rat) (faces : List F3) (i j : Nat) :
    toFun (laplacian w faces) i j = toFun (laplacian w faces) j i := by
  rw [lap_eq_stiffness, lap_eq_stiffness]; exact stiffnessAux_symm w faces 0 i j

theorem lapAux_rowSum (w : Nat → Rat) (faces : List F3) (t i : Nat) : rowSum (eval w (lapSAux faces t)) i = 0 := by
  induction faces generalizing t with
  | nil => rfl
  | cons f fs ih =>
    simp only [lapSAux, faceLapS, eval_append, rowSum_append, eval_edgeBlockS, rowSum_edgeBlock, ih]; ring

/-- every row of the Laplacian sums to zero (constants are in the kernel) -/
theorem lap_row_sums_zero (w : Nat → Rat) (faces : List F3) (i : Nat) : rowSum (laplacian w faces) i = 0 :=
  lapAux_rowSum w faces 0 i

theorem lapAux_quad (w x : Nat → Rat) (faces : List F3) (t : Nat) :
    quad (eval w (lapSAux faces t)) x = dirichletAux w x faces t := by
  induction faces generalizing t with
  | nil => rfl
  | cons f fs ih =>
    simp only [lapSAux, faceLapS, eval_append, quad_append, eval_edgeBlockS, quad_edgeBlock, dirichletAux, ih]

/-- `xᵀ L x = Σ_T Σ_edges w (x_i − x_j)²` (Dirichlet energy) -/
theorem lap_quad (w x : Nat → Rat) (faces : List F3) : quad (laplacian w faces) x = dirichlet w x faces :=
  lapAux_quad w x faces 0

/-- `rowSum` really is the sum of the entries of the row (matrix with `n` columns) -/
theorem rowSum_eq_sum_toFun (T : List Trip) (n i : Nat) (h : ∀ e ∈ T, e.2.1 < n) :
    rowSum T i = rsum ((List.range n).map (toFun T i)) := rowSum_eq_sum_toFun' T n i h

/-! ## every Laplacian that is a sum of weighted edge blocks: dual (`laplacian_triangles`), edge (`laplacian_edges`),
volume (`volume_laplacian`), cell (`laplacian_tetrahedra`) -/

theorem blocks_symmetric (es : List (Nat × Nat × Rat)) (i j : Nat) : toFun (blocks es) i j = toFun (blocks es) j i := by
  induction es with
  | nil => rfl
  | cons e es ih =>
    rw [blocks_cons, Mouette.Ops.toFun_append, Mouette.Ops.toFun_append, ih, toFun_edgeBlock, toFun_edgeBlock, stiffEntry_symm]

theorem blocks_row_sums_zero (es : List (Nat × Nat × Rat)) (i : Nat) : rowSum (blocks es) i = 0 := by
  induction es with
  | nil => rfl
  | cons e es ih => rw [blocks_cons, rowSum_append, ih, rowSum_edgeBlock]; ring

/-- one row `(T1,-1),(T2,+1)` of `Nabla` contributes `d (e_T1 − e_T2)(e_T1 − e_T2)ᵀ` to `Nablaᵀ D Nabla` -/
theorem gramRow_nabla_eq_edgeBlock (d : Rat) (t1 t2 i j : Nat) :
    toFun (gramRow d [(t1, -1), (t2, 1)]) i j = toFun (edgeBlock t1 t2 d) i j := by
  simp only [gramRow, List.flatMap_cons, List.flatMap_nil, List.map_cons, List.map_nil, List.append_nil, List.cons_append,
    List.nil_append, toFun, edgeBlock, rsum_cons, rsum_nil]
  ring_nf

theorem gramRow_nabla_rowSum (d : Rat) (t1 t2 i : Nat) : rowSum (gramRow d [(t1, -1), (t2, 1)]) i = 0 := by
  simp only [gramRow, List.flatMap_cons, List.flatMap_nil, List.map_cons, List.map_nil, List.append_nil, List.cons_append,
    List.nil_append, rowSum, rsum_cons, rsum_nil]
  by_cases h1 : t1 = i <;> by_cases h2 : t2 = i <;> simp [h1, h2]

/-- shape of the rows of `Nabla` as coded: empty for a border edge, `(T1,-1),(T2,+1)` for an interior edge -/
theorem nablaRow_shape (faces : List Face) (e : Nat × Nat) :
    nablaRow faces e = [] ∨ ∃ t1 t2, nablaRow faces e = [(t1, -1), (t2, 1)] := by
  unfold nablaRow
  rcases edgeFaces faces e with ⟨a, b⟩
  cases a <;> cases b <;> simp

/-- `laplacian_triangles = Nablaᵀ D Nabla` is symmetric, whatever the diagonal `D` (cotan weights, guarded inverse, or identity) -/
theorem dualLap_symmetric (faces : List Face) (rows : List (Rat × (Nat × Nat))) (i j : Nat) :
    toFun (gram (rows.map (fun r => (r.1, nablaRow faces r.2)))) i j
      = toFun (gram (rows.map (fun r => (r.1, nablaRow faces r.2)))) j i := by
  induction rows with
  | nil => rfl
  | cons r rs ih =>
    simp only [gram, List.map_cons, List.flatMap_cons] at ih ⊢
    rw [Mouette.Ops.toFun_append, Mouette.Ops.toFun_append, ih]
    congr 1
    rcases nablaRow_shape faces r.2 with h | ⟨t1, t2, h⟩
    · rw [h]; rfl
    · rw [h, gramRow_nabla_eq_edgeBlock, gramRow_nabla_eq_edgeBlock, toFun_edgeBlock, toFun_edgeBlock, stiffEntry_symm]

theorem dualLap_row_sums_zero (faces : List Face) (rows : List (Rat × (Nat × Nat))) (i : Nat) :
    rowSum (gram (rows.map (fun r => (r.1, nablaRow faces r.2)))) i = 0 := by
  induction rows with
  | nil => rfl
  | cons r rs ih =>
    simp only [gram, List.map_cons, List.flatMap_cons] at ih ⊢
    rw [rowSum_append, ih]
    rcases nablaRow_shape faces r.2 with h | ⟨t1, t2, h⟩
    · rw [h]; simp [gramRow, rowSum, rsum]
    · rw [h, gramRow_nabla_rowSum]; ring

/-- the four coefficients `laplacian_edges` writes for one corner are the edge block of weight `2·w(corner)` -/
theorem lapEdges_block (w : Nat → Rat) (e1 e2 c i j : Nat) :
    toFun (eval w [⟨e1, e2, -2, c⟩, ⟨e2, e1, -2, c⟩, ⟨e1, e1, 2, c⟩, ⟨e2, e2, 2, c⟩]) i j
      = toFun (edgeBlock e1 e2 (2 * w c)) i j := by
  simp only [eval, List.map_cons, List.map_nil, toFun, edgeBlock, rsum_cons, rsum_nil]
  push_cast
  ring_nf

/-! ## graph Laplacian, adjacency, incidence -/

/-- `graph_laplacian = degree − adjacency`, entry by entry (`(nbrs es i).length` is the degree of `i`) -/
theorem graphLap_eq_D_sub_A (es : List (Nat × Nat)) (n i j : Nat) (hi : i < n) :
    toFun (graphLap es n) i j
      = (if i = j then ((nbrs es i).length : Rat) else 0) - toFun (adjacency (fun _ => 1) es) i j := by
  rw [toFun_graphLap, adjacency, toFun_adjacencyAux_one]; simp [hi]

theorem graphLap_symmetric (es : List (Nat × Nat)) (n i j : Nat) (hi : i < n) (hj : j < n) :
    toFun (graphLap es n) i j = toFun (graphLap es n) j i := by
  rw [toFun_graphLap, toFun_graphLap, cnt_symm_nbrs es i j]
  by_cases h : i = j
  · subst h; rfl
  · have : ¬ j = i := fun h' => h h'.symm
    simp [hi, hj, h, this]

/-- zero row sums (every edge end point is a vertex `< n`) -/
theorem graphLap_row_sums_zero (es : List (Nat × Nat)) (n i : Nat) (hi : i < n)
    (h : ∀ e ∈ es, e.1 < n ∧ e.2 < n) : rsum ((List.range n).map (toFun (graphLap es n) i)) = 0 := by
  have hn : ∀ b ∈ nbrs es i, b < n := by
    intro b hb
    simp only [nbrs, List.mem_append, List.mem_map, List.mem_filter] at hb
    rcases hb with ⟨e, ⟨he, _⟩, rfl⟩ | ⟨e, ⟨he, _⟩, rfl⟩
    · exact (h e he).2
    · exact (h e he).1
  have : (List.range n).map (toFun (graphLap es n) i)
      = (List.range n).map (fun j => (if i = j then ((nbrs es i).length : Rat) else 0) + (-1) * cnt (nbrs es i) j) := by
    apply List.map_congr_left; intro a _; rw [toFun_graphLap]; simp [hi]; ring
  rw [this, rsum_map_add, rsum_range_ite n i _ hi]
  have : (List.range n).map (fun j => (-1 : Rat) * cnt (nbrs es i) j)
      = ((List.range n).map (cnt (nbrs es i))).map (fun x => x * (-1)) := by
    rw [List.map_map]; apply List.map_congr_left; intro a _; simp [Function.comp]
  rw [this, rsum_map_mul_const, cnt_total _ _ hn]; ring

theorem adjacencyAux_symm (w : Nat → Rat) (es : List (Nat × Nat)) (k i j : Nat) :
    toFun (adjacencyAux w es k) i j = toFun (adjacencyAux w es k) j i := by
  induction es generalizing k with
  | nil => rfl
  | cons e es ih =>
    simp only [adjacencyAux, toFun_cons, ih (k + 1)]
    have a : (if e.1 = i ∧ e.2 = j then w k else 0) = (if e.2 = j ∧ e.1 = i then w k else 0) := by simp only [and_comm]
    have b : (if e.2 = i ∧ e.1 = j then w k else 0) = (if e.1 = j ∧ e.2 = i then w k else 0) := by simp only [and_comm]
    rw [a, b]; ring

theorem adjacency_symmetric (w : Nat → Rat) (es : List (Nat × Nat)) (i j : Nat) :
    toFun (adjacency w es) i j = toFun (adjacency w es) j i := adjacencyAux_symm w es 0 i j

/-- exactly two stored entries per edge, `(a,b,w_e)` and `(b,a,w_e)`, in edge order -/
theorem adjacency_entries (w : Nat → Rat) (es : List (Nat × Nat)) (k : Nat) :
    adjacencyAux w es k = (List.zipIdx es k).flatMap (fun p => [(p.1.1, p.1.2, w p.2), (p.1.2, p.1.1, w p.2)]) := by
  induction es generalizing k with
  | nil => rfl
  | cons e es ih => simp [adjacencyAux, List.zipIdx_cons, ih (k + 1)]

/-- column `k` of `vertex_to_edge_operator`: origin `∓1`, arrival `+1`, nothing else -/
theorem vertexToEdge_column (oriented : Bool) (es : List (Nat × Nat)) (k : Nat) :
    vertexToEdgeAux oriented es k
      = (List.zipIdx es k).flatMap (fun p => [(p.1.1, p.2, if oriented then -1 else 1), (p.1.2, p.2, 1)]) := by
  induction es generalizing k with
  | nil => rfl
  | cons e es ih => simp [vertexToEdgeAux, List.zipIdx_cons, ih (k + 1)]

/-- one entry `1/len(f)` per incidence `(f, v ∈ f)` -/
theorem vertexToFace_entries (faces : List Face) (t : Nat) :
    vertexToFaceAux faces t
      = (List.zipIdx faces t).flatMap (fun p => p.1.map (fun v => (p.2, v, 1 / (p.1.length : Rat)))) := by
  induction faces generalizing t with
  | nil => rfl
  | cons f fs ih => simp [vertexToFaceAux, List.zipIdx_cons, ih (t + 1)]

/-- each row of `vertex_to_face_operator` sums to 1 (it averages) -/
theorem vertexToFace_row (f : Face) (t : Nat) (hf : f ≠ []) :
    total (f.map (fun v => (t, v, 1 / (f.length : Rat)))) = 1 := by
  have hn : (f.length : Rat) ≠ 0 := by
    have : f.length ≠ 0 := by simpa using hf
    exact_mod_cast this
  have : ∀ (L : List Nat) (c : Rat), total (L.map (fun v => (t, v, c))) = (L.length : Rat) * c := by
    intro L c
    induction L with
    | nil => simp [total, rsum]
    | cons a L ih => simp only [total, List.map_cons, rsum_cons, List.length_cons] at ih ⊢; rw [ih]; push_cast; ring
  rw [this]; field_simp

/-! ## lumped mass matrices -/

theorem massAux_diag (ar : Nat → Rat) (elems : List Face) (t : Nat) : ∀ e ∈ massAux ar elems t, e.1 = e.2.1 := by
  induction elems generalizing t with
  | nil => intro e he; simp [massAux] at he
  | cons f fs ih =>
    intro e he
    simp only [massAux, List.mem_append, List.mem_map] at he
    rcases he with ⟨u, _, rfl⟩ | he
    · rfl
    · exact ih (t + 1) e he

theorem toFun_offdiag (T : List Trip) (h : ∀ e ∈ T, e.1 = e.2.1) (i j : Nat) (hij : i ≠ j) : toFun T i j = 0 := by
  induction T with
  | nil => rfl
  | cons e T ih =>
    rw [toFun_cons, ih (fun e' he' => h e' (List.mem_cons_of_mem _ he'))]
    have he := h e (by simp)
    have : ¬ (e.1 = i ∧ e.2.1 = j) := by
      rintro ⟨h1, h2⟩; exact hij (by rw [← h1, he, h2])
    simp [this]

/-- the mass matrices are diagonal -/
theorem mass_diagonal (ar : Nat → Rat) (elems : List Face) (i j : Nat) (hij : i ≠ j) : toFun (mass ar elems) i j = 0 :=
  toFun_offdiag _ (massAux_diag ar elems 0) i j hij

theorem toFun_nonneg (T : List Trip) (h : ∀ e ∈ T, 0 ≤ e.2.2) (i j : Nat) : 0 ≤ toFun T i j := by
  induction T with
  | nil => simp [toFun, rsum]
  | cons e T ih =>
    rw [toFun_cons]
    have h1 := ih (fun e' he' => h e' (List.mem_cons_of_mem _ he'))
    have h2 := h e (by simp)
    by_cases c : e.1 = i ∧ e.2.1 = j <;> simp [c] <;> linarith

theorem massAux_vals (ar : Nat → Rat) (elems : List Face) (t : Nat) (h : ∀ k, 0 ≤ ar k) :
    ∀ e ∈ massAux ar elems t, 0 ≤ e.2.2 := by
  induction elems generalizing t with
  | nil => intro e he; simp [massAux] at he
  | cons f fs ih =>
    intro e he
    simp only [massAux, List.mem_append, List.mem_map] at he
    rcases he with ⟨u, _, rfl⟩ | he
    · exact h t
    · exact ih (t + 1) e he

/-- with non-negative areas / volumes every diagonal entry is non-negative … -/
theorem mass_nonneg (ar : Nat → Rat) (elems : List Face) (h : ∀ k, 0 ≤ ar k) (i : Nat) : 0 ≤ toFun (mass ar elems) i i :=
  toFun_nonneg _ (massAux_vals ar elems 0 h) i i

/-- … and positive at every vertex that belongs to an element of positive area / volume -/
theorem mass_pos (ar : Nat → Rat) (elems : List Face) (h : ∀ k, 0 < ar k) (i : Nat) (hi : ∃ f ∈ elems, i ∈ f) :
    0 < toFun (mass ar elems) i i := by
  have gen : ∀ (elems : List Face) (t : Nat), (∃ f ∈ elems, i ∈ f) → 0 < toFun (massAux ar elems t) i i := by
    intro elems
    induction elems with
    | nil => intro t ⟨f, hf, _⟩; simp at hf
    | cons f fs ih =>
      intro t ⟨g, hg, hig⟩
      simp only [massAux, Mouette.Ops.toFun_append]
      have nn1 : 0 ≤ toFun (f.map (fun u => (u, u, ar t))) i i :=
        toFun_nonneg _ (by intro e he; simp only [List.mem_map] at he; rcases he with ⟨u, _, rfl⟩; exact le_of_lt (h t)) i i
      have nn2 : 0 ≤ toFun (massAux ar fs (t + 1)) i i :=
        toFun_nonneg _ (massAux_vals ar fs (t + 1) (fun k => le_of_lt (h k))) i i
      rcases List.mem_cons.mp hg with rfl | hg'
      · have : 0 < toFun (g.map (fun u => (u, u, ar t))) i i := by
          clear nn1 ih hg
          induction g with
          | nil => simp at hig
          | cons a g ihg =>
            simp only [List.map_cons, toFun_cons]
            have nn : 0 ≤ toFun (g.map (fun u => (u, u, ar t))) i i :=
              toFun_nonneg _ (by intro e he; simp only [List.mem_map] at he; rcases he with ⟨u, _, rfl⟩; exact le_of_lt (h t)) i i
            rcases List.mem_cons.mp hig with rfl | hi'
            · simp; linarith [h t]
            · have := ihg hi'
              by_cases c : a = i <;> simp [c] <;> linarith [h t]
        linarith
      · have := ih (t + 1) ⟨g, hg', hig⟩
        linarith
  exact gen elems 0 hi

theorem total_map_const (L : List Nat) (c : Rat) : total (L.map (fun u => (u, u, c))) = (L.length : Rat) * c := by
  induction L with
  | nil => simp [total, rsum]
  | cons a L ih => simp only [total, List.map_cons, rsum_cons, List.length_cons] at ih ⊢; rw [ih]; push_cast; ring

/-- sum of all entries `= Σ_t |elem_t| · ar t` -/
theorem mass_total (ar : Nat → Rat) (elems : List Face) (t : Nat) :
    total (massAux ar elems t) = weightedSizeAux ar elems t := by
  induction elems generalizing t with
  | nil => rfl
  | cons f fs ih => simp only [massAux, total_append, total_map_const, weightedSizeAux, ih]

theorem weightedSize_const (ar : Nat → Rat) (elems : List Face) (c : Nat) (h : ∀ f ∈ elems, f.length = c) (t : Nat) :
    weightedSizeAux ar elems t = (c : Rat) * rsum ((List.range elems.length).map (fun k => ar (t + k))) := by
  induction elems generalizing t with
  | nil => simp [weightedSizeAux, rsum]
  | cons f fs ih =>
    have hf := h f (by simp)
    have hfs : ∀ g ∈ fs, g.length = c := fun g hg => h g (List.mem_cons_of_mem _ hg)
    simp only [weightedSizeAux, List.length_cons, ih hfs (t + 1), hf]
    rw [List.range_succ_eq_map, List.map_cons, List.map_map, rsum_cons]
    have : (fun k => ar (t + 1 + k)) = (fun k => ar (t + k)) ∘ Nat.succ := by
      funext k; simp only [Function.comp]; congr 1; omega
    rw [this]; simp only [Nat.add_zero]; ring

/-- vertex area matrix of a triangulation: entries sum to `3 · Σ area` -/
theorem mass_total_triangles (ar : Nat → Rat) (faces : List Face) (h : ∀ f ∈ faces, f.length = 3) :
    total (mass ar faces) = 3 * sumAr ar faces.length := by
  rw [mass, mass_total, weightedSize_const ar faces 3 h 0]; simp [sumAr]

/-- vertex volume matrix of a tetrahedral mesh: entries sum to `4 · Σ volume` -/
theorem mass_total_tets (ar : Nat → Rat) (cells : List Face) (h : ∀ f ∈ cells, f.length = 4) :
    total (mass ar cells) = 4 * sumAr ar cells.length := by
  rw [mass, mass_total, weightedSize_const ar cells 4 h 0]; simp [sumAr]

/-- face / cell mass matrix: entries sum to `Σ area` (`Σ volume`) -/
theorem diagMass_total (ar : Nat → Rat) (n : Nat) : total (diagMass ar n) = sumAr ar n := by
  simp [total, diagMass, sumAr, List.map_map, Function.comp_def]

/-- **massEdges_total** (full statement): under manifold edge/face incidence — every face is met exactly three times when
walking over both sides of every edge of the edge list, the decidable predicate `EdgeFaceIncidence`, re-checked by the harness on
every mesh — the entries of `area_weight_matrix_edges` (each edge gets `area/3` from each of its ≤ 2 faces) sum to `Σ area` -/
theorem massEdges_total (ar : Nat → Rat) (faces : List Face) (es : List (Nat × Nat)) (h : EdgeFaceIncidence faces es) :
    total (massEdges ar faces es) = sumAr ar faces.length := massEdges_total' ar faces es h

/-- the incidence predicate follows from the natural hypotheses: faces are triangles with distinct vertices, no directed side
belongs to two faces (oriented manifold), and the edge list holds every undirected side exactly once -/
theorem edgeFaceIncidence_of_manifold (faces : List Face) (es : List (Nat × Nat))
    (hm : OrientedTriangulation faces) (he : EdgesAreSides faces es) : EdgeFaceIncidence faces es :=
  Mouette.Ops.edgeFaceIncidence_of_manifold faces es hm he

/-- **massEdges_total from the mesh hypotheses** (no incidence-count premise) -/
theorem massEdges_total_of_manifold (ar : Nat → Rat) (faces : List Face) (es : List (Nat × Nat))
    (hm : OrientedTriangulation faces) (he : EdgesAreSides faces es) :
    total (massEdges ar faces es) = sumAr ar faces.length :=
  Mouette.Ops.massEdges_total_of_manifold ar faces es hm he

/-- under the oriented-manifold hypothesis `direct_face(x,y)` is THE face having the directed side `(x,y)` -/
theorem directFace_eq_iff (faces : List Face) (hn : (allSides faces).Nodup) (x y t : Nat) (ht : t < faces.length) :
    (directFace faces x y).map (·.1) = some t ↔ (x, y) ∈ sides (faces.getD t []) :=
  Mouette.Ops.directFace_eq_iff faces hn x y t ht

/-- the faces listed for an edge are faces of the mesh -/
theorem edgeFaceList_in_range (faces : List Face) (e : Nat × Nat) : ∀ t ∈ edgeFaceList faces e, t < faces.length :=
  edgeFaceList_lt faces e

/-- an edge has at most two faces -/
theorem massEdges_total_le_partial (faces : List Face) (e : Nat × Nat) : (edgeFaceList faces e).length ≤ 2 := by
  unfold edgeFaceList
  rcases edgeFaces faces e with ⟨a, b⟩
  cases a <;> cases b <;> simp

theorem massEdges_diagonal (ar : Nat → Rat) (faces : List Face) (es : List (Nat × Nat)) (i j : Nat) (hij : i ≠ j) :
    toFun (massEdges ar faces es) i j = 0 := by
  apply toFun_offdiag _ _ i j hij
  have gen : ∀ (es : List (Nat × Nat)) (k : Nat), ∀ e ∈ massEdgesAux ar faces es k, e.1 = e.2.1 := by
    intro es
    induction es with
    | nil => intro k e he; simp [massEdgesAux] at he
    | cons x xs ih =>
      intro k e he
      simp only [massEdgesAux, List.mem_append, List.mem_map] at he
      rcases he with ⟨u, _, rfl⟩ | he
      · rfl
      · exact ih (k + 1) e he
  exact gen es 0

/-- `cotan_edge_diagonal` (index expressions re-extracted from the source on every run) picks the local index opposite to the edge -/
theorem oppLocal_bridge : ∀ i j : Fin 3, i ≠ j →
    Mouette.Generated.C08.oppLocal1 i.val j.val = 3 - i.val - j.val ∧
    Mouette.Generated.C08.oppLocal2 i.val j.val = 3 - i.val - j.val ∧
    3 - i.val - j.val < 3 ∧ 3 - i.val - j.val ≠ i.val ∧ 3 - i.val - j.val ≠ j.val := by decide

/-- ... and therefore reads the same (opposite) corner as `cotan_weights` -/
theorem oppLocal_is_corner (t i j : Nat) (h : i + j ≤ 3) :
    3 * t + Mouette.Generated.C08.oppLocal1 i j = oppCorner t i j ∧
    3 * t + Mouette.Generated.C08.oppLocal2 i j = oppCorner t i j := by
  unfold Mouette.Generated.C08.oppLocal1 Mouette.Generated.C08.oppLocal2 oppCorner; omega

/-- the loop table of `laplacian` re-extracted from the source is the one of the model: edge `(p,q)` takes the weight of corner `r`,
`(q,r)` that of `p`, `(r,p)` that of `q` — always the corner OPPOSITE to the edge -/
theorem lapLoop_bridge :
    Mouette.Generated.C08.lapLoop = [(0, 1, 2), (1, 2, 0), (2, 0, 1)] ∧
    ∀ t : Nat, ∀ f : F3, faceLapS t f =
      edgeBlockS f.1 f.2.1 (3 * t + 2) ++ edgeBlockS f.2.1 f.2.2 (3 * t + 0) ++ edgeBlockS f.2.2 f.1 (3 * t + 1) := by
  refine ⟨by decide, fun t f => rfl⟩

/-- the four coefficient writes per weighted edge re-extracted from the scalar branch of `laplacian` are, UP TO THEIR ORDER, the
model's edge block `(i,i,+) (j,j,+) (i,j,−) (j,i,−)` -/
theorem lapWrites_perm :
    Mouette.Generated.C08.lapWrites.Perm [(0, 0, 1), (1, 1, 1), (0, 1, -1), (1, 0, -1)] := by decide

/-- hence the matrix they denote is the model's (so `lap_eq_stiffness`, `lap_symmetric`, `lap_row_sums_zero` speak about the
source's writes); a reordering of the writes in the source keeps this bridge provable -/
theorem lapWrites_bridge (w : Nat → Rat) (i j c x y : Nat) :
    toFun (eval w (Mouette.Generated.C08.lapWrites.map
      (fun t => (⟨if t.1 = 0 then i else j, if t.2.1 = 0 then i else j, t.2.2, c⟩ : SEntry)))) x y
      = toFun (eval w (edgeBlockS i j c)) x y := by
  apply toFun_perm
  apply eval_perm
  have h := lapWrites_perm.map (fun t : Nat × Nat × Int => (⟨if t.1 = 0 then i else j, if t.2.1 = 0 then i else j, t.2.2, c⟩ : SEntry))
  simpa [edgeBlockS] using h

/-! ## gradient (hat functions of a triangle, as 3-D vectors) -/

/-- `Σ_k ∇φ_k = 0`: the gradient of a constant vanishes -/
theorem hatGrad_partition (a b c : V3) :
    add (add (hatGrad a b c).1 (hatGrad a b c).2.1) (hatGrad a b c).2.2 = V3.zero := by
  simp only [hatGrad]; v3ext

/-- the gradient of the affine function `x ↦ g·x + k` restricted to the triangle is the tangential part of `g`:
`Σ_k f(p_k) ∇φ_k = g − (g·n) n / |n|²` -/
theorem grad_affine (a b c g : V3) (k : Rat) (hn : norm2 (cross (sub b a) (sub c a)) ≠ 0) :
    add (add (smul (dot g a + k) (hatGrad a b c).1) (smul (dot g b + k) (hatGrad a b c).2.1))
        (smul (dot g c + k) (hatGrad a b c).2.2)
      = sub g (smul (dot g (cross (sub b a) (sub c a)) / norm2 (cross (sub b a) (sub c a))) (cross (sub b a) (sub c a))) := by
  simp only [hatGrad]
  generalize hN : norm2 (cross (sub b a) (sub c a)) = N at hn ⊢
  have hN' : N = norm2 (cross (sub b a) (sub c a)) := hN.symm
  simp only [norm2, dot, cross, sub] at hN'
  apply V3.ext <;> simp only [add, sub, smul, cross, dot] <;> field_simp <;> rw [hN'] <;> ring

/-- per-triangle identity behind `Re(G* A G) = L_cot`:  `∇φ_i · ∇φ_j · |n|² = −(dot of the corner at k)` and `|n|²` is that corner's
`cross²`, i.e. `area · ∇φ_i·∇φ_j = −cot θ_k / 2`  (area = |n|/2, cot = dot/√cross²) -/
theorem grad_dot_eq_cot (a b c : V3) (hn : norm2 (cross (sub b a) (sub c a)) ≠ 0) :
    dot (hatGrad a b c).1 (hatGrad a b c).2.1 * norm2 (cross (sub b a) (sub c a)) = -(cornerCS a c b).2 ∧
    dot (hatGrad a b c).2.1 (hatGrad a b c).2.2 * norm2 (cross (sub b a) (sub c a)) = -(cornerCS b a c).2 ∧
    dot (hatGrad a b c).2.2 (hatGrad a b c).1 * norm2 (cross (sub b a) (sub c a)) = -(cornerCS c b a).2 ∧
    (cornerCS a c b).1 = norm2 (cross (sub b a) (sub c a)) ∧ (cornerCS b a c).1 = norm2 (cross (sub b a) (sub c a)) ∧
    (cornerCS c b a).1 = norm2 (cross (sub b a) (sub c a)) := by
  simp only [hatGrad, cornerCS]
  generalize hN : norm2 (cross (sub b a) (sub c a)) = N at hn ⊢
  have hN' : N = norm2 (cross (sub b a) (sub c a)) := hN.symm
  simp only [norm2, dot, cross, sub] at hN'
  refine ⟨?_, ?_, ?_, ?_, ?_, ?_⟩
  · simp only [smul, cross, dot, sub]; field_simp; rw [hN']; ring
  · simp only [smul, cross, dot, sub]; field_simp; rw [hN']; ring
  · simp only [smul, cross, dot, sub]; field_simp; rw [hN']; ring
  · rw [hN']; simp only [norm2, cross, dot, sub]; ring
  · trivial
  · rw [hN']; simp only [norm2, cross, dot, sub]; ring

/-- the 2-D coordinates the code uses (`x = X·p`, `y = Y·p` with `Y ∝ n × X`) are the components of the 3-D hat gradient
`n × e / |n|²` in that basis: `X'·(n×e) = −Y'·e` and `Y'·(n×e) = |n|² X'·e` for any in-plane `X'` -/
theorem grad_coords (x n e : V3) (h : dot n x = 0) :
    dot x (cross n e) = -dot (cross n x) e ∧ dot (cross n x) (cross n e) = norm2 n * dot x e := by
  simp only [dot, cross, norm2] at h ⊢
  constructor
  · ring
  · linear_combination (-(n.x * e.x + n.y * e.y + n.z * e.z)) * h

/-! ## `laplacian_edges`: the whole assembly -/

theorem lapEdges_block_rowSum (w : Nat → Rat) (e1 e2 c i : Nat) :
    rowSum (eval w [⟨e1, e2, -2, c⟩, ⟨e2, e1, -2, c⟩, ⟨e1, e1, 2, c⟩, ⟨e2, e2, 2, c⟩]) i = 0 := by
  simp only [eval, List.map_cons, List.map_nil, rowSum, rsum_cons, rsum_nil]
  push_cast
  by_cases h1 : e1 = i <;> by_cases h2 : e2 = i <;> simp [h1, h2]

theorem lapEdgesFace_symm (w : Nat → Rat) (es : List (Nat × Nat)) (t : Nat) (f : F3) (i j : Nat) :
    toFun (eval w (lapEdgesFace es t f)) i j = toFun (eval w (lapEdgesFace es t f)) j i := by
  unfold lapEdgesFace
  generalize List.range 3 = L
  induction L with
  | nil => rfl
  | cons k L ih =>
    simp only [List.flatMap_cons, eval_append, Mouette.Ops.toFun_append] at ih ⊢
    rw [ih, lapEdges_block, lapEdges_block, toFun_edgeBlock, toFun_edgeBlock, stiffEntry_symm]

theorem lapEdgesFace_rowSum (w : Nat → Rat) (es : List (Nat × Nat)) (t : Nat) (f : F3) (i : Nat) :
    rowSum (eval w (lapEdgesFace es t f)) i = 0 := by
  unfold lapEdgesFace
  generalize List.range 3 = L
  induction L with
  | nil => rfl
  | cons k L ih =>
    simp only [List.flatMap_cons, eval_append, rowSum_append] at ih ⊢
    rw [ih, lapEdges_block_rowSum]; ring

/-- the edge Laplacian is symmetric with zero row sums for every mesh, every edge numbering and every corner weights -/
theorem lapEdges_symmetric (w : Nat → Rat) (es : List (Nat × Nat)) (faces : List F3) (i j : Nat) :
    toFun (eval w (lapEdgesS es faces)) i j = toFun (eval w (lapEdgesS es faces)) j i := by
  unfold lapEdgesS
  generalize 0 = t
  induction faces generalizing t with
  | nil => rfl
  | cons f fs ih =>
    simp only [lapEdgesSAux, eval_append, Mouette.Ops.toFun_append]
    rw [ih (t + 1), lapEdgesFace_symm]

theorem lapEdges_row_sums_zero (w : Nat → Rat) (es : List (Nat × Nat)) (faces : List F3) (i : Nat) :
    rowSum (eval w (lapEdgesS es faces)) i = 0 := by
  unfold lapEdgesS
  generalize 0 = t
  induction faces generalizing t with
  | nil => rfl
  | cons f fs ih =>
    simp only [lapEdgesSAux, eval_append, rowSum_append]
    rw [ih (t + 1), lapEdgesFace_rowSum]; ring

/-- `graph_laplacian`-shaped cell Laplacian (`laplacian_tetrahedra`): every row sums to zero -/
theorem lapTet_row_sums_zero (cells : List (List Nat)) (i : Nat) : rowSum (lapTet cells) i = 0 := by
  unfold lapTet
  generalize List.range cells.length = L
  induction L with
  | nil => rfl
  | cons k L ih =>
    simp only [List.flatMap_cons, rowSum_append, ih, lapTetRow, rowSum_cons]
    have key : ∀ M : List Nat, rowSum (M.map (fun m => (k, m, (-1 : Rat)))) i = if k = i then -(M.length : Rat) else 0 := by
      intro M
      induction M with
      | nil => simp [rowSum, rsum]
      | cons a M ihM =>
        simp only [List.map_cons, rowSum_cons, ihM, List.length_cons]
        by_cases h : k = i <;> simp [h] <;> (try (push_cast; ring))
    rw [key]
    by_cases h : k = i <;> simp [h]

/-! ## `volume_laplacian`: `mat[I,I] += ω; mat[J,J] += ω; mat[I,J] = −ω; mat[J,I] = −ω` once per edge `e = (I,J)`,
`ω_e = Σ_{cells ∋ e} |KL| · |cot dihedral| / 6` (the per-cell terms are `volLapTerms` in the model, compared value by value with the
scipy matrix). Whatever the weights `ω`, the matrix is the block sum over the edge list: -/

/-- the volume Laplacian as the edge-block sum over the numbered edge list with weights `ω : edge id → ℚ` -/
theorem volLap_symmetric (es : List (Nat × Nat)) (ω : Nat → Rat) (i j : Nat) :
    toFun (blocks ((List.zipIdx es).map (fun p => (p.1.1, p.1.2, ω p.2)))) i j
      = toFun (blocks ((List.zipIdx es).map (fun p => (p.1.1, p.1.2, ω p.2)))) j i := blocks_symmetric _ i j

theorem volLap_row_sums_zero (es : List (Nat × Nat)) (ω : Nat → Rat) (i : Nat) :
    rowSum (blocks ((List.zipIdx es).map (fun p => (p.1.1, p.1.2, ω p.2)))) i = 0 := blocks_row_sums_zero _ i

/-- with non-negative weights (the code takes `|cot|`) the volume Laplacian is positive semi-definite: `xᵀ L x = Σ_e ω_e (x_I − x_J)² ≥ 0` -/
theorem blocks_quad_nonneg (bs : List (Nat × Nat × Rat)) (h : ∀ b ∈ bs, 0 ≤ b.2.2) (x : Nat → Rat) : 0 ≤ quad (blocks bs) x := by
  induction bs with
  | nil => simp [blocks, quad, rsum]
  | cons b bs ih =>
    rw [blocks_cons, quad_append, quad_edgeBlock]
    have h1 := ih (fun b' hb' => h b' (List.mem_cons_of_mem _ hb'))
    have h2 := h b (by simp)
    have h3 : 0 ≤ (x b.1 - x b.2.1) ^ 2 := by positivity
    have := mul_nonneg h2 h3
    linarith

/-! ## non-vacuity -/
example : toFun (laplacian (fun _ => 1/2) [(0, 1, 2)]) 0 0 = 1 := by
  norm_num [laplacian, lapS, lapSAux, faceLapS, edgeBlockS, eval, toFun, rsum]
example : norm2 (cross (sub (⟨1,0,0⟩ : V3) ⟨0,0,0⟩) (sub ⟨0,1,0⟩ ⟨0,0,0⟩)) ≠ 0 := by norm_num [norm2, dot, cross, sub]
example : nablaRow [[0, 1, 2], [1, 0, 3]] (0, 1) = [(0, -1), (1, 1)] := by decide
example : EdgeFaceIncidence [[0, 1, 2], [1, 0, 3]] [(0, 1), (1, 2), (0, 2), (0, 3), (1, 3)] := by decide
example : (allSides [[0, 1, 2], [1, 0, 3]]).Nodup ∧
    ∀ s ∈ allSides [[0, 1, 2], [1, 0, 3]], [(0, 1), (1, 2), (0, 2), (0, 3), (1, 3)].count s
      + [(0, 1), (1, 2), (0, 2), (0, 3), (1, 3)].count (swapP s) = 1 := by decide

end Mouette.Props.C08
