import Mouette.Generated.C03W
import Mouette.Props.C03Order
/-!
# C03 (round 6) — `_sort_edge_neighborhoods` as the SOURCE says it

`vlib/props/c03_source.py` compiles the whole body of `VolumeMesh._Connectivity._sort_edge_neighborhoods` (the guard, the
loop over the edges, the two `while True` walks with their `break`, the resets between them, the two `sort(key=..)` calls)
and of `other_face_side` into `Generated/C03W.lean`.  This file proves the bridges to the hand model (`Conn.otherFaceSide`,
`Conn.walk`, `Conn.sortEdge`) and restates the order theorems on what the source computes.
-/
namespace Mouette.Props.C03Walk
open Mouette.Vol Mouette.VolS
open Mouette.Generated
open Mouette.Props.C03Source Mouette.Props.C03Order

/-! ## `other_face_side` -/

theorem other_face_side_bridge (m : Mesh) (h4 : AllTets m) (c f : Nat) :
    C03W.other_face_side m c f = m.conn.otherFaceSide c f := by
  unfold C03W.other_face_side Conn.otherFaceSide
  rw [face_to_cells_bridge m h4]
  rcases hl : m.conn.faceToCells f with _ | ⟨a, _ | ⟨b, _ | ⟨d, t⟩⟩⟩
  · simp
  · simp
  · simp only [List.length_cons, List.length_nil, bne_self_eq_false, Bool.false_eq_true, if_false, unpack,
      List.getD_cons_zero, List.getD_cons_succ, beq_iff_eq]
    simp only [eq_comm (a := c)]
  · simp

/-! ## the walks -/

/-- the keys handed out by one walk: `k0 + σ, k0 + 2σ, …` in the order of the walk -/
def enumK (σ : Int) : List Nat → Int → IMap
  | [], _ => []
  | x :: r, k0 => (x, k0 + σ) :: enumK σ r (k0 + σ)

theorem enumK_fst (σ : Int) (l : List Nat) (k0 : Int) : (enumK σ l k0).map (·.1) = l := by
  induction l generalizing k0 with
  | nil => rfl
  | cons x r ih => simp [enumK, ih]

theorem enumK_eq_zipIdx (σ : Int) (l : List Nat) (n : Nat) :
    enumK σ l (σ * n) = (l.zipIdx n).map fun (x, i) => (x, σ * ((i : Int) + 1)) := by
  induction l generalizing n with
  | nil => rfl
  | cons x r ih =>
    simp only [enumK, List.zipIdx_cons, List.map]
    have h1 : σ * (n : Int) + σ = σ * ((n : Int) + 1) := by ring
    have h2 : σ * (n : Int) + σ = σ * ((n + 1 : Nat) : Int) := by push_cast; ring
    rw [h1]
    congr 1
    rw [← h1, h2]; exact ih (n + 1)

theorem enumK_zero (σ : Int) (l : List Nat) : enumK σ l 0 = Conn.enumFrom1 l σ := by
  have := enumK_eq_zipIdx σ l 0
  simp only [Nat.cast_zero, Int.mul_zero] at this
  rw [this]; rfl

theorem iHas_iSet (d : IMap) (k : Nat) (v : Int) (x : Nat) : iHas (iSet d k v) x = (iHas d x || x == k) := by
  simp only [iHas, iSet, List.map_append, List.map_cons, List.map_nil]
  rw [Bool.eq_iff_iff]
  simp [List.contains_iff_mem]

theorem pivot_filter (C : List Nat) (A B p : Nat) :
    C.filter (fun x => !([A, B, p].contains x)) = C.filter (fun x => x != A && x != B && x != p) := by
  apply List.filter_congr; intro x _
  by_cases h1 : x = A <;> by_cases h2 : x = B <;> by_cases h3 : x = p <;> simp [h1, h2, h3]

theorem pivot_filter2 (C : List Nat) (A B : Nat) :
    C.filter (fun x => !([A, B].contains x)) = C.filter (fun x => x != A && x != B) := by
  apply List.filter_congr; intro x _
  by_cases h1 : x = A <;> by_cases h2 : x = B <;> simp [h1, h2]

/-- a part of the state that the body never writes is unchanged by the loop -/
theorem whileTrue_inv {σ τ : Type} (brk : σ → Bool) (body : σ → σ) (π : σ → τ) (h : ∀ s, π (body s) = π s) :
    ∀ (n : Nat) (s : σ), π (whileTrue brk body n s) = π s := by
  intro n
  induction n with
  | zero => intro s; rfl
  | succ n ih =>
    intro s
    simp only [whileTrue]
    split
    · exact h s
    · rw [ih, h]

variable (m : Mesh)

/-- **first walk** (`while True` with pivot `p1`, keys counted upwards): whenever the hand model's `walk` succeeds, the
translated loop stops by its own `break` within the fuel and has handed out exactly the model's keys -/
theorem while1_bridge (h4 : AllTets m) (e A B : Nat) :
    ∀ (fuel c p : Nat) (seen cs fs : List Nat) (s : C03W.SortEdgeNeighborhoodsSt),
      m.conn.walk A B fuel c p seen = some (cs, fs) → s.iC = c → s.p1 = p → s.brk = false →
      (∀ x, iHas s.keys_cell x = seen.contains x) →
      let r := whileTrue (·.brk) (C03W.sort_edge_neighborhoods_while1 m e A B) fuel s
      r.brk = true ∧ r.keys_face = s.keys_face ++ enumK 1 fs s.kf ∧ r.keys_cell = s.keys_cell ++ enumK 1 cs s.kc
      ∧ r.adjE2C = s.adjE2C ∧ r.adjE2F = s.adjE2F ∧ r.p2 = s.p2 := by
  intro fuel
  induction fuel with
  | zero => intro c p seen cs fs s hw; simp [Conn.walk] at hw
  | succ n ih =>
    intro c p seen cs fs s hw hc hp hb hseen
    unfold Conn.walk at hw
    split at hw
    · cases hw
    · rename_i face hface
      have hfd : m.faceIdD [A, B, s.p1] = face := by
        unfold Mesh.faceIdD; rw [hp]
        have : m.faceId [A, B, p] = some face := hface
        rw [this]; rfl
      split at hw
      · rename_i hofs
        simp only [Option.some.injEq, Prod.mk.injEq] at hw
        obtain ⟨rfl, rfl⟩ := hw
        have ho : C03W.other_face_side m s.iC face = none := by
          rw [other_face_side_bridge m h4, hc]; exact hofs
        intro r
        have hr : r = { s with kf := s.kf + 1, keys_face := iSet s.keys_face face (s.kf + 1), brk := true } := by
          show whileTrue _ _ (n + 1) s = _
          simp only [whileTrue, C03W.sort_edge_neighborhoods_while1, hfd, ho, Option.isNone_none, Bool.true_or, if_true]
        rw [hr]
        exact ⟨rfl, by simp [enumK, iSet], by simp [enumK], rfl, rfl, rfl⟩
      · rename_i c' hofs
        have ho : C03W.other_face_side m s.iC face = some c' := by
          rw [other_face_side_bridge m h4, hc]; exact hofs
        split at hw
        · rename_i hin
          simp only [Option.some.injEq, Prod.mk.injEq] at hw
          obtain ⟨rfl, rfl⟩ := hw
          intro r
          have hh : iHas s.keys_cell c' = true := by rw [hseen]; exact hin
          have hr : r = { s with kf := s.kf + 1, keys_face := iSet s.keys_face face (s.kf + 1), brk := true } := by
            show whileTrue _ _ (n + 1) s = _
            simp only [whileTrue, C03W.sort_edge_neighborhoods_while1, hfd, ho, Option.isNone_some, Option.getD_some, hh,
              Bool.or_true, if_true]
          rw [hr]
          exact ⟨rfl, by simp [enumK, iSet], by simp [enumK], rfl, rfl, rfl⟩
        · rename_i hnin
          split at hw
          · cases hw
          · rename_i p' rest hp'
            split at hw
            · cases hw
            · rename_i cs' fs' hw'
              simp only [Option.some.injEq, Prod.mk.injEq] at hw
              obtain ⟨rfl, rfl⟩ := hw
              have hh : iHas s.keys_cell c' = false := by
                rw [hseen]; simpa using hnin
              have hpv : firstNotInD (m.cell c') [A, B, s.p1] = p' := by
                unfold firstNotInD firstNotIn
                rw [pivot_filter, hp]
                have : (m.conn.m.cell c').filter (fun x => x != A && x != B && x != p) = p' :: rest := hp'
                rw [show m.conn.m = m from rfl] at this
                rw [this]; rfl
              let s2 : C03W.SortEdgeNeighborhoodsSt :=
                { s with kf := s.kf + 1, keys_face := iSet s.keys_face face (s.kf + 1), kc := s.kc + 1,
                         keys_cell := iSet s.keys_cell c' (s.kc + 1), iC := c', p1 := p' }
              have hbody : C03W.sort_edge_neighborhoods_while1 m e A B s = s2 := by
                simp only [C03W.sort_edge_neighborhoods_while1, hfd, ho, Option.isNone_some, Option.getD_some, hh,
                  Bool.or_false, Bool.false_eq_true, if_false, hpv]
                rfl
              intro r
              have hr : r = whileTrue (·.brk) (C03W.sort_edge_neighborhoods_while1 m e A B) n s2 := by
                show whileTrue _ _ (n + 1) s = _
                simp only [whileTrue, hbody]
                have : s2.brk = false := hb
                simp [this]
              obtain ⟨i1, i2, i3, i4, i5, i6⟩ := ih c' p' (c' :: seen) cs' fs' s2 hw' rfl rfl hb (by
                intro x
                show iHas (iSet s.keys_cell c' (s.kc + 1)) x = _
                rw [iHas_iSet, hseen]
                by_cases hx : x = c' <;> simp [hx])
              rw [hr]
              refine ⟨i1, ?_, ?_, i4, i5, i6⟩
              · rw [i2]; show iSet s.keys_face face (s.kf + 1) ++ enumK 1 fs' (s.kf + 1) = _
                simp [enumK, iSet]
              · rw [i3]; show iSet s.keys_cell c' (s.kc + 1) ++ enumK 1 cs' (s.kc + 1) = _
                simp [enumK, iSet]

/-- **second walk** (`while True` with pivot `p2`, keys counted downwards): whenever the hand model's `walk` succeeds, the
translated loop stops by its own `break` within the fuel and has handed out exactly the model's keys -/
theorem while2_bridge (h4 : AllTets m) (e A B : Nat) :
    ∀ (fuel c p : Nat) (seen cs fs : List Nat) (s : C03W.SortEdgeNeighborhoodsSt),
      m.conn.walk A B fuel c p seen = some (cs, fs) → s.iC = c → s.p2 = p → s.brk = false →
      (∀ x, iHas s.keys_cell x = seen.contains x) →
      let r := whileTrue (·.brk) (C03W.sort_edge_neighborhoods_while2 m e A B) fuel s
      r.brk = true ∧ r.keys_face = s.keys_face ++ enumK (-1) fs s.kf ∧ r.keys_cell = s.keys_cell ++ enumK (-1) cs s.kc
      ∧ r.adjE2C = s.adjE2C ∧ r.adjE2F = s.adjE2F ∧ r.p1 = s.p1 := by
  intro fuel
  induction fuel with
  | zero => intro c p seen cs fs s hw; simp [Conn.walk] at hw
  | succ n ih =>
    intro c p seen cs fs s hw hc hp hb hseen
    unfold Conn.walk at hw
    split at hw
    · cases hw
    · rename_i face hface
      have hfd : m.faceIdD [A, B, s.p2] = face := by
        unfold Mesh.faceIdD; rw [hp]
        have : m.faceId [A, B, p] = some face := hface
        rw [this]; rfl
      split at hw
      · rename_i hofs
        simp only [Option.some.injEq, Prod.mk.injEq] at hw
        obtain ⟨rfl, rfl⟩ := hw
        have ho : C03W.other_face_side m s.iC face = none := by
          rw [other_face_side_bridge m h4, hc]; exact hofs
        intro r
        have hr : r = { s with kf := s.kf - 1, keys_face := iSet s.keys_face face (s.kf - 1), brk := true } := by
          show whileTrue _ _ (n + 1) s = _
          simp only [whileTrue, C03W.sort_edge_neighborhoods_while2, hfd, ho, Option.isNone_none, Bool.true_or, if_true]
        rw [hr]
        exact ⟨rfl, by simp [enumK, iSet, Int.sub_eq_add_neg], by simp [enumK], rfl, rfl, rfl⟩
      · rename_i c' hofs
        have ho : C03W.other_face_side m s.iC face = some c' := by
          rw [other_face_side_bridge m h4, hc]; exact hofs
        split at hw
        · rename_i hin
          simp only [Option.some.injEq, Prod.mk.injEq] at hw
          obtain ⟨rfl, rfl⟩ := hw
          intro r
          have hh : iHas s.keys_cell c' = true := by rw [hseen]; exact hin
          have hr : r = { s with kf := s.kf - 1, keys_face := iSet s.keys_face face (s.kf - 1), brk := true } := by
            show whileTrue _ _ (n + 1) s = _
            simp only [whileTrue, C03W.sort_edge_neighborhoods_while2, hfd, ho, Option.isNone_some, Option.getD_some, hh,
              Bool.or_true, if_true]
          rw [hr]
          exact ⟨rfl, by simp [enumK, iSet, Int.sub_eq_add_neg], by simp [enumK], rfl, rfl, rfl⟩
        · rename_i hnin
          split at hw
          · cases hw
          · rename_i p' rest hp'
            split at hw
            · cases hw
            · rename_i cs' fs' hw'
              simp only [Option.some.injEq, Prod.mk.injEq] at hw
              obtain ⟨rfl, rfl⟩ := hw
              have hh : iHas s.keys_cell c' = false := by
                rw [hseen]; simpa using hnin
              have hpv : firstNotInD (m.cell c') [A, B, s.p2] = p' := by
                unfold firstNotInD firstNotIn
                rw [pivot_filter, hp]
                have : (m.conn.m.cell c').filter (fun x => x != A && x != B && x != p) = p' :: rest := hp'
                rw [show m.conn.m = m from rfl] at this
                rw [this]; rfl
              let s2 : C03W.SortEdgeNeighborhoodsSt :=
                { s with kf := s.kf - 1, keys_face := iSet s.keys_face face (s.kf - 1), kc := s.kc - 1,
                         keys_cell := iSet s.keys_cell c' (s.kc - 1), iC := c', p2 := p' }
              have hbody : C03W.sort_edge_neighborhoods_while2 m e A B s = s2 := by
                simp only [C03W.sort_edge_neighborhoods_while2, hfd, ho, Option.isNone_some, Option.getD_some, hh,
                  Bool.or_false, Bool.false_eq_true, if_false, hpv]
                rfl
              intro r
              have hr : r = whileTrue (·.brk) (C03W.sort_edge_neighborhoods_while2 m e A B) n s2 := by
                show whileTrue _ _ (n + 1) s = _
                simp only [whileTrue, hbody]
                have : s2.brk = false := hb
                simp [this]
              obtain ⟨i1, i2, i3, i4, i5, i6⟩ := ih c' p' (c' :: seen) cs' fs' s2 hw' rfl rfl hb (by
                intro x
                show iHas (iSet s.keys_cell c' (s.kc - 1)) x = _
                rw [iHas_iSet, hseen]
                by_cases hx : x = c' <;> simp [hx])
              rw [hr]
              refine ⟨i1, ?_, ?_, i4, i5, i6⟩
              · rw [i2]; show iSet s.keys_face face (s.kf - 1) ++ enumK (-1) fs' (s.kf - 1) = _
                simp [enumK, iSet, Int.sub_eq_add_neg]
              · rw [i3]; show iSet s.keys_cell c' (s.kc - 1) ++ enumK (-1) cs' (s.kc - 1) = _
                simp [enumK, iSet, Int.sub_eq_add_neg]

/-! ## one edge, then the whole method -/

/-- **one iteration of the edge loop**: the keys handed out by the two translated walks are the hand model's
(`sortEdge`: start cell 0, forward cells 1, 2, …, backward cells −1, −2, …; forward faces 1, 2, …, backward faces −1, −2, …),
and the two `sort(key=..)` calls sort the two lists of this edge by them -/
theorem sort_edge_bridge (h4 : AllTets m) {e A B c0 p1 p2 : Nat} {rest cs1 fs1 cs2 fs2 : List Nat}
    (S : C03W.SortEdgeNeighborhoodsSt) (hraw : dGet S.adjE2C e = c0 :: rest)
    (hpiv : (m.cell c0).filter (fun x => x != A && x != B) = [p1, p2])
    (hw1 : m.conn.walk A B (m.nC + 1) c0 p1 [c0] = some (cs1, fs1))
    (hw2 : m.conn.walk A B (m.nC + 1) c0 p2 (cs1.reverse ++ [c0]) = some (cs2, fs2)) :
    (C03W.sort_edge_neighborhoods_edge m e A B S).adjE2C
        = dSortBy S.adjE2C e ((c0, (0 : Int)) :: Conn.enumFrom1 cs1 1 ++ Conn.enumFrom1 cs2 (-1))
    ∧ (C03W.sort_edge_neighborhoods_edge m e A B S).adjE2F
        = dSortBy S.adjE2F e (Conn.enumFrom1 fs1 1 ++ Conn.enumFrom1 fs2 (-1)) := by
  -- the state before the first walk
  have hpiv' : (m.cell c0).filter (fun x => !([A, B].contains x)) = [p1, p2] := by rw [pivot_filter2]; exact hpiv
  let S1 := C03W.sort_edge_neighborhoods_seg1 m e A B S
  have s1 : S1.iC = c0 ∧ S1.p1 = p1 ∧ S1.p2 = p2 ∧ S1.brk = false ∧ S1.keys_cell = [(c0, 0)] ∧ S1.keys_face = []
      ∧ S1.kc = 0 ∧ S1.kf = 0 ∧ S1.adjE2C = S.adjE2C ∧ S1.adjE2F = S.adjE2F := by
    simp only [S1, C03W.sort_edge_neighborhoods_seg1, hraw, List.getD_cons_zero, hpiv', unpack, List.getD_cons_succ, iSet,
      List.nil_append, and_self]
  obtain ⟨a1, a2, a3, a4, a5, a6, a7, a8, a9, a10⟩ := s1
  obtain ⟨_, r2, r3, r4, r5, r6⟩ := while1_bridge m h4 e A B (m.nC + 1) c0 p1 [c0] cs1 fs1 S1 hw1 a1 a2 a4 (by
    intro x; rw [a5]; simp [iHas, List.contains_cons, eq_comm])
  generalize hR1 : whileTrue (·.brk) (C03W.sort_edge_neighborhoods_while1 m e A B) (m.nC + 1) S1 = R1 at r2 r3 r4 r5 r6
  let S2 := C03W.sort_edge_neighborhoods_seg2 m e A B R1
  have s2 : S2.iC = c0 ∧ S2.p2 = p2 ∧ S2.brk = false ∧ S2.keys_cell = R1.keys_cell ∧ S2.keys_face = R1.keys_face
      ∧ S2.kc = 0 ∧ S2.kf = 0 ∧ S2.adjE2C = S.adjE2C ∧ S2.adjE2F = S.adjE2F := by
    simp only [S2, C03W.sort_edge_neighborhoods_seg2, r4, r5, r6, a9, a10, a3, hraw, List.getD_cons_zero, and_self]
  obtain ⟨b1, b2, b3, b4, b5, b6, b7, b8, b9⟩ := s2
  obtain ⟨_, q2, q3, q4, q5, _⟩ := while2_bridge m h4 e A B (m.nC + 1) c0 p2 (cs1.reverse ++ [c0]) cs2 fs2 S2 hw2 b1 b2 b3 (by
    intro x
    rw [b4, r3, a5, a7]
    simp only [iHas, List.map_append, List.map_cons, List.map_nil, enumK_fst]
    rw [Bool.eq_iff_iff]
    simp [List.contains_iff_mem, or_comm])
  generalize hR2 : whileTrue (·.brk) (C03W.sort_edge_neighborhoods_while2 m e A B) (m.nC + 1) S2 = R2 at q2 q3 q4 q5
  have hdef : C03W.sort_edge_neighborhoods_edge m e A B S = C03W.sort_edge_neighborhoods_seg3 m e A B R2 := by
    subst hR2; subst hR1; rfl
  rw [hdef]
  simp only [C03W.sort_edge_neighborhoods_seg3]
  rw [q4, q5, b8, b9, q3, q2, b4, b5, r3, r2, a5, a6, a7, a8, b6, b7, enumK_zero, enumK_zero, enumK_zero, enumK_zero]
  exact ⟨rfl, rfl⟩

theorem sortByKey_nil (K : IMap) : Conn.sortByKey [] K = [] := by
  unfold Conn.sortByKey; simp

theorem dGet_dSortBy (d : Dict) (k : Nat) (K : IMap) (j : Nat) :
    dGet (dSortBy d k K) j = if j = k then Conn.sortByKey (dGet d k) K else dGet d j := by
  unfold dGet dSortBy
  rw [List.getD_eq_getElem?_getD, List.getElem?_modify, List.getD_eq_getElem?_getD, List.getD_eq_getElem?_getD]
  by_cases h : j = k
  · subst h
    cases hd : d[j]? with
    | none => simp [sortByKey_nil]
    | some l => simp
  · have : ¬ k = j := fun hh => h hh.symm
    cases hd : d[j]? <;> simp [h, this]

theorem while1_frame (e A B : Nat) (s : C03W.SortEdgeNeighborhoodsSt) :
    (C03W.sort_edge_neighborhoods_while1 m e A B s).adjE2C = s.adjE2C
    ∧ (C03W.sort_edge_neighborhoods_while1 m e A B s).adjE2F = s.adjE2F := by
  unfold C03W.sort_edge_neighborhoods_while1
  simp only []
  split <;> exact ⟨rfl, rfl⟩

theorem while2_frame (e A B : Nat) (s : C03W.SortEdgeNeighborhoodsSt) :
    (C03W.sort_edge_neighborhoods_while2 m e A B s).adjE2C = s.adjE2C
    ∧ (C03W.sort_edge_neighborhoods_while2 m e A B s).adjE2F = s.adjE2F := by
  unfold C03W.sort_edge_neighborhoods_while2
  simp only []
  split <;> exact ⟨rfl, rfl⟩

/-- **frame**: whatever the walks do, one iteration of the edge loop only re-orders the two lists of its own edge -/
theorem sort_edge_frame (e A B : Nat) (S : C03W.SortEdgeNeighborhoodsSt) :
    ∃ K1 K2, (C03W.sort_edge_neighborhoods_edge m e A B S).adjE2C = dSortBy S.adjE2C e K1
      ∧ (C03W.sort_edge_neighborhoods_edge m e A B S).adjE2F = dSortBy S.adjE2F e K2 := by
  have e1 : ∀ R, (C03W.sort_edge_neighborhoods_seg3 m e A B R).adjE2C = dSortBy R.adjE2C e R.keys_cell := fun _ => rfl
  have e2 : ∀ R, (C03W.sort_edge_neighborhoods_seg3 m e A B R).adjE2F = dSortBy R.adjE2F e R.keys_face := fun _ => rfl
  have e3 : ∀ R, (C03W.sort_edge_neighborhoods_seg2 m e A B R).adjE2C = R.adjE2C
      ∧ (C03W.sort_edge_neighborhoods_seg2 m e A B R).adjE2F = R.adjE2F := fun _ => ⟨rfl, rfl⟩
  have e4 : ∀ R, (C03W.sort_edge_neighborhoods_seg1 m e A B R).adjE2C = R.adjE2C
      ∧ (C03W.sort_edge_neighborhoods_seg1 m e A B R).adjE2F = R.adjE2F := fun _ => ⟨rfl, rfl⟩
  obtain ⟨R2, hR2⟩ : ∃ R2, R2 = whileTrue (·.brk) (C03W.sort_edge_neighborhoods_while2 m e A B) (m.nC + 1)
      (C03W.sort_edge_neighborhoods_seg2 m e A B (whileTrue (·.brk) (C03W.sort_edge_neighborhoods_while1 m e A B) (m.nC + 1)
        (C03W.sort_edge_neighborhoods_seg1 m e A B S))) := ⟨_, rfl⟩
  have hdef : C03W.sort_edge_neighborhoods_edge m e A B S = C03W.sort_edge_neighborhoods_seg3 m e A B R2 := by rw [hR2]; rfl
  have hC : R2.adjE2C = S.adjE2C := by
    rw [hR2, whileTrue_inv _ _ C03W.SortEdgeNeighborhoodsSt.adjE2C (fun s => (while2_frame m e A B s).1), (e3 _).1,
      whileTrue_inv _ _ C03W.SortEdgeNeighborhoodsSt.adjE2C (fun s => (while1_frame m e A B s).1), (e4 _).1]
  have hF : R2.adjE2F = S.adjE2F := by
    rw [hR2, whileTrue_inv _ _ C03W.SortEdgeNeighborhoodsSt.adjE2F (fun s => (while2_frame m e A B s).2), (e3 _).2,
      whileTrue_inv _ _ C03W.SortEdgeNeighborhoodsSt.adjE2F (fun s => (while1_frame m e A B s).2), (e4 _).2]
  exact ⟨R2.keys_cell, R2.keys_face, by rw [hdef, e1, hC], by rw [hdef, e2, hF]⟩

/-- **`_sort_edge_neighborhoods` as the source computes it = the hand model's `sortEdge`**, for every edge on which the
model's walks succeed: after the loop over all edges, `_adjE2C[e]` and `_adjE2F[e]` are exactly `sortEdge e` -/
theorem sort_edge_neighborhoods_bridge (h4 : AllTets m) (htet : m.isTetrahedral = true) {e : Nat} {cs fs : List Nat}
    (hs : m.conn.sortEdge e = some (cs, fs)) :
    dGet (C03W.sort_edge_neighborhoods m).adjE2C e = cs ∧ dGet (C03W.sort_edge_neighborhoods m).adjE2F e = fs := by
  -- what `sortEdge e = some ..` says
  unfold Conn.sortEdge at hs
  split at hs
  · rename_i A B c0 rest hedge hraw
    split at hs
    · rename_i p1 p2 hpiv
      split at hs
      · cases hs
      · rename_i cs1 fs1 hw1
        split at hs
        · cases hs
        · rename_i cs2 fs2 hw2
          simp only [Option.some.injEq, Prod.mk.injEq] at hs
          obtain ⟨hcs, hfs⟩ := hs
          have hm : m.conn.m = m := rfl
          rw [hm] at hedge hpiv
          -- the loop over the edges
          unfold C03W.sort_edge_neighborhoods
          simp only [htet, Bool.not_true, Bool.false_eq_true, if_false]
          generalize hS0 : (C03W.SortEdgeNeighborhoodsSt.mk (C03S.compute_edge_id m).adjE2C (C03S.compute_edge_id m).adjE2F [] [] 0 0 0 0 0 false false) = S0
          have hC0 : dGet S0.adjE2C e = m.conn.e2cRaw e := by rw [← hS0]; exact compute_edge_id_E2C_bridge m h4 e
          have hF0 : dGet S0.adjE2F e = m.conn.e2f.getD e [] := by
            rw [← hS0]; show dGet (C03S.compute_edge_id m).adjE2F e = _; rw [compute_edge_id_E2F_bridge]; rfl
          have key : ∀ n, let T := (List.range n).foldl (fun s x0 =>
                C03W.sort_edge_neighborhoods_edge m x0 (unpack (m.edge x0) 0) (unpack (m.edge x0) 1) s) S0
              (dGet T.adjE2C e = if e < n then cs else m.conn.e2cRaw e)
              ∧ (dGet T.adjE2F e = if e < n then fs else m.conn.e2f.getD e []) := by
            intro n
            induction n with
            | zero => exact ⟨by simpa using hC0, by simpa using hF0⟩
            | succ n ih =>
              intro T
              have hT : T = C03W.sort_edge_neighborhoods_edge m n (unpack (m.edge n) 0) (unpack (m.edge n) 1)
                  ((List.range n).foldl (fun s x0 =>
                    C03W.sort_edge_neighborhoods_edge m x0 (unpack (m.edge x0) 0) (unpack (m.edge x0) 1) s) S0) := by
                show List.foldl _ S0 (List.range (n + 1)) = _
                rw [List.range_succ, List.foldl_append]; rfl
              generalize hTn : (List.range n).foldl (fun s x0 =>
                    C03W.sort_edge_neighborhoods_edge m x0 (unpack (m.edge x0) 0) (unpack (m.edge x0) 1) s) S0 = Tn at hT ih
              obtain ⟨ihC, ihF⟩ := ih
              by_cases hen : e = n
              · subst hen
                have hA : unpack (m.edge e) 0 = A ∧ unpack (m.edge e) 1 = B := by rw [hedge]; exact ⟨rfl, rfl⟩
                rw [hA.1, hA.2] at hT
                have hrawT : dGet Tn.adjE2C e = c0 :: rest := by
                  rw [ihC]; simp only [Nat.lt_irrefl, if_false]; exact hraw
                obtain ⟨b1, b2⟩ := sort_edge_bridge m h4 Tn hrawT hpiv hw1 hw2
                rw [hT, b1, b2, dGet_dSortBy, dGet_dSortBy]
                simp only [if_true, Nat.lt_succ_self]
                rw [hrawT, ihF]
                simp only [Nat.lt_irrefl, if_false]
                rw [← hraw]
                exact ⟨hcs, hfs⟩
              · obtain ⟨K1, K2, f1, f2⟩ := sort_edge_frame m n (unpack (m.edge n) 0) (unpack (m.edge n) 1) Tn
                rw [hT, f1, f2, dGet_dSortBy, dGet_dSortBy]
                simp only [hen, if_false]
                rw [ihC, ihF]
                by_cases hlt : e < n
                · have : e < n + 1 := by omega
                  simp [hlt, this]
                · have : ¬ e < n + 1 := by omega
                  simp [hlt, this]
          have he : e < m.nE := by
            by_cases h : e < m.nE
            · exact h
            · exfalso
              have : m.edge e = [] := by
                unfold Mesh.edge; rw [List.getD_eq_getElem?_getD, List.getElem?_eq_none (by unfold Mesh.nE at h; omega)]; rfl
              rw [this] at hedge; cases hedge
          obtain ⟨k1, k2⟩ := key m.nE
          simp only [he, if_true] at k1 k2
          exact ⟨k1, k2⟩
    · cases hs
  · cases hs

theorem isTetrahedral_of_allTets (h4 : AllTets m) : m.isTetrahedral = true := by
  unfold Mesh.isTetrahedral
  rw [List.all_eq_true]
  intro C hC
  obtain ⟨c, hc, rfl⟩ := exists_cell_of_mem hC
  simp [h4 c hc]

/-! ## the order theorems, on what the source computes -/

/-- **rotational order of `edge_to_face`, on the source**: whenever the decidable `faceOrder m.conn e` evaluates to `some fs`
(open fan or closed ring), the list `_adjE2F[e]` left by the translated `_sort_edge_neighborhoods` is `fs` -/
theorem edge_to_face_order_source {m : Mesh} (h : Conforming m) {e : Nat} {fs : List Nat}
    (hfo : faceOrder m.conn e = some fs) : dGet (C03W.sort_edge_neighborhoods m).adjE2F e = fs := by
  obtain ⟨cs, hs⟩ := edge_to_face_order_of_faceOrder m.conn hfo
  exact (sort_edge_neighborhoods_bridge m h.cell4 (isTetrahedral_of_allTets m h.cell4) hs).2

/-- **rotational order of `edge_to_cell`, on the source**: whenever the decidable `edgeUmbrella m.conn e` holds, the list
`_adjE2C[e]` left by the translated `_sort_edge_neighborhoods` is: backward walk reversed, start cell, forward walk, both
walks being chains of cells glued through stored faces containing the edge, without repetition -/
theorem edge_to_cell_order_source {m : Mesh} (h : Conforming m) {e : Nat} (hu : edgeUmbrella m.conn e = true) :
    ∃ A B c0 cs1 fs1 cs2 fs2, m.edge e = [A, B]
      ∧ dGet (C03W.sort_edge_neighborhoods m).adjE2C e = cs2.reverse ++ c0 :: cs1
      ∧ WalkChain m.conn A B c0 cs1 fs1 ∧ WalkChain m.conn A B c0 cs2 fs2 ∧ (c0 :: cs1 ++ cs2).Nodup := by
  obtain ⟨A, B, c0, cs1, fs1, cs2, fs2, fs, hedge, hs, h1, h2, hnd⟩ := edge_to_cell_order_of_umbrella m.conn hu
  exact ⟨A, B, c0, cs1, fs1, cs2, fs2, hedge,
    (sort_edge_neighborhoods_bridge m h.cell4 (isTetrahedral_of_allTets m h.cell4) hs).1, h1, h2, hnd⟩

/-- non-vacuity: the translated method evaluated on `ring3` (interior edge 5) and `twoTets` (border edge 1) -/
example : C03W.other_face_side Mouette.Props.C03.twoTets 0 0 = some 1 ∧ C03W.other_face_side Mouette.Props.C03.twoTets 0 1 = none := by
  decide +kernel
example : dGet (C03W.sort_edge_neighborhoods Mouette.Props.C03.ring3).adjE2F 5 = [2, 3, 6] :=
  edge_to_face_order_source (Mouette.Props.C03.conforming_of_flag (by decide +kernel)) (by decide +kernel)
example : dGet (C03W.sort_edge_neighborhoods Mouette.Props.C03.twoTets).adjE2F 1 = [6, 0, 3] :=
  edge_to_face_order_source (Mouette.Props.C03.conforming_of_flag (by decide +kernel)) (by decide +kernel)

/-! ## `edge_to_face` / `edge_to_cell` -/

/-- **`edge_to_cell(e)` / `edge_to_face(e)` as the source computes them = the hand model's `edgeToCellFace`**, for either setting
of `config.sort_neighborhoods`, whenever the model answers (i.e. the Python code does not raise) -/
theorem edge_to_cell_face_bridge {m : Mesh} (h : Conforming m) (sorted : Bool) {e : Nat} {cs fs : List Nat}
    (hm : m.conn.edgeToCellFace sorted e = some (cs, fs)) :
    C03W.edge_to_cell m sorted e = cs ∧ C03W.edge_to_face m sorted e = fs := by
  have h4 : AllTets m := h.cell4
  have htet := isTetrahedral_of_allTets m h4
  unfold Conn.edgeToCellFace at hm
  unfold C03W.edge_to_cell C03W.edge_to_face
  cases sorted with
  | true =>
    have : m.conn.m.isTetrahedral = true := htet
    simp only [this, Bool.and_self, if_true] at hm
    simp only [if_true]
    exact sort_edge_neighborhoods_bridge m h4 htet hm
  | false =>
    simp only [Bool.false_and, Bool.false_eq_true, if_false, Option.some.injEq, Prod.mk.injEq] at hm
    simp only [Bool.false_eq_true, if_false]
    obtain ⟨rfl, rfl⟩ := hm
    exact ⟨compute_edge_id_E2C_bridge m h4 e, by rw [compute_edge_id_E2F_bridge]; rfl⟩

end Mouette.Props.C03Walk
