import Mouette.Lemmas.AABB
import Mouette.Lemmas.BoxHist
import Mouette.Lemmas.Prim
/-
C12 — geometric primitives and boxes obey their algebra, with no side effects.

Box laws: over `EQ` (rationals with ±∞) bound vectors of ANY dimension (lists); a box is *valid* when
`lo ≤ hi` componentwise (`AllLe b.lo b.hi`, which also forces equal sizes).  Primitives: over ℚ.
Frame conditions: on the heap model `Model/BoxHist.lean` (repaired constructor / repaired `normalized`);
the rules of the pinned tree are refuted on witnesses.

The angle clauses (three-point angle in [0, π] and symmetric, signed angle antisymmetric, `cotan = 1/tan`, angle
reduction modulo 2π into [−π, π], n-th roots raised to n) are in `Props/C12R.lean`, stated over ℝ/ℂ about
noncomputable specifications of atan2 / float modulo / cmath.rect (tied to the code by the numerical oracle only).
-/
namespace Mouette.Props.C12
open Mouette.AABB Mouette.AABB.EQ Mouette.AABB.Box Mouette.BoxHist Mouette.Prim

/-! ### boxes -/

/-- the projection of a point lies in the closed box (valid box, point of the box's dimension) -/
theorem project_in_box (b : Box) (p : List Rat) (hv : AllLe b.lo b.hi) (hp : p.length = b.dim) :
    ∃ r, b.project p = some r ∧ AllLe b.lo r ∧ AllLe r b.hi := by
  have hl : b.lo.length = b.hi.length := hv.length_eq
  exact ⟨_, project_eq_clamp hp hl, clampVec_in hv hp⟩

/-- the projection realises the l1 point–box distance: `‖p − project p‖₁ = distance(p,'l1')` -/
theorem project_realises_l1 (b : Box) (q : List Rat) (hv : AllLe b.lo b.hi) (hp : q.length = b.dim)
    (x : List EQ) (hx : b.project q = some x) : normL1 (diffVec q x) = normL1 (distVec b.lo b.hi q) := by
  rw [project_eq_clamp hp hv.length_eq] at hx
  cases hx
  exact normL1_diff_clamp hv

/-- … the l∞ distance -/
theorem project_realises_linf (b : Box) (q : List Rat) (hv : AllLe b.lo b.hi) (hp : q.length = b.dim)
    (x : List EQ) (hx : b.project q = some x) : normLinf (diffVec q x) = normLinf (distVec b.lo b.hi q) := by
  rw [project_eq_clamp hp hv.length_eq] at hx
  cases hx
  exact normLinf_diff_clamp hv

/-- … the (squared) l2 distance: `‖p − project p‖₂² = distance(p,'l2')²` -/
theorem project_realises_l2 (b : Box) (q : List Rat) (hv : AllLe b.lo b.hi) (hp : q.length = b.dim)
    (x : List EQ) (hx : b.project q = some x) : normL2sq (diffVec q x) = b.dist2 q := by
  rw [project_eq_clamp hp hv.length_eq] at hx
  cases hx
  exact normL2sq_diff_clamp hv

/-- a contained point (half-open `contains_point`, or more generally a point of the closed box) is at distance zero in
each norm -/
theorem contained_dist_zero (b : Box) (q : List Rat) (hl : b.lo.length = b.hi.length) :
    (b.contains q = some true → b.distance q "l1" = some (fin 0) ∧ b.distance q "linf" = some (fin 0) ∧ b.distance q "l2" = some (fin 0)) ∧
    (insideClosed b.lo b.hi q = true → normL1 (distVec b.lo b.hi q) = fin 0 ∧ normLinf (distVec b.lo b.hi q) = fin 0 ∧ b.dist2 q = fin 0) := by
  constructor
  · intro hc
    unfold Box.contains at hc
    split at hc
    · rename_i hp
      simp only [Option.some.injEq] at hc
      have hz := norms_zero_of_inside (insideClosed_of_contains hp hl hc)
      simp [Box.distance, hp, hz.1, hz.2.1, hz.2.2]
    · cases hc
  · intro hin
    exact norms_zero_of_inside hin

/-- the union contains both operands (bounds componentwise) -/
theorem union_contains (a b u : Box) (ha : a.lo.length = a.hi.length) (hb : b.lo.length = b.hi.length)
    (h : Box.union a b = some u) :
    AllLe u.lo a.lo ∧ AllLe u.lo b.lo ∧ AllLe a.hi u.hi ∧ AllLe b.hi u.hi := by
  unfold Box.union at h
  split at h
  · rename_i hd
    simp only [Option.some.injEq] at h
    subst h
    have hd' : a.lo.length = b.lo.length := hd
    have h1 := zipWith_min_le hd'
    have h2 := le_zipWith_max (a := a.hi) (b := b.hi) (by omega)
    exact ⟨h1.1, h1.2, h2.1, h2.2⟩
  · cases h

/-- the intersection is the componentwise overlap: its bounds are `max` of the minima / `min` of the maxima, and a point
lies in it (closed) iff it lies in both operands -/
theorem inter_is_overlap (a b i : Box) (ha : a.lo.length = a.hi.length) (hb : b.lo.length = b.hi.length)
    (h : Box.inter a b = some i) :
    i.lo = List.zipWith EQ.max a.lo b.lo ∧ i.hi = List.zipWith EQ.min a.hi b.hi ∧
    ∀ p, insideClosed i.lo i.hi p = true ↔ insideClosed a.lo a.hi p = true ∧ insideClosed b.lo b.hi p = true := by
  unfold Box.inter at h
  split at h
  · rename_i hd
    simp only [Option.some.injEq] at h
    subst h
    have hd' : a.lo.length = b.lo.length := hd
    exact ⟨rfl, rfl, fun p => inside_inter hd' (by omega)⟩
  · cases h

/-- two valid boxes intersect (`do_intersect`) exactly when the overlap has non-negative extent in every dimension -/
theorem doIntersect_iff_overlap (a b : Box) (ha : AllLe a.lo a.hi) (hb : AllLe b.lo b.hi) (hd : a.dim = b.dim) :
    Box.doIntersect a b = some true ↔ AllLe (List.zipWith EQ.max a.lo b.lo) (List.zipWith EQ.min a.hi b.hi) := by
  unfold Box.doIntersect
  rw [if_pos hd]
  simp only [Option.some.injEq]
  exact overlapAll_iff ha hb hd

/-- outside the domain of the law: for an INVERTED box (`lo > hi`) `do_intersect` answers True although the overlap is empty -/
theorem doIntersect_inverted_witness :
    Box.doIntersect ⟨[fin 2], [fin 1]⟩ ⟨[fin 0], [fin 3]⟩ = some true ∧
    ¬ AllLe (List.zipWith EQ.max [fin 2] [fin 0]) (List.zipWith EQ.min [fin 1] [fin 3]) := by
  constructor
  · decide +kernel
  · intro h
    have := (List.forall₂_cons.mp h).1
    revert this; decide +kernel

/-- `of_points` (padding ≥ 0) contains every point -/
theorem ofPoints_contains (p : List Rat) (ps : List (List Rat)) (pad : Rat) (hpad : 0 ≤ pad)
    (hd : ∀ q ∈ ps, q.length = p.length) (b : Box) (h : Box.ofPoints (p :: ps) pad = some b) :
    ∀ q ∈ p :: ps, insideClosed b.lo b.hi q = true := by
  simp only [Box.ofPoints, Option.some.injEq] at h
  subst h
  have hmin := colFold_rmin_le ps p hd
  have hmax := colFold_rmax_ge ps p hd
  intro q hq
  rcases List.mem_cons.mp hq with rfl | hq
  · exact insideClosed_of_rle hpad hmin.1 hmax.1
  · exact insideClosed_of_rle hpad (hmin.2 q hq) (hmax.2 q hq)

/-- `of_points` is tight: along every axis the lower (upper) bound is attained by a point, up to the padding -/
theorem ofPoints_tight (p : List Rat) (ps : List (List Rat)) (pad : Rat)
    (hd : ∀ q ∈ ps, q.length = p.length) (b : Box) (h : Box.ofPoints (p :: ps) pad = some b) (a : Nat) (ha : a < p.length) :
    (∃ q ∈ p :: ps, b.lo.getD a ninf = fin (q.getD a 0 - pad)) ∧ (∃ q ∈ p :: ps, b.hi.getD a pinf = fin (q.getD a 0 + pad)) := by
  simp only [Box.ofPoints, Option.some.injEq] at h
  subst h
  obtain ⟨q1, hq1, e1⟩ := colFold_attained rmin rmin_cases ps p a hd ha
  obtain ⟨q2, hq2, e2⟩ := colFold_attained rmax rmax_cases ps p a hd ha
  have l1 : a < (colFold rmin p ps).length := by rw [length_colFold rmin ps p hd]; exact ha
  have l2 : a < (colFold rmax p ps).length := by rw [length_colFold rmax ps p hd]; exact ha
  refine ⟨⟨q1, hq1, ?_⟩, ⟨q2, hq2, ?_⟩⟩
  · simp only [List.getD_eq_getElem?_getD, List.getElem?_map] at e1 ⊢
    rw [List.getElem?_eq_getElem l1] at e1 ⊢
    simp only [Option.map_some, Option.getD_some] at e1 ⊢
    rw [e1]
  · simp only [List.getD_eq_getElem?_getD, List.getElem?_map] at e2 ⊢
    rw [List.getElem?_eq_getElem l2] at e2 ⊢
    simp only [Option.map_some, Option.getD_some] at e2 ⊢
    rw [e2]

/-! ### vector primitives -/

/-- the cross product is orthogonal to both arguments -/
theorem cross_orthogonal (a b : V3) : V3.dot (V3.cross a b) a = 0 ∧ V3.dot (V3.cross a b) b = 0 := cross_orth a b

/-- antisymmetry of the cross product -/
theorem cross_antisymm (a b : V3) : V3.cross a b = V3.smul (-1) (V3.cross b a) := by
  simp only [V3.cross, V3.smul, V3.mk.injEq]; refine ⟨?_, ?_, ?_⟩ <;> ring

/-- Lagrange identity `|a × b|² = |a|²|b|² − (a·b)²` (so `atan2(|a×b|, a·b)` is the angle between `a` and `b`) -/
theorem lagrange_identity (a b : V3) :
    V3.norm2 (V3.cross a b) = V3.norm2 a * V3.norm2 b - V3.dot a b * V3.dot a b := by
  simp only [V3.norm2, V3.dot, V3.cross]; ring

/-- `det_3x3` (Sarrus, as coded) is the triple product -/
theorem det3_eq_triple (A B C : V3) : det3 A B C = V3.dot A (V3.cross B C) := by
  simp only [det3, V3.dot, V3.cross]; ring

/-- `det_2x2` is antisymmetric, vanishes on equal columns and is the z-component of the 3-D cross product -/
theorem det2_antisymm (A B : V2) :
    det2 A B = - det2 B A ∧ det2 A A = 0 ∧ det2 A B = (V3.cross ⟨A.x, A.y, 0⟩ ⟨B.x, B.y, 0⟩).z := by
  refine ⟨?_, ?_, ?_⟩ <;> simp only [det2, V3.cross] <;> ring

/-- `rotate_2d` is an isometry (norms and dot products) when `c² + s² = 1` -/
theorem rot2_isometry (v w : V2) (c s : Rat) (h : c * c + s * s = 1) :
    V2.norm2 (rot2 v c s) = V2.norm2 v ∧ V2.dot (rot2 v c s) (rot2 w c s) = V2.dot v w := by
  constructor
  · simp only [V2.norm2, V2.dot, rot2]; linear_combination (v.x * v.x + v.y * v.y) * h
  · simp only [V2.dot, rot2]; linear_combination (v.x * w.x + v.y * w.y) * h

/-- 2-D rotations compose by angle addition, in `(cos, sin)` form -/
theorem rot2_compose (v : V2) (c1 s1 c2 s2 : Rat) :
    rot2 (rot2 v c1 s1) c2 s2 = rot2 v (c1 * c2 - s1 * s2) (s1 * c2 + c1 * s2) := by
  simp only [rot2, V2.mk.injEq]; constructor <;> ring

/-- the coded Rodrigues matrix is an isometry when `c² + s² = 1` and the axis is a unit vector -/
theorem rotAxis_isometry (v u : V3) (c s : Rat) (h1 : c * c + s * s = 1) (h2 : V3.norm2 u = 1) :
    V3.norm2 (rotAxis v u c s) = V3.norm2 v := by
  simp only [V3.norm2, V3.dot, rotAxis] at h2 ⊢
  linear_combination (v.x*v.x+v.y*v.y+v.z*v.z - (u.x*v.x+u.y*v.y+u.z*v.z)^2) * h1 +
    ((1-c)^2*(u.x*v.x+u.y*v.y+u.z*v.z)^2 + s^2 * (v.x*v.x+v.y*v.y+v.z*v.z)) * h2

/-- it fixes its axis -/
theorem rotAxis_fixes_axis (u : V3) (c s : Rat) (h2 : V3.norm2 u = 1) : rotAxis u u c s = u := by
  simp only [V3.norm2, V3.dot] at h2
  cases u with | mk x y z =>
  simp only [rotAxis, V3.mk.injEq] at h2 ⊢
  refine ⟨?_, ?_, ?_⟩
  · linear_combination ((1-c)*x) * h2
  · linear_combination ((1-c)*y) * h2
  · linear_combination ((1-c)*z) * h2

/-- rotations about the same unit axis compose by angle addition, in `(cos, sin)` form -/
theorem rotAxis_compose (v u : V3) (c1 s1 c2 s2 : Rat) (h2 : V3.norm2 u = 1) :
    rotAxis (rotAxis v u c1 s1) u c2 s2 = rotAxis v u (c1 * c2 - s1 * s2) (s1 * c2 + c1 * s2) := by
  simp only [V3.norm2, V3.dot] at h2
  cases u with | mk x y z =>
  cases v with | mk a b d =>
  simp only [rotAxis, V3.mk.injEq] at h2 ⊢
  refine ⟨?_, ?_, ?_⟩
  · linear_combination ((1-c1)*(1-c2)*(x*a+y*b+z*d)*x - s1*s2*a) * h2
  · linear_combination ((1-c1)*(1-c2)*(x*a+y*b+z*d)*y - s1*s2*b) * h2
  · linear_combination ((1-c1)*(1-c2)*(x*a+y*b+z*d)*z - s1*s2*d) * h2

/-- every point on the line through the exact circumcentre along the triangle's normal is equidistant from the three
vertices.  (`geometry.circumcenter` of the pinned tree returns the point of this line lying in the plane through the
ORIGIN — it drops the out-of-plane offset, C07 — the repaired one the point in the triangle's plane: both are covered.) -/
theorem circumcenter_axis_equidistant (v1 v2 v3 ctr n : V3) (h : circumcenter v1 v2 v3 = some (ctr, n)) (τ : Rat) :
    V3.norm2 (V3.sub (V3.add ctr (V3.smul τ n)) v1) = V3.norm2 (V3.sub (V3.add ctr (V3.smul τ n)) v2) ∧
    V3.norm2 (V3.sub (V3.add ctr (V3.smul τ n)) v1) = V3.norm2 (V3.sub (V3.add ctr (V3.smul τ n)) v3) := by
  unfold circumcenter at h
  simp only at h
  split at h
  · cases h
  · rename_i hn
    simp only [Option.some.injEq, Prod.mk.injEq] at h
    obtain ⟨rfl, rfl⟩ := h
    have hw := circum_w_dot (V3.sub v2 v1) (V3.sub v3 v1)
    have ho := cross_orth (V3.sub v2 v1) (V3.sub v3 v1)
    rw [add_assoc']
    constructor
    · apply equidist_of
      rw [dot_add_left, dot_smul, dot_smul, hw.1, ho.1]
      field_simp
      ring
    · apply equidist_of
      rw [dot_add_left, dot_smul, dot_smul, hw.2, ho.2]
      field_simp
      ring

/-- the circumcentre is equidistant from the three vertices (non-degenerate triangle) -/
theorem circumcenter_equidistant (v1 v2 v3 ctr n : V3) (h : circumcenter v1 v2 v3 = some (ctr, n)) :
    V3.norm2 (V3.sub ctr v1) = V3.norm2 (V3.sub ctr v2) ∧ V3.norm2 (V3.sub ctr v1) = V3.norm2 (V3.sub ctr v3) := by
  have := circumcenter_axis_equidistant v1 v2 v3 ctr n h 0
  simpa [smul_zero', add_zero'] using this

/-- … and lies in the plane of the triangle -/
theorem circumcenter_in_plane (v1 v2 v3 ctr n : V3) (h : circumcenter v1 v2 v3 = some (ctr, n)) :
    V3.dot (V3.sub ctr v1) n = 0 := by
  unfold circumcenter at h
  simp only at h
  split at h
  · cases h
  · rename_i hn
    simp only [Option.some.injEq, Prod.mk.injEq] at h
    obtain ⟨rfl, rfl⟩ := h
    cases v1; cases v2; cases v3
    simp only [V3.dot, V3.sub, V3.add, V3.smul, V3.cross, V3.norm2]
    ring

/-- non-vacuity: the right triangle (0,0,1), (1,0,1), (0,1,1) -/
example : circumcenter ⟨0, 0, 1⟩ ⟨1, 0, 1⟩ ⟨0, 1, 1⟩ = some (⟨1/2, 1/2, 1⟩, ⟨0, 0, 1⟩) := by decide +kernel

/-! ### frame conditions -/

/-- **No side effects (repaired code), for every history.** Starting from a state whose boxes own their arrays, after ANY
sequence of operations the caller's arrays and numpy's error state are as they were, after every single operation. -/
theorem frame_repaired (n : Nat) : ∀ (ops : List Op) (s : State), Owned n s →
    Owned n (runWith step n s ops).1 ∧
    ∀ r ∈ (runWith step n s ops).2, r.2.1 = s.heap.take n ∧ r.2.2 = s.err
  | [], s, h => ⟨h, by simp [runWith]⟩
  | op :: ops, s, h => by
    have f := step_frame h op
    have ih := frame_repaired n ops (step s op).1 f.owned
    simp only [runWith]
    refine ⟨ih.1, ?_⟩
    intro r hr
    rcases List.mem_cons.mp hr with rfl | hr
    · exact ⟨f.caller, f.err⟩
    · have := ih.2 r hr
      exact ⟨this.1.trans f.caller, this.2.trans f.err⟩

/-- a history started on fresh caller arrays -/
theorem frame_repaired_init (arrs : List (List Rat)) (ops : List Op) :
    ∀ r ∈ (runWith step arrs.length (init arrs) ops).2, r.2.1 = (init arrs).heap ∧ r.2.2 = Err.default := by
  intro r hr
  have := (frame_repaired arrs.length ops (init arrs) (owned_init arrs)).2 r hr
  have ht : (init arrs).heap.take arrs.length = (init arrs).heap := List.take_of_length_le (by simp [init])
  rw [ht] at this
  exact ⟨this.1, this.2⟩

/-- **`pad` modifies only its own box**: every other array of the heap — the caller's, and those of every other box —
is unchanged, hence every other box has the same bounds afterwards. -/
theorem pad_only_own_box (n : Nat) (s s' : State) (b : BoxRef) (p : List Rat) (h : Owned n s) (hb : b ∈ s.boxes)
    (hp : padAt s b p = some s') :
    (∀ r, r ≠ b.lo → r ≠ b.hi → s'.get r = s.get r) ∧
    (∀ b' ∈ s.boxes, b' ≠ b → s'.box b' = s.box b') ∧
    s'.heap.take n = s.heap.take n := by
  refine ⟨padAt_other hp, ?_, ?_⟩
  · intro b' hb' hne
    have d := owned_disjoint h hb' hb hne
    simp only [State.box]
    rw [padAt_other hp b'.lo d.1 d.2.1, padAt_other hp b'.hi d.2.2.1 d.2.2.2]
  · have r := h.refs b hb
    exact padAt_caller r.1 (by omega) hp

/-- **The constructor of the pinned tree aliases the caller's arrays** (refutation witness): `b = AABB(p1,p2); b.pad(1/2)` with
`p1 = (0,0)`, `p2 = (1,1)` changes both caller arrays; with the repaired constructor they are unchanged. -/
theorem mkWrap_aliases_caller :
    (runWith stepOriginal 2 (init [[0, 0], [1, 1]]) [.mk 0 1, .padf 0 (1/2)]).1.heap.take 2
      = [[fin (-1/2), fin (-1/2)], [fin (3/2), fin (3/2)]] ∧
    (runWith step 2 (init [[0, 0], [1, 1]]) [.mk 0 1, .padf 0 (1/2)]).1.heap.take 2
      = [[fin 0, fin 0], [fin 1, fin 1]] := by
  decide +kernel

/-- repaired `Vec.normalized`: numpy's error state is left as found, on return and on raise -/
theorem normalizedRepaired_frame (e : Err) (v : List Rat) : (normalizedRepaired e v).1 = e := by
  unfold normalizedRepaired; split <;> rfl

/-- `Vec.normalized` of the pinned tree clobbers the error state: all='warn' after a successful call (`under` was
`ignore`), all='raise' after a failing one -/
theorem normalizedOriginal_clobbers :
    normalizedOriginal Err.default [3, 4] = (Err.all .warn, true) ∧ Err.all .warn ≠ Err.default ∧
    normalizedOriginal Err.default [0, 0] = (Err.all .raise, false) ∧ Err.all .raise ≠ Err.default := by
  decide +kernel

end Mouette.Props.C12
