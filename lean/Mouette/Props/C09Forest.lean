import Mouette.Props.C09Heap
import Mouette.Lemmas.TreesTables
/-
Euler-free tree facts of the Dijkstra predecessor table, packaged for other properties (C16: the dual tree of the cut graph
is a Dijkstra predecessor forest): no cycle (`Trees.TreeDepth`: the predecessor chain of every labelled vertex ends at the
start), every link an adjacency, one link fewer than labelled vertices.
  `pred_forest_of_final`     : any final state of the Dijkstra loop (`Dijkstra.Final`), e.g. one obtained by a simulation
  `dijkstra_pred_forest`     : `Dijkstra.run pop …` for every pop satisfying the contract `PopOK`
  `heap_pred_forest`         : `Dijkstra.runH …`, the loop on heapq's binary heap — no hypothesis on the queue
The BFS counterpart (`bfs_parent_forest`) is in Props/C10Forest.lean.
-/
namespace Mouette.Props.C09
open Mouette.Dijkstra Mouette.PQ
open Mouette.Trees (TreeDepth)

/-- Dijkstra: at the end of the loop (any final state) the predecessor table is a tree on the vertices connected to the
start: `pred[start]` is None; every link `pred[u] = p` joins two labelled vertices along an adjacency with
`dist[u] = dist[p] + w`; every labelled vertex other than the start has a predecessor and is joined to the start by its
predecessor chain (no cycle); there is one link fewer than labelled vertices. -/
theorem pred_forest_of_final {adj : Adj} {n start : Nat} {s : State} (F : Final adj start n s) :
    s.pred start = none ∧
    (∀ u p, s.pred u = some p → u ≠ start ∧ ∃ w dp, (u, w) ∈ adj p ∧ s.dist p = some dp ∧ s.dist u = some (dp + w)) ∧
    (∀ u du, u ≠ start → s.dist u = some du → ∃ p, s.pred u = some p) ∧
    (∀ u du, s.dist u = some du → ∃ d, TreeDepth s.pred start u d) ∧
    ((List.range n).filter (fun u => (s.pred u).isSome)).length + 1 = ((List.range n).filter (fun u => (s.dist u).isSome)).length := by
  obtain ⟨v, b, order, I⟩ := F.reach
  have hstart : s.pred start = none := by
    cases hp : s.pred start with
    | none => rfl
    | some p => exact absurd rfl (I.pred_ok start p hp).2.1
  refine ⟨hstart, fun u p hp => ⟨(I.pred_ok u p hp).2.1, (I.pred_ok u p hp).2.2.1⟩, I.pred_some, ?_, ?_⟩
  · -- no cycle: the predecessor was settled strictly earlier
    have key : ∀ k u, order.idxOf u = k → s.visited u = true → ∃ d, TreeDepth s.pred start u d := by
      intro k
      induction k using Nat.strong_induction_on with
      | _ k ih =>
        intro u hk hv
        by_cases hu : u = start
        · subst hu; exact ⟨0, TreeDepth.root⟩
        · obtain ⟨du, hdu, _⟩ := I.vis_dist u hv
          obtain ⟨p, hp⟩ := I.pred_some u du hu hdu
          obtain ⟨hvp, _, _, hidx⟩ := I.pred_ok u p hp
          obtain ⟨d, hd⟩ := ih (order.idxOf p) (by rw [← hk]; exact hidx hv) p rfl hvp
          exact ⟨d + 1, TreeDepth.child hp hd⟩
    intro u du hdu
    exact key _ u rfl (F.visited_of_dist hdu)
  · have hc := Mouette.Trees.count_root (fun u => (s.dist u).isSome) (fun u => (s.pred u).isSome) start ?_ ?_ n
    · rw [hc, if_pos I.start_lt]
    · intro u
      by_cases hu : u = start
      · subst hu; simp [I.dist_start]
      · have hb : (u == start) = false := by simpa using hu
        simp only [hb, Bool.false_or]
        cases hp : s.pred u with
        | none =>
          cases hd : s.dist u with
          | none => rfl
          | some du =>
            obtain ⟨p, hp'⟩ := I.pred_some u du hu hd
            rw [hp] at hp'; cases hp'
        | some p =>
          obtain ⟨_, _, hdp, hdu⟩ := (I.pred_ok u p hp).2.2.1
          simp [hdu]
    · simp [hstart]

theorem dijkstra_pred_forest {pop : Pop} {adj : Adj} {n start : Nat} (hpop : PopOK pop) (hnn : NonNeg adj) (hwf : WF adj n)
    (hs : start < n) :
    let s := run pop adj n start
    s.pred start = none ∧
    (∀ u p, s.pred u = some p → u ≠ start ∧ ∃ w dp, (u, w) ∈ adj p ∧ s.dist p = some dp ∧ s.dist u = some (dp + w)) ∧
    (∀ u du, u ≠ start → s.dist u = some du → ∃ p, s.pred u = some p) ∧
    (∀ u du, s.dist u = some du → ∃ d, TreeDepth s.pred start u d) ∧
    ((List.range n).filter (fun u => (s.pred u).isSome)).length + 1 = ((List.range n).filter (fun u => (s.dist u).isSome)).length :=
  pred_forest_of_final (final_run hpop hnn hwf hs)

/-- the same on the real queue (heapq's binary heap): no hypothesis on the queue -/
theorem heap_pred_forest {adj : Adj} {n start : Nat} (hnn : NonNeg adj) (hwf : WF adj n) (hs : start < n) :
    let s := runH adj n start
    s.pred start = none ∧
    (∀ u p, s.pred u = some p → u ≠ start ∧ ∃ w dp, (u, w) ∈ adj p ∧ s.dist p = some dp ∧ s.dist u = some (dp + w)) ∧
    (∀ u du, u ≠ start → s.dist u = some du → ∃ p, s.pred u = some p) ∧
    (∀ u du, s.dist u = some du → ∃ d, TreeDepth s.pred start u d) ∧
    ((List.range n).filter (fun u => (s.pred u).isSome)).length + 1 = ((List.range n).filter (fun u => (s.dist u).isSome)).length := by
  obtain ⟨s, S, F⟩ := heap_final hnn hwf hs
  intro sH
  have e1 : sH.pred = s.pred := S.pred
  have e2 : sH.dist = s.dist := S.dist
  rw [e1, e2]
  exact pred_forest_of_final F

/-- non-vacuity: on the example graph the loop on the heap labels 0, 1, 2, 3 and leaves three predecessor links -/
example : ((List.range 6).filter (fun u => ((runH (adjOf exEdges) 6 0).pred u).isSome)).length = 3 ∧
    ((List.range 6).filter (fun u => ((runH (adjOf exEdges) 6 0).dist u).isSome)).length = 4 := by decide +kernel

end Mouette.Props.C09
