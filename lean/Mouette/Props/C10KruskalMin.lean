import Mouette.Lemmas.KruskalMin
/-
C10, minimality of the Kruskal selection (`EdgeMinimalSpanningTree.compute`: `edges.sort(key=edge_length)` +
union-find loop).

  `kruskalW n es`   : the weighted edges selected by the modelled loop, in order of selection (a ghost computed
                      by `kStepW`, whose first component is literally the model's `kStep`)
  `pr e`            : the endpoints `(a, b)` of a weighted edge `(a, b, w)`
  `CR L`            : connectivity through the pairs of `L`;  `Indep L` : `L` has no cycle
-/
namespace Mouette.Props.C10
open Mouette.Trees Mouette.UF

/-- the model's sort is a permutation of the admissible edges, sorted by weight -/
theorem kruskal_sort_sorted (es : List (Nat × Nat × Rat)) :
    (es.mergeSort (fun a b => decide (a.2.2 ≤ b.2.2))).Perm es ∧
    (es.mergeSort (fun a b => decide (a.2.2 ≤ b.2.2))).Pairwise (fun a b => a.2.2 ≤ b.2.2) :=
  ⟨List.mergeSort_perm _ _, sorted_mergeSort es⟩

/-- P2 `kruskal_minimum`: for every size `n`, every list of admissible weighted edges with endpoints `< n` (any
rational weights, negative and equal ones and parallel edges included):
 (i)   the edge list of the model is the `keyify`-ed list of the selected weighted edges, which are taken from the
       sorted admissible edges in order;
 (ii)  the selection is itself a spanning forest (no cycle, connects whatever the admissible edges connect);
 (iii) its total weight is ≤ the total weight of EVERY spanning forest `F` of the admissible edges (`F ⊆ es`,
       acyclic, connecting whatever the admissible edges connect). -/
theorem kruskal_minimum (n : Nat) (es : List (Nat × Nat × Rat)) (hwf : ∀ e ∈ es, e.1 < n ∧ e.2.1 < n) :
    kruskal n es = (kruskalW n es).map (fun e => keyify e.1 e.2.1) ∧
    (kruskalW n es).Sublist (es.mergeSort (fun a b => decide (a.2.2 ≤ b.2.2))) ∧
    Indep ((kruskalW n es).reverse.map pr) ∧ (∀ e ∈ es, CR ((kruskalW n es).map pr) e.1 e.2.1) ∧
    ∀ F : List (Nat × Nat × Rat), (∀ f ∈ F, f ∈ es) → Indep (F.map pr) → (∀ e ∈ es, CR (F.map pr) e.1 e.2.1) →
      ((kruskalW n es).map (·.2.2)).sum ≤ (F.map (·.2.2)).sum := by
  -- the sorted list and the run over it
  let S := es.mergeSort wle
  have hperm : S.Perm es := List.mergeSort_perm _ _
  have hsorted := sorted_mergeSort es
  have hwfS : ∀ e ∈ S, e.1 < n ∧ e.2.1 < n := fun e he => hwf e (hperm.mem_iff.mp he)
  obtain ⟨I, W2, hW2, hsub⟩ := kw_fold S [] ((ufInit n, []), []) hwfS (kw_init n)
  let Wr := (S.foldl kStepW ((ufInit n, []), [])).2
  have hWr : kruskalW n es = Wr.reverse := rfl
  have hWsub : ∀ x ∈ Wr, x ∈ es := fun x hx => hperm.mem_iff.mp (by simpa using I.sub x hx)
  have hspan : ∀ e ∈ es, CR (Wr.map pr) e.1 e.2.1 := fun e he => I.span e (by simpa using hperm.mem_iff.mpr he)
  refine ⟨?_, ?_, ?_, ?_, ?_⟩
  · -- (i) the model's output
    have h1 : kruskal n es = (S.foldl kStep (ufInit n, [])).2 := rfl
    rw [h1, ← foldl_kStepW_fst S ((ufInit n, []), []), I.out, hWr]
    simp [List.map_reverse]
    rfl
  · rw [hWr]
    have : Wr = W2 := by simpa using hW2
    rw [this]
    have := hsub.reverse
    simpa using this
  · rw [hWr, List.reverse_reverse]; exact I.indep
  · intro e he
    refine CR.mono ?_ (hspan e he)
    intro p hp
    rw [hWr, List.map_reverse]
    exact List.mem_reverse.mpr hp
  · -- (iii) minimality
    intro F hF hFi hFs
    have hrW : InRange n (Wr.map pr) := inRange_map_pr hwf hWsub
    have hrF : InRange n (F.map pr) := inRange_map_pr hwf hF
    -- both are spanning forests of the same graph: same number of edges
    have hlen : Wr.length = F.length := by
      have a := indep_le_of_span hrW hrF I.indep (by
        intro p hp
        obtain ⟨x, hx, rfl⟩ := List.mem_map.mp hp
        exact hFs x (hWsub x hx))
      have b := indep_le_of_span hrF hrW hFi (by
        intro p hp
        obtain ⟨x, hx, rfl⟩ := List.mem_map.mp hp
        exact hspan x (hF x hx))
      simp only [List.length_map] at a b
      omega
    have key := sum_le_of_count_dom F.length (Wr.map (·.2.2)) (F.map (·.2.2)) (by simp [hlen]) (by simp) (by
      intro t
      -- the edges of weight ≤ t form a prefix `S1` of the sorted list
      obtain ⟨S1, S2, hS, hS1, hS2⟩ := split_at_threshold t S hsorted
      have hwfS1 : ∀ e ∈ S1, e.1 < n ∧ e.2.1 < n := fun e he => hwfS e (by rw [hS]; exact List.mem_append_left _ he)
      have hwfS2 : ∀ e ∈ S2, e.1 < n ∧ e.2.1 < n := fun e he => hwfS e (by rw [hS]; exact List.mem_append_right _ he)
      obtain ⟨I1, _, _, _⟩ := kw_fold S1 [] ((ufInit n, []), []) hwfS1 (kw_init n)
      obtain ⟨_, W2', hW2', _⟩ := kw_fold S2 ([] ++ S1) (S1.foldl kStepW ((ufInit n, []), [])) hwfS2 I1
      let W1 := (S1.foldl kStepW ((ufInit n, []), [])).2
      have hsplit : Wr = W2' ++ W1 := by
        show (S.foldl kStepW ((ufInit n, []), [])).2 = _
        rw [hS, List.foldl_append]; exact hW2'
      -- forest edges of weight ≤ t lie in the span of the selection after `S1`
      let Ft := F.filter (fun x => decide (x.2.2 ≤ t))
      have hFt_sub : (Ft.map pr).Sublist (F.map pr) := List.Sublist.map _ List.filter_sublist
      have hFt_indep : Indep (Ft.map pr) := Indep.sublist hFt_sub hFi
      have hW1sub : ∀ x ∈ W1, x ∈ S1 := fun x hx => by simpa using I1.sub x hx
      have hFt_span : ∀ p ∈ Ft.map pr, CR (W1.map pr) p.1 p.2 := by
        intro p hp
        obtain ⟨x, hx, rfl⟩ := List.mem_map.mp hp
        have hx' := List.mem_filter.mp hx
        have hxt : x.2.2 ≤ t := by simpa using hx'.2
        have hxS : x ∈ S := hperm.mem_iff.mpr (hF x hx'.1)
        rw [hS] at hxS
        rcases List.mem_append.mp hxS with h | h
        · exact I1.span x (by simpa using h)
        · have := hS2 x h; linarith
      have hcnt := indep_le_of_span (n := n)
        (inRange_map_pr hwf (fun x hx => hF x (List.mem_filter.mp hx).1))
        (inRange_map_pr hwf (fun x hx => hperm.mem_iff.mp (by rw [hS]; exact List.mem_append_left _ (hW1sub x hx))))
        hFt_indep hFt_span
      simp only [List.length_map] at hcnt
      -- count on both sides
      have c1 : (F.map (·.2.2)).countP (fun x => decide (x ≤ t)) = Ft.length := by
        rw [List.countP_map, List.countP_eq_length_filter]; rfl
      have c2 : W1.length ≤ (Wr.map (·.2.2)).countP (fun x => decide (x ≤ t)) := by
        rw [hsplit, List.map_append, List.countP_append]
        have : (W1.map (·.2.2)).countP (fun x => decide (x ≤ t)) = (W1.map (·.2.2)).length := by
          apply List.countP_eq_length.mpr
          intro a ha
          obtain ⟨x, hx, rfl⟩ := List.mem_map.mp ha
          simpa using hS1 x (hW1sub x hx)
        rw [this, List.length_map]
        omega
      have hcnt' : Ft.length ≤ W1.length := hcnt
      rw [c1]
      exact le_trans hcnt' c2)
    rw [hWr, List.map_reverse, List.sum_reverse]
    exact key

/-- non-vacuity (test of the model): triangle 0-1-2 with weights 3,1,1 and a pendant edge; the heaviest triangle
edge is dropped, total weight 4 -/
example : (([(1, 2, 1), (0, 2, 1), (2, 3, 2), (0, 1, 3)] : List (Nat × Nat × Rat)).foldl kStepW ((ufInit 4, []), [])).2
    = [(2, 3, 2), (0, 2, 1), (1, 2, 1)] := by decide +kernel

end Mouette.Props.C10
