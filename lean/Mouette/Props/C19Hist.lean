import Mouette.Lemmas.C19Heap
import Mouette.Model.SamplingWrap
import Mouette.Generated.C19DC
/-
C19 (round 3) — histories on one object and input representation.
`de_casteljau` on an explicit heap (`Model/BezierHeap.lean`): the working list is a shallow copy of the control list
and every store re-binds a slot to a fresh value (both facts are re-extracted from the source: `dcWorksOnCopy`,
`dcStoreRebinds`), hence no evaluation touches a control point: the n-th evaluation on a used object returns what
the first evaluation on a fresh object returns. Evaluation is a function of the control VALUES only: independent of
the numeric representation and of the memory layout (views of one array / separate arrays).
-/
namespace Mouette.Props.C19Hist
open Mouette.Bezier Mouette.BezierHeap Mouette.Lemmas.C19

/-- one evaluation: the result is the model's `deCasteljau` of the control values; every old heap cell survives -/
theorem evaluation_keeps_control_net (t : Rat) (heap : List Rat) (P : List Nat) (hne : P ≠ [])
    (hP : ∀ r ∈ P, r < heap.length) :
    result (run true t heap P) = deCasteljau t (values heap P) ∧
    (∃ ext, (run true t heap P).heap = heap ++ ext) ∧
    values (run true t heap P).heap P = values heap P :=
  ⟨(run_rebind t heap P hne hP).1, (run_rebind t heap P hne hP).2, run_rebind_values t heap P hne hP⟩

/-- **histories**: for EVERY finite sequence of parameters evaluated on one object, the k-th answer is the answer a
fresh object gives, and the control values are unchanged at the end -/
theorem evaluation_history_pure (heap : List Rat) (P : List Nat) (hne : P ≠ []) (hP : ∀ r ∈ P, r < heap.length)
    (ts : List Rat) :
    (evalMany true heap P ts).1 = ts.map (fun t => deCasteljau t (values heap P)) ∧
    values (evalMany true heap P ts).2 P = values heap P :=
  ⟨(evalMany_rebind P hne ts heap hP).1, (evalMany_rebind P hne ts heap hP).2.1⟩

/-- the same with the store kind read from the source (`Generated/C19DC.lean`) -/
theorem source_evaluation_history_pure (heap : List Rat) (P : List Nat) (hne : P ≠ []) (hP : ∀ r ∈ P, r < heap.length)
    (ts : List Rat) :
    Mouette.Generated.C19.dcWorksOnCopy = true ∧
    (evalMany Mouette.Generated.C19.dcStoreRebinds heap P ts).1 = ts.map (fun t => deCasteljau t (values heap P)) ∧
    values (evalMany Mouette.Generated.C19.dcStoreRebinds heap P ts).2 P = values heap P := by
  have e : Mouette.Generated.C19.dcStoreRebinds = true := by simp [Mouette.Generated.C19.dcStoreRebinds]
  rw [e]
  exact ⟨by simp [Mouette.Generated.C19.dcWorksOnCopy], evaluation_history_pure heap P hne hP ts⟩

/-- layout independence: two objects whose control points have the same values (whatever the sharing of cells:
views into the caller's array, separate arrays, other cells in between) evaluate alike -/
theorem evaluation_layout_independent (t : Rat) (heap heap' : List Rat) (P P' : List Nat) (hne : P ≠ []) (hne' : P' ≠ [])
    (hP : ∀ r ∈ P, r < heap.length) (hP' : ∀ r ∈ P', r < heap'.length) (hv : values heap P = values heap' P') :
    result (run true t heap P) = result (run true t heap' P') := by
  rw [(run_rebind t heap P hne hP).1, (run_rebind t heap' P' hne' hP').1, hv]

/-- REFUTED for an in-place update (`coeffs[i] *= 1-t; coeffs[i] += t*coeffs[i+1]`): control values (0,2,1), t = 1/2:
the first answer is right, the control net is altered and the second answer is wrong -/
theorem inplace_update_refuted :
    (evalMany false [0, 2, 1] [0, 1, 2] [1 / 2, 1 / 2]).1 = [5 / 4, 21 / 16] ∧
    deCasteljau (1 / 2) [0, 2, 1] = 5 / 4 ∧
    values (evalMany false [0, 2, 1] [0, 1, 2] [1 / 2]).2 [0, 1, 2] ≠ [0, 2, 1] := by
  refine ⟨by decide +kernel, by decide +kernel, by decide +kernel⟩

/-- representation independence: the evaluation of a curve depends on the exact values of the control coordinates
only (ints, float32, float64 …), and on `[0,1]` it is their Bernstein form -/
theorem evaluation_representation_independent (c1 c2 : List (List Num)) (t : Rat)
    (h : c1.map (fun P => P.map Num.val) = c2.map (fun P => P.map Num.val)) :
    evalCurveRepr c1 t = evalCurveRepr c2 t ∧
    ((0 ≤ t ∧ t ≤ 1) → evalCurveRepr c1 t =
      some ((c1.map (fun P => P.map Num.val)).map (fun P => bernsteinSum (P.length - 1) t P))) := by
  refine ⟨by simp [evalCurveRepr, h], ?_⟩
  intro ht
  have : inRange t = true := by simp [inRange, ht.1, ht.2]
  simp only [evalCurveRepr, evalCurve, this, if_true]
  congr 1
  apply List.map_congr_left
  intro P _
  exact deCasteljau_eq_bernsteinSum t P

theorem patch_representation_independent (n1 n2 : List (List (List Num))) (u v : Rat)
    (h : n1.map (fun rows => rows.map (fun P => P.map Num.val)) = n2.map (fun rows => rows.map (fun P => P.map Num.val))) :
    evalPatchRepr n1 u v = evalPatchRepr n2 u v := by
  simp [evalPatchRepr, h]

/-- samplers: the k-th call of ANY history of calls on one mesh returns what that call returns on a fresh mesh
(the model is stateless; its tie to the source is the translator's read-only check and the history cases) -/
theorem sampler_history_pure {N} (dflt : N) (V : List Mouette.SamplingWrap.V3) (F : List (Nat × Nat × Nat)) (normals : List N)
    (calls : List (Bool × Bool × List (Nat × Rat × Rat))) (callsP : List (Bool × List (Nat × Rat))) (E : List (Nat × Nat)) (k : Nat) :
    (Mouette.SamplingWrap.surfaceCalls dflt V F normals calls)[k]? =
      (calls[k]?).map (fun c => Mouette.SamplingWrap.sampleSurface dflt c.1 c.2.1 V F normals c.2.2) ∧
    (Mouette.SamplingWrap.polylineCalls V E callsP)[k]? =
      (callsP[k]?).map (fun c => Mouette.SamplingWrap.samplePolyline c.1 V E c.2) := by
  simp [Mouette.SamplingWrap.surfaceCalls, Mouette.SamplingWrap.polylineCalls]

/-- an integer net and the float net with the same values: no truncation in the model (witness of non-vacuity) -/
example : evalCurveRepr [[.int 0, .int 1, .int 3]] (1 / 2) = evalCurveRepr [[.f64 0, .f32 1, .f64 3]] (1 / 2) :=
  (evaluation_representation_independent _ _ _ (by simp [Num.val])).1
example : evalCurveRepr [[.int 0, .int 1, .int 3]] (1 / 2) = some [5 / 4] := by decide +kernel
example : (evalMany true [0, 2, 1] [0, 1, 2] [1 / 2, 1 / 2]).1 = [5 / 4, 5 / 4] := by decide +kernel

end Mouette.Props.C19Hist
