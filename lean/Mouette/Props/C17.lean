import Mouette.Lemmas.TutteSquare
import Mouette.Lemmas.TutteLap
import Mouette.Lemmas.TutteBridge
import Mouette.Lemmas.TutteResidual
import Mouette.Lemmas.TutteCircle
import Mouette.Lemmas.TutteBridge2
/-!
# C17 — Tutte's embedding (partial)

Theorems about the model `Mouette.Tutte` of `TutteEmbedding` (tutte.py) and of the Laplacian triplets it uses.

NOT proved (Tutte 1963 / Floater 1997; checked on every run by the oracle with the exact `orient2d` predicate on the
rationalised output floats): with a convex border and non-negative weights every triangle of the embedding has the
same strict orientation. Also not proved: that Gauss–Jordan (`harmonicMatrix`) returns a solution — the driver
re-checks `L_II H + L_IB = 0` exactly on every case (`R1`), which is the hypothesis of `interior_is_weighted_average`.
The circle positions `cos/sin(2πi/n)` are not evaluated in the model (fractions of a turn `i/n`).
-/
namespace Mouette.Props.C17
open Mouette Mouette.Tutte Mouette.Generated

/-! ## gate (P0) -/

/-- the run is refused exactly when `V − E + F ≠ 1` -/
theorem gate_iff (nV nE nF : Nat) : gate nV nE nF = true ↔ (nV : Int) - (nE : Int) + (nF : Int) = 1 := by
  unfold gate; simp

/-! ## storage (P0) -/

/-- per-corner value = per-vertex value of the corner's vertex, for all index lists `freeInds`, `bndInds`
(whatever their order, even with repetitions) -/
theorem storage_agree (free bnd cv : List Nat) (nV c : Nat) (hc : c < cv.length) (hv : cv.getD c 0 < nV) :
    (cornerStore cv (writes free bnd)).getD c Src.zero =
      (vertexStore nV (writes free bnd)).getD (cv.getD c 0) Src.zero := by
  have h := storage_agree_aux cv nV c hc hv (writes free bnd) (List.replicate cv.length Src.zero)
    (List.replicate nV Src.zero) (by simp) (by simp) (by
      have e : ∀ m k : Nat, (List.replicate m Src.zero).getD k Src.zero = Src.zero := by
        intro m k
        rw [List.getD_eq_getElem?_getD, List.getElem?_replicate]
        split <;> rfl
      rw [e, e])
  exact h

/-! ## the barycentric system (P0) -/

/-- every row of the assembled Laplacian (uniform or cotangent weights, any face list) sums to zero -/
theorem lap_row_sums_zero (cot : Option (List Rat)) (F : List (List Nat)) (r : Nat) :
    rowSum (lapTriplets cot F) r = 0 :=
  rowSum_lapTripletsFrom cot r F 0

/-- If `u` satisfies row `r` of the system (`(L u)_r = 0`, which is the equation `L_II u_I + L_IB u_B = 0` of a free
vertex `r`), then `r` is at the weighted average of its neighbours: `(Σ_j w_rj) · u_r = Σ_j w_rj u_j`,
`w_rj = −L_rj` the (uniform or cotangent) edge weights. -/
theorem interior_is_weighted_average (cot : Option (List Rat)) (F : List (List Nat)) (u : Nat → Rat) (r : Nat)
    (h : mulRow (lapTriplets cot F) u r = 0) :
    wSum (lapTriplets cot F) r * u r = wDot (lapTriplets cot F) u r := by
  have h1 := mulRow_eq (lapTriplets cot F) u r
  rw [lap_row_sums_zero, h, nbrSum_eq] at h1
  linarith

/-- … hence, when the total weight is not zero, `u_r` IS the weighted average -/
theorem interior_is_weighted_average_div (cot : Option (List Rat)) (F : List (List Nat)) (u : Nat → Rat) (r : Nat)
    (h : mulRow (lapTriplets cot F) u r = 0) (hw : wSum (lapTriplets cot F) r ≠ 0) :
    u r = wDot (lapTriplets cot F) u r / wSum (lapTriplets cot F) r := by
  have := interior_is_weighted_average cot F u r h
  field_simp
  linarith

/-- The exact check `R1` of the driver (`residualZero`) gives the hypothesis of the two theorems above: for EVERY case
the driver accepts — `H` returned by the model's Gauss–Jordan with `residualZero … H = true`, `freeInds ++ bndInds`
duplicate-free and containing every vertex of the (triangle) faces — and for every border data `uB`, the function `u`
that is `uB` on the border vertices and `H · uB` on the free vertices puts every free vertex at the weighted average of
its neighbours. -/
theorem accepted_case_weighted_average (cot : Option (List Rat)) (F : List (List Nat)) (free bnd : List Nat)
    (H : List (List Rat)) (uB : List Rat) (u : Nat → Rat)
    (tri : ∀ f, f ∈ F → f.length = 3)
    (hres : residualZero (lapTriplets cot F) free bnd H = true)
    (nd : (free ++ bnd).Nodup) (cover : ∀ f, f ∈ F → ∀ v, v ∈ f → v ∈ free ++ bnd)
    (hI : List.Forall₂ (fun c hrow => u c = dotB bnd.length uB hrow) free H)
    (hB : ∀ b, b < bnd.length → u (bnd.getD b 0) = uB.getD b 0) :
    ∀ r, r ∈ free → wSum (lapTriplets cot F) r * u r = wDot (lapTriplets cot F) u r := by
  intro r hr
  apply interior_is_weighted_average
  apply mulRow_zero_of_residualZero (lapTriplets cot F) free bnd H uB u hres nd hI hB r hr
  intro t ht _
  obtain ⟨f, hf, _, hc⟩ := mem_lapTripletsFrom cot F 0 t tri ht
  exact cover f hf _ hc

/-! ## orient2d (P0): the exact predicate used as certificate checker -/

theorem orient2d_swap (a b c : Rat × Rat) : orient2d a c b = - orient2d a b c := Tutte.orient2d_swap a b c
theorem orient2d_cycle (a b c : Rat × Rat) : orient2d b c a = orient2d a b c := Tutte.orient2d_cycle a b c

/-- the sign of `orient2d` is the orientation: it is invariant under translations and is multiplied by `det M` under
a linear map, so it is preserved exactly by the orientation-preserving affine maps -/
theorem orient2d_sign_affine (m11 m12 m21 m22 : Rat) (t a b c : Rat × Rat) (hdet : 0 < m11 * m22 - m12 * m21) :
    (0 < orient2d (m11 * a.1 + m12 * a.2 + t.1, m21 * a.1 + m22 * a.2 + t.2)
             (m11 * b.1 + m12 * b.2 + t.1, m21 * b.1 + m22 * b.2 + t.2)
             (m11 * c.1 + m12 * c.2 + t.1, m21 * c.1 + m22 * c.2 + t.2)) ↔ 0 < orient2d a b c := by
  rw [orient2d_affine]
  constructor
  · intro h
    by_contra hn
    have : orient2d a b c ≤ 0 := not_lt.mp hn
    nlinarith
  · intro h; positivity

/-- `orient2d a b c = 0` iff `c` lies on the line through `a ≠ b` (zero-area triangle) -/
theorem orient2d_zero_iff_collinear (a b c : Rat × Rat) (hab : a.1 ≠ b.1 ∨ a.2 ≠ b.2) :
    orient2d a b c = 0 ↔ ∃ t : Rat, c.1 = a.1 + t * (b.1 - a.1) ∧ c.2 = a.2 + t * (b.2 - a.2) :=
  orient2d_eq_zero_iff a b c hab

/-- a point with barycentric coordinates `(la, lb, lc)` in a positively oriented triangle is strictly inside iff the
three sub-triangles are positively oriented -/
theorem orient2d_inside (a b c : Rat × Rat) (la lb lc : Rat) (h : la + lb + lc = 1) (hpos : 0 < orient2d a b c) :
    let p : Rat × Rat := (la * a.1 + lb * b.1 + lc * c.1, la * a.2 + lb * b.2 + lc * c.2)
    (0 < la ∧ 0 < lb ∧ 0 < lc) ↔ (0 < orient2d p b c ∧ 0 < orient2d a p c ∧ 0 < orient2d a b p) := by
  obtain ⟨h1, h2, h3⟩ := orient2d_barycentric a b c la lb lc h
  simp only [] at h1 h2 h3 ⊢
  rw [h1, h2, h3]
  constructor
  · rintro ⟨x, y, z⟩; exact ⟨by positivity, by positivity, by positivity⟩
  · rintro ⟨x, y, z⟩
    exact ⟨by by_contra hn; have := not_lt.mp hn; nlinarith,
           by by_contra hn; have := not_lt.mp hn; nlinarith,
           by by_contra hn; have := not_lt.mp hn; nlinarith⟩

/-! ## square boundary (P1), after the repair of `_initialize_boundary` -/

/-- For every border length `n ≥ 4` the positions produced by the sequential array writes of the square branch lie
on the boundary of the unit square. -/
theorem square_boundary_on_square (n i : Nat) (hn : 4 ≤ n) (hi : i < n) :
    ∃ p, (squareBoundary n)[i]? = some p ∧ OnSquare p :=
  ⟨sqClosed n i, squareBoundary_getD n i hn hi, onSquare_sqClosed hn hi⟩

/-- … are pairwise distinct … -/
theorem square_boundary_distinct (n i j : Nat) (hn : 4 ≤ n) (hi : i < n) (hj : j < n)
    (h : (squareBoundary n)[i]? = (squareBoundary n)[j]?) : i = j := by
  rw [squareBoundary_getD n i hn hi, squareBoundary_getD n j hn hj] at h
  exact sqClosed_injective hn hi hj (Option.some.inj h)

/-- … and follow the border order: the perimeter coordinate (counter-clockwise from `(0,0)`) is strictly increasing
along the border cycle. -/
theorem square_boundary_cyclic_order (n i j : Nat) (hn : 4 ≤ n) (hij : i < j) (hj : j < n) :
    ∃ p q, (squareBoundary n)[i]? = some p ∧ (squareBoundary n)[j]? = some q ∧ perim p < perim q :=
  ⟨sqClosed n i, sqClosed n j, squareBoundary_getD n i hn (by omega), squareBoundary_getD n j hn hj,
    perim_strictMono hn hij hj⟩

theorem square_boundary_length (n : Nat) : (squareBoundary n).length = n := by
  unfold squareBoundary; rw [List.length_zip, squareU_length, squareV_length]; simp

/-- The same three statements hold for the arrays assembled from the fragments TRANSLATED from the current source
(`Generated/C17Tutte.lean`: corner indices and values, ranges, starts of the running index, affine expressions). -/
theorem square_boundary_source (n : Nat) :
    (genSquare n C17.cornerU (C17.loopU n)).zip (genSquare n C17.cornerV (C17.loopV n)) = squareBoundary n := by
  rw [bridge_U, bridge_V]; rfl

/-! ## circle boundary (P1), over ℝ with Mathlib's `Real.cos`, `Real.sin` -/

/-- the exact circle position of border vertex `i` is `(cos 2πt, sin 2πt)` for the fraction of a turn `t = i/n` that
the executable model hands to the harness -/
theorem circle_boundary_model (n i : Nat) (hi : i < n) :
    ∃ t : Rat, (circleTurns n)[i]? = some t ∧
      circlePos n i = (Real.cos (2 * Real.pi * (t : ℝ)), Real.sin (2 * Real.pi * (t : ℝ))) :=
  ⟨(i : Rat) / (n : Rat), circleTurns_getElem n i hi, by unfold circlePos; rw [circleAngle_eq_turn]⟩

/-- the circle positions lie on the unit circle and are pairwise distinct (injectivity of `i ↦ 2πi/n` on `[0, 2π)`) -/
theorem circle_boundary_distinct (n i j : Nat) (hi : i < n) (hj : j < n) (h : circlePos n i = circlePos n j) :
    i = j := circlePos_injective hi hj h

theorem circle_boundary_on_circle (n i : Nat) : (circlePos n i).1 ^ 2 + (circlePos n i).2 ^ 2 = 1 :=
  circlePos_on_circle n i

/-- strictly convex position: `p_i` is the unique maximiser among all positions of `x ↦ ⟨x, p_i⟩`, and it is not on
the segment between two other positions -/
theorem circle_boundary_convex_position (n i j : Nat) (hi : i < n) (hj : j < n) (hij : i ≠ j) :
    (circlePos n j).1 * (circlePos n i).1 + (circlePos n j).2 * (circlePos n i).2 < 1 ∧
    ∀ k, k < n → i ≠ k → ∀ t : ℝ, 0 ≤ t → t ≤ 1 →
      ((1 - t) * (circlePos n j).1 + t * (circlePos n k).1, (1 - t) * (circlePos n j).2 + t * (circlePos n k).2)
        ≠ circlePos n i :=
  ⟨circlePos_exposed hi hj hij, fun _ hk hik t ht0 ht1 => circlePos_not_between hi hj hk hij hik t ht0 ht1⟩

/-- border order: any three positions taken in the order of the border cycle are strictly counter-clockwise, i.e.
the border polygon is strictly convex and traversed exactly once -/
theorem circle_boundary_cyclic_order (n i j k : Nat) (hij : i < j) (hjk : j < k) (hk : k < n) :
    0 < ((circlePos n j).1 - (circlePos n i).1) * ((circlePos n k).2 - (circlePos n i).2)
      - ((circlePos n k).1 - (circlePos n i).1) * ((circlePos n j).2 - (circlePos n i).2) :=
  circlePos_ccw hij hjk hk

/-! ## the other translated fragments of tutte.py (round 3) -/

/-- the gate as written in the source (`if euler_characteristic(mesh) != 1: raise`) rejects exactly the surfaces whose
Euler characteristic is not 1 -/
theorem gate_source (nV nE nF : Nat) :
    C17B.rejects ((nV : Int) - (nE : Int) + (nF : Int)) = true ↔ (nV : Int) - (nE : Int) + (nF : Int) ≠ 1 := by
  rw [bridge_gate, Bool.not_eq_true', ← Bool.not_eq_true, gate_iff]

/-- CIRCLE branch as written in the source: `n` positions, radius 1, real part to U and imaginary part to V, and the
angle handed to `cmath.rect` is `2·pi·t` with `t` the fraction of a turn of the model (for every value of `pi`) -/
theorem circle_boundary_source (p : Rat) (n i : Nat) (hi : i < n) :
    C17B.circleCount n = (circleTurns n).length ∧ C17B.circleRadius = 1 ∧ C17B.circleParts = ("real", "imag") ∧
    ∃ t, (circleTurns n)[i]? = some t ∧ C17B.circleAngle p n i = 2 * p * t :=
  ⟨bridge_circleCount n, bridge_circleRadius, bridge_circleParts, bridge_circleAngle p n i hi⟩

/-- CUSTOM branch and border order as written in the source: column 0 is U, column 1 is V; rows follow
`mesh.boundary_vertices` in custom mode and `extract_border_cycle` otherwise -/
theorem custom_boundary_source :
    C17B.customCols = (0, 1) ∧ C17B.bndSource = ("boundary_vertices", "extract_border_cycle") :=
  ⟨bridge_customCols, bridge_bndSource⟩

/-! ## non-vacuity / samples (tests, not proofs of the general statement) -/

example : squareBoundary 8 = [(0, 0), (1/2, 0), (1, 0), (1, 1/2), (1, 1), (1/2, 1), (0, 1), (0, 1/2)] := by
  decide +kernel
example : squareBoundary 5 = [(0, 0), (1, 0), (1, 1), (0, 1), (0, 1/5)] := by decide +kernel

/-- fan of four triangles around vertex 4: the centre row is `4·u₄ = u₀+u₁+u₂+u₃` -/
example : wSum (lapTriplets none [[0, 1, 4], [1, 2, 4], [2, 3, 4], [3, 0, 4]]) 4 = 4 := by decide +kernel
example : harmonicMatrix (lapTriplets none [[0, 1, 4], [1, 2, 4], [2, 3, 4], [3, 0, 4]]) [4] [0, 1, 2, 3]
    = some [[1/4, 1/4, 1/4, 1/4]] := by decide +kernel

end Mouette.Props.C17
