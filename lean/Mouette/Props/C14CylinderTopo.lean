import Mouette.Props.C14Euler
/-!
# C14 (round 3) — the cylinder for ALL N ≥ 3: with caps a closed surface with χ = 2; without caps an annulus
(χ = 0, exactly 2N unmatched sides, which are the sides of two vertex-disjoint N-gons = two border loops).
Theorems are about the translated term `cylinderFaces` (re-addressed by `cylinderFaces_addressed`).
-/
namespace Mouette.Props.C14
open Mouette.Generated.C14 Mouette.MeshCheck Mouette.ListCount Mouette.EdgeCount


/-- addresses of the faces of `cylinder(N, fill_caps)`, in the order of the loop nest -/
def cylAddr (N : Nat) (fc : Bool) : List CF :=
  (if fc = true then (List.range N).flatMap (fun i => [CF.capB i, CF.capT i]) else []) ++
    (List.range N).flatMap (fun i => [CF.s1 i, CF.s2 i])

theorem mem_cylAddr (N : Nat) (fc : Bool) (f : CF) : f ∈ cylAddr N fc ↔ f.idx < N ∧ (fc = true ∨ f.isCap = false) := by
  cases fc <;> cases f <;>
    simp [cylAddr, CF.idx, CF.isCap, List.mem_flatMap, List.mem_range]

theorem nodup_cylAddr (N : Nat) (fc : Bool) : (cylAddr N fc).Nodup := by
  have h2 : ((List.range N).flatMap (fun i => [CF.s1 i, CF.s2 i])).Nodup := by
    apply nodup_flatMap_of _ _ List.nodup_range
    · intro i _; simp
    · intro i _ i' _ x h1 h2
      simp only [List.mem_cons, List.mem_nil_iff, or_false] at h1 h2
      rcases h1 with rfl | rfl <;> rcases h2 with h | h <;> first | exact CF.s1.inj h | exact CF.s2.inj h | cases h
  unfold cylAddr
  cases fc
  · simpa using h2
  · simp only [if_true]
    rw [List.nodup_append]
    refine ⟨?_, h2, ?_⟩
    · apply nodup_flatMap_of _ _ List.nodup_range
      · intro i _; simp
      · intro i _ i' _ x h1 h2
        simp only [List.mem_cons, List.mem_nil_iff, or_false] at h1 h2
        rcases h1 with rfl | rfl <;> rcases h2 with h | h <;> first | exact CF.capB.inj h | exact CF.capT.inj h | cases h
    · intro x hx y hy hxy
      subst hxy
      simp only [List.mem_flatMap, List.mem_range, List.mem_cons, List.mem_nil_iff, or_false] at hx hy
      obtain ⟨i, _, rfl | rfl⟩ := hx <;> obtain ⟨j, _, h | h⟩ := hy <;> cases h

theorem length_cylAddr (N : Nat) (fc : Bool) : (cylAddr N fc).length = 2 * N * (if fc then 2 else 1) := by
  unfold cylAddr
  rw [List.length_append, length_flatMap_const (List.range N) _ 2]
  · cases fc
    · simp; omega
    · simp only [if_true]
      rw [length_flatMap_const _ _ 2]
      · simp; omega
      · intro i _; rfl
  · intro i _; rfl

theorem cylinderFaces_addressed (N : Nat) (fc : Bool) : cylinderFaces N fc = (cylAddr N fc).map (cylFace N) := by
  cases fc
  · rw [(cylinderFaces_eq N).2]; simp [cylAddr, List.map_flatMap]
  · rw [(cylinderFaces_eq N).1]; simp [cylAddr, List.map_flatMap]

theorem cyl_face_sides (N : Nat) (hN : 3 ≤ N) (f : CF) (hf : f.idx < N) :
    (sides (cylFace N f)).Nodup ∧ ∀ e ∈ sides (cylFace N f), e.1 ≠ e.2 := by
  cases f <;> simp only [CF.idx] at hf <;>
  (rename_i i
   have a1 := succ_mod_cases N i hf
   simp only [cylFace, sides_tri, List.nodup_cons, List.mem_cons, Prod.mk.injEq, List.mem_nil_iff, or_false,
      not_or, not_and, List.nodup_nil, and_true, not_false_eq_true, forall_eq_or_imp, forall_eq, ne_eq]
   omega)

theorem cyl_hor (N : Nat) (hN : 3 ≤ N) (fc : Bool) : ∀ f ∈ cylAddr N fc, ∀ g ∈ cylAddr N fc, ∀ e,
    e ∈ sides (cylFace N f) → e ∈ sides (cylFace N g) → f = g := by
  intro f hf g hg e h1 h2
  rw [mem_cylAddr] at hf hg
  exact cylinder_oriented N hN f g hf.1 hg.1 e h1 h2

theorem sum_sizes_cyl (N : Nat) (fc : Bool) :
    (List.map (fun f => (cylFace N f).length) (cylAddr N fc)).sum = (cylAddr N fc).length * 3 := by
  apply sum_map_const_on
  intro f _; cases f <;> rfl

/-- cylinder with caps: consistently oriented, closed, V − E + F = 2, for all N ≥ 3 -/
theorem cylinder_closed_euler (N : Nat) (hN : 3 ≤ N) :
    (dirEdges (cylinderFaces N true)).Nodup ∧ numBorder (cylinderFaces N true) = 0 ∧
    euler (cylinderNVerts N true) (cylinderFaces N true) = 2 := by
  rw [cylinderFaces_addressed]
  have hs : ∀ f ∈ cylAddr N true, (sides (cylFace N f)).Nodup :=
    fun f hf => (cyl_face_sides N hN f ((mem_cylAddr N true f).mp hf).1).1
  have hl : ∀ f ∈ cylAddr N true, ∀ e ∈ sides (cylFace N f), e.1 ≠ e.2 :=
    fun f hf => (cyl_face_sides N hN f ((mem_cylAddr N true f).mp hf).1).2
  have hbd : numBorder ((cylAddr N true).map (cylFace N)) = 0 := by
    apply numBorder_closed
    apply closed_addressed
    intro f hf e he
    rw [mem_cylAddr] at hf
    obtain ⟨g, hg, h⟩ := cylinder_closed N (by omega) f hf.1 e he
    exact ⟨g, (mem_cylAddr N true g).mpr ⟨hg, Or.inl rfl⟩, h⟩
  refine ⟨dirEdges_nodup_addressed _ _ (nodup_cylAddr N true) hs (cyl_hor N hN true), hbd, ?_⟩
  apply euler_addressed _ _ _ (nodup_cylAddr N true) hs (cyl_hor N hN true) hl 0 hbd
  rw [sum_sizes_cyl, length_cylAddr, cylinder_nverts]
  simp only [if_true]
  push_cast; omega

/-- membership in the side faces of the open cylinder, spelled out -/
theorem mem_dirEdges_cyl_open (N : Nat) (p q : Nat) :
    (p, q) ∈ dirEdges ((cylAddr N false).map (cylFace N)) ↔ ∃ i, i < N ∧
      ((p = i ∧ q = N + i) ∨ (p = N + i ∧ q = (i + 1) % N) ∨ (p = (i + 1) % N ∧ q = i) ∨
       (p = N + i ∧ q = N + (i + 1) % N) ∨ (p = N + (i + 1) % N ∧ q = (i + 1) % N) ∨ (p = (i + 1) % N ∧ q = N + i)) := by
  rw [mem_dirEdges_map]
  constructor
  · rintro ⟨f, hf, he⟩
    rw [mem_cylAddr] at hf
    obtain ⟨hi, hc⟩ := hf
    cases f <;> simp [CF.isCap] at hc <;> simp only [CF.idx] at hi <;>
      simp only [cylFace, sides_tri, List.mem_cons, Prod.mk.injEq, List.mem_nil_iff, or_false] at he <;>
      (rename_i i; exact ⟨i, hi, by omega⟩)
  · rintro ⟨i, hi, h⟩
    rcases h with h | h | h | h | h | h
    · exact ⟨.s1 i, (mem_cylAddr N false _).mpr ⟨hi, Or.inr rfl⟩, by simp [cylFace, sides_tri, h]⟩
    · exact ⟨.s1 i, (mem_cylAddr N false _).mpr ⟨hi, Or.inr rfl⟩, by simp [cylFace, sides_tri, h]⟩
    · exact ⟨.s1 i, (mem_cylAddr N false _).mpr ⟨hi, Or.inr rfl⟩, by simp [cylFace, sides_tri, h]⟩
    · exact ⟨.s2 i, (mem_cylAddr N false _).mpr ⟨hi, Or.inr rfl⟩, by simp [cylFace, sides_tri, h]⟩
    · exact ⟨.s2 i, (mem_cylAddr N false _).mpr ⟨hi, Or.inr rfl⟩, by simp [cylFace, sides_tri, h]⟩
    · exact ⟨.s2 i, (mem_cylAddr N false _).mpr ⟨hi, Or.inr rfl⟩, by simp [cylFace, sides_tri, h]⟩


theorem cyl_open_rim_unmatched (N : Nat) (hN : 3 ≤ N) (i : Nat) (hi : i < N) :
    (i, (i + 1) % N) ∉ dirEdges ((cylAddr N false).map (cylFace N)) ∧
    (N + (i + 1) % N, N + i) ∉ dirEdges ((cylAddr N false).map (cylFace N)) := by
  have a1 := succ_mod_cases N i hi
  constructor <;>
  (rw [mem_dirEdges_cyl_open]
   rintro ⟨i', hi', h⟩
   have a2 := succ_mod_cases N i' hi'
   omega)

theorem cyl_open_matched (N : Nat) (hN : 1 ≤ N) (i : Nat) (hi : i < N) :
    (N + i, i) ∈ dirEdges ((cylAddr N false).map (cylFace N)) ∧
    ((i + 1) % N, N + i) ∈ dirEdges ((cylAddr N false).map (cylFace N)) ∧
    ((i + 1) % N, N + (i + 1) % N) ∈ dirEdges ((cylAddr N false).map (cylFace N)) ∧
    (N + i, (i + 1) % N) ∈ dirEdges ((cylAddr N false).map (cylFace N)) := by
  have b1 : (i + 1) % N < N := Nat.mod_lt _ (by omega)
  refine ⟨?_, ?_, ?_, ?_⟩ <;> rw [mem_dirEdges_cyl_open]
  · exact ⟨pm N i, pm_lt N i (by omega), by rw [pm_succ N i hi]; omega⟩
  · exact ⟨i, hi, by omega⟩
  · exact ⟨(i + 1) % N, b1, by omega⟩
  · exact ⟨i, hi, by omega⟩

/-- every side face of the open cylinder has exactly one unmatched side -/
theorem cyl_open_face_border (N : Nat) (hN : 3 ≤ N) (f : CF) (hf : f ∈ cylAddr N false) :
    ((sides (cylFace N f)).filter
      (fun e => !(dirEdges ((cylAddr N false).map (cylFace N))).contains (e.2, e.1))).length = 1 := by
  rw [mem_cylAddr] at hf
  obtain ⟨hi, hc⟩ := hf
  cases f <;> simp [CF.isCap] at hc <;> simp only [CF.idx] at hi <;> rename_i i
  · obtain ⟨m1, m2, m3, m4⟩ := cyl_open_matched N (by omega) i hi
    obtain ⟨u1, u2⟩ := cyl_open_rim_unmatched N hN i hi
    simp [cylFace, sides_tri, m1, m2, u1]
  · obtain ⟨m1, m2, m3, m4⟩ := cyl_open_matched N (by omega) i hi
    obtain ⟨u1, u2⟩ := cyl_open_rim_unmatched N hN i hi
    simp [cylFace, sides_tri, m3, m4, u2]

/-- cylinder without caps: consistently oriented, exactly 2N unmatched sides, V − E + F = 0 (an annulus), all N ≥ 3 -/
theorem cylinder_open_euler (N : Nat) (hN : 3 ≤ N) :
    (dirEdges (cylinderFaces N false)).Nodup ∧ numBorder (cylinderFaces N false) = 2 * N ∧
    euler (cylinderNVerts N false) (cylinderFaces N false) = 0 := by
  rw [cylinderFaces_addressed]
  have hs : ∀ f ∈ cylAddr N false, (sides (cylFace N f)).Nodup :=
    fun f hf => (cyl_face_sides N hN f ((mem_cylAddr N false f).mp hf).1).1
  have hl : ∀ f ∈ cylAddr N false, ∀ e ∈ sides (cylFace N f), e.1 ≠ e.2 :=
    fun f hf => (cyl_face_sides N hN f ((mem_cylAddr N false f).mp hf).1).2
  have hbd : numBorder ((cylAddr N false).map (cylFace N)) = 2 * N := by
    rw [numBorder_addressed _ _ (fun _ => 1) (cyl_open_face_border N hN), sum_map_const, length_cylAddr]
    simp
  refine ⟨dirEdges_nodup_addressed _ _ (nodup_cylAddr N false) hs (cyl_hor N hN false), hbd, ?_⟩
  apply euler_addressed _ _ _ (nodup_cylAddr N false) hs (cyl_hor N hN false) hl (2 * N) hbd
  rw [sum_sizes_cyl, length_cylAddr, cylinder_nverts]
  simp only [Bool.false_eq_true, if_false]
  push_cast; omega

/-- the two rims of the open cylinder as polygons: bottom ring run backwards, top ring run forwards -/
def cylRimB (N : Nat) : List Nat := (List.range N).map (fun k => N - 1 - k)
def cylRimT (N : Nat) : List Nat := (List.range N).map (fun k => N + k)

/-- the unmatched sides of the open cylinder are exactly the sides of two vertex-disjoint N-gons: two border loops -/
theorem cylinder_open_loops (N : Nat) (hN : 3 ≤ N) :
    BorderLoops (cylinderFaces N false) [cylRimB N, cylRimT N] ∧ (cylRimB N).length = N ∧ (cylRimT N).length = N := by
  refine ⟨⟨?_, ?_, ?_⟩, by simp [cylRimB], by simp [cylRimT]⟩
  · intro c hc
    simp only [List.mem_cons, List.mem_nil_iff, or_false] at hc
    rcases hc with rfl | rfl
    · unfold cylRimB
      rw [List.nodup_iff_pairwise_ne, List.pairwise_map]
      apply List.Pairwise.imp_of_mem _ List.nodup_range
      intro a b ha hb hab h
      rw [List.mem_range] at ha hb; omega
    · unfold cylRimT
      rw [List.nodup_iff_pairwise_ne, List.pairwise_map]
      apply List.Pairwise.imp _ List.nodup_range
      intro a b hab h; omega
  · simp only [List.pairwise_cons, List.mem_cons, or_false, forall_eq, List.Pairwise.nil, and_true,
      List.not_mem_nil, false_imp_iff, implies_true]
    intro v hv hv'
    simp only [cylRimB, cylRimT, List.mem_map, List.mem_range] at hv hv'
    obtain ⟨k, hk, rfl⟩ := hv
    obtain ⟨k', hk', h⟩ := hv'
    omega
  · rintro ⟨p, q⟩
    rw [cylinderFaces_addressed]
    simp only [List.mem_cons, List.mem_nil_iff, or_false, exists_eq_or_imp, exists_eq_left, cylRimB, cylRimT,
      mem_sides_map_range, Prod.mk.injEq]
    constructor
    · rintro ⟨h1, h2⟩
      rw [mem_dirEdges_cyl_open] at h1
      obtain ⟨i, hi, h⟩ := h1
      have a1 := succ_mod_cases N i hi
      obtain ⟨m1, m2, m3, m4⟩ := cyl_open_matched N (by omega) i hi
      rcases h with ⟨hp, hq⟩ | ⟨hp, hq⟩ | ⟨hp, hq⟩ | ⟨hp, hq⟩ | ⟨hp, hq⟩ | ⟨hp, hq⟩
      · rw [hp, hq] at h2; exact absurd m1 h2
      · rw [hp, hq] at h2; exact absurd m2 h2
      · left
        refine ⟨N - 1 - (i + 1) % N, by omega, ?_⟩
        have a3 := succ_mod_cases N (N - 1 - (i + 1) % N) (by omega)
        omega
      · right
        exact ⟨i, hi, hp, hq⟩
      · rw [hp, hq] at h2; exact absurd m3 h2
      · rw [hp, hq] at h2; exact absurd m4 h2
    · rintro (⟨k, hk, rfl, rfl⟩ | ⟨k, hk, rfl, rfl⟩)
      · have a3 := succ_mod_cases N k hk
        -- the side ((i+1)%N, i) with i = N - 1 - (k+1)%N
        have hi : N - 1 - (k + 1) % N < N := by omega
        have a1 := succ_mod_cases N (N - 1 - (k + 1) % N) hi
        have e1 : N - 1 - k = ((N - 1 - (k + 1) % N) + 1) % N := by omega
        obtain ⟨u1, u2⟩ := cyl_open_rim_unmatched N hN _ hi
        rw [e1]
        refine ⟨?_, u1⟩
        rw [mem_dirEdges_cyl_open]
        exact ⟨_, hi, by omega⟩
      · obtain ⟨u1, u2⟩ := cyl_open_rim_unmatched N hN k hk
        refine ⟨?_, u2⟩
        rw [mem_dirEdges_cyl_open]
        exact ⟨k, hk, by omega⟩

end Mouette.Props.C14
