import Mouette.Lemmas.C20SourceRun
import Mouette.Lemmas.UnionFindC
import Mouette.Lemmas.UFSourceComps
import Mouette.Lemmas.UFSourceMapping
import Mouette.Props.C20
import Mouette.Props.C20Height
/-!
# C20 (round 3) - the theorems of `Props/C20.lean` transferred to what the SOURCE says now

`vlib/gen/c20_translate.py` re-extracts, on every run, the methods of `UnionFind` and `PriorityQueue` from
`$MOUETTE_REPO` into state-passing Lean definitions (`Generated/C20UF.lean`, `Generated/C20PQ.lean`). This file proves

* BRIDGES: each extracted definition computes what the hand model computes (`addStep_bridge`, `findLoopBody_bridge`,
  `findLoop_bridge`, `find_bridge`, `connected_bridge`, `union_bridge`, `roots_bridge`, `component_bridge`, `ctor_bridge`,
  `lt_is_priority_lt`, `data_is_instance_state`, `push_bridge`, `pop_bridge`, `front_bridge`, `empty_bridge`);
  the dict `_indx`, which the hand model abstracts into `elts.idxOf`, is carried by the invariant `IndxInv`;
* THE TRANSFER `srcRun_bridge`: a history run on the extracted definitions reaches the hand model's state, field by field;
* the headline theorems restated on the extracted definitions: `uf_refines_source`, `counts_source`, `find_root_source`,
  `union_total_source`, `find_terminates_source` (the Python `while` exits by its own condition within the fuel),
  `pop_ok_source`, `trace_pop_model_source`, `trace_perm_source`, `drain_perm_source` - the queue theorems now go through
  the PROVED heap contract of `Lemmas/BinHeap.lean` instead of an assumption about `heapq`'s answers;
* isolation: instances never share state (`pq_instances_isolated`, `uf_instances_isolated`), constructor = fold of `add`
  (`ctor_bridge`, `ctor_is_history`).
A semantic change of the source makes a bridge fail (broken obligation -> failing-input search); an unrecognised shape
makes the translator return `ok: False`.
-/
namespace Mouette.Props.C20Source
open Mouette.UF Mouette.UFS Mouette.C20Src
open Mouette.Generated

/-- the history of the non-vacuity examples (same as `Props/C20.lean`): a tree of depth 2, a late add, a repeated add -/
private def hist : List Op := [.union 1 2, .union 3 4, .union 2 4, .add 9, .add 1]

-- the extracted definitions, run on it (facts that do not depend on which root a link on equal sizes keeps, so that the
-- example holds for either spelling of the size test): `_indx` is kept, `find` returns a root, the same for 1 and 4
example : (srcRun hist).indx = [(9, 4), (4, 3), (3, 2), (2, 1), (1, 0)] ∧ (srcRun hist).elts = [1, 2, 3, 4, 9] ∧
    (srcRun hist).par ≠ List.range 5 ∧
    (C20.find (srcRun hist) 4).map (fun r => decide (parent r.1.par r.2 = r.2)) = some true ∧
    (C20.find (srcRun hist) 4).map Prod.snd = (C20.find (srcRun hist) 1).map Prod.snd ∧
    C20.find (srcRun hist) 7 = none ∧
    (C20.connected (srcRun hist) 1 4).map Prod.snd = some true ∧
    (C20.component (srcRun hist) 4).map Prod.snd = some [1, 2, 3, 4] ∧
    (C20.roots (srcRun hist)).map (fun r => r.2.length) = some 2 ∧
    (C20.components (srcRun hist)).map (fun r => r.2.length) = some 2 ∧
    (C20.getitem (srcRun hist) 4).map Prod.snd = some 9 ∧ C20.getitem (srcRun hist) 5 = none ∧
    (C20.ctor C20.init [5, 6, 5, 7, 6]).elts = [5, 6, 7] ∧ C20.len (C20.ctor C20.init [5, 6, 5, 7, 6]) = 3 := by decide

theorem init_bridge : C20.init.toState = UF.init ∧ IndxInv C20.init := ⟨rfl, indxInv_init⟩

theorem contains_bridge {g : St} (h : IndxInv g) (x : Nat) : C20.contains g x = g.toState.mem x := by
  unfold C20.contains; exact h.dmem x

theorem len_bridge (g : St) : C20.len g = g.toState.nElts := rfl

theorem addStep_bridge {g : St} (h : IndxInv g) (x : Nat) :
    (C20.add g x).toState = UF.add g.toState x ∧ IndxInv (C20.add g x) := by
  unfold C20.add
  rw [contains_bridge h]
  by_cases hx : x ∈ g.elts
  · have hm : g.toState.mem x = true := (mem_iff _ _).mpr hx
    rw [hm, if_pos rfl]
    exact ⟨(add_of_mem (s := g.toState) hx).symm, h⟩
  · have hm : g.toState.mem x = false := by
      cases e : g.toState.mem x
      · rfl
      · exact absurd ((mem_iff _ _).mp e) hx
    rw [hm]
    refine ⟨?_, ?_⟩
    · simp only [UF.add, hm, Bool.false_eq_true, if_false]
      rfl
    · exact h.append hx rfl rfl rfl

theorem findLoopBody_bridge (g : St) (p : Nat) :
    C20.findCond g p = decide (parent g.par p ≠ p) ∧
    C20.findBody g p = ({ g with par := g.par.set p (parent g.par (parent g.par p)) }, parent g.par p) := by
  constructor
  · unfold C20.findCond
    by_cases h : parent g.par p = p
    · simp [h]
    · have : p ≠ parent g.par p := fun e => h e.symm
      simp [h, this]
  · rfl

theorem findLoop_bridge : ∀ (fuel : Nat) (g : St) (p : Nat),
    C20.findLoop fuel g p = ({ g with par := (UF.findLoop g.par fuel p).1 }, (UF.findLoop g.par fuel p).2) := by
  intro fuel
  induction fuel with
  | zero => intro g p; rfl
  | succ n ih =>
    intro g p
    rw [C20.findLoop, (findLoopBody_bridge g p).1, (findLoopBody_bridge g p).2]
    by_cases h : parent g.par p = p
    · simp [h, findLoop_succ_root]
    · simp [h, findLoop_succ_step, ih]

theorem find_bridge {g : St} (h : IndxInv g) (x : Nat) :
    lift (C20.find g x) = UF.find g.toState x ∧
    ∀ g' r, C20.find g x = some (g', r) → IndxInv g' ∧ g'.elts = g.elts := by
  unfold C20.find
  by_cases hx : x ∈ g.elts
  · have hd : dmem g.indx x = true := (h.dmem_iff x).mpr hx
    have hx' : x ∈ g.toState.elts := hx
    simp only [hd, Bool.not_true, Bool.false_eq_true, if_false]
    rw [findLoop_bridge, h.dget hx, find_of_mem hx']
    refine ⟨rfl, ?_⟩
    intro g' r e
    injection e with e; injection e with e1 _; subst e1
    exact ⟨h.congr rfl rfl rfl, rfl⟩
  · have hd : dmem g.indx x = false := by
      cases e : dmem g.indx x
      · rfl
      · exact absurd ((h.dmem_iff x).mp e) hx
    have hx' : x ∉ g.toState.elts := hx
    simp only [hd, Bool.not_false, if_true]
    rw [find_of_not_mem hx']
    exact ⟨rfl, fun _ _ e => by cases e⟩

theorem connected_bridge {g : St} (h : IndxInv g) (x y : Nat) :
    lift (C20.connected g x y) = UF.connected g.toState x y ∧
    ∀ g' b, C20.connected g x y = some (g', b) → IndxInv g' ∧ g'.elts = g.elts := by
  obtain ⟨b1, c1⟩ := find_bridge h x
  unfold C20.connected UF.connected
  cases hf : C20.find g x with
  | none =>
    rw [hf] at b1
    rw [← b1]
    exact ⟨rfl, fun _ _ e => by cases e⟩
  | some r =>
    obtain ⟨g1, r1⟩ := r
    rw [hf] at b1
    obtain ⟨i1, e1⟩ := c1 g1 r1 hf
    obtain ⟨b2, c2⟩ := find_bridge i1 y
    rw [← b1]
    simp only [lift, Option.map_some]
    cases hf2 : C20.find g1 y with
    | none =>
      rw [hf2] at b2
      rw [← b2]
      exact ⟨rfl, fun _ _ e => by cases e⟩
    | some r =>
      obtain ⟨g2, r2⟩ := r
      rw [hf2] at b2
      obtain ⟨i2, e2⟩ := c2 g2 r2 hf2
      rw [← b2]
      simp only [lift, Option.map_some]
      refine ⟨by by_cases hr : r1 = r2 <;> simp [hr], ?_⟩
      intro g' b e
      injection e with e; injection e with e1' _; subst e1'
      exact ⟨i2, e2.trans e1⟩

/-- on a present element the translated `find` succeeds, in step with the model's -/
theorem find_some {g : St} (h : IndxInv g) {x : Nat} (hx : x ∈ g.elts) :
    ∃ g' r, C20.find g x = some (g', r) ∧ UF.find g.toState x = some (g'.toState, r) ∧ IndxInv g' ∧
      g'.elts = g.elts := by
  obtain ⟨b, c⟩ := find_bridge h x
  cases hf : C20.find g x with
  | none =>
    rw [hf] at b
    have hx' : x ∈ g.toState.elts := hx
    rw [find_of_mem hx'] at b
    cases b
  | some r =>
    obtain ⟨g', r⟩ := r
    rw [hf] at b
    exact ⟨g', r, rfl, b.symm, c g' r hf⟩

/-- the size comparison of `union`, whichever way the source spells it today (`<` or `<=`), orders by size: the smaller
tree goes under the larger one. (Every history theorem below holds for an ARBITRARY comparison; only the height bound of
`Props/C20Height.lean` needs this.) -/
theorem sizCmp_is_size_order : SizeOrder C20.sizCmp :=
  ⟨fun a b h => by simp [C20.sizCmp] at h; omega, fun a b h => by simp [C20.sizCmp] at h; omega⟩

example : C20.sizCmp 1 2 = true ∧ C20.sizCmp 2 1 = false := by decide

/-- the extracted `union` never raises and is the model's `unionC` with the comparison the source uses -/
theorem union_bridge {g : St} (h : IndxInv g) (x y : Nat) :
    ∃ g', C20.union g x y = some (g', ()) ∧ g'.toState = UF.unionC C20.sizCmp g.toState x y ∧ IndxInv g' := by
  -- the two guarded adds are the model's two adds
  have hadd : ∀ (g0 : St), IndxInv g0 → ∀ z,
      (if (!C20.contains g0 z) = true then C20.add g0 z else g0) = C20.add g0 z := by
    intro g0 h0 z
    by_cases hc : C20.contains g0 z = true
    · simp only [hc, Bool.not_true, Bool.false_eq_true, if_false]
      unfold C20.add; rw [hc]; rfl
    · have : C20.contains g0 z = false := by cases e : C20.contains g0 z <;> simp_all
      simp [this]
  obtain ⟨a1, i1⟩ := addStep_bridge h x
  obtain ⟨a2, i2⟩ := addStep_bridge i1 y
  have hx2 : x ∈ (C20.add (C20.add g x) y).elts := by
    show x ∈ (C20.add (C20.add g x) y).toState.elts
    rw [a2, a1, mem_add_elts, mem_add_elts]; exact Or.inl (Or.inr rfl)
  have hy2 : y ∈ (C20.add (C20.add g x) y).elts := by
    show y ∈ (C20.add (C20.add g x) y).toState.elts
    rw [a2, mem_add_elts]; exact Or.inr rfl
  obtain ⟨g3, xr, f3, m3, i3, e3⟩ := find_some i2 hx2
  obtain ⟨g4, yr, f4, m4, i4, e4⟩ := find_some i3 (by rw [e3]; exact hy2)
  unfold C20.union UF.unionC
  simp only [hadd g h x, hadd _ i1 y, f3, f4]
  rw [← a1, ← a2, m3]
  simp only []
  rw [m4]
  simp only []
  by_cases hr : xr = yr
  · simp only [hr, decide_true, if_true]
    exact ⟨g4, rfl, rfl, i4⟩
  · simp only [hr, decide_false, Bool.false_eq_true, if_false]
    by_cases hs : C20.sizCmp (sizAt g4.siz xr) (sizAt g4.siz yr) = true
    · have hs' : C20.sizCmp (g4.toState.siz.getD xr 0) (g4.toState.siz.getD yr 0) = true := hs
      simp only [hs, hs', if_true]
      exact ⟨_, rfl, rfl, i4.congr rfl rfl rfl⟩
    · have hs' : ¬ C20.sizCmp (g4.toState.siz.getD xr 0) (g4.toState.siz.getD yr 0) = true := hs
      simp only [hs, hs']
      exact ⟨_, rfl, rfl, i4.congr rfl rfl rfl⟩

theorem rootsStep_bridge {g : St} (h : IndxInv g) {e : Nat} (he : e ∈ g.elts) (out : List Nat) :
    ∃ g', C20.rootsGen1Step (some (g, out)) e = some (g', (rootsStep (g.toState, out) e).2) ∧
      g'.toState = (rootsStep (g.toState, out) e).1 ∧ IndxInv g' ∧ g'.elts = g.elts := by
  obtain ⟨g', r, f, m, i, e'⟩ := find_some h he
  refine ⟨g', ?_, ?_, i, e'⟩
  · simp [C20.rootsGen1Step, f, rootsStep, m]
  · simp [rootsStep, m]

theorem rootsFold_bridge : ∀ (l : List Nat) (g : St) (out : List Nat), IndxInv g → (∀ e, e ∈ l → e ∈ g.elts) →
    ∃ g', l.foldl C20.rootsGen1Step (some (g, out)) = some (g', (l.foldl rootsStep (g.toState, out)).2) ∧
      g'.toState = (l.foldl rootsStep (g.toState, out)).1 ∧ IndxInv g' ∧ g'.elts = g.elts := by
  intro l
  induction l with
  | nil => intro g out h _; exact ⟨g, rfl, rfl, h, rfl⟩
  | cons e l ih =>
    intro g out h hm
    obtain ⟨g1, s1, t1, i1, e1⟩ := rootsStep_bridge h (hm e (List.mem_cons_self ..)) out
    obtain ⟨g2, s2, t2, i2, e2⟩ := ih g1 (rootsStep (g.toState, out) e).2 i1
      (fun z hz => by rw [e1]; exact hm z (List.mem_cons_of_mem _ hz))
    have hp : (g1.toState, (rootsStep (g.toState, out) e).2) = rootsStep (g.toState, out) e := by
      rw [t1]
    rw [List.foldl_cons, List.foldl_cons, s1, ← hp]
    exact ⟨g2, s2, t2, i2, e2.trans e1⟩

theorem roots_bridge {g : St} (h : IndxInv g) :
    ∃ g', C20.roots g = some (g', setOf (rootsList g.toState).2) ∧ g'.toState = (rootsList g.toState).1 ∧
      IndxInv g' ∧ g'.elts = g.elts := by
  obtain ⟨g', s, t, i, e⟩ := rootsFold_bridge g.elts g [] h (fun _ hz => hz)
  refine ⟨g', ?_, t, i, e⟩
  unfold C20.roots C20.rootsGen1
  rw [s]
  rfl

theorem compStep_bridge {g : St} (h : IndxInv g) (root : Nat) {e : Nat} (he : e ∈ g.elts) (out : List Nat) :
    ∃ g', C20.componentGen1Step root (some (g, out)) e = some (g', (compStep root (g.toState, out) e).2) ∧
      g'.toState = (compStep root (g.toState, out) e).1 ∧ IndxInv g' ∧ g'.elts = g.elts := by
  obtain ⟨g', r, f, m, i, e'⟩ := find_some h he
  refine ⟨g', ?_, ?_, i, e'⟩
  · by_cases hr : r = root <;> simp [C20.componentGen1Step, f, compStep, m, hr]
  · by_cases hr : r = root <;> simp [compStep, m, hr]

theorem compFold_bridge (root : Nat) : ∀ (l : List Nat) (g : St) (out : List Nat), IndxInv g →
    (∀ e, e ∈ l → e ∈ g.elts) →
    ∃ g', l.foldl (C20.componentGen1Step root) (some (g, out))
        = some (g', (l.foldl (compStep root) (g.toState, out)).2) ∧
      g'.toState = (l.foldl (compStep root) (g.toState, out)).1 ∧ IndxInv g' ∧ g'.elts = g.elts := by
  intro l
  induction l with
  | nil => intro g out h _; exact ⟨g, rfl, rfl, h, rfl⟩
  | cons e l ih =>
    intro g out h hm
    obtain ⟨g1, s1, t1, i1, e1⟩ := compStep_bridge h root (hm e (List.mem_cons_self ..)) out
    obtain ⟨g2, s2, t2, i2, e2⟩ := ih g1 (compStep root (g.toState, out) e).2 i1
      (fun z hz => by rw [e1]; exact hm z (List.mem_cons_of_mem _ hz))
    have hp : (g1.toState, (compStep root (g.toState, out) e).2) = compStep root (g.toState, out) e := by
      rw [t1]
    rw [List.foldl_cons, List.foldl_cons, s1, ← hp]
    exact ⟨g2, s2, t2, i2, e2.trans e1⟩

theorem component_bridge {g : St} (h : IndxInv g) (x : Nat) :
    lift (C20.component g x) = (UF.component g.toState x).map (fun r => (r.1, setOf r.2)) ∧
    ∀ g' l, C20.component g x = some (g', l) → IndxInv g' ∧ g'.elts = g.elts := by
  unfold C20.component UF.component
  rw [contains_bridge h]
  by_cases hx : x ∈ g.elts
  · have hm : g.toState.mem x = true := (mem_iff _ _).mpr hx
    obtain ⟨g1, r, f1, m1, i1, e1⟩ := find_some h hx
    obtain ⟨g2, s2, t2, i2, e2⟩ := compFold_bridge r g1.elts g1 [] i1 (fun _ hz => hz)
    simp only [hm, Bool.not_true, Bool.false_eq_true, if_false, if_true, f1, m1, C20.componentGen1]
    rw [s2]
    simp only [lift, Option.map_some]
    refine ⟨?_, ?_⟩
    · rw [t2]; rfl
    · intro g' l e
      injection e with e; injection e with e' _; subst e'
      exact ⟨i2, e2.trans e1⟩
  · have hm : g.toState.mem x = false := by
      cases e : g.toState.mem x
      · rfl
      · exact absurd ((mem_iff _ _).mp e) hx
    simp only [hm, Bool.not_false, if_true, Bool.false_eq_true, if_false]
    exact ⟨rfl, fun _ _ e => by cases e⟩

/-! ## `__getitem__` and `components()` -/

/-- `uf[i]`: IndexError exactly outside `0 <= i < len(_elts)`, otherwise the element stored at position `i`; no state change -/
theorem getitem_bridge {g : St} (h : IndxInv g) (i : Nat) :
    C20.getitem g i = if i < g.elts.length then some (g, g.toState.elts.getD i 0) else none := by
  by_cases hi : i < g.elts.length
  · have h1 : ¬ g.elts.length ≤ i := by omega
    simp [C20.getitem, h.next, hi, h1, UFS.eltAt, St.toState]
  · have h1 : g.elts.length ≤ i := by omega
    simp [C20.getitem, h.next, hi, h1]

theorem compsFold_none (ids : Dict) : ∀ (l : List Nat), l.foldl (C20.componentsFor1Step ids) none = none := by
  intro l
  induction l with
  | nil => rfl
  | cons e l ih => rw [List.foldl_cons]; exact ih

/-- the loop of `components()`: the state is threaded through the `find`s (which only halve paths), the buckets are
filled as by the pure fold `bucketStep` keyed by the class root of the state the loop started in -/
theorem compsFold_bridge (ids : Dict) {g0 : St} (inv0 : Inv g0.toState) : ∀ (l : List Nat) (g : St) (bs : List (List Nat)),
    IndxInv g → Inv g.toState → PEquiv g0.toState g.toState → (∀ e, e ∈ l → e ∈ g.elts) →
    ∃ g', l.foldl (C20.componentsFor1Step ids) (some (g, bs))
        = (l.foldl (bucketStep ids (classOf g0.toState)) (some bs)).map (fun b => (g', b)) ∧
      IndxInv g' ∧ g'.elts = g.elts ∧ Inv g'.toState ∧ PEquiv g0.toState g'.toState := by
  intro l
  induction l with
  | nil => intro g bs h inv pe _; exact ⟨g, rfl, h, rfl, inv, pe⟩
  | cons e l ih =>
    intro g bs h inv pe hm
    have he : e ∈ g.elts := hm e (List.mem_cons_self ..)
    have he' : e ∈ g.toState.elts := he
    obtain ⟨g1, r, f, m, i1, e1⟩ := find_some h he
    obtain ⟨s', r', hf, inv1, pe1, hreach, _⟩ := find_spec inv he'
    rw [m] at hf
    injection hf with hf; injection hf with hs hr
    subst hs hr
    have hcls : r = classOf g0.toState e := by
      have h1 : classOf g.toState e = r := (rootOf_eq_iff inv (idxOf_lt he') r).mpr hreach
      have he0 : e ∈ g0.toState.elts := by rw [← pe.elts]; exact he'
      rw [← h1, pe.classOf inv0 inv he0]
    have hm1 : ∀ z, z ∈ l → z ∈ g1.elts := fun z hz => by rw [e1]; exact hm z (List.mem_cons_of_mem _ hz)
    rw [List.foldl_cons, List.foldl_cons]
    have step1 : C20.componentsFor1Step ids (some (g, bs)) e
        = match dlookup ids r with
          | none => none
          | some i => (bucketAppend bs i e).map (fun b => (g1, b)) := by
      simp only [C20.componentsFor1Step, f]
      cases dlookup ids r with
      | none => rfl
      | some i => simp only []; cases bucketAppend bs i e <;> rfl
    have step2 : bucketStep ids (classOf g0.toState) (some bs) e
        = match dlookup ids r with
          | none => none
          | some i => bucketAppend bs i e := by
      simp only [bucketStep, ← hcls]
      rfl
    rw [step1, step2]
    cases dlookup ids r with
    | none =>
      refine ⟨g1, ?_, i1, e1, inv1, pe.trans pe1⟩
      simp only [compsFold_none, bucketFold_none, Option.map_none]
    | some i =>
      simp only []
      cases hb : bucketAppend bs i e with
      | none =>
        refine ⟨g1, ?_, i1, e1, inv1, pe.trans pe1⟩
        simp only [Option.map_none, compsFold_none, bucketFold_none]
      | some bs' =>
        obtain ⟨g2, s2, i2, e2, inv2, pe2⟩ := ih g1 bs' i1 inv1 (pe.trans pe1) hm1
        exact ⟨g2, by simpa using s2, i2, e2.trans e1, inv2, pe2⟩

/-- BRIDGE for `components()` (translated as the fold it is): on every state satisfying the invariant it does not raise
(neither the KeyError of `root_ids[…]` nor the IndexError of `components[i]`), returns exactly the listing of the hand
model `UF.components` - one bucket per distinct root, each holding the elements of that class in `_elts` order - and only
halves paths (`PEquiv`: same elements, counters, sizes, same roots) -/
theorem components_bridge {g : St} (h : IndxInv g) (inv : Inv g.toState) :
    ∃ g', C20.components g = some (g', (UF.components g.toState).2) ∧ IndxInv g' ∧ g'.elts = g.elts ∧
      Inv g'.toState ∧ PEquiv g.toState g'.toState := by
  obtain ⟨g1, hr, t1, i1, e1⟩ := roots_bridge h
  obtain ⟨inv1', pe1', _⟩ := rootsList_spec inv
  have inv1 : Inv g1.toState := by rw [t1]; exact inv1'
  have pe1 : PEquiv g.toState g1.toState := by rw [t1]; exact pe1'
  have hrs : (rootsList g.toState).2 = g.toState.elts.map (classOf g.toState) := rootsList_snd inv
  have hn : (setOf (rootsList g.toState).2).Nodup := nodup_eraseDups _ _ (Nat.le_refl _)
  obtain ⟨g2, s2, i2, e2, inv2, pe2⟩ := compsFold_bridge
    (dictOf ((enumerate (setOf (rootsList g.toState).2)).map (fun (p : Nat × Nat) => (p.2, p.1)))) inv1 g1.elts g1
    ((setOf (rootsList g.toState).2).map (fun _ => ([] : List Nat))) i1 inv1 (PEquiv.refl _) (fun _ hz => hz)
  have hcls : ∀ e, e ∈ g.toState.elts → classOf g1.toState e = classOf g.toState e :=
    fun e he => pe1.classOf inv inv1 he
  rw [bucketFold_spec hn (fun r hr => rootIds_lookup hn hr) (classOf g1.toState) g1.elts (fun _ => [])] at s2
  · refine ⟨g2, ?_, i2, e2.trans e1, inv2, pe1.trans pe2⟩
    unfold C20.components
    simp only [hr, s2, Option.map_some]
    obtain ⟨s', hc, _, _⟩ := UF.components_spec inv
    rw [hc]
    simp only [hrs, setOf, List.nil_append]
    congr 2
    apply List.map_congr_left
    intro r _
    unfold classList
    rw [e1]
    apply List.filter_congr
    intro e he
    rw [hcls e he]
  · intro e he
    rw [e1] at he
    rw [hcls e he, mem_setOf, hrs]
    exact List.mem_map.mpr ⟨e, he, rfl⟩

/-! ## `component_mapping()` and `__setitem__` -/

theorem cmFold_none : ∀ (l : List Nat), l.foldl C20.componentMappingFor1Step none = none := by
  intro l
  induction l with
  | nil => rfl
  | cons e l ih => rw [List.foldl_cons]; exact ih

/-- the first loop of `component_mapping()`: the state is threaded through the `find`s (which only halve paths); the dict
of sets is filled as by the pure fold `grpStep` keyed by the class root of the state the loop started in; nothing raises -/
theorem cmFold_bridge {g0 : St} (inv0 : Inv g0.toState) : ∀ (l : List Nat) (g : St) (d : DictS),
    IndxInv g → Inv g.toState → PEquiv g0.toState g.toState → (∀ e, e ∈ l → e ∈ g.elts) →
    ∃ g', l.foldl C20.componentMappingFor1Step (some (g, d))
        = some (g', l.foldl (grpStep (classOf g0.toState)) d) ∧
      IndxInv g' ∧ g'.elts = g.elts ∧ Inv g'.toState ∧ PEquiv g0.toState g'.toState := by
  intro l
  induction l with
  | nil => intro g d h inv pe _; exact ⟨g, rfl, h, rfl, inv, pe⟩
  | cons e l ih =>
    intro g d h inv pe hm
    have he : e ∈ g.elts := hm e (List.mem_cons_self ..)
    have he' : e ∈ g.toState.elts := he
    obtain ⟨g1, r, f, m, i1, e1⟩ := find_some h he
    obtain ⟨s', r', hf, inv1, pe1, hreach, _⟩ := find_spec inv he'
    rw [m] at hf
    injection hf with hf; injection hf with hs hr
    subst hs hr
    have hcls : r = classOf g0.toState e := by
      have h1 : classOf g.toState e = r := (rootOf_eq_iff inv (idxOf_lt he') r).mpr hreach
      have he0 : e ∈ g0.toState.elts := by rw [← pe.elts]; exact he'
      rw [← h1, pe.classOf inv0 inv he0]
    have hm1 : ∀ z, z ∈ l → z ∈ g1.elts := fun z hz => by rw [e1]; exact hm z (List.mem_cons_of_mem _ hz)
    have step1 : C20.componentMappingFor1Step (some (g, d)) e = some (g1, grpStep (classOf g0.toState) d e) := by
      simp only [C20.componentMappingFor1Step, f, grpStep, ← hcls]
    rw [List.foldl_cons, List.foldl_cons, step1]
    obtain ⟨g2, s2, i2, e2, inv2, pe2⟩ := ih g1 _ i1 inv1 (pe.trans pe1) hm1
    exact ⟨g2, s2, i2, e2.trans e1, inv2, pe2⟩

/-- BRIDGE for `component_mapping()` (translated as the two loops it is): on every state satisfying the invariant it does
not raise, returns exactly the association list of the hand model `UF.componentMapping` - every stored element mapped to
the members of its class - and only halves paths -/
theorem component_mapping_bridge {g : St} (h : IndxInv g) (inv : Inv g.toState) :
    ∃ g', C20.componentMapping g = some (g', (UF.componentMapping g.toState).2) ∧ IndxInv g' ∧ g'.elts = g.elts ∧
      Inv g'.toState ∧ PEquiv g.toState g'.toState := by
  obtain ⟨g1, s1, i1, e1, inv1, pe1⟩ := cmFold_bridge inv g.elts g [] h inv (PEquiv.refl _) (fun _ hz => hz)
  refine ⟨g1, ?_, i1, e1, inv1, pe1⟩
  obtain ⟨s', hc, _, _⟩ := UF.componentMapping_spec inv
  have hnd : g.elts.Nodup := inv.nodup
  have hp := componentMapping_pure (classOf g.toState) hnd
  unfold C20.componentMapping
  simp only [s1]
  rw [hc]
  exact congrArg (fun m => some (g1, m)) hp

/-- `uf[i] = x`: IndexError exactly outside `0 <= i < len(_elts)`, otherwise the cell `i` of `_elts` is overwritten and
NOTHING else changes (in particular not `_indx`) -/
theorem setitem_bridge {g : St} (h : IndxInv g) (i x : Nat) :
    C20.setitem g i x = if i < g.elts.length then some ({ g with elts := g.elts.set i x }, ()) else none := by
  by_cases hi : i < g.elts.length
  · have h1 : ¬ g.elts.length ≤ i := by omega
    simp [C20.setitem, h.next, hi, h1]
  · have h1 : g.elts.length ≤ i := by omega
    simp [C20.setitem, h.next, hi, h1]

/-- why `__setitem__` is not an operation of the histories the statement quantifies over: it overwrites the stored
element without touching the dict `_indx`, so afterwards the new element is stored but "not in" the structure and the old
one is "in" it but stored nowhere - the tie `IndxInv` between `_elts` and `_indx`, on which every bridge rests, is lost -/
theorem setitem_breaks_indx :
    ∃ g', C20.setitem (srcRun [.add 1]) 0 5 = some (g', ()) ∧ 5 ∈ g'.elts ∧ C20.contains g' 5 = false ∧
      1 ∉ g'.elts ∧ C20.contains g' 1 = true ∧ ¬ IndxInv g' := by
  refine ⟨_, rfl, by decide, by decide, by decide, by decide, ?_⟩
  intro h
  have := h.dmem_iff 5
  revert this
  decide

/-! ## histories on the translated definitions -/

theorem srcStep_bridge {g : St} (h : IndxInv g) (op : Op) :
    (srcStep g op).toState = UF.stepC C20.sizCmp g.toState op ∧ IndxInv (srcStep g op) := by
  cases op with
  | add x => exact addStep_bridge h x
  | union x y =>
    obtain ⟨g', e, t, i⟩ := union_bridge h x y
    simp only [srcStep, e, UF.stepC]
    exact ⟨t, i⟩
  | find x =>
    obtain ⟨b, c⟩ := find_bridge h x
    simp only [srcStep, UF.stepC]
    cases hf : C20.find g x with
    | none => rw [hf] at b; rw [← b]; exact ⟨rfl, h⟩
    | some r => obtain ⟨g', r⟩ := r; rw [hf] at b; rw [← b]; exact ⟨rfl, (c g' r hf).1⟩
  | connected x y =>
    obtain ⟨b, c⟩ := connected_bridge h x y
    simp only [srcStep, UF.stepC]
    cases hf : C20.connected g x y with
    | none => rw [hf] at b; rw [← b]; exact ⟨rfl, h⟩
    | some r => obtain ⟨g', r⟩ := r; rw [hf] at b; rw [← b]; exact ⟨rfl, (c g' r hf).1⟩
  | component x =>
    obtain ⟨b, c⟩ := component_bridge h x
    simp only [srcStep, UF.stepC]
    cases hf : C20.component g x with
    | none =>
      rw [hf] at b
      cases hm : UF.component g.toState x with
      | none => exact ⟨rfl, h⟩
      | some r => rw [hm] at b; cases b
    | some r =>
      obtain ⟨g', l⟩ := r
      rw [hf] at b
      cases hm : UF.component g.toState x with
      | none => rw [hm] at b; cases b
      | some r' =>
        rw [hm] at b
        simp only [lift, Option.map_some] at b
        injection b with b; injection b with b1 _
        exact ⟨b1, (c g' l hf).1⟩

theorem srcFold_bridge : ∀ (ops : List Op) (g : St), IndxInv g →
    (ops.foldl srcStep g).toState = ops.foldl (UF.stepC C20.sizCmp) g.toState ∧ IndxInv (ops.foldl srcStep g) := by
  intro ops
  induction ops with
  | nil => intro g h; exact ⟨rfl, h⟩
  | cons op ops ih =>
    intro g h
    obtain ⟨a, b⟩ := srcStep_bridge h op
    rw [List.foldl_cons, List.foldl_cons, ← a]
    exact ih _ b

/-- THE TRANSFER: a history run on the definitions extracted from the source reaches, field by field, the state the hand
model reaches (and `_indx` stays the inverse of `_elts`); every theorem of `Props/C20.lean` about `run ops` is thereby a
theorem about what unionfind.py says now. -/
theorem srcRun_bridge (ops : List Op) : (srcRun ops).toState = UF.runC C20.sizCmp ops ∧ IndxInv (srcRun ops) :=
  srcFold_bridge ops C20.init init_bridge.2

/-- `UnionFind(elements)` is the fold of `add` over the container, duplicates included. -/
theorem ctor_bridge (elements : List Nat) {g : St} (h : IndxInv g) :
    (C20.ctor g elements).toState = elements.foldl UF.add g.toState ∧ IndxInv (C20.ctor g elements) := by
  show (elements.foldl C20.add g).toState = _ ∧ IndxInv (elements.foldl C20.add g)
  induction elements generalizing g with
  | nil => exact ⟨rfl, h⟩
  | cons e l ih =>
    obtain ⟨a, b⟩ := addStep_bridge h e
    rw [List.foldl_cons, List.foldl_cons, ← a]
    exact ih b

theorem ctor_is_history (elements : List Nat) :
    (C20.ctor C20.init elements).toState = UF.runC C20.sizCmp (elements.map .add) := by
  rw [(ctor_bridge elements init_bridge.2).1]
  show elements.foldl UF.add UF.init = (elements.map Op.add).foldl (UF.stepC C20.sizCmp) UF.init
  rw [List.foldl_map]
  rfl

theorem srcRunFrom_bridge (elements : List Nat) (ops : List Op) :
    (srcRunFrom elements ops).toState = UF.runC C20.sizCmp (elements.map .add ++ ops) ∧ IndxInv (srcRunFrom elements ops) := by
  obtain ⟨a, b⟩ := srcFold_bridge ops (C20.ctor C20.init elements) (ctor_bridge elements init_bridge.2).2
  refine ⟨?_, b⟩
  rw [srcRunFrom, a, ctor_is_history, UF.runC, UF.runC, List.foldl_append]

/-! ## the history theorems of `Props/C20.lean` for an ARBITRARY size comparison

(`Props/C20.lean` states them for `run`, i.e. the comparison `<`; which root survives a link never matters for them) -/

/-- `uf_refines` for `union` with any size comparison `c` -/
theorem uf_refinesC (c : Nat → Nat → Bool) (ops : List Op) (x y : Nat) (hx : x ∈ (runC c ops).elts)
    (hy : y ∈ (runC c ops).elts) :
    ∃ s' b, connected (runC c ops) x y = some (s', b) ∧ (b = true ↔ Joined ops x y) := by
  obtain ⟨s', b, hc, _, _, hb⟩ := connected_spec (inv_runC c ops) hx hy
  exact ⟨s', b, hc, hb.trans ((refines_runC c ops).cls x y hx hy)⟩

theorem elts_eq_presentC (c : Nat → Nat → Bool) (ops : List Op) (x : Nat) :
    x ∈ (runC c ops).elts ↔ x ∈ present ops := (refines_runC c ops).mem x

theorem countsC (c : Nat → Nat → Bool) (ops : List Op) :
    (runC c ops).nElts = (runC c ops).elts.length ∧ (runC c ops).elts.Nodup ∧
    (runC c ops).nElts = (present ops).eraseDups.length ∧
    (runC c ops).nComps = ((List.range (runC c ops).elts.length).filter
      (fun i => decide (parent (runC c ops).par i = i))).length := by
  have inv := inv_runC c ops
  refine ⟨inv.nEltsEq, inv.nodup, ?_, nComps_eq_rootIdxs inv⟩
  rw [inv.nEltsEq]
  apply List.Perm.length_eq
  rw [List.perm_ext_iff_of_nodup inv.nodup (nodup_eraseDups _ _ (Nat.le_refl _))]
  intro x
  rw [List.mem_eraseDups]
  exact elts_eq_presentC c ops x

-- both spellings of the size test give the same partition but not the same forest: `<=` keeps the OTHER root on equal sizes
example : (runC ltCmp [.union 1 2]).par = [0, 0] ∧ (runC leCmp [.union 1 2]).par = [1, 1] ∧
    (connected (runC leCmp [.union 1 2, .union 3 4, .union 2 4]) 1 3).map Prod.snd = some true := by decide

/-! ## headline theorems, restated on the translated definitions -/

/-- `uf_refines` on the source: after ANY history run on the extracted `add`/`union`/`find`/`connected`/`component`,
`connected x y` (as extracted) does not raise on present elements and answers `true` exactly when a chain of unions joins
them. -/
theorem uf_refines_source (ops : List Op) (x y : Nat) (hx : x ∈ (srcRun ops).elts) (hy : y ∈ (srcRun ops).elts) :
    ∃ g' b, C20.connected (srcRun ops) x y = some (g', b) ∧ (b = true ↔ Joined ops x y) := by
  obtain ⟨t, i⟩ := srcRun_bridge ops
  obtain ⟨bc, _⟩ := connected_bridge i x y
  have hx' : x ∈ (UF.runC C20.sizCmp ops).elts := by rw [← t]; exact hx
  have hy' : y ∈ (UF.runC C20.sizCmp ops).elts := by rw [← t]; exact hy
  obtain ⟨s', b, hc, hb⟩ := uf_refinesC C20.sizCmp ops x y hx' hy'
  rw [t, hc] at bc
  cases hf : C20.connected (srcRun ops) x y with
  | none => rw [hf] at bc; cases bc
  | some r =>
    obtain ⟨g', b'⟩ := r
    rw [hf] at bc
    simp only [lift, Option.map_some] at bc
    injection bc with bc; injection bc with _ e2
    exact ⟨g', b', rfl, by rw [e2]; exact hb⟩

/-- the same from `UnionFind(elements)`: the constructor's elements count as adds -/
theorem uf_refines_source_from (elements : List Nat) (ops : List Op) (x y : Nat)
    (hx : x ∈ (srcRunFrom elements ops).elts) (hy : y ∈ (srcRunFrom elements ops).elts) :
    ∃ g' b, C20.connected (srcRunFrom elements ops) x y = some (g', b) ∧
      (b = true ↔ Joined (elements.map .add ++ ops) x y) := by
  obtain ⟨t, i⟩ := srcRunFrom_bridge elements ops
  obtain ⟨bc, _⟩ := connected_bridge i x y
  have hx' : x ∈ (UF.runC C20.sizCmp (elements.map .add ++ ops)).elts := by rw [← t]; exact hx
  have hy' : y ∈ (UF.runC C20.sizCmp (elements.map .add ++ ops)).elts := by rw [← t]; exact hy
  obtain ⟨s', b, hc, hb⟩ := uf_refinesC C20.sizCmp _ x y hx' hy'
  rw [t, hc] at bc
  cases hf : C20.connected (srcRunFrom elements ops) x y with
  | none => rw [hf] at bc; cases bc
  | some r =>
    obtain ⟨g', b'⟩ := r
    rw [hf] at bc
    simp only [lift, Option.map_some] at bc
    injection bc with bc; injection bc with _ e2
    exact ⟨g', b', rfl, by rw [e2]; exact hb⟩

/-- counters and element list of the source after any history: `counts`, `elts_eq_present` transferred -/
theorem counts_source (ops : List Op) :
    C20.len (srcRun ops) = (srcRun ops).elts.length ∧ (srcRun ops).elts.Nodup ∧
    (∀ x, C20.contains (srcRun ops) x = true ↔ x ∈ present ops) ∧
    C20.len (srcRun ops) = (present ops).eraseDups.length ∧
    (srcRun ops).nComps = ((List.range (srcRun ops).elts.length).filter
      (fun i => decide (parent (srcRun ops).par i = i))).length := by
  obtain ⟨t, i⟩ := srcRun_bridge ops
  obtain ⟨c1, c2, c3, c4⟩ := countsC C20.sizCmp ops
  rw [← t] at c1 c2 c3 c4
  refine ⟨c1, c2, fun x => ?_, c3, c4⟩
  rw [contains_bridge i, mem_iff, t]
  exact elts_eq_presentC C20.sizCmp ops x

/-- the extracted `union` never raises, whatever its arguments (absent ones are added first) -/
theorem union_total_source (ops : List Op) (x y : Nat) :
    ∃ g', C20.union (srcRun ops) x y = some (g', ()) ∧ g'.toState = UF.runC C20.sizCmp (ops ++ [.union x y]) := by
  obtain ⟨t, i⟩ := srcRun_bridge ops
  obtain ⟨g', e, t', _⟩ := union_bridge i x y
  refine ⟨g', e, ?_⟩
  rw [t', t, UF.runC, UF.runC, List.foldl_append]
  rfl

/-- the extracted `find` raises exactly on absent elements; on present ones it returns the class root, a root index in
range -/
theorem find_root_source (ops : List Op) (x : Nat) :
    (C20.find (srcRun ops) x = none ↔ x ∉ present ops) ∧
    (x ∈ present ops → ∃ g' r, C20.find (srcRun ops) x = some (g', r) ∧ r < (srcRun ops).elts.length ∧
      parent g'.par r = r ∧ r = classOf (UF.runC C20.sizCmp ops) x ∧
      g'.toState = UF.step (UF.runC C20.sizCmp ops) (.find x)) := by
  obtain ⟨t, i⟩ := srcRun_bridge ops
  obtain ⟨b, _⟩ := find_bridge i x
  rw [t] at b
  constructor
  · rw [← elts_eq_presentC C20.sizCmp, ← Mouette.Props.C20.find_none_iff, ← b]
    cases C20.find (srcRun ops) x <;> simp [lift]
  · intro hx
    have hx' := (elts_eq_presentC C20.sizCmp ops x).mpr hx
    obtain ⟨s', r, hf, hlt, hroot, hcls, _⟩ := Mouette.Props.C20.find_root (UF.inv_runC C20.sizCmp ops) hx'
    rw [hf] at b
    cases hg : C20.find (srcRun ops) x with
    | none => rw [hg] at b; cases b
    | some p =>
      obtain ⟨g', r'⟩ := p
      rw [hg] at b
      simp only [lift, Option.map_some] at b
      injection b with b; injection b with b1 b2
      subst b2
      refine ⟨g', r', rfl, ?_, ?_, hcls, ?_⟩
      · have : (srcRun ops).elts = (UF.runC C20.sizCmp ops).elts := by rw [← t]; rfl
        rw [this]; exact hlt
      · have : g'.par = s'.par := by rw [← b1]; rfl
        rw [this]; exact hroot
      · simp only [UF.step, hf]; exact b1

/-- the Python `while` loop of `find` terminates on every reachable state: it exits BY ITS OWN CONDITION within
`len(_par)` iterations (the fuel the translation gives it), and any larger fuel computes the same thing -/
theorem find_terminates_source (ops : List Op) (p : Nat) (hp : p < (srcRun ops).par.length) (k : Nat) :
    C20.findLoop ((srcRun ops).par.length + k) (srcRun ops) p = C20.findLoop (srcRun ops).par.length (srcRun ops) p ∧
    C20.findCond (C20.findLoop (srcRun ops).par.length (srcRun ops) p).1
      (C20.findLoop (srcRun ops).par.length (srcRun ops) p).2 = false := by
  obtain ⟨t, _⟩ := srcRun_bridge ops
  have inv := UF.inv_runC C20.sizCmp ops
  rw [← t] at inv
  obtain ⟨rk, w⟩ := inv.wf
  have w' : WF (srcRun ops).par rk := w
  constructor
  · rw [findLoop_bridge, findLoop_bridge, findLoop_stable (rk := rk) _ _ _ w' hp (by omega) k]
  · rw [findLoop_bridge, (findLoopBody_bridge _ _).1]
    have := findLoop_exit (rk := rk) (srcRun ops).par p w' hp
    simp only []
    rw [this]
    simp

/-- QUANTITATIVE termination (strengthens `find_terminates_source`): union by size keeps every tree of height at most
log2(number of elements), so on every reachable state the Python `while` of `find` exits by its own condition within
`log2 n` iterations from any stored index - for either spelling (`<` / `<=`) of the size test the source may use -/
theorem find_terminates_log_source (ops : List Op) (p : Nat) (hp : p < (srcRun ops).elts.length) (k : Nat) :
    C20.findLoop (Nat.log2 (srcRun ops).elts.length + k) (srcRun ops) p
      = C20.findLoop (Nat.log2 (srcRun ops).elts.length) (srcRun ops) p ∧
    C20.findCond (C20.findLoop (Nat.log2 (srcRun ops).elts.length) (srcRun ops) p).1
      (C20.findLoop (Nat.log2 (srcRun ops).elts.length) (srcRun ops) p).2 = false ∧
    C20.findLoop (srcRun ops).par.length (srcRun ops) p
      = C20.findLoop (Nat.log2 (srcRun ops).elts.length) (srcRun ops) p := by
  obtain ⟨t, _⟩ := srcRun_bridge ops
  have he : (UF.runC C20.sizCmp ops).elts = (srcRun ops).elts := by rw [← t]; rfl
  have hpar : (UF.runC C20.sizCmp ops).par = (srcRun ops).par := by rw [← t]; rfl
  have hp' : p < (UF.runC C20.sizCmp ops).elts.length := by rw [he]; exact hp
  obtain ⟨a, _, c⟩ := Mouette.Props.C20Height.find_within_log2_n C20.sizCmp sizCmp_is_size_order ops p hp'
  rw [he, hpar] at a c
  have hlen : (srcRun ops).par.length = (srcRun ops).elts.length := by
    have := (UF.inv_runC C20.sizCmp ops).parLen
    rwa [he, hpar] at this
  refine ⟨?_, ?_, ?_⟩
  · rw [findLoop_bridge, findLoop_bridge, a k]
  · rw [findLoop_bridge, (findLoopBody_bridge _ _).1]
    simp only []
    rw [c]
    simp
  · have hle : Nat.log2 (srcRun ops).elts.length ≤ (srcRun ops).par.length := by
      rw [hlen]; exact Nat.log2_le_self _
    obtain ⟨d, hd⟩ := Nat.exists_eq_add_of_le hle
    rw [findLoop_bridge, findLoop_bridge, hd, a d]

-- non-vacuity: a binomial tree of 8 elements really needs log2 8 = 3 iterations from its deepest index, and 3 suffice
-- (the first history builds it when the size test is `<`, its mirror image when it is `<=`)
example : let g := srcRun [.union 1 2, .union 3 4, .union 1 3, .union 5 6, .union 7 8, .union 5 7, .union 1 5]
    let g' := srcRun [.union 2 1, .union 4 3, .union 3 1, .union 6 5, .union 8 7, .union 7 5, .union 5 1]
    Nat.log2 g.elts.length = 3 ∧ Nat.log2 g'.elts.length = 3 ∧
    (∀ p, p < 8 → C20.findCond (C20.findLoop 3 g p).1 (C20.findLoop 3 g p).2 = false) ∧
    (∀ p, p < 8 → C20.findCond (C20.findLoop 3 g' p).1 (C20.findLoop 3 g' p).2 = false) ∧
    ((∃ p, p < 8 ∧ C20.findCond (C20.findLoop 2 g p).1 (C20.findLoop 2 g p).2 = true) ∨
     (∃ p, p < 8 ∧ C20.findCond (C20.findLoop 2 g' p).1 (C20.findLoop 2 g' p).2 = true)) := by decide

/-- union by size on the source: after any history the `_siz` cell of every root index is the number of elements of its
class, for either spelling of the size test -/
theorem siz_root_eq_card_source (ops : List Op) (r : Nat) (hr : r < (srcRun ops).elts.length)
    (hroot : parent (srcRun ops).par r = r) : sizAt (srcRun ops).siz r = card (srcRun ops).toState r := by
  obtain ⟨t, _⟩ := srcRun_bridge ops
  have h := sizeInv_runC C20.sizCmp ops
  rw [← t] at h
  exact h r hr hroot

example : (srcRun hist).siz.length = 5 ∧
    (∀ r, r < 5 → parent (srcRun hist).par r = r → sizAt (srcRun hist).siz r = card (srcRun hist).toState r) ∧
    (∃ r, r < 5 ∧ parent (srcRun hist).par r = r ∧ sizAt (srcRun hist).siz r = 4) := by decide

/-- `components()` on the source, after ANY history: it does not raise, only halves paths, returns exactly `n_comps`
buckets, every bucket is the full `Joined`-class of one of its members, and every present element lies in exactly one
bucket -/
theorem components_source (ops : List Op) :
    ∃ g' cs, C20.components (srcRun ops) = some (g', cs) ∧ PEquiv (srcRun ops).toState g'.toState ∧
      cs.length = (srcRun ops).nComps ∧
      (∀ c, c ∈ cs → ∃ x, x ∈ c ∧ ∀ e, e ∈ c ↔ (e ∈ present ops ∧ Joined ops e x)) ∧
      (∀ e, e ∈ present ops → ∃ c, (c ∈ cs ∧ e ∈ c) ∧ ∀ c', (c' ∈ cs ∧ e ∈ c') → c' = c) := by
  obtain ⟨t, i⟩ := srcRun_bridge ops
  have inv := UF.inv_runC C20.sizCmp ops
  have rf := refines_runC C20.sizCmp ops
  rw [← t] at inv rf
  obtain ⟨g', hc, _, _, _, pe⟩ := components_bridge i inv
  obtain ⟨s', cs, hm, _, _, hlen, hcls, huniq⟩ := Mouette.Props.C20.components_spec inv
  have hcs : (UF.components (srcRun ops).toState).2 = cs := by rw [hm]
  rw [hcs] at hc
  refine ⟨g', cs, hc, pe, hlen, ?_, ?_⟩
  · intro c hcm
    obtain ⟨x, hx, hmem⟩ := hcls c hcm
    have hx' := ((hmem x).mp hx).1
    refine ⟨x, hx, fun e => ?_⟩
    rw [hmem e]
    constructor
    · rintro ⟨he, hce⟩; exact ⟨(rf.mem e).mp he, (rf.cls e x he hx').mp hce⟩
    · rintro ⟨he, hj⟩
      have he' := (rf.mem e).mpr he
      exact ⟨he', (rf.cls e x he' hx').mpr hj⟩
  · intro e he
    exact huniq e ((rf.mem e).mpr he)

example : (C20.components (srcRun hist)).map (fun r => r.2.map List.length) = some [4, 1] ∨
    (C20.components (srcRun hist)).map (fun r => r.2.map List.length) = some [1, 4] := by decide

/-- `component_mapping()` on the source, after ANY history: it does not raise, only halves paths, maps exactly the
present elements, each to exactly the present elements joined to it by a chain of unions -/
theorem component_mapping_source (ops : List Op) :
    ∃ g' m, C20.componentMapping (srcRun ops) = some (g', m) ∧ PEquiv (srcRun ops).toState g'.toState ∧
      (∀ x c, (x, c) ∈ m → x ∈ present ops ∧ ∀ e, e ∈ c ↔ (e ∈ present ops ∧ Joined ops e x)) ∧
      (∀ x, x ∈ present ops → ∃ c, (x, c) ∈ m) ∧
      (∀ x c c', (x, c) ∈ m → (x, c') ∈ m → c = c') := by
  obtain ⟨t, i⟩ := srcRun_bridge ops
  have inv := UF.inv_runC C20.sizCmp ops
  have rf := refines_runC C20.sizCmp ops
  rw [← t] at inv rf
  obtain ⟨g', hc, _, _, _, pe⟩ := component_mapping_bridge i inv
  obtain ⟨s', m, hm, _, _, hmem⟩ := Mouette.Props.C20.component_mapping_spec inv
  have hcs : (UF.componentMapping (srcRun ops).toState).2 = m := by rw [hm]
  rw [hcs] at hc
  refine ⟨g', m, hc, pe, ?_, ?_, ?_⟩
  · intro x c hxc
    obtain ⟨hx, rfl⟩ := (hmem x c).mp hxc
    refine ⟨(rf.mem x).mp hx, fun e => ?_⟩
    rw [mem_classList]
    constructor
    · rintro ⟨he, hce⟩; exact ⟨(rf.mem e).mp he, (rf.cls e x he hx).mp hce⟩
    · rintro ⟨he, hj⟩
      have he' := (rf.mem e).mpr he
      exact ⟨he', (rf.cls e x he' hx).mpr hj⟩
  · intro x hx
    exact ⟨_, (hmem x _).mpr ⟨(rf.mem x).mpr hx, rfl⟩⟩
  · intro x c c' h1 h2
    rw [((hmem x c).mp h1).2, ((hmem x c').mp h2).2]

example : (C20.componentMapping (srcRun hist)).map (fun r => r.2.map (fun p => (p.1, p.2.length)))
    = some [(1, 4), (2, 4), (3, 4), (4, 4), (9, 1)] := by decide

/-- the three whole-structure views of the source describe THE SAME partition, after any history: the sets that
`component_mapping()` maps elements to are exactly the buckets of `components()`, each element is mapped to the bucket it
lies in, and the number of buckets is the number of distinct roots reported by `roots()` and the counter `n_comps` -/
theorem views_agree_source (ops : List Op) :
    ∃ g1 cs g2 m g3 rs, C20.components (srcRun ops) = some (g1, cs) ∧ C20.componentMapping (srcRun ops) = some (g2, m) ∧
      C20.roots (srcRun ops) = some (g3, rs) ∧
      (∀ x c, (x, c) ∈ m → c ∈ cs ∧ x ∈ c) ∧ (∀ c, c ∈ cs → ∀ x, x ∈ c → (x, c) ∈ m) ∧
      cs.length = rs.length ∧ rs.length = (srcRun ops).nComps := by
  obtain ⟨t, i⟩ := srcRun_bridge ops
  have inv := UF.inv_runC C20.sizCmp ops
  rw [← t] at inv
  obtain ⟨g1, hc, _⟩ := components_bridge i inv
  obtain ⟨g2, hm, _⟩ := component_mapping_bridge i inv
  obtain ⟨g3, hr, _⟩ := roots_bridge i
  obtain ⟨s1, e1, _, _⟩ := UF.components_spec inv
  obtain ⟨s2, e2, _, _⟩ := UF.componentMapping_spec inv
  have hrs : (rootsList (srcRun ops).toState).2 = (srcRun ops).toState.elts.map (classOf (srcRun ops).toState) :=
    rootsList_snd inv
  rw [e1] at hc
  rw [e2] at hm
  rw [hrs] at hr
  refine ⟨g1, _, g2, _, g3, _, hc, hm, hr, ?_, ?_, ?_, ?_⟩
  · intro x c hxc
    obtain ⟨hx, rfl⟩ := (mem_componentMapping_list x c).mp hxc
    refine ⟨List.mem_map.mpr ⟨_, ?_, rfl⟩, mem_classList.mpr ⟨hx, rfl⟩⟩
    rw [List.mem_eraseDups]; exact List.mem_map.mpr ⟨x, hx, rfl⟩
  · intro c hcm x hx
    obtain ⟨r, _, rfl⟩ := List.mem_map.mp hcm
    obtain ⟨hxe, hxr⟩ := mem_classList.mp hx
    exact (mem_componentMapping_list x _).mpr ⟨hxe, by rw [hxr]⟩
  · simp [setOf]
  · show (setOf _).length = (srcRun ops).toState.nComps
    rw [setOf, (eraseDups_roots_perm inv).length_eq, nComps_eq_rootIdxs inv]

/-! ## descriptor tables -/

/-- every attribute of a `UnionFind` is created by an assignment on `self` in `__init__`: instance state, nothing in the
class body -/
theorem uf_attrs_are_instance_state :
    C20.initAttrs.map Prod.snd = List.replicate 7 AttrHome.instance ∧ C20.initAttrs.length = 7 := by decide

/-- `find` and `component` raise `ValueError`, `__getitem__` / `__setitem__` raise `IndexError`, each of them does have a
`raise`, and these are the only `raise` statements of the translated methods (however many guards each spells them with) -/
theorem raises_bridge :
    (∀ p, p ∈ C20.raisesTable → ((p.1 = "find" ∨ p.1 = "component") ∧ p.2 = PyExc.valueError) ∨
      ((p.1 = "getitem" ∨ p.1 = "setitem") ∧ p.2 = PyExc.indexError)) ∧
    "find" ∈ C20.raisesTable.map Prod.fst ∧ "component" ∈ C20.raisesTable.map Prod.fst ∧
    "getitem" ∈ C20.raisesTable.map Prod.fst ∧ "setitem" ∈ C20.raisesTable.map Prod.fst := by decide

open Mouette.PQ Mouette.BinHeap

/-! ## priority queue: bridges -/

/-- `PriorityItem.__lt__` compares the priorities, strictly - the comparison the heap model (and its proof) is about;
the element `x` takes no part in it (`field(compare=False)`) -/
theorem lt_is_priority_lt : C20PQ.itemLt = BinHeap.lt ∧ C20PQ.itemFields = [("x", false), ("priority", true)] :=
  ⟨rfl, rfl⟩

/-- `data` is created by `self.data = []` in `__init__`: instance state, initially empty -/
theorem data_is_instance_state : C20PQ.dataHome = AttrHome.instance ∧ C20PQ.initData = [] := ⟨rfl, rfl⟩

/-- `push(x, w)` is `heappush(self.data, PriorityItem(x, w))`: element first, priority second -/
theorem push_bridge (d : List Item) (x : Nat) (w : Prio) : C20PQ.push d x w = heappush d (x, w) := rfl

/-- `pop()` and `get()` are `heappop(self.data)` -/
theorem pop_bridge (d : List Item) : C20PQ.pop_ d = heappop d ∧ C20PQ.get_ d = heappop d := ⟨rfl, rfl⟩

/-- `front` is `self.data[0]`, the item the next pop returns -/
theorem front_bridge (d : List Item) : C20PQ.front d = d.head? ∧
    (∀ e d', C20PQ.pop_ d = some (e, d') → C20PQ.front d = some e) := by
  constructor
  · cases d <;> rfl
  · intro e d' hp
    have : C20PQ.front d = d.head? := by cases d <;> rfl
    rw [this]; exact heappop_head hp

/-- `empty()` is the model's `empty` -/
theorem empty_bridge (d : List Item) : C20PQ.empty d = PQ.empty d := by
  cases d <;> simp [C20PQ.empty, PQ.empty]

-- non-vacuity: a pushed queue is not empty and its pop succeeds (evaluating the heap model itself is left to the driver:
-- it is defined by well-founded recursion, which `decide` does not unfold)
example : ∃ e d', C20PQ.pop_ (pqRun [.push 1 (.fin 3), .push 2 .negInf]) = some (e, d') := by
  cases h : C20PQ.pop_ (pqRun [.push 1 (.fin 3), .push 2 .negInf]) with
  | some r => exact ⟨r.1, r.2, rfl⟩
  | none =>
    have := (heappop_none_iff _).mp h
    have hl := congrArg List.length this
    simp [pqRun, pqStep, C20PQ.push, C20PQ.initData, heappush_length] at hl

/-! ## priority queue: the headline theorems on the translated definitions -/

/-- every reachable `self.data` is a heap w.r.t. `__lt__` -/
theorem data_is_heap (ops : List QOp) : IsHeap (pqRun ops) := by
  have aux : ∀ (ops : List QOp) (d : List Item), IsHeap d → IsHeap (ops.foldl pqStep d) := by
    intro ops
    induction ops with
    | nil => intro d h; exact h
    | cons o ops ih =>
      intro d h
      rw [List.foldl_cons]
      apply ih
      cases o with
      | push x w => exact heappush_heap h (x, w)
      | pop =>
        simp only [pqStep]
        cases hp : C20PQ.pop_ d with
        | none => exact h
        | some r => obtain ⟨e, d'⟩ := r; exact heappop_heap h hp
  exact aux ops _ isHeap_nil

/-- `pop_ok` on the source: on every reachable queue the extracted `pop` hands out a pending pair of minimum priority and
removes exactly it; it raises exactly on the empty queue -/
theorem pop_ok_source (ops : List QOp) :
    (∀ e d', C20PQ.pop_ (pqRun ops) = some (e, d') → PopOk (pqRun ops) e d') ∧
    (C20PQ.pop_ (pqRun ops) = none ↔ C20PQ.empty (pqRun ops) = true) := by
  refine ⟨fun e d' hp => heappop_ok (data_is_heap ops) hp, ?_⟩
  rw [empty_bridge, PQ.empty_correct]
  exact heappop_none_iff _

/-- the events of ANY history run on the extracted `push`/`pop` form a `Trace` of the abstract queue (every pop a valid
pop), ending in a pending multiset that is the one held in `self.data` -/
theorem trace_pop_model_source (ops : List QOp) :
    ∃ q', Trace [] (pqEvents C20PQ.initData ops) q' ∧ (pqRun ops).Perm q' := by
  have aux : ∀ (ops : List QOp) (d : List Item) (q : Queue), IsHeap d → d.Perm q →
      ∃ q', Trace q (pqEvents d ops) q' ∧ (ops.foldl pqStep d).Perm q' := by
    intro ops
    induction ops with
    | nil => intro d q _ hp; exact ⟨q, Trace.nil q, hp⟩
    | cons o ops ih =>
      intro d q hh hp
      cases o with
      | push x w =>
        have h1 : IsHeap (C20PQ.push d x w) := heappush_heap hh (x, w)
        have h2 : (C20PQ.push d x w).Perm (PQ.push q x w) := by
          refine (heappush_perm d (x, w)).trans ?_
          refine (List.Perm.cons _ hp).trans ?_
          exact (List.perm_append_singleton (x, w) q).symm
        obtain ⟨q', t, p⟩ := ih _ _ h1 h2
        exact ⟨q', Trace.push t, p⟩
      | pop =>
        simp only [pqEvents, List.foldl_cons, pqStep]
        cases hpop : C20PQ.pop_ d with
        | none => exact ih d q hh hp
        | some r =>
          obtain ⟨e, d'⟩ := r
          have ok := heappop_ok hh hpop
          have okq : PopOk q e (q.erase e) :=
            ⟨hp.mem_iff.mp ok.1, fun e' he' => ok.2.1 e' (hp.mem_iff.mpr he'), List.Perm.refl _⟩
          have h2 : d'.Perm (q.erase e) := ok.2.2.trans (hp.erase e)
          obtain ⟨q', t, p⟩ := ih d' (q.erase e) (heappop_heap hh hpop) h2
          exact ⟨q', Trace.pop okq t, p⟩
  exact aux ops [] [] isHeap_nil (List.Perm.refl _)

/-- `trace_perm` on the source: after any history, what was popped plus what `self.data` still holds is a permutation
of what was pushed - each pushed item is handed out at most once, none is invented, none is lost -/
theorem trace_perm_source (ops : List QOp) :
    (popped (pqEvents C20PQ.initData ops) ++ pqRun ops).Perm (pushed (pqEvents C20PQ.initData ops)) := by
  obtain ⟨q', t, p⟩ := trace_pop_model_source ops
  exact (List.Perm.append_left _ p).trans (Mouette.Props.C20.trace_perm t)

/-- `drain_perm` / `drain_sorted` on the source: popping a reachable queue until it is empty hands out a permutation of
what was pending, in non-decreasing priority order -/
theorem drain_perm_source (ops : List QOp) :
    ∃ out, Drains (pqRun ops) out ∧ out.Perm (pqRun ops) ∧
      out = popped (pqEvents (pqRun ops) (List.replicate (pqRun ops).length .pop)) ∧
      (List.replicate (pqRun ops).length QOp.pop).foldl pqStep (pqRun ops) = [] := by
  have aux : ∀ (n : Nat) (d : List Item), IsHeap d → d.length = n →
      Drains d (popped (pqEvents d (List.replicate n .pop))) ∧ (List.replicate n QOp.pop).foldl pqStep d = [] := by
    intro n
    induction n with
    | zero =>
      intro d _ hl
      have : d = [] := List.eq_nil_of_length_eq_zero hl
      subst this
      exact ⟨Drains.nil, rfl⟩
    | succ n ih =>
      intro d hh hl
      cases hpop : C20PQ.pop_ d with
      | none =>
        have := (heappop_none_iff d).mp hpop
        subst this; cases hl
      | some r =>
        obtain ⟨e, d'⟩ := r
        have ok := heappop_ok hh hpop
        have hl' : d'.length = n := by have := ok.length; omega
        obtain ⟨a, b⟩ := ih d' (heappop_heap hh hpop) hl'
        simp only [List.replicate_succ, pqEvents, hpop, popped, List.foldl_cons, pqStep]
        exact ⟨Drains.cons ok a, b⟩
  obtain ⟨a, b⟩ := aux _ (pqRun ops) (data_is_heap ops) rfl
  exact ⟨_, a, Mouette.Props.C20.drain_perm a, rfl, b⟩

/-! ## isolation: two instances never share state -/

/-- any number of `PriorityQueue` instances driven by an interleaved history: what instance `i` holds is what ITS
operations alone produce (the attribute lives where the source says: `C20PQ.dataHome`) -/
theorem pq_instances_isolated (ops : List (Nat × QOp)) (i : Nat) :
    (runTagged C20PQ.dataHome pqStep C20PQ.initData ops).get C20PQ.dataHome i = pqRun (project i ops) := by
  rw [data_is_instance_state.1]
  exact runTagged_instance pqStep _ ops i

/-- the same for `UnionFind` (all seven attributes are created in `__init__`) -/
theorem uf_instances_isolated (ops : List (Nat × Op)) (i : Nat) :
    (runTagged .instance srcStep C20.init ops).get .instance i = srcRun (project i ops) ∧
    ((runTagged .instance srcStep C20.init ops).get .instance i).toState = UF.runC C20.sizCmp (project i ops) := by
  have := runTagged_instance srcStep C20.init ops i
  exact ⟨this, by rw [this]; exact (srcRun_bridge _).1⟩

/-- what `data = []` in the class body (instead of in `__init__`) would mean: every instance sees every push -/
theorem class_attribute_would_be_shared (ops : List (Nat × QOp)) (i : Nat) :
    (runTagged .classBody pqStep C20PQ.initData ops).get .classBody i = pqRun (ops.map (·.2)) :=
  runTagged_classBody pqStep _ ops i

end Mouette.Props.C20Source
