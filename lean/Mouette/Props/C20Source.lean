import Mouette.Lemmas.C20SourceRun
import Mouette.Props.C20
/-!
# C20 (round 3) - the theorems of `Props/C20.lean` transferred to what the SOURCE says now

`vlib/gen/c20_translate.py` re-extracts, on every run, the methods of `UnionFind` and `PriorityQueue` from
`$MOUETTE_REPO` into state-passing Lean definitions (`Generated/C20UF.lean`, `Generated/C20PQ.lean`). This file proves

* BRIDGES: each extracted definition computes what the hand model computes (`addStep_bridge`, `findLoopBody_bridge`,
  `findLoop_bridge`, `find_bridge`, `connected_bridge`, `union_bridge`, `roots_bridge`, `component_bridge`, `ctor_bridge`,
  `lt_is_priority_lt`, `data_is_instance_state`, `push_bridge`, `pop_bridge`, `front_bridge`, `empty_bridge`);
  the dict `_indx`, which the hand model abstracts into `elts.idxOf`, is carried by the invariant `IndxInv`;
* THE TRANSFER `srcRun_bridge`: a history run on the extracted definitions reaches the hand model's state, field by field;
* the headline theorems restated on the extracted definitions: `uf_refines_source`, `counts_source`, `find_root_source`,
  `union_total_source`, `find_terminates_source` (the Python `while` exits by its own condition within the fuel),
  `pop_ok_source`, `trace_pop_model_source`, `trace_perm_source`, `drain_perm_source` - the queue theorems now go through
  the PROVED heap contract of `Lemmas/BinHeap.lean` instead of an assumption about `heapq`'s answers;
* isolation: instances never share state (`pq_instances_isolated`, `uf_instances_isolated`), constructor = fold of `add`
  (`ctor_bridge`, `ctor_is_history`).
A semantic change of the source makes a bridge fail (broken obligation -> failing-input search); an unrecognised shape
makes the translator return `ok: False`.
-/
namespace Mouette.Props.C20Source
open Mouette.UF Mouette.UFS Mouette.C20Src
open Mouette.Generated

/-- the history of the non-vacuity examples (same as `Props/C20.lean`): a tree of depth 2, a late add, a repeated add -/
private def hist : List Op := [.union 1 2, .union 3 4, .union 2 4, .add 9, .add 1]

-- the extracted definitions, run on it: `_indx` is kept, the forest is the model's, `find 4` really halves a path
example : (srcRun hist).indx = [(9, 4), (4, 3), (3, 2), (2, 1), (1, 0)] ∧ (srcRun hist).par = [0, 0, 0, 2, 4] ∧
    (C20.find (srcRun hist) 4).map (fun r => (r.1.par, r.2)) = some ([0, 0, 0, 0, 4], 0) ∧
    C20.find (srcRun hist) 7 = none ∧
    (C20.connected (srcRun hist) 1 4).map Prod.snd = some true ∧
    (C20.component (srcRun hist) 4).map Prod.snd = some [1, 2, 3, 4] ∧
    (C20.roots (srcRun hist)).map Prod.snd = some [0, 4] ∧
    (C20.ctor C20.init [5, 6, 5, 7, 6]).elts = [5, 6, 7] ∧ C20.len (C20.ctor C20.init [5, 6, 5, 7, 6]) = 3 := by decide

theorem init_bridge : C20.init.toState = UF.init ∧ IndxInv C20.init := ⟨rfl, indxInv_init⟩

theorem contains_bridge {g : St} (h : IndxInv g) (x : Nat) : C20.contains g x = g.toState.mem x := by
  unfold C20.contains; exact h.dmem x

theorem len_bridge (g : St) : C20.len g = g.toState.nElts := rfl

theorem addStep_bridge {g : St} (h : IndxInv g) (x : Nat) :
    (C20.add g x).toState = UF.add g.toState x ∧ IndxInv (C20.add g x) := by
  unfold C20.add
  rw [contains_bridge h]
  by_cases hx : x ∈ g.elts
  · have hm : g.toState.mem x = true := (mem_iff _ _).mpr hx
    rw [hm, if_pos rfl]
    exact ⟨(add_of_mem (s := g.toState) hx).symm, h⟩
  · have hm : g.toState.mem x = false := by
      cases e : g.toState.mem x
      · rfl
      · exact absurd ((mem_iff _ _).mp e) hx
    rw [hm]
    refine ⟨?_, ?_⟩
    · simp only [UF.add, hm, Bool.false_eq_true, if_false]
      rfl
    · exact h.append hx rfl rfl rfl

theorem findLoopBody_bridge (g : St) (p : Nat) :
    C20.findCond g p = decide (parent g.par p ≠ p) ∧
    C20.findBody g p = ({ g with par := g.par.set p (parent g.par (parent g.par p)) }, parent g.par p) := by
  constructor
  · unfold C20.findCond
    by_cases h : parent g.par p = p
    · simp [h]
    · have : p ≠ parent g.par p := fun e => h e.symm
      simp [h, this]
  · rfl

theorem findLoop_bridge : ∀ (fuel : Nat) (g : St) (p : Nat),
    C20.findLoop fuel g p = ({ g with par := (UF.findLoop g.par fuel p).1 }, (UF.findLoop g.par fuel p).2) := by
  intro fuel
  induction fuel with
  | zero => intro g p; rfl
  | succ n ih =>
    intro g p
    rw [C20.findLoop, (findLoopBody_bridge g p).1, (findLoopBody_bridge g p).2]
    by_cases h : parent g.par p = p
    · simp [h, findLoop_succ_root]
    · simp [h, findLoop_succ_step, ih]

theorem find_bridge {g : St} (h : IndxInv g) (x : Nat) :
    lift (C20.find g x) = UF.find g.toState x ∧
    ∀ g' r, C20.find g x = some (g', r) → IndxInv g' ∧ g'.elts = g.elts := by
  unfold C20.find
  by_cases hx : x ∈ g.elts
  · have hd : dmem g.indx x = true := (h.dmem_iff x).mpr hx
    have hx' : x ∈ g.toState.elts := hx
    simp only [hd, Bool.not_true, Bool.false_eq_true, if_false]
    rw [findLoop_bridge, h.dget hx, find_of_mem hx']
    refine ⟨rfl, ?_⟩
    intro g' r e
    injection e with e; injection e with e1 _; subst e1
    exact ⟨h.congr rfl rfl rfl, rfl⟩
  · have hd : dmem g.indx x = false := by
      cases e : dmem g.indx x
      · rfl
      · exact absurd ((h.dmem_iff x).mp e) hx
    have hx' : x ∉ g.toState.elts := hx
    simp only [hd, Bool.not_false, if_true]
    rw [find_of_not_mem hx']
    exact ⟨rfl, fun _ _ e => by cases e⟩

theorem connected_bridge {g : St} (h : IndxInv g) (x y : Nat) :
    lift (C20.connected g x y) = UF.connected g.toState x y ∧
    ∀ g' b, C20.connected g x y = some (g', b) → IndxInv g' ∧ g'.elts = g.elts := by
  obtain ⟨b1, c1⟩ := find_bridge h x
  unfold C20.connected UF.connected
  cases hf : C20.find g x with
  | none =>
    rw [hf] at b1
    rw [← b1]
    exact ⟨rfl, fun _ _ e => by cases e⟩
  | some r =>
    obtain ⟨g1, r1⟩ := r
    rw [hf] at b1
    obtain ⟨i1, e1⟩ := c1 g1 r1 hf
    obtain ⟨b2, c2⟩ := find_bridge i1 y
    rw [← b1]
    simp only [lift, Option.map_some]
    cases hf2 : C20.find g1 y with
    | none =>
      rw [hf2] at b2
      rw [← b2]
      exact ⟨rfl, fun _ _ e => by cases e⟩
    | some r =>
      obtain ⟨g2, r2⟩ := r
      rw [hf2] at b2
      obtain ⟨i2, e2⟩ := c2 g2 r2 hf2
      rw [← b2]
      simp only [lift, Option.map_some]
      refine ⟨by by_cases hr : r1 = r2 <;> simp [hr], ?_⟩
      intro g' b e
      injection e with e; injection e with e1' _; subst e1'
      exact ⟨i2, e2.trans e1⟩

/-- on a present element the translated `find` succeeds, in step with the model's -/
theorem find_some {g : St} (h : IndxInv g) {x : Nat} (hx : x ∈ g.elts) :
    ∃ g' r, C20.find g x = some (g', r) ∧ UF.find g.toState x = some (g'.toState, r) ∧ IndxInv g' ∧
      g'.elts = g.elts := by
  obtain ⟨b, c⟩ := find_bridge h x
  cases hf : C20.find g x with
  | none =>
    rw [hf] at b
    have hx' : x ∈ g.toState.elts := hx
    rw [find_of_mem hx'] at b
    cases b
  | some r =>
    obtain ⟨g', r⟩ := r
    rw [hf] at b
    exact ⟨g', r, rfl, b.symm, c g' r hf⟩

theorem union_bridge {g : St} (h : IndxInv g) (x y : Nat) :
    ∃ g', C20.union g x y = some (g', ()) ∧ g'.toState = UF.union g.toState x y ∧ IndxInv g' := by
  -- the two guarded adds are the model's two adds
  have hadd : ∀ (g0 : St), IndxInv g0 → ∀ z,
      (if (!C20.contains g0 z) = true then C20.add g0 z else g0) = C20.add g0 z := by
    intro g0 h0 z
    by_cases hc : C20.contains g0 z = true
    · simp only [hc, Bool.not_true, Bool.false_eq_true, if_false]
      unfold C20.add; rw [hc]; rfl
    · have : C20.contains g0 z = false := by cases e : C20.contains g0 z <;> simp_all
      simp [this]
  obtain ⟨a1, i1⟩ := addStep_bridge h x
  obtain ⟨a2, i2⟩ := addStep_bridge i1 y
  have hx2 : x ∈ (C20.add (C20.add g x) y).elts := by
    show x ∈ (C20.add (C20.add g x) y).toState.elts
    rw [a2, a1, mem_add_elts, mem_add_elts]; exact Or.inl (Or.inr rfl)
  have hy2 : y ∈ (C20.add (C20.add g x) y).elts := by
    show y ∈ (C20.add (C20.add g x) y).toState.elts
    rw [a2, mem_add_elts]; exact Or.inr rfl
  obtain ⟨g3, xr, f3, m3, i3, e3⟩ := find_some i2 hx2
  obtain ⟨g4, yr, f4, m4, i4, e4⟩ := find_some i3 (by rw [e3]; exact hy2)
  unfold C20.union UF.union
  simp only [hadd g h x, hadd _ i1 y, f3, f4]
  rw [← a1, ← a2, m3]
  simp only []
  rw [m4]
  simp only []
  by_cases hr : xr = yr
  · simp only [hr, decide_true, if_true]
    exact ⟨g4, rfl, rfl, i4⟩
  · simp only [hr, decide_false, Bool.false_eq_true, if_false]
    by_cases hs : sizAt g4.siz xr < sizAt g4.siz yr
    · have hs' : g4.toState.siz.getD xr 0 < g4.toState.siz.getD yr 0 := hs
      simp only [hs, hs', decide_true, if_true]
      exact ⟨_, rfl, rfl, i4.congr rfl rfl rfl⟩
    · have hs' : ¬ g4.toState.siz.getD xr 0 < g4.toState.siz.getD yr 0 := hs
      simp only [hs, hs', decide_false, Bool.false_eq_true, if_false]
      exact ⟨_, rfl, rfl, i4.congr rfl rfl rfl⟩

theorem rootsStep_bridge {g : St} (h : IndxInv g) {e : Nat} (he : e ∈ g.elts) (out : List Nat) :
    ∃ g', C20.rootsGen1Step (some (g, out)) e = some (g', (rootsStep (g.toState, out) e).2) ∧
      g'.toState = (rootsStep (g.toState, out) e).1 ∧ IndxInv g' ∧ g'.elts = g.elts := by
  obtain ⟨g', r, f, m, i, e'⟩ := find_some h he
  refine ⟨g', ?_, ?_, i, e'⟩
  · simp [C20.rootsGen1Step, f, rootsStep, m]
  · simp [rootsStep, m]

theorem rootsFold_bridge : ∀ (l : List Nat) (g : St) (out : List Nat), IndxInv g → (∀ e, e ∈ l → e ∈ g.elts) →
    ∃ g', l.foldl C20.rootsGen1Step (some (g, out)) = some (g', (l.foldl rootsStep (g.toState, out)).2) ∧
      g'.toState = (l.foldl rootsStep (g.toState, out)).1 ∧ IndxInv g' ∧ g'.elts = g.elts := by
  intro l
  induction l with
  | nil => intro g out h _; exact ⟨g, rfl, rfl, h, rfl⟩
  | cons e l ih =>
    intro g out h hm
    obtain ⟨g1, s1, t1, i1, e1⟩ := rootsStep_bridge h (hm e (List.mem_cons_self ..)) out
    obtain ⟨g2, s2, t2, i2, e2⟩ := ih g1 (rootsStep (g.toState, out) e).2 i1
      (fun z hz => by rw [e1]; exact hm z (List.mem_cons_of_mem _ hz))
    have hp : (g1.toState, (rootsStep (g.toState, out) e).2) = rootsStep (g.toState, out) e := by
      rw [t1]
    rw [List.foldl_cons, List.foldl_cons, s1, ← hp]
    exact ⟨g2, s2, t2, i2, e2.trans e1⟩

theorem roots_bridge {g : St} (h : IndxInv g) :
    ∃ g', C20.roots g = some (g', setOf (rootsList g.toState).2) ∧ g'.toState = (rootsList g.toState).1 ∧
      IndxInv g' ∧ g'.elts = g.elts := by
  obtain ⟨g', s, t, i, e⟩ := rootsFold_bridge g.elts g [] h (fun _ hz => hz)
  refine ⟨g', ?_, t, i, e⟩
  unfold C20.roots C20.rootsGen1
  rw [s]
  rfl

theorem compStep_bridge {g : St} (h : IndxInv g) (root : Nat) {e : Nat} (he : e ∈ g.elts) (out : List Nat) :
    ∃ g', C20.componentGen1Step root (some (g, out)) e = some (g', (compStep root (g.toState, out) e).2) ∧
      g'.toState = (compStep root (g.toState, out) e).1 ∧ IndxInv g' ∧ g'.elts = g.elts := by
  obtain ⟨g', r, f, m, i, e'⟩ := find_some h he
  refine ⟨g', ?_, ?_, i, e'⟩
  · by_cases hr : r = root <;> simp [C20.componentGen1Step, f, compStep, m, hr]
  · by_cases hr : r = root <;> simp [compStep, m, hr]

theorem compFold_bridge (root : Nat) : ∀ (l : List Nat) (g : St) (out : List Nat), IndxInv g →
    (∀ e, e ∈ l → e ∈ g.elts) →
    ∃ g', l.foldl (C20.componentGen1Step root) (some (g, out))
        = some (g', (l.foldl (compStep root) (g.toState, out)).2) ∧
      g'.toState = (l.foldl (compStep root) (g.toState, out)).1 ∧ IndxInv g' ∧ g'.elts = g.elts := by
  intro l
  induction l with
  | nil => intro g out h _; exact ⟨g, rfl, rfl, h, rfl⟩
  | cons e l ih =>
    intro g out h hm
    obtain ⟨g1, s1, t1, i1, e1⟩ := compStep_bridge h root (hm e (List.mem_cons_self ..)) out
    obtain ⟨g2, s2, t2, i2, e2⟩ := ih g1 (compStep root (g.toState, out) e).2 i1
      (fun z hz => by rw [e1]; exact hm z (List.mem_cons_of_mem _ hz))
    have hp : (g1.toState, (compStep root (g.toState, out) e).2) = compStep root (g.toState, out) e := by
      rw [t1]
    rw [List.foldl_cons, List.foldl_cons, s1, ← hp]
    exact ⟨g2, s2, t2, i2, e2.trans e1⟩

theorem component_bridge {g : St} (h : IndxInv g) (x : Nat) :
    lift (C20.component g x) = (UF.component g.toState x).map (fun r => (r.1, setOf r.2)) ∧
    ∀ g' l, C20.component g x = some (g', l) → IndxInv g' ∧ g'.elts = g.elts := by
  unfold C20.component UF.component
  rw [contains_bridge h]
  by_cases hx : x ∈ g.elts
  · have hm : g.toState.mem x = true := (mem_iff _ _).mpr hx
    obtain ⟨g1, r, f1, m1, i1, e1⟩ := find_some h hx
    obtain ⟨g2, s2, t2, i2, e2⟩ := compFold_bridge r g1.elts g1 [] i1 (fun _ hz => hz)
    simp only [hm, Bool.not_true, Bool.false_eq_true, if_false, if_true, f1, m1, C20.componentGen1]
    rw [s2]
    simp only [lift, Option.map_some]
    refine ⟨?_, ?_⟩
    · rw [t2]; rfl
    · intro g' l e
      injection e with e; injection e with e' _; subst e'
      exact ⟨i2, e2.trans e1⟩
  · have hm : g.toState.mem x = false := by
      cases e : g.toState.mem x
      · rfl
      · exact absurd ((mem_iff _ _).mp e) hx
    simp only [hm, Bool.not_false, if_true, Bool.false_eq_true, if_false]
    exact ⟨rfl, fun _ _ e => by cases e⟩

/-! ## histories on the translated definitions -/

theorem srcStep_bridge {g : St} (h : IndxInv g) (op : Op) :
    (srcStep g op).toState = UF.step g.toState op ∧ IndxInv (srcStep g op) := by
  cases op with
  | add x => exact addStep_bridge h x
  | union x y =>
    obtain ⟨g', e, t, i⟩ := union_bridge h x y
    simp only [srcStep, e, UF.step]
    exact ⟨t, i⟩
  | find x =>
    obtain ⟨b, c⟩ := find_bridge h x
    simp only [srcStep, UF.step]
    cases hf : C20.find g x with
    | none => rw [hf] at b; rw [← b]; exact ⟨rfl, h⟩
    | some r => obtain ⟨g', r⟩ := r; rw [hf] at b; rw [← b]; exact ⟨rfl, (c g' r hf).1⟩
  | connected x y =>
    obtain ⟨b, c⟩ := connected_bridge h x y
    simp only [srcStep, UF.step]
    cases hf : C20.connected g x y with
    | none => rw [hf] at b; rw [← b]; exact ⟨rfl, h⟩
    | some r => obtain ⟨g', r⟩ := r; rw [hf] at b; rw [← b]; exact ⟨rfl, (c g' r hf).1⟩
  | component x =>
    obtain ⟨b, c⟩ := component_bridge h x
    simp only [srcStep, UF.step]
    cases hf : C20.component g x with
    | none =>
      rw [hf] at b
      cases hm : UF.component g.toState x with
      | none => exact ⟨rfl, h⟩
      | some r => rw [hm] at b; cases b
    | some r =>
      obtain ⟨g', l⟩ := r
      rw [hf] at b
      cases hm : UF.component g.toState x with
      | none => rw [hm] at b; cases b
      | some r' =>
        rw [hm] at b
        simp only [lift, Option.map_some] at b
        injection b with b; injection b with b1 _
        exact ⟨b1, (c g' l hf).1⟩

theorem srcFold_bridge : ∀ (ops : List Op) (g : St), IndxInv g →
    (ops.foldl srcStep g).toState = ops.foldl UF.step g.toState ∧ IndxInv (ops.foldl srcStep g) := by
  intro ops
  induction ops with
  | nil => intro g h; exact ⟨rfl, h⟩
  | cons op ops ih =>
    intro g h
    obtain ⟨a, b⟩ := srcStep_bridge h op
    rw [List.foldl_cons, List.foldl_cons, ← a]
    exact ih _ b

/-- THE TRANSFER: a history run on the definitions extracted from the source reaches, field by field, the state the hand
model reaches (and `_indx` stays the inverse of `_elts`); every theorem of `Props/C20.lean` about `run ops` is thereby a
theorem about what unionfind.py says now. -/
theorem srcRun_bridge (ops : List Op) : (srcRun ops).toState = UF.run ops ∧ IndxInv (srcRun ops) :=
  srcFold_bridge ops C20.init init_bridge.2

/-- `UnionFind(elements)` is the fold of `add` over the container, duplicates included. -/
theorem ctor_bridge (elements : List Nat) {g : St} (h : IndxInv g) :
    (C20.ctor g elements).toState = elements.foldl UF.add g.toState ∧ IndxInv (C20.ctor g elements) := by
  show (elements.foldl C20.add g).toState = _ ∧ IndxInv (elements.foldl C20.add g)
  induction elements generalizing g with
  | nil => exact ⟨rfl, h⟩
  | cons e l ih =>
    obtain ⟨a, b⟩ := addStep_bridge h e
    rw [List.foldl_cons, List.foldl_cons, ← a]
    exact ih b

theorem ctor_is_history (elements : List Nat) :
    (C20.ctor C20.init elements).toState = UF.run (elements.map .add) := by
  rw [(ctor_bridge elements init_bridge.2).1]
  show elements.foldl UF.add UF.init = (elements.map Op.add).foldl UF.step UF.init
  rw [List.foldl_map]
  rfl

theorem srcRunFrom_bridge (elements : List Nat) (ops : List Op) :
    (srcRunFrom elements ops).toState = UF.run (elements.map .add ++ ops) ∧ IndxInv (srcRunFrom elements ops) := by
  obtain ⟨a, b⟩ := srcFold_bridge ops (C20.ctor C20.init elements) (ctor_bridge elements init_bridge.2).2
  refine ⟨?_, b⟩
  rw [srcRunFrom, a, ctor_is_history, UF.run, UF.run, List.foldl_append]

/-! ## headline theorems, restated on the translated definitions -/

/-- `uf_refines` on the source: after ANY history run on the extracted `add`/`union`/`find`/`connected`/`component`,
`connected x y` (as extracted) does not raise on present elements and answers `true` exactly when a chain of unions joins
them. -/
theorem uf_refines_source (ops : List Op) (x y : Nat) (hx : x ∈ (srcRun ops).elts) (hy : y ∈ (srcRun ops).elts) :
    ∃ g' b, C20.connected (srcRun ops) x y = some (g', b) ∧ (b = true ↔ Joined ops x y) := by
  obtain ⟨t, i⟩ := srcRun_bridge ops
  obtain ⟨bc, _⟩ := connected_bridge i x y
  have hx' : x ∈ (UF.run ops).elts := by rw [← t]; exact hx
  have hy' : y ∈ (UF.run ops).elts := by rw [← t]; exact hy
  obtain ⟨s', b, hc, hb⟩ := Mouette.Props.C20.uf_refines ops x y hx' hy'
  rw [t, hc] at bc
  cases hf : C20.connected (srcRun ops) x y with
  | none => rw [hf] at bc; cases bc
  | some r =>
    obtain ⟨g', b'⟩ := r
    rw [hf] at bc
    simp only [lift, Option.map_some] at bc
    injection bc with bc; injection bc with _ e2
    exact ⟨g', b', rfl, by rw [e2]; exact hb⟩

/-- the same from `UnionFind(elements)`: the constructor's elements count as adds -/
theorem uf_refines_source_from (elements : List Nat) (ops : List Op) (x y : Nat)
    (hx : x ∈ (srcRunFrom elements ops).elts) (hy : y ∈ (srcRunFrom elements ops).elts) :
    ∃ g' b, C20.connected (srcRunFrom elements ops) x y = some (g', b) ∧
      (b = true ↔ Joined (elements.map .add ++ ops) x y) := by
  obtain ⟨t, i⟩ := srcRunFrom_bridge elements ops
  obtain ⟨bc, _⟩ := connected_bridge i x y
  have hx' : x ∈ (UF.run (elements.map .add ++ ops)).elts := by rw [← t]; exact hx
  have hy' : y ∈ (UF.run (elements.map .add ++ ops)).elts := by rw [← t]; exact hy
  obtain ⟨s', b, hc, hb⟩ := Mouette.Props.C20.uf_refines _ x y hx' hy'
  rw [t, hc] at bc
  cases hf : C20.connected (srcRunFrom elements ops) x y with
  | none => rw [hf] at bc; cases bc
  | some r =>
    obtain ⟨g', b'⟩ := r
    rw [hf] at bc
    simp only [lift, Option.map_some] at bc
    injection bc with bc; injection bc with _ e2
    exact ⟨g', b', rfl, by rw [e2]; exact hb⟩

/-- counters and element list of the source after any history: `counts`, `elts_eq_present` transferred -/
theorem counts_source (ops : List Op) :
    C20.len (srcRun ops) = (srcRun ops).elts.length ∧ (srcRun ops).elts.Nodup ∧
    (∀ x, C20.contains (srcRun ops) x = true ↔ x ∈ present ops) ∧
    C20.len (srcRun ops) = (present ops).eraseDups.length ∧
    (srcRun ops).nComps = ((List.range (srcRun ops).elts.length).filter
      (fun i => decide (parent (srcRun ops).par i = i))).length := by
  obtain ⟨t, i⟩ := srcRun_bridge ops
  obtain ⟨c1, c2, c3, c4⟩ := Mouette.Props.C20.counts ops
  rw [← t] at c1 c2 c3 c4
  refine ⟨c1, c2, fun x => ?_, c3, c4⟩
  rw [contains_bridge i, mem_iff, t]
  exact Mouette.Props.C20.elts_eq_present ops x

/-- the extracted `union` never raises, whatever its arguments (absent ones are added first) -/
theorem union_total_source (ops : List Op) (x y : Nat) :
    ∃ g', C20.union (srcRun ops) x y = some (g', ()) ∧ g'.toState = UF.run (ops ++ [.union x y]) := by
  obtain ⟨t, i⟩ := srcRun_bridge ops
  obtain ⟨g', e, t', _⟩ := union_bridge i x y
  refine ⟨g', e, ?_⟩
  rw [t', t, UF.run, UF.run, List.foldl_append]
  rfl

/-- the extracted `find` raises exactly on absent elements; on present ones it returns the class root, a root index in
range -/
theorem find_root_source (ops : List Op) (x : Nat) :
    (C20.find (srcRun ops) x = none ↔ x ∉ present ops) ∧
    (x ∈ present ops → ∃ g' r, C20.find (srcRun ops) x = some (g', r) ∧ r < (srcRun ops).elts.length ∧
      parent g'.par r = r ∧ r = classOf (UF.run ops) x ∧ g'.toState = UF.step (UF.run ops) (.find x)) := by
  obtain ⟨t, i⟩ := srcRun_bridge ops
  obtain ⟨b, _⟩ := find_bridge i x
  rw [t] at b
  constructor
  · rw [← Mouette.Props.C20.elts_eq_present, ← Mouette.Props.C20.find_none_iff, ← b]
    cases C20.find (srcRun ops) x <;> simp [lift]
  · intro hx
    have hx' := (Mouette.Props.C20.elts_eq_present ops x).mpr hx
    obtain ⟨s', r, hf, hlt, hroot, hcls, _⟩ := Mouette.Props.C20.find_root (UF.inv_run ops) hx'
    rw [hf] at b
    cases hg : C20.find (srcRun ops) x with
    | none => rw [hg] at b; cases b
    | some p =>
      obtain ⟨g', r'⟩ := p
      rw [hg] at b
      simp only [lift, Option.map_some] at b
      injection b with b; injection b with b1 b2
      subst b2
      refine ⟨g', r', rfl, ?_, ?_, hcls, ?_⟩
      · have : (srcRun ops).elts = (UF.run ops).elts := by rw [← t]; rfl
        rw [this]; exact hlt
      · have : g'.par = s'.par := by rw [← b1]; rfl
        rw [this]; exact hroot
      · simp only [UF.step, hf]; exact b1

/-- the Python `while` loop of `find` terminates on every reachable state: it exits BY ITS OWN CONDITION within
`len(_par)` iterations (the fuel the translation gives it), and any larger fuel computes the same thing -/
theorem find_terminates_source (ops : List Op) (p : Nat) (hp : p < (srcRun ops).par.length) (k : Nat) :
    C20.findLoop ((srcRun ops).par.length + k) (srcRun ops) p = C20.findLoop (srcRun ops).par.length (srcRun ops) p ∧
    C20.findCond (C20.findLoop (srcRun ops).par.length (srcRun ops) p).1
      (C20.findLoop (srcRun ops).par.length (srcRun ops) p).2 = false := by
  obtain ⟨t, _⟩ := srcRun_bridge ops
  have inv := UF.inv_run ops
  rw [← t] at inv
  obtain ⟨rk, w⟩ := inv.wf
  have w' : WF (srcRun ops).par rk := w
  constructor
  · rw [findLoop_bridge, findLoop_bridge, findLoop_stable (rk := rk) _ _ _ w' hp (by omega) k]
  · rw [findLoop_bridge, (findLoopBody_bridge _ _).1]
    have := findLoop_exit (rk := rk) (srcRun ops).par p w' hp
    simp only []
    rw [this]
    simp

/-! ## descriptor tables -/

/-- every attribute of a `UnionFind` is created by an assignment on `self` in `__init__`: instance state, nothing in the
class body -/
theorem uf_attrs_are_instance_state :
    C20.initAttrs.map Prod.snd = List.replicate 7 AttrHome.instance ∧ C20.initAttrs.length = 7 := by decide

/-- `find` and `component` raise `ValueError`, and these are the only `raise` statements of the translated methods -/
theorem raises_bridge : C20.raisesTable.map Prod.snd = [PyExc.valueError, PyExc.valueError] ∧
    C20.raisesTable.map Prod.fst = ["find", "component"] := ⟨by decide, rfl⟩

/-- `components()` has the shape the hand model's `components` was written from: `roots()`, one bucket per root, each
element appended to the bucket of its `find` -/
theorem components_shape_bridge : C20.componentsShape =
    ["v0 = self.roots()", "v1 = dict(((v2, v3) for v3, v2 in enumerate(v0)))", "v4 = [[] for v5 in v0]",
     "for v6 in self._elts: ;     v3 = v1[self.find(v6)] ;     v4[v3].append(v6)", "return v4"] := rfl

/-- `component_mapping()`: elements grouped by their `find` into sets, every member mapped to its group -/
theorem component_mapping_shape_bridge : C20.componentMappingShape =
    ["v0 = {}", "for v1 in self._elts: ;     v0.setdefault(self.find(v1), set()).add(v1)", "v2 = {}",
     "for v3 in v0.values(): ;     v2.update({v4: v3 for v4 in v3})", "return v2"] := rfl

open Mouette.PQ Mouette.BinHeap

/-! ## priority queue: bridges -/

/-- `PriorityItem.__lt__` compares the priorities, strictly - the comparison the heap model (and its proof) is about;
the element `x` takes no part in it (`field(compare=False)`) -/
theorem lt_is_priority_lt : C20PQ.itemLt = BinHeap.lt ∧ C20PQ.itemFields = [("x", false), ("priority", true)] :=
  ⟨rfl, rfl⟩

/-- `data` is created by `self.data = []` in `__init__`: instance state, initially empty -/
theorem data_is_instance_state : C20PQ.dataHome = AttrHome.instance ∧ C20PQ.initData = [] := ⟨rfl, rfl⟩

/-- `push(x, w)` is `heappush(self.data, PriorityItem(x, w))`: element first, priority second -/
theorem push_bridge (d : List Item) (x : Nat) (w : Prio) : C20PQ.push d x w = heappush d (x, w) := rfl

/-- `pop()` and `get()` are `heappop(self.data)` -/
theorem pop_bridge (d : List Item) : C20PQ.pop_ d = heappop d ∧ C20PQ.get_ d = heappop d := ⟨rfl, rfl⟩

/-- `front` is `self.data[0]`, the item the next pop returns -/
theorem front_bridge (d : List Item) : C20PQ.front d = d.head? ∧
    (∀ e d', C20PQ.pop_ d = some (e, d') → C20PQ.front d = some e) := by
  constructor
  · cases d <;> rfl
  · intro e d' hp
    have : C20PQ.front d = d.head? := by cases d <;> rfl
    rw [this]; exact heappop_head hp

/-- `empty()` is the model's `empty` -/
theorem empty_bridge (d : List Item) : C20PQ.empty d = PQ.empty d := by
  cases d <;> simp [C20PQ.empty, PQ.empty]

-- non-vacuity: a pushed queue is not empty and its pop succeeds (evaluating the heap model itself is left to the driver:
-- it is defined by well-founded recursion, which `decide` does not unfold)
example : ∃ e d', C20PQ.pop_ (pqRun [.push 1 (.fin 3), .push 2 .negInf]) = some (e, d') := by
  cases h : C20PQ.pop_ (pqRun [.push 1 (.fin 3), .push 2 .negInf]) with
  | some r => exact ⟨r.1, r.2, rfl⟩
  | none =>
    have := (heappop_none_iff _).mp h
    have hl := congrArg List.length this
    simp [pqRun, pqStep, C20PQ.push, C20PQ.initData, heappush_length] at hl

/-! ## priority queue: the headline theorems on the translated definitions -/

/-- every reachable `self.data` is a heap w.r.t. `__lt__` -/
theorem data_is_heap (ops : List QOp) : IsHeap (pqRun ops) := by
  have aux : ∀ (ops : List QOp) (d : List Item), IsHeap d → IsHeap (ops.foldl pqStep d) := by
    intro ops
    induction ops with
    | nil => intro d h; exact h
    | cons o ops ih =>
      intro d h
      rw [List.foldl_cons]
      apply ih
      cases o with
      | push x w => exact heappush_heap h (x, w)
      | pop =>
        simp only [pqStep]
        cases hp : C20PQ.pop_ d with
        | none => exact h
        | some r => obtain ⟨e, d'⟩ := r; exact heappop_heap h hp
  exact aux ops _ isHeap_nil

/-- `pop_ok` on the source: on every reachable queue the extracted `pop` hands out a pending pair of minimum priority and
removes exactly it; it raises exactly on the empty queue -/
theorem pop_ok_source (ops : List QOp) :
    (∀ e d', C20PQ.pop_ (pqRun ops) = some (e, d') → PopOk (pqRun ops) e d') ∧
    (C20PQ.pop_ (pqRun ops) = none ↔ C20PQ.empty (pqRun ops) = true) := by
  refine ⟨fun e d' hp => heappop_ok (data_is_heap ops) hp, ?_⟩
  rw [empty_bridge, PQ.empty_correct]
  exact heappop_none_iff _

/-- the events of ANY history run on the extracted `push`/`pop` form a `Trace` of the abstract queue (every pop a valid
pop), ending in a pending multiset that is the one held in `self.data` -/
theorem trace_pop_model_source (ops : List QOp) :
    ∃ q', Trace [] (pqEvents C20PQ.initData ops) q' ∧ (pqRun ops).Perm q' := by
  have aux : ∀ (ops : List QOp) (d : List Item) (q : Queue), IsHeap d → d.Perm q →
      ∃ q', Trace q (pqEvents d ops) q' ∧ (ops.foldl pqStep d).Perm q' := by
    intro ops
    induction ops with
    | nil => intro d q _ hp; exact ⟨q, Trace.nil q, hp⟩
    | cons o ops ih =>
      intro d q hh hp
      cases o with
      | push x w =>
        have h1 : IsHeap (C20PQ.push d x w) := heappush_heap hh (x, w)
        have h2 : (C20PQ.push d x w).Perm (PQ.push q x w) := by
          refine (heappush_perm d (x, w)).trans ?_
          refine (List.Perm.cons _ hp).trans ?_
          exact (List.perm_append_singleton (x, w) q).symm
        obtain ⟨q', t, p⟩ := ih _ _ h1 h2
        exact ⟨q', Trace.push t, p⟩
      | pop =>
        simp only [pqEvents, List.foldl_cons, pqStep]
        cases hpop : C20PQ.pop_ d with
        | none => exact ih d q hh hp
        | some r =>
          obtain ⟨e, d'⟩ := r
          have ok := heappop_ok hh hpop
          have okq : PopOk q e (q.erase e) :=
            ⟨hp.mem_iff.mp ok.1, fun e' he' => ok.2.1 e' (hp.mem_iff.mpr he'), List.Perm.refl _⟩
          have h2 : d'.Perm (q.erase e) := ok.2.2.trans (hp.erase e)
          obtain ⟨q', t, p⟩ := ih d' (q.erase e) (heappop_heap hh hpop) h2
          exact ⟨q', Trace.pop okq t, p⟩
  exact aux ops [] [] isHeap_nil (List.Perm.refl _)

/-- `trace_perm` on the source: after any history, what was popped plus what `self.data` still holds is a permutation
of what was pushed - each pushed item is handed out at most once, none is invented, none is lost -/
theorem trace_perm_source (ops : List QOp) :
    (popped (pqEvents C20PQ.initData ops) ++ pqRun ops).Perm (pushed (pqEvents C20PQ.initData ops)) := by
  obtain ⟨q', t, p⟩ := trace_pop_model_source ops
  exact (List.Perm.append_left _ p).trans (Mouette.Props.C20.trace_perm t)

/-- `drain_perm` / `drain_sorted` on the source: popping a reachable queue until it is empty hands out a permutation of
what was pending, in non-decreasing priority order -/
theorem drain_perm_source (ops : List QOp) :
    ∃ out, Drains (pqRun ops) out ∧ out.Perm (pqRun ops) ∧
      out = popped (pqEvents (pqRun ops) (List.replicate (pqRun ops).length .pop)) ∧
      (List.replicate (pqRun ops).length QOp.pop).foldl pqStep (pqRun ops) = [] := by
  have aux : ∀ (n : Nat) (d : List Item), IsHeap d → d.length = n →
      Drains d (popped (pqEvents d (List.replicate n .pop))) ∧ (List.replicate n QOp.pop).foldl pqStep d = [] := by
    intro n
    induction n with
    | zero =>
      intro d _ hl
      have : d = [] := List.eq_nil_of_length_eq_zero hl
      subst this
      exact ⟨Drains.nil, rfl⟩
    | succ n ih =>
      intro d hh hl
      cases hpop : C20PQ.pop_ d with
      | none =>
        have := (heappop_none_iff d).mp hpop
        subst this; cases hl
      | some r =>
        obtain ⟨e, d'⟩ := r
        have ok := heappop_ok hh hpop
        have hl' : d'.length = n := by have := ok.length; omega
        obtain ⟨a, b⟩ := ih d' (heappop_heap hh hpop) hl'
        simp only [List.replicate_succ, pqEvents, hpop, popped, List.foldl_cons, pqStep]
        exact ⟨Drains.cons ok a, b⟩
  obtain ⟨a, b⟩ := aux _ (pqRun ops) (data_is_heap ops) rfl
  exact ⟨_, a, Mouette.Props.C20.drain_perm a, rfl, b⟩

/-! ## isolation: two instances never share state -/

/-- any number of `PriorityQueue` instances driven by an interleaved history: what instance `i` holds is what ITS
operations alone produce (the attribute lives where the source says: `C20PQ.dataHome`) -/
theorem pq_instances_isolated (ops : List (Nat × QOp)) (i : Nat) :
    (runTagged C20PQ.dataHome pqStep C20PQ.initData ops).get C20PQ.dataHome i = pqRun (project i ops) := by
  rw [data_is_instance_state.1]
  exact runTagged_instance pqStep _ ops i

/-- the same for `UnionFind` (all seven attributes are created in `__init__`) -/
theorem uf_instances_isolated (ops : List (Nat × Op)) (i : Nat) :
    (runTagged .instance srcStep C20.init ops).get .instance i = srcRun (project i ops) ∧
    ((runTagged .instance srcStep C20.init ops).get .instance i).toState = UF.run (project i ops) := by
  have := runTagged_instance srcStep C20.init ops i
  exact ⟨this, by rw [this]; exact (srcRun_bridge _).1⟩

/-- what `data = []` in the class body (instead of in `__init__`) would mean: every instance sees every push -/
theorem class_attribute_would_be_shared (ops : List (Nat × QOp)) (i : Nat) :
    (runTagged .classBody pqStep C20PQ.initData ops).get .classBody i = pqRun (ops.map (·.2)) :=
  runTagged_classBody pqStep _ ops i

end Mouette.Props.C20Source
