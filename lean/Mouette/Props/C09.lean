import Mouette.Lemmas.DijkstraFinal
/-
C09 — shortest paths are valid edge paths of minimum length.

All theorems are about the executable model `Mouette/Model/Dijkstra.lean` (the loop of
`mouette/processing/paths.py` as coded, lazy deletion included), for EVERY graph `adj` with neighbours `< n`,
every start, every non-negative rational weights and every `pop` that returns some pending item of minimum
priority (`PopOK`; `PQ.pop` is one instance: `popOK_firstMin`). The three weight modes of the code are
instances of "a non-negative rational per adjacency" (`one`: all 1, `dijkstra_optimal_one`; `length`: the float
lengths read as exact rationals; custom: the caller's numbers).

`PathW adj a t l W` (Lemmas/DijkstraBasic): the vertex list `l` begins at `a`, ends at `t`
(`PathW.head`, `PathW.last`), consecutive vertices are adjacent, total weight `W`.
-/
namespace Mouette.Props.C09
open Mouette.Dijkstra Mouette.PQ

/-- the executable queue of the driver satisfies the abstract pop contract -/
theorem popOK_firstMin : PopOK PQ.pop := Mouette.Dijkstra.popOK_firstMin

/-- graphs built from an undirected edge list with endpoints `< n` / weights `≥ 0` satisfy the hypotheses
(these are the checks `Req.wf` of the driver) -/
theorem adjOf_wf {edges : List (Nat × Nat × Rat)} {n : Nat} (h : ∀ e ∈ edges, e.1 < n ∧ e.2.1 < n) :
    WF (adjOf edges) n := by
  intro u e he
  unfold adjOf at he
  rw [List.mem_filterMap] at he
  obtain ⟨x, hx, hxe⟩ := he
  have := h x hx
  split at hxe
  · simp at hxe; subst hxe; exact this.2
  · split at hxe
    · simp at hxe; subst hxe; exact this.1
    · simp at hxe

theorem adjOf_nonneg {edges : List (Nat × Nat × Rat)} (h : ∀ e ∈ edges, (0 : Rat) ≤ e.2.2) : NonNeg (adjOf edges) := by
  intro u e he
  unfold adjOf at he
  rw [List.mem_filterMap] at he
  obtain ⟨x, hx, hxe⟩ := he
  have := h x hx
  split at hxe
  · simp at hxe; subst hxe; exact this
  · split at hxe
    · simp at hxe; subst hxe; exact this
    · simp at hxe

section
variable {pop : Pop} {adj : Adj} {n start : Nat}

/-- P0 (invariant): the state after the loop is reachable through invariant-preserving iterations and its
queue is empty. -/
theorem reach_run (hpop : PopOK pop) (hnn : NonNeg adj) (hwf : WF adj n) (hs : start < n) :
    Final adj start n (run pop adj n start) := final_run hpop hnn hwf hs

/-- P0 (termination within fuel): after `1 + Σ deg` iterations the queue is empty, i.e. the `while` loop has
exited: a further iteration does nothing. -/
theorem run_terminates (hpop : PopOK pop) (hnn : NonNeg adj) (hwf : WF adj n) (hs : start < n) :
    (run pop adj n start).queue = [] ∧ step pop adj (run pop adj n start) = none := by
  have h := (final_run hpop hnn hwf hs).empty
  refine ⟨h, ?_⟩
  unfold step
  rw [h, (hpop.none_iff []).mpr rfl]

/-- P0 `path_valid`: for every labelled target, back-tracking terminates (within fuel `n+1`) and returns a
duplicate-free vertex list that begins at `start`, ends at `t`, walks along adjacencies, and whose total weight
is the final label `distance[t]`. -/
theorem path_valid (hpop : PopOK pop) (hnn : NonNeg adj) (hwf : WF adj n) (hs : start < n) {t : Nat} {d : Rat}
    (h : (run pop adj n start).dist t = some d) :
    ∃ l, pathTo (run pop adj n start) n start t = .ok l ∧ l.head? = some start ∧ l.getLast? = some t ∧
      PathW adj start t l d ∧ l.Nodup := by
  obtain ⟨l, h1, h2, h3⟩ := (final_run hpop hnn hwf hs).path_valid h
  exact ⟨l, h1, h2.head, h2.last, h2, h3⟩

/-- "connected pair" = labelled: `distance[t]` is finite exactly when some edge path joins `start` to `t`. -/
theorem reachable_iff_walk (hpop : PopOK pop) (hnn : NonNeg adj) (hwf : WF adj n) (hs : start < n) (t : Nat) :
    (∃ d, (run pop adj n start).dist t = some d) ↔ ∃ l W, PathW adj start t l W := by
  have F := final_run hpop hnn hwf hs
  constructor
  · rintro ⟨d, h⟩
    obtain ⟨l, _, h2, _⟩ := F.path_valid h
    exact ⟨l, d, h2⟩
  · rintro ⟨l, W, hp⟩
    obtain ⟨v, b, order, I⟩ := F.reach
    obtain ⟨dt, hdt, _⟩ := F.lower_bound hp 0 I.dist_start
    exact ⟨dt, hdt⟩

/-- for a target that is not connected to `start` the model reproduces the `KeyError` of the code -/
theorem unreachable_keyError (hpop : PopOK pop) (hnn : NonNeg adj) (hwf : WF adj n) (hs : start < n) (t : Nat)
    (h : ¬ ∃ l W, PathW adj start t l W) : pathTo (run pop adj n start) n start t = .keyError := by
  apply (final_run hpop hnn hwf hs).path_keyError
  cases hd : (run pop adj n start).dist t with
  | none => rfl
  | some d => exact absurd ((reachable_iff_walk hpop hnn hwf hs t).mp ⟨d, hd⟩) h

/-- P1 `dijkstra_optimal`: for every connected pair the returned path is valid and its total weight is the
minimum over all edge paths from `start` to `t`. -/
theorem dijkstra_optimal (hpop : PopOK pop) (hnn : NonNeg adj) (hwf : WF adj n) (hs : start < n) {t : Nat}
    (hconn : ∃ l W, PathW adj start t l W) :
    ∃ l d, pathTo (run pop adj n start) n start t = .ok l ∧ l.head? = some start ∧ l.getLast? = some t ∧
      PathW adj start t l d ∧ ∀ l' W', PathW adj start t l' W' → d ≤ W' := by
  have F := final_run hpop hnn hwf hs
  obtain ⟨d, hd⟩ := (reachable_iff_walk hpop hnn hwf hs t).mpr hconn
  obtain ⟨l, h1, h2, h3, h4, _⟩ := path_valid hpop hnn hwf hs hd
  refine ⟨l, d, h1, h2, h3, h4, ?_⟩
  intro l' W' hp'
  obtain ⟨v, b, order, I⟩ := F.reach
  obtain ⟨dt, hdt, hle⟩ := F.lower_bound hp' 0 I.dist_start
  rw [hd] at hdt
  simp at hdt; subst hdt
  linarith

/-- with unit weights the weight of a path is its number of edges -/
theorem unit_weight {a t : Nat} {l : List Nat} {W : Rat} (hone : ∀ u, ∀ e ∈ adj u, e.2 = 1)
    (hp : PathW adj a t l W) : W + 1 = (l.length : Rat) := by
  induction hp with
  | single a => simp
  | @cons a b t l w W hab _ ih =>
    have := hone a _ hab
    simp only at this
    subst this
    simp only [List.length_cons, Nat.cast_add, Nat.cast_one]
    linarith

/-- weight mode `one`: the returned path has the minimum number of edges among all edge paths. -/
theorem dijkstra_optimal_one (hpop : PopOK pop) (hone : ∀ u, ∀ e ∈ adj u, e.2 = 1) (hwf : WF adj n) (hs : start < n)
    {t : Nat} (hconn : ∃ l W, PathW adj start t l W) :
    ∃ l d, pathTo (run pop adj n start) n start t = .ok l ∧ PathW adj start t l d ∧
      ∀ l' W', PathW adj start t l' W' → l.length ≤ l'.length := by
  have hnn : NonNeg adj := by
    intro u e he; rw [hone u e he]; exact zero_le_one
  obtain ⟨l, d, h1, _, _, h4, hmin⟩ := dijkstra_optimal hpop hnn hwf hs hconn
  refine ⟨l, d, h1, h4, ?_⟩
  intro l' W' hp'
  have e1 := unit_weight hone h4
  have e2 := unit_weight hone hp'
  have := hmin l' W' hp'
  have h : (l.length : Rat) ≤ (l'.length : Rat) := by linarith
  exact_mod_cast h

/-- general branch of `shortest_path_to_vertex_set` (virtual sink at weight 0) -/
theorem toVertexSet_ok (hpop : PopOK pop) (hnn : NonNeg adj) (hwf : WF adj n) (hs : start < n) {targets : List Nat}
    (ht : ∀ t ∈ targets, t < n) (hconn : ∃ t ∈ targets, ∃ l W, PathW adj start t l W) :
    ∃ p ind d, (toVertexSet pop adj n start targets).2 = .ok p ∧ ind ∈ targets ∧ p.getLast? = some ind ∧
      PathW adj start ind p d ∧ p.Nodup ∧ ∀ t ∈ targets, ∀ l' W', PathW adj start t l' W' → d ≤ W' := by
  have F := final_run hpop (sinkAdj_nonneg (n := n) (targets := targets) hnn) (sinkAdj_wf hwf ht)
    (by omega : start < n + 1)
  obtain ⟨v, b, order, I⟩ := F.reach
  obtain ⟨t0, ht0, l0, W0, hp0⟩ := hconn
  obtain ⟨d, hd, _⟩ := F.lower_bound (path_to_sink hwf hp0 hs ht0) 0 I.dist_start
  obtain ⟨l, hl, hpl, hnd⟩ := F.path_valid hd
  obtain ⟨ind, hind, hpi, hlast⟩ := sink_path_drop hwf hpl rfl (by omega) hnd
  refine ⟨l.dropLast, ind, d, ?_, hind, hlast, hpi, hnd.sublist (List.dropLast_sublist l), ?_⟩
  · unfold toVertexSet
    simp only
    have : back (run pop (sinkAdj adj n targets) (n + 1) start).pred start (n + 2) n [] = .ok l := hl
    rw [this]
  · intro t htt l' W' hp'
    obtain ⟨d', hd', hle⟩ := F.lower_bound (path_to_sink hwf hp' hs htt) 0 I.dist_start
    rw [hd] at hd'
    simp at hd'; subst hd'
    linarith

/-- P1 `vertex_set_path_valid` + `vertex_set_nearest`: `shortest_path_to_vertex_set` (single-target shortcut
included) returns a member of the set and a valid duplicate-free edge path from `start` ending at it … -/
theorem vertex_set_path_valid (hpop : PopOK pop) (hnn : NonNeg adj) (hwf : WF adj n) (hs : start < n)
    {targets : List Nat} (ht : ∀ t ∈ targets, t < n) (hconn : ∃ t ∈ targets, ∃ l W, PathW adj start t l W) :
    ∃ p ind d, vertexSet pop adj n start targets = (.ok p, ind) ∧ ind ∈ targets ∧ p.head? = some start ∧
      p.getLast? = some ind ∧ PathW adj start ind p d ∧ p.Nodup := by
  unfold vertexSet
  split
  · rename_i t
    obtain ⟨t0, ht0, hc⟩ := hconn
    simp at ht0; subst ht0
    obtain ⟨d, hd⟩ := (reachable_iff_walk hpop hnn hwf hs t0).mpr hc
    obtain ⟨l, h1, h2, h3, h4, h5⟩ := path_valid hpop hnn hwf hs hd
    exact ⟨l, t0, d, by rw [h1], by simp, h2, h3, h4, h5⟩
  · obtain ⟨p, ind, d, h1, h2, h3, h4, h5, _⟩ := toVertexSet_ok hpop hnn hwf hs ht hconn
    refine ⟨p, ind, d, ?_, h2, h4.head, h3, h4, h5⟩
    rw [h1]
    simp [h3]

/-- … and that member is nearest to `start`: the path's weight is ≤ the weight of every edge path from `start`
to any member of the set (so the path is itself a shortest path to its end). If `start` is in the set the
weight is 0. -/
theorem vertex_set_nearest (hpop : PopOK pop) (hnn : NonNeg adj) (hwf : WF adj n) (hs : start < n)
    {targets : List Nat} (ht : ∀ t ∈ targets, t < n) (hconn : ∃ t ∈ targets, ∃ l W, PathW adj start t l W) :
    ∃ p ind d, vertexSet pop adj n start targets = (.ok p, ind) ∧ ind ∈ targets ∧ PathW adj start ind p d ∧
      (∀ t ∈ targets, ∀ l' W', PathW adj start t l' W' → d ≤ W') ∧ (start ∈ targets → d = 0) := by
  have key : ∃ p ind d, vertexSet pop adj n start targets = (.ok p, ind) ∧ ind ∈ targets ∧ PathW adj start ind p d ∧
      (∀ t ∈ targets, ∀ l' W', PathW adj start t l' W' → d ≤ W') := by
    unfold vertexSet
    split
    · rename_i t
      obtain ⟨t0, ht0, hc⟩ := hconn
      simp at ht0; subst ht0
      obtain ⟨l, d, h1, _, _, h4, h5⟩ := dijkstra_optimal hpop hnn hwf hs hc
      refine ⟨l, t0, d, by rw [h1], by simp, h4, ?_⟩
      intro t ht' l' W' hp'
      simp at ht'; subst ht'
      exact h5 l' W' hp'
    · obtain ⟨p, ind, d, h1, h2, h3, h4, _, h6⟩ := toVertexSet_ok hpop hnn hwf hs ht hconn
      refine ⟨p, ind, d, ?_, h2, h4, h6⟩
      rw [h1]
      simp [h3]
  obtain ⟨p, ind, d, h1, h2, h3, h4⟩ := key
  refine ⟨p, ind, d, h1, h2, h3, h4, ?_⟩
  intro hst
  have h0 := h4 start hst [start] 0 (PathW.single start)
  have h1' := h3.weight_nonneg hnn
  linarith

end

/-! ### non-vacuity: a concrete graph on which the hypotheses hold and the conclusions are non-trivial -/

def exEdges : List (Nat × Nat × Rat) := [(0, 1, 2), (1, 2, 2), (0, 2, 5), (2, 3, 0), (4, 5, 1)]

example : WF (adjOf exEdges) 6 := adjOf_wf (by decide)
example : NonNeg (adjOf exEdges) := adjOf_nonneg (by decide)
/-- the direct edge 0–2 (weight 5) is *not* taken; the zero-weight edge 2–3 is followed (test of the model) -/
example : pathTo (run PQ.pop (adjOf exEdges) 6 0) 6 0 3 = .ok [0, 1, 2, 3] := by decide +kernel
example : (run PQ.pop (adjOf exEdges) 6 0).dist 3 = some 4 := by decide +kernel
example : pathTo (run PQ.pop (adjOf exEdges) 6 0) 6 0 5 = .keyError := by decide +kernel
/-- vertex set {3, 5}: 5 is not connected, 3 is at distance 4; start inside the set → trivial path -/
example : vertexSet PQ.pop (adjOf exEdges) 6 0 [5, 3] = (.ok [0, 1, 2, 3], 3) := by decide +kernel
example : vertexSet PQ.pop (adjOf exEdges) 6 0 [2, 0] = (.ok [0], 0) := by decide +kernel
example : vertexSet PQ.pop (adjOf exEdges) 6 0 [2] = (.ok [0, 1, 2], 2) := by decide +kernel
example : PathW (adjOf exEdges) 0 3 [0, 1, 2, 3] (2 + (2 + (0 + 0))) :=
  .cons (by decide +kernel) (.cons (by decide +kernel) (.cons (by decide +kernel) (.single 3)))

end Mouette.Props.C09
