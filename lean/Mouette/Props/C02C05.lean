import Mouette.Lemmas.C02C05
/-!
# C02 × C05 — the two translations of the same container methods agree (round 7)

`data_container.py` is read by two translators: C05's (`Generated/C05Src.lean`: a heap of attribute objects, values of every
type and width) and C02's (`Generated/C02Bodies.lean`: rows and one `Int` per element). This file defines what C02's model
SEES of a C05 container (`absCont`: the rows; per attribute its name, its default as an integer, its sparse keys / dense
column) and proves that the translated methods commute with that view — so the meaning C02's vocabulary gives to
`DataContainer.append`, `__len__`, `has_attribute` and to "every attribute is expanded by one slot" is not an extra assumption
but a consequence of C05's independent, heap-level reading of the same source.

NOT part of `./check C02` (it would couple C02's build to C05's regenerated file); it is built with the library root.
-/
set_option linter.unusedSimpArgs false
set_option linter.unusedVariables false
namespace Mouette.Props.C02C05
open Mouette.Attr Mouette.AttrSrc Mouette.Generated Mouette.C02C05

theorem len_agrees (h : Heap) (c : Cont) : C05Src.contLen c = C02B.dcLen (absCont h c) := rfl

theorem has_attribute_agrees (h : Heap) (c : Cont) (n : String) :
    C05Src.hasAttribute n c = C02B.dcHasAttr (absCont h c) n := by
  unfold C05Src.hasAttribute attrMem C02B.dcHasAttr Mouette.Prepare.hasAttr absCont
  simp only
  induction c.attr with
  | nil => rfl
  | cons p rest ih =>
    obtain ⟨k, a⟩ := p
    simp only [List.lookup, List.map_cons, List.any_cons, absAttr]
    by_cases hk : n = k
    · subst hk; simp
    · have h1 : (n == k) = false := by simpa using hk
      have h2 : (k == n) = false := by simpa using (fun e => hk e.symm)
      simp only [h1, h2, Bool.false_or]
      exact ih

/-- ONE attribute: `attr._expand(1)` as C05 translates it (dynamic dispatch, a new array object for the dense storage) is, in
C02's view, `expandAttr 1`; the heap only grows -/
theorem expand_agrees (h : Heap) (n : String) (a : Self) (hw : WFAttr h a) (h' : Heap) (a' : Self)
    (he : C05Src.dispatchExpand 1 h a = .ok ((), h', a')) :
    absAttr h' n a' = Mouette.Prepare.expandAttr 1 (absAttr h n a) ∧ (∃ t, h' = h ++ t) ∧ WFAttr h' a' := by
  unfold C05Src.dispatchExpand at he
  cases hc : a.cls with
  | sparse =>
    simp only [hc, C05Src.sparseExpand] at he
    cases he
    refine ⟨?_, ⟨[], by simp⟩, hw⟩
    unfold absAttr Mouette.Prepare.expandAttr
    simp [hc]
  | dense =>
    simp only [hc, C05Src.denseExpand, allocMat] at he
    cases he
    refine ⟨?_, ⟨_, rfl⟩, ?_⟩
    · have hm : ∀ m, cellMat (h ++ [Cell.mat m]) h.length = m := by intro m; unfold cellMat; simp
      have hk : headInt (bcast 1 (C05Src.defaultValue a)) = dfltInt a := by
        unfold dfltInt
        cases C05Src.defaultValue a with
        | scalar x => simp [bcast, headInt]
        | vector l => simp [bcast]
      have hd : ∀ (d : Data) (k : Nat), dfltInt { a with data := d, nElem := k } = dfltInt a := fun _ _ => rfl
      unfold absAttr Mouette.Prepare.expandAttr
      simp only [hc, hd, hm, show ∀ r, Data.asRef (.array r) = r from fun _ => rfl, List.map_append, npFull, hw.1,
        List.replicate_one, List.map_cons, List.map_nil, hk]
      congr 1
      unfold dfltInt C05Src.defaultValue
      simp only [hw.1]
    · refine ⟨hw.1, fun _ => by simp [Data.asRef], fun hcs => by simp [hc] at hcs⟩

/-- THE AGREEMENT: `DataContainer.append(x)` as translated by C05 (rows extended, `_expand(1)` dispatched on every attribute
object, the heap threaded through) is, in C02's view, C02's translated `DataContainer.append` (`dataAppend`: rows extended,
`expandAttr 1` on every attribute) — for containers whose attributes hold one scalar per element -/
theorem expand_all_agrees (l : List (String × Self)) (h : Heap) (hw : ∀ p ∈ l, WFAttr h p.2) (h' : Heap) (l' : List (String × Self))
    (he : forAttrs h l (C05Src.dispatchExpand 1) = .ok (h', l')) :
    l'.map (fun p => absAttr h' p.1 p.2) = (l.map (fun p => absAttr h p.1 p.2)).map (Mouette.Prepare.expandAttr 1) ∧
    (∃ t, h' = h ++ t) := by
  induction l generalizing h h' l' with
  | nil => simp only [forAttrs] at he; cases he; exact ⟨rfl, [], by simp⟩
  | cons p rest ih =>
    obtain ⟨n, a⟩ := p
    simp only [forAttrs] at he
    cases h1 : C05Src.dispatchExpand 1 h a with
    | error e => simp [h1] at he
    | ok r =>
      obtain ⟨u, h1', a'⟩ := r
      simp only [h1] at he
      cases h2 : forAttrs h1' rest (C05Src.dispatchExpand 1) with
      | error e => simp [h2] at he
      | ok r2 =>
        obtain ⟨h2', rest'⟩ := r2
        simp only [h2] at he
        cases he
        obtain ⟨e1, ⟨t1, ht1⟩, w1⟩ := expand_agrees h n a (hw (n, a) (by simp)) h1' a' h1
        have hw' : ∀ p ∈ rest, WFAttr h1' p.2 := fun p hp => by rw [ht1]; exact WFAttr_ext h t1 p.2 (hw p (by simp [hp]))
        obtain ⟨e2, ⟨t2, ht2⟩⟩ := ih h1' hw' h' rest' h2
        refine ⟨?_, ⟨t1 ++ t2, by rw [ht2, ht1, List.append_assoc]⟩⟩
        simp only [List.map_cons]
        rw [e2, ht2, absAttr_ext h1' t2 n a' w1, e1]
        congr 2
        apply List.map_congr_left
        intro p hp
        rw [ht1, absAttr_ext h t1 p.1 p.2 (hw p (by simp [hp]))]

theorem append_agrees (x : Nat) (h : Heap) (c : Cont) (hw : ∀ p ∈ c.attr, WFAttr h p.2) (h' : Heap) (c' : Cont)
    (he : C05Src.contAppend x h c = .ok ((), h', c')) :
    absCont h' c' = C02B.dataAppend (absCont h c) x := by
  unfold C05Src.contAppend at he
  simp only at he
  cases h1 : forAttrs h c.attr (C05Src.dispatchExpand 1) with
  | error e => simp [h1] at he
  | ok r =>
    obtain ⟨h1', l'⟩ := r
    simp only [h1] at he
    cases he
    obtain ⟨e, _⟩ := expand_all_agrees c.attr h hw h' l' h1
    unfold absCont C02B.dataAppend
    simp only [e]

end Mouette.Props.C02C05
