import Mouette.Lemmas.C19BezFn
import Mouette.Lemmas.C19Bezier
import Mouette.Generated.C19BezPoly
import Mouette.Generated.C19BezSurf
import Mouette.Generated.C19BezInit
import Mouette.Props.C19
import Mouette.Props.C19Fn
/-
C19 (round 5) — WHOLE-FUNCTION tie of the Bézier exports and constructors. `Generated/C19Bez{Poly,Surf,Init}.lean` hold
`BezierCurve.as_polyline`, `BezierPatch.as_surface` and the two `__init__`, re-read imperatively from the working tree on
every run (position dispatch, vertex loops with their dimension dispatch / counter / attribute stores, edge and face loops,
defaults, attribute names, returned mesh class). The bridges prove them EQUAL to the hand models of `Model/BezierSource.lean`;
the export clauses of the statement (indices in range, grid-consistent, one vertex per sample position, parameters outside
[0,1] rejected) are then stated on the generated functions, for ANY evaluation function.
-/
namespace Mouette.Props.C19Bez
open Mouette.SamplingSrc Mouette.BezierSrc Mouette.Bezier Mouette.Lemmas.C19 Mouette.Lemmas.C19Bez
open Mouette.Generated.C19Bez
open Mouette.Generated.C19Fn (curveEvaluate curveOrder)
open Mouette.Lemmas.C19Fn (srcDeCasteljau?)

/-! ## bridges -/

theorem bridge_as_polyline (evaluate : Rat → Res Row) (n : Nat) (custom : Option (List Rat)) :
    as_polyline evaluate n custom = asPolyline evaluate n custom := by
  have key : ∀ points : List Rat,
      Res.bind (forE (points.zipIdx) RawOut.new (fun st x => Res.bind (evaluate x.1) (fun p =>
        if decide (p.length = 2) then .ok (RawOut.setAttr (RawOut.appendVert st [p.getD 0 0, p.getD 1 0, (0 : Rat)]) x.2 [x.1])
        else if decide (p.length = 3) then .ok (RawOut.setAttr (RawOut.appendVert st p) x.2 [x.1])
        else .ok (RawOut.setAttr st x.2 [x.1]))))
        (fun st => Res.bind (forE (List.range (points.length - 1)) st (fun st x => .ok (RawOut.appendEdge st [x, x + 1])))
          (fun st => .ok st))
      = (match mapE evaluate points with
         | .raised e => .raised e
         | .ok vs => .ok { verts := vs.flatMap padVert, edges := polyEdges points.length, faces := [],
                           attr := points.zipIdx.map (fun ix => (ix.2, [ix.1])) }) := by
    intro points
    rw [forE_polyVerts evaluate points 0 RawOut.new]
    cases mapE evaluate points with
    | raised e => rfl
    | ok vs =>
      simp only [bind_ok]
      rw [forE_edges (fun i => [i, i + 1])]
      simp [RawOut.new, polyEdges, polyEdge]
  cases custom with
  | none =>
    simp only [as_polyline, asPolyline, Option.isSome_none, Bool.false_eq_true, if_false, Option.getD_none]
    exact key _
  | some c =>
    simp only [as_polyline, asPolyline, Option.isSome_some, if_true, Option.getD_some]
    exact key _

theorem bridge_as_surface (evaluate_row : Rat → Res (List Row)) (dcv : List Row → Rat → Res Row) (n1 n2 : Nat) :
    as_surface evaluate_row dcv n1 n2 = asSurface evaluate_row dcv n1 n2 := by
  simp only [as_surface, asSurface]
  rw [forE_surfGrid evaluate_row dcv (linspaceV n1) (linspaceV n2) n2 (List.range n1) RawOut.new 0]
  cases mapE (fun i => Res.bind (evaluate_row ((linspaceV n1).getD i 0))
      (fun q => mapE (fun j => dcv q ((linspaceV n2).getD j 0)) (List.range n2))) (List.range n1) with
  | raised e => rfl
  | ok rows =>
    simp only [bind_ok]
    rw [forE_faces2 (fun i j => [i * n2 + j, i * n2 + j + 1, (i + 1) * n2 + j + 1, (i + 1) * n2 + j])]
    simp [RawOut.new, surfFaces, quad, vertexIndex, gridPairs, Nat.add_assoc]

/-- the constructors keep the control points, in order, each converted by `Vec` -/
theorem bridge_inits {α : Type} (vec : α → Row) (cps : List α) (net : List (List α)) :
    curveInit vec cps = cps.map vec ∧ patchInit vec net = net.map (fun l => l.map vec) ∧
    (curveInit vec cps).length = cps.length ∧ (patchInit vec net).length = net.length ∧
    ∀ i, ((patchInit vec net).getD i []).length = (net.getD i []).length := by
  refine ⟨rfl, rfl, by simp [curveInit], by simp [patchInit], ?_⟩
  intro i
  simp only [patchInit, List.getD_eq_getElem?_getD, List.getElem?_map]
  cases net[i]? <;> simp

/-- defaults, attribute names / sizes and returned mesh classes, as written -/
theorem bridge_export_descriptors :
    as_polyline_defaults = [("n_pts", "100"), ("custom_pos", "None")] ∧ as_polyline_attrs = [("t", 1)] ∧
    as_polyline_returns = "PolyLine" ∧ as_surface_defaults = [("n1", "20"), ("n2", "20")] ∧
    as_surface_attrs = [("uv_coords", 2)] ∧ as_surface_returns = "SurfaceMesh" := by
  refine ⟨rfl, rfl, rfl, rfl, rfl, rfl⟩

/-! ## the export clauses on the generated functions -/

/-- `as_polyline` as written, default or custom positions, ANY evaluation function that succeeds on the positions with 2-D or
3-D points: it returns; ONE vertex per position, in order (2-D points get `z = 0`); the edges are exactly the chain `(i,i+1)`,
all indices in range; the attribute `t` stores position `i` under key `i`; no faces -/
theorem as_polyline_source_spec (evaluate : Rat → Res Row) (val : Rat → Row) (n : Nat) (custom : Option (List Rat))
    (hev : ∀ t ∈ custom.getD (linspaceV n), evaluate t = .ok (val t) ∧ ((val t).length = 2 ∨ (val t).length = 3)) :
    ∃ out, as_polyline evaluate n custom = .ok out ∧
      out.verts = (custom.getD (linspaceV n)).map (fun t => padPt (val t)) ∧
      out.verts.length = (custom.getD (linspaceV n)).length ∧ (∀ v ∈ out.verts, v.length = 3) ∧
      out.edges = polyEdges out.verts.length ∧ (∀ e ∈ out.edges, ∀ k ∈ e, k < out.verts.length) ∧
      out.attr = (custom.getD (linspaceV n)).zipIdx.map (fun ix => (ix.2, [ix.1])) ∧ out.faces = [] := by
  rw [bridge_as_polyline]
  obtain ⟨points, hpts⟩ : ∃ p, p = custom.getD (linspaceV n) := ⟨_, rfl⟩
  rw [← hpts] at hev ⊢
  have hm : mapE evaluate points = .ok (points.map val) := mapE_total evaluate val points (fun t ht => (hev t ht).1)
  have hv : (points.map val).flatMap padVert = points.map (fun t => padPt (val t)) := by
    rw [flatMap_padVert _ (by intro v hv; obtain ⟨t, ht, rfl⟩ := List.mem_map.mp hv; exact (hev t ht).2), List.map_map]; rfl
  refine ⟨{ verts := (points.map val).flatMap padVert, edges := polyEdges points.length, faces := [],
            attr := points.zipIdx.map (fun ix => (ix.2, [ix.1])) },
    by simp only [asPolyline, ← hpts, hm], hv, by simp [hv], ?_, by simp [hv], ?_, rfl, rfl⟩
  · intro v hv'
    simp only [hv, List.mem_map] at hv'
    obtain ⟨t, ht, rfl⟩ := hv'
    exact padPt_length _ (hev t ht).2
  · intro e he k hk
    simp only [hv, List.length_map] at he ⊢
    exact (Mouette.Props.C19.polyline_indices_in_range points.length).2.1 e he k hk

/-- … and it raises as soon as the evaluation raises on one of the positions (a custom position outside `[0,1]`) -/
theorem as_polyline_rejects (evaluate : Rat → Res Row) (n : Nat) (custom : Option (List Rat)) (t : Rat) (e : String)
    (ht : t ∈ custom.getD (linspaceV n)) (he : evaluate t = .raised e) :
    ∃ e', as_polyline evaluate n custom = .raised e' := by
  rw [bridge_as_polyline]
  obtain ⟨e', he'⟩ := mapE_raises evaluate _ t e ht he
  exact ⟨e', by simp only [asPolyline, he']⟩

/-- `as_surface` as written, ANY sample counts `n1, n2` (equal or not, 0 and 1 included), ANY row / column evaluation functions
that succeed on the sample parameters: it returns; `n1·n2` vertices, vertex `i·n2+j` is the patch point at `(U[i], V[j])`;
the faces are exactly the quads of the `n1 × n2` grid with row stride `n2`, all indices in range; the attribute `uv_coords`
stores `(U[i], V[j])` under key `i·n2+j`; no edges -/
theorem as_surface_source_spec (evaluate_row : Rat → Res (List Row)) (dcv : List Row → Rat → Res Row)
    (rowv : Rat → List Row) (pv : List Row → Rat → Row) (n1 n2 : Nat)
    (h1 : ∀ i, i < n1 → evaluate_row ((linspaceV n1).getD i 0) = .ok (rowv ((linspaceV n1).getD i 0)))
    (h2 : ∀ i j, i < n1 → j < n2 → dcv (rowv ((linspaceV n1).getD i 0)) ((linspaceV n2).getD j 0)
        = .ok (pv (rowv ((linspaceV n1).getD i 0)) ((linspaceV n2).getD j 0))) :
    ∃ out, as_surface evaluate_row dcv n1 n2 = .ok out ∧
      out.verts = (gridPairs n1 n2).map (fun p => pv (rowv ((linspaceV n1).getD p.1 0)) ((linspaceV n2).getD p.2 0)) ∧
      out.verts.length = n1 * n2 ∧
      (∀ i j, i < n1 → j < n2 → out.verts[vertexIndex n2 i j]? = some (pv (rowv ((linspaceV n1).getD i 0)) ((linspaceV n2).getD j 0))) ∧
      out.faces = surfFaces n1 n2 ∧ (∀ f ∈ out.faces, ∀ k ∈ f, k < out.verts.length) ∧
      out.attr = (gridPairs n1 n2).zipIdx.map (fun pk => (pk.2, [(linspaceV n1).getD pk.1.1 0, (linspaceV n2).getD pk.1.2 0])) ∧
      out.edges = [] := by
  rw [bridge_as_surface]
  have hm : mapE (fun i => Res.bind (evaluate_row ((linspaceV n1).getD i 0))
      (fun q => mapE (fun j => dcv q ((linspaceV n2).getD j 0)) (List.range n2))) (List.range n1)
      = .ok ((List.range n1).map (fun i => (List.range n2).map
          (fun j => pv (rowv ((linspaceV n1).getD i 0)) ((linspaceV n2).getD j 0)))) := by
    apply mapE_total
    intro i hi
    have hi' : i < n1 := List.mem_range.mp hi
    rw [h1 i hi', bind_ok]
    exact mapE_total _ _ _ (fun j hj => h2 i j hi' (List.mem_range.mp hj))
  have hv := flatten_grid (fun i j => pv (rowv ((linspaceV n1).getD i 0)) ((linspaceV n2).getD j 0)) n1 n2
  have hlen : ((gridPairs n1 n2).map (fun p => pv (rowv ((linspaceV n1).getD p.1 0)) ((linspaceV n2).getD p.2 0))).length
      = n1 * n2 := by rw [List.length_map, gridPairs_length]
  refine ⟨{ verts := ((List.range n1).map (fun i => (List.range n2).map
              (fun j => pv (rowv ((linspaceV n1).getD i 0)) ((linspaceV n2).getD j 0)))).flatten,
            edges := [], faces := surfFaces n1 n2,
            attr := (gridPairs n1 n2).zipIdx.map (fun pk => (pk.2, [(linspaceV n1).getD pk.1.1 0, (linspaceV n2).getD pk.1.2 0])) },
    by simp only [asSurface, hm], hv, by rw [hv]; exact hlen, ?_, rfl, ?_, rfl, rfl⟩
  · intro i j hi hj
    simp only [hv, List.getElem?_map, gridPairs_getElem? n1 n2 i j hi hj, Option.map_some]
  · intro f hf k hk
    simp only [hv, hlen]
    exact Mouette.Props.C19.surface_faces_in_range n1 n2 f hf k hk

/-- input representation, on the source: two control nets (any element types, e.g. Python ints vs floats vs numpy rows) that
`Vec` converts to the same values give the same `self.pts`, hence the same evaluations and exports -/
theorem init_representation_independent {α β : Type} (vec : α → Row) (vec' : β → Row) (cps : List α) (cps' : List β)
    (net : List (List α)) (net' : List (List β))
    (hc : cps.map vec = cps'.map vec') (hn : net.map (fun l => l.map vec) = net'.map (fun l => l.map vec')) :
    curveInit vec cps = curveInit vec' cps' ∧ patchInit vec net = patchInit vec' net' := ⟨hc, hn⟩

/-- the whole chain on the source, default positions: `as_polyline(n)` of a curve whose control points are 2-D or 3-D rows, with
`evaluate` = the translated delegation to the translated `de_casteljau` (guard and loop nest), coordinatewise: it returns `n`
vertices joined by the chain of `n-1` edges, and vertex `i` is the Bernstein polynomial of degree `order` of the control points at
`linspace(0,1,n)[i]`, coordinate by coordinate (2-D curves padded with `z = 0`) -/
theorem as_polyline_bernstein_source (pts : List Row) (n : Nat)
    (hdim : (pts.headD []).length = 2 ∨ (pts.headD []).length = 3) :
    ∃ out, as_polyline (evalVec (fun P t => curveEvaluate (fun P t => srcDeCasteljau? t P) P t) pts) n none = .ok out ∧
      out.verts.length = n ∧ out.edges = polyEdges n ∧
      out.verts = (linspaceV n).map (fun t => padPt ((List.range (pts.headD []).length).map (fun k =>
        ∑ i ∈ Finset.range (curveOrder pts.length + 1),
          (((curveOrder pts.length).choose i : Nat) : Rat) * t ^ i * (1 - t) ^ (curveOrder pts.length - i)
            * (pts.map (fun p => p.getD k 0)).getD i 0))) := by
  obtain ⟨out, h1, h2, h3, -, h5, -⟩ := as_polyline_source_spec
    (evalVec (fun P t => curveEvaluate (fun P t => srcDeCasteljau? t P) P t) pts)
    (fun t => (List.range (pts.headD []).length).map (fun k =>
        ∑ i ∈ Finset.range (curveOrder pts.length + 1),
          (((curveOrder pts.length).choose i : Nat) : Rat) * t ^ i * (1 - t) ^ (curveOrder pts.length - i)
            * (pts.map (fun p => p.getD k 0)).getD i 0)) n none
    (by
      intro t ht
      obtain ⟨t0, t1⟩ := linspaceV_mem n t (by simpa using ht)
      refine ⟨?_, by simpa using hdim⟩
      unfold evalVec
      apply mapE_total
      intro k _
      have := (Mouette.Props.C19Fn.curve_evaluate_source t (pts.map (fun p => p.getD k 0))).2 ⟨t0, t1⟩
      simp only [List.length_map] at this
      show (match curveEvaluate (fun P t => srcDeCasteljau? t P) (pts.map (fun p => p.getD k 0)) t with
        | none => Res.raised "InvalidRangeArgumentError" | some v => Res.ok v) = _
      rw [this])
  refine ⟨out, h1, by simpa [linspaceV] using h3, ?_, by simpa using h2⟩
  rw [h5, h3]; simp [linspaceV]

/-! non-vacuity -/
example : as_polyline (fun t => .ok [t, 2 * t]) 3 none
    = .ok { verts := [[0, 0, 0], [1 / 2, 1, 0], [1, 2, 0]], edges := [[0, 1], [1, 2]], faces := [],
            attr := [(0, [0]), (1, [1 / 2]), (2, [1])] } := by decide +kernel
example : as_polyline (fun t => if t ≤ 1 then .ok [t, 0, 0] else .raised "InvalidRangeArgumentError") 7 (some [0, 5 / 4])
    = .raised "InvalidRangeArgumentError" := by decide +kernel
example : as_surface (fun u => .ok [[u], [u + 1]]) (fun q v => .ok [(q.getD 0 []).getD 0 0, v, 0]) 2 3
    = .ok { verts := [[0, 0, 0], [0, 1 / 2, 0], [0, 1, 0], [1, 0, 0], [1, 1 / 2, 0], [1, 1, 0]], edges := [],
            faces := [[0, 1, 4, 3], [1, 2, 5, 4]],
            attr := [(0, [0, 0]), (1, [0, 1 / 2]), (2, [0, 1]), (3, [1, 0]), (4, [1, 1 / 2]), (5, [1, 1])] } := by
  decide +kernel
example : patchInit (fun (x : Nat) => [(x : Rat)]) [[1, 2], [3, 4]] = [[[1], [2]], [[3], [4]]] := by decide +kernel

end Mouette.Props.C19Bez
