import Mouette.Props.C10
/-
Tree facts that do not depend on any Euler-characteristic argument, packaged for other properties (C16: the cut graph is
built from a Dijkstra predecessor forest on the dual graph and from BFS trees): a BFS parent table and a Dijkstra
predecessor table are FORESTS ON THE COMPONENT OF THEIR ROOT — no cycle (every reached element is joined to the root by its
parent chain, `TreeDepth`), every link an adjacency, and exactly (number of reached elements − 1) links.
  `bfs_parent_forest`        : `Trees.bfsTree` (Edge/Face/CellSpanningTree)
The Dijkstra counterparts (`pred_forest_of_final`, `dijkstra_pred_forest`, `heap_pred_forest`) are in Props/C09Forest.lean.
-/
namespace Mouette.Props.C10
open Mouette.Trees

/-- BFS: the parent table is a tree on the admissible component of the root -/
theorem bfs_parent_forest {g : Cfg} {n root : Nat} (hwf : WF g n) (hr : root < n) (skipInf : Bool) :
    let t := bfsTree g n root skipInf
    t.parent root = none ∧
    (∀ c p, t.parent c = some p → t.reached c = true ∧ t.reached p = true ∧ ∃ k, (c, k) ∈ g.adj p ∧ g.excl k = false) ∧
    (∀ x, t.reached x = true → x ≠ root → ∃ p, t.parent x = some p) ∧
    (∀ x, t.reached x = true → ∃ d, TreeDepth t.parent root x d) ∧
    ((List.range n).filter (fun x => (t.parent x).isSome)).length + 1 = ((List.range n).filter t.reached).length ∧
    t.edges.length + 1 = ((List.range n).filter t.reached).length := by
  intro t
  obtain ⟨_, _, h3, h4, h5⟩ := parent_children_consistent hwf hr skipInf
  have hadj := (tree_edges_are_adjacencies hwf hr skipInf).1
  have hcount := edge_count hwf hr skipInf
  refine ⟨h3, fun c p hp => ⟨(h5 c p hp).1, (h5 c p hp).2, hadj c p hp⟩, h4, ?_, ?_, hcount⟩
  · intro x hx
    obtain ⟨d, _, hd, _⟩ := bfs_min_hops hwf hr skipInf x hx
    exact ⟨d, hd⟩
  · have hc := count_root t.reached (fun x => (t.parent x).isSome) root ?_ ?_ n
    · rw [hc, if_pos hr]
    · intro v
      by_cases hv : v = root
      · subst hv
        have : t.reached v = true := (reached_eq_component hwf hr skipInf v).mpr ⟨0, Hops.zero v⟩
        simp [this]
      · have hb : (v == root) = false := by simpa using hv
        rw [hb, Bool.false_or]
        cases hp : t.parent v with
        | none =>
          cases hrv : t.reached v with
          | false => rfl
          | true =>
            obtain ⟨p, hp'⟩ := h4 v hrv hv
            rw [hp] at hp'; cases hp'
        | some p => simp only [Option.isSome_some]; exact (h5 v p hp).1
    · show ((bfsTree g n root skipInf).parent root).isSome = false
      rw [h3]; rfl

end Mouette.Props.C10

