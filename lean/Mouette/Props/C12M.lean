import Mouette.Generated.C12Maths
import Mouette.Generated.C12Prim
import Mouette.Generated.C12W
import Mouette.Props.C12R
import Mouette.Props.C12T
import Mouette.Lemmas.FloatOpsR
/-!
# C12 (round 4) - the angle utilities of `mouette/utils/maths.py`, as the SOURCE defines them now

`vlib/gen/c12_source.py: translate_maths` re-extracts the bodies of `principal_angle`, `angle_diff` and the argument
expression of `roots` into `Generated/C12Maths.lean`, over an arbitrary number type, with the float constant `pi` and the
float operator `%` as parameters.  EXACTLY what is assumed about the float operations:

* `x % m` for a positive modulus `m` computes `pmod x m = x − m·⌊x/m⌋` (Python's sign convention; exact arithmetic);
* `math.pi` is `Real.pi`; `+`, `-`, `*`, `/`, `>` are exact;
* `cmath.polar(c)` returns `(|c|, arg c)` and `cmath.rect(1, θ) = exp(iθ)` (`rect1`).
Under these, the extracted bodies ARE the real-number specifications of `Lemmas/AnglesR.lean` about which the angle clauses
are proved (`principalAngle_bridge`, `angleDiff_bridge`, `rootArgs_bridge`), so the clauses hold for the source
(`principalAngle_source_spec`, `angleDiff_source_spec`, `roots_source_pow`); in units of turns over ℚ they are the executable
models the harness compares with (`principalAngle_turn_bridge`, `angleDiff_turn_bridge`, `rootArgs_turn_bridge`).
-/
namespace Mouette.Props.C12M
open Mouette Mouette.Angles Mouette.Turns Real
open Mouette.Generated

/-- under `F.Exact` (the ONE assumption about floats) the body of `principal_angle` is the real specification -/
theorem principalAngle_bridge (F : FloatOps ℝ) (hF : F.Exact) (a : ℝ) : C12Maths.principalAngle F a = Angles.principalAngle a := by
  have h2 : (0 : ℝ) < 2 * π := by positivity
  simp only [C12Maths.principalAngle, Angles.principalAngle, gt_iff_lt, hF.pi_eq, hF.fmod_eq _ _ h2]

theorem angleDiff_bridge (F : FloatOps ℝ) (hF : F.Exact) (a b : ℝ) : C12Maths.angleDiff F a b = Angles.angleDiff a b := by
  have h2 : (0 : ℝ) < 2 * π := by positivity
  simp only [C12Maths.angleDiff, Angles.angleDiff, hF.pi_eq, hF.fmod_eq _ _ h2]

/-- **angle reduction (source)**: the body of `principal_angle` returns a value congruent to its input modulo 2π, in [−π, π] -/
theorem principalAngle_source_spec (F : FloatOps ℝ) (hF : F.Exact) (a : ℝ) :
    (∃ k : ℤ, C12Maths.principalAngle F a = a - 2 * π * k) ∧
    -π ≤ C12Maths.principalAngle F a ∧ C12Maths.principalAngle F a ≤ π := by
  rw [principalAngle_bridge F hF]; exact Mouette.Props.C12R.principalAngle_spec a

/-- **angle difference (source)**: the body of `angle_diff` returns a value congruent to `a − b` modulo 2π, in [−π, π] -/
theorem angleDiff_source_spec (F : FloatOps ℝ) (hF : F.Exact) (a b : ℝ) :
    (∃ k : ℤ, C12Maths.angleDiff F a b = (a - b) - 2 * π * k) ∧
    -π ≤ C12Maths.angleDiff F a b ∧ C12Maths.angleDiff F a b ≤ π := by
  rw [angleDiff_bridge F hF]; exact Mouette.Props.C12R.angleDiff_spec a b

/-- the arguments `roots` hands to `cmath.rect` are `(arg c + 2kπ)/n`, `k < n` -/
theorem rootArgs_bridge (F : FloatOps ℝ) (hF : F.Exact) (t : ℝ) (n : ℕ) :
    C12Maths.rootArgs F t n = (List.range n).map (fun (k : ℕ) => (t + 2 * k * π) / n) := by
  simp only [C12Maths.rootArgs, hF.pi_eq]

/-- **n-th roots (source)**: every value the body of `roots(c, n)` (normalised) builds, raised to `n`, gives back `c/|c|` -/
theorem roots_source_pow (F : FloatOps ℝ) (hF : F.Exact) (c : ℂ) (hc : c ≠ 0) (n : ℕ) (hn : 0 < n) :
    (C12Maths.rootArgs F (Complex.arg c) n).length = n ∧
    ∀ θ ∈ C12Maths.rootArgs F (Complex.arg c) n, (rect1 θ) ^ n = c / (‖c‖ : ℂ) := by
  rw [rootArgs_bridge F hF]
  refine ⟨by simp, ?_⟩
  intro θ hθ
  obtain ⟨k, _, rfl⟩ := List.mem_map.mp hθ
  exact Mouette.Props.C12R.roots_pow c hc n hn k

/-- the hypothesis `F.Exact` is satisfiable: the real operations themselves -/
theorem float_assumptions_consistent : ∃ F : FloatOps ℝ, F.Exact ∧ F.TrigLaws := ⟨realOps, realOps_exact, exact_trigLaws realOps_exact⟩

/-- Python's `%` for a positive modulus, over ℚ -/
def fmodQ (x m : ℚ) : ℚ := x - m * (Rat.floor (x / m) : ℚ)

/-- the float operations in units of TURNS over ℚ (π = 1/2 turn; cos / sin are not used by the angle utilities) -/
def turnOps : FloatOps ℚ := ⟨1 / 2, fmodQ, fun _ => 0, fun _ => 0⟩

theorem fmodQ_one (x : ℚ) : fmodQ x (2 * (1 / 2)) = fractTurn x := by
  unfold fmodQ fractTurn
  norm_num

/-- in units of turns (π = 1/2 turn) the body of `principal_angle` is the executable model `principalTurn` -/
theorem principalAngle_turn_bridge (t : ℚ) : C12Maths.principalAngle turnOps t = principalTurn t := by
  simp only [C12Maths.principalAngle, principalTurn, turnOps, fmodQ_one]
  norm_num

theorem angleDiff_turn_bridge (ta tb : ℚ) : C12Maths.angleDiff turnOps ta tb = angleDiffTurn ta tb := by
  simp only [C12Maths.angleDiff, angleDiffTurn, turnOps, fmodQ_one]

theorem rootArgs_turn_bridge (t : ℚ) (n : ℕ) : C12Maths.rootArgs turnOps t n = rootTurns t n := by
  simp only [C12Maths.rootArgs, rootTurns, turnOps]
  congr 1
  funext k
  congr 1
  ring

-- non-vacuity: the extracted bodies run over ℚ in turns: 7/4 turns ≡ −1/4 turn; 1/8 − 7/8 ≡ 1/4
example : C12Maths.principalAngle turnOps (7 / 4) = -(1 / 4) := by
  rw [principalAngle_turn_bridge]
  have h : Rat.floor (7 / 4 : ℚ) = 1 := by decide +kernel
  norm_num [principalTurn, fractTurn, h]
example : (C12Maths.rootArgs turnOps (1 / 3) 2) = [1 / 6, 2 / 3] := by
  norm_num [C12Maths.rootArgs, turnOps, List.range, List.range.loop]

/-! ### closed-form primitives of `geometry.py` (bodies extracted into `Generated/C12Prim.lean`)

Assumed about the float operations here: `+ - * /`, `abs`, `max`, `min`, comparisons are exact; a value produced by `.norm()` or
`distance(..)` is represented by its square and `math.atan2(s, c)` by the pair `(s², c)` - the real-number clauses about
`atan2 (√s²) c` are `angle_3pts_source_range_symm`, `signed_angle_source_antisymm` below. -/
open Mouette.Prim

theorem sign0_bridge (x : ℚ) : C12Prim.sign0 x = if 0 ≤ x then 1 else -1 := rfl

theorem projectToPlane_bridge (P N o : V3) : C12Prim.projectToPlane P N o = Prim.projectToPlane P N o := rfl

theorem intersect2_bridge (p1 d1 p2 d2 : V2) : C12Prim.intersect2 p1 d1 p2 d2 = Prim.intersect2 p1 d1 p2 d2 := by
  simp only [C12Prim.intersect2, Prim.intersect2, parallel2, eps12, decide_eq_true_eq]
  norm_num

/-- **the parallelism test does not depend on the lengths of the directions** (the point of the relative threshold: short
directions - a small mesh - are not "parallel" because they are short) -/
theorem parallel2_scale_invariant (d1 d2 : V2) (s t : ℚ) (hs : s ≠ 0) (ht : t ≠ 0) :
    parallel2 (V2.smul s d1) (V2.smul t d2) = parallel2 d1 d2 := by
  have hpos : 0 < s * s * (t * t) := mul_pos (mul_self_pos.mpr hs) (mul_self_pos.mpr ht)
  have e1 : det2 (V2.smul s d1) (V2.smul t d2) * det2 (V2.smul s d1) (V2.smul t d2) =
      s * s * (t * t) * (det2 d1 d2 * det2 d1 d2) := by simp only [det2, V2.smul]; ring
  have e2 : eps12 * eps12 * V2.norm2 (V2.smul s d1) * V2.norm2 (V2.smul t d2) =
      s * s * (t * t) * (eps12 * eps12 * V2.norm2 d1 * V2.norm2 d2) := by simp only [V2.norm2, V2.dot, V2.smul]; ring
  simp only [parallel2, e1, e2, mul_le_mul_iff_right₀ hpos]

/-- exactly parallel directions (and a zero direction) are always reported, at every scale -/
theorem parallel2_of_det_zero (d1 d2 : V2) (h : det2 d1 d2 = 0) : parallel2 d1 d2 = true := by
  simp only [parallel2, h, mul_zero, decide_eq_true_eq]
  have h1 : 0 ≤ V2.norm2 d1 := by simp only [V2.norm2, V2.dot]; nlinarith [mul_self_nonneg d1.x, mul_self_nonneg d1.y]
  have h2 : 0 ≤ V2.norm2 d2 := by simp only [V2.norm2, V2.dot]; nlinarith [mul_self_nonneg d2.x, mul_self_nonneg d2.y]
  have h3 : 0 ≤ eps12 * eps12 := mul_self_nonneg _
  positivity

/-- when the source's `intersect_2lines2D` returns a point, it lies on both lines -/
theorem intersect2_on_both_lines (p1 d1 p2 d2 p : V2) (h : C12Prim.intersect2 p1 d1 p2 d2 = some p) :
    (∃ t : ℚ, p = V2.add p1 (V2.smul t d1)) ∧ det2 (V2.sub p p2) d2 = 0 := by
  rw [intersect2_bridge] at h
  unfold Prim.intersect2 at h
  split at h
  · cases h
  · rename_i hp
    simp only [Option.some.injEq] at h
    have hdet : det2 d1 d2 ≠ 0 := by
      intro h0
      exact hp (parallel2_of_det_zero d1 d2 h0)
    have hden : V2.dot d1 ⟨d2.y, -d2.x⟩ ≠ 0 := by
      have : V2.dot d1 ⟨d2.y, -d2.x⟩ = det2 d1 d2 := by simp only [V2.dot, det2]; ring
      rw [this]; exact hdet
    refine ⟨⟨_, h.symm⟩, ?_⟩
    subst h
    simp only [V2.dot] at hden
    simp only [det2, V2.sub, V2.add, V2.smul, V2.dot]
    set D := d1.x * d2.y + d1.y * -d2.x with hD
    set N := (p2.x - p1.x) * d2.y + (p2.y - p1.y) * -d2.x with hN
    have key : (p1.x + N / D * d1.x - p2.x) * d2.y - (p1.y + N / D * d1.y - p2.y) * d2.x = -N + N / D * D := by
      rw [hN, hD]; ring
    rw [key, div_mul_cancel₀ _ hden]
    ring

theorem clamp_bridge (x : ℚ) : C12Prim.rmax 0 (C12Prim.rmin 1 x) = clamp01 x := by
  unfold C12Prim.rmax C12Prim.rmin clamp01
  split_ifs <;> first | rfl | linarith

theorem distSeg2_bridge (P A B : V2) : C12Prim.distSeg2 P A B = Prim.distSeg2 P A B := by
  simp only [C12Prim.distSeg2, Prim.distSeg2, eps12, clamp_bridge]
  norm_num

theorem area2_bridge (A B C : V2) : C12Prim.area2 A B C = Prim.area2 A B C := rfl

theorem angle3_bridge (A B C : V3) : C12Prim.angle3 A B C = Prim.angle3 A B C := rfl

theorem signedAngle_bridge (V1 V2 N : V3) : C12Prim.signedAngle V1 V2 N = Prim.signedAngle V1 V2 N := rfl

/-- **three-point angle (source)**: the value `atan2(|BA×BC|, BA·BC)` built by the body of `angle_3pts` lies in [0, π] and
is symmetric in its outer arguments -/
theorem angle_3pts_source_range_symm (A B C : V3) :
    let θ := fun (P Q R : V3) => atan2 (Real.sqrt ((C12Prim.angle3 P Q R).1 : ℝ)) ((C12Prim.angle3 P Q R).2 : ℝ)
    0 ≤ θ A B C ∧ θ A B C ≤ π ∧ θ A B C = θ C B A := by
  simp only [angle3_bridge]
  exact Mouette.Props.C12R.angle_3pts_range_symm A B C

/-- **signed angle (source)**: swapping the two vectors flips the sign factor and keeps the `atan2` arguments, whenever the
reference normal is not orthogonal to `V1 × V2` -/
theorem signed_angle_source_antisymm (V1 V2 N : V3) (h : V3.dot (V3.cross V1 V2) N ≠ 0) :
    C12Prim.signedAngle V2 V1 N =
      (-(C12Prim.signedAngle V1 V2 N).1, (C12Prim.signedAngle V1 V2 N).2.1, (C12Prim.signedAngle V1 V2 N).2.2) := by
  simp only [signedAngle_bridge]
  exact Mouette.Props.C12R.signedAngle_antisymm V1 V2 N h

example : C12Prim.intersect2 ⟨0, 0⟩ ⟨1, 0⟩ ⟨2, 5⟩ ⟨0, 1⟩ = some ⟨2, 0⟩ := by decide +kernel
-- directions of length 2⁻²³ (a mesh of size 1e-7) at a right angle are NOT parallel; the absolute test `|det| < 1e-12` said they were
example : C12Prim.intersect2 ⟨0, 0⟩ ⟨1 / 8388608, 0⟩ ⟨1 / 8388608, 1⟩ ⟨0, 1 / 8388608⟩ = some ⟨1 / 8388608, 0⟩ ∧
    Prim.rabs (det2 ⟨1 / 8388608, 0⟩ ⟨0, 1 / 8388608⟩) < eps12 := by decide +kernel
example : C12Prim.distSeg2 ⟨3, 4⟩ ⟨0, 0⟩ ⟨2, 0⟩ = 17 := by decide +kernel

/-! ### frame conditions, read off the source (`Generated/C12W.lean`) -/

/-- **no function of the anchored files stores into its arguments**, except the three documented to modify their own object:
`AABB.__init__` / `AABB.pad` write the bounds of their OWN box (`self._p1`, `self._p2`) and `Vec.normalize` updates `self`
in place.  (Syntactic: stores, in-place updates, mutating method calls and `out=` keywords that reach a parameter or a name
bound from one; what numpy does inside a call is observed by the monitor of the harness.) -/
theorem source_write_sets :
    ∀ e ∈ C12W.writes, e.2 ≠ [] →
      (e = ("AABB.__init__", ["self._p1", "self._p2"]) ∨ e = ("AABB.pad", ["self._p1", "self._p2"]) ∨
       e = ("Vec.normalize", ["self (in-place)"])) := by
  decide +kernel

/-- … and `AABB.pad`, `Vec.normalized` and the geometric primitives are really among the functions read -/
theorem source_write_sets_cover :
    ("AABB.pad", ["self._p1", "self._p2"]) ∈ C12W.writes ∧ ("Vec.normalized", []) ∈ C12W.writes ∧
    ("AABB.union", []) ∈ C12W.writes ∧ ("AABB.intersection", []) ∈ C12W.writes ∧ ("rotate_around_axis", []) ∈ C12W.writes ∧
    ("cotan", []) ∈ C12W.writes ∧ ("circumcenter", []) ∈ C12W.writes := by
  decide +kernel

/-- **no function of the anchored files calls `numpy.seterr`**: the process-wide floating-point error mode can only be changed
through a context manager that restores it (`Vec.normalized` uses `np.errstate`) -/
theorem source_no_seterr : C12W.seterrCalls = [] := rfl

end Mouette.Props.C12M
