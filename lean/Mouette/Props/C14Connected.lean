import Mouette.Props.C14Euler
import Mouette.Lemmas.FaceConn
/-!
# C14 (round 4) — face connectivity of the parametric families, for ALL admissible parameters

`FaceConnected fs` (`Lemmas/FaceConn`): any two faces of the list are joined by a chain of faces of the list in which
consecutive faces share an edge (a side of one is the opposite of a side of the other). Together with closedness and
consistent orientation (`C14Oriented`, `C14Sphere`) and the Euler characteristic (`C14Euler`) this pins the topological
type: ONE closed oriented surface with χ = 0 (torus) / χ = 2 (sphere), not a disjoint union.

All theorems are about the TRANSLATED terms `torusFaces`, `unit_gridFaces`, `sphere_uvFaces` (`Mouette.Generated.C14`).
-/
namespace Mouette.Props.C14
open Mouette.Generated.C14 Mouette.MeshCheck Mouette.ListCount Mouette.EdgeCount Mouette.FaceConn

/-! ## torus, quads -/

theorem mem_torusQuads (M N : Nat) (f : List Nat) :
    f ∈ torusFaces M N false ↔ ∃ i j, i < M ∧ j < N ∧ f = torusQuad M N i j := by
  rw [(torusFaces_addressed M N).1, List.mem_map]
  constructor
  · rintro ⟨p, hp, rfl⟩
    rw [mem_grid2] at hp
    exact ⟨p.1, p.2, hp.1, hp.2, rfl⟩
  · rintro ⟨i, j, hi, hj, rfl⟩
    exact ⟨(i, j), (mem_grid2 _ _ _).mpr ⟨hi, hj⟩, rfl⟩

/-- quad (i,j) and quad (i,j+1) share the side between the two columns -/
theorem torusQuad_adj_right (M N i j : Nat) (hj : j + 1 < N) :
    Adjacent (torusQuad M N i j) (torusQuad M N i (j + 1)) := by
  refine ⟨(i * N + (j + 1) % N, (i + 1) % M * N + (j + 1) % N), ?_, ?_⟩
  · simp [torusQuad, sides_quad]
  · simp [torusQuad, sides_quad, Nat.mod_eq_of_lt hj]

/-- quad (i,j) and quad (i+1,j) share the side between the two rows -/
theorem torusQuad_adj_down (M N i j : Nat) (hi : i + 1 < M) :
    Adjacent (torusQuad M N i j) (torusQuad M N (i + 1) j) := by
  refine ⟨((i + 1) % M * N + (j + 1) % N, (i + 1) % M * N + j), ?_, ?_⟩
  · simp [torusQuad, sides_quad]
  · simp [torusQuad, sides_quad, Nat.mod_eq_of_lt hi]

/-- every quad of the torus is reached from quad (0,0) -/
theorem torus_quads_reach (M N : Nat) (i j : Nat) (hi : i < M) (hj : j < N) :
    Reach (torusFaces M N false) (torusQuad M N 0 0) (torusQuad M N i j) := by
  apply grid_reach (torusFaces M N false) (fun i j => torusQuad M N i j) M N _ _ i j hi hj
  · intro i j hi hj
    exact Reach.single ((mem_torusQuads M N _).mpr ⟨i, j + 1, hi, hj, rfl⟩) (torusQuad_adj_right M N i j hj)
  · intro i hi hn
    exact Reach.single ((mem_torusQuads M N _).mpr ⟨i + 1, 0, hi, hn, rfl⟩) (torusQuad_adj_down M N i 0 hi)

/-- the quad torus is ONE component, for all M, N ≥ 1 -/
theorem torus_quads_connected (M N : Nat) (hM : 1 ≤ M) (hN : 1 ≤ N) : FaceConnected (torusFaces M N false) := by
  apply connected_of_root _ (torusQuad M N 0 0)
  intro f hf
  refine ⟨(mem_torusQuads M N _).mpr ⟨0, 0, by omega, by omega, rfl⟩, ?_⟩
  obtain ⟨i, j, hi, hj, rfl⟩ := (mem_torusQuads M N f).mp hf
  exact torus_quads_reach M N i j hi hj

/-! ## torus, triangles -/

theorem mem_torusTris (M N : Nat) (f : List Nat) :
    f ∈ torusFaces M N true ↔ ∃ i j k, i < M ∧ j < N ∧ f = torusTri M N i j k := by
  rw [(torusFaces_addressed M N).2, List.mem_map]
  constructor
  · rintro ⟨p, hp, rfl⟩
    rw [mem_grid2b] at hp
    exact ⟨p.1, p.2.1, p.2.2, hp.1, hp.2, rfl⟩
  · rintro ⟨i, j, k, hi, hj, rfl⟩
    exact ⟨(i, j, k), (mem_grid2b _ _ _).mpr ⟨hi, hj⟩, rfl⟩

/-- the two triangles of a cell share the diagonal -/
theorem torusTri_adj_diag (M N i j : Nat) : Adjacent (torusTri M N i j false) (torusTri M N i j true) := by
  refine ⟨(i * N + (j + 1) % N, (i + 1) % M * N + j), ?_, ?_⟩ <;> simp [torusTri, sides_tri]

theorem torusTri_adj_right (M N i j : Nat) (hj : j + 1 < N) :
    Adjacent (torusTri M N i j true) (torusTri M N i (j + 1) false) := by
  refine ⟨(i * N + (j + 1) % N, (i + 1) % M * N + (j + 1) % N), ?_, ?_⟩
  · simp [torusTri, sides_tri]
  · simp [torusTri, sides_tri, Nat.mod_eq_of_lt hj]

theorem torusTri_adj_down (M N i j : Nat) (hi : i + 1 < M) :
    Adjacent (torusTri M N i j true) (torusTri M N (i + 1) j false) := by
  refine ⟨((i + 1) % M * N + (j + 1) % N, (i + 1) % M * N + j), ?_, ?_⟩
  · simp [torusTri, sides_tri]
  · simp [torusTri, sides_tri, Nat.mod_eq_of_lt hi]

/-- every triangle of the torus is reached from the first triangle of cell (0,0) -/
theorem torus_tris_reach (M N : Nat) (i j : Nat) (k : Bool) (hi : i < M) (hj : j < N) :
    Reach (torusFaces M N true) (torusTri M N 0 0 false) (torusTri M N i j k) := by
  have hm : ∀ i j k, i < M → j < N → torusTri M N i j k ∈ torusFaces M N true :=
    fun i j k hi hj => (mem_torusTris M N _).mpr ⟨i, j, k, hi, hj, rfl⟩
  have h0 : Reach (torusFaces M N true) (torusTri M N 0 0 false) (torusTri M N i j false) := by
    apply grid_reach (torusFaces M N true) (fun i j => torusTri M N i j false) M N _ _ i j hi hj
    · intro i j hi hj
      exact (Reach.single (hm i j true hi (by omega)) (torusTri_adj_diag M N i j)).step (hm i (j + 1) false hi hj)
        (torusTri_adj_right M N i j hj)
    · intro i hi hn
      exact (Reach.single (hm i 0 true (by omega) hn) (torusTri_adj_diag M N i 0)).step (hm (i + 1) 0 false hi hn)
        (torusTri_adj_down M N i 0 hi)
  cases k with
  | false => exact h0
  | true => exact h0.step (hm i j true hi hj) (torusTri_adj_diag M N i j)

/-- the triangulated torus is ONE component, for all M, N ≥ 1 -/
theorem torus_tris_connected (M N : Nat) (hM : 1 ≤ M) (hN : 1 ≤ N) : FaceConnected (torusFaces M N true) := by
  apply connected_of_root _ (torusTri M N 0 0 false)
  intro f hf
  refine ⟨(mem_torusTris M N _).mpr ⟨0, 0, false, by omega, by omega, rfl⟩, ?_⟩
  obtain ⟨i, j, k, hi, hj, rfl⟩ := (mem_torusTris M N f).mp hf
  exact torus_tris_reach M N i j k hi hj

/-! ## unit grid -/

theorem mem_gridQuads (nu nv : Nat) (u : Bool) (f : List Nat) :
    f ∈ unit_gridFaces nu nv false u ↔ ∃ i j, i < nu - 1 ∧ j < nv - 1 ∧ f = gridQuad nv i j := by
  rw [(unit_gridFaces_eq nu nv u).1]
  simp only [List.mem_flatMap, List.mem_range]
  constructor
  · rintro ⟨i, _, j, _, h⟩
    by_cases hc : i < nu - 1 ∧ j < nv - 1
    · rw [if_pos hc] at h
      exact ⟨i, j, hc.1, hc.2, by simpa using h⟩
    · rw [if_neg hc] at h; cases h
  · rintro ⟨i, j, hi, hj, rfl⟩
    exact ⟨i, by omega, j, by omega, by rw [if_pos ⟨hi, hj⟩]; simp⟩

theorem mem_gridTris (nu nv : Nat) (u : Bool) (f : List Nat) :
    f ∈ unit_gridFaces nu nv true u ↔ ∃ i j k, i < nu - 1 ∧ j < nv - 1 ∧ f = gridTri nv i j k := by
  rw [(unit_gridFaces_eq nu nv u).2]
  simp only [List.mem_flatMap, List.mem_range]
  constructor
  · rintro ⟨i, _, j, _, h⟩
    by_cases hc : i < nu - 1 ∧ j < nv - 1
    · rw [if_pos hc] at h
      simp only [List.mem_cons, List.mem_nil_iff, or_false] at h
      rcases h with h | h
      · exact ⟨i, j, false, hc.1, hc.2, h⟩
      · exact ⟨i, j, true, hc.1, hc.2, h⟩
    · rw [if_neg hc] at h; cases h
  · rintro ⟨i, j, k, hi, hj, rfl⟩
    refine ⟨i, by omega, j, by omega, ?_⟩
    rw [if_pos ⟨hi, hj⟩]
    cases k <;> simp

theorem gridQuad_adj_right (nv i j : Nat) : Adjacent (gridQuad nv i j) (gridQuad nv i (j + 1)) := by
  refine ⟨(i * nv + j + 1, (i + 1) * nv + j + 1), ?_, ?_⟩
  · simp [gridQuad, sides_quad]
  · simp only [gridQuad, sides_quad, List.mem_cons, Prod.mk.injEq, List.mem_nil_iff, or_false]
    omega

theorem gridQuad_adj_down (nv i j : Nat) : Adjacent (gridQuad nv i j) (gridQuad nv (i + 1) j) := by
  refine ⟨((i + 1) * nv + j + 1, (i + 1) * nv + j), ?_, ?_⟩ <;> simp [gridQuad, sides_quad]

/-- the quad grid is ONE component, for all nu, nv (the empty face list included) -/
theorem unit_grid_quads_connected (nu nv : Nat) (u : Bool) : FaceConnected (unit_gridFaces nu nv false u) := by
  apply connected_of_root _ (gridQuad nv 0 0)
  intro f hf
  obtain ⟨i, j, hi, hj, rfl⟩ := (mem_gridQuads nu nv u f).mp hf
  refine ⟨(mem_gridQuads nu nv u _).mpr ⟨0, 0, by omega, by omega, rfl⟩, ?_⟩
  apply grid_reach (unit_gridFaces nu nv false u) (fun i j => gridQuad nv i j) (nu - 1) (nv - 1) _ _ i j hi hj
  · intro i j hi hj
    exact Reach.single ((mem_gridQuads nu nv u _).mpr ⟨i, j + 1, hi, hj, rfl⟩) (gridQuad_adj_right nv i j)
  · intro i hi hn
    exact Reach.single ((mem_gridQuads nu nv u _).mpr ⟨i + 1, 0, hi, hn, rfl⟩) (gridQuad_adj_down nv i 0)

theorem gridTri_adj_diag (nv i j : Nat) : Adjacent (gridTri nv i j false) (gridTri nv i j true) := by
  refine ⟨(i * nv + j + 1, (i + 1) * nv + j), ?_, ?_⟩ <;> simp [gridTri, sides_tri]

theorem gridTri_adj_right (nv i j : Nat) : Adjacent (gridTri nv i j true) (gridTri nv i (j + 1) false) := by
  refine ⟨(i * nv + j + 1, (i + 1) * nv + j + 1), ?_, ?_⟩
  · simp [gridTri, sides_tri]
  · simp only [gridTri, sides_tri, List.mem_cons, Prod.mk.injEq, List.mem_nil_iff, or_false, Bool.false_eq_true,
      if_false]
    omega

theorem gridTri_adj_down (nv i j : Nat) : Adjacent (gridTri nv i j true) (gridTri nv (i + 1) j false) := by
  refine ⟨((i + 1) * nv + j + 1, (i + 1) * nv + j), ?_, ?_⟩ <;> simp [gridTri, sides_tri]

/-- the triangulated grid is ONE component, for all nu, nv -/
theorem unit_grid_tris_connected (nu nv : Nat) (u : Bool) : FaceConnected (unit_gridFaces nu nv true u) := by
  apply connected_of_root _ (gridTri nv 0 0 false)
  intro f hf
  obtain ⟨i, j, k, hi, hj, rfl⟩ := (mem_gridTris nu nv u f).mp hf
  have hm : ∀ i j k, i < nu - 1 → j < nv - 1 → gridTri nv i j k ∈ unit_gridFaces nu nv true u :=
    fun i j k hi hj => (mem_gridTris nu nv u _).mpr ⟨i, j, k, hi, hj, rfl⟩
  refine ⟨hm 0 0 false (by omega) (by omega), ?_⟩
  have h0 : Reach (unit_gridFaces nu nv true u) (gridTri nv 0 0 false) (gridTri nv i j false) := by
    apply grid_reach (unit_gridFaces nu nv true u) (fun i j => gridTri nv i j false) (nu - 1) (nv - 1) _ _ i j hi hj
    · intro i j hi hj
      exact (Reach.single (hm i j true hi (by omega)) (gridTri_adj_diag nv i j)).step (hm i (j + 1) false hi hj)
        (gridTri_adj_right nv i j)
    · intro i hi hn
      exact (Reach.single (hm i 0 true (by omega) hn) (gridTri_adj_diag nv i 0)).step (hm (i + 1) 0 false hi hn)
        (gridTri_adj_down nv i 0)
  cases k with
  | false => exact h0
  | true => exact h0.step (hm i j true hi hj) (gridTri_adj_diag nv i j)

/-! ## uv sphere -/

theorem mem_sphereFaces (a b : Nat) (ha : 1 ≤ a) (f : List Nat) :
    f ∈ sphere_uvFaces a b ↔ ∃ s : SF, s.ok a b ∧ f = sphFace a b s := by
  rw [sphere_uvFaces_addressed a b ha, List.mem_map]
  constructor
  · rintro ⟨s, hs, rfl⟩; exact ⟨s, (mem_sphAddr a b s).mp hs, rfl⟩
  · rintro ⟨s, hs, rfl⟩; exact ⟨s, (mem_sphAddr a b s).mpr hs, rfl⟩

/-- along the top fan -/
theorem sph_adj_top_top (a b i : Nat) (hi : i + 1 < b) : Adjacent (sphFace a b (.top i)) (sphFace a b (.top (i + 1))) := by
  refine ⟨(0, (i + 1) % b + 1), ?_, ?_⟩
  · simp [sphFace, sides_tri]
  · simp [sphFace, sides_tri, Nat.mod_eq_of_lt hi]

/-- top fan to the first quad row -/
theorem sph_adj_top_quad (a b i : Nat) : Adjacent (sphFace a b (.top i)) (sphFace a b (.quad 0 i)) := by
  refine ⟨((i + 1) % b + 1, i + 1), ?_, ?_⟩
  · simp [sphFace, sides_tri]
  · simp only [sphFace, sides_quad, List.mem_cons, Prod.mk.injEq, List.mem_nil_iff, or_false]
    omega

/-- quad row to the next quad row -/
theorem sph_adj_quad_quad (a b j i : Nat) : Adjacent (sphFace a b (.quad j i)) (sphFace a b (.quad (j + 1) i)) := by
  refine ⟨((j + 1) * b + 1 + (i + 1) % b, (j + 1) * b + 1 + i), ?_, ?_⟩ <;> simp [sphFace, sides_quad]

/-- last quad row to the bottom fan -/
theorem sph_adj_quad_bot (a b j i : Nat) (hj : j + 2 = a) : Adjacent (sphFace a b (.quad j i)) (sphFace a b (.bot i)) := by
  refine ⟨((j + 1) * b + 1 + (i + 1) % b, (j + 1) * b + 1 + i), ?_, ?_⟩
  · simp [sphFace, sides_quad]
  · have e : a - 1 = j + 1 := by omega
    simp only [sphFace, sides_tri, e, List.mem_cons, Prod.mk.injEq, List.mem_nil_iff, or_false]
    omega

/-- n_lat = 1: the top fan and the bottom fan share the only ring -/
theorem sph_adj_top_bot (b i : Nat) : Adjacent (sphFace 1 b (.top i)) (sphFace 1 b (.bot i)) := by
  refine ⟨((i + 1) % b + 1, i + 1), ?_, ?_⟩
  · simp [sphFace, sides_tri]
  · simp only [sphFace, sides_tri, List.mem_cons, Prod.mk.injEq, List.mem_nil_iff, or_false]
    omega

/-- every face of the uv sphere is reached from the first triangle of the top fan -/
theorem sphere_uv_reach (a b : Nat) (ha : 1 ≤ a) (s : SF) (hs : s.ok a b) :
    Reach (sphere_uvFaces a b) (sphFace a b (.top 0)) (sphFace a b s) := by
  have hm : ∀ s : SF, s.ok a b → sphFace a b s ∈ sphere_uvFaces a b :=
    fun s hs => (mem_sphereFaces a b ha _).mpr ⟨s, hs, rfl⟩
  have htop : ∀ i, i < b → Reach (sphere_uvFaces a b) (sphFace a b (.top 0)) (sphFace a b (.top i)) := by
    apply row_reach (sphere_uvFaces a b) (fun i => sphFace a b (.top i)) b
    intro i hi
    exact Reach.single (hm (.top (i + 1)) hi) (sph_adj_top_top a b i hi)
  have hquad : ∀ j i, j + 1 < a → i < b →
      Reach (sphere_uvFaces a b) (sphFace a b (.top 0)) (sphFace a b (.quad j i)) := by
    intro j
    induction j with
    | zero =>
      intro i hj hi
      exact (htop i hi).step (hm (.quad 0 i) ⟨hj, hi⟩) (sph_adj_top_quad a b i)
    | succ j ih =>
      intro i hj hi
      exact (ih i (by omega) hi).step (hm (.quad (j + 1) i) ⟨hj, hi⟩) (sph_adj_quad_quad a b j i)
  cases s with
  | top i => exact htop i hs
  | quad j i => exact hquad j i hs.1 hs.2
  | bot i =>
    have hi : i < b := hs
    by_cases h1 : a = 1
    · subst h1
      exact (htop i hi).step (hm (.bot i) hs) (sph_adj_top_bot b i)
    · have e : a - 2 + 2 = a := by omega
      exact (hquad (a - 2) i (by omega) hi).step (hm (.bot i) hs) (sph_adj_quad_bot a b (a - 2) i e)

/-- the uv sphere is ONE component, for all n_lat ≥ 1, n_long ≥ 1 -/
theorem sphere_uv_connected (a b : Nat) (ha : 1 ≤ a) (hb : 1 ≤ b) : FaceConnected (sphere_uvFaces a b) := by
  apply connected_of_root _ (sphFace a b (.top 0))
  intro f hf
  refine ⟨(mem_sphereFaces a b ha _).mpr ⟨.top 0, (by show 0 < b; omega), rfl⟩, ?_⟩
  obtain ⟨s, hs, rfl⟩ := (mem_sphereFaces a b ha f).mp hf
  exact sphere_uv_reach a b ha s hs

/-! ## umbrellas: the faces around a vertex form one closed fan -/

theorem succ_mod_inj (n x y : Nat) (hx : x < n) (hy : y < n) (h : (x + 1) % n = (y + 1) % n) : x = y := by
  have a1 := succ_mod_cases n x hx
  have a2 := succ_mod_cases n y hy
  omega

theorem torusQuad_inj {M N i j i' j' : Nat} (h : torusQuad M N i j = torusQuad M N i' j') (hj : j < N) (hj' : j' < N) :
    i = i' ∧ j = j' := by
  simp only [torusQuad, List.cons.injEq] at h
  exact idx_inj hj hj' h.1

/-- the four quads around the vertex (i,j), with `P`, `Q` the cyclic predecessors of `i`, `j`: consecutive quads share a
side that ends at the vertex -/
theorem torus_umbrella_adj (M N i j P Q : Nat) (hP : (P + 1) % M = i) (hQ : (Q + 1) % N = j) :
    AdjacentAt (i * N + j) (torusQuad M N i j) (torusQuad M N P j) ∧
    AdjacentAt (i * N + j) (torusQuad M N P j) (torusQuad M N P Q) ∧
    AdjacentAt (i * N + j) (torusQuad M N P Q) (torusQuad M N i Q) ∧
    AdjacentAt (i * N + j) (torusQuad M N i Q) (torusQuad M N i j) := by
  refine ⟨?_, ?_, ?_, ?_⟩
  · refine ⟨(i * N + j, i * N + (j + 1) % N), ?_, ?_, ?_⟩ <;> simp [torusQuad, sides_quad, hP]
  · refine ⟨(i * N + j, P * N + j), ?_, ?_, ?_⟩ <;> simp [torusQuad, sides_quad, hP, hQ]
  · refine ⟨(i * N + j, i * N + Q), ?_, ?_, ?_⟩ <;> simp [torusQuad, sides_quad, hP, hQ]
  · refine ⟨(i * N + j, (i + 1) % M * N + j), ?_, ?_, ?_⟩ <;> simp [torusQuad, sides_quad, hQ]

/-- torus, quads: the faces containing the vertex (i,j) are exactly the four quads (i,j), (i−1,j), (i−1,j−1), (i,j−1)
(indices cyclic), pairwise distinct, and they form ONE closed fan around the vertex — every vertex is a manifold
interior vertex, for all M, N ≥ 2 (in particular M, N ≥ 3) -/
theorem torus_quads_umbrella (M N : Nat) (hM : 2 ≤ M) (hN : 2 ≤ N) (i j : Nat) (hi : i < M) (hj : j < N) :
    Umbrella (torusFaces M N false) (i * N + j)
      [torusQuad M N i j, torusQuad M N (pm M i) j, torusQuad M N (pm M i) (pm N j), torusQuad M N i (pm N j)] := by
  have hP := pm_succ M i hi
  have hPl := pm_lt M i (by omega)
  have hQ := pm_succ N j hj
  have hQl := pm_lt N j (by omega)
  generalize pm M i = P at hP hPl ⊢
  generalize pm N j = Q at hQ hQl ⊢
  have hPi : P ≠ i := by have := succ_mod_cases M P hPl; omega
  have hQj : Q ≠ j := by have := succ_mod_cases N Q hQl; omega
  have hm : ∀ i j, i < M → j < N → torusQuad M N i j ∈ torusFaces M N false :=
    fun i j hi hj => (mem_torusQuads M N _).mpr ⟨i, j, hi, hj, rfl⟩
  refine ⟨?_, ?_, ?_⟩
  · simp only [List.nodup_cons, List.mem_cons, or_false, not_or, List.nodup_nil, and_true,
      List.not_mem_nil, not_false_eq_true]
    refine ⟨⟨?_, ?_, ?_⟩, ⟨?_, ?_⟩, ?_⟩ <;>
      (intro h
       have c := torusQuad_inj h (by assumption) (by assumption)
       omega)
  · intro f
    constructor
    · intro hf
      simp only [List.mem_cons, List.mem_nil_iff, or_false] at hf
      rcases hf with rfl | rfl | rfl | rfl
      · exact ⟨hm i j hi hj, by simp [torusQuad]⟩
      · exact ⟨hm P j hPl hj, by simp [torusQuad, hP]⟩
      · exact ⟨hm P Q hPl hQl, by simp [torusQuad, hP, hQ]⟩
      · exact ⟨hm i Q hi hQl, by simp [torusQuad, hQ]⟩
    · rintro ⟨hf, hv⟩
      obtain ⟨i', j', hi', hj', rfl⟩ := (mem_torusQuads M N f).mp hf
      simp only [torusQuad, List.mem_cons, List.mem_nil_iff, or_false] at hv
      have b1 : (i' + 1) % M < M := Nat.mod_lt _ (by omega)
      have b2 : (j' + 1) % N < N := Nat.mod_lt _ (by omega)
      rcases hv with h | h | h | h
      · obtain ⟨e1, e2⟩ := idx_inj hj hj' h
        rw [← e1, ← e2]; simp
      · obtain ⟨e1, e2⟩ := idx_inj hj b2 h
        have e3 : j' = Q := succ_mod_inj N j' Q hj' hQl (by rw [hQ]; exact e2.symm)
        rw [← e1, e3]; simp
      · obtain ⟨e1, e2⟩ := idx_inj hj b2 h
        have e3 : j' = Q := succ_mod_inj N j' Q hj' hQl (by rw [hQ]; exact e2.symm)
        have e4 : i' = P := succ_mod_inj M i' P hi' hPl (by rw [hP]; exact e1.symm)
        rw [e3, e4]; simp
      · obtain ⟨e1, e2⟩ := idx_inj hj hj' h
        have e4 : i' = P := succ_mod_inj M i' P hi' hPl (by rw [hP]; exact e1.symm)
        rw [e4, ← e2]; simp
  · obtain ⟨a1, a2, a3, a4⟩ := torus_umbrella_adj M N i j P Q hP hQ
    intro p hp
    simp only [cyclicPairs, List.tail_cons, List.cons_append, List.nil_append, List.zip_cons_cons, List.zip_nil_right,
      List.mem_cons, List.mem_nil_iff, or_false] at hp
    rcases hp with rfl | rfl | rfl | rfl
    · exact a1
    · exact a2
    · exact a3
    · exact a4

theorem gridQuad_inj {nv i j i' j' : Nat} (h : gridQuad nv i j = gridQuad nv i' j') (hj : j < nv) (hj' : j' < nv) :
    i = i' ∧ j = j' := by
  simp only [gridQuad, List.cons.injEq] at h
  exact idx_inj hj hj' h.1

/-- the four quads around the grid vertex (i+1, j+1): consecutive quads share a side that ends at the vertex -/
theorem grid_umbrella_adj (nv i j : Nat) :
    AdjacentAt ((i + 1) * nv + (j + 1)) (gridQuad nv (i + 1) (j + 1)) (gridQuad nv i (j + 1)) ∧
    AdjacentAt ((i + 1) * nv + (j + 1)) (gridQuad nv i (j + 1)) (gridQuad nv i j) ∧
    AdjacentAt ((i + 1) * nv + (j + 1)) (gridQuad nv i j) (gridQuad nv (i + 1) j) ∧
    AdjacentAt ((i + 1) * nv + (j + 1)) (gridQuad nv (i + 1) j) (gridQuad nv (i + 1) (j + 1)) := by
  refine ⟨?_, ?_, ?_, ?_⟩
  · refine ⟨((i + 1) * nv + (j + 1), (i + 1) * nv + (j + 1) + 1), ?_, ?_, ?_⟩ <;> simp [gridQuad, sides_quad]
  · refine ⟨((i + 1) * nv + (j + 1), i * nv + (j + 1)), ?_, ?_, ?_⟩ <;>
      simp only [gridQuad, sides_quad, List.mem_cons, Prod.mk.injEq, List.mem_nil_iff, or_false, or_true, true_or] <;>
      omega
  · refine ⟨((i + 1) * nv + j + 1, (i + 1) * nv + j), ?_, ?_, ?_⟩ <;>
      simp only [gridQuad, sides_quad, List.mem_cons, Prod.mk.injEq, List.mem_nil_iff, or_false, or_true, true_or] <;>
      omega
  · refine ⟨((i + 1) * nv + j + 1, (i + 1 + 1) * nv + j + 1), ?_, ?_, ?_⟩ <;>
      simp only [gridQuad, sides_quad, List.mem_cons, Prod.mk.injEq, List.mem_nil_iff, or_false, or_true, true_or] <;>
      omega

/-- quad grid: around every INTERIOR vertex (i+1, j+1), 0 < i+1 < nu−1, 0 < j+1 < nv−1, the faces containing it are exactly
four pairwise distinct quads forming ONE closed fan -/
theorem unit_grid_quads_umbrella (nu nv : Nat) (u : Bool) (i j : Nat) (hi : i + 2 < nu) (hj : j + 2 < nv) :
    Umbrella (unit_gridFaces nu nv false u) ((i + 1) * nv + (j + 1))
      [gridQuad nv (i + 1) (j + 1), gridQuad nv i (j + 1), gridQuad nv i j, gridQuad nv (i + 1) j] := by
  have hm : ∀ i j, i < nu - 1 → j < nv - 1 → gridQuad nv i j ∈ unit_gridFaces nu nv false u :=
    fun i j hi hj => (mem_gridQuads nu nv u _).mpr ⟨i, j, hi, hj, rfl⟩
  refine ⟨?_, ?_, ?_⟩
  · simp only [List.nodup_cons, List.mem_cons, or_false, not_or, List.nodup_nil, and_true,
      List.not_mem_nil, not_false_eq_true]
    refine ⟨⟨?_, ?_, ?_⟩, ⟨?_, ?_⟩, ?_⟩ <;>
      (intro h
       have c := gridQuad_inj h (by omega) (by omega)
       omega)
  · intro f
    constructor
    · intro hf
      simp only [List.mem_cons, List.mem_nil_iff, or_false] at hf
      rcases hf with rfl | rfl | rfl | rfl
      · exact ⟨hm _ _ (by omega) (by omega), by simp [gridQuad]⟩
      · exact ⟨hm _ _ (by omega) (by omega), by simp [gridQuad]⟩
      · refine ⟨hm _ _ (by omega) (by omega), ?_⟩
        simp only [gridQuad, List.mem_cons, List.mem_nil_iff, or_false]; omega
      · refine ⟨hm _ _ (by omega) (by omega), ?_⟩
        simp only [gridQuad, List.mem_cons, List.mem_nil_iff, or_false]; omega
    · rintro ⟨hf, hv⟩
      obtain ⟨i', j', hi', hj', rfl⟩ := (mem_gridQuads nu nv u f).mp hf
      simp only [gridQuad, List.mem_cons, List.mem_nil_iff, or_false, Nat.add_assoc] at hv
      rcases hv with h | h | h | h
      · obtain ⟨e1, e2⟩ := idx_inj (by omega) (by omega) h
        rw [← e1, ← e2]; simp
      · obtain ⟨e1, e2⟩ := idx_inj (by omega) (by omega) h
        have e3 : j' = j := by omega
        rw [← e1, e3]; simp
      · obtain ⟨e1, e2⟩ := idx_inj (by omega) (by omega) h
        have e3 : j' = j := by omega
        have e4 : i' = i := by omega
        rw [e3, e4]; simp
      · obtain ⟨e1, e2⟩ := idx_inj (by omega) (by omega) h
        have e4 : i' = i := by omega
        rw [e4, ← e2]; simp
  · obtain ⟨a1, a2, a3, a4⟩ := grid_umbrella_adj nv i j
    intro p hp
    simp only [cyclicPairs, List.tail_cons, List.cons_append, List.nil_append, List.zip_cons_cons, List.zip_nil_right,
      List.mem_cons, List.mem_nil_iff, or_false] at hp
    rcases hp with rfl | rfl | rfl | rfl
    · exact a1
    · exact a2
    · exact a3
    · exact a4

/-! ### torus, triangles: six triangles around every vertex -/

theorem torusTri_inj {M N i j i' j' : Nat} {k k' : Bool} (hM : 2 ≤ M) (h : torusTri M N i j k = torusTri M N i' j' k')
    (hi : i < M) (hj : j < N) (hi' : i' < M) (hj' : j' < N) : i = i' ∧ j = j' ∧ k = k' := by
  have a1 := succ_mod_cases M i hi
  have a3 := succ_mod_cases M i' hi'
  have b2 : (j + 1) % N < N := Nat.mod_lt _ (by omega)
  have b4 : (j' + 1) % N < N := Nat.mod_lt _ (by omega)
  cases k <;> cases k' <;>
    simp only [torusTri, if_true, Bool.false_eq_true, if_false, List.cons.injEq, and_true] at h <;>
    obtain ⟨h1, h2, h3⟩ := h
  · have c1 := idx_inj hj hj' h1
    exact ⟨c1.1, c1.2, rfl⟩
  · have c1 := idx_inj hj b4 h1
    have c2 := idx_inj b2 b4 h2
    omega
  · have c1 := idx_inj b2 hj' h1
    have c2 := idx_inj b2 b4 h2
    omega
  · have c1 := idx_inj b2 b4 h1
    have c3 := idx_inj hj hj' h3
    exact ⟨c1.1, c3.2, rfl⟩

/-- the six triangles around the vertex (i,j), with `P`, `Q` the cyclic predecessors of `i`, `j` -/
theorem torus_tri_umbrella_adj (M N i j P Q : Nat) (hP : (P + 1) % M = i) (hQ : (Q + 1) % N = j) :
    AdjacentAt (i * N + j) (torusTri M N i j false) (torusTri M N P j true) ∧
    AdjacentAt (i * N + j) (torusTri M N P j true) (torusTri M N P j false) ∧
    AdjacentAt (i * N + j) (torusTri M N P j false) (torusTri M N P Q true) ∧
    AdjacentAt (i * N + j) (torusTri M N P Q true) (torusTri M N i Q false) ∧
    AdjacentAt (i * N + j) (torusTri M N i Q false) (torusTri M N i Q true) ∧
    AdjacentAt (i * N + j) (torusTri M N i Q true) (torusTri M N i j false) := by
  refine ⟨?_, ?_, ?_, ?_, ?_, ?_⟩
  · refine ⟨(i * N + j, i * N + (j + 1) % N), ?_, ?_, ?_⟩ <;> simp [torusTri, sides_tri, hP]
  · refine ⟨(i * N + j, P * N + (j + 1) % N), ?_, ?_, ?_⟩ <;> simp [torusTri, sides_tri, hP]
  · refine ⟨(i * N + j, P * N + j), ?_, ?_, ?_⟩ <;> simp [torusTri, sides_tri, hP, hQ]
  · refine ⟨(i * N + j, i * N + Q), ?_, ?_, ?_⟩ <;> simp [torusTri, sides_tri, hP, hQ]
  · refine ⟨(i * N + j, (i + 1) % M * N + Q), ?_, ?_, ?_⟩ <;> simp [torusTri, sides_tri, hQ]
  · refine ⟨(i * N + j, (i + 1) % M * N + j), ?_, ?_, ?_⟩ <;> simp [torusTri, sides_tri, hQ]

/-- triangulated torus: the faces containing the vertex (i,j) are exactly six pairwise distinct triangles, forming ONE
closed fan around the vertex, for all M, N ≥ 2 -/
theorem torus_tris_umbrella (M N : Nat) (hM : 2 ≤ M) (hN : 2 ≤ N) (i j : Nat) (hi : i < M) (hj : j < N) :
    Umbrella (torusFaces M N true) (i * N + j)
      [torusTri M N i j false, torusTri M N (pm M i) j true, torusTri M N (pm M i) j false,
       torusTri M N (pm M i) (pm N j) true, torusTri M N i (pm N j) false, torusTri M N i (pm N j) true] := by
  have hP := pm_succ M i hi
  have hPl := pm_lt M i (by omega)
  have hQ := pm_succ N j hj
  have hQl := pm_lt N j (by omega)
  generalize pm M i = P at hP hPl ⊢
  generalize pm N j = Q at hQ hQl ⊢
  have hPi : P ≠ i := by have := succ_mod_cases M P hPl; omega
  have hQj : Q ≠ j := by have := succ_mod_cases N Q hQl; omega
  have hm : ∀ i j k, i < M → j < N → torusTri M N i j k ∈ torusFaces M N true :=
    fun i j k hi hj => (mem_torusTris M N _).mpr ⟨i, j, k, hi, hj, rfl⟩
  refine ⟨?_, ?_, ?_⟩
  · simp only [List.nodup_cons, List.mem_cons, or_false, not_or, List.nodup_nil, and_true,
      List.not_mem_nil, not_false_eq_true]
    refine ⟨⟨?_, ?_, ?_, ?_, ?_⟩, ⟨?_, ?_, ?_, ?_⟩, ⟨?_, ?_, ?_⟩, ⟨?_, ?_⟩, ?_⟩ <;>
      (intro h
       have c := torusTri_inj hM h (by assumption) (by assumption) (by assumption) (by assumption)
       have c3 := c.2.2
       first | omega | cases c3)
  · intro f
    constructor
    · intro hf
      simp only [List.mem_cons, List.mem_nil_iff, or_false] at hf
      rcases hf with rfl | rfl | rfl | rfl | rfl | rfl
      · exact ⟨hm i j _ hi hj, by simp [torusTri]⟩
      · exact ⟨hm P j _ hPl hj, by simp [torusTri, hP]⟩
      · exact ⟨hm P j _ hPl hj, by simp [torusTri, hP]⟩
      · exact ⟨hm P Q _ hPl hQl, by simp [torusTri, hP, hQ]⟩
      · exact ⟨hm i Q _ hi hQl, by simp [torusTri, hQ]⟩
      · exact ⟨hm i Q _ hi hQl, by simp [torusTri, hQ]⟩
    · rintro ⟨hf, hv⟩
      obtain ⟨i', j', k, hi', hj', rfl⟩ := (mem_torusTris M N f).mp hf
      have b1 : (i' + 1) % M < M := Nat.mod_lt _ (by omega)
      have b2 : (j' + 1) % N < N := Nat.mod_lt _ (by omega)
      cases k <;>
        simp only [torusTri, if_true, Bool.false_eq_true, if_false, List.mem_cons, List.mem_nil_iff, or_false] at hv <;>
        rcases hv with h | h | h
      · obtain ⟨e1, e2⟩ := idx_inj hj hj' h
        rw [← e1, ← e2]; simp
      · obtain ⟨e1, e2⟩ := idx_inj hj b2 h
        have e3 : j' = Q := succ_mod_inj N j' Q hj' hQl (by rw [hQ]; exact e2.symm)
        rw [← e1, e3]; simp
      · obtain ⟨e1, e2⟩ := idx_inj hj hj' h
        have e4 : i' = P := succ_mod_inj M i' P hi' hPl (by rw [hP]; exact e1.symm)
        rw [e4, ← e2]; simp
      · obtain ⟨e1, e2⟩ := idx_inj hj b2 h
        have e3 : j' = Q := succ_mod_inj N j' Q hj' hQl (by rw [hQ]; exact e2.symm)
        rw [← e1, e3]; simp
      · obtain ⟨e1, e2⟩ := idx_inj hj b2 h
        have e3 : j' = Q := succ_mod_inj N j' Q hj' hQl (by rw [hQ]; exact e2.symm)
        have e4 : i' = P := succ_mod_inj M i' P hi' hPl (by rw [hP]; exact e1.symm)
        rw [e3, e4]; simp
      · obtain ⟨e1, e2⟩ := idx_inj hj hj' h
        have e4 : i' = P := succ_mod_inj M i' P hi' hPl (by rw [hP]; exact e1.symm)
        rw [e4, ← e2]; simp
  · obtain ⟨a1, a2, a3, a4, a5, a6⟩ := torus_tri_umbrella_adj M N i j P Q hP hQ
    intro p hp
    simp only [cyclicPairs, List.tail_cons, List.cons_append, List.nil_append, List.zip_cons_cons, List.zip_nil_right,
      List.mem_cons, List.mem_nil_iff, or_false] at hp
    rcases hp with rfl | rfl | rfl | rfl | rfl | rfl
    · exact a1
    · exact a2
    · exact a3
    · exact a4
    · exact a5
    · exact a6

/-! ### uv sphere: the poles (fans of n_long triangles) -/

theorem sph_hab (a b : Nat) (ha : 1 ≤ a) : (a - 1) * b + b = a * b := by
  obtain ⟨a', rfl⟩ : ∃ a', a = a' + 1 := ⟨a - 1, by omega⟩
  rw [Nat.add_sub_cancel, Nat.succ_mul]

/-- north pole (vertex 0): the faces containing it are exactly the n_long triangles of the top fan, forming ONE closed
fan, for all n_lat ≥ 1 and all n_long -/
theorem sphere_uv_umbrella_north (a b : Nat) (ha : 1 ≤ a) :
    Umbrella (sphere_uvFaces a b) 0 ((List.range b).map (fun i => sphFace a b (.top i))) := by
  have hab := sph_hab a b ha
  refine ⟨?_, ?_, ?_⟩
  · rw [List.nodup_iff_pairwise_ne, List.pairwise_map]
    apply List.Pairwise.imp _ List.nodup_range
    intro x y hxy h
    simp only [sphFace, List.cons.injEq] at h
    omega
  · intro f
    simp only [List.mem_map, List.mem_range]
    constructor
    · rintro ⟨i, hi, rfl⟩
      exact ⟨(mem_sphereFaces a b ha _).mpr ⟨.top i, hi, rfl⟩, by simp [sphFace]⟩
    · rintro ⟨hf, hv⟩
      obtain ⟨s, hs, rfl⟩ := (mem_sphereFaces a b ha f).mp hf
      cases s with
      | top i => exact ⟨i, hs, rfl⟩
      | bot i =>
        simp only [sphFace, List.mem_cons, List.mem_nil_iff, or_false] at hv
        omega
      | quad j i =>
        simp only [sphFace, List.mem_cons, List.mem_nil_iff, or_false] at hv
        omega
  · intro p hp
    rw [mem_cyclicPairs_map_range] at hp
    obtain ⟨k, _, rfl⟩ := hp
    refine ⟨(0, (k + 1) % b + 1), ?_, ?_, ?_⟩ <;> simp [sphFace, sides_tri]

/-- south pole (vertex n_lat·n_long + 1): exactly the n_long triangles of the bottom fan, ONE closed fan -/
theorem sphere_uv_umbrella_south (a b : Nat) (ha : 1 ≤ a) :
    Umbrella (sphere_uvFaces a b) (a * b + 1) ((List.range b).map (fun i => sphFace a b (.bot i))) := by
  have hab := sph_hab a b ha
  refine ⟨?_, ?_, ?_⟩
  · rw [List.nodup_iff_pairwise_ne, List.pairwise_map]
    apply List.Pairwise.imp _ List.nodup_range
    intro x y hxy h
    simp only [sphFace, List.cons.injEq] at h
    omega
  · intro f
    simp only [List.mem_map, List.mem_range]
    constructor
    · rintro ⟨i, hi, rfl⟩
      exact ⟨(mem_sphereFaces a b ha _).mpr ⟨.bot i, hi, rfl⟩, by simp [sphFace]⟩
    · rintro ⟨hf, hv⟩
      obtain ⟨s, hs, rfl⟩ := (mem_sphereFaces a b ha f).mp hf
      cases s with
      | bot i => exact ⟨i, hs, rfl⟩
      | top i =>
        have hi : i < b := hs
        have b1 : (i + 1) % b < b := Nat.mod_lt _ (by omega)
        simp only [sphFace, List.mem_cons, List.mem_nil_iff, or_false] at hv
        omega
      | quad j i =>
        obtain ⟨hj, hi⟩ := hs
        have b1 : (i + 1) % b < b := Nat.mod_lt _ (by omega)
        have e0 : (j + 1) * b = j * b + b := Nat.succ_mul j b
        have m1 := Nat.mul_le_mul_right b (show j + 2 ≤ a by omega)
        have e2 : (j + 2) * b = j * b + 2 * b := Nat.add_mul j 2 b
        simp only [sphFace, List.mem_cons, List.mem_nil_iff, or_false] at hv
        omega
  · intro p hp
    rw [mem_cyclicPairs_map_range] at hp
    obtain ⟨k, _, rfl⟩ := hp
    refine ⟨((k + 1) % b + (a - 1) * b + 1, a * b + 1), ?_, ?_, ?_⟩ <;> simp [sphFace, sides_tri]

/-! ### uv sphere: the vertices of the rings -/

/-- face above row `j` at column `i` (the top fan for the first row) -/
def sphUp (j i : Nat) : SF := if j = 0 then .top i else .quad (j - 1) i
/-- face below row `j` at column `i` (the bottom fan for the last row) -/
def sphDn (a j i : Nat) : SF := if j + 1 = a then .bot i else .quad j i

theorem sphUp_cases (j : Nat) :
    (j = 0 ∧ ∀ x, sphUp j x = .top x) ∨ (∃ j', j = j' + 1 ∧ ∀ x, sphUp j x = .quad j' x) := by
  cases j with
  | zero => exact Or.inl ⟨rfl, fun x => by simp [sphUp]⟩
  | succ j' => exact Or.inr ⟨j', rfl, fun x => by simp [sphUp]⟩

theorem sphDn_cases (a j : Nat) (hj : j < a) :
    (a = j + 1 ∧ ∀ x, sphDn a j x = .bot x) ∨ (j + 1 < a ∧ ∀ x, sphDn a j x = .quad j x) := by
  by_cases h : j + 1 = a
  · exact Or.inl ⟨h.symm, fun x => by simp [sphDn, h]⟩
  · exact Or.inr ⟨by omega, fun x => by simp [sphDn, h]⟩

theorem sphUp_ok (a b j i : Nat) (hj : j < a) (hi : i < b) : (sphUp j i).ok a b := by
  rcases sphUp_cases j with ⟨_, e⟩ | ⟨j', rfl, e⟩ <;> rw [e]
  · exact hi
  · exact ⟨hj, hi⟩

theorem sphDn_ok (a b j i : Nat) (hj : j < a) (hi : i < b) : (sphDn a j i).ok a b := by
  rcases sphDn_cases a j hj with ⟨_, e⟩ | ⟨h, e⟩ <;> rw [e]
  · exact hi
  · exact ⟨h, hi⟩

theorem sphFace_inj (a b : Nat) (ha : 1 ≤ a) (hb : 3 ≤ b) (s s' : SF) (hs : s.ok a b) (hs' : s'.ok a b)
    (h : sphFace a b s = sphFace a b s') : s = s' := by
  have he : ∃ e, e ∈ sides (sphFace a b s) := by
    cases s <;> simp only [sphFace, sides_tri, sides_quad] <;> exact ⟨_, List.Mem.head _⟩
  obtain ⟨e, he⟩ := he
  exact sphere_oriented a b ha hb s s' hs hs' e he (h ▸ he)

local macro "sph_side" : tactic =>
  `(tactic| (simp only [sphFace, sides_tri, sides_quad, List.mem_cons, Prod.mk.injEq, List.mem_nil_iff, or_false,
      Nat.zero_mul, Nat.add_sub_cancel, or_true, true_or, and_self, and_true, true_and] <;> omega))

/-- around the vertex (row j, column i) of the uv sphere, `P` the cyclic predecessor of `i`: the vertex belongs to the
four faces below/above at columns `i` and `P`, and consecutive ones share a side ending at the vertex -/
theorem sph_ring_local (a b j i P : Nat) (hj : j < a) (hP : (P + 1) % b = i) :
    (j * b + 1 + i ∈ sphFace a b (sphDn a j i) ∧ j * b + 1 + i ∈ sphFace a b (sphUp j i) ∧
     j * b + 1 + i ∈ sphFace a b (sphUp j P) ∧ j * b + 1 + i ∈ sphFace a b (sphDn a j P)) ∧
    AdjacentAt (j * b + 1 + i) (sphFace a b (sphDn a j i)) (sphFace a b (sphUp j i)) ∧
    AdjacentAt (j * b + 1 + i) (sphFace a b (sphUp j i)) (sphFace a b (sphUp j P)) ∧
    AdjacentAt (j * b + 1 + i) (sphFace a b (sphUp j P)) (sphFace a b (sphDn a j P)) ∧
    AdjacentAt (j * b + 1 + i) (sphFace a b (sphDn a j P)) (sphFace a b (sphDn a j i)) := by
  have hab := sph_hab a b (by omega)
  refine ⟨⟨?_, ?_, ?_, ?_⟩, ?_, ?_, ?_, ?_⟩
  · rcases sphDn_cases a j hj with ⟨rfl, e⟩ | ⟨_, e⟩ <;> rw [e] <;> sph_side
  · rcases sphUp_cases j with ⟨rfl, e⟩ | ⟨j', rfl, e⟩ <;> rw [e] <;> sph_side
  · rcases sphUp_cases j with ⟨rfl, e⟩ | ⟨j', rfl, e⟩ <;> rw [e] <;> rw [← hP] <;> sph_side
  · rcases sphDn_cases a j hj with ⟨rfl, e⟩ | ⟨_, e⟩ <;> rw [e] <;> rw [← hP] <;> sph_side
  · refine ⟨(j * b + 1 + i, j * b + 1 + (i + 1) % b), ?_, ?_, Or.inl rfl⟩
    · rcases sphDn_cases a j hj with ⟨rfl, e⟩ | ⟨_, e⟩ <;> rw [e] <;> sph_side
    · rcases sphUp_cases j with ⟨rfl, e⟩ | ⟨j', rfl, e⟩ <;> rw [e] <;> sph_side
  · rcases sphUp_cases j with ⟨rfl, e⟩ | ⟨j', rfl, e⟩ <;> simp only [e]
    · refine ⟨(0 * b + 1 + i, 0), ?_, ?_, Or.inl rfl⟩
      · sph_side
      · rw [← hP]; sph_side
    · refine ⟨((j' + 1) * b + 1 + i, j' * b + 1 + i), ?_, ?_, Or.inl rfl⟩
      · sph_side
      · rw [← hP]; sph_side
  · refine ⟨(j * b + 1 + i, j * b + 1 + P), ?_, ?_, Or.inl rfl⟩
    · rcases sphUp_cases j with ⟨rfl, e⟩ | ⟨j', rfl, e⟩ <;> rw [e] <;> rw [← hP] <;> sph_side
    · rcases sphDn_cases a j hj with ⟨rfl, e⟩ | ⟨_, e⟩ <;> rw [e] <;> rw [← hP] <;> sph_side
  · rcases sphDn_cases a j hj with ⟨rfl, e⟩ | ⟨_, e⟩ <;> simp only [e]
    · refine ⟨(j * b + 1 + i, (j + 1) * b + 1), ?_, ?_, Or.inl rfl⟩
      · rw [← hP]; sph_side
      · sph_side
    · refine ⟨(j * b + 1 + i, (j + 1) * b + 1 + i), ?_, ?_, Or.inl rfl⟩
      · rw [← hP]; sph_side
      · sph_side

/-- uv sphere, vertex (row j, column i) of a ring, n_lat ≥ 1, n_long ≥ 3: the faces containing it are exactly four pairwise
distinct faces (below and above, at columns i and i−1 cyclically; fans at the first / last row), forming ONE closed fan -/
theorem sphere_uv_umbrella_ring (a b : Nat) (hb : 3 ≤ b) (j i : Nat) (hj : j < a) (hi : i < b) :
    Umbrella (sphere_uvFaces a b) (j * b + 1 + i)
      [sphFace a b (sphDn a j i), sphFace a b (sphUp j i), sphFace a b (sphUp j (pm b i)),
       sphFace a b (sphDn a j (pm b i))] := by
  have ha : 1 ≤ a := by omega
  have hab := sph_hab a b ha
  have hP := pm_succ b i hi
  have hPl := pm_lt b i (by omega)
  generalize pm b i = P at hP hPl ⊢
  have hPi : P ≠ i := by have := succ_mod_cases b P hPl; omega
  obtain ⟨⟨m1, m2, m3, m4⟩, a1, a2, a3, a4⟩ := sph_ring_local a b j i P hj hP
  have o1 := sphDn_ok a b j i hj hi
  have o2 := sphUp_ok a b j i hj hi
  have o3 := sphUp_ok a b j P hj hPl
  have o4 := sphDn_ok a b j P hj hPl
  have hm : ∀ s : SF, s.ok a b → sphFace a b s ∈ sphere_uvFaces a b :=
    fun s hs => (mem_sphereFaces a b ha _).mpr ⟨s, hs, rfl⟩
  refine ⟨?_, ?_, ?_⟩
  · simp only [List.nodup_cons, List.mem_cons, or_false, not_or, List.nodup_nil, and_true,
      List.not_mem_nil, not_false_eq_true]
    refine ⟨⟨?_, ?_, ?_⟩, ⟨?_, ?_⟩, ?_⟩ <;>
      (intro h
       have c := sphFace_inj a b ha hb _ _ (by assumption) (by assumption) h
       revert c
       rcases sphUp_cases j with ⟨rfl, eu⟩ | ⟨j', rfl, eu⟩ <;> rcases sphDn_cases a _ hj with ⟨_, ed⟩ | ⟨_, ed⟩ <;>
         simp only [eu, ed, SF.top.injEq, SF.bot.injEq, SF.quad.injEq, reduceCtorEq, not_false_eq_true, imp_false] <;>
         omega)
  · intro f
    constructor
    · intro hf
      simp only [List.mem_cons, List.mem_nil_iff, or_false] at hf
      rcases hf with rfl | rfl | rfl | rfl
      · exact ⟨hm _ o1, m1⟩
      · exact ⟨hm _ o2, m2⟩
      · exact ⟨hm _ o3, m3⟩
      · exact ⟨hm _ o4, m4⟩
    · rintro ⟨hf, hv⟩
      obtain ⟨s, hs, rfl⟩ := (mem_sphereFaces a b ha f).mp hf
      have key : s = sphDn a j i ∨ s = sphUp j i ∨ s = sphUp j P ∨ s = sphDn a j P := by
        cases s with
        | top i' =>
          have hi' : i' < b := hs
          have b1 : (i' + 1) % b < b := Nat.mod_lt _ (by omega)
          have t := row_tri b j 0
          simp only [Nat.zero_mul, Nat.zero_add] at t
          simp only [sphFace, List.mem_cons, List.mem_nil_iff, or_false] at hv
          have hj0 : j = 0 := by omega
          subst hj0
          have e : i' = i ∨ (i' + 1) % b = i := by omega
          rcases e with e | e
          · right; left; simp [sphUp, e]
          · right; right; left
            have e3 : i' = P := succ_mod_inj b i' P hi' hPl (by rw [hP]; exact e)
            simp [sphUp, e3]
        | bot i' =>
          have hi' : i' < b := hs
          have b1 : (i' + 1) % b < b := Nat.mod_lt _ (by omega)
          have t := row_tri b j (a - 1)
          have m := Nat.mul_le_mul_right b (show j ≤ a - 1 by omega)
          simp only [sphFace, List.mem_cons, List.mem_nil_iff, or_false] at hv
          have hj1 : j + 1 = a := by omega
          have e : i' = i ∨ (i' + 1) % b = i := by omega
          rcases e with e | e
          · left; simp [sphDn, hj1, e]
          · right; right; right
            have e3 : i' = P := succ_mod_inj b i' P hi' hPl (by rw [hP]; exact e)
            simp [sphDn, hj1, e3]
        | quad j' i' =>
          obtain ⟨hj', hi'⟩ := hs
          have b1 : (i' + 1) % b < b := Nat.mod_lt _ (by omega)
          have t1 := row_tri b j j'
          have t2 := row_tri b j (j' + 1)
          have e0 : (j' + 1) * b = j' * b + b := Nat.succ_mul j' b
          simp only [sphFace, List.mem_cons, List.mem_nil_iff, or_false] at hv
          have e : (j = j' ∨ j = j' + 1) ∧ (i' = i ∨ (i' + 1) % b = i) := by omega
          obtain ⟨ej, ei⟩ := e
          have e3 : (i' + 1) % b = i → i' = P := fun e => succ_mod_inj b i' P hi' hPl (by rw [hP]; exact e)
          rcases ej with ej | ej <;> rcases ei with ei | ei
          · left
            have : ¬ (j' + 1 = a) := by omega
            simp [sphDn, ej, ei, this]
          · right; right; right
            have : ¬ (j' + 1 = a) := by omega
            simp [sphDn, ej, e3 ei, this]
          · right; left; simp [sphUp, ej, ei]
          · right; right; left; simp [sphUp, ej, e3 ei]
      rcases key with rfl | rfl | rfl | rfl <;> simp
  · intro p hp
    rw [cyclicPairs_four] at hp
    simp only [List.mem_cons, List.mem_nil_iff, or_false] at hp
    rcases hp with rfl | rfl | rfl | rfl
    · exact a1
    · exact a2
    · exact a3
    · exact a4

/-! ## non-vacuity -/

/-- the definitions have teeth: two triangles without a common edge are NOT one component -/
example : ¬ FaceConnected [[0, 1, 2], [3, 4, 5]] := by
  intro h
  have key : ∀ g, Reach [[0, 1, 2], [3, 4, 5]] [0, 1, 2] g → g = [0, 1, 2] := by
    intro g hg
    induction hg with
    | refl => rfl
    | step _ hm ha ih =>
      subst ih
      simp only [List.mem_cons, List.mem_nil_iff, or_false] at hm
      rcases hm with rfl | rfl
      · rfl
      · exfalso; revert ha; unfold Adjacent; decide
  have := key _ (h [0, 1, 2] (by simp) [3, 4, 5] (by simp))
  cases this

/-- torus(3, 4): quad (0,0) = [0,1,5,4] and quad (2,2) = [10,11,3,2] do not share an edge, but are joined by a chain -/
example : ¬ Adjacent [0, 1, 5, 4] [10, 11, 3, 2] := by unfold Adjacent; decide

example : Reach (torusFaces 3 4 false) [0, 1, 5, 4] [10, 11, 3, 2] :=
  torus_quads_connected 3 4 (by omega) (by omega) _ (by decide) _ (by decide)

example : Reach (torusFaces 3 4 true) [0, 1, 4] [11, 3, 2] :=
  torus_tris_connected 3 4 (by omega) (by omega) _ (by decide) _ (by decide)

example : Reach (unit_gridFaces 3 4 false true) [0, 1, 5, 4] [6, 7, 11, 10] :=
  unit_grid_quads_connected 3 4 true _ (by decide) _ (by decide)

/-- sphere_uv(3, 4): from the first top triangle to a bottom triangle (apex 13) -/
example : Reach (sphere_uvFaces 3 4) [1, 0, 2] [13, 12, 9] :=
  sphere_uv_connected 3 4 (by omega) (by omega) _ (by decide) _ (by decide)

/-- torus(3, 4), vertex 0: the four quads around it -/
example : Umbrella (torusFaces 3 4 false) 0 [[0, 1, 5, 4], [8, 9, 1, 0], [11, 8, 0, 3], [3, 0, 4, 7]] :=
  torus_quads_umbrella 3 4 (by omega) (by omega) 0 0 (by omega) (by omega)

/-- sphere_uv(3, 4): the north pole fan, and the four faces around vertex 1 (row 0, column 0) -/
example : Umbrella (sphere_uvFaces 3 4) 0 [[1, 0, 2], [2, 0, 3], [3, 0, 4], [4, 0, 1]] :=
  sphere_uv_umbrella_north 3 4 (by omega)

example : Umbrella (sphere_uvFaces 3 4) 1 [[1, 2, 6, 5], [1, 0, 2], [4, 0, 1], [4, 1, 5, 8]] :=
  sphere_uv_umbrella_ring 3 4 (by omega) 0 0 (by omega) (by omega)

end Mouette.Props.C14
