import Mouette.Model.Border
import Mouette.Model.Features
import Mouette.Generated.C15Thresholds
import Mouette.Lemmas.Features
import Mouette.Lemmas.Surface
import Mouette.Lemmas.Angles
/-!
# C15 — border and feature extraction are exact

`Model/Features.lean` mirrors `FeatureEdgeDetector.run` (three passes writing into the `feature`
attribute, then the derived containers); `Model/Border.lean` mirrors the border walk and the polyline
re-indexing.  The thresholds are the ones translated from `features.py` on every run
(`Generated/C15Thresholds.lean`).

`border_cycle_correct` (closed simple walk along border edges covering the whole loop, from every boundary
vertex; all cycles partition the boundary vertices) is proved in `Props/C15Border.lean` (round 2);
`walk_closed_lengths` below is the hypothesis-free partial (as many edges as vertices).
-/
namespace Mouette.Props.C15
open Mouette.Features Mouette.Border Mouette.Surface

/-- the literals read from `features.py` are 0.5 and 0.2, so the two tests are `dot < 1/2`
(normals more than 60° apart: `cos 60° = 1/2`) and `dot < 1 - 1/5 = 4/5` (≈ 36.87°) -/
theorem thresholds_bridge :
    Mouette.Generated.C15.thresholds.sharp = 1/2 ∧ 1 - Mouette.Generated.C15.thresholds.hardDelta = 4/5 := by
  decide +kernel

/-- for unit normals the square-root-free test of the model is the comparison `cos < t` -/
theorem cosLt_unit_iff (d t : Rat) (ht : 0 ≤ t) : cosLt d 1 t = true ↔ d < t := cosLt_unit d t ht

/-- the verdict only depends on the direction of the two normals (positive rescaling is irrelevant),
which is what "angle between the normals" means -/
theorem cosLt_scale_invariant (d q t a b : Rat) (ha : 0 < a) (hb : 0 < b) :
    cosLt (a * b * d) (a * a * (b * b) * q) t = cosLt d q t := cosLt_scale d q t a b ha hb

/-- thresholds ↔ angles (ℝ, Mathlib): for an angle `θ ∈ [0,π]` between two normals, `cos θ < 1/2` says
exactly "more than 60° (π/3) apart" … -/
theorem sharp_threshold_is_sixty_degrees (θ : ℝ) (h0 : 0 ≤ θ) (hπ : θ ≤ Real.pi) :
    Real.pi / 3 < θ ↔ Real.cos θ < 1 / 2 := Mouette.Angles.angle_gt_sixty_iff θ h0 hπ

/-- … and `cos θ < 4/5` says "more than `arccos (4/5)` (≈ 36.87°) apart".
(The numerical enclosure 36.8° < arccos 0.8 < 36.9° of DESIGN §5 is not proved.) -/
theorem hard_threshold_is_arccos (θ : ℝ) (h0 : 0 ≤ θ) (hπ : θ ≤ Real.pi) :
    Real.arccos (4 / 5) < θ ↔ Real.cos θ < 4 / 5 :=
  Mouette.Angles.angle_gt_arccos_iff (4 / 5) θ (by norm_num) (by norm_num) h0 hπ

/-- **keys of the `feature` attribute after the three passes**, any thresholds, any number of edges -/
theorem flagged_iff (th : Thresholds) (ob : Bool) (es : List EdgeInfo) (e : Nat) :
    e ∈ flagged th ob es ↔ ∃ x, es[e]? = some x ∧
      (x.border = true ∨
       (ob = false ∧ interior x = true ∧ cosLt x.d x.q th.sharp = true) ∨
       (ob = false ∧ x.hard = true ∧ interior x = true ∧ cosLt x.d x.q (1 - th.hardDelta) = true ∧ x.border = false)) := by
  unfold flagged borderPass sharpPass hardPass
  rw [mem_pass (fun ei => ei.1.border)]
  cases ob with
  | true =>
    simp only [if_true, List.not_mem_nil, false_or]
    constructor
    · rintro ⟨x, hx, hb⟩; exact ⟨x, hx, Or.inl hb⟩
    · rintro ⟨x, hx, hb | ⟨h, _⟩ | ⟨h, _⟩⟩
      · exact ⟨x, hx, hb⟩
      · cases h
      · cases h
  | false =>
    simp only [Bool.false_eq_true, if_false]
    rw [mem_pass (fun ei => interior ei.1 && cosLt ei.1.d ei.1.q th.sharp),
      mem_pass (fun ei => ei.1.hard && interior ei.1 && cosLt ei.1.d ei.1.q (1 - th.hardDelta) && !ei.1.border)]
    simp only [List.not_mem_nil, false_or, Bool.and_eq_true, Bool.not_eq_true']
    constructor
    · rintro ((⟨x, hx, ⟨⟨hh, hi⟩, hc⟩, hb⟩ | ⟨x, hx, hi, hc⟩) | ⟨x, hx, hb⟩)
      · exact ⟨x, hx, Or.inr (Or.inr ⟨trivial, hh, hi, hc, hb⟩)⟩
      · exact ⟨x, hx, Or.inr (Or.inl ⟨trivial, hi, hc⟩)⟩
      · exact ⟨x, hx, Or.inl hb⟩
    · rintro ⟨x, hx, hb | ⟨_, hi, hc⟩ | ⟨_, hh, hi, hc, hb⟩⟩
      · exact Or.inr ⟨x, hx, hb⟩
      · exact Or.inl (Or.inr ⟨x, hx, hi, hc⟩)
      · exact Or.inl (Or.inl ⟨x, hx, ⟨⟨hh, hi⟩, hc⟩, hb⟩)

/-- **`feature_edges` is exact** (thresholds of the current source): an edge is a feature edge iff it is
a border edge, or (unless `only_border`) an interior edge whose normals satisfy `cos < 1/2` (more than
60° apart), or a declared hard interior edge with `cos < 4/5` (more than ≈ 36.87° apart). -/
theorem feature_set_exact (ob : Bool) (es : List EdgeInfo) (e : Nat) :
    e ∈ featureEdges Mouette.Generated.C15.thresholds ob es ↔ ∃ x, es[e]? = some x ∧
      (x.border = true ∨
       (ob = false ∧ interior x = true ∧ cosLt x.d x.q (1/2) = true) ∨
       (ob = false ∧ x.hard = true ∧ interior x = true ∧ cosLt x.d x.q (4/5) = true ∧ x.border = false)) := by
  unfold featureEdges isFeature
  rw [List.mem_filter, List.mem_range, List.contains_iff_mem, flagged_iff, thresholds_bridge.1, thresholds_bridge.2]
  constructor
  · rintro ⟨_, h⟩; exact h
  · rintro ⟨x, hx, h⟩
    refine ⟨?_, x, hx, h⟩
    rcases Nat.lt_or_ge e es.length with h1 | h1
    · exact h1
    · rw [List.getElem?_eq_none h1] at hx; cases hx

/-- with `only_border` the feature edges are exactly the border edges -/
theorem feature_set_only_border (es : List EdgeInfo) (e : Nat) :
    e ∈ featureEdges Mouette.Generated.C15.thresholds true es ↔ ∃ x, es[e]? = some x ∧ x.border = true := by
  rw [feature_set_exact]
  constructor
  · rintro ⟨x, hx, hb | ⟨h, _⟩ | ⟨h, _⟩⟩
    · exact ⟨x, hx, hb⟩
    · cases h
    · cases h
  · rintro ⟨x, hx, hb⟩; exact ⟨x, hx, Or.inl hb⟩

/-- `feature_vertices` = end points of the feature edges -/
theorem feature_vertices_spec (nv : Nat) (es : List EdgeInfo) (fe : List Nat) (v : Nat) :
    v ∈ featureVertices nv es fe ↔ v < nv ∧ ∃ e ∈ fe, ∃ x, es[e]? = some x ∧ (x.a = v ∨ x.b = v) := by
  unfold featureVertices incident
  rw [List.mem_filter, List.mem_range, List.any_eq_true]
  constructor
  · rintro ⟨hv, e, he, h⟩
    refine ⟨hv, e, he, ?_⟩
    cases hx : es[e]? with
    | none => rw [hx] at h; cases h
    | some x => rw [hx] at h; exact ⟨x, rfl, by simpa using h⟩
  · rintro ⟨hv, e, he, x, hx, h⟩
    refine ⟨hv, e, he, ?_⟩
    rw [hx]; simpa using h

/-- `feature_degrees[v]` = number of feature edges incident to `v` (each end point of each feature
edge counted once), for every vertex, any number of edges -/
theorem feature_degree_spec (es : List EdgeInfo) (fe : List Nat) (v : Nat) :
    degreeOf (degrees es fe) v = (fe.map (inc es v)).sum := by
  unfold degrees
  rw [degreeOf_foldl]
  simp [degreeOf]

/-- `local_feat_edges[v]` = the positions, in `vertex_to_edges(v)`, of the feature edges -/
theorem local_feat_spec (fe v2e : List Nat) (i : Nat) :
    i ∈ localFeat fe v2e ↔ ∃ e, v2e[i]? = some e ∧ e ∈ fe := by
  unfold localFeat
  rw [Mouette.Surface.mem_zipIdx_filter]
  constructor
  · rintro ⟨e, he, hc⟩; exact ⟨e, he, List.contains_iff_mem.mp hc⟩
  · rintro ⟨e, he, hc⟩; exact ⟨e, he, List.contains_iff_mem.mpr hc⟩

/-- `map_v2v` of `extract_boundary_of_surface`: the `i`-th vertex met gets index `i` … -/
theorem indexMap_lookup (vs : List Nat) (hnd : vs.Nodup) (v i : Nat) :
    lookupMap (indexMap vs) v = some i ↔ vs[i]? = some v :=
  find_zipIdx_reverse_nat hnd v i

/-- … so the map is injective … -/
theorem indexMap_injective (vs : List Nat) (hnd : vs.Nodup) (a b i : Nat)
    (ha : lookupMap (indexMap vs) a = some i) (hb : lookupMap (indexMap vs) b = some i) : a = b := by
  have h1 := (indexMap_lookup vs hnd a i).mp ha
  have h2 := (indexMap_lookup vs hnd b i).mp hb
  rw [h1] at h2; exact Option.some.inj h2

/-- … and a polyline edge `keyify(map[a], map[b])` mapped back through the inverse map is the surface
edge `keyify(a, b)` it came from -/
theorem boundary_index_map_roundtrip (vs : List Nat) (hnd : vs.Nodup) (a b i j : Nat)
    (ha : lookupMap (indexMap vs) a = some i) (hb : lookupMap (indexMap vs) b = some j) :
    invLookup (indexMap vs) i = some a ∧ invLookup (indexMap vs) j = some b :=
  ⟨invLookup_indexMap vs i a ((indexMap_lookup vs hnd a i).mp ha),
   invLookup_indexMap vs j b ((indexMap_lookup vs hnd b j).mp hb)⟩

/-- the walk returns as many edges as vertices (it is closed by the final edge), whatever the mesh,
the starting point and the number of steps (`border_cycle_correct` partial) -/
theorem walk_closed_lengths (S : Surf) (bv : List Nat) (start : Nat) :
    ∀ (fuel p1 p2 : Nat) (vb : List Nat) (eb : List (Option Nat)), eb.length + 1 = vb.length →
      (walk S bv start fuel p1 p2 vb eb).2.length = (walk S bv start fuel p1 p2 vb eb).1.length := by
  intro fuel
  induction fuel with
  | zero => intro p1 p2 vb eb h; simp [walk, h]
  | succ n ih =>
    intro p1 p2 vb eb h
    unfold walk
    by_cases hp : (p2 == start) = true
    · rw [if_pos hp]; simp [h]
    · rw [if_neg hp]
      exact ih _ _ _ _ (by simp [h])

/-! non-vacuity -/
example : cosLt (1/2) 1 (1/2) = false ∧ cosLt (499/1000) 1 (1/2) = true ∧ cosLt (4/5) 1 (4/5) = false := by
  decide +kernel
example : featureEdges Mouette.Generated.C15.thresholds false
    [{ a := 0, b := 1, t1 := some 0, t2 := none, border := true, hard := false, d := 0, q := 1 },
     { a := 1, b := 2, t1 := some 0, t2 := some 1, border := false, hard := true, d := 3/4, q := 1 },
     { a := 2, b := 0, t1 := some 0, t2 := some 1, border := false, hard := false, d := 3/4, q := 1 }] = [0, 1] := by
  decide +kernel
example : roundHalfEven (5/2) = 2 ∧ roundHalfEven (7/2) = 4 ∧ cornerOf (1/3) = 1 ∧ cornerOf (9/4) = 2 := by
  decide +kernel

end Mouette.Props.C15
