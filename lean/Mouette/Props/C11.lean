import Mouette.Lemmas.KDTree
/-
C11 — k-d tree queries are exact and construction always terminates.

All theorems are about `Mouette/Model/KDTree.lean` (the REPAIRED rules: median-rank fallback of the split,
pruning only when k candidates are held) and hold for every point function `P`, dimension, leaf size ≥ 1,
fuel, cell and EVERY pivot function `piv` (every build strategy and every random choice).
`…Original…` theorems refute the rules of the pinned tree.
-/
namespace Mouette.Props.C11
open Mouette.KD Mouette.AABB Mouette.AABB.EQ

/-- **Termination.** With the repaired split the construction of a cell of `n` indices needs at most `n+1`
units of fuel (depth ≤ n), whatever the pivots: it always returns a tree. -/
theorem build_terminates (P : Nat → Pt) (dim leafSize : Nat) (piv : Nat → List Rat → Rat) (hleaf : 1 ≤ leafSize) :
    ∀ (fuel path axis : Nat) (idx : List Nat) (box : Box), idx.length < fuel →
      (build P dim leafSize piv fuel path axis idx box).isSome = true
  | 0, _, _, _, _, h => by omega
  | fuel + 1, path, axis, idx, box, h => by
    unfold build buildWith
    split
    · rfl
    · rename_i hbig
      have ok := splitIdx_ok P axis (piv path (idx.map (fun i => coord (P i) axis))) idx (by omega)
      have h1 := build_terminates P dim leafSize piv hleaf fuel (2 * path) ((axis + 1) % dim) _
        (boxLess box axis (splitIdx P axis (piv path (idx.map (fun i => coord (P i) axis))) idx).1)
        (Nat.lt_of_lt_of_le ok.lt_left (by omega))
      have h2 := build_terminates P dim leafSize piv hleaf fuel (2 * path + 1) ((axis + 1) % dim) _
        (boxMore box axis (splitIdx P axis (piv path (idx.map (fun i => coord (P i) axis))) idx).1)
        (Nat.lt_of_lt_of_le ok.lt_right (by omega))
      unfold build at h1 h2
      simp only
      obtain ⟨l, hl⟩ := Option.isSome_iff_exists.mp h1
      obtain ⟨r, hr⟩ := Option.isSome_iff_exists.mp h2
      rw [hl, hr]; rfl

/-- `KDTree(points)` returns: fuel `n+1` suffices for `n` points. -/
theorem buildRoot_terminates (P : Nat → Pt) (n dim leafSize : Nat) (piv : Nat → List Rat → Rat) (hleaf : 1 ≤ leafSize) :
    (buildRoot P n dim leafSize piv (n + 1)).isSome = true := by
  unfold buildRoot
  exact build_terminates P dim leafSize piv hleaf (n + 1) 1 0 (List.range n) _ (by simp)

/-- **Leaf partition.** If the construction returns `t`, the leaves of `t`, concatenated, are a permutation of
the indices of the cell (every index is stored in exactly one leaf), and every leaf holds at most `leafSize`
indices. -/
theorem build_partition (P : Nat → Pt) (dim leafSize : Nat) (piv : Nat → List Rat → Rat) (hleaf : 1 ≤ leafSize) :
    ∀ (fuel path axis : Nat) (idx : List Nat) (box : Box) (t : Tree), 
      build P dim leafSize piv fuel path axis idx box = some t →
      t.indices.Perm idx ∧ t.indices = t.leaves.flatMap (fun l => l.1) ∧ ∀ l ∈ t.leaves, l.1.length ≤ leafSize
  | 0, _, _, _, _, _, h => by simp [build, buildWith] at h
  | fuel + 1, path, axis, idx, box, t, h => by
    unfold build buildWith at h
    split at h
    · rename_i hsmall
      cases h
      exact ⟨List.Perm.refl _, by simp [Tree.indices, Tree.leaves], by simpa [Tree.leaves] using hsmall⟩
    · rename_i hbig
      have ok := splitIdx_ok P axis (piv path (idx.map (fun i => coord (P i) axis))) idx (by omega)
      simp only at h
      split at h
      · rename_i l r hl hr
        cases h
        have ihl := build_partition P dim leafSize piv hleaf fuel _ _ _ _ l hl
        have ihr := build_partition P dim leafSize piv hleaf fuel _ _ _ _ r hr
        refine ⟨?_, indices_eq_leaves _, ?_⟩
        · simp only [Tree.indices]
          exact (ihl.1.append ihr.1).trans ok.perm
        · intro lf hlf
          simp only [Tree.leaves, List.mem_append] at hlf
          rcases hlf with hlf | hlf
          · exact ihl.2.2 lf hlf
          · exact ihr.2.2 lf hlf
      · cases h

/-- `KDTree(points)`: every input index `0..n-1` is stored in exactly one leaf. -/
theorem buildRoot_partition (P : Nat → Pt) (n dim leafSize : Nat) (piv : Nat → List Rat → Rat) (hleaf : 1 ≤ leafSize) (fuel : Nat) (t : Tree)
    (h : buildRoot P n dim leafSize piv fuel = some t) :
    t.indices.Perm (List.range n) ∧ t.indices.Nodup ∧ (t.leaves.flatMap (fun l => l.1)).Perm (List.range n) := by
  have := build_partition P dim leafSize piv hleaf fuel 1 0 (List.range n) _ t h
  refine ⟨this.1, this.1.nodup_iff.mpr List.nodup_range, ?_⟩
  rw [← this.2.1]; exact this.1

/-- **Boxes.** If every index of the cell lies in the cell's closed box, then in the returned tree every index
lies in the closed box of every cell above it (the children's boxes are the parent's cut at the split value:
left `≤ split`, right `≥ split`). -/
theorem build_boxes (P : Nat → Pt) (dim leafSize : Nat) (piv : Nat → List Rat → Rat) (hleaf : 1 ≤ leafSize) :
    ∀ (fuel path axis : Nat) (idx : List Nat) (box : Box) (t : Tree),
      build P dim leafSize piv fuel path axis idx box = some t →
      (∀ i ∈ idx, Box.insideClosed box.lo box.hi (P i) = true) → boxesOk P t = true
  | 0, _, _, _, _, _, h, _ => by simp [build, buildWith] at h
  | fuel + 1, path, axis, idx, box, t, h, hin => by
    have hpart := build_partition P dim leafSize piv hleaf (fuel + 1) path axis idx box t h
    unfold build buildWith at h
    split at h
    · cases h
      simpa [boxesOk, List.all_eq_true] using hin
    · rename_i hbig
      have ok := splitIdx_ok P axis (piv path (idx.map (fun i => coord (P i) axis))) idx (by omega)
      simp only at h
      split at h
      · rename_i l r hl hr
        cases h
        have hsub : ∀ i, i ∈ (splitIdx P axis (piv path (idx.map (fun i => coord (P i) axis))) idx).2.1 ++
            (splitIdx P axis (piv path (idx.map (fun i => coord (P i) axis))) idx).2.2 → i ∈ idx :=
          fun i hi => ok.perm.mem_iff.mp hi
        have ihl := build_boxes P dim leafSize piv hleaf fuel _ _ _ _ l hl (by
          intro i hi
          exact insideClosed_set_hi (hin i (hsub i (List.mem_append_left _ hi))) (ok.less i hi))
        have ihr := build_boxes P dim leafSize piv hleaf fuel _ _ _ _ r hr (by
          intro i hi
          exact insideClosed_set_lo (hin i (hsub i (List.mem_append_right _ hi))) (ok.more i hi))
        simp only [boxesOk, Bool.and_eq_true, List.all_eq_true]
        refine ⟨⟨?_, ihl⟩, ihr⟩
        intro i hi
        exact hin i (hpart.1.mem_iff.mp (by simpa [Tree.indices] using hi))
      · cases h

theorem insideClosed_infinite : ∀ (p : Pt), Box.insideClosed (List.replicate p.length ninf) (List.replicate p.length pinf) p = true
  | [] => by simp [Box.insideClosed]
  | a :: ps => by
    simp only [List.length_cons, List.replicate_succ, Box.insideClosed, Bool.and_eq_true, decide_eq_true_eq]
    exact ⟨⟨by simp [leB], by simp [leB]⟩, insideClosed_infinite ps⟩

/-- `KDTree(points)` for points of dimension `dim`: the tree's boxes are sound. -/
theorem buildRoot_boxes (P : Nat → Pt) (n dim leafSize : Nat) (piv : Nat → List Rat → Rat) (hleaf : 1 ≤ leafSize)
    (hdim : ∀ i < n, (P i).length = dim) (fuel : Nat) (t : Tree)
    (h : buildRoot P n dim leafSize piv fuel = some t) : boxesOk P t = true := by
  refine build_boxes P dim leafSize piv hleaf fuel 1 0 (List.range n) _ t h ?_
  intro i hi
  have := insideClosed_infinite (P i)
  rw [hdim i (List.mem_range.mp hi)] at this
  exact this

/-- **Radius query is exact** on every tree with sound boxes: the answer holds exactly the stored indices within
squared distance `r2`, each at most as often as it is stored. -/
theorem radius_exact (P : Nat → Pt) (q : Pt) (r2 : Rat) (t : Tree) (hb : boxesOk P t = true) :
    (∀ i, i ∈ radius P q r2 t ↔ i ∈ t.indices ∧ sqDist (P i) q ≤ r2) ∧
    (t.indices.Nodup → (radius P q r2 t).Nodup) :=
  ⟨fun _ => mem_radius hb, fun h => List.Nodup.sublist (radius_sublist t) h⟩

/-- **k-NN query is exact** (repaired pruning rule) on every tree with sound boxes and distinct stored indices:
the answer is a list of (squared distance, index) pairs that
* is sorted by non-decreasing squared distance,
* holds exactly `min k n` entries (`n` = number of stored indices),
* holds distinct stored indices, each with its true squared distance to `q`,
* and every stored index that is NOT returned is at least as far from `q` as every returned one
  (so the returned distances are the `k` smallest). -/
theorem knn_exact (P : Nat → Pt) (q : Pt) (k : Nat) (t : Tree) (hb : boxesOk P t = true) (hnd : t.indices.Nodup) :
    let res := knn P t q k
    res.Pairwise (fun a b => a.1 ≤ b.1) ∧
    res.length = min k t.indices.length ∧
    (res.map Prod.snd).Nodup ∧
    (∀ c ∈ res, c.2 ∈ t.indices ∧ c.1 = sqDist (P c.2) q) ∧
    (∀ j ∈ t.indices, j ∉ res.map Prod.snd → ∀ c ∈ res, c.1 ≤ sqDist (P j) q) := by
  intro res
  have inv0 := Inv.init (fun i => sqDist (P i) q) k
  have inv := (visit_inv (P := P) (q := q) (k := k) (t := t) hb hnd (by simp) inv0).congr
    (seen' := fun i => i ∈ t.indices) (fun j => by simp)
  change Inv _ k _ res at inv
  have hsub : ∀ i ∈ res.map Prod.snd, i ∈ t.indices := by
    intro i hi
    obtain ⟨c, hc, rfl⟩ := List.mem_map.mp hi
    exact (inv.val c hc).1
  have hle : (res.map Prod.snd).length ≤ t.indices.length :=
    (List.subperm_of_subset inv.nodup hsub).length_le
  refine ⟨inv.sorted, ?_, inv.nodup, fun c hc => inv.val c hc, ?_⟩
  · rw [List.length_map] at hle
    by_cases hk : res.length = k
    · omega
    · -- fewer than k held: nothing was dominated, so every stored index is held
      have hall : ∀ j ∈ t.indices, j ∈ res.map Prod.snd := by
        intro j hj
        rcases inv.dom j hj with h | h
        · exact h
        · exact absurd h.1 hk
      have hge : t.indices.length ≤ (res.map Prod.snd).length :=
        (List.subperm_of_subset hnd hall).length_le
      rw [List.length_map] at hge
      have := inv.len
      omega
  · intro j hj hnot c hc
    rcases inv.dom j hj with h | h
    · exact absurd h hnot
    · exact h.2 c hc

/-- **The returned distances are the k smallest**: the squared distances of the answer, in answer order, are the first
`k` entries of the sorted list of all squared distances to the query point. -/
theorem knn_distances_k_smallest (P : Nat → Pt) (q : Pt) (k : Nat) (t : Tree) (hb : boxesOk P t = true) (hnd : t.indices.Nodup) :
    (knn P t q k).map Prod.fst =
      ((t.indices.map (fun i => sqDist (P i) q)).mergeSort (fun a b => decide (a ≤ b))).take k := by
  have h := knn_exact P q k t hb hnd
  simp only at h
  obtain ⟨hsorted, hlen, hnodup, hval, hdom⟩ := h
  generalize knn P t q k = res at *
  let d := fun i => sqDist (P i) q
  let inR : Nat → Bool := fun i => decide (i ∈ res.map Prod.snd)
  let rest := t.indices.filter (fun i => !inR i)
  -- distances of the answer = d mapped over its indices
  have hRd : res.map Prod.fst = (res.map Prod.snd).map d := by
    rw [List.map_map]
    apply List.map_congr_left
    intro c hc; exact (hval c hc).2
  -- indices split into answer indices and the rest
  have hperm : (res.map Prod.snd ++ rest).Perm t.indices := by
    have h1 := List.filter_append_perm inR t.indices
    have h2 : (t.indices.filter inR).Perm (res.map Prod.snd) := by
      apply (List.perm_ext_iff_of_nodup (List.Nodup.sublist List.filter_sublist hnd) hnodup).mpr
      intro a
      simp only [List.mem_filter, inR, decide_eq_true_eq]
      constructor
      · exact fun h => h.2
      · intro ha
        obtain ⟨c, hc, rfl⟩ := List.mem_map.mp ha
        exact ⟨(hval c hc).1, ha⟩
    exact (h2.symm.append_right _).trans h1
  have hpermD : (res.map Prod.fst ++ (rest.map d).mergeSort (fun a b => decide (a ≤ b))).Perm (t.indices.map d) := by
    rw [hRd]
    refine ((List.Perm.refl _).append (List.mergeSort_perm _ _)).trans ?_
    rw [← List.map_append]
    exact hperm.map d
  -- the candidate list is sorted
  have htr : ∀ (a b c : Rat), decide (a ≤ b) = true → decide (b ≤ c) = true → decide (a ≤ c) = true := by
    intro a b c h1 h2; simp only [decide_eq_true_eq] at *; exact le_trans h1 h2
  have htot : ∀ (a b : Rat), (decide (a ≤ b) || decide (b ≤ a)) = true := by
    intro a b; simp only [Bool.or_eq_true, decide_eq_true_eq]; exact le_total a b
  have hsortE := List.pairwise_mergeSort htr htot (rest.map d)
  have hsortD := List.pairwise_mergeSort htr htot (t.indices.map d)
  have hcand : (res.map Prod.fst ++ (rest.map d).mergeSort (fun a b => decide (a ≤ b))).Pairwise (fun a b => decide (a ≤ b) = true) := by
    rw [List.pairwise_append]
    refine ⟨?_, hsortE, ?_⟩
    · rw [List.pairwise_map]
      exact hsorted.imp (fun h => by simpa using h)
    · intro a ha b hb'
      obtain ⟨c, hc, rfl⟩ := List.mem_map.mp ha
      rw [List.mem_mergeSort] at hb'
      obtain ⟨j, hj, rfl⟩ := List.mem_map.mp hb'
      simp only [rest, List.mem_filter, inR, Bool.not_eq_eq_eq_not, Bool.not_true, decide_eq_false_iff_not] at hj
      simpa using hdom j hj.1 hj.2 c hc
  have heq : res.map Prod.fst ++ (rest.map d).mergeSort (fun a b => decide (a ≤ b)) =
      (t.indices.map d).mergeSort (fun a b => decide (a ≤ b)) := by
    apply List.Perm.eq_of_pairwise (le := fun a b => decide (a ≤ b) = true) _ hcand hsortD
    · exact hpermD.trans (List.mergeSort_perm _ _).symm
    · intro a b _ _ h1 h2
      simp only [decide_eq_true_eq] at h1 h2
      exact le_antisymm h1 h2
  rw [← heq]
  by_cases hk : res.length = k
  · rw [List.take_append_of_le_length (by simp [hk])]
    rw [List.take_of_length_le (by simp [hk])]
  · -- fewer than k: every index is in the answer, the rest is empty
    have hlt : t.indices.length < k := by omega
    have hrest : rest = [] := by
      have hl := hperm.length_eq
      simp only [List.length_append, List.length_map] at hl
      have : rest.length = 0 := by omega
      exact List.eq_nil_of_length_eq_zero this
    rw [hrest]
    simp only [List.map_nil, List.mergeSort_nil, List.append_nil]
    rw [List.take_of_length_le (by simp; omega)]

/-! ### the rules of the pinned tree are refuted -/

/-- **Non-termination of the ORIGINAL construction.** On a cell of more than `leafSize` identical points the
`<= pivot` split puts every index on the left for ever: for every pivot function that returns one of the
coordinates it is given (median of equal values, a random element, the median of a sub-sample all do), NO amount
of fuel makes the original construction return. -/
theorem buildOriginal_diverges (P : Nat → Pt) (dim leafSize : Nat) (piv : Nat → List Rat → Rat)
    (hpiv : ∀ path cs, cs ≠ [] → piv path cs ∈ cs) (idx : List Nat)
    (hbig : leafSize < idx.length) (hsame : ∀ i ∈ idx, ∀ j ∈ idx, P i = P j) :
    ∀ (fuel path axis : Nat) (box : Box), buildOriginal P dim leafSize piv fuel path axis idx box = none
  | 0, _, _, _ => by simp [buildOriginal, buildWith]
  | fuel + 1, path, axis, box => by
    unfold buildOriginal buildWith
    rw [if_neg (by omega)]
    have hne : idx.map (fun i => coord (P i) axis) ≠ [] := by
      intro h; rw [List.map_eq_nil_iff] at h; subst h; simp at hbig
    obtain ⟨j, hj, hpj⟩ := List.mem_map.mp (hpiv path _ hne)
    have hless : (splitIdxOriginal P axis (piv path (idx.map (fun i => coord (P i) axis))) idx).2.1 = idx := by
      simp only [splitIdxOriginal]
      apply List.filter_eq_self.mpr
      intro i hi
      rw [← hpj, hsame i hi j hj]
      simp
    simp only
    rw [hless]
    have ih := buildOriginal_diverges P dim leafSize piv hpiv idx hbig hsame fuel (2 * path) ((axis + 1) % dim)
      (boxLess box axis (splitIdxOriginal P axis (piv path (idx.map (fun i => coord (P i) axis))) idx).1)
    unfold buildOriginal at ih
    rw [ih]

/-- non-vacuity of `buildOriginal_diverges`: 20 identical 1-D points, leaf size 5, median pivot. -/
example : ∀ fuel, buildOriginal (fun _ => [1]) 1 5 (fun _ cs => cs.headD 0) fuel 1 0 (List.range 20) (Box.infinite 1) = none :=
  fun fuel => buildOriginal_diverges _ 1 5 _ (by
    intro _ cs h; cases cs <;> simp_all) (List.range 20) (by simp) (by intros; rfl) fuel 1 0 _


/-- **The ORIGINAL pruning rule loses neighbours.** Points −4, 1, 3 on a line, leaf size 1, query point 0, k = 3:
the tree `wT` is the one the original construction returns for the pivots `wPiv`; its boxes are sound and its
indices distinct; the original `query` returns 2 indices instead of 3 (the cell {−4} is pruned against the worst
of ONE candidate), the repaired one returns 3. (`decide`: a finite computation, the refutation witness.) -/
theorem knnOriginal_wrong :
    buildOriginal wP 1 1 wPiv 3 1 0 [0, 1, 2] (Box.infinite 1) = some wT ∧
    boxesOk wP wT = true ∧ wT.indices.Nodup ∧
    (knnOriginal wP wT [0] 3).map Prod.snd = [1, 2] ∧
    (knn wP wT [0] 3).map Prod.snd = [1, 2, 0] := by
  decide +kernel

/-- non-vacuity of `knn_exact` / `radius_exact`: the witness tree satisfies their hypotheses, and the repaired
construction returns a tree on it. -/
example : boxesOk wP wT = true ∧ wT.indices.Nodup := by decide +kernel
example : (build wP 1 1 wPiv 4 1 0 [0, 1, 2] (Box.infinite 1)).isSome = true := by decide +kernel

/-- **End to end**: whatever the pivots, `KDTree(points)` (n points of dimension `dim`, leaf size ≥ 1) returns a
tree `t` storing every index exactly once, on which both queries are exact. -/
theorem kdtree_correct (P : Nat → Pt) (n dim leafSize : Nat) (piv : Nat → List Rat → Rat) (hleaf : 1 ≤ leafSize)
    (hdim : ∀ i < n, (P i).length = dim) :
    ∃ t, buildRoot P n dim leafSize piv (n + 1) = some t ∧ t.indices.Perm (List.range n) ∧
      (∀ l ∈ t.leaves, l.1.length ≤ leafSize) ∧
      (∀ q r2 i, i ∈ radius P q r2 t ↔ i < n ∧ sqDist (P i) q ≤ r2) ∧
      (∀ q k, (knn P t q k).length = min k n ∧ (knn P t q k).Pairwise (fun a b => a.1 ≤ b.1) ∧
        ((knn P t q k).map Prod.snd).Nodup ∧
        (∀ c ∈ knn P t q k, c.2 < n ∧ c.1 = sqDist (P c.2) q) ∧
        (∀ j < n, j ∉ (knn P t q k).map Prod.snd → ∀ c ∈ knn P t q k, c.1 ≤ sqDist (P j) q)) := by
  obtain ⟨t, ht⟩ := Option.isSome_iff_exists.mp (buildRoot_terminates P n dim leafSize piv hleaf)
  have hp := buildRoot_partition P n dim leafSize piv hleaf (n + 1) t ht
  have hb := buildRoot_boxes P n dim leafSize piv hleaf hdim (n + 1) t ht
  have hmem : ∀ i, i ∈ t.indices ↔ i < n := fun i => by rw [hp.1.mem_iff, List.mem_range]
  have hlen : t.indices.length = n := by rw [hp.1.length_eq, List.length_range]
  refine ⟨t, ht, hp.1, (build_partition P dim leafSize piv hleaf (n + 1) 1 0 (List.range n) _ t ht).2.2, ?_, ?_⟩
  · intro q r2 i
    rw [(radius_exact P q r2 t hb).1 i, hmem]
  · intro q k
    have h := knn_exact P q k t hb hp.2.1
    simp only at h
    refine ⟨by rw [h.2.1, hlen], h.1, h.2.2.1, ?_, ?_⟩
    · intro c hc; exact ⟨(hmem _).mp (h.2.2.2.1 c hc).1, (h.2.2.2.1 c hc).2⟩
    · intro j hj; exact h.2.2.2.2 j ((hmem j).mpr hj)

end Mouette.Props.C11
