import Mouette.Lemmas.C19Sampling
import Mouette.Lemmas.C19Bezier
import Mouette.Lemmas.C19Loop
import Mouette.Lemmas.C19Wrap
import Mouette.Generated.C19Tri
import Mouette.Generated.C19Seg
import Mouette.Generated.C19Sphere
import Mouette.Generated.C19DC
import Mouette.Generated.C19Patch
/-
C19 (round 2) — tighter tie to the source. Bridges between the fragments re-extracted with Python `ast` on every
run (`Generated/C19Tri, C19Seg, C19Sphere, C19DC, C19Patch`) and the models, and the property clauses stated
literally on those extracted expressions. A changed operator / index / range in the source makes a bridge fail
(broken obligation → failing-input search by the oracle) or the translator return `ok: False`.
-/
namespace Mouette.Props.C19Source
open Mouette.Sampling Mouette.Bezier Mouette.Lemmas.C19 Finset
open Mouette.Generated.C19 (surfProb surfFaceIndex surfNormalIndex polyGuard polyProb polyEdgeIndex
  dcRaises rowRange rowIndex evaluateRow evaluate surfVertU surfVertV)

/-! ## sample_surface -/

/-- the barycentric map of the source is the model's, with `sq = sqrt u1` -/
theorem bridge_triCoord (sqrt : Rat → Rat) (u1 u2 a b c : Rat) :
    Mouette.Generated.C19.triCoord sqrt u1 u2 a b c = Sampling.triCoord (sqrt u1) u2 a b c := by
  simp only [Mouette.Generated.C19.triCoord, Sampling.triCoord] <;> ring

/-- the three weights as expressions of the two draws: `(√u1(1-u2), 1-√u1, u2√u1)` -/
theorem bridge_triWeights (sqrt : Rat → Rat) (u1 u2 a b c : Rat) :
    Mouette.Generated.C19.triCoord sqrt u1 u2 a b c =
      (triWeights (sqrt u1) u2).1 * a + (triWeights (sqrt u1) u2).2.1 * b + (triWeights (sqrt u1) u2).2.2 * c := by
  simp only [Mouette.Generated.C19.triCoord, triWeights]
  ring

/-- `sample_surface` as written: for ANY square-root function and all draws `u1,u2 ∈ [0,1]` every coordinate of the
sample is the SAME convex combination of the corners' coordinates (weights ≥ 0, sum 1) -/
theorem surface_point_barycentric_source (sqrt : Rat → Rat)
    (hsq : ∀ x, 0 ≤ x → sqrt x * sqrt x = x ∧ 0 ≤ sqrt x) (u1 u2 : Rat)
    (h10 : 0 ≤ u1) (h11 : u1 ≤ 1) (h20 : 0 ≤ u2) (h21 : u2 ≤ 1) :
    ∃ wa wb wc : Rat, 0 ≤ wa ∧ 0 ≤ wb ∧ 0 ≤ wc ∧ wa + wb + wc = 1 ∧
      ∀ a b c, Mouette.Generated.C19.triCoord sqrt u1 u2 a b c = wa * a + wb * b + wc * c := by
  obtain ⟨hs, hs0⟩ := hsq u1 h10
  have hs1 : sqrt u1 ≤ 1 := sqrt_unit hs hs0 h11
  refine ⟨sqrt u1 * (1 - u2), 1 - sqrt u1, u2 * sqrt u1, ?_, ?_, ?_, ?_, ?_⟩
  · exact mul_nonneg hs0 (by linarith)
  · linarith
  · exact mul_nonneg h20 hs0
  · ring
  · intro a b c; rw [bridge_triWeights]; simp only [triWeights]

/-- corners are read from, and the normal is taken for, the face drawn by `choice` for that sample -/
theorem bridge_surfIndices (f : Nat) : surfFaceIndex f = f ∧ surfNormalIndex f = f ∧ surfNormalIndex f = surfFaceIndex f := by
  simp [surfFaceIndex, surfNormalIndex]

/-- `areas /= np.sum(areas)` is the model's probability vector -/
theorem bridge_surfProb (ws : List Rat) : ws.map (fun w => surfProb w (total ws)) = probs ws := by
  simp only [surfProb, probs]

/-- hence (source level): the vector handed to `choice` sums to 1, is ≥ 0 and proportional to the areas -/
theorem surface_probabilities_source (ws : List Rat) (h : total ws ≠ 0) (hw : ∀ x ∈ ws, 0 ≤ x) :
    total (ws.map (fun w => surfProb w (total ws))) = 1 ∧
    (∀ p ∈ ws.map (fun w => surfProb w (total ws)), 0 ≤ p) ∧
    ∀ w, surfProb w (total ws) * total ws = w := by
  rw [bridge_surfProb]
  refine ⟨?_, ?_, ?_⟩
  · unfold probs; rw [total_map_div, div_self h]
  · intro p hp
    obtain ⟨x, hx, rfl⟩ := List.mem_map.mp hp
    exact div_nonneg (hw x hx) (total_nonneg ws hw)
  · intro w; simp only [surfProb]; rw [div_mul_cancel₀ _ h]

/-! ## sample_polyline -/

theorem bridge_segCoord (t a b : Rat) : Mouette.Generated.C19.segCoord t a b = Sampling.segCoord t a b := by
  simp only [Mouette.Generated.C19.segCoord, Sampling.segCoord] <;> ring

theorem bridge_polyGuard (NE e : Nat) : polyGuard NE = decide (1 < NE) ∧ polyEdgeIndex e = e := by
  constructor
  · unfold polyGuard
    by_cases h : 1 < NE <;> simp [h] <;> omega
  · simp [polyEdgeIndex]

theorem bridge_polyProb (ws : List Rat) : ws.map (fun w => polyProb w (total ws)) = probs ws := by
  simp only [polyProb, probs]

/-- `sample_polyline` as written: for `t ∈ [0,1]` every coordinate is `b + l (a - b)` with the same `l ∈ [0,1]` -/
theorem polyline_point_on_edge_source (t : Rat) (h0 : 0 ≤ t) (h1 : t ≤ 1) :
    ∃ l : Rat, 0 ≤ l ∧ l ≤ 1 ∧ ∀ a b, Mouette.Generated.C19.segCoord t a b = b + l * (a - b) := by
  refine ⟨t, h0, h1, ?_⟩
  intro a b
  rw [bridge_segCoord]; unfold Sampling.segCoord; ring

/-! ## sample_sphere -/

theorem bridge_sphereCoord (center radius g nrm : Rat) :
    Mouette.Generated.C19.sphereCoord center radius g nrm = Sampling.sphereCoord center radius g nrm := by
  simp only [Mouette.Generated.C19.sphereCoord, Sampling.sphereCoord] <;> ring

/-- `sample_sphere` as written: the three returned coordinates are at squared distance `radius²` of the centre -/
theorem sphere_on_sphere_source (c g : Rat × Rat × Rat) (radius nrm : Rat) (hs : nrm * nrm = normSq3 g) (h0 : nrm ≠ 0) :
    normSq3 (sub3 (Mouette.Generated.C19.sphereCoord c.1 radius g.1 nrm,
                   Mouette.Generated.C19.sphereCoord c.2.1 radius g.2.1 nrm,
                   Mouette.Generated.C19.sphereCoord c.2.2 radius g.2.2 nrm) c) = radius * radius := by
  simp only [bridge_sphereCoord]
  obtain ⟨c1, c2, c3⟩ := c
  obtain ⟨g1, g2, g3⟩ := g
  simp only [normSq3, dot3, sub3, Sampling.sphereCoord] at hs ⊢
  field_simp
  linear_combination (radius ^ 2) * hs.symm

/-! ## de_casteljau -/

/-- the range guard of the source raises exactly outside `[0,1]` (comparison operators included) -/
theorem bridge_dcRaises (t : Rat) : dcRaises t = !inRange t := by
  rcases lt_or_ge t 0 with h0 | h0
  · have a := not_le.mpr h0
    simp [dcRaises, inRange, h0, a]
  · have a := not_lt.mpr h0
    rcases lt_or_ge 1 t with h1 | h1
    · have b := not_le.mpr h1
      simp [dcRaises, inRange, h0, a, h1, b]
    · have b := not_lt.mpr h1
      simp [dcRaises, inRange, h0, a, h1, b]

theorem dcRaises_iff (t : Rat) : dcRaises t = true ↔ (t < 0 ∨ 1 < t) := by
  rw [bridge_dcRaises]
  simp only [inRange, Bool.not_eq_true', Bool.and_eq_false_iff, decide_eq_false_iff_not, not_le]

/-- loop bounds, target index, update expression and result index of the source are the model's -/
theorem bridge_dcLoop (t : Rat) :
    Mouette.Generated.C19.dcTarget = id ∧ Mouette.Generated.C19.dcUpdate t = lerpUpd t ∧
    (∀ o, Mouette.Generated.C19.dcOuter o = o) ∧ (∀ o j, Mouette.Generated.C19.dcInner o j = o - j) ∧
    (∀ n, Mouette.Generated.C19.dcOrder n = n - 1) ∧ Mouette.Generated.C19.dcResult = 0 := bridge_dc_pieces t

/-- the loop nest of the source, read imperatively (in-place stores), computes the model's `deCasteljau` -/
theorem source_deCasteljau_eq_model (t : Rat) (P : List Rat) : srcDeCasteljau t P = deCasteljau t P :=
  srcDeCasteljau_eq t P

/-- … hence the Bernstein polynomial of the control values (`Nat.choose` form), every degree, every `t` -/
theorem source_deCasteljau_eq_bernstein (t : Rat) (P : List Rat) :
    srcDeCasteljau t P = ∑ i ∈ range (P.length - 1 + 1),
      (((P.length - 1).choose i : Nat) : Rat) * t ^ i * (1 - t) ^ (P.length - 1 - i) * P.getD i 0 := by
  rw [srcDeCasteljau_eq, deCasteljau_eq_bernsteinSum]
  rfl

/-! ## BezierPatch._evaluate_row / evaluate / as_surface vertices -/

/-- `_evaluate_row(u)` ranges over the ROWS (`len(self.pts)`), whatever the number of columns, and evaluates row `i` -/
theorem bridge_evaluateRow (rows : List (List Rat)) (ncols : Nat) (u : Rat) :
    evaluateRow (fun P t => deCasteljau t P) (fun i => rows.getD i []) rows.length ncols u = rows.map (deCasteljau u) := by
  have e1 : rowRange rows.length ncols = rows.length := by simp [rowRange]
  have e2 : ∀ i, rowIndex i = i := by intro i; simp [rowIndex]
  simp only [evaluateRow, e1, e2]
  exact range_map_getD rows [] (deCasteljau u)

/-- `evaluate(u,v)`: `u` goes to the rows, `v` to the resulting column: the model's `evalPatch1` -/
theorem bridge_patchEvaluate (rows : List (List Rat)) (ncols : Nat) (u v : Rat) :
    evaluate (fun P t => deCasteljau t P)
      (fun x => evaluateRow (fun P t => deCasteljau t P) (fun i => rows.getD i []) rows.length ncols x) u v
      = evalPatch1 rows u v := by
  simp only [evaluate, bridge_evaluateRow, evalPatch1]

/-- `as_surface`: vertex `(i,j)` is evaluated at `(U[i], V[j])`, `U = linspace(0,1,n1)`, `V = linspace(0,1,n2)` -/
theorem bridge_surfVert (i j : Nat) : surfVertU i j = i ∧ surfVertV i j = j := by
  simp [surfVertU, surfVertV]

/-- source-level tensor Bernstein form of `evaluate` -/
theorem patch_eq_bernstein_source (rows : List (List Rat)) (ncols : Nat) (u v : Rat) :
    evaluate (fun P t => deCasteljau t P)
      (fun x => evaluateRow (fun P t => deCasteljau t P) (fun i => rows.getD i []) rows.length ncols x) u v
      = ∑ i ∈ range (rows.length - 1 + 1), bernstein (rows.length - 1) i v *
          ∑ j ∈ range ((rows.getD i []).length - 1 + 1),
            bernstein ((rows.getD i []).length - 1) j u * (rows.getD i []).getD j 0 := by
  rw [bridge_patchEvaluate]
  unfold evalPatch1
  rw [deCasteljau_eq_bernsteinSum, List.length_map]
  unfold bernsteinSum
  apply sum_congr rfl
  intro i _
  rw [getD_map_default (deCasteljau u) (deCasteljau_nil u), deCasteljau_eq_bernsteinSum]
  rfl

/-! non-vacuity -/
example : Mouette.Generated.C19.triCoord (fun x => if x = 1 / 4 then 1 / 2 else 0) (1 / 4) (1 / 2) 0 1 0 = 1 / 2 := by
  norm_num [Mouette.Generated.C19.triCoord]
example : srcDeCasteljau (1 / 2) [0, 2, 1] = 5 / 4 := by
  rw [srcDeCasteljau_eq]; norm_num [deCasteljau, loop, pass, lerp]
example : dcRaises (3 / 2) = true ∧ dcRaises 1 = false := by
  constructor <;> norm_num [dcRaises]

end Mouette.Props.C19Source
