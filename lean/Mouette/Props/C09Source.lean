import Mouette.Generated.C09Glue
import Mouette.Lemmas.C09Glue
import Mouette.Lemmas.C09Conn
import Mouette.Props.C09PathMesh
import Mouette.Props.C09Bridge
/-
C09, round 4: bridges between the GLUE of mouette/processing/paths.py as translated from the current source
(Generated/C09Glue.lean: build_path, both back-tracking loops, weight-mode dispatch, single-target shortcut,
border glue) and the hand-written model, and the property theorems restated on the source-level composition.
-/
namespace Mouette.Props.C09
open Mouette.Dijkstra Mouette.PQ
open Mouette.Generated

/-! ### build_path -/

/-- the body of `for l in paths.values()` as written is the model's `buildStep` -/
theorem bridge_buildStep : C09G.buildStep = buildStep := by
  funext st l
  obtain ⟨⟨vs, es⟩, k⟩ := st
  have hin : C09G.buildInner0 k l = fun acc i => (acc.1 ++ [l.getD i 0], acc.2 ++ [(k + i - 1, k + i)]) := by
    funext acc i; rfl
  unfold C09G.buildStep buildStep
  simp only [hin]
  cases l with
  | nil => simp
  | cons a t =>
    cases t with
    | nil => simp
    | cons b t' =>
      have h1 : 0 < (a :: b :: t').length := by simp
      have h2 : 1 < (a :: b :: t').length := by simp
      simp only [if_pos h1, if_pos h2, foldl_append2]
      have e1 := map_getD_range'_cons a (b :: t')
      have e2 := map_edges_range' k ((a :: b :: t').length - 1)
      simp only [List.length_cons, Nat.add_sub_cancel] at e1 e2 ⊢
      rw [e1, e2]
      simp

/-- `build_path` as written is the model's `buildPath` (so `build_path_spec` and `path_mesh_segments_are_edges` speak
about the source) -/
theorem bridge_buildPath : C09G.buildPath = buildPath := by
  funext ps
  unfold C09G.buildPath buildPath
  rw [bridge_buildStep]

/-! ### back-tracking of shortest_path -/

theorem backLoop_sp_eq (pred : Nat → Option Nat) (start : Nat) : ∀ f v l,
    Res.mapOk (fun l' => (l' ++ [start]).reverse) (C09G.backLoop_sp pred start f v l) = back pred start f v l.reverse := by
  intro f
  induction f with
  | zero => intro v l; rfl
  | succ f ih =>
    intro v l
    unfold C09G.backLoop_sp back
    by_cases hv : v = start
    · subst hv; simp [Res.mapOk]
    · rw [if_pos hv, if_neg hv]
      cases hp : pred v with
      | none => rfl
      | some p =>
        simp only
        rw [ih p (l ++ [v])]
        simp

/-- the body of `for t in targets` (initialisation `v = t`, the `while v != start` loop, `append(start)`,
`reverse()`) as written is the model's `pathTo` -/
theorem bridge_pathTo_sp : C09G.pathTo_sp = pathTo := by
  funext s n start t
  have h := backLoop_sp_eq s.pred start (n + 1) t []
  unfold pathTo
  rw [List.reverse_nil] at h
  rw [← h]
  show (match C09G.backLoop_sp s.pred start (n + 1) t [] with
    | .ok l => Res.ok ((l ++ [start]).reverse)
    | r => r) = _
  cases C09G.backLoop_sp s.pred start (n + 1) t [] <;> rfl

/-! ### back-tracking of shortest_path_to_vertex_set -/

theorem backLoop_set_eq (pred : Nat → Option Nat) (start : Nat) : ∀ f v l acc, (v :: acc).dropLast = l.reverse →
    Res.mapOk List.dropLast (back pred start f v acc) = Res.mapOk List.reverse (C09G.backLoop_set pred start f v l) := by
  intro f
  induction f with
  | zero => intro v l acc _; rfl
  | succ f ih =>
    intro v l acc h
    unfold C09G.backLoop_set back
    by_cases hv : v = start
    · subst hv
      rw [if_pos rfl, if_neg (by simp)]
      simp [Res.mapOk, h]
    · rw [if_pos hv, if_neg hv]
      cases hp : pred v with
      | none => rfl
      | some p =>
        simp only
        apply ih
        rw [List.dropLast_cons_cons, h]
        simp

/-- from `path = []; v = TARGET` through the loop (`v = parent[v]; path.append(v)`), `path.reverse()` and
`ind = start if not path else path[-1]`: the general branch of the model's `vertexSet` (the sink is never part of the
returned path, the index is the last vertex of the path) -/
theorem bridge_backSet (pop : Pop) (adj : Adj) (n start : Nat) (targets : List Nat) :
    C09G.backSet (run pop (sinkAdj adj n targets) (n + 1) start) n start (n + 2) =
      (match (toVertexSet pop adj n start targets).2 with
       | .ok p => (.ok p, p.getLast?.getD start)
       | r => (r, start)) := by
  have h := backLoop_set_eq (run pop (sinkAdj adj n targets) (n + 1) start).pred start (n + 2) n [] [] (by simp)
  unfold toVertexSet C09G.backSet
  simp only
  generalize back (run pop (sinkAdj adj n targets) (n + 1) start).pred start (n + 2) n [] = r1 at h ⊢
  generalize C09G.backLoop_set (run pop (sinkAdj adj n targets) (n + 1) start).pred start (n + 2) n [] = r2 at h ⊢
  cases r1 <;> cases r2 <;> simp [Res.mapOk] at h ⊢
  rename_i p l
  rw [h]
  refine ⟨rfl, ?_⟩
  cases l with
  | nil => simp
  | cons a t => simp

/-! ### dispatch -/

/-- `shortest_path_to_vertex_set` as written (empty-set guard, single-target shortcut handing `targets[0]` to
`shortest_path` and returning `(TARGET, parent[TARGET])`, general branch otherwise, for both values of
`export_path_mesh`) is the model's `vertexSet` -/
theorem bridge_vertexSet (pop : Pop) (adj : Adj) (n start : Nat) (targets : List Nat) (exportMesh : Bool)
    (hne : targets ≠ []) :
    C09G.vertexSet_src (fun t => C09G.pathTo_sp (run pop adj n start) n start t)
      (fun _ => C09G.backSet (run pop (sinkAdj adj n targets) (n + 1) start) n start (n + 2)) targets exportMesh
      = some (vertexSet pop adj n start targets) := by
  unfold C09G.vertexSet_src
  rw [bridge_pathTo_sp, bridge_backSet]
  match targets, hne with
  | [t], _ => cases exportMesh <;> simp [vertexSet]
  | t1 :: t2 :: rest, _ =>
    simp only [List.length_cons, vertexSet]
    rw [if_neg (by omega), if_neg (by omega)]
    cases (toVertexSet pop adj n start (t1 :: t2 :: rest)).2 <;> rfl

/-- the empty target set raises "No target provided" -/
theorem vertexSet_src_empty (sp : Nat → Res) (general : Unit → Res × Nat) (e : Bool) :
    C09G.vertexSet_src sp general [] e = none := by
  simp [C09G.vertexSet_src]

/-- `shortest_path_to_border` as written (no-border guard, the set query on `mesh.boundary_vertices`) is the model's
`toBorder` -/
theorem bridge_toBorder (pop : Pop) (adj : Adj) (n start : Nat) (edges : List ((Nat × Nat) × Bool)) :
    C09G.toBorder_src (vertexSet pop adj n start) (boundaryVertices edges) = toBorder pop adj n start edges := by
  unfold C09G.toBorder_src toBorder
  cases boundaryVertices edges <;> simp

/-- the selection at the end of `shortest_path_to_border` drops the index in both shapes of the result tuple:
`(ind, path)` → `path`; `(ind, path, polyline)` → `(path, polyline)` -/
theorem bridge_borderPick {α : Type} [Inhabited α] (ind path pm : α) :
    C09G.borderPick [ind, path] = .inl path ∧ C09G.borderPick [ind, path, pm] = .inr [path, pm] := by
  constructor <;> simp [C09G.borderPick]

/-- the fictitious edges target ↔ TARGET carry the weight the model's `sinkAdj` gives them -/
theorem bridge_sinkWeight (adj : Adj) (n : Nat) (targets : List Nat) (u : Nat) :
    sinkAdj adj n targets u =
      if u = n then targets.map (fun t => (t, C09G.sinkWeight))
      else adj u ++ (if targets.contains u then [(n, C09G.sinkWeight)] else []) := by
  unfold sinkAdj C09G.sinkWeight
  rfl

/-- all option combinations: for every weight mode the point-to-point query (`edge_length(u, v)`) and the set query
(`connectivity[u][v]`, written for edge number `e = edge_id(u, v)` in both directions) use the SAME weight for every
edge; mode "one" is the constant 1 — hence non-negative — and mode custom reads the caller's table at the edge id. -/
theorem weight_modes_agree (mode : C09G.WMode) (len : Nat → Rat) (w : Nat → Rat) (eid : Nat → Nat → Nat) (u v : Nat) :
    C09G.edgeLength_sp mode (fun a b => len (eid a b)) w eid u v = C09G.connWeight mode len w (eid u v) := by
  cases mode <;> rfl

theorem weight_mode_table (len : Nat → Rat) (w : Nat → Rat) (e : Nat) :
    C09G.connWeight .one len w e = 1 ∧ C09G.connWeight .length len w e = len e ∧ C09G.connWeight .custom len w e = w e :=
  ⟨rfl, rfl, rfl⟩

/-- accepted `weights` arguments and the single-target type test, as read from the source -/
theorem bridge_argument_tables :
    C09G.weightStrings = ["one", "length"] ∧ C09G.weightTypes = ["_BaseAttribute", "dict"] ∧
    C09G.singleTargetType = "numbers.Integral" := by decide

/-- targets given singly or as a collection: a single target is the singleton collection -/
theorem targetsOf_single (t : Nat) (c : List Nat) : C09G.targetsOf (some t) c = C09G.targetsOf none [t] := by
  simp [C09G.targetsOf, List.eraseDups, List.eraseDupsBy, List.eraseDupsBy.loop]

theorem mem_targetsOf_coll (c : List Nat) (t : Nat) : t ∈ C09G.targetsOf none c ↔ t ∈ c := by
  simp [C09G.targetsOf]

/-! ### the queries composed from the translated pieces only -/

/-- `shortest_path` as written: initialisation, `while not queue.empty()` around the translated body, then one
back-tracking per target -/
def shortestPath_src (pop : Pop) (adj : Adj) (n start : Nat) (targets : List Nat) : List Res :=
  let s := iterG (C09.step_sp pop adj) (fuel adj n) (C09.init_sp start)
  targets.map (C09G.pathTo_sp s n start)

theorem bridge_shortestPath (pop : Pop) (adj : Adj) (n start : Nat) (targets : List Nat) :
    shortestPath_src pop adj n start targets = (shortestPath pop adj n start targets).2 := by
  unfold shortestPath_src shortestPath run
  rw [bridge_step_sp, bridge_init_sp, iterG_step, bridge_pathTo_sp]

/-- `shortest_path_to_vertex_set` as written, composed from the translated loop (the copy in that function), the
translated sink weight, the translated back-tracking and the translated dispatch -/
def vertexSet_full (pop : Pop) (adj : Adj) (n start : Nat) (targets : List Nat) (exportMesh : Bool) : Option (Res × Nat) :=
  C09G.vertexSet_src
    (fun t => C09G.pathTo_sp (iterG (C09.step_sp pop adj) (fuel adj n) (C09.init_sp start)) n start t)
    (fun _ => C09G.backSet (iterG (C09.step_set pop (sinkAdj adj n targets)) (fuel (sinkAdj adj n targets) (n + 1))
      (C09.init_set start)) n start (n + 2)) targets exportMesh

theorem bridge_vertexSet_full (pop : Pop) (adj : Adj) (n start : Nat) (targets : List Nat) (exportMesh : Bool)
    (hne : targets ≠ []) :
    vertexSet_full pop adj n start targets exportMesh = some (vertexSet pop adj n start targets) := by
  unfold vertexSet_full
  rw [bridge_step_sp, bridge_init_sp, bridge_step_set, bridge_init_set, iterG_step, iterG_step]
  exact bridge_vertexSet pop adj n start targets exportMesh hne

section
variable {pop : Pop} {adj : Adj} {n start : Nat}

/-- P1 on the source-level composition: for every requested target connected to the start, the entry of the dict
returned by `shortest_path` (as translated) is a valid edge path start → target of minimum total weight; targets are
answered independently of each other (single target = singleton collection). -/
theorem source_shortest_path_optimal (hpop : PopOK pop) (hnn : NonNeg adj) (hwf : WF adj n) (hs : start < n)
    (targets : List Nat) (i : Nat) (hi : i < targets.length)
    (hconn : ∃ l W, PathW adj start targets[i] l W) :
    ∃ l d, (shortestPath_src pop adj n start targets)[i]? = some (.ok l) ∧ l.head? = some start ∧
      l.getLast? = some targets[i] ∧ PathW adj start targets[i] l d ∧ ∀ l' W', PathW adj start targets[i] l' W' → d ≤ W' := by
  obtain ⟨l, d, h1, h2, h3, h4, h5⟩ := dijkstra_optimal hpop hnn hwf hs hconn
  refine ⟨l, d, ?_, h2, h3, h4, h5⟩
  rw [bridge_shortestPath]
  unfold shortestPath
  simp only [List.getElem?_map, List.getElem?_eq_getElem hi, Option.map_some]
  rw [h1]

/-- the answer for a target does not depend on which other targets were requested with it -/
theorem shortest_path_targets_independent (pop : Pop) (adj : Adj) (n start : Nat) (targets : List Nat) (t : Nat)
    (ht : t ∈ targets) :
    ∃ i : Nat, (shortestPath_src pop adj n start targets)[i]? = (shortestPath_src pop adj n start [t])[0]? ∧
      targets[i]? = some t := by
  obtain ⟨i, hi, rfl⟩ := List.getElem_of_mem ht
  refine ⟨i, ?_, by simp [hi]⟩
  unfold shortestPath_src
  simp [hi]

/-- P1 on the source-level composition of the set query: a member of the set nearest to the start, with a valid
shortest path to it; index = end of the path -/
theorem source_vertex_set_nearest (hpop : PopOK pop) (hnn : NonNeg adj) (hwf : WF adj n) (hs : start < n)
    {targets : List Nat} (exportMesh : Bool) (ht : ∀ t ∈ targets, t < n)
    (hconn : ∃ t ∈ targets, ∃ l W, PathW adj start t l W) :
    ∃ p ind d, vertexSet_full pop adj n start targets exportMesh = some (.ok p, ind) ∧ ind ∈ targets ∧
      p.head? = some start ∧ p.getLast? = some ind ∧ PathW adj start ind p d ∧
      (∀ t ∈ targets, ∀ l' W', PathW adj start t l' W' → d ≤ W') := by
  have hne : targets ≠ [] := by
    obtain ⟨t, htm, _⟩ := hconn
    intro h; rw [h] at htm; simp at htm
  obtain ⟨p, ind, d, h1, h2, h3, h4, h5, _⟩ := vertex_set_path_valid hpop hnn hwf hs ht hconn
  obtain ⟨p', ind', d', h1', _, h3', h4', _⟩ := vertex_set_nearest hpop hnn hwf hs ht hconn
  rw [h1] at h1'
  simp only [Prod.mk.injEq, Res.ok.injEq] at h1'
  obtain ⟨rfl, rfl⟩ := h1'
  exact ⟨p, ind, d', by rw [bridge_vertexSet_full pop adj n start targets exportMesh hne, h1], h2, h3, h4, h3', h4'⟩

/-- start inside the set, strictly positive weights (unit weights, Euclidean lengths of non-degenerate edges):
the returned path is the trivial path `[start]` and the returned index is `start`. -/
theorem vertex_set_start_in_set (hpop : PopOK pop) (hpos : ∀ u, ∀ e ∈ adj u, (0 : Rat) < e.2) (hwf : WF adj n)
    (hs : start < n) {targets : List Nat} (ht : ∀ t ∈ targets, t < n) (hst : start ∈ targets) :
    vertexSet pop adj n start targets = (.ok [start], start) := by
  have hnn : NonNeg adj := fun u e he => le_of_lt (hpos u e he)
  have hconn : ∃ t ∈ targets, ∃ l W, PathW adj start t l W := ⟨start, hst, [start], 0, PathW.single start⟩
  obtain ⟨p, ind, d, h1, h2, h3, h4, h5⟩ := vertex_set_nearest hpop hnn hwf hs ht hconn
  have hd : d = 0 := h5 hst
  subst hd
  have key : ∀ {a t l W}, PathW adj a t l W → W ≤ 0 → l = [a] ∧ t = a := by
    intro a t l W hp
    induction hp with
    | single a => intro _; exact ⟨rfl, rfl⟩
    | @cons a b t l w W hab hp' _ =>
      intro hle
      have h0 := hpos a _ hab
      have h1 := hp'.weight_nonneg hnn
      simp only at h0
      linarith
  obtain ⟨hp, hi⟩ := key h3 (le_refl 0)
  rw [h1, hp, hi]

end

/-! ### round 5: the `connectivity` dict of dicts as written, and the adjacency of the point-to-point query -/

/-- mesh edge number `ie.1` with end points `ie.2` as a weighted edge of the model (weight as written for the mode) -/
def toW (mode : C09G.WMode) (len w : Nat → Rat) (ie : Nat × Nat × Nat) : Nat × Nat × Rat :=
  (ie.2.1, ie.2.2, C09G.connWeight mode len w ie.1)

theorem connEdge_eq (mode : C09G.WMode) (len w : Nat → Rat) (c : Conn) (ie : Nat × Nat × Nat) :
    C09G.connEdge mode len w c ie = edgeStepW c (toW mode len w ie) := by
  cases mode <;> rfl

theorem connSink_eq (sink : Nat) (c : Conn) (s : Nat) : C09G.connSink sink c s = sinkStepW sink C09G.sinkWeight c s := rfl

/-- `bridge_connBuild`: the construction of `connectivity` as written (one empty dict per vertex id and one for TARGET, the
loop over the enumerated mesh edges writing both directions with the weight of the mode, the loop joining every target to
TARGET with weight 0), read with Python's dict semantics (items in insertion order), IS the model's adjacency
`sinkAdj (adjOf edges) n targets` — provided the mesh edges are pairwise different unordered pairs without loops with end
points `< n`, and the targets are pairwise different vertices `< n` (TARGET = −1 is the fresh id `n`). -/
theorem bridge_connBuild (mode : C09G.WMode) (len w : Nat → Rat) (ies : List (Nat × Nat × Nat)) (n : Nat) (targets : List Nat)
    (hl : ∀ ie ∈ ies, ie.2.1 ≠ ie.2.2) (hd : DistinctEdges (ies.map (toW mode len w)))
    (hwf : ∀ ie ∈ ies, ie.2.1 < n ∧ ie.2.2 < n) (ht : ∀ t ∈ targets, t < n) (hnd : targets.Nodup) :
    C09G.connBuild mode len w ies n targets = sinkAdj (adjOf (ies.map (toW mode len w))) n targets := by
  have hW : ∀ e ∈ ies.map (toW mode len w), e.1 < n ∧ e.2.1 < n := by
    intro e he
    obtain ⟨ie, hie, rfl⟩ := List.mem_map.mp he
    exact hwf ie hie
  have hlW : ∀ e ∈ ies.map (toW mode len w), e.1 ≠ e.2.1 := by
    intro e he
    obtain ⟨ie, hie, rfl⟩ := List.mem_map.mp he
    exact hl ie hie
  have hedges : ies.foldl (C09G.connEdge mode len w) (fun _ => []) = adjOf (ies.map (toW mode len w)) := by
    have : ies.foldl (C09G.connEdge mode len w) (fun _ => []) = (ies.map (toW mode len w)).foldl edgeStepW (fun _ => []) := by
      rw [List.foldl_map]
      congr 1
      funext c ie
      exact connEdge_eq mode len w c ie
    rw [this]
    funext u
    exact edges_fold_adjOf _ hlW hd u
  have hkeys : ∀ u, ∀ p ∈ adjOf (ies.map (toW mode len w)) u, p.1 < n := adjOf_wf hW
  have hn : adjOf (ies.map (toW mode len w)) n = [] := by
    apply List.eq_nil_iff_forall_not_mem.mpr
    intro p hp
    obtain ⟨e, he, h | h⟩ := adjOf_key hp
    · have := (hW e he).1; omega
    · have := (hW e he).2; omega
  unfold C09G.connBuild
  simp only [hedges]
  have hs : (fun c s => C09G.connSink n c s) = sinkStepW n 0 := by
    funext c s; exact connSink_eq n c s
  rw [show targets.foldl (C09G.connSink n) (adjOf (ies.map (toW mode len w))) =
      targets.foldl (sinkStepW n 0) (sinkRows (adjOf (ies.map (toW mode len w))) n 0 []) from by
        rw [sinkRows_nil _ _ _ hn]; exact congrArg (fun f => targets.foldl f _) hs]
  rw [sink_fold 0 hkeys targets [] ht (by simpa using hnd), List.nil_append, sinkRows_zero]

/-- `shortest_path_to_vertex_set` as written INCLUDING its dict-of-dicts construction: the Dijkstra loop of that function
runs on `connBuild …` -/
def vertexSet_conn (pop : Pop) (mode : C09G.WMode) (len w : Nat → Rat) (ies : List (Nat × Nat × Nat)) (n start : Nat)
    (targets : List Nat) (exportMesh : Bool) : Option (Res × Nat) :=
  let adj := adjOf (ies.map (toW mode len w))
  let cn := C09G.connBuild mode len w ies n targets
  C09G.vertexSet_src
    (fun t => C09G.pathTo_sp (iterG (C09.step_sp pop adj) (fuel adj n) (C09.init_sp start)) n start t)
    (fun _ => C09G.backSet (iterG (C09.step_set pop cn) (fuel cn (n + 1)) (C09.init_set start)) n start (n + 2))
    targets exportMesh

theorem bridge_vertexSet_conn (pop : Pop) (mode : C09G.WMode) (len w : Nat → Rat) (ies : List (Nat × Nat × Nat))
    (n start : Nat) (targets : List Nat) (exportMesh : Bool)
    (hl : ∀ ie ∈ ies, ie.2.1 ≠ ie.2.2) (hd : DistinctEdges (ies.map (toW mode len w)))
    (hwf : ∀ ie ∈ ies, ie.2.1 < n ∧ ie.2.2 < n) (ht : ∀ t ∈ targets, t < n) (hnd : targets.Nodup) :
    vertexSet_conn pop mode len w ies n start targets exportMesh =
      vertexSet_full pop (adjOf (ies.map (toW mode len w))) n start targets exportMesh := by
  unfold vertexSet_conn vertexSet_full
  simp only [bridge_connBuild mode len w ies n targets hl hd hwf ht hnd]

/-- the set query with its own graph construction, for every weight mode with non-negative weights: nearest member,
valid shortest path -/
theorem source_vertex_set_nearest_conn {pop : Pop} (hpop : PopOK pop) (mode : C09G.WMode) (len w : Nat → Rat)
    (ies : List (Nat × Nat × Nat)) {n start : Nat} {targets : List Nat} (exportMesh : Bool) (hs : start < n)
    (hnn : ∀ ie ∈ ies, 0 ≤ C09G.connWeight mode len w ie.1)
    (hl : ∀ ie ∈ ies, ie.2.1 ≠ ie.2.2) (hd : DistinctEdges (ies.map (toW mode len w)))
    (hwf : ∀ ie ∈ ies, ie.2.1 < n ∧ ie.2.2 < n) (ht : ∀ t ∈ targets, t < n) (hnd : targets.Nodup)
    (hconn : ∃ t ∈ targets, ∃ l W, PathW (adjOf (ies.map (toW mode len w))) start t l W) :
    ∃ p ind d, vertexSet_conn pop mode len w ies n start targets exportMesh = some (.ok p, ind) ∧ ind ∈ targets ∧
      p.head? = some start ∧ p.getLast? = some ind ∧ PathW (adjOf (ies.map (toW mode len w))) start ind p d ∧
      (∀ t ∈ targets, ∀ l' W', PathW (adjOf (ies.map (toW mode len w))) start t l' W' → d ≤ W') := by
  rw [bridge_vertexSet_conn pop mode len w ies n start targets exportMesh hl hd hwf ht hnd]
  refine source_vertex_set_nearest hpop (adjOf_nonneg ?_) (adjOf_wf ?_) hs exportMesh ht hconn
  · intro e he
    obtain ⟨ie, hie, rfl⟩ := List.mem_map.mp he
    exact hnn ie hie
  · intro e he
    obtain ⟨ie, hie, rfl⟩ := List.mem_map.mp he
    exact hwf ie hie

/-- the adjacency the loop of `shortest_path` iterates: `vertex_to_vertices(v)` with `edge_length(v, nv)` as written -/
def adj_sp (mode : C09G.WMode) (len : Nat → Nat → Rat) (w : Nat → Rat) (eid : Nat → Nat → Nat) (vtv : Nat → List Nat) : Adj :=
  fun v => (vtv v).map (fun nv => (nv, C09G.edgeLength_sp mode len w eid v nv))

/-- the point-to-point query on that adjacency, for all three weight modes: mode "one" needs nothing, "length" the
non-negativity of lengths, custom the non-negativity of the caller's table (the statement's quantifier) -/
theorem source_shortest_path_all_modes {pop : Pop} (hpop : PopOK pop) (mode : C09G.WMode) (len : Nat → Nat → Rat) (w : Nat → Rat)
    (eid : Nat → Nat → Nat) (vtv : Nat → List Nat) {n start : Nat} (hs : start < n) (hv : ∀ v, ∀ x ∈ vtv v, x < n)
    (hlen : ∀ u v, 0 ≤ len u v) (hw : ∀ e, 0 ≤ w e) (targets : List Nat) (i : Nat) (hi : i < targets.length)
    (hconn : ∃ l W, PathW (adj_sp mode len w eid vtv) start targets[i] l W) :
    ∃ l d, (shortestPath_src pop (adj_sp mode len w eid vtv) n start targets)[i]? = some (.ok l) ∧ l.head? = some start ∧
      l.getLast? = some targets[i] ∧ PathW (adj_sp mode len w eid vtv) start targets[i] l d ∧
      ∀ l' W', PathW (adj_sp mode len w eid vtv) start targets[i] l' W' → d ≤ W' := by
  refine source_shortest_path_optimal hpop ?_ ?_ hs targets i hi hconn
  · intro u e he
    obtain ⟨nv, _, rfl⟩ := List.mem_map.mp he
    cases mode
    · exact zero_le_one
    · exact hlen u nv
    · exact hw _
  · intro u e he
    obtain ⟨nv, hnv, rfl⟩ := List.mem_map.mp he
    exact hv u nv hnv

/-! ### the exported polyline on the source-level composition -/

section
variable {pop : Pop} {adj : Adj} {n start : Nat}

/-- the exported path polyline of `shortest_path(…, export_path_mesh=True)` as written (back-tracking + `build_path`
translated): when every requested target is connected to the start, every segment of the polyline joins two mesh
vertices that are adjacent in the mesh, the polyline has `Σ (len(path) − 1)` segments and its vertex list is the
concatenation of the returned paths. -/
theorem source_export_segments_are_edges (hpop : PopOK pop) (hnn : NonNeg adj) (hwf : WF adj n) (hs : start < n)
    (targets : List Nat) (hconn : ∀ t ∈ targets, ∃ l W, PathW adj start t l W) :
    ∃ ps : List (List Nat), shortestPath_src pop adj n start targets = ps.map Res.ok ∧
      (C09G.spReturn true ps).2 = some (C09G.buildPath ps) ∧ (C09G.buildPath ps).1 = ps.flatten ∧
      (C09G.buildPath ps).2.length = (ps.map (fun l => l.length - 1)).sum ∧
      ∀ e ∈ (C09G.buildPath ps).2, ∃ x y w, (C09G.buildPath ps).1[e.1]? = some x ∧ (C09G.buildPath ps).1[e.2]? = some y ∧
        (y, w) ∈ adj x := by
  have key : ∀ ts : List Nat, (∀ t ∈ ts, ∃ l W, PathW adj start t l W) →
      ∃ ps : List (List Nat), ts.map (pathTo (run pop adj n start) n start) = ps.map Res.ok ∧
        ∀ l ∈ ps, ∃ a t W, PathW adj a t l W := by
    intro ts
    induction ts with
    | nil => intro _; exact ⟨[], rfl, by simp⟩
    | cons t ts ih =>
      intro h
      obtain ⟨ps, h1, h2⟩ := ih (fun t' ht' => h t' (List.mem_cons_of_mem _ ht'))
      obtain ⟨l, d, e1, _, _, e4, _⟩ := dijkstra_optimal hpop hnn hwf hs (h t (List.mem_cons_self ..))
      refine ⟨l :: ps, by simp [e1, h1], ?_⟩
      intro l' hl'
      rcases List.mem_cons.mp hl' with rfl | hl'
      · exact ⟨start, t, d, e4⟩
      · exact h2 l' hl'
  obtain ⟨ps, h1, h2⟩ := key targets hconn
  refine ⟨ps, ?_, rfl, ?_, ?_, ?_⟩
  · rw [bridge_shortestPath]; exact h1
  · rw [bridge_buildPath]; exact (build_path_spec ps).1
  · rw [bridge_buildPath]; exact (build_path_spec ps).2.2.2
  · rw [bridge_buildPath]; exact path_mesh_segments_are_edges ps h2

end

/-! ### non-vacuity (tests of the translated definitions) -/

example : C09G.buildPath [[0, 1, 2], [0, 3]] = ([0, 1, 2, 0, 3], [(0, 1), (1, 2), (3, 4)]) := by decide
example : C09G.pathTo_sp (run PQ.pop (adjOf exEdges) 6 0) 6 0 3 = .ok [0, 1, 2, 3] := by decide +kernel
example : shortestPath_src PQ.pop (adjOf exEdges) 6 0 [3, 5] = [.ok [0, 1, 2, 3], .keyError] := by decide +kernel
example : vertexSet_full PQ.pop (adjOf exEdges) 6 0 [5, 3] false = some (.ok [0, 1, 2, 3], 3) := by decide +kernel
example : vertexSet_full PQ.pop (adjOf exEdges) 6 0 [2] true = some (.ok [0, 1, 2], 2) := by decide +kernel
example : vertexSet_full PQ.pop (adjOf exEdges) 6 0 [] true = none := by decide +kernel
/-- positive weights, start in the set: trivial path (hypotheses of `vertex_set_start_in_set` are satisfiable) -/
example : vertexSet PQ.pop (adjOf [(0, 1, 2), (1, 2, 1)]) 3 1 [2, 1] = (.ok [1], 1) := by decide +kernel

/-- the dict of dicts as written on the example graph (edges numbered 0..4, mode custom with the weights of `exEdges`):
vertex 2 sees 1, 0, 3 in edge order, then the sink 6; the sink sees the targets -/
example : C09G.connBuild .custom (fun _ => 0) (fun e => [2, 2, 5, 0, 1].getD e 0)
    [(0, 0, 1), (1, 1, 2), (2, 0, 2), (3, 2, 3), (4, 4, 5)] 6 [3, 2] 2 = [(1, 2), (0, 5), (3, 0), (6, 0)] := by decide +kernel
example : C09G.connBuild .one (fun _ => 0) (fun _ => 0) [(0, 0, 1), (1, 1, 2)] 3 [2, 0] 3 = [(2, 0), (0, 0)] := by decide +kernel
example : vertexSet_conn PQ.pop .custom (fun _ => 0) (fun e => [2, 2, 5, 0, 1].getD e 0)
    [(0, 0, 1), (1, 1, 2), (2, 0, 2), (3, 2, 3), (4, 4, 5)] 6 0 [5, 3] false = some (.ok [0, 1, 2, 3], 3) := by decide +kernel

end Mouette.Props.C09
