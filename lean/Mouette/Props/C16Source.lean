import Mouette.Lemmas.CutSourceBridge2
import Mouette.Lemmas.CutSourceBridge3
import Mouette.Lemmas.DualBridge
import Mouette.Lemmas.CuttingForest
import Mouette.Lemmas.SpanBridge
import Mouette.Lemmas.SpanFBridge
import Mathlib.Data.List.Perm.Basic
import Mathlib.Data.List.Nodup
import Mathlib.Tactic.NormNum
import Mouette.Props.C16
import Mouette.Props.C09
/-!
# C16 (round 4) — the theorems of `Props/C16.lean` transferred to what the SOURCE says now

`vlib/gen/c16_translate.py` re-extracts, on every run, `SingularityCutter._build_cut_edges_tree`, `_prune_edge_tree`,
`run` / `_run_no_features` / `_run_with_features` and three loops of `_build_mesh_with_cuts` from `$MOUETTE_REPO`
into state-passing Lean definitions (`Generated/C16Cut.lean`; vocabulary `Model/CutSource.lean`: the dict `cut_adj` is an
explicit component of the state, `edge_id` is a lookup in the edge table). This file proves

* BRIDGES (refinement): the translated `_build_cut_edges_tree` produces the model's `cutEdges0` and an adjacency dict
  that IS the adjacency of the cut edges (`build_cut_edges_tree_source`); the translated `_prune_edge_tree` — with its
  `remove` on `cut_adj[B]`, `cut_edges.remove(edge_id(A,B))`, guard, `append`, `cut_adj[A] = set()` — reaches the model's
  `prune` (same cut list, same queue, and `cut_adj` still the adjacency of the cut list) (`prune_source`); `run` is
  stage 1, stage 2, `_build_cut_edges_tree`, `_prune_edge_tree` in that order (`run_source`); the corner numbering,
  the union loop and the `imap` loop of `_build_mesh_with_cuts` compute the model's `cornerFaces`/`cornerVerts`,
  `unionPairs`+`applyUnions`, `buildImap` (`corner_loop_source`, `union_loop_source`, `imap_loop_source`, `build_source`);
* the headline theorems restated on the extracted definitions: `cut_adj_is_adjacency_source`, `prune_only_removes_source`,
  `prune_keeps_loops_source` (cut graph ⊇ border), `prune_keeps_singular_core_source`, `prune_fixpoint_source`
  (empty queue; no non-singular leaf left — on the dict `cut_adj` of the source).
The hypothesis `Simple E` (the edge table has no loop and no repeated edge) is a property of `mesh.edges` (C02).
A semantic change of the source makes a bridge fail (broken obligation -> failing-input search); an unrecognised shape
makes the translator return `ok: False`.
-/
namespace Mouette.Props.C16Source
open Mouette Mouette.Cutting Mouette.CutSrc Mouette.UF
open Mouette.Generated

/-! ## bridges -/

/-- `_build_cut_edges_tree` as written: `cut_edges = set(id_edges) − evisited`, and `cut_adj` is the adjacency of it -/
theorem build_cut_edges_tree_source {E : List (Nat × Nat)} (sp : Simple E) (evisited : List Nat) :
    (C16.buildCutEdgesTree E.length E evisited).cut = cutEdges0 E.length evisited ∧
    ∀ v, (C16.buildCutEdgesTree E.length E evisited).adj v = adj E (cutEdges0 E.length evisited) v :=
  ⟨(buildCutEdgesTree_rel sp evisited).cut, (buildCutEdgesTree_rel sp evisited).adj⟩

/-- `_prune_edge_tree` as written refines the hand model: from a state whose `cut_adj` is the adjacency of `cut_edges`
it ends with the model's cut list, the model's queue, and `cut_adj` again the adjacency of the cut list -/
theorem prune_source {E : List (Nat × Nat)} (sp : Simple E) (nV : Nat) (sing : List Nat) (s : St) (cut : List Nat)
    (nd : cut.Nodup) (hc : s.cut = cut) (ha : ∀ v, s.adj v = adj E cut v) :
    (C16.pruneEdgeTree nV E sing s).cut = (prune nV E cut sing).1 ∧
    (C16.pruneEdgeTree nV E sing s).queue = (prune nV E cut sing).2 ∧
    ∀ v, (C16.pruneEdgeTree nV E sing s).adj v = adj E (prune nV E cut sing).1 v := by
  have r : Rel E { s with queue := [] } (cut, []) := ⟨hc, rfl, ha⟩
  have h := pruneEdgeTree_refines sp nV sing nd r
  have he : C16.pruneEdgeTree nV E sing { s with queue := [] } = C16.pruneEdgeTree nV E sing s := rfl
  rw [he] at h
  exact ⟨h.cut, h.queue, h.adj⟩

/-- `run` as written: whichever branch is taken, the cutter ends in the state the model computes from the dual tree's
edge set of that branch -/
theorem run_source {α β : Type} {E : List (Nat × Nat)} (sp : Simple E) (hf : Bool) (nV : Nat) (sing : List Nat)
    (tF : α) (dF : α → List Nat) (tN : β) (dN : β → List Nat) :
    let ev := if hf then dF tF else dN tN
    (C16.run hf nV E.length E sing tF dF tN dN).cut = (prune nV E (cutEdges0 E.length ev) sing).1 ∧
    (C16.run hf nV E.length E sing tF dF tN dN).queue = (prune nV E (cutEdges0 E.length ev) sing).2 ∧
    ∀ v, (C16.run hf nV E.length E sing tF dF tN dN).adj v = adj E (prune nV E (cutEdges0 E.length ev) sing).1 v :=
  ⟨(run_refines sp hf nV sing tF dF tN dN).cut, (run_refines sp hf nV sing tF dF tN dN).queue,
   (run_refines sp hf nV sing tF dF tN dN).adj⟩

/-- the two variants call their own spanning-tree and dual-tree stages, then `_build_cut_edges_tree`, then
`_prune_edge_tree` -/
theorem run_stages_source :
    C16.runNoFeaturesStages = ["_build_singularity_spanning_tree_no_features", "_build_dual_tree_no_features",
      "_build_cut_edges_tree", "_prune_edge_tree"] ∧
    C16.runWithFeaturesStages = ["_build_singularity_spanning_tree_with_features", "_build_dual_tree_with_features",
      "_build_cut_edges_tree", "_prune_edge_tree"] := run_stages

theorem corner_loop_source (F : List Face) :
    (C16.cornerLoop F).faces = cornerFaces F ∧ (C16.cornerLoop F).verts = cornerVerts F ∧
    (C16.cornerLoop F).dup = (cornerVerts F).zipIdx ∧ (C16.cornerLoop F).kF = (cornerVerts F).length :=
  cornerLoop_bridge F

theorem union_loop_source (F : List Face) (E : List (Nat × Nat)) (cut interior : List Nat) (s0 : State) :
    C16.unionLoop F E cut (C16.cornerLoop F).faces interior s0 =
      (unionPairs (halfEdges F) (cornerFaces F) (uncutPairs E interior cut)).map (applyUnions s0) := by
  rw [(cornerLoop_bridge F).1]; exact unionLoop_bridge F E cut interior s0

theorem imap_loop_source (faces : List (List Nat)) :
    (C16.imapLoop faces).imap = buildImap faces ∧ (C16.imapLoop faces).i = (buildImap faces).length :=
  imapLoop_bridge faces

/-- The model's `build` goes through the three translated loops: for every successful build of a triangle list with the
uncut pairs the source selects (`for e in interior_edges: if e not in cut_edges`), the translated union loop started on
`UnionFind(range(3F))` over the translated corner numbering succeeds with the union-find state whose classes give the
output, the output vertex of a corner is the translated `imap` of its root, and the positions are ordered by it. -/
theorem build_source {nV : Nat} {F : List Face} {E : List (Nat × Nat)} {interior cut : List Nat} {o : Out}
    (tri : AllTri F) (h : build nV F (uncutPairs E interior cut) = .ok o) :
    ∃ s1, C16.unionLoop F E cut (C16.cornerLoop F).faces interior (ufRange (3 * F.length)) = some s1 ∧
      o.roots3.flatten = (List.range (3 * F.length)).map (classOf s1) ∧
      (∀ c, c < 3 * F.length → newOf o c = look (C16.imapLoop o.roots3).imap (classOf s1 c)) ∧
      o.pos = orderVerts (C16.imapLoop o.roots3).imap (C16.cornerLoop F).verts := by
  obtain ⟨ps, s1, fl⟩ := build_flat tri h
  refine ⟨s1, ?_, fl.roots3, ?_, ?_⟩
  · rw [union_loop_source, fl.hps, fl.hs1]; rfl
  · intro c hc; rw [(imapLoop_bridge o.roots3).1]; exact fl.newOf_eq c hc
  · rw [(imapLoop_bridge o.roots3).1, (cornerLoop_bridge F).2.1]; exact fl.pos

/-! ## the property theorems, on the extracted definitions -/

/-- `cut_adj` describes `cut_edges` after `run`: `w ∈ cut_adj[v]` iff some cut edge joins `v` and `w` -/
theorem cut_adj_is_adjacency_source {α β : Type} {E : List (Nat × Nat)} (sp : Simple E) (hf : Bool) (nV : Nat)
    (sing : List Nat) (tF : α) (dF : α → List Nat) (tN : β) (dN : β → List Nat) (v w : Nat) :
    w ∈ (C16.run hf nV E.length E sing tF dF tN dN).adj v ↔
      ∃ e, e ∈ (C16.run hf nV E.length E sing tF dF tN dN).cut ∧ other E e v = some w := by
  obtain ⟨hc, _, ha⟩ := run_source sp hf nV sing tF dF tN dN
  rw [ha v, hc]; exact mem_adj

/-- only edges that the dual tree did not cross are reported as cut -/
theorem prune_only_removes_source {α β : Type} {E : List (Nat × Nat)} (sp : Simple E) (hf : Bool) (nV : Nat)
    (sing : List Nat) (tF : α) (dF : α → List Nat) (tN : β) (dN : β → List Nat) :
    ∀ e, e ∈ (C16.run hf nV E.length E sing tF dF tN dN).cut →
      e < E.length ∧ e ∉ (if hf then dF tF else dN tN) := by
  intro e he
  rw [(run_source sp hf nV sing tF dF tN dN).1] at he
  exact (Props.C16.cutEdges0_mem _ _ e).mp (Props.C16.prune_subset nV E _ sing e he)

/-- cut graph ⊇ border, on the source: a set `K` of edges not crossed by the dual tree in which every vertex has no or at
least two edges (the border loops) is in `cut_edges` after `run`, whatever the singularities are -/
theorem prune_keeps_loops_source {α β : Type} {E : List (Nat × Nat)} (sp : Simple E) (hf : Bool) (nV : Nat)
    (sing : List Nat) (tF : α) (dF : α → List Nat) (tN : β) (dN : β → List Nat) (K : List Nat)
    (loops : ∀ e, e ∈ K → ∀ A, (other E e A).isSome = true → ∃ e', e' ∈ K ∧ e' ≠ e ∧ (other E e' A).isSome = true)
    (hK : ∀ e, e ∈ K → e < E.length ∧ e ∉ (if hf then dF tF else dN tN)) :
    ∀ e, e ∈ K → e ∈ (C16.run hf nV E.length E sing tF dF tN dN).cut := by
  intro e he
  rw [(run_source sp hf nV sing tF dF tN dN).1]
  exact Props.C16.prune_keeps_loops nV E _ sing K loops
    (fun x hx => (Props.C16.cutEdges0_mem _ _ x).mpr (hK x hx)) e he

/-- … and so is every sub-graph all of whose leaves are singular (paths between singularities, homology loops) -/
theorem prune_keeps_singular_core_source {α β : Type} {E : List (Nat × Nat)} (sp : Simple E) (hf : Bool) (nV : Nat)
    (sing : List Nat) (tF : α) (dF : α → List Nat) (tN : β) (dN : β → List Nat) (K : List Nat)
    (cc : CoreClosed E sing K) (hK : ∀ e, e ∈ K → e < E.length ∧ e ∉ (if hf then dF tF else dN tN)) :
    ∀ e, e ∈ K → e ∈ (C16.run hf nV E.length E sing tF dF tN dN).cut := by
  intro e he
  rw [(run_source sp hf nV sing tF dF tN dN).1]
  exact Props.C16.prune_keeps_singular_core nV E _ sing K cc
    (fun x hx => (Props.C16.cutEdges0_mem _ _ x).mpr (hK x hx)) e he

/-- termination and fixpoint, on the source: `run` ends with an EMPTY queue (the Python `while len(queue)>0` exits by its
own condition within the fuel) and no non-singular vertex has exactly one neighbour left in the dict `cut_adj` -/
theorem prune_fixpoint_source {α β : Type} {E : List (Nat × Nat)} (sp : Simple E) (hf : Bool) (nV : Nat)
    (sing : List Nat) (tF : α) (dF : α → List Nat) (tN : β) (dN : β → List Nat) :
    (C16.run hf nV E.length E sing tF dF tN dN).queue = [] ∧
    ∀ v, v < nV → v ∉ sing → ((C16.run hf nV E.length E sing tF dF tN dN).adj v).length ≠ 1 := by
  obtain ⟨_, hq, ha⟩ := run_source sp hf nV sing tF dF tN dN
  obtain ⟨h1, h2⟩ := Props.C16.prune_fixpoint_run nV E.length E (if hf then dF tF else dN tN) sing
  refine ⟨by rw [hq]; exact h1, ?_⟩
  intro v hv hs
  rw [ha v, adj_length]
  exact h2 v hv hs

/-! ## round 4: the uncut pairs the source selects are distinct undirected edges -/

/-- for a simple edge table the pairs `mesh.edges[e]`, `e` ranging over a duplicate-free list of valid interior edges not in
`cut_edges`, are pairwise distinct and none is the reverse of another: the hypotheses of
`no_corner_starts_two_glued_sides` hold for what `_build_mesh_with_cuts` iterates over -/
theorem uncut_pairs_distinct_source {E : List (Nat × Nat)} (sp : Simple E) (interior cut : List Nat)
    (nd : interior.Nodup) (valid : ∀ e, e ∈ interior → e < E.length) :
    (uncutPairs E interior cut).Nodup ∧
    ∀ x, x ∈ uncutPairs E interior cut → ∀ y, y ∈ uncutPairs E interior cut → x ≠ (y.2, y.1) := by
  have hget : ∀ e, e ∈ interior → E[e]? = some (E.getD e (0, 0)) := by
    intro e he
    rw [List.getD_eq_getElem?_getD, List.getElem?_eq_getElem (valid e he)]; rfl
  unfold uncutPairs
  constructor
  · apply List.Nodup.map_on
    · intro e he e' he' heq
      have h1 := hget e (List.mem_filter.mp he).1
      have h2 := hget e' (List.mem_filter.mp he').1
      rw [heq] at h1
      exact sp.2 e e' _ _ h1 (Or.inl h2)
    · exact nd.filter _
  · intro x hx y hy heq
    obtain ⟨e, he, rfl⟩ := List.mem_map.mp hx
    obtain ⟨e', he', rfl⟩ := List.mem_map.mp hy
    have h1 := hget e (List.mem_filter.mp he).1
    have h2 := hget e' (List.mem_filter.mp he').1
    rw [heq] at h1
    have hee : e' = e := sp.2 e' e (E.getD e' (0, 0)).1 (E.getD e' (0, 0)).2 h2 (Or.inr h1)
    subst hee
    have := sp.1 e' (E.getD e' (0, 0)).1 (E.getD e' (0, 0)).2 h2
    apply this
    have := congrArg Prod.fst heq
    simpa using this

/-- χ = 1 for the cut mesh of the source's uncut edges when these form a dual spanning tree — only `sep` is left -/
theorem euler_characteristic_of_dual_tree_source_partial {nV : Nat} {F : List Face} {E : List (Nat × Nat)}
    {interior cut : List Nat} {o : Out} (sp : Simple E) (tri : AllTri F)
    (nd : interior.Nodup) (valid : ∀ e, e ∈ interior → e < E.length)
    (h : build nV F (uncutPairs E interior cut) = .ok o) (ps : List (Nat × Nat))
    (hps : unionPairs (halfEdges F) (cornerFaces F) (uncutPairs E interior cut) = some ps)
    (tree_size : (uncutPairs E interior cut).length + 1 = F.length)
    (one_class : ∀ es, ps = pairsOfEdges es → (applyUnions (ufRange F.length) (facePairs es)).nComps = 1)
    (sep : ∀ a b, a < 3 * F.length → b < 3 * F.length → sideKey o a = sideKey o b →
      a = b ∨ (a, b) ∈ twins ps ∨ (b, a) ∈ twins ps) :
    (o.pos.length : Int) - (edgeCount o F.length : Int) + (F.length : Int) = 1 := by
  obtain ⟨n1, n2⟩ := uncut_pairs_distinct_source sp interior cut nd valid
  exact Props.C16.euler_characteristic_of_dual_tree_partial2 tri h ps hps n1 n2 tree_size one_class sep

/-! ## round 7: `__init__` — the singular vertices the pruning sees -/

/-- `self.singularities` holds every item of the constructor's argument for every kind of iterable (list kept by reference,
anything else iterated ONCE into a list); `self.singu_set` has the same members when the argument can be iterated again -/
theorem init_singularities_source (isList : Bool) (arg : Iter) :
    (C16.initSingularities isList arg).1 = arg.items ∧
    (arg.oneShot = false → ∀ x, x ∈ (C16.initSingularities isList arg).2 ↔ x ∈ arg.items) :=
  ⟨init_singularities isList arg, fun h x => init_singu_set_reiterable isList arg h x⟩

/-- the container `_prune_edge_tree` tests vertices against (translated: `pruneSingOf`) has exactly the argument's items as
members, also for a ONE-SHOT iterable (generator expression, iterator, `map` object): the singular vertices the pruning stops
at do not depend on the container type -/
theorem prune_reads_singularities_source (isList : Bool) (arg : Iter) (hl : isList = true → arg.oneShot = false) (x : Nat) :
    x ∈ C16.pruneSingOf (C16.initSingularities isList arg) ↔ x ∈ arg.items :=
  prune_reads_singularities isList arg hl x

/-- a generator with items 3, 5 and a re-iterable with a repeated item: the list is complete in both cases -/
example : (C16.initSingularities false ⟨[3, 5], true⟩).1 = [3, 5] ∧ (C16.initSingularities false ⟨[3, 5, 3], false⟩).1 = [3, 5, 3] ∧
    (C16.initSingularities false ⟨[3, 5, 3], false⟩).2 = [3, 5] := by decide

/-! ## round 5: the find loop, the renumbering loop and `order_verts` of `_build_mesh_with_cuts`, as written -/

theorem find_loop_source (uf : State) (faces : List (List Nat)) : C16.findLoop uf faces = findFaces uf faces :=
  findLoop_bridge uf faces

theorem map_loop_source (m : List (Nat × Nat)) (faces : List (List Nat)) : C16.mapLoop m faces = mapFaces m faces :=
  mapLoop_bridge m faces

/-- `order_verts = [None]*len(imap)` + the loop over the old vertices, as written, is the model's `orderVerts` for every
well-formed `imap` (in particular the one the numbering loop builds) -/
theorem order_verts_source (faces1 : List (List Nat)) (cv : List Nat) :
    C16.orderLoop (C16.imapLoop faces1).imap cv = orderVerts (buildImap faces1) cv := by
  rw [(imapLoop_bridge faces1).1]
  exact orderLoop_bridge (buildImap_spec faces1).1 cv

/-- ALL the stages of `_build_mesh_with_cuts` up to the output faces and vertices, on the extracted definitions: a successful
build of the model IS the composition corner numbering → union loop → find loop → `imap` numbering → renumbering loop →
`order_verts` of the translated loops (only the `duplicate_vertices` / `ref_vertex` bookkeeping stays hand-modelled). -/
theorem build_stages_source {nV : Nat} {F : List Face} {E : List (Nat × Nat)} {interior cut : List Nat} {o : Out}
    (h : build nV F (uncutPairs E interior cut) = .ok o) :
    ∃ s1 s2, C16.unionLoop F E cut (C16.cornerLoop F).faces interior (ufRange (3 * F.length)) = some s1 ∧
      C16.findLoop s1 (C16.cornerLoop F).faces = some (s2, o.roots3) ∧
      C16.mapLoop (C16.imapLoop o.roots3).imap o.roots3 = some o.faces ∧
      o.pos = C16.orderLoop (C16.imapLoop o.roots3).imap (C16.cornerLoop F).verts := by
  unfold build at h
  simp only [] at h
  split at h
  · cases h
  · rename_i ps hps
    split at h
    · cases h
    · rename_i s2 faces1 hff
      split at h
      · cases h
      · rename_i faces2 hmf
        split at h
        · cases h
        · split at h
          · cases h
          · injection h with h
            subst h
            refine ⟨applyUnions (ufRange (3 * F.length)) ps, s2, ?_, ?_, ?_, ?_⟩
            · rw [union_loop_source, hps]; rfl
            · rw [find_loop_source, (cornerLoop_bridge F).1]; exact hff
            · rw [map_loop_source, (imapLoop_bridge _).1]; exact hmf
            · rw [order_verts_source, (cornerLoop_bridge F).2.1]

/-- round 6 — the `duplicate_vertices` / `ref_vertex` bookkeeping as written (`dup[v] = {imap[uf.find(u)] for u in dup[v]}`, then
`ref_vertex[u] = v` for `u in dup[v]`, `v` in the order of the dict) produces exactly the writes of the model: with the state
`s2` left by the find loop, the translated loops give `o.ref`. Together with `build_stages_source` EVERY stage of
`_build_mesh_with_cuts` is now read from the source. (`dup[v]` before the first loop is the list of corners of `v`, which is
what the corner numbering loop collects: `corner_loop_source`, `dup = zipIdx`.) -/
theorem build_ref_source {nV : Nat} {F : List Face} {E : List (Nat × Nat)} {interior cut : List Nat} {o : Out}
    (h : build nV F (uncutPairs E interior cut) = .ok o) :
    ∃ s1 s2, C16.unionLoop F E cut (C16.cornerLoop F).faces interior (ufRange (3 * F.length)) = some s1 ∧
      C16.findLoop s1 (C16.cornerLoop F).faces = some (s2, o.roots3) ∧
      (C16.dupLoop s2 (C16.imapLoop o.roots3).imap (cornersOf (C16.cornerLoop F).verts) nV).map
        (fun r => C16.refLoop r.2) = some o.ref := by
  unfold build at h
  simp only [] at h
  split at h
  · cases h
  · rename_i ps hps
    split at h
    · cases h
    · rename_i s2 faces1 hff
      split at h
      · cases h
      · rename_i faces2 hmf
        split at h
        · cases h
        · rename_i s3 rs hfa
          split at h
          · cases h
          · rename_i ws hrw
            injection h with h
            subst h
            refine ⟨applyUnions (ufRange (3 * F.length)) ps, s2, ?_, ?_, ?_⟩
            · rw [union_loop_source, hps]; rfl
            · rw [find_loop_source, (cornerLoop_bridge F).1]; exact hff
            · rw [dupLoop_bridge, (imapLoop_bridge _).1, (cornerLoop_bridge F).2.1]
              simp only []
              rw [hfa]
              exact hrw

/-! ## round 5: the dual Dijkstra of `_build_dual_tree_no_features`, as written

`Generated/C16Dual.lean` is the body of `_build_dual_tree_no_features` read imperatively (initialisations, `while not
queue.empty()`, `queue.get().x`, the `continue` guards, the relaxation with `dist[..]`, `path[..] = e`, `queue.push`, the
returned set). It simulates the C09 Dijkstra model run on the dual graph (`buildDualTree_sim`), so the C09 theorems apply. -/

section dual
open Mouette.PQ Mouette.Dijkstra Mouette.DualSrc
variable (E : List (Nat × Nat)) (f2e : Nat → List Nat) (forbidden : Nat → Bool)
  (opp : Nat → Nat → Nat → Option Nat) (fd : Nat → Nat → Rat)

/-- BRIDGE: the translated function, run with the model's fuel, ends in a state that simulates the C09 Dijkstra on the dual
graph from face 0 (same `fvisited`, `dist`, queue; `path[f] = e` iff the model has a predecessor `g`, and `e` joins `g` to `f`) -/
theorem dual_tree_refines_dijkstra_source (pop : Pop) (nF : Nat) :
    Sim E f2e forbidden opp
      (C16D.buildDualTreeNoFeatures pop (fuel (dualAdj E f2e forbidden opp fd) nF) nF E f2e forbidden opp fd).1
      (run pop (dualAdj E f2e forbidden opp fd) nF 0) :=
  buildDualTree_sim E f2e forbidden opp fd pop nF

/-- the returned set is `{path[f] for f in id_faces if path[f] is not None}` -/
theorem dual_tree_result_source (pop : Pop) (fuel nF : Nat) (e : Nat) :
    e ∈ (C16D.buildDualTreeNoFeatures pop fuel nF E f2e forbidden opp fd).2 ↔
      ∃ f, f < nF ∧ (C16D.buildDualTreeNoFeatures pop fuel nF E f2e forbidden opp fd).1.path f = some e := by
  unfold C16D.buildDualTreeNoFeatures
  simp [idRange, List.mem_filterMap]

/-- TERMINATION: for every min-heap (`PopOK`), non-negative face distances and a mesh with at least one face, the Python
`while not queue.empty()` has exited by its own condition within the fuel: the queue is empty -/
theorem dual_tree_terminates_source {pop : Pop} (hpop : PopOK pop) {nF : Nat} (h0 : 0 < nF)
    (hfd : ∀ g f, 0 ≤ fd g f) (hopp : ∀ a b g f, opp a b g = some f → f < nF) :
    (C16D.buildDualTreeNoFeatures pop (fuel (dualAdj E f2e forbidden opp fd) nF) nF E f2e forbidden opp fd).1.queue = [] := by
  have S := buildDualTree_sim E f2e forbidden opp fd pop nF
  rw [S.queue]
  exact (final_run hpop (dualAdj_nonneg E f2e forbidden opp fd hfd) (dualAdj_wf E f2e forbidden opp fd hopp) h0).empty

/-- THE TREE EDGES: there is an order of the visited faces (the order in which they were popped) such that every `path[f] = e`
is a non-forbidden edge of `face_to_edges(g)` whose opposite face is `f`, for a VISITED face `g` that comes BEFORE `f`
in that order, and `f` is not the root face 0. Following `path` therefore strictly decreases the position: the returned
edges form a forest of the dual graph rooted at face 0 (no cycle). -/
theorem dual_tree_is_forest_source {pop : Pop} (hpop : PopOK pop) {nF : Nat} (h0 : 0 < nF)
    (hfd : ∀ g f, 0 ≤ fd g f) (hopp : ∀ a b g f, opp a b g = some f → f < nF) :
    let s := (C16D.buildDualTreeNoFeatures pop (fuel (dualAdj E f2e forbidden opp fd) nF) nF E f2e forbidden opp fd).1
    ∃ order : List Nat, order.Nodup ∧ (∀ f, s.visited f = true ↔ f ∈ order) ∧
      ∀ f e, s.path f = some e → f ≠ 0 ∧ ∃ g, s.visited g = true ∧ Joins E f2e forbidden opp e g f ∧
        (s.visited f = true → order.idxOf g < order.idxOf f) := by
  intro s
  have S := buildDualTree_sim E f2e forbidden opp fd pop nF
  have F := final_run hpop (dualAdj_nonneg E f2e forbidden opp fd hfd) (dualAdj_wf E f2e forbidden opp fd hopp) h0
  obtain ⟨v, b, order, I⟩ := F.reach
  refine ⟨order, I.order_nodup, ?_, ?_⟩
  · intro f; show s.visited f = true ↔ _; rw [S.visited]; exact I.vis_iff f
  · intro f e hfe
    obtain ⟨g, hg, J⟩ := S.path_some f e hfe
    obtain ⟨hvis, hne, _, hidx⟩ := I.pred_ok f g hg
    refine ⟨hne, g, ?_, J, ?_⟩
    · show s.visited g = true; rw [S.visited]; exact hvis
    · intro hv; apply hidx; rw [← S.visited]; exact hv

/-- SPANNING: a face is labelled (finite `dist`) exactly when a walk of non-forbidden interior edges joins face 0 to it; every
such face is visited, and every such face other than face 0 has a tree edge `path[f]` -/
theorem dual_tree_spans_source {pop : Pop} (hpop : PopOK pop) {nF : Nat} (h0 : 0 < nF)
    (hfd : ∀ g f, 0 ≤ fd g f) (hopp : ∀ a b g f, opp a b g = some f → f < nF) (f : Nat) :
    let s := (C16D.buildDualTreeNoFeatures pop (fuel (dualAdj E f2e forbidden opp fd) nF) nF E f2e forbidden opp fd).1
    ((∃ d, s.dist f = some d) ↔ ∃ l W, PathW (dualAdj E f2e forbidden opp fd) 0 f l W) ∧
    ((∃ d, s.dist f = some d) → s.visited f = true ∧ (f ≠ 0 → ∃ e, s.path f = some e)) := by
  intro s
  have S := buildDualTree_sim E f2e forbidden opp fd pop nF
  have nn := dualAdj_nonneg E f2e forbidden opp fd hfd
  have wf := dualAdj_wf E f2e forbidden opp fd hopp
  have F := final_run hpop nn wf h0
  constructor
  · show (∃ d, s.dist f = some d) ↔ _
    rw [S.dist]; exact Props.C09.reachable_iff_walk hpop nn wf h0 f
  · rintro ⟨d, hd⟩
    have hd' : (run pop (dualAdj E f2e forbidden opp fd) nF 0).dist f = some d := by rw [← S.dist]; exact hd
    refine ⟨by show s.visited f = true; rw [S.visited]; exact F.visited_of_dist hd', ?_⟩
    intro hne
    obtain ⟨v, b, order, I⟩ := F.reach
    obtain ⟨p, hp⟩ := I.pred_some f d hne hd'
    cases hs : s.path f with
    | some e => exact ⟨e, rfl⟩
    | none => rw [S.path_none f hs] at hp; cases hp

/-- everything the Euler count needs about the translated dual tree, in one statement: an order of the visited faces (all
`< nF`) in which every visited face other than face 0 has a tree edge `path[f] = e` joining it to an EARLIER visited face;
and `path[f]` is only set for visited faces other than face 0 -/
theorem dual_tree_structure_source {pop : Pop} (hpop : PopOK pop) {nF : Nat} (h0 : 0 < nF)
    (hfd : ∀ g f, 0 ≤ fd g f) (hopp : ∀ a b g f, opp a b g = some f → f < nF) :
    let s := (C16D.buildDualTreeNoFeatures pop (fuel (dualAdj E f2e forbidden opp fd) nF) nF E f2e forbidden opp fd).1
    ∃ order : List Nat, order.Nodup ∧ (∀ f, f ∈ order ↔ s.visited f = true) ∧ (∀ f, f ∈ order → f < nF) ∧
      (∀ f, f ∈ order → f ≠ 0 → ∃ e g, s.path f = some e ∧ g ∈ order ∧ order.idxOf g < order.idxOf f ∧
        Joins E f2e forbidden opp e g f) ∧
      (∀ f e, s.path f = some e → f ∈ order ∧ f ≠ 0) := by
  intro s
  have S := buildDualTree_sim E f2e forbidden opp fd pop nF
  have F := final_run hpop (dualAdj_nonneg E f2e forbidden opp fd hfd) (dualAdj_wf E f2e forbidden opp fd hopp) h0
  obtain ⟨v, b, order, I⟩ := F.reach
  have hvis : ∀ f, f ∈ order ↔ s.visited f = true := by
    intro f; show _ ↔ s.visited f = true; rw [S.visited]; exact (I.vis_iff f).symm
  refine ⟨order, I.order_nodup, hvis, I.vis_lt, ?_, ?_⟩
  · intro f hf hne
    have hv : (run pop (dualAdj E f2e forbidden opp fd) nF 0).visited f = true := (I.vis_iff f).mpr hf
    obtain ⟨du, hdu, _⟩ := I.vis_dist f hv
    obtain ⟨g, hg⟩ := I.pred_some f du hne hdu
    obtain ⟨hgv, _, _, hidx⟩ := I.pred_ok f g hg
    cases hs : s.path f with
    | none => rw [S.path_none f hs] at hg; cases hg
    | some e =>
      obtain ⟨g', hg', J⟩ := S.path_some f e hs
      rw [hg] at hg'; injection hg' with hg'; subst hg'
      exact ⟨e, g, rfl, (I.vis_iff g).mp hgv, hidx hv, J⟩
  · intro f e hfe
    obtain ⟨g, hg, _⟩ := S.path_some f e hfe
    obtain ⟨_, hne, ⟨w, dp, _, _, hd⟩, _⟩ := I.pred_ok f g hg
    exact ⟨(I.vis_iff f).mp (F.visited_of_dist hd), hne⟩

end dual

/-! ## round 6: χ = 1 on the source's own dual tree

The cut mesh built from the complement of the edge set returned by the TRANSLATED `_build_dual_tree_no_features` (before
pruning: `cut_edges = set(id_edges) − evisited`) has Euler characteristic 1, provided the dual graph is connected. "Forest
edges are effective in any order" is obtained by counting (`effective_of_spanning_tree`): the tree has `F − 1` edges and
unites all the faces, so each of the `F − 1` unions was effective, in whatever order `interior_edges` lists them. -/

section euler
open Mouette.PQ Mouette.Dijkstra Mouette.DualSrc

/-- `opposite_face` / `face_to_edges` agree with the half-edge table of the faces: an edge that joins `g` to `f` is a valid
interior edge whose two half edges lie in `g` and `f` (hypothesis on the connectivity queries, C01) -/
def LinkOK (F : List Face) (E : List (Nat × Nat)) (interior : List Nat) (f2e : Nat → List Nat) (forbidden : Nat → Bool)
    (opp : Nat → Nat → Nat → Option Nat) : Prop :=
  ∀ e g f, Joins E f2e forbidden opp e g f → e < E.length ∧ e ∈ interior ∧
    ∃ fp, FacesOf F (E.getD e (0, 0)) fp ∧ ((fp.1 = g ∧ fp.2 = f) ∨ (fp.1 = f ∧ fp.2 = g))

theorem euler_characteristic_of_source_dual_tree_partial {nV : Nat} {F : List Face} {E : List (Nat × Nat)}
    {interior : List Nat} {o : Out} (f2e : Nat → List Nat) (forbidden : Nat → Bool)
    (opp : Nat → Nat → Nat → Option Nat) (fd : Nat → Nat → Rat) {pop : Pop}
    (sp : Simple E) (tri : AllTri F) (hpop : PopOK pop) (h0 : 0 < F.length)
    (hfd : ∀ g f, 0 ≤ fd g f) (hopp : ∀ a b g f, opp a b g = some f → f < F.length)
    (link : LinkOK F E interior f2e forbidden opp)
    (conn : ∀ f, f < F.length → ∃ l W, PathW (dualAdj E f2e forbidden opp fd) 0 f l W)
    (nd : interior.Nodup) (valid : ∀ e, e ∈ interior → e < E.length) :
    let ev := (C16D.buildDualTreeNoFeatures pop (fuel (dualAdj E f2e forbidden opp fd) F.length) F.length E f2e forbidden
      opp fd).2
    let uncut := uncutPairs E interior (cutEdges0 E.length ev)
    ∀ (_ : build nV F uncut = .ok o) (ps : List (Nat × Nat))
      (_ : unionPairs (halfEdges F) (cornerFaces F) uncut = some ps)
      (_ : ∀ a b, a < 3 * F.length → b < 3 * F.length → sideKey o a = sideKey o b →
        a = b ∨ (a, b) ∈ twins ps ∨ (b, a) ∈ twins ps),
      uncut.length + 1 = F.length ∧ effCount (ufRange (3 * F.length)) ps = ps.length ∧
      (o.pos.length : Int) - (edgeCount o F.length : Int) + (F.length : Int) = 1 := by
  intro ev uncut h ps hps sep
  set nF := F.length with hnF
  set s := (C16D.buildDualTreeNoFeatures pop (fuel (dualAdj E f2e forbidden opp fd) nF) nF E f2e forbidden opp fd).1 with hs
  obtain ⟨order, ond, ovis, olt, otree, opath⟩ := dual_tree_structure_source E f2e forbidden opp fd hpop h0 hfd hopp
  -- every face is visited
  have hall : ∀ f, f < nF → f ∈ order := by
    intro f hf
    have := (dual_tree_spans_source E f2e forbidden opp fd hpop h0 hfd hopp f)
    obtain ⟨hiff, himp⟩ := this
    exact (ovis f).mpr (himp (hiff.mpr (conn f hf))).1
  -- membership in the returned set
  have hev : ∀ e, e ∈ ev ↔ ∃ f, f < nF ∧ s.path f = some e :=
    fun e => dual_tree_result_source E f2e forbidden opp fd pop _ nF e
  -- the tree edge of a face determines the face
  have pinj : ∀ f f' e, s.path f = some e → s.path f' = some e → f = f' := by
    intro f f' e h1 h2
    obtain ⟨hf, hf0⟩ := opath f e h1
    obtain ⟨hf', hf0'⟩ := opath f' e h2
    obtain ⟨e1, g, hp1, hg, hlt, J⟩ := otree f hf hf0
    obtain ⟨e2, g', hp2, hg', hlt', J'⟩ := otree f' hf' hf0'
    rw [h1] at hp1; injection hp1 with hp1; subst hp1
    rw [h2] at hp2; injection hp2 with hp2; subst hp2
    obtain ⟨_, _, fp, ⟨i1, j1, i2, j2, d1, d2⟩, c⟩ := link e g f J
    obtain ⟨_, _, fp', ⟨i1', j1', i2', j2', d1', d2'⟩, c'⟩ := link e g' f' J'
    rw [d1] at d1'; rw [d2] at d2'
    have e1 : fp.1 = fp'.1 := by injection d1' with d; exact (Prod.mk.inj d).1
    have e2 : fp.2 = fp'.2 := by injection d2' with d; exact (Prod.mk.inj d).1
    rcases c with ⟨a1, a2⟩ | ⟨a1, a2⟩ <;> rcases c' with ⟨b1, b2⟩ | ⟨b1, b2⟩
    · rw [← a2, ← b2, e2]
    · -- f' = g and g' = f : both orders cannot hold
      have hfg : f' = g := by rw [← b1, ← a1, e1]
      have hgf : g' = f := by rw [← b2, ← a2, e2]
      subst hfg; subst hgf
      omega
    · have hfg : g' = f := by rw [← b1, ← a1, e1]
      have hgf : f' = g := by rw [← b2, ← a2, e2]
      subst hfg; subst hgf
      omega
    · rw [← a1, ← b1, e1]
  -- the ids of the uncut edges: exactly the returned set
  set ids := interior.filter (fun e => !(cutEdges0 E.length ev).contains e) with hids
  have huncut : uncut = ids.map (fun e => E.getD e (0, 0)) := rfl
  have ids_nd : ids.Nodup := nd.filter _
  have ids_mem : ∀ e, e ∈ ids ↔ e ∈ ev := by
    intro e
    rw [hids, List.mem_filter]
    constructor
    · rintro ⟨hi, hc⟩
      have hc' : e ∉ cutEdges0 E.length ev := by simpa using hc
      by_contra hne
      exact hc' ((Props.C16.cutEdges0_mem _ _ e).mpr ⟨valid e hi, hne⟩)
    · intro he
      obtain ⟨f, hf, hp⟩ := (hev e).mp he
      obtain ⟨hfo, hf0⟩ := opath f e hp
      obtain ⟨e', g, hp', _, _, J⟩ := otree f hfo hf0
      rw [hp] at hp'; injection hp' with hp'; subst hp'
      obtain ⟨_, hint, _⟩ := link e g f J
      refine ⟨hint, ?_⟩
      have : e ∉ cutEdges0 E.length ev := fun hc => ((Props.C16.cutEdges0_mem _ _ e).mp hc).2 he
      simpa using this
  -- F − 1 of them
  set tl := (List.range' 1 (nF - 1)).map (fun f => (s.path f).getD 0) with htl
  have tl_some : ∀ f, f ∈ List.range' 1 (nF - 1) → s.path f = some ((s.path f).getD 0) := by
    intro f hf
    obtain ⟨h1, h2⟩ := List.mem_range'_1.mp hf
    obtain ⟨e, g, hp, _⟩ := otree f (hall f (by omega)) (by omega)
    rw [hp]; rfl
  have tl_nd : tl.Nodup := by
    apply List.Nodup.map_on _ (List.nodup_range' 1)
    intro f hf f' hf' heq
    have a := tl_some f hf
    have b := tl_some f' hf'
    rw [heq] at a
    exact pinj f f' _ a b
  have tl_mem : ∀ e, e ∈ tl ↔ e ∈ ids := by
    intro e
    rw [ids_mem, hev, htl, List.mem_map]
    constructor
    · rintro ⟨f, hf, rfl⟩
      obtain ⟨h1, h2⟩ := List.mem_range'_1.mp hf
      exact ⟨f, by omega, tl_some f hf⟩
    · rintro ⟨f, hf, hp⟩
      obtain ⟨_, hf0⟩ := opath f e hp
      exact ⟨f, List.mem_range'_1.mpr ⟨by omega, by omega⟩, by rw [hp]; rfl⟩
  have hlen : ids.length = nF - 1 := by
    have := ((List.perm_ext_iff_of_nodup tl_nd ids_nd).mpr tl_mem).length_eq
    rw [← this, htl]; simp
  have tree_size : uncut.length + 1 = nF := by rw [huncut, List.length_map, hlen]; omega
  -- the uncut pairs are distinct undirected edges
  obtain ⟨und, unorev⟩ := uncut_pairs_distinct_source sp interior (cutEdges0 E.length ev) nd valid
  have hne : ∀ ab, ab ∈ uncut → ab.1 ≠ ab.2 := by
    intro ab hab heq
    apply unorev ab hab ab hab
    cases ab with
    | mk a b => simp only [] at heq; subst heq; rfl
  obtain ⟨fp, fplen, fpb, fpfaces, fpeff⟩ := corner_unions_effective_of_face_unions tri ps hps hne
  -- the dual edges form a spanning tree: all face unions are effective
  have feff : effCount (ufRange nF) fp = fp.length := by
    apply effective_of_spanning_tree nF fp fpb (by rw [fplen]; exact tree_size) order 0 h0 hall
    intro f hf hf0
    obtain ⟨e, g, hp, hg, hlt, J⟩ := otree f hf hf0
    refine ⟨g, hg, hlt, ?_⟩
    have heids : e ∈ ids := (ids_mem e).mpr ((hev e).mpr ⟨f, olt f hf, hp⟩)
    have hab : E.getD e (0, 0) ∈ uncut := by rw [huncut]; exact List.mem_map.mpr ⟨e, heids, rfl⟩
    obtain ⟨q, hq, ⟨i1, j1, i2, j2, d1, d2⟩⟩ := forall₂_mem_left fpfaces _ hab
    obtain ⟨_, _, fp0, ⟨i1', j1', i2', j2', d1', d2'⟩, c⟩ := link e g f J
    rw [d1] at d1'; rw [d2] at d2'
    have e1 : q.1 = fp0.1 := by injection d1' with d; exact (Prod.mk.inj d).1
    have e2 : q.2 = fp0.2 := by injection d2' with d; exact (Prod.mk.inj d).1
    rcases c with ⟨a1, a2⟩ | ⟨a1, a2⟩
    · left; have : q = (g, f) := by cases q; simp only [] at e1 e2; rw [e1, e2, a1, a2]
      rw [← this]; exact hq
    · right; have : q = (f, g) := by cases q; simp only [] at e1 e2; rw [e1, e2, a1, a2]
      rw [← this]; exact hq
  have alleff := fpeff feff
  obtain ⟨hR, hdisj⟩ := Props.C16.no_corner_starts_two_glued_sides tri uncut ps hps und unorev
  exact ⟨tree_size, alleff, Props.C16.euler_characteristic_partial tri h ps hps tree_size alleff hR hdisj sep⟩

end euler


/-! ### a concrete instance of `euler_characteristic_of_source_dual_tree_partial` (round 7, non-vacuity)

Two triangles `[0,1,2]`, `[0,2,3]` sharing the edge 2 = (0,2); the translated dual Dijkstra (with the executable heap `PQ.pop`)
crosses that edge; every hypothesis of the theorem is established for this input and χ = 1 follows. -/

section instance2
open Mouette.PQ Mouette.Dijkstra Mouette.DualSrc

private def F2 : List Face := [[0, 1, 2], [0, 2, 3]]
private def E2 : List (Nat × Nat) := [(0, 1), (1, 2), (0, 2), (2, 3), (0, 3)]
private def f2e2 : Nat → List Nat := fun g => if g = 0 then [0, 1, 2] else if g = 1 then [2, 3, 4] else []
private def opp2 : Nat → Nat → Nat → Option Nat := fun a b g =>
  if a = 0 ∧ b = 2 ∧ g = 0 then some 1 else if a = 0 ∧ b = 2 ∧ g = 1 then some 0 else none

private theorem simple2 : Simple E2 := by
  constructor
  · intro e a b h
    have : e < 5 := (List.getElem?_eq_some_iff.mp h).1
    match e, this with
    | 0, _ | 1, _ | 2, _ | 3, _ | 4, _ => simp [E2] at h <;> omega
  · intro e e' a b h h'
    have he : e < 5 := (List.getElem?_eq_some_iff.mp h).1
    have he' : e' < 5 := by rcases h' with h' | h' <;> exact (List.getElem?_eq_some_iff.mp h').1
    match e, he, e', he' with
    | 0, _, 0, _ | 1, _, 1, _ | 2, _, 2, _ | 3, _, 3, _ | 4, _, 4, _ => rfl
    | 0, _, 1, _ | 0, _, 2, _ | 0, _, 3, _ | 0, _, 4, _ | 1, _, 0, _ | 1, _, 2, _ | 1, _, 3, _ | 1, _, 4, _
    | 2, _, 0, _ | 2, _, 1, _ | 2, _, 3, _ | 2, _, 4, _ | 3, _, 0, _ | 3, _, 1, _ | 3, _, 2, _ | 3, _, 4, _
    | 4, _, 0, _ | 4, _, 1, _ | 4, _, 2, _ | 4, _, 3, _ => simp [E2] at h h' <;> omega

private theorem link2 : LinkOK F2 E2 [2] f2e2 (fun _ => false) opp2 := by
  intro e g f ⟨he, _, ho⟩
  have hg : g = 0 ∨ g = 1 := by
    by_cases h0 : g = 0
    · exact Or.inl h0
    · by_cases h1 : g = 1
      · exact Or.inr h1
      · simp [f2e2, h0, h1] at he
  have he2 : e = 2 := by
    rcases hg with rfl | rfl
    · simp [f2e2] at he
      rcases he with rfl | rfl | rfl
      · simp [opp2, edgeEnds, E2] at ho
      · simp [opp2, edgeEnds, E2] at ho
      · rfl
    · simp [f2e2] at he
      rcases he with rfl | rfl | rfl
      · rfl
      · simp [opp2, edgeEnds, E2] at ho
      · simp [opp2, edgeEnds, E2] at ho
  subst he2
  refine ⟨by simp [E2], by simp, (1, 0), ⟨0, 1, 2, 0, by decide +kernel, by decide +kernel⟩, ?_⟩
  rcases hg with rfl | rfl
  · simp [opp2, edgeEnds, E2] at ho; exact Or.inr ⟨ho.symm ▸ rfl, rfl⟩
  · simp [opp2, edgeEnds, E2] at ho; exact Or.inl ⟨rfl, ho.symm ▸ rfl⟩

example : ∃ o ps, build 4 F2 (uncutPairs E2 [2] (cutEdges0 E2.length
      (C16D.buildDualTreeNoFeatures PQ.pop (fuel (dualAdj E2 f2e2 (fun _ => false) opp2 (fun _ _ => 1)) F2.length) F2.length E2
        f2e2 (fun _ => false) opp2 (fun _ _ => 1)).2)) = .ok o ∧
    effCount (ufRange (3 * F2.length)) ps = ps.length ∧
    (o.pos.length : Int) - (edgeCount o F2.length : Int) + (F2.length : Int) = 1 := by
  have hun : uncutPairs E2 [2] (cutEdges0 E2.length
      (C16D.buildDualTreeNoFeatures PQ.pop (fuel (dualAdj E2 f2e2 (fun _ => false) opp2 (fun _ _ => 1)) F2.length) F2.length E2
        f2e2 (fun _ => false) opp2 (fun _ _ => 1)).2) = [(0, 2)] := by decide +kernel
  cases hb : build 4 F2 [(0, 2)] with
  | error e =>
    have hs : (build 4 F2 [(0, 2)]).toOption.isSome = true := by decide +kernel
    rw [hb] at hs
    simp [Except.toOption] at hs
  | ok o =>
    have hps : unionPairs (halfEdges F2) (cornerFaces F2) [(0, 2)] = some [(3, 0), (4, 2)] := by decide +kernel
    have hyp : (build 4 F2 [(0, 2)]).toOption.map (fun o => edgeHyp o 2 (twins [(3, 0), (4, 2)])) = some true := by
      decide +kernel
    rw [hb] at hyp
    have hyp' : edgeHyp o 2 (twins [(3, 0), (4, 2)]) = true := by simpa [Except.toOption] using hyp
    obtain ⟨_, _, sep⟩ := edgeHyp_sound hyp'
    have tri : AllTri F2 := by intro f hf; simp [F2] at hf; rcases hf with rfl | rfl <;> rfl
    have := euler_characteristic_of_source_dual_tree_partial (nV := 4) (F := F2) (E := E2) (interior := [2]) (o := o)
      f2e2 (fun _ => false) opp2 (fun _ _ => 1) (pop := PQ.pop) simple2 tri Mouette.Dijkstra.popOK_firstMin (by decide)
      (fun _ _ => by norm_num) (by
        intro a b g f h
        simp only [opp2] at h
        split at h
        · injection h with h; subst h; decide
        · split at h
          · injection h with h; subst h; decide
          · cases h) link2
      (by
        intro f hf
        have : f = 0 ∨ f = 1 := by simp [F2] at hf; omega
        rcases this with rfl | rfl
        · exact ⟨[0], 0, PathW.single 0⟩
        · exact ⟨[0, 1], 1 + 0, PathW.cons (by decide +kernel) (PathW.single 1)⟩)
      (by simp) (by intro e he; simp at he; subst he; simp [E2])
    simp only [] at this
    rw [hun] at this
    obtain ⟨_, h2, h3⟩ := this hb [(3, 0), (4, 2)] hps sep
    exact ⟨o, [(3, 0), (4, 2)], by rw [hun]; exact hb, h2, h3⟩

end instance2

/-! ## round 8: `_build_singularity_spanning_tree_no_features` (BORDER node, candidate paths, Kruskal over them), as written

The whole body is compared with the shape `Generated/C16Span.lean` encodes (alpha-renaming of locals, comments, log calls and
annotations apart); a guard in the loop that collects the candidate paths — the blind changes C16-a/e/f/g/h — is a TranslateError. -/

section span
open Mouette.Trees Mouette.SpanSrc

/-- BRIDGE: the Kruskal loop as written is the C10 Kruskal loop on the same entries -/
theorem spanning_tree_kruskal_source (es : List (Rat × (Nat × Nat))) (uf : State) :
    (C16P.spanLoop es uf).1 = (kruskalLoop (es.map asEdge) uf).1 ∧
    (C16P.spanLoop es uf).2.map (fun k => keyify k.1 k.2) = (kruskalLoop (es.map asEdge) uf).2 :=
  spanLoop_bridge es uf

/-- every key of `path_btw_singus` gets an entry of `path_lengths` (no candidate is dropped) -/
theorem all_candidates_offered_source (sing : List Nat) (hasBorder : Bool) (border : Nat) (len : Nat × Nat → Rat) :
    ∀ k, k ∈ C16P.candKeys sing hasBorder border →
      ∃ x, x ∈ C16P.lengthEntries (C16P.candKeys sing hasBorder border) len ∧ x.2 = k := by
  intro k hk
  exact ⟨(len k, k), List.mem_map.mpr ⟨k, hk, rfl⟩, rfl⟩

/-- THE SPANNING FOREST over singularities + BORDER: for any ordering `es` of the length entries (the code sorts them), the keys the
loop selects come from a forest `C` of united pairs, every singularity is linked through `C` to the BORDER node when the mesh has a
border, and any two singularities are linked to each other -/
theorem spanning_forest_source (n : Nat) (sing : List Nat) (hasBorder : Bool) (border : Nat) (len : Nat × Nat → Rat)
    (es : List (Rat × (Nat × Nat))) (hperm : ∀ x, x ∈ es ↔ x ∈ C16P.lengthEntries (C16P.candKeys sing hasBorder border) len)
    (hs : ∀ a, a ∈ sing → a < n) (hb : border < n) :
    ∃ C : List (Nat × Nat), (C16P.spanLoop es (ufInit n)).2.map (fun k => keyify k.1 k.2) = C.reverse.map (fun p => keyify p.1 p.2) ∧
      Indep C ∧ (∀ p, p ∈ C → p ∈ C16P.candKeys sing hasBorder border) ∧
      (hasBorder = true → ∀ a, a ∈ sing → EqvClosure (fun x y => (x, y) ∈ C) border a) ∧
      (∀ i j, i < sing.length → j < sing.length → EqvClosure (fun x y => (x, y) ∈ C) (sing.getD i 0) (sing.getD j 0)) := by
  have hkeys : ∀ k, k ∈ C16P.candKeys sing hasBorder border → k.1 < n ∧ k.2 < n := by
    intro k hk
    unfold C16P.candKeys at hk
    obtain ⟨p, hp, hk⟩ := List.mem_flatMap.mp hk
    have hp1 : p.1 ∈ sing := by
      have h1 := List.mem_zipIdx_iff_getElem?.mp hp
      exact List.mem_of_getElem? h1
    rcases List.mem_append.mp hk with hk | hk
    · obtain ⟨b, hbm, rfl⟩ := List.mem_map.mp hk
      have hb' : b ∈ sing := List.mem_of_mem_drop hbm
      rcases keyify_fst_snd p.1 b with ⟨e1, e2⟩ | ⟨e1, e2⟩ <;> rw [e1, e2]
      · exact ⟨hs _ hp1, hs _ hb'⟩
      · exact ⟨hs _ hb', hs _ hp1⟩
    · cases hasBorder with
      | false => simp at hk
      | true => simp at hk; subst hk; exact ⟨hb, hs _ hp1⟩
  obtain ⟨C, c1, c2, c3, c4, c5⟩ := spanning_forest n sing hasBorder border es
    (fun x hx => by
      obtain ⟨k, hk, rfl⟩ := List.mem_map.mp ((hperm x).mp hx)
      exact hkeys k hk)
    (fun k hk => by
      obtain ⟨x, hx, hxk⟩ := all_candidates_offered_source sing hasBorder border len k hk
      exact ⟨x, (hperm x).mpr hx, hxk⟩)
  refine ⟨C, c1, c2, ?_, c4, c5⟩
  intro p hp
  obtain ⟨x, hx, rfl⟩ := c3 p hp
  obtain ⟨k, hk, rfl⟩ := List.mem_map.mp ((hperm x).mp hx)
  exact hk

/-- only edges of selected paths are flagged -/
theorem flag_loop_source (E : List (Nat × Nat)) (paths : Nat × Nat → List Nat) (selected : List (Nat × Nat)) (e : Nat) :
    e ∈ C16P.flagLoop E paths selected ↔ ∃ k, k ∈ selected ∧ e ∈ C16P.flagPath E (paths k) := by
  unfold C16P.flagLoop; exact List.mem_flatMap

/-- singularities 3 (on the border: its path to the border is the one-vertex path, key `(9,3)`) and 5, BORDER = 9: the candidate keys
contain `(9,3)`, and the loop run on them selects `(9,3)` and `(9,5)`: both singularities hang on the BORDER node -/
example : C16P.candKeys [3, 5] true 9 = [(3, 3), (3, 5), (9, 3), (5, 5), (9, 5)] ∧
    (C16P.spanLoop [(0, (3, 3)), (0, (9, 3)), (0, (5, 5)), (2, (9, 5)), (3, (3, 5))] (ufInit 10)).2 = [(9, 3), (9, 5)] := by
  decide +kernel

end span

/-! ## round 9: `_build_singularity_spanning_tree_with_features`, through the same statement-by-statement site -/

section spanf
open Mouette.SpanSrc

/-- THE FEATURE FOREST: run the breadth-first traversal of the feature graph as written, from any roots (border vertices that are
feature vertices, then the feature vertices closest to the singularities), for any number of iterations. Every pair `(c, p)` whose
edge the traversal flags is a feature adjacency (`c` is reached from `p` through a feature edge), `p` was marked visited strictly
BEFORE `c`, no vertex is visited twice and no vertex is the child of two flagged pairs: the flagged feature edges form a forest
rooted at the roots (in particular two border vertices are never linked through interior feature edges). -/
theorem spanning_forest_with_features_source (featNbrs : Nat → List Nat) (borderFeat closest : List Nat) (fuel : Nat) :
    let s := C16F.bfsWhile featNbrs fuel (C16F.bfsInit borderFeat closest)
    s.visited.Nodup ∧ (s.flags.map Prod.fst).Nodup ∧
    (∀ c p, (c, p) ∈ s.flags → c ∈ featNbrs p ∧ ∃ pre post, s.visited = pre ++ c :: post ∧ p ∈ pre) ∧
    (∀ x p, (x, some p) ∈ s.queue → p ∈ s.visited ∧ x ∈ featNbrs p) := by
  intro s
  have I := binv_while (featNbrs := featNbrs) fuel _ (binv_init featNbrs borderFeat closest)
  exact ⟨I.nodup, I.child, I.flags, I.queue⟩

/-- a feature path 0-1-2-3 whose ends 0 and 3 are border vertices (both roots): the traversal flags (1,0) and (2,3) only: the two
border vertices are NOT linked through the interior feature edges (the round-1 repair) -/
example : (C16F.bfsWhile (fun v => if v = 0 then [1] else if v = 1 then [0, 2] else if v = 2 then [1, 3] else if v = 3 then [2] else [])
    20 (C16F.bfsInit [0, 3] [])).flags = [(1, 0), (2, 3)] := by decide +kernel

end spanf

/-! ## non-vacuity: the extracted definitions, run -/

/-- a triangle loop `0-1-2` with a pendant path `2-3-4`, nothing crossed by the dual tree: the path is pruned -/
example : (C16.run false 5 5 [(0, 1), (1, 2), (0, 2), (2, 3), (3, 4)] [] () (fun _ => ([] : List Nat)) ()
    (fun _ => ([] : List Nat))).cut = [0, 1, 2] := by decide +kernel
example : ((C16.run false 5 5 [(0, 1), (1, 2), (0, 2), (2, 3), (3, 4)] [] () (fun _ => ([] : List Nat)) ()
    (fun _ => ([] : List Nat))).adj 2) = [1, 0] := by decide +kernel
/-- with vertex 4 singular the path stays -/
example : (C16.run true 5 5 [(0, 1), (1, 2), (0, 2), (2, 3), (3, 4)] [4] () (fun _ => ([] : List Nat)) ()
    (fun _ => ([] : List Nat))).cut = [0, 1, 2, 3, 4] := by decide +kernel
example : Simple [(0, 1), (1, 2), (0, 2), (2, 3), (3, 4)] := by
  constructor
  · intro e a b h
    have : e < 5 := (List.getElem?_eq_some_iff.mp h).1
    match e, this with
    | 0, _ | 1, _ | 2, _ | 3, _ | 4, _ => simp at h <;> omega
  · intro e e' a b h h'
    have he : e < 5 := (List.getElem?_eq_some_iff.mp h).1
    have he' : e' < 5 := by rcases h' with h' | h' <;> exact (List.getElem?_eq_some_iff.mp h').1
    match e, he, e', he' with
    | 0, _, 0, _ | 1, _, 1, _ | 2, _, 2, _ | 3, _, 3, _ | 4, _, 4, _ => rfl
    | 0, _, 1, _ | 0, _, 2, _ | 0, _, 3, _ | 0, _, 4, _ | 1, _, 0, _ | 1, _, 2, _ | 1, _, 3, _ | 1, _, 4, _
    | 2, _, 0, _ | 2, _, 1, _ | 2, _, 3, _ | 2, _, 4, _ | 3, _, 0, _ | 3, _, 1, _ | 3, _, 2, _ | 3, _, 4, _
    | 4, _, 0, _ | 4, _, 1, _ | 4, _, 2, _ | 4, _, 3, _ => simp at h h' <;> omega
/-- two triangles glued along the uncut edge (0,2): the translated loops -/
example : (C16.cornerLoop [[0, 1, 2], [0, 2, 3]]).faces = [[0, 1, 2], [3, 4, 5]] ∧
    (C16.cornerLoop [[0, 1, 2], [0, 2, 3]]).dup = [(0, 0), (1, 1), (2, 2), (0, 3), (2, 4), (3, 5)] := by decide +kernel
example : ((C16.unionLoop [[0, 1, 2], [0, 2, 3]] [(0, 1), (1, 2), (0, 2), (2, 3), (0, 3)] [0, 1, 3, 4]
    [[0, 1, 2], [3, 4, 5]] [2] (ufRange 6)).map (fun s => s.nComps)) = some 4 := by decide +kernel
example : (C16.imapLoop [[3, 1, 2], [3, 2, 5]]).imap = [(3, 0), (1, 1), (2, 2), (5, 3)] := by decide +kernel

/-- the dual Dijkstra as written, run: faces 0 and 1 see each other across their edges, face 2 has no opposite face; the
returned set is the single tree edge 10 (`path[1]`) -/
example : (C16D.buildDualTreeNoFeatures PQ.pop 20 3 [] (fun g => if g = 0 then [10] else if g = 1 then [10, 11] else [11, 12])
    (fun _ => false) (fun _ _ g => if g = 0 then some 1 else if g = 1 then some 0 else none) (fun _ _ => 1)).2 = [10] := by
  decide +kernel

/-- forest edges are effective in any order: a path 0-1-2 listed as (2,1),(0,1) -/
example : effCount (ufRange 3) [(2, 1), (0, 1)] = 2 := by decide +kernel
/-- the bookkeeping loops, run: two corners of vertex 7 with roots 5 and 5, `imap = {5: 0}` -/
example : C16.refLoop [(7, [0, 0]), (8, [1])] = [(0, 7), (0, 7), (1, 8)] := by decide

end Mouette.Props.C16Source
