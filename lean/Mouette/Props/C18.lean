import Mouette.Model.FrameField
import Mouette.Lemmas.C18Lemmas
/-
C18 — Surface frame fields are unit, border-aligned and topologically consistent.   (PARTIAL)

Statement (properties.jsonl): for every triangulated surface and every field order the computed frame field has
unit modulus on every element and leaves every constrained element at its constraint (face-based: one branch
tangent to the feature edge of each face having exactly one such edge); for the face-based field every
singularity index flagged at an interior vertex is a whole multiple of the order's quantum and the indices add up
to χ × the documented scale. With smoothing off on a bordered surface the field is the element-wise normalised
harmonic extension of the constrained frames under the library's connection Laplacian, which is Hermitian and
reduces to the scalar Laplacian for a flat connection; directions measured against mesh edges do not depend on
the numbering beyond round-off.

What is proved here (about `Model/FrameField.lean`, for ALL inputs) and what is not:
 * proved: the algebraic scaffolding — normalisation, the fixed/free partition and the solve step, telescoping of
   the holonomy sums for ANY rotations, quantisation of indices by branch matching, Hermitian structure and the
   flat case of the assembled connection Laplacian, the translated constants (`**4`, `*2/pi`) for every order.
 * NOT proved (checked on every run by the oracle and by the exact residual the model computes on the solver's
   output): `spsolve` / inverse power iteration return the harmonic extension — the full clause would read
       theorem harmonic_extension : field = normalizeAll (solve (L_II) (-(L_IB · x_B))) …
   and needs a verified sparse solver (trusted-base item T7); numbering independence "beyond round-off"
   (floating point, T6); the geometric closure of a fan (hypothesis `hG` of `index_quantised`; it is
   Gauss–Bonnet-side geometry over ℝ with atan2, checked numerically per interior vertex in every run).
 * Theorems whose statement is weaker than the clause are named `…_partial`.
-/
namespace Mouette.Props.C18
open Mouette.FF Mouette.Lemmas.C18

/-! ## unit modulus -/

/-- P0. After `var[i] /= abs(var[i])` the squared modulus is 1; the square root `r = abs(z)` is a parameter carrying
its defining hypothesis. -/
theorem normalize_unit (z : Cpx) (r : Rat) (hr : normThreshold < r) (hsqrt : r * r = normSq z) :
    normSq (normalize1 z r) = 1 :=
  normalize1_unit z r hr hsqrt

/-- P0. `FrameField.normalize` on the whole array: every entry above the threshold ends with squared modulus 1. -/
theorem normalize_all_unit (zs : List Cpx) (rs : List Rat)
    (hsqrt : ∀ p ∈ zs.zip rs, p.2 * p.2 = normSq p.1) :
    ∀ p ∈ (normalizeAll zs rs).zip rs, normThreshold < p.2 → normSq p.1 = 1 :=
  normalizeAll_unit zs rs hsqrt

/-- The clause "unit modulus on EVERY element" is only provable for entries above the threshold of the source
(`abs > 1e-10`): an entry the solver returns as 0 stays 0 (this is the open finding `…/vanishing-entry`).
Negation of the full clause on a concrete witness: -/
theorem normalize_unit_fails_on_vanishing_entry : normSq (normalize1 czero 0) ≠ 1 := by
  unfold normalize1 normThreshold Generated.C18.normThreshold normSq czero
  norm_num

/-! ## constrained elements keep their constraint -/

/-- P0. The solve step `var[freeInds] = res` does not touch a constrained entry (flag true ⇒ not in `freeInds`). -/
theorem constrained_untouched (flags : List Bool) (var res : List Cpx) (i : Nat)
    (hfix : flags.getD i false = true) :
    (scatter var (freeInds flags) res).getD i czero = var.getD i czero := by
  apply scatter_untouched
  intro hm
  have := mem_freeInds flags i hm
  rw [hfix] at this
  exact Bool.noConfusion this

/-- every element is either solved for or constrained, never both -/
theorem partition_disjoint (flags : List Bool) (i : Nat) : ¬ (i ∈ freeInds flags ∧ i ∈ fixedInds flags) := by
  intro ⟨h1, h2⟩
  have a := mem_freeInds flags i h1
  unfold fixedInds at h2
  simp only [List.mem_filter] at h2
  rw [a] at h2
  exact Bool.noConfusion h2.2

/-- P0. The final normalisation leaves a unit constraint where it is (its modulus `r` is 1). -/
theorem constrained_survive_normalize (z : Cpx) (r : Rat) (hz : normSq z = 1) (hr : 0 < r) (hsqrt : r * r = normSq z) :
    normalize1 z r = z :=
  normalize1_fixed z r hz hr hsqrt

/-- Face-based constraint, for EVERY order, with the exponent the source uses (translated fragment
`Generated.C18.constraintExponent`): when the feature edge lies on the X axis of the face basis (this is how
`SurfaceConnectionFaces` builds the basis of a face with a feature edge), traversed along or against X, the value
written is the representation `u ** order` of a unit branch `u = ±1`, i.e. a branch tangent to the edge. -/
theorem constraint_tangent_every_order (order : Nat) (x r : Rat) (hx : x ≠ 0) (hr : r * r = x * x) :
    ∃ u : Cpx, (u = cone ∨ u = cneg cone) ∧ cpow u order = constraintValue order (x, 0) r := by
  have hr0 : r ≠ 0 := by
    intro h; rw [h] at hr; simp at hr; exact hx (by nlinarith [hr])
  have hs : (x / r) * (x / r) = 1 := by field_simp; linarith
  have hs' : x / r = 1 ∨ x / r = -1 := by
    have : (x / r - 1) * (x / r + 1) = 0 := by ring_nf; ring_nf at hs; linarith
    rcases mul_eq_zero.mp this with h | h
    · left; linarith
    · right; linarith
  have hc : cdivR (x, 0) r = (x / r, 0) := by unfold cdivR; simp
  unfold constraintValue
  rw [hc, cpow_real]
  unfold Generated.C18.constraintExponent
  rcases hs' with h | h
  · refine ⟨cone, Or.inl rfl, ?_⟩
    rw [cpow_cone, h]; simp [cone]
  · rw [h]
    have hneg : cneg cone = ((-1 : Rat), 0) := by simp [cneg, cone]
    first
    | (refine ⟨cone, Or.inl rfl, ?_⟩
       rw [cpow_cone]
       norm_num [cone]
       done)
    | (refine ⟨cneg cone, Or.inr rfl, ?_⟩
       rw [hneg, cpow_real]
       done)

/-! ## holonomy sums, indices -/

/-- P0. Σ_v (defect_v + Σ_{e∋v} ± rot_e) = Σ_v defect_v for ANY edge rotations on ANY edge list without self
loops: each edge contributes `+rot` at one end and `−rot` at the other (with the polarity read from the source).
With C07 (`Σ defect = 2π χ`) this is the index-sum clause. -/
theorem index_sum_telescopes (nv : Nat) (defect : Nat → Rat) (es : List REdge)
    (hmesh : ∀ e ∈ es, e.a ≠ e.b ∧ e.a < nv ∧ e.b < nv) :
    totalAngle nv defect es = sumTo defect nv :=
  totalAngle_eq nv defect es hmesh

/-- P1. Branch matching: the rotation chosen on an edge equals the transported difference of the two frames up
to a whole number of `1/order` turns (all angles in turns). -/
theorem matching_quantised (n : Nat) (hn : 0 < n) (th1 a1 th2 a2 : Rat) :
    ∃ j : Int, (n : Rat) * edgeRot n th1 a1 th2 a2 = (th2 - th1) - (n : Rat) * (a2 - a1) + (j : Rat) :=
  edgeRot_quantised n hn th1 a1 th2 a2

/-- P2. The rotation kept on an edge is one of the `order` candidates and none of them is smaller in absolute value
(`np.argmin(abs_angles)`), for every order ≥ 1. -/
theorem matching_minimal (n : Nat) (hn : 0 < n) (th1 a1 th2 a2 : Rat) :
    edgeRot n th1 a1 th2 a2 ∈ candidates n th1 a1 th2 a2 ∧
    ∀ c ∈ candidates n th1 a1 th2 a2, rabs (edgeRot n th1 a1 th2 a2) ≤ rabs c := by
  constructor
  · unfold edgeRot
    apply argminAbs_mem
    unfold candidates
    intro h
    have := congrArg List.length h
    simp at this
    omega
  · intro c hc
    exact argminAbs_le _ c hc

/-- P1. `order × (holonomy sum at v)` is a whole number — i.e. the index is a whole multiple of the quantum —
when the rotations come from branch matching, the faces around `v` form a closed fan (`hθ`, see
`fan_theta_telescopes`; checked EXACTLY by the driver on every interior vertex of every run) and the geometric part
closes up to whole turns (`hG`; checked numerically per run — not proved, it is the flat-unfolding property of a
triangle fan over ℝ). -/
theorem index_quantised (n : Nat) (hn : 0 < n) (defect : Nat → Rat) (es : List MEdge) (v : Nat)
    (hθ : thetaSum es v = 0) (hG : ∃ m : Int, geomSum defect es v = (m : Rat)) :
    ∃ K : Int, (n : Rat) * vertexAngle defect (es.map (MEdge.toR n)) v = (K : Rat) := by
  obtain ⟨J, hJ⟩ := index_decomposition n hn defect es v
  obtain ⟨m, hm⟩ := hG
  refine ⟨(n : Int) * m + J, ?_⟩
  rw [hJ, hθ, hm]; push_cast; ring

/-- the decomposition the driver reports (`J_v` is an integer for every vertex, border or not) -/
theorem index_decomposition_int (n : Nat) (hn : 0 < n) (defect : Nat → Rat) (es : List MEdge) (v : Nat) :
    ∃ J : Int, (n : Rat) * vertexAngle defect (es.map (MEdge.toR n)) v
      = (n : Rat) * geomSum defect es v + thetaSum es v + (J : Rat) :=
  index_decomposition n hn defect es v

/-- Around a closed fan `fan 0, fan 1, …, fan k = fan 0` of faces the phase differences telescope to 0. -/
theorem fan_theta_telescopes (θ : Nat → Rat) (fan : Nat → Nat) (k : Nat) (hclosed : fan k = fan 0) :
    sumTo (fun i => θ (fan (i + 1)) - θ (fan i)) k = 0 := by
  rw [sumTo_telescope (fun i => θ (fan i)) k, hclosed]; ring

/-- Translated scale (`singuls[v] = angle * A / pi`, so `2A` per turn): for EVERY order `n`, an angle whose
`n`-fold is a whole number of turns has an index that is that whole number times the quantum `4 / n`. -/
theorem index_scale_every_order (n : Nat) (hn : 0 < n) (angle : Rat) (K : Int) (h : (n : Rat) * angle = (K : Rat)) :
    indexOf angle = (K : Rat) * (4 / (n : Rat)) := by
  have hn' : (n : Rat) ≠ 0 := by exact_mod_cast (Nat.pos_iff_ne_zero.mp hn)
  unfold indexOf Generated.C18.indexPerTurn
  rw [← h]; field_simp; ring

/-- Indices add up to `4 × χ` whenever the defects add up to `χ` turns (discrete Gauss–Bonnet, C07), whatever the
rotations are. -/
theorem index_total_is_scale_times_chi (nv : Nat) (defect : Nat → Rat) (es : List REdge) (chi : Rat)
    (hmesh : ∀ e ∈ es, e.a ≠ e.b ∧ e.a < nv ∧ e.b < nv) (hGB : sumTo defect nv = chi) :
    sumTo (fun v => indexOf (vertexAngle defect es v)) nv = 4 * chi := by
  have h := totalAngle_eq nv defect es hmesh
  unfold totalAngle at h
  unfold indexOf Generated.C18.indexPerTurn
  rw [sumTo_mul, h, hGB]; ring

/-! ## connection Laplacian -/

/-- P1. The assembled matrix is Hermitian as soon as every contribution has conjugate off-diagonal parts. -/
theorem connection_laplacian_hermitian (es : List Entry) (h : ∀ e ∈ es, e.oji = cconj e.oij) (a b : Nat) :
    coeff es a b = cconj (coeff es b a) :=
  coeff_herm es h a b

/-- Face-based operator `Nabla^* D Nabla`: Hermitian for ANY transports and weights (not even unit ones). -/
theorem connection_laplacian_hermitian_faces (es : List (Nat × Nat × Rat × Cpx)) (a b : Nat) :
    coeff (es.map (fun x => entryFace x.1 x.2.1 x.2.2.1 x.2.2.2)) a b
      = cconj (coeff (es.map (fun x => entryFace x.1 x.2.1 x.2.2.1 x.2.2.2)) b a) := by
  apply coeff_herm
  intro e he
  simp only [List.mem_map] at he
  obtain ⟨x, _, rfl⟩ := he
  exact entryFace_herm _ _ _ _

/-- Vertex-based operator: Hermitian when the two transports of every half-edge are inverse unit complex numbers
(`exp(i·order·(ai−aj−π))` and `exp(i·order·(aj−ai−π))`: their product is `exp(−2πi·order) = 1`). -/
theorem connection_laplacian_hermitian_vertices (es : List (Nat × Nat × Rat × Cpx × Cpx))
    (h : ∀ x ∈ es, cmul x.2.2.2.1 x.2.2.2.2 = cone ∧ normSq x.2.2.2.1 = 1) (a b : Nat) :
    coeff (es.map (fun x => entryVert x.1 x.2.1 x.2.2.1 x.2.2.2.1 x.2.2.2.2)) a b
      = cconj (coeff (es.map (fun x => entryVert x.1 x.2.1 x.2.2.1 x.2.2.2.1 x.2.2.2.2)) b a) := by
  apply coeff_herm
  intro e he
  simp only [List.mem_map] at he
  obtain ⟨x, hx, rfl⟩ := he
  exact entryVert_herm _ _ _ _ _ (inverse_unit_is_conj _ _ (h x hx).1 (h x hx).2)

/-- P1. All transports trivial ⇒ the connection Laplacian IS the scalar Laplacian (faces). -/
theorem flat_connection_reduces (es : List (Nat × Nat × Rat)) (a b : Nat) :
    coeff (es.map (fun e => entryFace e.1 e.2.1 e.2.2 cone)) a b = ofReal (coeffS es a b) :=
  coeff_flat_face es a b

/-- same for the vertex-based assembly -/
theorem flat_connection_reduces_vertices (es : List (Nat × Nat × Rat)) (a b : Nat) :
    coeff (es.map (fun e => entryVert e.1 e.2.1 e.2.2 cone cone)) a b = ofReal (coeffS es a b) :=
  coeff_flat_vert es a b

/-! ## more about constraints (P2) and proved negations for the open findings -/

/-- every face constraint written by `_initialize_variables` is unit, whatever the exponent read from the source -/
theorem constraint_unit (order : Nat) (c : Cpx) (r : Rat) (hr : r ≠ 0) (hsqrt : r * r = normSq c) :
    normSq (constraintValue order c r) = 1 := by
  unfold constraintValue
  rw [normSq_cpow, normSq_cdivR c r hr hsqrt]; simp

/-- both faces of every feature edge are flagged fixed (hence never in `freeInds`, see `constrained_untouched`) -/
theorem feature_faces_fixed (n : Nat) (adj : List (Option Nat × Option Nat)) (t : Nat) (ht : t < n)
    (hadj : ∃ p ∈ adj, p.1 = some t ∨ p.2 = some t) :
    (fixedFlagsFaces n adj).getD t false = true := by
  rw [fixedFlagsFaces_eq]
  exact foldl_stepFlags_sets adj _ t (by simp; exact ht) hadj

/-- Open finding `C18/constraint/vertices/not-unit/odd-order/…/cancelled`, proved for the model: for EVERY odd order
the representations of two opposite directions `u`, `−u` (the two halves of a straight crease seen from a vertex on
it) cancel, so the un-guarded odd-order branch of `vertex2d._initialize_variables` leaves the constraint 0. -/
theorem odd_order_opposite_constraints_cancel (u : Cpx) (k : Nat) :
    cadd (cpow u (2 * k + 1)) (cpow (cneg u) (2 * k + 1)) = czero := by
  rw [cpow_cneg_odd]; exact cadd_cneg _

theorem odd_order_crease_constraint_vanishes (u : Cpx) (k : Nat) :
    initVerts (2 * k + 1) 1 false [(0, u), (0, cneg u)] = [czero] := by
  unfold initVerts
  simp only [List.foldl, Bool.false_and, Bool.false_eq_true, if_false, List.replicate, List.getD_cons_zero, List.set_cons_zero]
  have h0 : cadd czero (cpow u (2 * k + 1)) = cpow u (2 * k + 1) := by unfold cadd czero; simp
  rw [h0, odd_order_opposite_constraints_cancel]

/-- Open finding `C18/meta/faces/constraint-differs/multi-feature-face`, negation of numbering independence on a
concrete witness: a face with two feature edges (directions (1,0) and (3/5,4/5) in its basis) receives different
constraints according to which write comes last (order of iteration over the feature-edge set). -/
theorem multi_feature_face_constraint_depends_on_write_order :
    initFaces 4 1 [(0, ((1 : Rat), (0 : Rat)), 1), (0, ((3/5 : Rat), (4/5 : Rat)), 1)]
      ≠ initFaces 4 1 [(0, ((3/5 : Rat), (4/5 : Rat)), 1), (0, ((1 : Rat), (0 : Rat)), 1)] := by
  unfold initFaces constraintValue Generated.C18.constraintExponent
  simp only [List.foldl, List.replicate, List.set_cons_zero]
  intro h
  have h1 := congrArg (fun l => (l.getD 0 czero).2) h
  simp only [List.getD_cons_zero] at h1
  first
  | (norm_num [cpow, cmul, cdivR, cone] at h1; done)
  | (revert h1; norm_num [cpow, cmul, cdivR, cone])

/-- Open finding `C18/meta/vertices/constraint-differs/cancelling-constraints`, concrete witness: with the
cancellation guard, order 2 and two perpendicular feature edges, the constraint is that of whichever edge comes first. -/
theorem guarded_constraint_depends_on_edge_order :
    initVerts 2 1 true [(0, ((1 : Rat), (0 : Rat))), (0, ((0 : Rat), (1 : Rat)))]
      ≠ initVerts 2 1 true [(0, ((0 : Rat), (1 : Rat))), (0, ((1 : Rat), (0 : Rat)))] := by
  unfold initVerts Generated.C18.vertexGuardSq
  simp only [List.foldl, List.replicate, List.getD_cons_zero, List.set_cons_zero]
  norm_num [cpow, cmul, cadd, cone, czero, normSq]

/-! ## non-vacuity -/
example : normThreshold < (5 : Rat) ∧ (5 : Rat) * 5 = normSq ((3, 4) : Cpx) := by
  unfold normThreshold Generated.C18.normThreshold normSq; norm_num
example : normSq (normalize1 ((3, 4) : Cpx) 5) = 1 :=
  normalize_unit (3, 4) 5 (by unfold normThreshold Generated.C18.normThreshold; norm_num) (by unfold normSq; norm_num)
example : ([true, false, true] : List Bool).getD 2 false = true := rfl
example : freeInds [true, false, true] = [1] ∧ fixedInds [true, false, true] = [0, 2] := by decide
-- a triangle fan 0-1-2 around vertex 3 (edges (0,3),(1,3),(2,3)): hypotheses of `index_sum_telescopes` hold
example : ∀ e ∈ ([⟨0, 3, 1/7⟩, ⟨1, 3, -2/5⟩, ⟨3, 2, 1/3⟩] : List REdge), e.a ≠ e.b ∧ e.a < 4 ∧ e.b < 4 := by
  intro e he; simp at he; rcases he with rfl | rfl | rfl <;> decide
example : cmul ((3/5, 4/5) : Cpx) (3/5, -4/5) = cone ∧ normSq ((3/5, 4/5) : Cpx) = 1 := by
  unfold cmul cone normSq; norm_num
example : (2 : Rat) * 2 = (-2) * (-2) := by norm_num   -- `hr` of `constraint_tangent_every_order`, edge against the basis
example : (4 : Rat) * (1 / 4) = ((1 : Int) : Rat) := by norm_num   -- `h` of `index_scale_every_order`

end Mouette.Props.C18
