import Mouette.Model.FrameField
import Mouette.Lemmas.C18Lemmas
import Mouette.Lemmas.C18Vertex
import Mouette.Lemmas.C18Bridge
import Mouette.Lemmas.C18Hist
/-
C18 — Surface frame fields are unit, border-aligned and topologically consistent.   (PARTIAL)

Statement (properties.jsonl): for every triangulated surface and every field order the computed frame field has
unit modulus on every element and leaves every constrained element at its constraint (face-based: one branch
tangent to the feature edge of each face having exactly one such edge); for the face-based field every
singularity index flagged at an interior vertex is a whole multiple of the order's quantum and the indices add up
to χ × the documented scale. With smoothing off on a bordered surface the field is the element-wise normalised
harmonic extension of the constrained frames under the library's connection Laplacian, which is Hermitian and
reduces to the scalar Laplacian for a flat connection; directions measured against mesh edges do not depend on
the numbering beyond round-off.

What is proved here (about `Model/FrameField.lean`, for ALL inputs) and what is not:
 * proved: the algebraic scaffolding — normalisation, the fixed/free partition and the solve step, telescoping of
   the holonomy sums for ANY rotations, quantisation of indices by branch matching, Hermitian structure and the
   flat case of the assembled connection Laplacian, the translated constants (`**4`, `*2/pi`) for every order.
 * NOT proved (checked on every run by the oracle and by the exact residual the model computes on the solver's
   output): `spsolve` / inverse power iteration return the harmonic extension — the full clause would read
       theorem harmonic_extension : field = normalizeAll (solve (L_II) (-(L_IB · x_B))) …
   and needs a verified sparse solver (trusted-base item T7); numbering independence "beyond round-off"
   (floating point, T6); the geometric closure of a fan (hypothesis `hG` of `index_quantised`; it is
   Gauss–Bonnet-side geometry over ℝ with atan2, checked numerically per interior vertex in every run).
 * Theorems whose statement is weaker than the clause are named `…_partial`.
-/
namespace Mouette.Props.C18
open Mouette.FF Mouette.Lemmas.C18

/-! ## unit modulus -/

/-- P0. After `var[i] /= abs(var[i])` the squared modulus is 1; the square root `r = abs(z)` is a parameter carrying
its defining hypothesis. -/
theorem normalize_unit (z : Cpx) (r : Rat) (hr : normThreshold < r) (hsqrt : r * r = normSq z) :
    normSq (normalize1 z r) = 1 :=
  normalize1_unit z r hr hsqrt

/-- P0. `FrameField.normalize` on the whole array: every entry above the threshold ends with squared modulus 1. -/
theorem normalize_all_unit (zs : List Cpx) (rs : List Rat)
    (hsqrt : ∀ p ∈ zs.zip rs, p.2 * p.2 = normSq p.1) :
    ∀ p ∈ (normalizeAll zs rs).zip rs, normThreshold < p.2 → normSq p.1 = 1 :=
  normalizeAll_unit zs rs hsqrt

/-- The clause "unit modulus on EVERY element" is only provable for entries above the threshold of the source
(`abs > 1e-10`): an entry the solver returns as 0 stays 0 (this is the open finding `…/vanishing-entry`).
Negation of the full clause on a concrete witness: -/
theorem normalize_unit_fails_on_vanishing_entry : normSq (normalize1 czero 0) ≠ 1 := by
  unfold normalize1 normThreshold Generated.C18.normThreshold normSq czero
  norm_num

/-! ## constrained elements keep their constraint -/

/-- P0. The solve step `var[freeInds] = res` does not touch a constrained entry (flag true ⇒ not in `freeInds`). -/
theorem constrained_untouched (flags : List Bool) (var res : List Cpx) (i : Nat)
    (hfix : flags.getD i false = true) :
    (scatter var (freeInds flags) res).getD i czero = var.getD i czero := by
  apply scatter_untouched
  intro hm
  have := mem_freeInds flags i hm
  rw [hfix] at this
  exact Bool.noConfusion this

/-- every element is either solved for or constrained, never both -/
theorem partition_disjoint (flags : List Bool) (i : Nat) : ¬ (i ∈ freeInds flags ∧ i ∈ fixedInds flags) := by
  intro ⟨h1, h2⟩
  have a := mem_freeInds flags i h1
  unfold fixedInds at h2
  simp only [List.mem_filter] at h2
  rw [a] at h2
  exact Bool.noConfusion h2.2

/-- P0. The final normalisation leaves a unit constraint where it is (its modulus `r` is 1). -/
theorem constrained_survive_normalize (z : Cpx) (r : Rat) (hz : normSq z = 1) (hr : 0 < r) (hsqrt : r * r = normSq z) :
    normalize1 z r = z :=
  normalize1_fixed z r hz hr hsqrt

/-- Face-based constraint, for EVERY order, with the exponent the source uses (translated fragment
`Generated.C18.constraintExponent`): when the feature edge lies on the X axis of the face basis (this is how
`SurfaceConnectionFaces` builds the basis of a face with a feature edge), traversed along or against X, the value
written is the representation `u ** order` of a unit branch `u = ±1`, i.e. a branch tangent to the edge. -/
theorem constraint_tangent_every_order (order : Nat) (x r : Rat) (hx : x ≠ 0) (hr : r * r = x * x) :
    ∃ u : Cpx, (u = cone ∨ u = cneg cone) ∧ cpow u order = constraintValue order (x, 0) r := by
  have hr0 : r ≠ 0 := by
    intro h; rw [h] at hr; simp at hr; exact hx (by nlinarith [hr])
  have hs : (x / r) * (x / r) = 1 := by field_simp; linarith
  have hs' : x / r = 1 ∨ x / r = -1 := by
    have : (x / r - 1) * (x / r + 1) = 0 := by ring_nf; ring_nf at hs; linarith
    rcases mul_eq_zero.mp this with h | h
    · left; linarith
    · right; linarith
  have hc : cdivR (x, 0) r = (x / r, 0) := by unfold cdivR; simp
  unfold constraintValue
  rw [hc, cpow_real]
  unfold Generated.C18.constraintExponent
  rcases hs' with h | h
  · refine ⟨cone, Or.inl rfl, ?_⟩
    rw [cpow_cone, h]; simp [cone]
  · rw [h]
    have hneg : cneg cone = ((-1 : Rat), 0) := by simp [cneg, cone]
    first
    | (refine ⟨cone, Or.inl rfl, ?_⟩
       rw [cpow_cone]
       norm_num [cone]
       done)
    | (refine ⟨cneg cone, Or.inr rfl, ?_⟩
       rw [hneg, cpow_real]
       done)

/-! ## holonomy sums, indices -/

/-- P0. Σ_v (defect_v + Σ_{e∋v} ± rot_e) = Σ_v defect_v for ANY edge rotations on ANY edge list without self
loops: each edge contributes `+rot` at one end and `−rot` at the other (with the polarity read from the source).
With C07 (`Σ defect = 2π χ`) this is the index-sum clause. -/
theorem index_sum_telescopes (nv : Nat) (defect : Nat → Rat) (es : List REdge)
    (hmesh : ∀ e ∈ es, e.a ≠ e.b ∧ e.a < nv ∧ e.b < nv) :
    totalAngle nv defect es = sumTo defect nv :=
  totalAngle_eq nv defect es hmesh

/-- P1. Branch matching: the rotation chosen on an edge equals the transported difference of the two frames up
to a whole number of `1/order` turns (all angles in turns). -/
theorem matching_quantised (n : Nat) (hn : 0 < n) (th1 a1 th2 a2 : Rat) :
    ∃ j : Int, (n : Rat) * edgeRot n th1 a1 th2 a2 = (th2 - th1) - (n : Rat) * (a2 - a1) + (j : Rat) :=
  edgeRot_quantised n hn th1 a1 th2 a2

/-- P2. The rotation kept on an edge is one of the `order` candidates and none of them is smaller in absolute value
(`np.argmin(abs_angles)`), for every order ≥ 1. -/
theorem matching_minimal (n : Nat) (hn : 0 < n) (th1 a1 th2 a2 : Rat) :
    edgeRot n th1 a1 th2 a2 ∈ candidates n th1 a1 th2 a2 ∧
    ∀ c ∈ candidates n th1 a1 th2 a2, rabs (edgeRot n th1 a1 th2 a2) ≤ rabs c := by
  constructor
  · unfold edgeRot
    apply argminAbs_mem
    unfold candidates
    intro h
    have := congrArg List.length h
    simp at this
    omega
  · intro c hc
    exact argminAbs_le _ c hc

/-- P1. `order × (holonomy sum at v)` is a whole number — i.e. the index is a whole multiple of the quantum —
when the rotations come from branch matching, the faces around `v` form a closed fan (`hθ`, see
`fan_theta_telescopes`; checked EXACTLY by the driver on every interior vertex of every run) and the geometric part
closes up to whole turns (`hG`; checked numerically per run — not proved, it is the flat-unfolding property of a
triangle fan over ℝ). -/
theorem index_quantised (n : Nat) (hn : 0 < n) (defect : Nat → Rat) (es : List MEdge) (v : Nat)
    (hθ : thetaSum es v = 0) (hG : ∃ m : Int, geomSum defect es v = (m : Rat)) :
    ∃ K : Int, (n : Rat) * vertexAngle defect (es.map (MEdge.toR n)) v = (K : Rat) := by
  obtain ⟨J, hJ⟩ := index_decomposition n hn defect es v
  obtain ⟨m, hm⟩ := hG
  refine ⟨(n : Int) * m + J, ?_⟩
  rw [hJ, hθ, hm]; push_cast; ring

/-- the decomposition the driver reports (`J_v` is an integer for every vertex, border or not) -/
theorem index_decomposition_int (n : Nat) (hn : 0 < n) (defect : Nat → Rat) (es : List MEdge) (v : Nat) :
    ∃ J : Int, (n : Rat) * vertexAngle defect (es.map (MEdge.toR n)) v
      = (n : Rat) * geomSum defect es v + thetaSum es v + (J : Rat) :=
  index_decomposition n hn defect es v

/-- Around a closed fan `fan 0, fan 1, …, fan k = fan 0` of faces the phase differences telescope to 0. -/
theorem fan_theta_telescopes (θ : Nat → Rat) (fan : Nat → Nat) (k : Nat) (hclosed : fan k = fan 0) :
    sumTo (fun i => θ (fan (i + 1)) - θ (fan i)) k = 0 := by
  rw [sumTo_telescope (fun i => θ (fan i)) k, hclosed]; ring

/-- Translated scale (`singuls[v] = angle * A / pi`, so `2A` per turn): for EVERY order `n`, an angle whose
`n`-fold is a whole number of turns has an index that is that whole number times the quantum `4 / n`. -/
theorem index_scale_every_order (n : Nat) (hn : 0 < n) (angle : Rat) (K : Int) (h : (n : Rat) * angle = (K : Rat)) :
    indexOf angle = (K : Rat) * (4 / (n : Rat)) := by
  have hn' : (n : Rat) ≠ 0 := by exact_mod_cast (Nat.pos_iff_ne_zero.mp hn)
  unfold indexOf Generated.C18.indexPerTurn
  rw [← h]; field_simp; ring

/-- Indices add up to `4 × χ` whenever the defects add up to `χ` turns (discrete Gauss–Bonnet, C07), whatever the
rotations are. -/
theorem index_total_is_scale_times_chi (nv : Nat) (defect : Nat → Rat) (es : List REdge) (chi : Rat)
    (hmesh : ∀ e ∈ es, e.a ≠ e.b ∧ e.a < nv ∧ e.b < nv) (hGB : sumTo defect nv = chi) :
    sumTo (fun v => indexOf (vertexAngle defect es v)) nv = 4 * chi := by
  have h := totalAngle_eq nv defect es hmesh
  unfold totalAngle at h
  unfold indexOf Generated.C18.indexPerTurn
  rw [sumTo_mul, h, hGB]; ring

/-! ## connection Laplacian -/

/-- P1. The assembled matrix is Hermitian as soon as every contribution has conjugate off-diagonal parts. -/
theorem connection_laplacian_hermitian (es : List Entry) (h : ∀ e ∈ es, e.oji = cconj e.oij) (a b : Nat) :
    coeff es a b = cconj (coeff es b a) :=
  coeff_herm es h a b

/-- Face-based operator `Nabla^* D Nabla`: Hermitian for ANY transports and weights (not even unit ones). -/
theorem connection_laplacian_hermitian_faces (es : List (Nat × Nat × Rat × Cpx)) (a b : Nat) :
    coeff (es.map (fun x => entryFace x.1 x.2.1 x.2.2.1 x.2.2.2)) a b
      = cconj (coeff (es.map (fun x => entryFace x.1 x.2.1 x.2.2.1 x.2.2.2)) b a) := by
  apply coeff_herm
  intro e he
  simp only [List.mem_map] at he
  obtain ⟨x, _, rfl⟩ := he
  exact entryFace_herm _ _ _ _

/-- Vertex-based operator: Hermitian when the two transports of every half-edge are inverse unit complex numbers
(`exp(i·order·(ai−aj−π))` and `exp(i·order·(aj−ai−π))`: their product is `exp(−2πi·order) = 1`). -/
theorem connection_laplacian_hermitian_vertices (es : List (Nat × Nat × Rat × Cpx × Cpx))
    (h : ∀ x ∈ es, cmul x.2.2.2.1 x.2.2.2.2 = cone ∧ normSq x.2.2.2.1 = 1) (a b : Nat) :
    coeff (es.map (fun x => entryVert x.1 x.2.1 x.2.2.1 x.2.2.2.1 x.2.2.2.2)) a b
      = cconj (coeff (es.map (fun x => entryVert x.1 x.2.1 x.2.2.1 x.2.2.2.1 x.2.2.2.2)) b a) := by
  apply coeff_herm
  intro e he
  simp only [List.mem_map] at he
  obtain ⟨x, hx, rfl⟩ := he
  exact entryVert_herm _ _ _ _ _ (inverse_unit_is_conj _ _ (h x hx).1 (h x hx).2)

/-- P1. All transports trivial ⇒ the connection Laplacian IS the scalar Laplacian (faces). -/
theorem flat_connection_reduces (es : List (Nat × Nat × Rat)) (a b : Nat) :
    coeff (es.map (fun e => entryFace e.1 e.2.1 e.2.2 cone)) a b = ofReal (coeffS es a b) :=
  coeff_flat_face es a b

/-- same for the vertex-based assembly -/
theorem flat_connection_reduces_vertices (es : List (Nat × Nat × Rat)) (a b : Nat) :
    coeff (es.map (fun e => entryVert e.1 e.2.1 e.2.2 cone cone)) a b = ofReal (coeffS es a b) :=
  coeff_flat_vert es a b

/-! ## more about constraints (P2) and proved negations for the open findings -/

/-- every face constraint written by `_initialize_variables` is unit, whatever the exponent read from the source -/
theorem constraint_unit (order : Nat) (c : Cpx) (r : Rat) (hr : r ≠ 0) (hsqrt : r * r = normSq c) :
    normSq (constraintValue order c r) = 1 := by
  unfold constraintValue
  rw [normSq_cpow, normSq_cdivR c r hr hsqrt]; simp

/-- both faces of every feature edge are flagged fixed (hence never in `freeInds`, see `constrained_untouched`) -/
theorem feature_faces_fixed (n : Nat) (adj : List (Option Nat × Option Nat)) (t : Nat) (ht : t < n)
    (hadj : ∃ p ∈ adj, p.1 = some t ∨ p.2 = some t) :
    (fixedFlagsFaces n adj).getD t false = true := by
  rw [fixedFlagsFaces_eq]
  exact foldl_stepFlags_sets adj _ t (by simp; exact ht) hadj

/-- Open finding `C18/constraint/vertices/not-unit/odd-order/…/cancelled`, proved for the model: for EVERY odd order
the representations of two opposite directions `u`, `−u` (the two halves of a straight crease seen from a vertex on
it) cancel, so the un-guarded odd-order branch of `vertex2d._initialize_variables` leaves the constraint 0. -/
theorem odd_order_opposite_constraints_cancel (u : Cpx) (k : Nat) :
    cadd (cpow u (2 * k + 1)) (cpow (cneg u) (2 * k + 1)) = czero := by
  rw [cpow_cneg_odd]; exact cadd_cneg _

theorem odd_order_crease_constraint_vanishes (u : Cpx) (k : Nat) :
    initVerts (2 * k + 1) 1 false [(0, u), (0, cneg u)] = [czero] := by
  unfold initVerts
  simp only [List.foldl, Bool.false_and, Bool.false_eq_true, if_false, List.replicate, List.getD_cons_zero, List.set_cons_zero]
  have h0 : cadd czero (cpow u (2 * k + 1)) = cpow u (2 * k + 1) := by unfold cadd czero; simp
  rw [h0, odd_order_opposite_constraints_cancel]

/-- Open finding `C18/meta/faces/constraint-differs/multi-feature-face`, negation of numbering independence on a
concrete witness: a face with two feature edges (directions (1,0) and (3/5,4/5) in its basis) receives different
constraints according to which write comes last (order of iteration over the feature-edge set). -/
theorem multi_feature_face_constraint_depends_on_write_order :
    initFaces 4 1 [(0, ((1 : Rat), (0 : Rat)), 1), (0, ((3/5 : Rat), (4/5 : Rat)), 1)]
      ≠ initFaces 4 1 [(0, ((3/5 : Rat), (4/5 : Rat)), 1), (0, ((1 : Rat), (0 : Rat)), 1)] := by
  unfold initFaces constraintValue Generated.C18.constraintExponent
  simp only [List.foldl, List.replicate, List.set_cons_zero]
  intro h
  have h1 := congrArg (fun l => (l.getD 0 czero).2) h
  simp only [List.getD_cons_zero] at h1
  first
  | (norm_num [cpow, cmul, cdivR, cone] at h1; done)
  | (revert h1; norm_num [cpow, cmul, cdivR, cone])

/-- Open finding `C18/meta/vertices/constraint-differs/cancelling-constraints`, concrete witness: with the
cancellation guard, order 2 and two perpendicular feature edges, the constraint is that of whichever edge comes first. -/
theorem guarded_constraint_depends_on_edge_order :
    initVerts 2 1 true [(0, ((1 : Rat), (0 : Rat))), (0, ((0 : Rat), (1 : Rat)))]
      ≠ initVerts 2 1 true [(0, ((0 : Rat), (1 : Rat))), (0, ((1 : Rat), (0 : Rat)))] := by
  unfold initVerts Generated.C18.vertexGuardSq
  simp only [List.foldl, List.replicate, List.getD_cons_zero, List.set_cons_zero]
  norm_num [cpow, cmul, cadd, cone, czero, normSq]

/-! ## non-vacuity -/
example : normThreshold < (5 : Rat) ∧ (5 : Rat) * 5 = normSq ((3, 4) : Cpx) := by
  unfold normThreshold Generated.C18.normThreshold normSq; norm_num
example : normSq (normalize1 ((3, 4) : Cpx) 5) = 1 :=
  normalize_unit (3, 4) 5 (by unfold normThreshold Generated.C18.normThreshold; norm_num) (by unfold normSq; norm_num)
example : ([true, false, true] : List Bool).getD 2 false = true := rfl
example : freeInds [true, false, true] = [1] ∧ fixedInds [true, false, true] = [0, 2] := by decide
-- a triangle fan 0-1-2 around vertex 3 (edges (0,3),(1,3),(2,3)): hypotheses of `index_sum_telescopes` hold
example : ∀ e ∈ ([⟨0, 3, 1/7⟩, ⟨1, 3, -2/5⟩, ⟨3, 2, 1/3⟩] : List REdge), e.a ≠ e.b ∧ e.a < 4 ∧ e.b < 4 := by
  intro e he; simp at he; rcases he with rfl | rfl | rfl <;> decide
example : cmul ((3/5, 4/5) : Cpx) (3/5, -4/5) = cone ∧ normSq ((3/5, 4/5) : Cpx) = 1 := by
  unfold cmul cone normSq; norm_num
example : (2 : Rat) * 2 = (-2) * (-2) := by norm_num   -- `hr` of `constraint_tangent_every_order`, edge against the basis
example : (4 : Rat) * (1 / 4) = ((1 : Int) : Rat) := by norm_num   -- `h` of `index_scale_every_order`

/-! # Round 2 — the VERTEX-based field (`vertex2d.py`) and the connection / operator formulas

Model: `Model/FrameFieldV.lean`. Source-shaped fragments: `Generated/C18Vertex.lean` (angles in turns, π = 1/2).
Still NOT proved: that `spsolve` / the inverse power iteration return the harmonic extension / an eigenvector; the
real-number facts `rect(1, 2π x)` is 1-periodic and multiplicative (the phases are handled as rationals modulo 1,
`cmath.phase`, `cmath.rect`, `atan2` are evaluated by the implementation and the harness only); that the sum of the
face curvatures is 2πχ (Gauss–Bonnet for the rescaled vertex connection: checked numerically, not needed by any clause
of the statement, which speaks of indices for the face-based field only). -/
section Vertex
open Mouette.FFV Mouette.Lemmas.C18V Mouette.Lemmas.C18B Mouette.Generated

/-! ## constraints at feature vertices -/

/-- After `_initialize_variables` a feature vertex whose accumulated sum is above the threshold carries a UNIT constraint
(`featV` = `feat.feature_vertices`, a set: no duplicates; `rs[A] = abs(sum)` with its defining hypothesis), whatever the
order, the branch taken (guarded projection / transport) and the contributions are. -/
theorem vertex_constraint_unit (order n : Nat) (smooth : Bool) (contribs : List (Nat × Cpx)) (featV : List Nat) (rs : List Rat)
    (A : Nat) (hA : A ∈ featV) (hnd : featV.Nodup)
    (hlt : A < (initVerts order n (guardedBranch smooth order) contribs).length)
    (hthr : featThreshold < rs.getD A 0)
    (hsqrt : rs.getD A 0 * rs.getD A 0 = normSq ((initVerts order n (guardedBranch smooth order) contribs).getD A czero)) :
    normSq ((initVertsFull order n smooth contribs featV rs).getD A czero) = 1 := by
  unfold initVertsFull
  rw [normalizeFeature_eq]
  exact foldl_stepNF_unit rs featV _ A hA hnd hlt hthr hsqrt

/-- a vertex that is not a feature vertex is not touched by the normalisation of the initialisation -/
theorem vertex_init_free_untouched (var : List Cpx) (featV : List Nat) (rs : List Rat) (i : Nat) (h : i ∉ featV) :
    (normalizeFeature var featV rs).getD i czero = var.getD i czero := by
  rw [normalizeFeature_eq]; exact foldl_stepNF_notin rs featV var i h

/-- P2. In the guarded (projection) branch every accumulated sum is either still 0 or has squared modulus above the guard
(`1e-10` squared): a contribution that would cancel the sum is dropped instead. (The feature normalisation uses the larger
threshold `1e-8`: a sum with modulus in `(1e-10, 1e-8]` would stay non-unit — not observed on any generated input.) -/
theorem vertex_guard_keeps_sums_nonvanishing (order n : Nat) (contribs : List (Nat × Cpx)) (i : Nat) :
    (initVerts order n true contribs).getD i czero = czero ∨
      Generated.C18.vertexGuardSq < normSq ((initVerts order n true contribs).getD i czero) := by
  unfold initVerts
  exact guardInv_foldl order contribs _ (guardInv_replicate n) i

/-- every feature vertex is flagged fixed -/
theorem feature_vertices_fixed (n : Nat) (featV : List Nat) (v : Nat) (hv : v < n) (hm : v ∈ featV) :
    (fixedFlagsVerts n featV).getD v false = true := by
  unfold fixedFlagsVerts
  exact foldl_set_true_sets featV _ v (by simp; exact hv) hm

/-- Constrained vertices are untouched by the solve (`var[freeInds] = res`) AND by the final normalisation when their
constraint is unit (modulus `r = 1`): the vertex-based counterpart of `constrained_untouched` +
`constrained_survive_normalize`, for any mesh, any solver output `res`. -/
theorem vertex_constrained_untouched (n : Nat) (featV : List Nat) (var res : List Cpx) (v : Nat) (r : Rat)
    (hv : v < n) (hm : v ∈ featV) (hunit : normSq (var.getD v czero) = 1) (hr : 0 < r)
    (hsqrt : r * r = normSq ((scatter var (freeInds (fixedFlagsVerts n featV)) res).getD v czero)) :
    normalize1 ((scatter var (freeInds (fixedFlagsVerts n featV)) res).getD v czero) r = var.getD v czero := by
  have h1 := constrained_untouched (fixedFlagsVerts n featV) var res v (feature_vertices_fixed n featV v hv hm)
  rw [h1] at hsqrt ⊢
  exact normalize1_fixed _ r hunit hr hsqrt

/-! ## singularities of the vertex-based field: one index per face -/

/-- matching on a mesh edge `(A,B)`: `order × rot` is the transported phase difference plus a whole number -/
theorem vertex_matching_quantised (n : Nat) (hn : 0 < n) (e : VEdge) :
    ∃ j : Int, (n : Rat) * edgeRotV n e = (e.thB - e.thA) - (n : Rat) * (e.aB - e.aA) - (n : Rat) / 2 + (j : Rat) := by
  obtain ⟨j, hj⟩ := edgeRot_quantised n hn e.thA e.aA e.thB (e.aB + 1/2)
  refine ⟨j, ?_⟩
  rw [edgeRotV_eq, hj]; ring

/-- P1. For EVERY order `n ≥ 1`: `n × (holonomy of the matched rotations around a face + curvature term of the face)` is a
whole number, i.e. the per-face index is an integer multiple of the quantum `1/n` turn (`2π/n`). The three rotations
only need to satisfy the directed matching relation `Q` (see `vertex_face_index_quantised_mesh`); no geometric
hypothesis is needed here because the curvature term is made of the same transports. -/
theorem vertex_face_index_quantised (n : Nat) (θ : Nat → Rat) (t : Nat → Nat → Rat) (f : Face) (ρ1 ρ2 ρ3 : Rat)
    (h1 : Q n θ t f.A f.B ρ1) (h2 : Q n θ t f.B f.C ρ2) (h3 : Q n θ t f.C f.A ρ3) :
    ∃ K : Int, (n : Rat) * (ρ1 + ρ2 + ρ3 + curvature t f) = (K : Rat) :=
  face_quantised n θ t f ρ1 ρ2 ρ3 h1 h2 h3

/-- each half-edge of the face is carried by exactly one entry of the edge list -/
def UniqueMatch (n : Nat) (es : List VEdge) (u v : Nat) : Prop :=
  ∃ l1 e l2, es = l1 ++ e :: l2 ∧ Matches (e.toRE n) u v ∧
    (∀ x ∈ l1, ¬ Matches (x.toRE n) u v) ∧ (∀ x ∈ l2, ¬ Matches (x.toRE n) u v)

/-- P1, on a mesh: for any edge list whose entries carry the phases `θ` of the field and the transports `t` of the
connection, and any face whose three half-edges are each carried by exactly one edge (in either direction),
`order × faceAngle` is a whole number — whatever the field, the transports and the order are. -/
theorem vertex_face_index_quantised_mesh (n : Nat) (hn : 0 < n) (θ : Nat → Rat) (t : Nat → Nat → Rat) (es : List VEdge) (f : Face)
    (hcons : ∀ e ∈ es, Consistent θ t e ∧ e.a ≠ e.b)
    (hAB : UniqueMatch n es f.A f.B) (hBC : UniqueMatch n es f.B f.C) (hCA : UniqueMatch n es f.C f.A) :
    ∃ K : Int, (n : Rat) * faceAngle (es.map (VEdge.toRE n)) t f = (K : Rat) := by
  have key : ∀ u v, UniqueMatch n es u v → Q n θ t u v (rotD (es.map (VEdge.toRE n)) u v) := by
    intro u v ⟨l1, e, l2, hes, hm, h1, h2⟩
    have he : e ∈ es := by rw [hes]; simp
    rw [hes]
    exact Q_of_unique n hn θ t l1 l2 e u v (hcons e he).1 (hcons e he).2 hm h1 h2
  unfold faceAngle holonomy
  exact face_quantised n θ t f _ _ _ (key _ _ hAB) (key _ _ hBC) (key _ _ hCA)

/-- the index as a multiple of the quantum, for every order -/
theorem vertex_face_index_multiple_of_quantum (n : Nat) (hn : 0 < n) (angle : Rat) (K : Int) (h : (n : Rat) * angle = (K : Rat)) :
    angle = (K : Rat) * (1 / (n : Rat)) := by
  have hn' : (n : Rat) ≠ 0 := by exact_mod_cast (Nat.pos_iff_ne_zero.mp hn)
  rw [← h]; field_simp

/-- P0. Σ over faces of the holonomies = Σ over edges of `rot × (#faces with (a,b) − #faces with (b,a))`, for ANY
rotations, any face list, any edge list without self loops: every interior edge contributes `+rot` in one face and
`−rot` in the other. -/
theorem vertex_face_holonomy_telescopes (es : List RE) (fs : List Face) (hloop : ∀ e ∈ es, e.a ≠ e.b) :
    sumF (holonomy es) fs = borderTerm es fs :=
  holonomy_total es fs hloop

/-- hence the face angles add up to the total curvature of the connection plus the border term … -/
theorem vertex_face_index_sum_telescopes (es : List RE) (t : Nat → Nat → Rat) (fs : List Face) (hloop : ∀ e ∈ es, e.a ≠ e.b) :
    sumF (faceAngle es t) fs = sumF (curvature t) fs + borderTerm es fs := by
  unfold faceAngle
  rw [sumF_add, holonomy_total es fs hloop]; ring

/-- … and to the total curvature alone on a closed oriented surface (both half-edges of every edge occur equally often). -/
theorem vertex_face_index_sum_closed (es : List RE) (t : Nat → Nat → Rat) (fs : List Face) (hloop : ∀ e ∈ es, e.a ≠ e.b)
    (hclosed : ∀ e ∈ es, cnt fs e.a e.b = cnt fs e.b e.a) :
    sumF (faceAngle es t) fs = sumF (curvature t) fs := by
  rw [vertex_face_index_sum_telescopes es t fs hloop, borderTerm_zero es fs hclosed]; ring

/-! ## bridges: the model's normal forms ARE what the source says now -/

/-- `utils/maths.py: angle_diff` (with python's float `%`) is the model's `angleDiff` -/
theorem bridge_angle_diff (a b : Rat) : C18V.angleDiff a b = FF.angleDiff a b := angleDiff_bridge a b

/-- `utils/maths.py: roots`: the k-th root of a number of phase `t` has phase `(t + k)/pow` (turns) -/
theorem bridge_roots (t : Rat) (n k : Nat) : C18V.rootPhase t n k = (t + (k : Rat)) / (n : Rat) := rootPhase_bridge t n k

/-- `vertex2d.flag_singularities`: the list of candidates built from the source's own expressions is the model's -/
theorem bridge_vertex_candidates (n : Nat) (e : VEdge) : candidatesSrc n e = candidatesV n e := candidates_bridge n e

/-- `vertex2d.flag_singularities`: stores `+angle` at `(A,B)`, `−angle` at `(B,A)` and `−angle` in the edge attribute; sums the
half-edges `(A,B),(B,C),(C,A)` and ADDS the curvature; `parallel_transport_curvature` multiplies over the same half-edges -/
theorem bridge_vertex_flag_structure :
    C18V.rotSignAB = 1 ∧ C18V.rotSignBA = -1 ∧ C18V.rotSignAttr = -1 ∧ C18V.curvatureSign = 1 ∧
    C18V.faceHalfEdges = [(0, 1), (1, 2), (2, 0)] ∧ C18V.curvHalfEdges = [(0, 1), (1, 2), (2, 0)] := by decide

theorem bridge_curv_term (tba tab : Rat) : C18V.curvTerm tba tab = FFV.curvTerm tba tab := curvTerm_bridge tba tab

/-- `vertex2d._initialize_variables`: branch condition and normalisation threshold -/
theorem bridge_vertex_init (s : Bool) (order : Nat) :
    C18V.guardedBranch s order = FFV.guardedBranch s order ∧ C18V.featureNormThreshold = FFV.featThreshold :=
  ⟨guardedBranch_bridge s order, featThreshold_bridge⟩

/-- normal forms of the remaining translated formulas (a swapped operand, a changed constant or operator breaks one of these) -/
theorem bridge_connection_formulas (ang corners cornerOrder d total angle1 angle2 order ai aj : Rat) :
    C18V.dfct corners cornerOrder = corners / cornerOrder ∧
    C18V.transportFeature ang d total = ang * d / total ∧
    C18V.transportInterior ang total = ang / total ∧
    C18V.transportFaces12 angle1 angle2 = angle1 - angle2 ∧
    C18V.transportFaces21 angle1 angle2 = angle2 - angle1 ∧
    C18V.lapPhaseIJ order ai aj = order * (ai - aj - 1/2) ∧
    C18V.lapPhaseJI order ai aj = order * (aj - ai - 1/2) := by
  unfold C18V.dfct C18V.transportFeature C18V.transportInterior C18V.transportFaces12 C18V.transportFaces21
    C18V.lapPhaseIJ C18V.lapPhaseJI
  refine ⟨by ring, by ring, by ring, by ring, by ring, by ring, by ring⟩

/-- thresholds of `vertex2d.flag_singularities` and of the feature normalisation, as the model / harness use them -/
theorem bridge_vertex_thresholds : C18V.zeroThresholdV = 1 / 100 ∧ C18V.featureNormThreshold = 1 / 100000000 := by
  unfold C18V.zeroThresholdV C18V.featureNormThreshold; constructor <;> norm_num

/-! ## the connection (`connection.py`) and the operator phases (`laplacian_op.py`), on the translated formulas -/

/-- interior vertex: the rescaling `ang * 2π / Σangles` is linear and maps the whole ring to exactly one turn -/
theorem connection_interior_rescale (a b total : Rat) (ht : total ≠ 0) :
    C18V.transportInterior (a + b) total = C18V.transportInterior a total + C18V.transportInterior b total ∧
    C18V.transportInterior total total = 1 := by
  unfold C18V.transportInterior
  constructor
  · field_simp
  · field_simp

/-- feature / border vertex: the whole ring is mapped to `corners / corner_order` turns, so `corner_order ×` the angle of the
last border edge is the integer `corners`: for `corner_order = order` both border edges of a vertex get the SAME
representation `exp(i·order·angle) = 1` (their constraints agree, the sum in `_initialize_variables` does not cancel). -/
theorem connection_feature_ring_closes_on_quantum (corners cornerOrder total : Rat) (ht : total ≠ 0) (hc : cornerOrder ≠ 0) :
    cornerOrder * C18V.transportFeature total (C18V.dfct corners cornerOrder) total = corners := by
  unfold C18V.transportFeature C18V.dfct
  field_simp

/-- face connection: the two stored transports of an interior edge are opposite -/
theorem connection_face_transports_opposite (angle1 angle2 : Rat) :
    C18V.transportFaces12 angle1 angle2 + C18V.transportFaces21 angle1 angle2 = 0 := by
  unfold C18V.transportFaces12 C18V.transportFaces21; ring

/-- `laplacian` (vertices): the phases of the coefficients `(i,j)` and `(j,i)` add up to `−order` turns — a whole number —
so the two unit complex numbers are inverse of each other: this is the hypothesis of
`connection_laplacian_hermitian_vertices` ("the phases sum to −2π·order"). -/
theorem laplacian_vertex_phases_sum (order ai aj : Rat) :
    C18V.lapPhaseIJ order ai aj + C18V.lapPhaseJI order ai aj = -order := by
  unfold C18V.lapPhaseIJ C18V.lapPhaseJI; ring

/-- `laplacian_triangles`: the only complex entry of a row of `Nabla` has phase `order × transport(T1,T2)` (the input `t`
of `entryFace`), the other entry is `-1` (checked by the translator) -/
theorem laplacian_faces_phase (order t12 t21 : Rat) : C18V.nablaPhaseT2 order t12 t21 = order * t12 := by
  unfold C18V.nablaPhaseT2; ring

/-- the curvature term of a half-edge is minus the sum of … : the phases used by `laplacian` and by
`parallel_transport_curvature` are the same transports: `lapPhaseJI order ai aj = order × curvTerm aj ai` -/
theorem laplacian_phase_is_order_times_curv_term (order ai aj : Rat) :
    C18V.lapPhaseJI order ai aj = order * C18V.curvTerm aj ai := by
  unfold C18V.lapPhaseJI C18V.curvTerm; ring

/-! ## non-vacuity (vertex part) -/
example : UniqueMatch 4 [⟨0, 1, 0, 0, 0, 0⟩, ⟨1, 2, 0, 0, 0, 0⟩, ⟨0, 2, 0, 0, 0, 0⟩] 2 0 :=
  ⟨[⟨0, 1, 0, 0, 0, 0⟩, ⟨1, 2, 0, 0, 0, 0⟩], ⟨0, 2, 0, 0, 0, 0⟩, [], rfl, Or.inr ⟨rfl, rfl⟩,
   by intro x hx; simp at hx; rcases hx with rfl | rfl <;> (unfold Matches; simp [VEdge.toRE]),
   by intro x hx; simp at hx⟩
example : Consistent (fun _ => 0) (fun _ _ => 0) ⟨0, 1, 0, 0, 0, 0⟩ := ⟨rfl, rfl, rfl, rfl⟩
example : cnt [⟨0, 1, 2⟩, ⟨0, 2, 3⟩] 0 2 = 1 ∧ cnt [⟨0, 1, 2⟩, ⟨0, 2, 3⟩] 2 0 = 1 := by
  unfold cnt sumF ind; simp
example : ([3, 5] : List Nat).Nodup ∧ 5 ∈ [3, 5] := by decide

end Vertex

/-! # Round 3 — histories on one object / one mesh, more of the source translated

Model: `Model/FrameFieldH.lean`; fragments: `Generated/C18Hist.lean`. These theorems make the history clauses of the oracle
("the n-th use of an object / mesh gives what the first use of a fresh one gives") consequences of the model for the parts that
are control flow and attribute handling; the numerical content of `initialize` / `optimize` stays abstract (`init`, `opt`). -/
section Histories
open Mouette.FFH Mouette.Lemmas.C18H Mouette.Lemmas.C18B Mouette.Generated

/-- `run()` on an object that was already run does nothing: `run ∘ run = run`, for any `initialize` / `optimize`. -/
theorem run_idempotent {α : Type} (init opt : α → α) (s : St α) : run init opt (run init opt s) = run init opt s :=
  run_run init opt s

/-- after `run()` both flags are set, and on a fresh object the data is `optimize (initialize d)` -/
theorem run_on_fresh {α : Type} (init opt : α → α) (d : α) :
    (run init opt (fresh d)).data = opt (init d) ∧ (run init opt (fresh d)).initialized = true ∧ (run init opt (fresh d)).smoothed = true :=
  ⟨run_fresh init opt d, (run_flags init opt (fresh d)).1, (run_flags init opt (fresh d)).2⟩

/-- `initialize()` followed by `run()` equals `run()` on a fresh object — with the flag behaviour the SOURCE has now
(`Generated.C18H.initializeSetsFlag…`: the concrete `initialize()` set `self.initialized = True`), for faces and vertices:
`initialize` is not executed twice. -/
theorem run_after_initialize_faces {α : Type} (init opt : α → α) (d : α) :
    run init opt (initializeStep C18H.initializeSetsFlagFaces init (fresh d)) = run init opt (fresh d) :=
  run_after_initialize init opt d

theorem run_after_initialize_vertices {α : Type} (init opt : α → α) (d : α) :
    run init opt (initializeStep C18H.initializeSetsFlagVertices init (fresh d)) = run init opt (fresh d) :=
  run_after_initialize init opt d

/-- negation on a witness: if `initialize()` did NOT set the flag, `run()` would initialise a second time
(`init = (· + 1)` on a counter shows it) -/
theorem run_after_initialize_needs_flag :
    (run (fun n : Nat => n + 1) id (initializeStep false (fun n : Nat => n + 1) (fresh 0))).data
      ≠ (run (fun n : Nat => n + 1) id (fresh 0)).data := by decide

/-- `flag_singularities` on a mesh that already carries the attribute: with the clearing the SOURCE performs now, the attribute after
the call does not depend on what an earlier call (of this or another field) left there — all four attributes
(face-based rotations / indices, vertex-based rotations / flags). -/
theorem flag_attributes_independent_of_history (old : Option Attr) (writes : Attr) :
    flagInto C18H.facesRotCleared old writes = flagInto C18H.facesRotCleared none writes ∧
    flagInto C18H.facesSingulsCleared old writes = flagInto C18H.facesSingulsCleared none writes ∧
    flagInto C18H.vertsRotCleared old writes = flagInto C18H.vertsRotCleared none writes ∧
    flagInto C18H.vertsSingulsCleared old writes = flagInto C18H.vertsSingulsCleared none writes := by
  unfold flagInto C18H.facesRotCleared C18H.facesSingulsCleared C18H.vertsRotCleared C18H.vertsSingulsCleared
  cases old <;> simp

/-- the constrained set of `FrameField2DFaces.optimize` is that of THIS field (`fixedFlagsFaces n adj`), whatever `fixed` flags an
earlier field left on the mesh — with what the source does now (`Generated.C18H.facesFixedFresh`); together with
`constrained_untouched` / `feature_faces_fixed`: exactly the current constraints are kept out of the solve. -/
theorem fixed_flags_independent_of_history (old : Option (List Bool)) (n : Nat) (adj : List (Option Nat × Option Nat)) :
    fixedFlagsInto C18H.facesFixedFresh old n adj = fixedFlagsFaces n adj := by
  unfold fixedFlagsInto fixedFlagsFaces C18H.facesFixedFresh
  cases old <;> rfl

/-- negation on a witness (seeded change C18-e): re-used flags that are not cleared keep a face of the earlier field fixed -/
theorem stale_fixed_flag_survives_without_clear :
    fixedFlagsInto false (some [true, false]) 2 [(some 1, none)] ≠ fixedFlagsFaces 2 [(some 1, none)] := by decide

/-- hence calling `flag_singularities` twice gives what calling it once gives -/
theorem flag_twice_eq_once (old : Option Attr) (writes : Attr) :
    flagInto true (some (flagInto true old writes)) writes = flagInto true old writes := by
  unfold flagInto; cases old <;> simp

/-- negation on a witness (the defect repaired in round 3: vertex2d did not clear): without clearing a stale flag survives -/
theorem stale_flag_survives_without_clear : lookup (flagInto false (some [(7, 1)]) []) 7 ≠ lookup (flagInto false none []) 7 := by
  unfold flagInto lookup; simp

/-- the matching candidates of the FACE-based `flag_singularities`, built from the source's own expressions, are the model's -/
theorem bridge_face_candidates (n : Nat) (th1 a1 th2 a2 : Rat) : candidatesSrcF n th1 a1 th2 a2 = candidates n th1 a1 th2 a2 :=
  candidatesF_bridge n th1 a1 th2 a2

/-- `_compute_attach_weight`: constants of the source are those of the model -/
theorem bridge_attach_weight : C18H.attachFilterThreshold = attachThr ∧ C18H.attachFailValue = attachFail := by
  unfold C18H.attachFilterThreshold C18H.attachFailValue attachThr attachFail; constructor <;> norm_num

/-- the attach weight is strictly positive whatever `eigsh` returned (so `lapI - alpha*AI` is a genuine shift), also when a
positive weight is prescribed -/
theorem attach_weight_positive (eigs : List Rat) : 0 < attachWeight eigs := attachWeight_pos eigs

theorem alpha_positive (given : Option Rat) (hg : ∀ a, given = some a → 0 < a) (eigs : List Rat) : 0 < alphaOf given eigs := by
  unfold alphaOf
  cases given with
  | none => exact attachWeight_pos eigs
  | some a =>
    have ha := hg a rfl
    simp only
    split
    · exact attachWeight_pos eigs
    · exact ha

/-! non-vacuity -/
example : (run (fun n : Nat => n + 1) (fun n => 2 * n) (fresh 3)).data = 8 := by decide
example : attachWeight [0, 1/2, -1/4] = 1/4 := by
  unfold attachWeight attachThr attachFail rabs; norm_num [List.filter, listMin]
example : flagInto true (some [(7, 1)]) [(2, -1)] = [(2, -1)] := rfl

end Histories

end Mouette.Props.C18
