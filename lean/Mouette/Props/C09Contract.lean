import Mouette.Props.C09Heap
/-
C09, round 7: the exact contract on the connectivity queries of the mesh (`mesh.edges`, `connectivity.vertex_to_vertices`,
`connectivity.edge_id` — properties C01–C03) that the path queries rely on, as ONE named hypothesis structure, and what
follows from it: the graph the point-to-point query walks (`vertex_to_vertices` + `edge_length(u, v)` through `edge_id`) and
the graph the set query builds (`connectivity` from `mesh.edges`) are the same weighted graph.

Where the fields come from (surface meshes; C01): `edges_nodup` / `edges_lt` / `edges_noloop` — `edges_eq_spec` (every
undirected side `keyify(u,v)` exactly once; a side joins two different vertices of a face); `eid_spec` —
`source_edge_id_spec` (`edge_id(u,v) = e ⇔ edges[e] = keyify(u,v)`, on the translated `edge_id`); `vtv_spec` —
`vertexToVertices_mem_spec` (Props/C01Ring: `w ∈ vertex_to_vertices(v)` ⇔ `{v,w}` is a side of some face). The harness
checks the same facts on every generated mesh (the oracle re-derives the edges from the raw faces / cells).
-/
namespace Mouette.Props.C09
open Mouette.Dijkstra Mouette.PQ
open Mouette.Generated

def key2 (u v : Nat) : Nat × Nat := if u ≤ v then (u, v) else (v, u)

/-- the contract on the connectivity queries used by `shortest_path*` -/
structure ConnContract (n : Nat) (edges : List (Nat × Nat)) (vtv : Nat → List Nat) (eid : Nat → Nat → Option Nat) : Prop where
  /-- `mesh.edges`: sorted pairs of two different vertex ids, each undirected edge once -/
  edges_sorted : ∀ e ∈ edges, e.1 < e.2
  edges_lt : ∀ e ∈ edges, e.2 < n
  edges_nodup : edges.Nodup
  /-- `edge_id(u, v) = e` exactly when `edges[e]` is the sorted pair of `u`, `v` -/
  eid_spec : ∀ u v e, eid u v = some e ↔ edges[e]? = some (key2 u v)
  /-- `vertex_to_vertices(v)` lists exactly the other end points of the edges at `v` -/
  vtv_spec : ∀ v w, w ∈ vtv v ↔ (v ≠ w ∧ key2 v w ∈ edges)

theorem key2_comm (u v : Nat) : key2 u v = key2 v u := by
  unfold key2
  by_cases h : u ≤ v <;> by_cases h' : v ≤ u <;> simp [h, h'] <;> omega

/-- enumerate(mesh.edges) -/
def enumE : Nat → List (Nat × Nat) → List (Nat × Nat × Nat)
  | _, [] => []
  | k, e :: l => (k, e.1, e.2) :: enumE (k + 1) l

theorem mem_enumE : ∀ (l : List (Nat × Nat)) (k : Nat) (x : Nat × Nat × Nat),
    x ∈ enumE k l ↔ ∃ i, l[i]? = some (x.2.1, x.2.2) ∧ x.1 = k + i := by
  intro l
  induction l with
  | nil => intro k x; simp [enumE]
  | cons e l ih =>
    intro k x
    simp only [enumE, List.mem_cons, ih]
    constructor
    · rintro (h | ⟨i, h1, h2⟩)
      · exact ⟨0, by subst h; simp, by subst h; simp⟩
      · exact ⟨i + 1, by simpa using h1, by omega⟩
    · rintro ⟨i, h1, h2⟩
      cases i with
      | zero =>
        left
        simp at h1
        obtain ⟨a, b, c⟩ := x
        simp only at h1 h2 ⊢
        subst h2
        rw [h1]
      | succ i => exact Or.inr ⟨i, by simpa using h1, by omega⟩

/-- under the contract the two queries see the same weighted graph: every weighted adjacency of the point-to-point query
is one of the set query's graph (`adjOf` of the enumerated mesh edges with the weight of the mode), and conversely -/
theorem contract_same_graph {n : Nat} {edges : List (Nat × Nat)} {vtv : Nat → List Nat} {eid : Nat → Nat → Option Nat}
    (C : ConnContract n edges vtv eid) (mode : C09G.WMode) (len w : Nat → Rat) (v : Nat) (p : Nat × Rat) :
    p ∈ adj_sp mode (fun a b => len ((eid a b).getD 0)) w (fun a b => (eid a b).getD 0) vtv v ↔
      p ∈ adjOf ((enumE 0 edges).map (toW mode len w)) v := by
  have hw : ∀ a b e, eid a b = some e →
      C09G.edgeLength_sp mode (fun a b => len ((eid a b).getD 0)) w (fun a b => (eid a b).getD 0) a b = C09G.connWeight mode len w e := by
    intro a b e he
    have := weight_modes_agree mode len w (fun a b => (eid a b).getD 0) a b
    simp only [he, Option.getD_some] at this
    exact this
  unfold adj_sp adjOf
  simp only [List.mem_map, List.mem_filterMap]
  constructor
  · rintro ⟨nv, hnv, rfl⟩
    obtain ⟨hne, hk⟩ := (C.vtv_spec v nv).mp hnv
    obtain ⟨e, he⟩ := List.getElem?_of_mem hk
    have hid := (C.eid_spec v nv e).mpr he
    refine ⟨toW mode len w (e, (key2 v nv).1, (key2 v nv).2), ⟨(e, (key2 v nv).1, (key2 v nv).2), (mem_enumE edges 0 _).mpr ⟨e, by simpa using he, by simp⟩, rfl⟩, ?_⟩
    rw [hw v nv e hid]
    unfold toW key2
    by_cases h : v ≤ nv
    · simp [h]
    · have h2 : nv ≠ v := fun e => hne e.symm
      simp [h, h2]
  · rintro ⟨x, ⟨ie, hie, rfl⟩, hx⟩
    obtain ⟨i, hi, hidx⟩ := (mem_enumE edges 0 ie).mp hie
    have hmem : (ie.2.1, ie.2.2) ∈ edges := List.mem_of_getElem? hi
    have hs := C.edges_sorted _ hmem
    simp only at hs
    have hidx' : ie.1 = i := by omega
    unfold toW at hx
    simp only at hx
    by_cases h1 : ie.2.1 = v
    · rw [if_pos h1] at hx
      simp at hx
      refine ⟨ie.2.2, (C.vtv_spec v ie.2.2).mpr ⟨by omega, ?_⟩, ?_⟩
      · have : key2 v ie.2.2 = (ie.2.1, ie.2.2) := by unfold key2; rw [if_pos (by omega)]; rw [h1]
        rw [this]; exact hmem
      · rw [← hx]
        have hk : key2 v ie.2.2 = (ie.2.1, ie.2.2) := by unfold key2; rw [if_pos (by omega)]; rw [h1]
        have hid := (C.eid_spec v ie.2.2 i).mpr (by rw [hk]; exact hi)
        rw [hw v ie.2.2 i hid, hidx']
    · rw [if_neg h1] at hx
      by_cases h2 : ie.2.2 = v
      · rw [if_pos h2] at hx
        simp at hx
        have hk : key2 v ie.2.1 = (ie.2.1, ie.2.2) := by unfold key2; rw [if_neg (by omega)]; rw [h2]
        refine ⟨ie.2.1, (C.vtv_spec v ie.2.1).mpr ⟨by omega, by rw [hk]; exact hmem⟩, ?_⟩
        rw [← hx]
        have hid := (C.eid_spec v ie.2.1 i).mpr (by rw [hk]; exact hi)
        rw [hw v ie.2.1 i hid, hidx']
      · rw [if_neg h2] at hx; simp at hx

/-- hence the same edge paths with the same weights: optimality statements transfer between the two queries -/
theorem contract_same_paths {n : Nat} {edges : List (Nat × Nat)} {vtv : Nat → List Nat} {eid : Nat → Nat → Option Nat}
    (C : ConnContract n edges vtv eid) (mode : C09G.WMode) (len w : Nat → Rat) (a t : Nat) (l : List Nat) (W : Rat) :
    PathW (adj_sp mode (fun a b => len ((eid a b).getD 0)) w (fun a b => (eid a b).getD 0) vtv) a t l W ↔
      PathW (adjOf ((enumE 0 edges).map (toW mode len w))) a t l W :=
  ⟨fun h => h.mono (fun u _ e he => (contract_same_graph C mode len w u e).mp he),
   fun h => h.mono (fun u _ e he => (contract_same_graph C mode len w u e).mpr he)⟩

/-- non-vacuity: the contract holds for the single edge 0-1 with its natural queries -/
example : ConnContract 2 [(0, 1)] (fun v => if v = 0 then [1] else if v = 1 then [0] else [])
    (fun u v => if key2 u v = (0, 1) then some 0 else none) := by
  have hk : ∀ u v, key2 u v = (0, 1) ↔ (u = 0 ∧ v = 1) ∨ (u = 1 ∧ v = 0) := by
    intro u v
    unfold key2
    by_cases h : u ≤ v <;> simp [h, Prod.ext_iff] <;> omega
  refine ⟨by decide, by decide, by decide, ?_, ?_⟩
  · intro u v e
    by_cases h : key2 u v = (0, 1)
    · rw [if_pos h, h]
      cases e with
      | zero => simp
      | succ e => simp
    · rw [if_neg h]
      constructor
      · intro h'; cases h'
      · intro h'
        cases e with
        | zero => simp at h'; exact absurd h'.symm h
        | succ e => simp at h'
  · intro v w
    simp only [List.mem_singleton]
    rw [hk]
    by_cases h0 : v = 0 <;> by_cases h1 : v = 1 <;> simp [h0, h1] <;> omega

end Mouette.Props.C09
