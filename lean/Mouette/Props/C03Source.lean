import Mouette.Generated.C03S
import Mouette.Lemmas.VolSourceLemmas
import Mouette.Props.C03
import Mouette.Lemmas.VolLazyStamp
/-!
# C03 (round 4) — the theorems of `Props/C03.lean` transferred to what the SOURCE says now

`vlib/props/c03_source.py` compiles, on every run, the BODIES of the `_compute_*` methods of
`VolumeMesh._Connectivity`, of the accessors that read their caches, and of the border/interior computations of
`VolumeMesh` (`mouette/mesh/datatypes/volume.py` of `$MOUETTE_REPO`) statement by statement into
`Generated/C03S.lean` (loops → `foldl` over a state record of the containers the method writes; vocabulary in
`Model/VolSource.lean`).  This file proves the BRIDGES `Generated.f = Model.f` and restates the headline theorems on
the generated definitions.
-/
namespace Mouette.Props.C03Source
open Mouette.Vol Mouette.VolS
open Mouette.Generated

/-- hypothesis of the tetrahedral fragment: every cell has 4 vertices (part of `Conforming`) -/
def AllTets (m : Mesh) : Prop := ∀ c < m.nC, (m.cell c).length = 4

theorem allTets_of_conforming {m : Mesh} (h : Conforming m) : AllTets m := h.cell4

/-! ## `_compute_cell_adj` -/

theorem compute_cell_adj_F2C_bridge (m : Mesh) (h4 : AllTets m) :
    (C03S.compute_cell_adj m).adjF2C = m.conn.f2c := by
  unfold C03S.compute_cell_adj
  simp only []
  rw [foldl_proj C03S.ComputeCellAdjSt.adjF2C _ (fun d c => (m.cellToFace c).foldl (fun d f => dAppend d f c) d)]
  · show _ = buckets m.nF m.cellAdjPairs
    rw [← foldl_dAppend_eq_buckets]
    unfold Mesh.cellAdjPairs
    rw [List.foldl_flatMap]
    apply foldl_congr_mem
    intro d c _
    rw [List.foldl_map]
  · intro s c hc
    have hl : (m.cell c).length = 4 := h4 c (List.mem_range.1 hc)
    simp only [hl, BEq.rfl, if_true]
    rw [foldl_proj C03S.ComputeCellAdjSt.adjF2C _ (fun d i => dAppend d (m.faceIdD (Mesh.subFace (m.cell c) i)) c)]
    · unfold Mesh.cellToFace
      rw [List.foldl_map]
    · intro s i _; rfl

theorem compute_cell_adj_C2F_bridge (m : Mesh) (h4 : AllTets m) {c : Nat} (hc : c < m.nC) :
    dGet (C03S.compute_cell_adj m).adjC2F c = m.cellToFace c := by
  unfold C03S.compute_cell_adj
  simp only []
  rw [foldl_proj C03S.ComputeCellAdjSt.adjC2F _ (fun d c => (m.cellToFace c).foldl (fun d f => dAppend d c f) d)]
  · have : (List.range m.nC).foldl (fun d c => (m.cellToFace c).foldl (fun d f => dAppend d c f) d) (dictOfLists m.nC)
        = buckets m.nC ((List.range m.nC).flatMap fun c => (m.cellToFace c).map fun f => (c, f)) := by
      rw [← foldl_dAppend_eq_buckets, List.foldl_flatMap]
      apply foldl_congr_mem
      intro d c _
      rw [List.foldl_map]
    show dGet (List.foldl _ (dictOfLists m.nC) _) c = _
    rw [this]
    unfold dGet
    rw [buckets_getD]
    simp only [hc, if_true]
    rw [List.filter_flatMap, List.map_flatMap]
    have hz : ∀ c' ∈ List.range m.nC,
        ((((m.cellToFace c').map fun f => (c', f)).filter fun kv => kv.1 == c).map (·.2))
          = if c' = c then m.cellToFace c else [] := by
      intro c' _
      by_cases h : c' = c
      · subst h; simp [List.filter_map, Function.comp_def]
      · simp [List.filter_map, Function.comp_def, h]
    rw [List.flatMap_congr hz]
    clear hz this
    have : ∀ n, c < n → (List.range n).flatMap (fun c' => if c' = c then m.cellToFace c else []) = m.cellToFace c := by
      intro n
      induction n with
      | zero => intro h; omega
      | succ n ih =>
        intro h
        rw [List.range_succ, List.flatMap_append]
        by_cases hn : c < n
        · rw [ih hn]; have : n ≠ c := by omega
          simp [this]
        · have hcn : c = n := by omega
          subst hcn
          have : (List.range c).flatMap (fun c' => if c' = c then m.cellToFace c else []) = [] := by
            rw [List.flatMap_eq_nil_iff]
            intro x hx
            have : x ≠ c := by have := List.mem_range.1 hx; omega
            simp [this]
          rw [this]; simp
    exact this _ hc
  · intro s c hc
    have hl : (m.cell c).length = 4 := h4 c (List.mem_range.1 hc)
    simp only [hl, BEq.rfl, if_true]
    rw [foldl_proj C03S.ComputeCellAdjSt.adjC2F _ (fun d i => dAppend d c (m.faceIdD (Mesh.subFace (m.cell c) i)))]
    · unfold Mesh.cellToFace
      rw [List.foldl_map]
    · intro s i _; rfl

/-- no cell of a tetrahedral mesh takes the branch that is outside the translated fragment -/
theorem compute_cell_adj_inside (m : Mesh) (h4 : AllTets m) : (C03S.compute_cell_adj m).outside = false := by
  unfold C03S.compute_cell_adj
  simp only []
  rw [foldl_inv C03S.ComputeCellAdjSt.outside]
  intro s c hc
  have hl : (m.cell c).length = 4 := h4 c (List.mem_range.1 hc)
  simp only [hl, BEq.rfl, if_true]
  rw [foldl_inv C03S.ComputeCellAdjSt.outside]
  intro s i _; rfl

/-- `face_to_cells` / `cell_to_face` as the source computes them are the model's -/
theorem face_to_cells_bridge (m : Mesh) (h4 : AllTets m) (f : Nat) :
    C03S.face_to_cells m f = m.conn.faceToCells f := by
  unfold C03S.face_to_cells Conn.faceToCells dGet
  rw [compute_cell_adj_F2C_bridge m h4]

theorem cell_to_face_bridge (m : Mesh) (h4 : AllTets m) {c : Nat} (hc : c < m.nC) :
    C03S.cell_to_face m c = m.cellToFace c := compute_cell_adj_C2F_bridge m h4 hc

/-! ## `_compute_connectivity` (vertex → cells) -/

theorem vertex_to_cell_bridge (m : Mesh) (v : Nat) : C03S.vertex_to_cell m v = m.vertexToCell v := by
  unfold C03S.vertex_to_cell C03S.compute_connectivity
  simp only []
  rw [foldl_proj C03S.ComputeConnectivitySt.adjV2C _ (fun d k => dListOfSet d k) _ (fun _ _ _ => rfl)]
  rw [dGet_foldl_dListOfSet]
  rw [foldl_proj C03S.ComputeConnectivitySt.adjV2C _ (fun d c => ((m.cell c).map fun w => (w, c)).foldl (fun d kv => dAppend d kv.1 kv.2) d)]
  · show (if v < m.nV then (dGet (List.foldl _ (dictOfLists m.nV) _) v).eraseDups else dGet (List.foldl _ (dictOfLists m.nV) _) v) = _
    rw [← List.foldl_flatMap, foldl_dAppend_eq_buckets]
    unfold Mesh.vertexToCell Mesh.v2cPairs dGet
    by_cases hv : v < m.nV
    · simp only [hv, if_true]
    · simp only [hv, if_false]
      rw [buckets_getD]; simp [hv]
  · intro s c _
    rw [foldl_proj C03S.ComputeConnectivitySt.adjV2C _ (fun d w => dAdd d w c) _ (fun _ _ _ => rfl), List.foldl_map]
    rfl

/-! ## `_compute_edge_id` (edge → faces, edge → cells before the rotational sort) -/

theorem compute_edge_id_E2F_bridge (m : Mesh) : (C03S.compute_edge_id m).adjE2F = m.conn.e2f := by
  unfold C03S.compute_edge_id
  simp only []
  rw [foldl_inv C03S.ComputeEdgeIdSt.adjE2F]
  rotate_left
  · intro s a _; rfl
  rw [foldl_proj C03S.ComputeEdgeIdSt.adjE2F _ (fun d f => ((m.faceToEdges f).map fun e => (e, f)).foldl (fun d kv => dAppend d kv.1 kv.2) d)]
  · show List.foldl _ (dictOfLists m.nE) _ = buckets m.nE m.e2fPairs
    rw [← List.foldl_flatMap, foldl_dAppend_eq_buckets]; rfl
  · intro s f _
    rw [foldl_proj C03S.ComputeEdgeIdSt.adjE2F _ (fun d e => dAppend d e f) _ (fun _ _ _ => rfl), List.foldl_map]

theorem compute_edge_id_E2C_bridge (m : Mesh) (h4 : AllTets m) (e : Nat) :
    dGet (C03S.compute_edge_id m).adjE2C e = m.conn.e2cRaw e := by
  unfold C03S.compute_edge_id
  simp only []
  rw [foldl_proj C03S.ComputeEdgeIdSt.adjE2C _ (fun d k => dListOfSet d k) _ (fun _ _ _ => rfl)]
  rw [dGet_foldl_dListOfSet]
  rw [foldl_proj C03S.ComputeEdgeIdSt.adjE2C _
    (fun d f => ((m.faceToEdges f).map fun e => (e, m.conn.faceToCells f)).foldl (fun d kv => dUnion d kv.1 kv.2) d)]
  · show (if e < m.nE then (dGet (List.foldl _ (dictOfSets m.nE) _) e).eraseDups else dGet (List.foldl _ (dictOfSets m.nE) _) e) = _
    rw [← List.foldl_flatMap]
    have key : dGet (List.foldl (fun d kv => dUnion d kv.1 kv.2) (dictOfSets m.nE)
          ((List.range m.nF).flatMap fun f => (m.faceToEdges f).map fun e => (e, m.conn.faceToCells f))) e
        = if e < m.nE then ((m.conn.e2f.getD e []).flatMap m.conn.faceToCells) else [] := by
      unfold dGet
      rw [List.getD_eq_getElem?_getD, foldl_dUnion_getElem?]
      unfold dictOfSets
      by_cases he : e < m.nE
      · simp only [he, if_true, List.getElem?_replicate, Option.map_some, Option.getD_some, List.nil_append]
        show _ = ((buckets m.nE m.e2fPairs).getD e []).flatMap m.conn.faceToCells
        rw [buckets_getD]
        simp only [he, if_true]
        unfold Mesh.e2fPairs
        rw [List.filter_flatMap, List.flatMap_assoc, List.filter_flatMap, List.map_flatMap, List.flatMap_assoc]
        apply List.flatMap_congr
        intro f _
        rw [List.filter_map, List.filter_map, List.flatMap_map, List.map_map, List.flatMap_map]
        simp only [Function.comp_def]
      · simp [he]
    rw [key]
    unfold Conn.e2cRaw
    by_cases he : e < m.nE
    · simp only [he, if_true]
    · simp only [he, if_false]
      have : m.conn.e2f.getD e [] = [] := by
        show (buckets m.nE m.e2fPairs).getD e [] = []
        rw [buckets_getD]; simp [he]
      rw [this]; rfl
  · intro s f _
    rw [face_to_cells_bridge m h4]
    rw [foldl_proj C03S.ComputeEdgeIdSt.adjE2C _ (fun d e => dUnion d e (m.conn.faceToCells f)) _ (fun _ _ _ => rfl), List.foldl_map]

/-! ## `_compute_adjacent_cell`, `cell_to_cell` -/

/-- what one iteration of the cell loop of `_compute_adjacent_cell` does to the attribute (tetrahedral branch) -/
def adjStep (m : Mesh) (a : AMap (Nat × Nat)) (c : Nat) : AMap (Nat × Nat) :=
  ((m.adjFaces c).zipIdx).foldl (fun a p =>
    (m.conn.faceToCells p.1).foldl (fun a x => if (x != c) = true then aSet a (c, p.2) x else a) a) a

theorem aGet_adjStep (m : Mesh) (a : AMap (Nat × Nat)) (c c' i : Nat) :
    aGet (adjStep m a c) (c', i) =
      if c' = c ∧ i < 4 then (m.conn.adjCell c ((m.adjFaces c).getD i m.nF)).or (aGet a (c', i)) else aGet a (c', i) := by
  unfold adjStep Mesh.adjFaces Mesh.tetTable
  simp only [List.map, List.zipIdx_cons, List.zipIdx_nil, List.foldl, Nat.zero_add]
  rw [aGet_foldl_store, aGet_foldl_store, aGet_foldl_store, aGet_foldl_store]
  unfold Conn.adjCell
  by_cases hc : c' = c
  · subst hc
    have : i = 0 ∨ i = 1 ∨ i = 2 ∨ i = 3 ∨ 4 ≤ i := by omega
    rcases this with rfl | rfl | rfl | rfl | h
    · simp
    · simp
    · simp
    · simp
    · have h0 : i ≠ 0 := by omega
      have h1 : i ≠ 1 := by omega
      have h2 : i ≠ 2 := by omega
      have h3 : i ≠ 3 := by omega
      have h4 : ¬ i < 4 := by omega
      simp [h0, h1, h2, h3, h4]
  · simp [hc]

theorem compute_adjacent_cell_eq_fold (m : Mesh) (h4 : AllTets m) :
    (C03S.compute_adjacent_cell m).adjC2C = (List.range m.nC).foldl (adjStep m) [] := by
  unfold C03S.compute_adjacent_cell
  simp only []
  rw [foldl_proj C03S.ComputeAdjacentCellSt.adjC2C _ (adjStep m)]
  intro s c hc
  have hl : (m.cell c).length = 4 := h4 c (List.mem_range.1 hc)
  have h8 : ((m.cell c).length == 8) = false := by rw [hl]; rfl
  simp only [h8, Bool.false_eq_true, if_false]
  unfold adjStep
  rw [foldl_proj C03S.ComputeAdjacentCellSt.adjC2C _
    (fun a p => (m.conn.faceToCells p.1).foldl (fun a x => if (x != c) = true then aSet a (c, p.2) x else a) a)]
  · rfl
  · intro s p _
    rw [face_to_cells_bridge m h4]
    rw [foldl_proj C03S.ComputeAdjacentCellSt.adjC2C _ (fun a x => if (x != c) = true then aSet a (c, p.2) x else a)]
    intro s x _
    by_cases hx : (x != c) = true <;> simp [hx]

/-- **`_adjC2C[(c, i)]`** as the source leaves it: the last cell of `face_to_cells(f_i)` different from `c`, where `f_i` is
the face id of row `i` of the face table; never stored (= `NOT_AN_ID`) outside `c < nC`, `i < 4` -/
theorem compute_adjacent_cell_bridge (m : Mesh) (h4 : AllTets m) (c i : Nat) :
    aGet (C03S.compute_adjacent_cell m).adjC2C (c, i)
      = if c < m.nC ∧ i < 4 then m.conn.adjCell c ((m.adjFaces c).getD i m.nF) else none := by
  rw [compute_adjacent_cell_eq_fold m h4]
  generalize m.nC = n
  induction n with
  | zero => simp [aGet_nil]
  | succ n ih =>
    rw [List.range_succ, List.foldl_append]
    simp only [List.foldl]
    rw [aGet_adjStep, ih]
    by_cases hcn : c = n
    · subst hcn
      by_cases hi : i < 4
      · simp [hi]
      · simp [hi]
    · by_cases hlt : c < n
      · have : c < n + 1 := by omega
        simp [hcn, hlt, this]
      · have : ¬ c < n + 1 := by omega
        simp [hcn, hlt, this]

theorem cell_to_cell_bridge (m : Mesh) (h4 : AllTets m) {c : Nat} (hc : c < m.nC) :
    C03S.cell_to_cell m c = m.conn.cellToCell c := by
  unfold C03S.cell_to_cell Conn.cellToCell
  rw [h4 c hc]
  have hr : List.range 4 = [0, 1, 2, 3] := by decide
  rw [hr]
  simp only [List.filterMap_cons, List.filterMap_nil, compute_adjacent_cell_bridge m h4, hc, true_and]
  show _ = List.filterMap (m.conn.adjCell c) (m.conn.m.adjFaces c)
  have hm : m.conn.m = m := rfl
  rw [hm]
  have : m.adjFaces c = [(m.adjFaces c).getD 0 m.nF, (m.adjFaces c).getD 1 m.nF, (m.adjFaces c).getD 2 m.nF, (m.adjFaces c).getD 3 m.nF] := by
    unfold Mesh.adjFaces Mesh.tetTable; rfl
  rw [this]
  simp only [List.filterMap_cons, List.filterMap_nil, List.getD_cons_zero, List.getD_cons_succ]
  simp

/-! ## border / interior classification of `VolumeMesh` -/

theorem is_face_on_border_bridge (m : Mesh) (h4 : AllTets m) (f : Nat) :
    C03S.is_face_on_border m f = m.conn.isFaceOnBorder f := by
  unfold C03S.is_face_on_border Conn.isFaceOnBorder
  rw [face_to_cells_bridge m h4]

/-- `is_face_on_border(a, b, c)` (vertex form): the same test on `face_id(a, b, c)` -/
theorem is_face_on_border_star_bridge (m : Mesh) (h4 : AllTets m) (vs : List Nat) :
    C03S.is_face_on_border_star m vs = m.conn.isFaceOnBorder (m.faceIdD vs) := by
  unfold C03S.is_face_on_border_star Conn.isFaceOnBorder
  rw [face_to_cells_bridge m h4]

/-- the two-list partition loop `for x in l: if p(x): B.append(x) else: I.append(x)` -/
theorem partition_fold {σ : Type} (getB getI : σ → List Nat) (f : σ → Nat → σ) (p : Nat → Bool) (l : List Nat)
    (hB : ∀ s x, getB (f s x) = if p x then getB s ++ [x] else getB s)
    (hI : ∀ s x, getI (f s x) = if p x then getI s else getI s ++ [x]) (s : σ) :
    getB (l.foldl f s) = getB s ++ l.filter p ∧ getI (l.foldl f s) = getI s ++ l.filter (fun x => !p x) := by
  induction l generalizing s with
  | nil => simp
  | cons a r ih =>
    simp only [List.foldl]
    obtain ⟨h1, h2⟩ := ih (f s a)
    rw [h1, h2, hB, hI]
    cases hp : p a <;> simp [hp]

theorem boundary_faces_bridge (m : Mesh) (h4 : AllTets m) :
    C03S.boundary_faces m = m.conn.boundaryFaces ∧ C03S.interior_faces m = m.conn.interiorFaces := by
  unfold C03S.boundary_faces C03S.interior_faces C03S.compute_interior_boundary_faces
  simp only []
  have := partition_fold C03S.ComputeInteriorBoundaryFacesSt.boundary_faces C03S.ComputeInteriorBoundaryFacesSt.interior_faces
    (fun s x0 => if C03S.is_face_on_border m x0 = true then
        { s with boundary_faces := s.boundary_faces ++ [x0] } else { s with interior_faces := s.interior_faces ++ [x0] })
    (fun f => m.conn.isFaceOnBorder f) (List.range m.nF)
    (by intro s x; rw [is_face_on_border_bridge m h4]; cases m.conn.isFaceOnBorder x <;> simp)
    (by intro s x; rw [is_face_on_border_bridge m h4]; cases m.conn.isFaceOnBorder x <;> simp)
    { interior_faces := [], boundary_faces := [], outside := false }
  simp only [List.nil_append] at this
  exact this

/-- the partition loop when the predicate reads a part of the state that the loop does not write -/
theorem partition_fold_inv {σ τ : Type} (getB getI : σ → List Nat) (getT : σ → τ) (p : τ → Nat → Bool) (f : σ → Nat → σ)
    (l : List Nat)
    (hT : ∀ s x, getT (f s x) = getT s)
    (hB : ∀ s x, getB (f s x) = if p (getT s) x then getB s ++ [x] else getB s)
    (hI : ∀ s x, getI (f s x) = if p (getT s) x then getI s else getI s ++ [x]) (s : σ) :
    getT (l.foldl f s) = getT s ∧ getB (l.foldl f s) = getB s ++ l.filter (p (getT s))
      ∧ getI (l.foldl f s) = getI s ++ l.filter (fun x => !p (getT s) x) := by
  induction l generalizing s with
  | nil => simp
  | cons a r ih =>
    simp only [List.foldl]
    obtain ⟨h0, h1, h2⟩ := ih (f s a)
    rw [h0, h1, h2, hB, hI, hT]
    cases hp : p (getT s) a <;> simp [hp]

theorem flatMap_fold (g : Nat → List Nat) (l : List Nat) (acc : List Nat) :
    l.foldl (fun fl f => fl ++ g f) acc = acc ++ l.flatMap g := by
  induction l generalizing acc with
  | nil => simp
  | cons a r ih => simp only [List.foldl, ih, List.flatMap_cons, List.append_assoc]

theorem append_fold (l : List Nat) (acc : List Nat) : l.foldl (fun fl v => fl ++ [v]) acc = acc ++ l := by
  induction l generalizing acc with
  | nil => simp
  | cons a r ih => simp only [List.foldl, ih]; simp

theorem boundary_vertices_bridge (m : Mesh) (h4 : AllTets m) :
    (C03S.compute_interior_boundary_vertices m).is_vertex_on_border = m.conn.borderVertexFlags
    ∧ (C03S.compute_interior_boundary_vertices m).boundary_vertices = m.conn.boundaryVertices
    ∧ (C03S.compute_interior_boundary_vertices m).interior_vertices = m.conn.interiorVertices := by
  unfold C03S.compute_interior_boundary_vertices
  simp only []
  rw [(boundary_faces_bridge m h4).1]
  generalize hS : List.foldl (fun s x0 => List.foldl (fun s x1 => { s with is_vertex_on_border := flagSet s.is_vertex_on_border x1 }) s (m.face x0))
        ({ is_vertex_on_border := [], interior_vertices := [], boundary_vertices := [], outside := false } : C03S.ComputeInteriorBoundaryVerticesSt)
        m.conn.boundaryFaces = S
  have hflags : S.is_vertex_on_border = m.conn.borderVertexFlags := by
    rw [← hS, foldl_proj C03S.ComputeInteriorBoundaryVerticesSt.is_vertex_on_border _ (fun fl f => fl ++ m.face f)]
    · rw [flatMap_fold]; rfl
    · intro s f _
      rw [foldl_proj C03S.ComputeInteriorBoundaryVerticesSt.is_vertex_on_border _ (fun fl v => fl ++ [v]) _ (fun _ _ _ => rfl)]
      rw [append_fold]
  have hSB : S.boundary_vertices = [] := by
    rw [← hS, foldl_inv C03S.ComputeInteriorBoundaryVerticesSt.boundary_vertices]
    intro s f _
    rw [foldl_inv C03S.ComputeInteriorBoundaryVerticesSt.boundary_vertices]
    intro s v _; rfl
  have hSI : S.interior_vertices = [] := by
    rw [← hS, foldl_inv C03S.ComputeInteriorBoundaryVerticesSt.interior_vertices]
    intro s f _
    rw [foldl_inv C03S.ComputeInteriorBoundaryVerticesSt.interior_vertices]
    intro s v _; rfl
  obtain ⟨h0, h1, h2⟩ := partition_fold_inv C03S.ComputeInteriorBoundaryVerticesSt.boundary_vertices
    C03S.ComputeInteriorBoundaryVerticesSt.interior_vertices C03S.ComputeInteriorBoundaryVerticesSt.is_vertex_on_border
    (fun fl x => flagGet fl x)
    (fun s x2 => if flagGet s.is_vertex_on_border x2 = true then { s with boundary_vertices := s.boundary_vertices ++ [x2] }
      else { s with interior_vertices := s.interior_vertices ++ [x2] })
    (List.range m.nV)
    (by intro s x; cases flagGet s.is_vertex_on_border x <;> simp)
    (by intro s x; cases flagGet s.is_vertex_on_border x <;> simp)
    (by intro s x; cases flagGet s.is_vertex_on_border x <;> simp)
    ({ S with interior_vertices := [], boundary_vertices := [] })
  refine ⟨?_, ?_, ?_⟩
  · exact h0.trans hflags
  · refine h1.trans ?_
    show [] ++ List.filter (fun x => flagGet S.is_vertex_on_border x) _ = _
    rw [hflags]; rfl
  · refine h2.trans ?_
    show [] ++ List.filter (fun x => !flagGet S.is_vertex_on_border x) _ = _
    rw [hflags]; rfl

theorem boundary_edges_bridge (m : Mesh) (h4 : AllTets m) :
    (C03S.compute_interior_boundary_edges m).is_edge_on_border = m.conn.borderEdgeFlags
    ∧ (C03S.compute_interior_boundary_edges m).boundary_edges = m.conn.boundaryEdges
    ∧ (C03S.compute_interior_boundary_edges m).interior_edges = m.conn.interiorEdges := by
  unfold C03S.compute_interior_boundary_edges
  simp only []
  rw [(boundary_faces_bridge m h4).1]
  generalize hS : List.foldl (fun s x0 => List.foldl (fun s x2 =>
          { s with is_edge_on_border := (flagSet s.is_edge_on_border (m.edgeIdD ((m.face x0).getD x2 0) ((m.face x0).getD ((x2 + 1) % (m.face x0).length) 0))) }) s (List.range (m.face x0).length))
        ({ is_edge_on_border := [], interior_edges := [], boundary_edges := [], outside := false } : C03S.ComputeInteriorBoundaryEdgesSt)
        m.conn.boundaryFaces = S
  have hflags : S.is_edge_on_border = m.conn.borderEdgeFlags := by
    rw [← hS, foldl_proj C03S.ComputeInteriorBoundaryEdgesSt.is_edge_on_border _ (fun fl f => fl ++ m.faceToEdges f)]
    · rw [flatMap_fold]; rfl
    · intro s f _
      rw [foldl_proj C03S.ComputeInteriorBoundaryEdgesSt.is_edge_on_border _
        (fun fl i => fl ++ [m.edgeIdD ((m.face f).getD i 0) ((m.face f).getD ((i + 1) % (m.face f).length) 0)]) _ (fun _ _ _ => rfl)]
      unfold Mesh.faceToEdges
      simp only []
      rw [← append_fold, List.foldl_map]
  obtain ⟨h0, h1, h2⟩ := partition_fold_inv C03S.ComputeInteriorBoundaryEdgesSt.boundary_edges
    C03S.ComputeInteriorBoundaryEdgesSt.interior_edges C03S.ComputeInteriorBoundaryEdgesSt.is_edge_on_border
    (fun fl x => flagGet fl x)
    (fun s x2 => if flagGet s.is_edge_on_border x2 = true then { s with boundary_edges := s.boundary_edges ++ [x2] }
      else { s with interior_edges := s.interior_edges ++ [x2] })
    (List.range m.nE)
    (by intro s x; cases flagGet s.is_edge_on_border x <;> simp)
    (by intro s x; cases flagGet s.is_edge_on_border x <;> simp)
    (by intro s x; cases flagGet s.is_edge_on_border x <;> simp)
    ({ S with interior_edges := [], boundary_edges := [] })
  refine ⟨?_, ?_, ?_⟩
  · exact h0.trans hflags
  · refine h1.trans ?_
    show [] ++ List.filter (fun x => flagGet S.is_edge_on_border x) _ = _
    rw [hflags]; rfl
  · refine h2.trans ?_
    show [] ++ List.filter (fun x => !flagGet S.is_edge_on_border x) _ = _
    rw [hflags]; rfl

/-! ## the four border lists as the properties return them, the border predicates -/

theorem border_lists_bridge (m : Mesh) (h4 : AllTets m) :
    C03S.boundary_vertices m = m.conn.boundaryVertices ∧ C03S.interior_vertices m = m.conn.interiorVertices
    ∧ C03S.boundary_edges m = m.conn.boundaryEdges ∧ C03S.interior_edges m = m.conn.interiorEdges :=
  ⟨(boundary_vertices_bridge m h4).2.1, (boundary_vertices_bridge m h4).2.2,
   (boundary_edges_bridge m h4).2.1, (boundary_edges_bridge m h4).2.2⟩

theorem is_vertex_on_border_bridge (m : Mesh) (h4 : AllTets m) (v : Nat) :
    C03S.is_vertex_on_border m v = m.conn.isVertexOnBorder v := by
  unfold C03S.is_vertex_on_border Conn.isVertexOnBorder flagGet
  rw [(boundary_vertices_bridge m h4).1]

/-! ## the headline theorems of `Props/C03.lean`, restated on what the source computes -/

/-- **face → cells** as `_compute_cell_adj` + `face_to_cells` of the working tree compute it -/
theorem face_to_cells_source_eq_spec {m : Mesh} (h : Conforming m) {f c : Nat} (hf : f < m.nF) :
    c ∈ C03S.face_to_cells m f ↔ c < m.nC ∧ ∃ i < 4, (m.face f).Perm ((m.cell c).eraseIdx i) := by
  rw [face_to_cells_bridge m h.cell4]; exact Mouette.Props.C03.faceToCells_eq_spec h hf

/-- **cell → faces**: the i-th entry is the stored face opposite the i-th vertex -/
theorem cell_to_face_source_opposite {m : Mesh} (h : Conforming m) {c i : Nat} (hc : c < m.nC) (hi : i < 4) :
    (C03S.cell_to_face m c).length = 4 ∧
    ∃ f, f < m.nF ∧ (C03S.cell_to_face m c)[i]? = some f ∧ (m.face f).Perm ((m.cell c).eraseIdx i) := by
  rw [cell_to_face_bridge m h.cell4 hc]; exact Mouette.Props.C03.cellToFace_opposite h hc hi

/-- **cell → cells** as `_compute_adjacent_cell` + `cell_to_cell` compute it -/
theorem cell_to_cell_source_eq_spec {m : Mesh} (h : Conforming m) {c c' : Nat} (hc : c < m.nC) :
    c' ∈ C03S.cell_to_cell m c ↔
      c' ≠ c ∧ c' < m.nC ∧ ∃ i < 4, ∃ j < 4, ((m.cell c).eraseIdx i).Perm ((m.cell c').eraseIdx j) := by
  rw [cell_to_cell_bridge m h.cell4 hc]; exact Mouette.Props.C03.cellToCell_eq_spec h hc

/-- **vertex → cells** as `_compute_connectivity` + `vertex_to_cell` compute it (no hypothesis on the mesh) -/
theorem vertex_to_cell_source_eq_spec {m : Mesh} {v c : Nat} (hv : v < m.nV) :
    (c ∈ C03S.vertex_to_cell m v ↔ c < m.nC ∧ v ∈ m.cell c) ∧ (C03S.vertex_to_cell m v).Nodup := by
  rw [vertex_to_cell_bridge]; exact Mouette.Props.C03.vertexToCell_eq_spec hv

/-- **border faces** as `_compute_interior_boundary_faces` computes them: the stored faces lying in exactly one cell;
border and interior faces partition the face ids -/
theorem boundary_faces_source_iff_one_cell {m : Mesh} (h : Conforming m) {f : Nat} :
    (f ∈ C03S.boundary_faces m ↔ f < m.nF ∧ ∃ c, C03S.face_to_cells m f = [c])
    ∧ (C03S.boundary_faces m ++ C03S.interior_faces m).Perm (List.range m.nF)
    ∧ (∀ g, ¬ (g ∈ C03S.boundary_faces m ∧ g ∈ C03S.interior_faces m)) := by
  rw [(boundary_faces_bridge m h.cell4).1, (boundary_faces_bridge m h.cell4).2, face_to_cells_bridge m h.cell4]
  exact ⟨Mouette.Props.C03.border_faces_iff_one_cell h, (Mouette.Props.C03.face_partition m.conn).1,
    (Mouette.Props.C03.face_partition m.conn).2.1⟩

/-- **border vertices / edges** as the source computes them: the vertices / sides of the border faces -/
theorem boundary_vertices_edges_source_eq_spec {m : Mesh} (h : Conforming m) {v e : Nat} :
    (v ∈ C03S.boundary_vertices m ↔ v < m.nV ∧ ∃ f ∈ C03S.boundary_faces m, v ∈ m.face f)
    ∧ (e ∈ C03S.boundary_edges m ↔ e < m.nE ∧ ∃ f ∈ C03S.boundary_faces m, e ∈ m.faceToEdges f) := by
  obtain ⟨hv, _, he, _⟩ := border_lists_bridge m h.cell4
  rw [hv, he, (boundary_faces_bridge m h.cell4).1]
  exact ⟨(Mouette.Props.C03.boundaryVertices_eq_spec m.conn).1, (Mouette.Props.C03.boundaryEdges_eq_spec m.conn).1⟩

/-- **edge → faces / cells before the rotational sort**, as `_compute_edge_id` computes them -/
theorem edge_sets_source_eq_spec {m : Mesh} (h : Conforming m) {e : Nat} :
    (∀ f, f ∈ dGet (C03S.compute_edge_id m).adjE2F e ↔ e < m.nE ∧ f < m.nF ∧ e ∈ m.faceToEdges f)
    ∧ (∀ c, c ∈ dGet (C03S.compute_edge_id m).adjE2C e ↔
        ∃ f, (e < m.nE ∧ f < m.nF ∧ e ∈ m.faceToEdges f) ∧ c ∈ C03S.face_to_cells m f)
    ∧ (dGet (C03S.compute_edge_id m).adjE2C e).Nodup := by
  rw [compute_edge_id_E2F_bridge, compute_edge_id_E2C_bridge m h.cell4]
  refine ⟨fun f => mem_e2f, fun c => ?_, e2cRaw_nodup _ _⟩
  rw [mem_e2cRaw]
  constructor
  · rintro ⟨f, hf, hc⟩; exact ⟨f, mem_e2f.1 hf, by rw [face_to_cells_bridge m h.cell4]; exact hc⟩
  · rintro ⟨f, hf, hc⟩; exact ⟨f, mem_e2f.2 hf, by rw [face_to_cells_bridge m h.cell4] at hc; exact hc⟩

/-! ## Part B: the edge-umbrella hypotheses of the order theorems, from a decidable predicate -/

/-- everything the order theorems assume about edge `e`, computed: the end points, the start cell, the two walks -/
def umbrellaData (k : Conn) (e : Nat) : Option (Nat × Nat × Nat × List Nat × List Nat × List Nat × List Nat) :=
  match k.m.edge e, k.e2cRaw e with
  | [A, B], c0 :: _ =>
    match (k.m.cell c0).filter (fun x => x != A && x != B) with
    | [p1, p2] =>
      match k.walk A B (k.m.nC + 1) c0 p1 [c0] with
      | some (cs1, fs1) =>
        match k.walk A B (k.m.nC + 1) c0 p2 (cs1.reverse ++ [c0]) with
        | some (cs2, fs2) => some (A, B, c0, cs1, fs1, cs2, fs2)
        | none => none
      | none => none
    | _ => none
  | _, _ => none

/-- **decidable edge-umbrella predicate**: the two walks around `e` succeed and reach every cell around `e` -/
def edgeUmbrella (k : Conn) (e : Nat) : Bool :=
  match umbrellaData k e with
  | some (_, _, c0, cs1, _, cs2, _) => (k.e2cRaw e).isPerm (cs2.reverse ++ c0 :: cs1)
  | none => false

/-- **rotational order of `edge_to_cell` from the decidable predicate**: when `edgeUmbrella k e` evaluates to `true`, the
sorted answer is: backward walk reversed, start cell, forward walk; both walks are chains of cells glued through stored
faces containing the edge; no cell repeats. (The hypotheses `hedge hraw hpiv hw1 hw2 hcover` of
`edge_to_cell_rotational_order` are no longer assumed: they are derived from the flag.) -/
theorem edge_to_cell_order_of_umbrella (k : Conn) {e : Nat} (h : edgeUmbrella k e = true) :
    ∃ A B c0 cs1 fs1 cs2 fs2 fs, k.m.edge e = [A, B]
      ∧ k.sortEdge e = some (cs2.reverse ++ c0 :: cs1, fs)
      ∧ WalkChain k A B c0 cs1 fs1 ∧ WalkChain k A B c0 cs2 fs2 ∧ (c0 :: cs1 ++ cs2).Nodup := by
  unfold edgeUmbrella at h
  cases hd : umbrellaData k e with
  | none => rw [hd] at h; cases h
  | some d =>
    obtain ⟨A, B, c0, cs1, fs1, cs2, fs2⟩ := d
    rw [hd] at h
    simp only at h
    have hperm : (k.e2cRaw e).Perm (cs2.reverse ++ c0 :: cs1) := List.isPerm_iff.1 h
    unfold umbrellaData at hd
    split at hd
    · rename_i A' B' c0' rest hedge hraw
      split at hd
      · rename_i p1 p2 hpiv
        split at hd
        · rename_i cs1' fs1' hw1
          split at hd
          · rename_i cs2' fs2' hw2
            simp only [Option.some.injEq, Prod.mk.injEq] at hd
            obtain ⟨rfl, rfl, rfl, rfl, rfl, rfl, rfl⟩ := hd
            obtain ⟨⟨fs, hs⟩, hc1, hc2, hnd⟩ :=
              Mouette.Props.C03.edge_to_cell_rotational_order k hedge hraw hpiv hw1 hw2 hperm
            exact ⟨_, _, _, _, _, _, _, fs, hedge, hs, hc1, hc2, hnd⟩
          · cases hd
        · cases hd
      · cases hd
    · cases hd

/-- non-vacuity: the predicate holds on the border edge (1,2) of `twoTets` and on the interior edge (0,1) of `ring3`,
and the theorem then yields their sorted rings -/
example : edgeUmbrella Mouette.Props.C03.twoTets.conn 1 = true ∧ edgeUmbrella Mouette.Props.C03.ring3.conn 5 = true := by
  decide +kernel
example : ∃ cs fs, Mouette.Props.C03.ring3.conn.sortEdge 5 = some (cs, fs) := by
  obtain ⟨A, B, c0, cs1, fs1, cs2, fs2, fs, _, hs, _⟩ :=
    edge_to_cell_order_of_umbrella Mouette.Props.C03.ring3.conn (e := 5) (by decide +kernel)
  exact ⟨_, fs, hs⟩
/-- … and is refuted where the walks cannot reach every cell: two tetrahedra glued along the single edge (0,1) -/
def edgeGlued : Mesh :=
  { verts := [⟨0,0,0⟩, ⟨0,0,1⟩, ⟨1,0,0⟩, ⟨0,1,0⟩, ⟨-1,0,0⟩, ⟨0,-1,0⟩],
    edges := [[0,1],[0,2],[0,3],[1,2],[1,3],[2,3],[0,4],[0,5],[1,4],[1,5],[4,5]],
    faces := [[0,1,2],[0,1,3],[0,2,3],[1,2,3],[0,1,4],[0,1,5],[0,4,5],[1,4,5]],
    cells := [[0,1,2,3],[0,1,4,5]] }
example : edgeGlued.conforming = true ∧ edgeUmbrella edgeGlued.conn 0 = false := by decide +kernel

/-! ## non-vacuity of the bridges: the generated definitions evaluated on `twoTets` -/

example : AllTets Mouette.Props.C03.twoTets := allTets_of_conforming (Mouette.Props.C03.conforming_of_flag (by decide +kernel))
example : C03S.face_to_cells Mouette.Props.C03.twoTets 0 = [0, 1] ∧ C03S.cell_to_face Mouette.Props.C03.twoTets 1 = [4, 5, 6, 0]
    ∧ C03S.cell_to_cell Mouette.Props.C03.twoTets 0 = [1] ∧ C03S.vertex_to_cell Mouette.Props.C03.twoTets 4 = [1]
    ∧ C03S.boundary_faces Mouette.Props.C03.twoTets = [1, 2, 3, 4, 5, 6] ∧ C03S.interior_faces Mouette.Props.C03.twoTets = [0]
    ∧ C03S.boundary_vertices Mouette.Props.C03.twoTets = [0, 1, 2, 3, 4] ∧ C03S.interior_edges Mouette.Props.C03.twoTets = []
    ∧ (C03S.compute_cell_adj Mouette.Props.C03.twoTets).outside = false := by decide +kernel

/-! ## Part B: cache staleness and `clear()` as a history theorem over the translated guard table -/

open Mouette.VolLazy in
/-- **no stale read after `clear()`** on the table translated from `volume.py` / `surface.py` / `linear.py`: after ANY history
of public queries made at ANY versions of the cell list (cells may have been changed in place in between), followed by
`clear()`, every query made at the current version `v` only reads caches computed at version `v` -/
theorem volume_no_stale_read_after_clear (hist : List (Nat × Nat))
    (hq : ∀ p ∈ hist, p.1 ∈ C03.volumeGuards.alphabet) (vc v : Nat) (qs : List Nat) (stamps : List Nat)
    (hl : C03.volumeGuards.fresh.1.length = stamps.length) :
    ∀ log ∈ C03.volumeGuards.runV (C03.volumeGuards.finalV (C03.volumeGuards.fresh.1, stamps) (hist ++ [(C03.clearId, vc)]))
        (qs.map fun q => (q, v)), ∀ w ∈ log, w = v :=
  Table.no_stale_read_after_clear _ Mouette.Props.C03.volumeGuards_wellGuarded
    Mouette.Props.C03.volumeGuards_clear_restores_fresh Mouette.Props.C03.volumeGuards_init_covers_caches.2 hist hq vc v qs stamps hl

open Mouette.VolLazy in
/-- … and `clear()` is NEEDED (this is what its docstring says): without it, `face_to_cells` asked at version 1 after
having been asked at version 0 reads the cache computed at version 0 — a stale read, on the table as translated -/
theorem volume_stale_read_without_clear :
    let q := C03.volumeGuards.methodNames.idxOf "face_to_cells"
    let logs := C03.volumeGuards.runV (C03.volumeGuards.fresh.1, List.replicate C03.volumeGuards.nAttr 0) [(q, 0), (q, 1)]
    (logs.getD 1 []).contains 0 = true ∧ q ∈ C03.volumeGuards.alphabet := by decide +kernel

end Mouette.Props.C03Source
