import Mouette.Model.Geom
import Mouette.Lemmas.AngleSum
import Mouette.Lemmas.GaussBonnet
import Mouette.Lemmas.Handshake
/-
C07, statements over ℝ (noncomputable specifications: `atan2(s,c) := arg(c + s·i)`, `Real.sqrt`, Mathlib's unoriented angle):

  * the corner angle the code computes, `atan2(‖BA×BC‖, BA·BC)` = `atan2(√cross², dot)` of the model's exact pair,
    IS the Euclidean angle ∠ABC;
  * `angle_sum_pi`: the three corner angles of every triangle with pairwise distinct vertices sum to π;
  * `gauss_bonnet`: the angle defects of `angle_defects` (2π − Σ at interior, π − Σ at border vertices) sum to 2π·χ.

The combinatorial hypotheses of `gauss_bonnet` are explicit (decidable) and are re-checked by the harness on every generated
triangulated mesh: `TriMesh` (triangles with vertices < V), handshake `3F + E_b = 2E`, border cycles `V_b = E_b`, `χ = V − E + F`.
-/
namespace Mouette.Props.C07Real
open Mouette.Geom Mouette.GeomR Mouette.Ops

/-- bridge, general form: in any real inner product space `atan2(√(|x|²|y|² − ⟨x,y⟩²), ⟨x,y⟩)` is the angle between `x` and `y` -/
theorem atan2_eq_angle {V : Type*} [NormedAddCommGroup V] [InnerProductSpace ℝ V] (x y : V) (hx : x ≠ 0) (hy : y ≠ 0) :
    atan2 (Real.sqrt (inner ℝ x x * inner ℝ y y - inner ℝ x y * inner ℝ x y)) (inner ℝ x y)
      = InnerProductGeometry.angle x y := Mouette.GeomR.atan2_eq_angle x y hx hy

/-- the model's `cross²` is `|u|²|v|² − (u·v)²` in ℝ (Lagrange), so `√cross²` is `‖u × v‖ = |u||v| sin θ` -/
theorem cross2_real (u v : V3) :
    ((norm2 (cross u v) : Rat) : ℝ) = inner ℝ (toE u) (toE u) * inner ℝ (toE v) (toE v)
      - inner ℝ (toE u) (toE v) * inner ℝ (toE u) (toE v) := Mouette.GeomR.cross2_real u v

/-- THE BRIDGE: `angle_3pts(a,b,c)` evaluated exactly on the model's `(cross², dot)` pair equals the Euclidean angle `∠ a b c` -/
theorem codeAngle_eq_angle (a b c : V3) (hab : a ≠ b) (hcb : c ≠ b) :
    codeAngle a b c = EuclideanGeometry.angle (toE a) (toE b) (toE c) := Mouette.GeomR.codeAngle_eq_angle a b c hab hcb

/-- corner angles lie in [0, π] -/
theorem codeAngle_range (a b c : V3) (hab : a ≠ b) (hcb : c ≠ b) : 0 ≤ codeAngle a b c ∧ codeAngle a b c ≤ Real.pi := by
  rw [codeAngle_eq_angle a b c hab hcb]
  exact ⟨EuclideanGeometry.angle_nonneg _ _ _, EuclideanGeometry.angle_le_pi _ _ _⟩

/-- **angle_sum_pi**: on every triangle with pairwise distinct vertices the three corner angles computed by the code's formula sum to π -/
theorem angle_sum_pi (a b c : V3) (hab : a ≠ b) (hbc : b ≠ c) (hca : c ≠ a) :
    codeAngle c a b + codeAngle a b c + codeAngle b c a = Real.pi := Mouette.GeomR.angle_sum_pi a b c hab hbc hca

/-- mesh level: corners `3t, 3t+1, 3t+2` of `corner_angles` sum to π for every face `t` -/
theorem meshAngle_sum (vs : List V3) (faces : List Face) (h : NonDegenerate vs faces) :
    ∀ t, t < faces.length →
      meshAngle vs faces (3 * t) + meshAngle vs faces (3 * t + 1) + meshAngle vs faces (3 * t + 2) = Real.pi :=
  Mouette.GeomR.meshAngle_sum vs faces h

/-- every corner belongs to exactly one vertex: regrouping corner values by vertex loses nothing -/
theorem corner_sum_by_vertex (cv : List Nat) (nV : Nat) (θ : Nat → ℝ) (h : ∀ c, c < cv.length → cv.getD c 0 < nV) :
    ∑ v ∈ Finset.range nV, ((indicesWhere cv v).map θ).sum = ∑ c ∈ Finset.range cv.length, θ c :=
  Mouette.GeomR.corner_sum_by_vertex cv nV θ h

/-- `Σ_v defect_v = π (2V − V_border − F)` for ANY corner angles whose triangles sum to π -/
theorem defect_total (faces : List Face) (nV : Nat) (θ : Nat → ℝ) (hm : TriMesh faces nV)
    (hθ : ∀ t, t < faces.length → θ (3 * t) + θ (3 * t + 1) + θ (3 * t + 2) = Real.pi) :
    ∑ v ∈ Finset.range nV, defectR faces θ v
      = Real.pi * (2 * (nV : ℝ) - (nBorderV faces nV : ℝ) - (faces.length : ℝ)) :=
  Mouette.GeomR.defect_total faces nV θ hm hθ

/-- **gauss_bonnet (combinatorial)**: `Σ_v defect_v = 2π χ` from handshake `3F + E_b = 2E`, `V_b = E_b`, `χ = V − E + F` -/
theorem gauss_bonnet_combinatorial (faces : List Face) (nV E Eb : Nat) (χ : Int) (θ : Nat → ℝ) (hm : TriMesh faces nV)
    (hθ : ∀ t, t < faces.length → θ (3 * t) + θ (3 * t + 1) + θ (3 * t + 2) = Real.pi)
    (hand : 3 * faces.length + Eb = 2 * E) (hcycle : nBorderV faces nV = Eb)
    (hχ : χ = (nV : Int) - (E : Int) + (faces.length : Int)) :
    ∑ v ∈ Finset.range nV, defectR faces θ v = 2 * Real.pi * (χ : ℝ) :=
  Mouette.GeomR.gauss_bonnet_combinatorial faces nV E Eb χ θ hm hθ hand hcycle hχ

/-- closed surfaces: `2E = 3F`, no border vertex -/
theorem gauss_bonnet_closed (faces : List Face) (nV E : Nat) (χ : Int) (θ : Nat → ℝ) (hm : TriMesh faces nV)
    (hθ : ∀ t, t < faces.length → θ (3 * t) + θ (3 * t + 1) + θ (3 * t + 2) = Real.pi)
    (hand : 3 * faces.length = 2 * E) (hclosed : nBorderV faces nV = 0)
    (hχ : χ = (nV : Int) - (E : Int) + (faces.length : Int)) :
    ∑ v ∈ Finset.range nV, defectR faces θ v = 2 * Real.pi * (χ : ℝ) :=
  Mouette.GeomR.gauss_bonnet_closed faces nV E χ θ hm hθ hand hclosed hχ

/-- **gauss_bonnet**: with the corner angles the code computes (`atan2(√cross², dot)` on rational = float coordinates, exact arithmetic) -/
theorem gauss_bonnet (vs : List V3) (faces : List Face) (nV E Eb : Nat) (χ : Int) (hm : TriMesh faces nV)
    (hnd : NonDegenerate vs faces) (hand : 3 * faces.length + Eb = 2 * E) (hcycle : nBorderV faces nV = Eb)
    (hχ : χ = (nV : Int) - (E : Int) + (faces.length : Int)) :
    ∑ v ∈ Finset.range nV, defectR faces (meshAngle vs faces) v = 2 * Real.pi * (χ : ℝ) :=
  Mouette.GeomR.gauss_bonnet vs faces nV E Eb χ hm hnd hand hcycle hχ

/-- **handshake derived**: `3F + E_b = 2E` follows from the mesh hypotheses (triangles with distinct vertices, no directed side in two
faces, the edge list holds every undirected side exactly once and nothing else); `E_b` = edges with exactly one orientation present -/
theorem handshake_of_manifold (faces : List Face) (es : List (Nat × Nat)) (hm : OrientedTriangulation faces)
    (he : EdgesAreSides faces es) (hfrom : EdgesFromSides faces es) :
    3 * faces.length + (borderEdges faces es).length = 2 * es.length :=
  Mouette.Ops.handshake_of_manifold faces es hm he hfrom

/-- **gauss_bonnet on an oriented triangulated manifold**: the only remaining combinatorial premise is that the border is a disjoint
union of cycles (as many border vertices as border edges); the handshake identity is derived, `χ = V − E + F` with `E = |edge list|` -/
theorem gauss_bonnet_of_manifold (vs : List V3) (faces : List Face) (es : List (Nat × Nat)) (nV : Nat) (hm : TriMesh faces nV)
    (hnd : NonDegenerate vs faces) (ho : OrientedTriangulation faces) (he : EdgesAreSides faces es)
    (hfrom : EdgesFromSides faces es) (hcycle : nBorderV faces nV = (borderEdges faces es).length) :
    ∑ v ∈ Finset.range nV, defectR faces (meshAngle vs faces) v
      = 2 * Real.pi * (((nV : Int) - (es.length : Int) + (faces.length : Int) : Int) : ℝ) :=
  Mouette.GeomR.gauss_bonnet vs faces nV es.length (borderEdges faces es).length _ hm hnd
    (Mouette.Ops.handshake_of_manifold faces es ho he hfrom) hcycle rfl

/-! ## non-vacuity: the boundary of a tetrahedron (closed, V=4 E=6 F=4 χ=2) and a single triangle (V=3 E=3 E_b=3 F=1 χ=1) -/

example : TriMesh tetFaces 4 := by decide
example : nBorderV tetFaces 4 = 0 := by decide
example : 3 * tetFaces.length = 2 * 6 := by decide
example : NonDegenerate tetPts tetFaces := by
  intro f hf
  simp only [tetFaces, List.mem_cons, List.mem_nil_iff, or_false] at hf
  rcases hf with rfl | rfl | rfl | rfl
  · exact ⟨0, 2, 1, rfl, by decide, by decide, by decide⟩
  · exact ⟨0, 1, 3, rfl, by decide, by decide, by decide⟩
  · exact ⟨1, 2, 3, rfl, by decide, by decide, by decide⟩
  · exact ⟨2, 0, 3, rfl, by decide, by decide, by decide⟩
example : TriMesh [[0, 1, 2]] 3 ∧ nBorderV [[0, 1, 2]] 3 = 3 ∧ 3 * [[0, 1, 2]].length + 3 = 2 * 3 := by decide

example : OrientedTriangulation tetFaces := by
  refine ⟨?_, by decide⟩
  intro f hf
  simp only [tetFaces, List.mem_cons, List.mem_nil_iff, or_false] at hf
  rcases hf with rfl | rfl | rfl | rfl
  · exact ⟨0, 2, 1, rfl, by decide, by decide, by decide⟩
  · exact ⟨0, 1, 3, rfl, by decide, by decide, by decide⟩
  · exact ⟨1, 2, 3, rfl, by decide, by decide, by decide⟩
  · exact ⟨2, 0, 3, rfl, by decide, by decide, by decide⟩
example : EdgesAreSides tetFaces [(0, 1), (0, 2), (0, 3), (1, 2), (1, 3), (2, 3)] := by
  unfold EdgesAreSides; decide
example : EdgesFromSides tetFaces [(0, 1), (0, 2), (0, 3), (1, 2), (1, 3), (2, 3)] := by
  unfold EdgesFromSides; decide
example : nBorderV tetFaces 4 = (borderEdges tetFaces [(0, 1), (0, 2), (0, 3), (1, 2), (1, 3), (2, 3)]).length := by decide
example : nBorderV [[0, 1, 2]] 3 = (borderEdges [[0, 1, 2]] [(0, 1), (1, 2), (0, 2)]).length := by decide

end Mouette.Props.C07Real
