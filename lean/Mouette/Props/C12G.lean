import Mathlib.Tactic.Ring
import Mouette.Generated.C12
import Mouette.Lemmas.Prim
/-
C12 — bridge theorems for the translated fragments: the arithmetic expressions re-extracted from the CURRENT source of
`geometry.cross`, `det_2x2`, `det_3x3`, `rotate_2d`, `rotate_around_axis` (Generated/C12.lean, verbatim) denote the
hand-written model (`Model/Prim.lean`) about which the algebraic theorems of `Props/C12.lean` are proved.  A semantic
change of one of these expressions in the source breaks the corresponding bridge.
-/
namespace Mouette.Props.C12G
open Mouette.Prim
namespace G
export Mouette.Generated.C12 (cross0 cross1 cross2 det2 det3 rot2x rot2y rotaxx rotaxy rotaxz parallelThreshold segmentThreshold parallelRelative parallelClosed)
end G

theorem gen_cross_eq (A B : V3) :
    (⟨G.cross0 (idx3 A) (idx3 B), G.cross1 (idx3 A) (idx3 B), G.cross2 (idx3 A) (idx3 B)⟩ : V3) = V3.cross A B := by
  simp only [Mouette.Generated.C12.cross0, Mouette.Generated.C12.cross1, Mouette.Generated.C12.cross2, idx3, V3.cross] <;>
  first | rfl | (congr 1 <;> ring)

theorem gen_det2_eq (A B : V2) : G.det2 A.x A.y B.x B.y = det2 A B := by
  simp only [Mouette.Generated.C12.det2, det2] <;>
  first | rfl | ring

theorem gen_det3_eq (A B C : V3) : G.det3 (rows3 A B C) = det3 A B C := by
  simp only [Mouette.Generated.C12.det3, rows3, idx3, det3] <;>
  first | rfl | ring

theorem gen_rot2_eq (v : V2) (c s : Rat) : (⟨G.rot2x (idx2 v) c s, G.rot2y (idx2 v) c s⟩ : V2) = rot2 v c s := by
  simp only [Mouette.Generated.C12.rot2x, Mouette.Generated.C12.rot2y, idx2, rot2] <;>
  first | rfl | (congr 1 <;> ring)

theorem gen_rotax_eq (inp u : V3) (c s : Rat) :
    (⟨G.rotaxx inp.x inp.y inp.z u.x u.y u.z c s, G.rotaxy inp.x inp.y inp.z u.x u.y u.z c s,
      G.rotaxz inp.x inp.y inp.z u.x u.y u.z c s⟩ : V3) = rotAxis inp u c s := by
  simp only [Mouette.Generated.C12.rotaxx, Mouette.Generated.C12.rotaxy, Mouette.Generated.C12.rotaxz, rotAxis] <;>
  first | rfl | (congr 1 <;> ring)

/-- the parallelism test of `intersect_2lines2D` in the source is RELATIVE to the lengths of both directions and closed (`<=`) -/
theorem gen_parallel_relative : G.parallelRelative = true ∧ G.parallelClosed = true := ⟨rfl, rfl⟩

/-- the model's test `parallel2` is the source's `|det(d1,d2)| ≤ c·|d1|·|d2|` with the extracted factor `c`, on the squares -/
theorem gen_parallel_test (d1 d2 : V2) :
    parallel2 d1 d2 = decide (det2 d1 d2 * det2 d1 d2 ≤ G.parallelThreshold * G.parallelThreshold * V2.norm2 d1 * V2.norm2 d2) := by
  simp only [parallel2, Mouette.Generated.C12.parallelThreshold, eps12]
  norm_num

theorem gen_thresholds_eq : G.parallelThreshold = eps12 ∧ G.segmentThreshold = eps12 := by
  constructor <;> simp only [Mouette.Generated.C12.parallelThreshold, Mouette.Generated.C12.segmentThreshold, eps12] <;> (first | rfl | norm_num)

end Mouette.Props.C12G
