import Mouette.Lemmas.KDTreeFlat
import Mouette.Props.C11
/-
C11, flat model — the code's own data structures (`Model/KDTreeFlat.lean`: flat `self.nodes`, FIFO construction queue,
ids handed out by `_new_leaf`, explicit DFS stack of `query`) REFINE the recursive model about which `Props/C11.lean`
is proved, for every point function, dimension, leaf size ≥ 1 and every pivot function keyed by heap-path id.
Hence termination, the leaf partition, box soundness and k-NN exactness hold for the code's shape.
`radiusFlat` (FIFO traversal of `query_radius`) returns the recursive answer up to order.
-/
namespace Mouette.Props.C11F
open Mouette.KD Mouette.AABB Mouette.AABB.EQ Mouette.Props.C11

theorem qinv_root (n dim : Nat) : QInv [rootPending n dim] 1 [] :=
  ⟨by simp [rootPending], by simp⟩

/-- **The BFS loop terminates**: `2n+1` iterations suffice for `n` points, whatever the pivots. -/
theorem buildBFSRoot_terminates (P : Nat → Pt) (n dim leafSize : Nat) (piv : Nat → List Rat → Rat) (hleaf : 1 ≤ leafSize) :
    (buildBFSRoot P n dim leafSize piv).isSome = true := by
  unfold buildBFSRoot
  apply buildBFS_terminates hleaf
  simp only [qcost, rootPending, Pending.cost, List.map_cons, List.map_nil, List.sum_cons, List.sum_nil, List.length_range]
  split <;> omega

/-- **Tree-level refinement**: reading the flat node list back from node 0 gives exactly the tree of the recursive
construction (same pivots), for every sufficient fuel. -/
theorem buildBFSRoot_refines (P : Nat → Pt) (n dim leafSize : Nat) (piv : Nat → List Rat → Rat) (hleaf : 1 ≤ leafSize)
    (out : List FNode) (h : buildBFSRoot P n dim leafSize piv = some out) (f : Nat) (hf : n < f) :
    toTree out f 0 = buildRoot P n dim leafSize piv f := by
  have := (buildBFS_refines hleaf _ _ _ _ out (qinv_root n dim) h).2 (rootPending n dim) (by simp) f
    (by simpa [rootPending] using hf)
  simpa [rootPending, buildRoot] using this

/-- ids are positions: `self.nodes[i].id == i` (so `self.nodes[node.left]` is the left child, as `query` assumes) -/
theorem buildBFSRoot_ids (P : Nat → Pt) (n dim leafSize : Nat) (piv : Nat → List Rat → Rat)
    (out : List FNode) (h : buildBFSRoot P n dim leafSize piv = some out) : ∀ (i : Nat) (nd : FNode), out[i]? = some nd → nd.id = i :=
  buildBFS_ids _ _ _ _ out (qinv_root n dim) (by intro i nd hg; simp at hg) h

/-- **Leaf refinement**: the leaves of the flat list (index lists with their boxes) are, as a multiset, the leaves of
the recursive tree. -/
theorem buildBFSRoot_leaves (P : Nat → Pt) (n dim leafSize : Nat) (piv : Nat → List Rat → Rat) (hleaf : 1 ≤ leafSize)
    (out : List FNode) (h : buildBFSRoot P n dim leafSize piv = some out) (t : Tree)
    (ht : buildRoot P n dim leafSize piv (n + 1) = some t) : (leavesF out).Perm t.leaves := by
  have := buildBFS_leaves hleaf _ _ _ _ out h
  simp only [leavesF, List.nil_append, List.flatMap_cons, List.flatMap_nil, List.append_nil, specLeaves, rootPending,
    List.length_range] at this
  unfold buildRoot at ht
  rw [ht] at this
  exact this

theorem leaves_inside {P : Nat → Pt} : ∀ {t : Tree}, boxesOk P t = true →
    ∀ lf ∈ t.leaves, ∀ i ∈ lf.1, Box.insideClosed lf.2.lo lf.2.hi (P i) = true
  | .leaf idx b, h, lf, hlf, i, hi => by
    simp only [Tree.leaves, List.mem_singleton] at hlf
    subst hlf
    simp only [boxesOk, List.all_eq_true] at h
    exact h i hi
  | .node _ _ _ l r, h, lf, hlf, i, hi => by
    simp only [boxesOk, Bool.and_eq_true] at h
    simp only [Tree.leaves, List.mem_append] at hlf
    rcases hlf with hlf | hlf
    · exact leaves_inside h.1.2 lf hlf i hi
    · exact leaves_inside h.2 lf hlf i hi

/-- **The code's construction is correct in its own shape**: `buildBFSRoot` returns a node list whose leaves store every
index `0..n-1` exactly once, hold at most `leafSize` indices each, and contain their points in their (closed) boxes. -/
theorem buildBFS_partition (P : Nat → Pt) (n dim leafSize : Nat) (piv : Nat → List Rat → Rat) (hleaf : 1 ≤ leafSize)
    (hdim : ∀ i < n, (P i).length = dim) :
    ∃ out, buildBFSRoot P n dim leafSize piv = some out ∧
      ((leavesF out).flatMap (fun l => l.1)).Perm (List.range n) ∧
      (∀ lf ∈ leavesF out, lf.1.length ≤ leafSize) ∧
      (∀ lf ∈ leavesF out, ∀ i ∈ lf.1, Box.insideClosed lf.2.lo lf.2.hi (P i) = true) := by
  obtain ⟨out, hout⟩ := Option.isSome_iff_exists.mp (buildBFSRoot_terminates P n dim leafSize piv hleaf)
  obtain ⟨t, ht⟩ := Option.isSome_iff_exists.mp (buildRoot_terminates P n dim leafSize piv hleaf)
  have hl := buildBFSRoot_leaves P n dim leafSize piv hleaf out hout t ht
  have hp := buildRoot_partition P n dim leafSize piv hleaf (n + 1) t ht
  have hb := buildRoot_boxes P n dim leafSize piv hleaf hdim (n + 1) t ht
  have hsz := (build_partition P dim leafSize piv hleaf (n + 1) 1 0 (List.range n) _ t ht).2.2
  refine ⟨out, hout, (hl.flatMap_right _).trans hp.2.2, ?_, ?_⟩
  · intro lf hlf; exact hsz lf (hl.mem_iff.mp hlf)
  · intro lf hlf; exact leaves_inside hb lf (hl.mem_iff.mp hlf)

/-- **The stack traversal of `query` computes the recursive traversal**: on the flat list returned by the BFS construction,
`knnFlat` (explicit stack of node ids, as coded) returns exactly `knn` of the recursive tree, within `size t` iterations. -/
theorem knnFlat_refines (P : Nat → Pt) (n dim leafSize : Nat) (piv : Nat → List Rat → Rat) (hleaf : 1 ≤ leafSize)
    (out : List FNode) (h : buildBFSRoot P n dim leafSize piv = some out) :
    ∃ t, buildRoot P n dim leafSize piv (n + 1) = some t ∧
      ∀ (q : Pt) (k : Nat) (extra : Nat), knnFlat P q k out (t.size + extra) = some (knn P t q k) := by
  obtain ⟨t, ht⟩ := Option.isSome_iff_exists.mp (buildRoot_terminates P n dim leafSize piv hleaf)
  refine ⟨t, ht, ?_⟩
  intro q k extra
  have hr := buildBFSRoot_refines P n dim leafSize piv hleaf out h (n + 1) (by omega)
  rw [ht] at hr
  have := queryFlat_visit (P := P) (q := q) (k := k) (n + 1) 0 t hr 0 [] [] (knn P t q k) (by simp [queryFlat, knn])
  have := queryFlat_mono (P := P) (q := q) (k := k) _ extra _ _ _ this
  simpa [knnFlat] using this

/-- **k-NN exactness for the code's shape** (flat list + explicit stack): the answer holds `min k n` distinct valid
indices, sorted by distance, each with its true squared distance, and every index not returned is at least as far as
every index returned. -/
theorem knnFlat_exact (P : Nat → Pt) (n dim leafSize : Nat) (piv : Nat → List Rat → Rat) (hleaf : 1 ≤ leafSize)
    (hdim : ∀ i < n, (P i).length = dim) :
    ∃ out fuel, buildBFSRoot P n dim leafSize piv = some out ∧ ∀ (q : Pt) (k : Nat),
      ∃ res, knnFlat P q k out fuel = some res ∧
        res.length = min k n ∧ res.Pairwise (fun a b => a.1 ≤ b.1) ∧ (res.map Prod.snd).Nodup ∧
        (∀ c ∈ res, c.2 < n ∧ c.1 = sqDist (P c.2) q) ∧
        (∀ j < n, j ∉ res.map Prod.snd → ∀ c ∈ res, c.1 ≤ sqDist (P j) q) := by
  obtain ⟨out, hout⟩ := Option.isSome_iff_exists.mp (buildBFSRoot_terminates P n dim leafSize piv hleaf)
  obtain ⟨t, ht, hq⟩ := knnFlat_refines P n dim leafSize piv hleaf out hout
  obtain ⟨t', ht', _, _, _, hk⟩ := kdtree_correct P n dim leafSize piv hleaf hdim
  have : t' = t := by rw [ht] at ht'; exact (Option.some.inj ht').symm
  subst this
  refine ⟨out, t'.size, hout, ?_⟩
  intro q k
  have := hq q k 0
  simp only [Nat.add_zero] at this
  exact ⟨_, this, hk q k⟩

/-- **The FIFO traversal of `query_radius` computes the recursive one up to order**: on the flat list returned by the BFS
construction it terminates (for every sufficient number of iterations) with a permutation of `radius` of the recursive tree. -/
theorem radiusFlat_refines (P : Nat → Pt) (n dim leafSize : Nat) (piv : Nat → List Rat → Rat) (hleaf : 1 ≤ leafSize)
    (out : List FNode) (h : buildBFSRoot P n dim leafSize piv = some out) :
    ∃ t, buildRoot P n dim leafSize piv (n + 1) = some t ∧
      ∀ (q : Pt) (r2 : Rat), ∃ F res, (∀ extra, radiusFlat P q r2 out (F + extra) [0] [] = some res) ∧
        res.Perm (radius P q r2 t) := by
  obtain ⟨t, ht⟩ := Option.isSome_iff_exists.mp (buildRoot_terminates P n dim leafSize piv hleaf)
  refine ⟨t, ht, ?_⟩
  intro q r2
  have hr := buildBFSRoot_refines P n dim leafSize piv hleaf out h (n + 1) (by omega)
  rw [ht] at hr
  obtain ⟨F, res, hF, hperm⟩ := radiusFlat_forest (P := P) (q := q) (r2 := r2) (nodes := out) (forestSize [t]) [0] [t]
    (Nat.le_refl _) (List.Forall₂.cons ⟨n + 1, hr⟩ List.Forall₂.nil) []
  exact ⟨F, res, fun extra => radiusFlat_mono F extra _ _ _ hF, by simpa using hperm⟩

/-- **Radius exactness for the code's shape**: the answer of the FIFO traversal holds exactly the indices within the
radius, each once. -/
theorem radiusFlat_exact (P : Nat → Pt) (n dim leafSize : Nat) (piv : Nat → List Rat → Rat) (hleaf : 1 ≤ leafSize)
    (hdim : ∀ i < n, (P i).length = dim) :
    ∃ out, buildBFSRoot P n dim leafSize piv = some out ∧ ∀ (q : Pt) (r2 : Rat),
      ∃ F res, radiusFlat P q r2 out F [0] [] = some res ∧ res.Nodup ∧ ∀ i, i ∈ res ↔ i < n ∧ sqDist (P i) q ≤ r2 := by
  obtain ⟨out, hout⟩ := Option.isSome_iff_exists.mp (buildBFSRoot_terminates P n dim leafSize piv hleaf)
  obtain ⟨t, ht, hq⟩ := radiusFlat_refines P n dim leafSize piv hleaf out hout
  have hp := buildRoot_partition P n dim leafSize piv hleaf (n + 1) t ht
  have hb := buildRoot_boxes P n dim leafSize piv hleaf hdim (n + 1) t ht
  refine ⟨out, hout, ?_⟩
  intro q r2
  obtain ⟨F, res, hF, hperm⟩ := hq q r2
  have hx := radius_exact P q r2 t hb
  refine ⟨F, res, by simpa using hF 0, hperm.nodup_iff.mpr (hx.2 hp.2.1), ?_⟩
  intro i
  rw [hperm.mem_iff, hx.1 i, hp.1.mem_iff, List.mem_range]

/-- non-vacuity: the flat construction on the witness points −4, 1, 3 (leaf size 1) -/
example : (buildBFSRoot wP 3 1 1 wPiv).isSome = true := by decide +kernel

end Mouette.Props.C11F
