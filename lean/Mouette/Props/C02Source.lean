import Mouette.Lemmas.C02Bodies
import Mouette.Props.C02
/-!
# C02 (round 4) — the theorems of `Props/C02.lean` transferred to what the SOURCE BODIES say now

`vlib/gen/c02_translate.py` re-reads, on every run, the bodies of `RawMeshData._complete_faces_from_cells`,
`_complete_edges_from_faces`, `_prepare_vertices`, `_generate_face_corners`, `_generate_cell_corners`,
`_generate_cell_faces` (mesh_data.py) and
`CornerDataContainer.append` (data_container.py) statement by statement into state-passing Lean definitions
(`Generated/C02Bodies.lean`, vocabulary in `Model/PrepareSource.lean`). Round 5 adds `DataContainer.append`, `_prepare_edges`, `_prepare_faces`, `_prepare_cells` and `RawMeshData.__init__`
(`data_append_source`, `prepare_edges_refines`, `prepare_faces_bridge`, `prepare_cells_bridge`, `init_rewrap_bridge`) and the file
route (`file_route_source`). This file proves

* BRIDGES `Generated.C02B.f = Prepare.f`: each extracted body computes what the hand model computes, for every state;
* `prepare_runs_translated_bodies`: the model's `prepare` IS the translated step program of `prepare()`
  (`Generated.C02S.prepareProgram`) run on the translated bodies, so every theorem of `Props/C02.lean` speaks about that text;
* new clauses on the extracted definitions (`vertices_are_float_source`: no integer / boolean vertex row survives,
  `vertices_3d_source`, `edges_normalised_source`).
A semantic change of a body makes its bridge fail (broken obligation → failing-input search); a statement shape the
translator does not know makes the site `ok: False`.
-/
set_option linter.unusedSimpArgs false
set_option linter.unusedVariables false
namespace Mouette.Props.C02Source
open Mouette.Prepare Mouette.PrepSrc Mouette.C02Src
open Mouette.Generated

/-! ## `CornerDataContainer.append(val_elem, val_adj)` -/

/-- as written: the first argument goes to `_elem`, the second to `_adj`, one slot each -/
theorem corner_append_source (c : List Nat × List Nat) (x y : Nat) :
    C02B.cornerAppend c x y = (c.1 ++ [x], c.2 ++ [y]) := by
  simp [C02B.cornerAppend]

/-! ## one-line accessors of the containers, `id_*` properties (round 6) -/

/-- as written: `len(c)` is the number of rows, `c.empty()` its emptiness, `has_attribute` membership among the attribute
names, `len(corner container)` the number of `_elem` entries, `id_x` the range over the container `x` -/
theorem accessors_source {α : Type} (c : List α × List Attr) (k : List Nat × List Nat) (n : String) :
    C02B.dcLen c = c.1.length ∧ C02B.dcEmpty c = c.1.isEmpty ∧ C02B.dcHasAttr c n = hasAttr c.2 n ∧
    C02B.dcAttributes c = c.2.map (·.name) ∧ C02B.cornerLen k = k.1.length ∧ C02B.idVertices c = List.range c.1.length ∧ C02B.idEdges c = List.range c.1.length ∧
    C02B.idFaces c = List.range c.1.length ∧ C02B.idCells c = List.range c.1.length :=
  ⟨rfl, rfl, rfl, rfl, rfl, rfl, rfl, rfl, rfl⟩

/-! ## element access, iteration, constructors, attribute lookup / creation, `+=` (round 7) -/

/-- as written: `c[k]` reads row `k`, `c[k] = v` replaces it in place, iteration is over the rows in order; the constructors
give empty containers unless rows / an attribute dict are handed over; `get_attribute` is the dict lookup (absent = the
exception); `c += rows` appends the rows and expands every attribute by their number (also for `c += other_container`) -/
theorem container_methods_source {α : Type} (c o : List α × List Attr) (k : Nat) (d v : α) (n : String) (l : List α)
    (as : List Attr) :
    C02B.dcGet c k d = c.1.getD k d ∧ C02B.dcSet c k v = (c.1.set k v, c.2) ∧ C02B.dcIter c = c.1 ∧
    C02B.baseInit none = [] ∧ C02B.baseInit (some as) = as ∧ (C02B.dcInit none none : List α × List Attr) = ([], []) ∧
    C02B.dcInit (some l) (some as) = (l, as) ∧ C02B.cornerInit none none = ([], []) ∧
    C02B.dcGetAttribute c n = findAttr c.2 n ∧
    C02B.dcIaddList c l = (c.1 ++ l, c.2.map (expandAttr l.length)) ∧
    C02B.dcIaddCont c o = (c.1 ++ o.1, c.2.map (expandAttr o.1.length)) := by
  refine ⟨rfl, rfl, rfl, rfl, rfl, rfl, rfl, rfl, ?_, rfl, rfl⟩
  unfold C02B.dcGetAttribute
  by_cases h : hasAttr c.2 n = true
  · simp [h]
  · have h' : hasAttr c.2 n = false := by simpa using h
    simp only [h', Bool.not_false, if_true]
    unfold findAttr
    symm
    rw [List.find?_eq_none]
    intro a ha
    unfold hasAttr at h'
    have := List.any_eq_false.mp h' a ha
    simpa using this

/-- `create_attribute` as written, on a container that has no attribute of that name yet, is the vocabulary's
`econtCreate` (the new attribute comes last; dense: one default slot per row present; `default_value` given) -/
theorem create_attribute_source {α : Type} (c : List α × List Attr) (n : String) (dense : Bool) (v : Int)
    (h : hasAttr c.2 n = false) :
    C02B.dcCreateAttribute c n dense (some v) none =
      (c.1, c.2 ++ [{ name := n, dflt := v, st := if dense then .dense (List.replicate c.1.length v) else .sparse [] }]) := by
  unfold C02B.dcCreateAttribute
  cases dense <;> simp [attrDictSet_fresh _ _ _ h]

/-! ## `DataContainer.append(val)` -/

/-- as written: the value is appended to `_data`, then every attribute is expanded by one slot -/
theorem data_append_source {α : Type} (c : List α × List Attr) (x : α) :
    C02B.dataAppend c x = (c.1 ++ [x], c.2.map (expandAttr 1)) := by
  simp [C02B.dataAppend]

/-! ## `_complete_faces_from_cells` -/

theorem complete_faces_step (x : Raw × List (List Nat)) (c : List Nat) :
    C02B.completeFaces_loop2 x c = faceStep x c := by
  obtain ⟨s, st⟩ := x
  by_cases h : keyF c ∈ st <;>
    simp [C02B.completeFaces_loop2, faceStep, setHas, setAdd, h, data_append_source, facesAppend]

theorem complete_faces_rows (x : Raw × List (List Nat)) (c : List Nat) :
    C02B.completeFaces_loop1 x c = (cellFacesC c).foldl C02B.completeFaces_loop2 x := by
  obtain ⟨s, st⟩ := x
  by_cases h8 : c.length = 8 <;> by_cases h4 : c.length = 4 <;>
    first
    | omega
    | simp [C02B.completeFaces_loop1, cellFacesC, pick, tetFaces, hexFaces, getN, h8, h4,
        (eq_comm : 4 = c.length ↔ c.length = 4), (eq_comm : 8 = c.length ↔ c.length = 8)]

/-- BRIDGE: the body of `_complete_faces_from_cells` as written (early return on no cell; the key set initialised from the
stored faces; per cell the six quads / four triangles in table order; a face stored iff its key is new, the key added
with it) is the model's `completeFaces` -/
theorem complete_faces_bridge (s : Raw) : C02B.completeFaces s = completeFaces s := by
  unfold C02B.completeFaces completeFaces
  by_cases he : s.cells.isEmpty = true
  · rw [if_pos he, if_pos he]
  · rw [if_neg he, if_neg he]
    show (s.cells.foldl C02B.completeFaces_loop1 (s, s.faces.map keyF)).1 = _
    rw [foldl_flatMap' C02B.completeFaces_loop2 cellFacesC _ complete_faces_rows,
      foldl_congr' _ faceStep complete_faces_step, faceStep_fold _ _ _ (fun k => Iff.rfl)]

/-! ## `_complete_edges_from_faces` -/

theorem complete_edges_step (n : Nat) (f : List Nat) (x : Raw × List (Int × Int)) (i : Nat) :
    C02B.completeEdges_loop3 n f f.length x i = edgeStep n x (sideAt f i) := by
  obtain ⟨s, st⟩ := x
  have hle := sideAt_le f i
  unfold C02B.completeEdges_loop3 edgeStep
  simp only [show keyify2 (getN f i) (getN f ((i + 1) % f.length)) = sideAt f i from rfl, setHas, setAdd]
  generalize sideAt f i = e at hle ⊢
  by_cases hv : validE n e = true
  · have hv2 := (validE_iff n e).mp hv
    rw [if_neg (by simp <;> omega), if_pos hv]
    by_cases hm : e ∈ st <;> simp [hm, data_append_source, edgesAppend]
  · have hv2 : ¬ (e.1 ≠ e.2 ∧ 0 ≤ e.1 ∧ e.1 < n ∧ 0 ≤ e.2 ∧ e.2 < n) := fun h => hv ((validE_iff n e).mpr h)
    rw [if_pos (by simp <;> omega), if_neg hv]

theorem complete_edges_face (n : Nat) (x : Raw × List (Int × Int)) (f : List Nat) :
    C02B.completeEdges_loop2 n x f = (faceSides f).foldl (edgeStep n) x := by
  obtain ⟨s, st⟩ := x
  unfold C02B.completeEdges_loop2 faceSides
  rw [List.foldl_map]
  exact foldl_congr' _ _ (fun a i => complete_edges_step n f a i) _ _

/-- `create_attribute("hard_edges", bool)` as translated, on a container that has no such attribute: one sparse attribute
without keys, default `False`, comes last -/
theorem create_flag_source (s : Raw) (n : String) (h : hasAttr s.eattrs n = false) :
    { s with edges := (C02B.dcCreateAttribute (s.edges, s.eattrs) n false none none).1,
             eattrs := (C02B.dcCreateAttribute (s.edges, s.eattrs) n false none none).2 } = createFlagAttr s n := by
  unfold C02B.dcCreateAttribute createFlagAttr
  simp [attrDictSet_fresh _ _ _ h]

theorem complete_edges_flags (s : Raw) (h : hasAttr s.eattrs hardName = false) :
    (List.range s.edges.length).foldl (C02B.completeEdges_loop1 hardName) (createFlagAttr s hardName)
      = { s with eattrs := s.eattrs ++ [hardAttr s.edges.length] } :=
  flag_fold hardName s _ (fun _ _ => rfl) h _

/-- BRIDGE: the body of `_complete_edges_from_faces` as written (early return on no face; `hard_edges` created and set on
the edges present at that moment only when the attribute is absent; key set initialised from the stored edges;
`N = len(self.vertices)`; per face the sides `(f[i], f[(i+1) % nf])` in order, low index first; degenerate sides skipped
before the membership test; a side appended through `DataContainer.append` iff its key is new) is the model's
`completeEdges` -/
theorem complete_edges_bridge (s : Raw) : C02B.completeEdges s = completeEdges s := by
  unfold C02B.completeEdges completeEdges
  by_cases he : s.faces.isEmpty = true
  · rw [if_pos he, if_pos he]
  · rw [if_neg he, if_neg he]
    -- the record after the hard_edges block
    have key : ∀ s1 : Raw, s1.edges = s.edges → s1.verts = s.verts → s1.faces = s.faces →
        (s1.faces.foldl (C02B.completeEdges_loop2 s1.verts.length) (s1, s1.edges.map keyE)).1
          = { s1 with edges := completeBy keyE s.edges (validSides s.verts.length s.faces),
                      eattrs := s1.eattrs.map (expandAttr ((completeBy keyE s.edges
                        (validSides s.verts.length s.faces)).length - s.edges.length)) } := by
      intro s1 h1 h2 h3
      rw [foldl_flatMap' (edgeStep s1.verts.length) faceSides _ (complete_edges_face _)]
      obtain ⟨l', e1, e2⟩ := edgeStep_fold s1.verts.length (s1.faces.flatMap faceSides) (faceSides_keys _) s1 []
        (s1.edges.map keyE) (fun k => by simp)
      rw [appendEdges_nil] at e1
      rw [e1]
      simp only [List.append_nil] at e2
      unfold validSides
      rw [← h1, ← h2, ← h3, ← e2]
      simp [appendEdges]
    by_cases ha : hasAttr s.eattrs "hard_edges" = true
    · have ha' : hasAttr s.eattrs hardName = true := ha
      simp only [ha, Bool.not_true, Bool.false_eq_true, if_false, ha', if_true]
      exact key s rfl rfl rfl
    · have ha' : hasAttr s.eattrs hardName = false := by simpa [hardName] using ha
      have hb : hasAttr s.eattrs "hard_edges" = false := ha'
      simp only [hb, Bool.not_false, if_true, ha', Bool.false_eq_true, if_false]
      simp only [create_flag_source s "hard_edges" hb]
      have hf := complete_edges_flags s ha'
      simp only [hardName] at hf
      have hlen : (createFlagAttr s "hard_edges").edges.length = s.edges.length := rfl
      have hlen' : (C02B.dcCreateAttribute (s.edges, s.eattrs) "hard_edges" false none none).1.length = s.edges.length := rfl
      simp only [C02B.idEdges, C02B.dcLen, hlen, hlen', hf]
      exact key { s with eattrs := s.eattrs ++ [hardAttr s.edges.length] } rfl rfl rfl

/-! ## `_prepare_vertices` -/

/-- one iteration as written: pad a short 1-D row with zeros up to three coordinates, then turn an integer / unsigned /
boolean row into a float row, then store it back at the same index -/
def vertexStep (v : VRow) : VRow :=
  let v := if v.xs.length < 3 then { v with xs := v.xs ++ List.replicate (3 - v.xs.length) 0 } else v
  if v.kind = 'i' ∨ v.kind = 'u' ∨ v.kind = 'b' then { v with kind := 'f' } else v

theorem prepare_vertices_step (s : VState) (i : Nat) :
    (C02B.prepareVertices_loop1 s i).verts = s.verts.set i (vertexStep (s.verts.getD i default)) := by
  unfold C02B.prepareVertices_loop1
  have hE : s.verts.getD i default = C02B.dcGet (s.verts, ([] : List Attr)) i default := rfl
  rw [hE]
  generalize C02B.dcGet (s.verts, ([] : List Attr)) i default = v
  simp only [C02B.dcSet]
  unfold vertexStep
  simp only [vecOf, VRow.ndim, VRow.size, npPad, astypeFloat, kindIn]
  by_cases h3 : v.xs.length < 3 <;> simp [h3] <;>
    (by_cases hk : v.kind = 'i' ∨ v.kind = 'u' ∨ v.kind = 'b' <;>
      simp [hk, String.toList] <;> first | done | (rcases hk with hk | hk | hk <;> simp [hk]) | (simp at hk; simp [hk]))

theorem prepare_vertices_fold (n : Nat) (s : VState) :
    ((List.range n).foldl C02B.prepareVertices_loop1 s).verts
      = (List.range n).foldl (fun l i => l.set i (vertexStep (l.getD i default))) s.verts := by
  induction n generalizing s with
  | zero => rfl
  | succ n ih =>
    rw [List.range_succ, List.foldl_append, List.foldl_append, List.foldl_cons, List.foldl_nil, List.foldl_cons,
      List.foldl_nil, prepare_vertices_step, ih]

/-- BRIDGE: `_prepare_vertices` as written rewrites every stored row, in place and at its own index, by `vertexStep` -/
theorem prepare_vertices_bridge (s : VState) : (C02B.prepareVertices s).verts = s.verts.map vertexStep := by
  unfold C02B.prepareVertices
  rw [prepare_vertices_fold, foldl_range_set vertexStep default _ (fun _ _ => rfl) s.verts s.verts.length (Nat.le_refl _)]
  simp

/-- … whose coordinates are the model's `prepareVertices` (`padVertex`) -/
theorem prepare_vertices_coordinates (s : VState) (r : Raw) (h : r.verts = s.verts.map (·.xs)) :
    (prepareVertices r).verts = (C02B.prepareVertices s).verts.map (·.xs) := by
  rw [prepare_vertices_bridge]
  unfold prepareVertices
  simp only [h, List.map_map]
  apply List.map_congr_left
  intro v _
  simp only [Function.comp, vertexStep, padVertex]
  by_cases h3 : v.xs.length < 3 <;> simp only [h3, if_true, if_false] <;> split <;> rfl

/-- NEW (round 4, the int→float conversion): after `_prepare_vertices` no stored vertex row has an integer, unsigned or
boolean dtype, whatever the dtype of the row that was given; float rows keep their dtype kind -/
theorem vertices_are_float_source (s : VState) :
    (∀ v ∈ (C02B.prepareVertices s).verts, v.kind ≠ 'i' ∧ v.kind ≠ 'u' ∧ v.kind ≠ 'b') ∧
    ((C02B.prepareVertices s).verts.map (·.kind)
      = s.verts.map (fun v => if v.kind = 'i' ∨ v.kind = 'u' ∨ v.kind = 'b' then 'f' else v.kind)) := by
  rw [prepare_vertices_bridge]
  constructor
  · intro v hv
    obtain ⟨w, _, rfl⟩ := List.mem_map.mp hv
    unfold vertexStep
    by_cases h3 : w.xs.length < 3 <;> simp only [h3, if_true, if_false] <;> split <;> rename_i hk <;>
      first
      | (simp at hk; simp [hk])
      | (refine ⟨?_, ?_, ?_⟩ <;> simp)
  · simp only [List.map_map]
    apply List.map_congr_left
    intro v _
    simp only [Function.comp, vertexStep]
    by_cases h3 : v.xs.length < 3 <;> simp only [h3, if_true, if_false] <;> split <;> rfl

/-- … and every stored row of at most three coordinates has exactly three, the given ones first -/
theorem vertices_3d_source (s : VState) :
    ∀ v ∈ (C02B.prepareVertices s).verts, 3 ≤ v.xs.length := by
  rw [prepare_vertices_bridge]
  intro v hv
  obtain ⟨w, _, rfl⟩ := List.mem_map.mp hv
  unfold vertexStep
  by_cases h3 : w.xs.length < 3 <;> simp only [h3, if_true, if_false] <;> split <;> first | omega | (simp; omega)

example : (C02B.prepareVertices ⟨[⟨'i', [1, 2]⟩, ⟨'f', [-1, 0, 3]⟩, ⟨'u', [4, 5, 6]⟩, ⟨'b', []⟩]⟩).verts
    = [⟨'f', [1, 2, 0]⟩, ⟨'f', [-1, 0, 3]⟩, ⟨'f', [4, 5, 6]⟩, ⟨'f', [0, 0, 0]⟩] := by decide

/-! ## `_generate_face_corners`, `_generate_cell_corners` -/

theorem face_corners_loop (s : Raw) (a b : List Nat) (i : Nat) (row : List Nat) :
    C02B.genFaceCorners_loop1 { s with fcElem := a, fcAdj := b } (i, row)
      = { s with fcElem := a ++ row, fcAdj := b ++ List.replicate row.length i } := by
  unfold C02B.genFaceCorners_loop1
  simp only
  induction row generalizing a b with
  | nil => simp
  | cons v vs ih =>
    rw [List.foldl_cons]
    have : C02B.genFaceCorners_loop2 i { s with fcElem := a, fcAdj := b } v
        = { s with fcElem := a ++ [v], fcAdj := b ++ [i] } := by
      simp [C02B.genFaceCorners_loop2, corner_append_source]
    rw [this, ih]
    simp [List.replicate_succ]

/-- BRIDGE: `_generate_face_corners` as written (counts, regeneration test, both lists reset, one
`face_corners.append(v, iF)` per face vertex in element order) is the model's `genFaceCorners` -/
theorem gen_face_corners_bridge (s : Raw) : C02B.genFaceCorners s = genFaceCorners s := by
  unfold C02B.genFaceCorners genFaceCorners
  simp only [C02B.dcIter]
  by_cases h : s.fcElem.length = 0 ∨ s.fcElem.length ≠ (s.faces.map List.length).sum
  · rw [if_pos h, if_pos (by simp only [Bool.or_eq_true, Bool.and_eq_true, decide_eq_true_eq, Bool.not_eq_true', decide_eq_false_iff_not, gt_iff_lt] <;> omega)]
    have := owners_enum_fold C02B.genFaceCorners_loop1 (fun s a b => { s with fcElem := a, fcAdj := b })
      (fun s => s.fcElem) (fun s => s.fcAdj) (fun _ _ _ => rfl) (fun _ _ _ => rfl) (fun _ _ _ _ _ => rfl)
      (fun s a b i row => face_corners_loop s a b i row) s.faces 0 s [] []
    simp only [List.nil_append] at this
    exact this
  · rw [if_neg h, if_neg (by simp only [Bool.or_eq_true, Bool.and_eq_true, decide_eq_true_eq, Bool.not_eq_true', decide_eq_false_iff_not, gt_iff_lt] <;> omega)]

theorem cell_corners_loop (s : Raw) (a b : List Nat) (i : Nat) (row : List Nat) :
    C02B.genCellCorners_loop2 { s with ccElem := a, ccAdj := b } (i, row)
      = { s with ccElem := a ++ row, ccAdj := b ++ List.replicate row.length i } := by
  unfold C02B.genCellCorners_loop2
  simp only
  induction row generalizing a b with
  | nil => simp
  | cons v vs ih =>
    rw [List.foldl_cons]
    have : C02B.genCellCorners_loop3 i { s with ccElem := a, ccAdj := b } v
        = { s with ccElem := a ++ [v], ccAdj := b ++ [i] } := by
      simp [C02B.genCellCorners_loop3, corner_append_source]
    rw [this, ih]
    simp [List.replicate_succ]

theorem cell_corners_adj_only (rows : List (List Nat)) (i : Nat) (s : Raw) (a : List Nat) :
    (enumFrom i rows).foldl C02B.genCellCorners_loop1 { s with ccElem := a }
      = { s with ccElem := a ++ ownersFrom rows i } := by
  induction rows generalizing i a with
  | nil => simp [enumFrom, ownersFrom]
  | cons row rows ih =>
    simp only [enumFrom, List.foldl_cons, ownersFrom]
    have : C02B.genCellCorners_loop1 { s with ccElem := a } (i, row)
        = { s with ccElem := a ++ List.replicate row.length i } := rfl
    rw [this, ih, List.append_assoc]

/-- BRIDGE: `_generate_cell_corners` as written (three counts, the regeneration test, the inner "build only adjacency"
branch that extends `_elem`, the resets, one `cell_corners.append(v, iC)` per cell vertex) is the model's `genCellCorners` -/
theorem gen_cell_corners_bridge (s : Raw) : C02B.genCellCorners s = genCellCorners s := by
  unfold C02B.genCellCorners genCellCorners
  simp only [C02B.dcIter]
  by_cases h : s.ccElem.length = 0 ∨ s.ccAdj.length = 0 ∨ s.ccElem.length ≠ (s.cells.map List.length).sum
      ∨ s.ccAdj.length ≠ (s.cells.map List.length).sum
  · rw [if_pos h, if_pos (by simp only [Bool.or_eq_true, Bool.and_eq_true, decide_eq_true_eq, Bool.not_eq_true', decide_eq_false_iff_not, gt_iff_lt] <;> omega)]
    by_cases h2 : s.ccAdj.length = 0 ∧ s.ccElem.length > 0
    · rw [if_pos h2, if_pos (by simp only [Bool.or_eq_true, Bool.and_eq_true, decide_eq_true_eq, Bool.not_eq_true', decide_eq_false_iff_not, gt_iff_lt] <;> omega)]
      have := cell_corners_adj_only s.cells 0 { s with ccAdj := [] } s.ccElem
      exact this
    · rw [if_neg h2, if_neg (by simp only [Bool.or_eq_true, Bool.and_eq_true, decide_eq_true_eq, Bool.not_eq_true', decide_eq_false_iff_not, gt_iff_lt] <;> omega)]
      have := owners_enum_fold C02B.genCellCorners_loop2 (fun s a b => { s with ccElem := a, ccAdj := b })
        (fun s => s.ccElem) (fun s => s.ccAdj) (fun _ _ _ => rfl) (fun _ _ _ => rfl) (fun _ _ _ _ _ => rfl)
        (fun s a b i row => cell_corners_loop s a b i row) s.cells 0 s [] []
      simp only [List.nil_append] at this
      exact this
  · rw [if_neg h, if_neg (by simp only [Bool.or_eq_true, Bool.and_eq_true, decide_eq_true_eq, Bool.not_eq_true', decide_eq_false_iff_not, gt_iff_lt] <;> omega)]

/-! ## `_generate_cell_faces` -/

theorem cell_faces_record_step (d : FaceDict) (ic : Nat) (s : Raw) (f : List Nat) :
    C02B.genCellFaces_loop3 d ic s f = match dictGet d (keyF f) with
      | none => s
      | some j => { s with cfElem := s.cfElem ++ [j], cfAdj := s.cfAdj ++ [ic] } := by
  unfold C02B.genCellFaces_loop3
  cases h : dictGet d (keyF f) <;> simp [h]

theorem cell_faces_cell_step (d : FaceDict) (keys : List (List Nat)) (hd : ∀ k, dictGet d k = lastIdx k keys 0)
    (s : Raw) (i : Nat) (c : List Nat) (fs : List (List Nat)) (hg : cellFacesG c = some fs) :
    C02B.genCellFaces_loop2 d s (i, c) =
      { s with cfElem := s.cfElem ++ idsOf keys fs, cfAdj := s.cfAdj ++ List.replicate (idsOf keys fs).length i } := by
  have e : C02B.genCellFaces_loop2 d s (i, c) = fs.foldl (C02B.genCellFaces_loop3 d i) s := by
    unfold cellFacesG at hg
    by_cases h4 : c.length = 4 <;> by_cases h8 : c.length = 8 <;>
      first
      | omega
      | (simp [h4, h8] at hg <;>
          (subst hg
           simp [C02B.genCellFaces_loop2, orEmpty, pick, tetFaces, hexFaces, getN, h4, h8,
             (eq_comm : 4 = c.length ↔ c.length = 4), (eq_comm : 8 = c.length ↔ c.length = 8)]))
  rw [e]
  exact cellFaces_inner d keys hd i _ (cell_faces_record_step d i) fs s

/-- BRIDGE (refinement): whenever the model's `genCellFaces` succeeds — every cell is a tetrahedron or a hexahedron, the
quantifier of the statement — the body of `_generate_cell_faces` as written (both lists reset first; the dict `face_id`
filled in face order, a later face with the same key overwriting; per cell the four triangles / six quads in table
order; a face that is not stored skipped; the face id appended to `_elem` and the cell index to `_adj`) computes the
same record. (For another arity the source reads an unbound / stale local; that is not modelled.) -/
theorem gen_cell_faces_refines (s q : Raw) (h : genCellFaces s = .ok q) : C02B.genCellFaces s = q := by
  unfold genCellFaces at h
  cases hi : cellFaceIds (s.faces.map keyF) s.cells with
  | error e => simp [hi] at h
  | ok idss =>
    simp only [hi] at h
    cases h
    have hd : ∀ k, dictGet (faceDictOf 0 s.faces []) k = lastIdx k (s.faces.map keyF) 0 := by
      intro k
      rw [faceDict_get]
      cases lastIdx k (s.faces.map keyF) 0 <;> rfl
    have h1 := faceDict_fold C02B.genCellFaces_loop1 (fun _ _ _ _ => rfl) s.faces 0
      { s with cfElem := [], cfAdj := [] } []
    have h2 := cellFaces_outer (s.faces.map keyF) (C02B.genCellFaces_loop2 (faceDictOf 0 s.faces []))
      (fun s i c fs hg => cell_faces_cell_step _ _ hd s i c fs hg) s.cells idss hi 0 { s with cfElem := [], cfAdj := [] }
    unfold C02B.genCellFaces
    simp only [enumerate]
    rw [h1]
    simp only []
    rw [h2]
    simp [owners]

/-! ## `_prepare_faces`, `_prepare_cells` (numpy rows become lists) -/

theorem unNumpy_spec (r : Row (List Nat)) : (if r.isNumpy then r.tolist else r) = r.unNumpy := by
  cases r <;> rfl

/-- BRIDGE: `_prepare_faces` as written (every stored face row, at its own index: a numpy row is replaced by its `tolist()`,
any other row is left alone) is the row-typed model's `prepareFacesR` -/
theorem prepare_faces_bridge (x : RawR) : C02B.prepareFaces x = prepareFacesR x := by
  unfold C02B.prepareFaces prepareFacesR
  simp only
  rw [foldl_range_field (fun (s : RawR) => s.faces) (fun s l => { s with faces := l }) (fun _ _ _ => rfl) (fun _ _ => rfl)
    (fun _ => rfl) C02B.prepareFaces_loop1 (fun l i => l.set i (Row.unNumpy (l.getD i (.list [])))) ?_ x.faces.length x]
  · rw [foldl_range_set Row.unNumpy (.list []) _ (fun _ _ => rfl) x.faces x.faces.length (Nat.le_refl _)]
    simp
  · intro s i
    -- by cases on the container type of the row (tolerant of `if not isinstance(..): continue` spellings)
    unfold C02B.prepareFaces_loop1
    simp only [C02B.dcGet, C02B.dcSet]
    have hs := set_getD_self s.faces i (.list [])
    rcases hr : s.faces.getD i (.list []) with v | v | v <;> rw [hr] at hs <;>
      simp [Row.isNumpy, Row.tolist, Row.unNumpy, Row.val, hs]

/-- BRIDGE: the same for `_prepare_cells` -/
theorem prepare_cells_bridge (x : RawR) : C02B.prepareCells x = prepareCellsR x := by
  unfold C02B.prepareCells prepareCellsR
  simp only
  rw [foldl_range_field (fun (s : RawR) => s.cells) (fun s l => { s with cells := l }) (fun _ _ _ => rfl) (fun _ _ => rfl)
    (fun _ => rfl) C02B.prepareCells_loop1 (fun l i => l.set i (Row.unNumpy (l.getD i (.list [])))) ?_ x.cells.length x]
  · rw [foldl_range_set Row.unNumpy (.list []) _ (fun _ _ => rfl) x.cells x.cells.length (Nat.le_refl _)]
    simp
  · intro s i
    -- by cases on the container type of the row (tolerant of `if not isinstance(..): continue` spellings)
    unfold C02B.prepareCells_loop1
    simp only [C02B.dcGet, C02B.dcSet]
    have hs := set_getD_self s.cells i (.list [])
    rcases hr : s.cells.getD i (.list []) with v | v | v <;> rw [hr] at hs <;>
      simp [Row.isNumpy, Row.tolist, Row.unNumpy, Row.val, hs]

/-- consequence on the translated text: no numpy row survives, values are untouched -/
theorem prepare_faces_source_no_numpy (x : RawR) :
    (∀ r ∈ (C02B.prepareFaces x).faces, r.isNumpy = false) ∧ (C02B.prepareFaces x).faces.map Row.val = x.faces.map Row.val := by
  rw [prepare_faces_bridge]
  unfold prepareFacesR
  constructor
  · intro r hr
    obtain ⟨r0, _, rfl⟩ := List.mem_map.mp hr
    exact Row.unNumpy_not_numpy r0
  · simp [List.map_map, Function.comp_def]

example : (C02B.prepareFaces { faces := [.nparray [0, 1, 2], .tuple [2, 1, 3], .list [4]] }).faces
    = [.list [0, 1, 2], .tuple [2, 1, 3], .list [4]] := by decide

/-! ## `RawMeshData.__init__` (fresh containers / re-wrap of a mesh object) -/

/-- BRIDGE: `RawMeshData(mesh)` as written — each container is the mesh's own when the mesh object has it (`hasattr`, i.e.
what `Mesh.__init__` as written shares for the class of the mesh), a fresh empty one otherwise, `_prepared = False` — is the
model's `rewrap`; `RawMeshData()` is the empty record -/
theorem init_rewrap_bridge (b : Built) :
    C02B.initFromMesh (visible C02S.meshInitTable b.dim) b.raw = rewrap b ∧ C02B.initFresh = {} := by
  refine ⟨?_, rfl⟩
  rw [Mouette.Props.C02.mesh_init_bridge]
  have e1 : visible expectedMeshInitTable b.dim "edges" = decide (1 ≤ b.dim) := by
    simp [visible, expectedMeshInitTable]; omega
  have e2 : visible expectedMeshInitTable b.dim "faces" = decide (2 ≤ b.dim) := by
    simp [visible, expectedMeshInitTable]; omega
  have e3 : visible expectedMeshInitTable b.dim "face_corners" = decide (2 ≤ b.dim) := by
    simp [visible, expectedMeshInitTable]; omega
  have e4 : visible expectedMeshInitTable b.dim "cells" = decide (3 ≤ b.dim) := by
    simp [visible, expectedMeshInitTable]; omega
  have e5 : visible expectedMeshInitTable b.dim "cell_corners" = decide (3 ≤ b.dim) := by
    simp [visible, expectedMeshInitTable]; omega
  have e6 : visible expectedMeshInitTable b.dim "cell_faces" = decide (3 ≤ b.dim) := by
    simp [visible, expectedMeshInitTable]; omega
  simp only [C02B.initFromMesh, rewrap, e1, e2, e3, e4, e5, e6, decide_eq_true_eq]

/-! ## `_prepare_edges` (validity filter, rebuild of the container with attribute re-indexing, normalisation) -/

theorem prepare_edges_create (as : List Attr) (ks : List String) (s : Raw) (l7 l6 : List String) (c : ECont) :
    ks.foldl C02B.prepareEdges_loop1 (s, l7, l6, c) = (s, l7 ++ ks, l6 ++ ks, ks.foldl (createStep s.eattrs) c) := by
  induction ks generalizing l7 l6 c with
  | nil => simp
  | cons k ks ih =>
    rw [List.foldl_cons]
    have : C02B.prepareEdges_loop1 (s, l7, l6, c) k = (s, l7 ++ [k], l6 ++ [k], createStep s.eattrs c k) := rfl
    rw [this, ih]
    simp

theorem prepare_edges_copy (v6 v7 : List String) (n i : Nat) (s : Raw) (ks : List String) (c : ECont) :
    ks.foldl (C02B.prepareEdges_loop3 v6 v7 n i) (s, c) = (s, ks.foldl (copyStep s.eattrs n i) c) := by
  apply foldl_fst_const
  intro c k
  unfold C02B.prepareEdges_loop3 copyStep
  simp only
  split <;> rfl

theorem prepare_edges_rebuild_step (s : Raw) (v7 : List String) (c : ECont) (n i : Nat) :
    C02B.prepareEdges_loop2 s.verts.length (s.eattrs.map (·.name)) v7 (s, c, n) i
      = (s, rebuildStep s.verts.length s.eattrs s.edges (c, n) i) := by
  unfold C02B.prepareEdges_loop2 rebuildStep
  simp only [prepare_edges_copy, data_append_source]
  have hE : s.edges.getD i (0, 0) = C02B.dcGet (s.edges, s.eattrs) i (0, 0) := rfl
  rw [hE]
  generalize C02B.dcGet (s.edges, s.eattrs) i (0, 0) = e
  by_cases hv : validE s.verts.length e = true
  · have hv2 := (validE_iff s.verts.length e).mp hv
    rw [if_pos (by simp <;> omega), if_pos hv]
  · have hv2 : ¬ (e.1 ≠ e.2 ∧ 0 ≤ e.1 ∧ e.1 < s.verts.length ∧ 0 ≤ e.2 ∧ e.2 < s.verts.length) :=
      fun h => hv ((validE_iff s.verts.length e).mpr h)
    rw [if_neg (by simp <;> omega), if_neg hv]

theorem prepare_edges_normalise (s : Raw) :
    (List.range s.edges.length).foldl C02B.prepareEdges_loop4 s = { s with edges := s.edges.map keyE } := by
  rw [foldl_range_field (fun (s : Raw) => s.edges) (fun s l => { s with edges := l }) (fun _ _ _ => rfl) (fun _ _ => rfl)
    (fun _ => rfl) C02B.prepareEdges_loop4 (fun l i => l.set i (keyE (l.getD i (0, 0)))) (fun _ _ => rfl) s.edges.length s]
  rw [foldl_range_set keyE (0, 0) _ (fun _ _ => rfl) s.edges s.edges.length (Nat.le_refl _)]
  simp

/-- BRIDGE (refinement, attribute names unique as in the dict `_attr`): the body of `_prepare_edges` as written —
`N = len(self.vertices)`; the validity test `any(not is_valid(a, b) ...)`; on an invalid edge a NEW container, one new
attribute per old one (same name, dense iff the old one is, same default), then per edge in order: kept iff valid, appended
low index first through `DataContainer.append`, and for every attribute the value copied to slot `n` when the old attribute
is dense or holds a value for that edge, `n += 1`; `self.edges = new_edges`; otherwise every edge rewritten in place low
index first — is the model's `prepareEdges` (filter, `survIdx`, `reindexAttr`) -/
theorem prepare_edges_refines (s : Raw) (h : UniqueNames s.eattrs) : C02B.prepareEdges s = prepareEdges s := by
  unfold C02B.prepareEdges prepareEdges
  simp only
  have hd : C02B.dcLen (s.verts, ([] : List Attr)) = s.verts.length := rfl
  have hany : ∀ F : Int × Int → Bool, (∀ e, F e = !validE s.verts.length e) →
      s.edges.any F = s.edges.any (fun e => !validE s.verts.length e) := by
    intro F hF
    have : F = fun e => !validE s.verts.length e := funext hF
    rw [this]
  rw [hany _ (fun e => by
    by_cases hv : validE s.verts.length e = true
    · have hv2 := (validE_iff s.verts.length e).mp hv
      rw [hv]; simp <;> omega
    · have hv2 : ¬ (e.1 ≠ e.2 ∧ 0 ≤ e.1 ∧ e.1 < s.verts.length ∧ 0 ≤ e.2 ∧ e.2 < s.verts.length) :=
        fun h => hv ((validE_iff s.verts.length e).mpr h)
      have hv' : validE s.verts.length e = false := by simpa using hv
      rw [hv']; simp <;> omega)]
  by_cases hi : s.edges.any (fun e => !validE s.verts.length e) = true
  · rw [if_pos hi, if_pos hi]
    rw [prepare_edges_create s.eattrs]
    simp only [List.nil_append]
    rw [show (C02B.dcInit none none : ECont) = ([], ([] : List Attr).map emptyLike) from rfl, create_fold s.eattrs h [] s.eattrs rfl]
    try simp only [List.nil_append]
    rw [foldl_fst_const (C02B.prepareEdges_loop2 s.verts.length (s.eattrs.map (·.name)) (s.eattrs.map (·.name)))
      (rebuildStep s.verts.length s.eattrs s.edges) s (fun t i => prepare_edges_rebuild_step s _ t.1 t.2 i)]
    simp only
    rw [rebuild_fold s.verts.length s.eattrs h s.edges s.edges.length (Nat.le_refl _)]
    simp only [List.take_length]
  · rw [if_neg hi, if_neg hi]
    exact prepare_edges_normalise s

example : (C02B.prepareEdges demoEdges).edges = [(0, 1), (1, 2)] ∧
    (C02B.prepareEdges demoEdges).eattrs = [⟨"w", 0, .dense [10, 12]⟩, ⟨"s", 5, .sparse [(1, 7)]⟩] := by decide

/-! ## the whole of `prepare()` on the translated text -/

theorem step_runs_translated_body (s : Step) (r r' : Raw) (hu : UniqueNames r.eattrs) (h : runStep s r = .ok r') :
    runStepSrc s r = r' ∧ UniqueNames r'.eattrs := by
  refine ⟨?_, uniqueNames_step s r r' hu h⟩
  cases s <;> simp only [runStep, runStepSrc] at h ⊢
  case completeFaces => cases h; exact complete_faces_bridge r
  case completeEdges => cases h; exact complete_edges_bridge r
  case prepareVertices =>
    cases h
    have := prepare_vertices_coordinates ⟨r.verts.map (fun xs => ⟨'f', xs⟩)⟩ r (by simp [List.map_map, Function.comp_def])
    unfold prepareVertices at this ⊢
    simp only at this
    rw [← this]
  case prepareEdges => cases h; exact prepare_edges_refines r hu
  case prepareFaces => cases h; rfl
  case genFaceCorners => cases h; exact gen_face_corners_bridge r
  case prepareCells => cases h; rfl
  case genCellCorners => cases h; exact gen_cell_corners_bridge r
  case genCellFaces => exact gen_cell_faces_refines r r' h
  case computeDim => cases h; rfl
  case setPrepared => cases h; rfl

/-- THE TIE, composed: whenever the model's `prepare` succeeds (every cell a tetrahedron or hexahedron), its result is what
the source computes when the step program of `prepare()` AS WRITTEN (`Generated.C02S.prepareProgram`: order, config
guards, `_prepared` guard) is run on the function bodies AS WRITTEN (`Generated.C02B`). Every theorem of `Props/C02.lean`
about `prepare cfg r = .ok p` is thereby a theorem about that text (attribute names unique, as the keys of the dict `_attr` are; the numpy-row → list
conversions act on the row-typed model, see `prepare_faces_bridge`). -/
theorem prepare_runs_translated_bodies (cfg : Cfg) (r p : Raw) (hu : UniqueNames r.eattrs) (h : prepare cfg r = .ok p) :
    prepareSrc cfg C02S.prepareProgram r = p := by
  rw [Mouette.Props.C02.prepare_follows_source_structure] at h
  unfold runProgram at h
  unfold prepareSrc
  by_cases hg : (C02S.prepareProgram.guardFirst && r.prepared) = true
  · rw [if_pos hg] at h ⊢; cases h; rfl
  · rw [if_neg hg] at h ⊢
    exact runSteps_src cfg (fun r => UniqueNames r.eattrs) step_runs_translated_body _ r p hu h

/-- headline clauses restated on the translated text: the finished edge list of the source's `prepare()` is normalised,
and its faces are the declared ones followed by the missing cell faces -/
theorem edges_normalised_source (cfg : Cfg) (r p : Raw) (hu : UniqueNames r.eattrs) (h0 : r.prepared = false)
    (h : prepare cfg r = .ok p) :
    ∀ e ∈ (prepareSrc cfg C02S.prepareProgram r).edges, 0 ≤ e.1 ∧ e.1 < e.2 ∧
      e.2 < ((prepareSrc cfg C02S.prepareProgram r).verts.length : Int) := by
  rw [prepare_runs_translated_bodies cfg r p hu h]
  exact Mouette.Props.C02.edges_normalised cfg r p h0 h

example : (prepareSrc {} C02S.prepareProgram demo).edges.length = 9 ∧
    (prepareSrc {} C02S.prepareProgram demo).faces.length = 7 ∧
    (prepareSrc {} C02S.prepareProgram demo).cfAdj = [0, 0, 0, 0, 1, 1, 1, 1] ∧
    (prepareSrc {} C02S.prepareProgram demo).prepared = true := by decide +kernel

/-! ## the file route (`load` → reader → `_instanciate_raw_mesh_data`) -/

/-- COMPOSITION with the readers: whatever record `m` a file reader hands over — in particular the results of C04's
translated readers `Generated.C04R.importXyz cd file` / `Generated.C04R.parseTet cd file`, which are values of this type —
if the construction succeeds on it, the finished object is what the source's `prepare()` text computes from it, its
vertices are 3-D, its edges are stored low index first and in range, and its class is the highest dimension present
(or the requested one, if higher). So "however a mesh is built … or a file" is the same theorem as for raw containers. -/
theorem file_route_source (cfg : Cfg) (m : Mouette.IO.Raw Rat) (dim : Option Nat) (b : Built)
    (h : instantiate cfg (ofIO m) dim = .ok b) :
    prepareSrc cfg C02S.prepareProgram (ofIO m) = b.raw ∧
    (∀ v ∈ b.raw.verts, v.length = 3) ∧
    (∀ e ∈ b.raw.edges, 0 ≤ e.1 ∧ e.1 < e.2 ∧ e.2 < (m.verts.length : Int)) ∧
    b.dim = max (dim.getD 0) (dimensionality b.raw) := by
  unfold instantiate at h
  cases hp : prepare cfg (ofIO m) with
  | error e => simp [hp] at h
  | ok p =>
    simp only [hp] at h
    cases h
    have h0 : (ofIO m).prepared = false := rfl
    refine ⟨prepare_runs_translated_bodies cfg _ p (ofIO_uniqueNames m) hp, ?_, ?_, rfl⟩
    · exact Mouette.Props.C02.vertices_3d cfg _ p h0 hp (by
        intro v hv
        obtain ⟨q, _, rfl⟩ := List.mem_map.mp hv
        simp)
    · have := Mouette.Props.C02.edges_normalised cfg _ p h0 hp
      have hl : p.verts.length = m.verts.length := by
        obtain ⟨hverts, _⟩ := prepare_fields cfg _ p h0 hp
        rw [hverts]; simp [ofIO]
      rw [hl] at this
      exact this

/-- … and it does succeed whenever the file holds tetrahedra / hexahedra only -/
theorem file_route_never_fails (cfg : Cfg) (m : Mouette.IO.Raw Rat) (dim : Option Nat)
    (ha : ∀ c ∈ m.cells, c.length = 4 ∨ c.length = 8) : ∃ b, instantiate cfg (ofIO m) dim = .ok b := by
  obtain ⟨p, hp⟩ := Mouette.Props.C02.prepare_never_fails cfg (ofIO m) ha
  exact ⟨_, by unfold instantiate; rw [hp]⟩

example : ∃ b, instantiate {} (ofIO { verts := [(0, 0, 0), (1, 0, 0), (0, 1, 0), (0, 0, 1)], cells := [[0, 1, 2, 3]] }) none = .ok b ∧
    b.dim = 3 ∧ b.raw.faces.length = 4 ∧ b.raw.edges.length = 6 := ⟨_, rfl, by decide, by decide, by decide⟩

/-! ## `mesh.from_arrays`, `mesh.load`, the property `dimensionality` (round 6) -/

/-- BRIDGE: the body of `from_arrays` as written — a fresh `RawMeshData`; a vertex array of fewer than 3 columns padded with
zero columns behind, of more than 3 refused; `n_vert` read after the padding; vertices stored; each of `E`, `F`, `C` only when
given: refused when an index is `>= n_vert` (edges also when the array does not have 2 columns), stored otherwise; the raw data
returned when `raw`, else handed to `_instanciate_raw_mesh_data` without a dimension — is the model's `fromArrays` followed by
`instantiate` (absent arrays = empty ones). `w` is the common width of the rows of `V`. -/
theorem from_arrays_bridge (cfg : Cfg) (w : Nat) (V : List (List Rat)) (E : Option (List (Int × Int)))
    (F C : Option (List (List Nat))) (raw : Bool) (hw : ∀ v ∈ V, v.length = w) (h0 : V = [] → w ≤ 3) :
    C02B.fromArrays cfg w 2 V E F C raw =
      Except.bind (fromArrays V (E.getD []) (F.getD []) (C.getD [])) (finishArrays cfg raw) := by
  by_cases hgt : 3 < w
  · -- too wide: refused by both
    have hne : V ≠ [] := fun e => by have := h0 e; omega
    obtain ⟨v, hv⟩ := List.exists_mem_of_ne_nil V hne
    have hany : V.any (fun v => decide (v.length > 3)) = true :=
      List.any_eq_true.mpr ⟨v, hv, by simp [hw v hv, hgt]⟩
    have h1 : ¬ w < 3 := by omega
    have h2 : w ≠ 3 := by omega
    unfold C02B.fromArrays fromArrays
    simp only [hany, if_true, h1, h2, decide_false, decide_true, Bool.false_eq_true, if_false, ne_eq, not_false_eq_true,
      bind_error]
  · have hany : V.any (fun v => decide (v.length > 3)) = false := by
      rw [List.any_eq_false]
      intro v hv
      simp [hw v hv]; omega
    -- the vertex stage: both sides store `V.map padVertex`
    have hstage : ((if decide (w < 3) then .ok (padCols V 0 (3 - w))
        else (if decide (w ≠ 3) then .error "err:Other(Exception)" else (.ok V))) : Except String (List (List Rat)))
        = .ok (V.map padVertex) := by
      by_cases hlt : w < 3
      · simp only [hlt, decide_true, if_true]
        congr 1
        unfold padCols
        apply List.map_congr_left
        intro v hv
        simp [padVertex, hw v hv, hlt]
      · have h3 : w = 3 := by omega
        simp only [hlt, h3, decide_false, Bool.false_eq_true, if_false, ne_eq, not_true_eq_false]
        congr 1
        rw [List.map_congr_left (g := id)]
        · simp
        · intro v hv
          simp [padVertex, hw v hv, h3]
    have hmodel : fromArrays V (E.getD []) (F.getD []) (C.getD []) =
        (if anyEdgeGE (E.getD []) V.length then .error "err:Other(Exception)"
         else if anyRowGE (F.getD []) V.length then .error "err:Other(Exception)"
         else if anyRowGE (C.getD []) V.length then .error "err:Other(Exception)"
         else .ok { verts := V.map padVertex, edges := E.getD [], faces := F.getD [], cells := C.getD [] }) := by
      unfold fromArrays anyEdgeGE anyRowGE
      simp only [hany, Bool.false_eq_true, if_false]
    rw [hmodel]
    unfold C02B.fromArrays
    rw [hstage]
    have hl : (V.map padVertex).length = V.length := by simp
    generalize V.map padVertex = V' at hl ⊢
    simp only [bind_ok, bind_ite', hl]
    cases E <;> cases F <;> cases C <;>
      simp only [Option.getD_none, Option.getD_some, (rfl : anyEdgeGE [] V.length = false),
        (rfl : anyRowGE [] V.length = false), Bool.false_eq_true, if_false,
        bind_ok, bind_ite', ne_eq, not_true_eq_false, decide_false, C02B.initFresh, List.nil_append, finishArrays] <;>
      first | rfl | (simp only [bind_ite', bind_ok]) | (simp only [bind_ite', bind_ok]; rfl)

/-- consequence on the translated text: what `from_arrays` stores always has 3-D vertices -/
theorem from_arrays_vertices_3d (cfg : Cfg) (w : Nat) (V : List (List Rat)) (E : Option (List (Int × Int)))
    (F C : Option (List (List Nat))) (m : Raw) (hw : ∀ v ∈ V, v.length = w) (h0 : V = [] → w ≤ 3)
    (h : C02B.fromArrays cfg w 2 V E F C true = .ok (.inl m)) : ∀ v ∈ m.verts, v.length = 3 := by
  rw [from_arrays_bridge cfg w V E F C true hw h0] at h
  cases hf : fromArrays V (E.getD []) (F.getD []) (C.getD []) with
  | error e => rw [hf] at h; cases h
  | ok m' =>
    rw [hf] at h
    have hm : m' = m := by
      simp only [bind_ok, finishArrays, if_true] at h
      cases h; rfl
    subst hm
    unfold fromArrays at hf
    by_cases hany : V.any (fun v => decide (v.length > 3)) = true
    · rw [if_pos hany] at hf; cases hf
    · rw [if_neg hany] at hf
      repeat' (split at hf)
      all_goals first | (cases hf; done) | skip
      cases hf
      intro v hv
      obtain ⟨u, hu, rfl⟩ := List.mem_map.mp hv
      have hl : ¬ u.length > 3 := by
        intro hgt
        exact hany (List.any_eq_true.mpr ⟨u, hu, by simp [hgt]⟩)
      unfold padVertex
      split <;> first | omega | (simp; omega)

/-- BRIDGE: `load(filename, dim, raw)` as written is the reader's record handed to `_instanciate_raw_mesh_data` with the
caller's `dim` (or returned as it is when `raw`): the file route of `file_route_source` -/
theorem load_bridge (cfg : Cfg) (data : Raw) (dim : Option Nat) (b : Built) :
    (C02B.load cfg (some data) dim false = .ok (.inr b) ↔ instantiate cfg data dim = .ok b) ∧
    C02B.load cfg (some data) dim true = .ok (.inl data) ∧ C02B.load cfg none dim false = .error "err:Other(Exception)" := by
  refine ⟨?_, rfl, rfl⟩
  unfold C02B.load
  simp only [Bool.false_eq_true, if_false]
  generalize instantiate cfg data dim = r
  cases r with
  | error e => simp [bind_error]
  | ok b' => simp [bind_ok]

/-- the whole file route on the translated text: `load` as written, applied to what a reader returns -/
theorem load_file_route (cfg : Cfg) (m : Mouette.IO.Raw Rat) (dim : Option Nat) (b : Built)
    (h : C02B.load cfg (some (ofIO m)) dim false = .ok (.inr b)) :
    prepareSrc cfg C02S.prepareProgram (ofIO m) = b.raw ∧ (∀ v ∈ b.raw.verts, v.length = 3) ∧
    b.dim = max (dim.getD 0) (dimensionality b.raw) := by
  have h' := (load_bridge cfg (ofIO m) dim b).1.mp h
  obtain ⟨a, b', _, d⟩ := file_route_source cfg m dim b h'
  exact ⟨a, b', d⟩

/-- the property `dimensionality` as written reads a CACHE (`_dimensionality`), filled on first use; `prepare()` as written
ends with `_compute_dimensionality` (step `computeDim`, `prepare_program_order`), so after a construction the property
returns the dimensionality of the FINISHED containers whatever was cached before (e.g. `0`, read on the still empty
raw data) -/
theorem dimensionality_cache_source (stale : Option Nat) (p : Raw) :
    (C02B.dimensionalityProp none (dimBy C02S.dimChain C02S.dimDefault p)).1 = dimensionality p ∧
    (C02B.dimensionalityProp (some (dimBy C02S.dimChain C02S.dimDefault p)) (stale.getD 0)).1 = dimensionality p ∧
    (∀ d c, (C02B.dimensionalityProp (some d) c).1 = d) := by
  rw [← Mouette.Props.C02.dimensionality_bridge]
  exact ⟨rfl, rfl, fun _ _ => rfl⟩

example : C02B.fromArrays {} 2 2 [[0, 0], [1, 0], [0, 1]] (some [(2, 0)]) (some [[0, 1, 2]]) none true
    = .ok (.inl { verts := [[0, 0, 0], [1, 0, 0], [0, 1, 0]], edges := [(2, 0)], faces := [[0, 1, 2]] }) ∧
    C02B.fromArrays {} 3 2 [[0, 0, 0]] (some [(0, 1)]) none none true = .error "err:Other(Exception)" := ⟨rfl, rfl⟩

end Mouette.Props.C02Source
