import Mouette.Lemmas.C04Source
import Mouette.Lemmas.C04SourceRead
import Mouette.Lemmas.C04Codecs
import Mouette.Lemmas.C04Medit
import Mouette.Lemmas.C04Stl
import Mouette.Lemmas.C04Ref
import Mouette.Lemmas.C04MeditRef
import Mouette.Generated.C04Dispatch
import Mouette.Generated.C04Glue
import Mouette.Generated.C04Wrap
import Mouette.Model.IOStl
import Mouette.Lemmas.C04SourceAttr
import Mouette.Lemmas.C04SourceGeo
import Mouette.Lemmas.C04Save
/-!
# C04 (round 4) — the theorems of `Props/C04.lean` transferred to what the SOURCE says now

`vlib/gen/c04_translate.py` re-extracts, on every run, the BODIES of the writers `export_off`, `export_tet`, `export_xyz`,
`export_medit` (+ `count_faces`, `count_cells`), `export_obj`, `Binary_STL_Writer.{_write_triangle, write, _write_header}`, the
extension dispatch of `io.py` and the class choice of `mesh.py: _instanciate_raw_mesh_data` from `$MOUETTE_REPO` into
`Generated/C04Writers.lean` and `Generated/C04Dispatch.lean` (statement order, loops, guards, which container is iterated,
index base `+1`/`+0`, keyword lines, format placeholders).  This file proves

* BRIDGES `Generated.C04W.export_f = IO.export_f`: each extracted writer computes what the hand model computes;
* the round-trip / interoperability theorems restated on the extracted writers (`*_source`);
* what the counting helpers and the STL facet counter return.
A semantic change of a writer makes a bridge fail (broken obligation -> failing-input search); an unrecognised shape makes the
translator return `ok: False`.
-/
set_option linter.unusedSimpArgs false
namespace Mouette.Props.C04Source
open Mouette.IO Mouette.IOS Mouette.Generated

variable {C : Type}

/-! ### bridges: the writers read from the source are the modelled writers -/

theorem export_off_bridge (cd : Codec C) (m : Raw C) : C04W.exportOff cd m = exportOff cd m := exportOff_bridge cd m
theorem export_tet_bridge (cd : Codec C) (m : Raw C) : C04W.exportTet cd m = exportTet cd m := exportTet_bridge cd m
theorem export_xyz_bridge (cd : Codec C) (m : Raw C) : C04W.exportXyz cd m = exportXyz cd m := exportXyz_bridge cd m
theorem export_obj_bridge (cd : Codec C) (cfg : Cfg) (m : Raw C) : C04W.exportObj cd cfg m = exportObj cd cfg m :=
  exportObj_bridge cd cfg m

/-- medit: under `HardOk m` (every key of `hard_edges` is an edge index: otherwise `a, b = mesh.edges[e]` raises, which the
translation totalises by skipping) -/
theorem export_medit_bridge (cd : Codec C) (m : Raw C) (h : HardOk m) : C04W.exportMedit cd m = exportMedit cd m :=
  exportMedit_bridge cd m h

/-- the binary STL writer: facet loop, triangle / quad split / ValueError, counter, header rewritten last -/
theorem export_stl_bridge (cd : Codec C) (m : Raw C) : C04W.exportStl cd m = exportStl cd m := exportStl_bridge cd m

/-- `count_faces` = (number of quads, number of triangles, _) and `count_cells` = (number of hexahedra, number of tetrahedra, _) -/
theorem count_faces_source (m : Raw C) :
    (C04W.countFaces m).1 = (ofArity 4 m.faces).length ∧ (C04W.countFaces m).2.1 = (ofArity 3 m.faces).length := countFaces_eq m
theorem count_cells_source (m : Raw C) :
    (C04W.countCells m).1 = (ofArity 8 m.cells).length ∧ (C04W.countCells m).2.1 = (ofArity 4 m.cells).length := countCells_eq m

/-- struct layout of the binary STL file as the source declares it: 80-byte header + uint32 count; 12 binary32 + uint16 per facet -/
theorem stl_formats_source : C04W.stlFormats = ("80sI", "ffffffffffffH") := by decide

/-! ### P0 on the extracted writers: load (what the source writes) = restrict -/

theorem obj_load_save_source (cd : Codec C) (h : RoundTrips cd) (cfg : Cfg) (m : Raw C) :
    importObj cd (C04W.exportObj cd cfg m) = some (restrictObj cfg m) := by
  rw [export_obj_bridge]; exact importObj_exportObj cd h cfg m

theorem tet_load_save_source (cd : Codec C) (h : RoundTrips cd) (m : Raw C) :
    importTet cd (C04W.exportTet cd m) = some (restrictTet m) := by
  rw [export_tet_bridge]; exact importTet_exportTet cd h m

theorem xyz_load_save_source (cd : Codec C) (h : RoundTrips cd) (m : Raw C) :
    importXyz cd (C04W.exportXyz cd m) = some (restrictXyz m) := by
  rw [export_xyz_bridge]; exact importXyz_exportXyz cd h m

theorem medit_load_save_source (cd : Codec C) (h : RoundTrips cd) (m : Raw C) (hk : HardOk m) :
    importMedit cd (C04W.exportMedit cd m) = some (restrictMedit m) := by
  rw [export_medit_bridge cd m hk]; exact importMedit_exportMedit cd h m

/-- off, what the code really does for every mesh without 2-gons (triangles come back, quads come back as cells, other faces are
dropped: the open findings `off/quad-face`, `off/polygon-face`), now for the file the SOURCE writes -/
theorem off_load_save_source_actual (cd : Codec C) (h : RoundTrips cd) (m : Raw C) (hf : ∀ f ∈ m.faces, f.length ≠ 2) :
    importOff cd (C04W.exportOff cd m) = some { verts := m.verts, faces := ofArity 3 m.faces, cells := ofArity 4 m.faces } := by
  rw [export_off_bridge]; exact importOff_exportOff_actual cd h m hf

/-- stl: the file the source writes holds exactly the triangle soup of the (triangle or quad) faces, rounded to binary32 -/
theorem stl_load_save_source (cd : Codec C) (h : RoundTrips cd) (m : Raw C) (ts : List (Tri C)) (hts : stlTris m = some ts) :
    ∃ file, C04W.exportStl cd m = some file ∧ stlSoup cd file = some (ts.map (r32tri cd)) := by
  rw [export_stl_bridge]; exact stlSoup_exportStl cd h m ts hts

/-- the facet count of the STL header (written last from `self.counter`) is the number of facet records in the file -/
theorem stl_header_count_source (cd : Codec C) (m : Raw C) (hd : Line) (recs : File)
    (hf : C04W.exportStl cd m = some (hd :: recs)) : hd = [fmtI recs.length] := by
  rw [export_stl_bridge] at hf
  unfold exportStl at hf
  cases hts : stlTris m with
  | none => simp [hts] at hf
  | some ts =>
    simp [hts] at hf
    obtain ⟨h1, h2⟩ := hf
    subst h1 h2
    simp [fmtI, idx0]

/-! ### P1 on the extracted writers: an independent reader reads what the source writes -/

theorem obj_read_by_reference_source (cd : Codec C) (h : RoundTrips cd) (cfg : Cfg) (m : Raw C) :
    refImportObj cd (C04W.exportObj cd cfg m) = some (restrictObj cfg m) := by
  rw [export_obj_bridge]; exact refImportObj_exportObj cd h cfg m

theorem off_read_by_reference_source (cd : Codec C) (h : RoundTrips cd) (m : Raw C) :
    refImportOff cd (C04W.exportOff cd m) = some (restrictOff m) := by
  rw [export_off_bridge]; exact refImportOff_exportOff cd h m

theorem tet_read_by_reference_source (cd : Codec C) (h : RoundTrips cd) (m : Raw C) :
    refImportTet cd (C04W.exportTet cd m) = some (restrictTet m) := by
  rw [export_tet_bridge]; exact refImportTet_exportTet cd h m

theorem xyz_read_by_reference_source (cd : Codec C) (h : RoundTrips cd) (m : Raw C) :
    refImportXyz cd (C04W.exportXyz cd m) = some (restrictXyz m) := by
  rw [export_xyz_bridge]; exact refImportXyz_exportXyz cd h m

/-! ### readers read from the source: `import_xyz`, `parse_tet_data` -/

/-- the line loop of `import_xyz` (skip 1-number lines, first three numbers = the point) is the modelled reader -/
theorem import_xyz_bridge (cd : Codec C) (file : File) : C04R.importXyz cd file = importXyz cd file := importXyz_bridge cd file

/-- `parse_tet_data` (two header counts, `nvert` coordinate lines, `ntet` records whose arity prefix is skipped) is the modelled reader -/
theorem parse_tet_bridge (cd : Codec C) (file : File) : C04R.parseTet cd file = importTet cd file := parseTet_bridge cd file

/-- xyz and tet, BOTH directions as the source has them now: reading what the translated writer writes gives the restricted mesh -/
theorem xyz_round_trip_source (cd : Codec C) (h : RoundTrips cd) (m : Raw C) :
    C04R.importXyz cd (C04W.exportXyz cd m) = some (restrictXyz m) := by
  rw [import_xyz_bridge]; exact xyz_load_save_source cd h m

theorem tet_round_trip_source (cd : Codec C) (h : RoundTrips cd) (m : Raw C) :
    C04R.parseTet cd (C04W.exportTet cd m) = some (restrictTet m) := by
  rw [parse_tet_bridge]; exact tet_load_save_source cd h m

/-- … and the translated readers load the files of an independent writer (six-column xyz, reference tet layout) -/
theorem xyz_reads_reference_source (cd : Codec C) (h : RoundTrips cd) (m : Raw C) :
    C04R.importXyz cd (refExportXyz cd m) = some (restrictXyz m) := by
  rw [import_xyz_bridge]; exact importXyz_refExportXyz cd h m

theorem tet_reads_reference_source (cd : Codec C) (h : RoundTrips cd) (m : Raw C) :
    C04R.parseTet cd (refExportTet cd m) = some (restrictTet m) := by
  rw [parse_tet_bridge]; exact importTet_refExportTet cd h m

/-! ### round 5: `parse_off_data`, `parse_vertex` + `parse_obj_data` read from the source -/

/-- `parse_off_data` (OFF header, `nv nf ne`, `nv` coordinate lines, `nf` records dispatched on their arity) is the modelled reader -/
theorem parse_off_bridge (cd : Codec C) (file : File) : C04R.parseOff cd file = importOff cd file := parseOff_bridge cd file

/-- one record of the OFF loop: arity 3 -> face, arity 4 -> CELL, arity 2 -> outside the domain, any other arity dropped -/
theorem off_record_bridge (r : Raw C) (l : Line) : C04R.offRecord r l = stepOff r l := offRecord_bridge r l

/-- `parse_obj_data` (line loop on the prefix, `parse_vertex` per corner, then one face per `f` record in order) is the modelled reader -/
theorem parse_obj_bridge (cd : Codec C) (file : File) : C04R.parseObj cd file = importObj cd file := parseObj_bridge cd file

/-- obj, BOTH directions as the source has them now -/
theorem obj_round_trip_source (cd : Codec C) (h : RoundTrips cd) (cfg : Cfg) (m : Raw C) :
    C04R.parseObj cd (C04W.exportObj cd cfg m) = some (restrictObj cfg m) := by
  rw [parse_obj_bridge]; exact obj_load_save_source cd h cfg m

/-- off, both directions from the source, ACTUAL behaviour (triangles come back, quads come back as cells, other faces are dropped:
the open findings); the full statement holds under all-triangles (`off_load_save_partial`) and is refuted on quads / polygons -/
theorem off_round_trip_source_actual (cd : Codec C) (h : RoundTrips cd) (m : Raw C) (hf : ∀ f ∈ m.faces, f.length ≠ 2) :
    C04R.parseOff cd (C04W.exportOff cd m) = some { verts := m.verts, faces := ofArity 3 m.faces, cells := ofArity 4 m.faces } := by
  rw [parse_off_bridge]; exact off_load_save_source_actual cd h m hf

theorem off_round_trip_source_partial (cd : Codec C) (h : RoundTrips cd) (m : Raw C) (hall : ∀ f ∈ m.faces, f.length = 3) :
    C04R.parseOff cd (C04W.exportOff cd m) = some (restrictOff m) := by
  rw [off_round_trip_source_actual cd h m (fun f hf => by rw [hall f hf]; decide)]
  rw [ofArity_all 3 m.faces hall, ofArity_none 4 m.faces (fun f hf => by rw [hall f hf]; decide)]
  rfl

/-- the translated readers load the files of an independent writer -/
theorem obj_reads_reference_source (cd : Codec C) (h : RoundTrips cd) (m : Raw C) :
    C04R.parseObj cd (refExportObj cd m) = some (refObjContent m) := by
  rw [parse_obj_bridge]; exact importObj_refExportObj cd h m

theorem off_reads_reference_source_actual (cd : Codec C) (h : RoundTrips cd) (m : Raw C) (hf : ∀ f ∈ m.faces, f.length ≠ 2) :
    C04R.parseOff cd (refExportOff cd m) = some { verts := m.verts, faces := ofArity 3 m.faces, cells := ofArity 4 m.faces } := by
  rw [parse_off_bridge]; exact importOff_refExportOff_actual cd h m hf

/-! ### round 6: `parse_field` + `import_medit` read from the source (while-loop over the deque ↔ the line-by-line automaton) -/

/-- the `while data:` loop of `import_medit` (keyword line, count line, `nv` vertex lines / `parse_field` blocks, `End` = break, any
other line skipped), run with more fuel than lines, computes what the automaton `stepMedit` of the hand model computes -/
theorem import_medit_bridge (cd : Codec C) (file : File) : C04R.importMedit cd file = importMedit cd file := importMedit_bridge cd file

/-- `parse_field`'s record `[int(u) - 1 for u in line][:nelem]` is the modelled `readField` -/
theorem parse_field_bridge (k : Nat) (l : Line) : C04R.fieldRecord k l = readField k l := rfl

/-- medit, BOTH directions as the source has them now (under `HardOk`: every `hard_edges` key is an edge index) -/
theorem medit_round_trip_source (cd : Codec C) (h : RoundTrips cd) (m : Raw C) (hk : HardOk m) :
    C04R.importMedit cd (C04W.exportMedit cd m) = some (restrictMedit m) := by
  rw [import_medit_bridge]; exact medit_load_save_source cd h m hk

/-- the translated reader loads the file of an independent medit writer (other block order, version 2, reference column 0, `End`) -/
theorem medit_reads_reference_source (cd : Codec C) (h : RoundTrips cd) (m : Raw C) :
    C04R.importMedit cd (refExportMedit cd m) = some (refMeditContent m) := by
  rw [import_medit_bridge]; exact importMedit_refExportMedit cd h m

/-! ### extension dispatch and class of the loaded object -/

/-- every extension is routed to `import_<module>` / `export_<module>` of ONE codec module (no format reads with one codec and
writes with another) -/
theorem dispatch_bridge : C04D.readRows = expectedRows "import_" ∧ C04D.writeRows = expectedRows "export_" := by decide

theorem dispatch_pairs (e md f : String) (h : (e, md, f) ∈ C04D.readRows) : ∃ g, (e, md, g) ∈ C04D.writeRows := by
  rw [dispatch_bridge.1] at h; rw [dispatch_bridge.2]
  simp only [expectedRows, List.mem_map] at h ⊢
  obtain ⟨r, hr, he⟩ := h
  refine ⟨"export_" ++ r.2, r, hr, ?_⟩
  simp only [Prod.mk.injEq] at he ⊢
  exact ⟨he.1, he.2.1, trivial⟩

theorem dim_le_three (m : Raw C) : dim m ≤ 3 := by
  unfold dim; split <;> (try split) <;> (try split) <;> omega

/-- `load(file)` without `dim=`: the class is the one implied by the content (`load_class` of Props/C04 gives the content) -/
theorem load_class_source (m : Raw C) : C04D.instantiate none (dim m) = some (className (dim m)) := by
  have h := dim_le_three m
  generalize dim m = d at h
  match d, h with
  | 0, _ => decide
  | 1, _ => decide
  | 2, _ => decide
  | 3, _ => decide

/-- `load(file, dim=k)`: the class of `max k (implied dimensionality)`, never below what the content implies -/
theorem load_dim_override_source (k : Nat) (hk : k ≤ 3) (m : Raw C) :
    C04D.instantiate (some (k : Int)) (dim m) = some (className (max k (dim m))) := by
  have h := dim_le_three m
  generalize dim m = d at h
  have : ∀ k ≤ 3, ∀ d ≤ 3, C04D.instantiate (some ((k : Nat) : Int)) d = some (className (max k d)) := by decide
  exact this k hk d h

/-! ### the whole `save` → `load` pipeline, every step taken from the source -/

/-- `save(mesh, "x.obj", ignore_elements)` then `load("x.obj")`: the extension routes to `export_obj` / `import_obj` (one module),
the translated writer runs on the re-wrapped mesh, the translated reader gives the restricted content, and the class chosen by
`_instanciate_raw_mesh_data` is the one implied by that content -/
theorem obj_save_load_pipeline_source (cd : Codec C) (h : RoundTrips cd) (cfg : Cfg) (ig : Ignore) (m : Raw C) :
    ("obj", "obj", "export_obj") ∈ C04D.writeRows ∧ ("obj", "obj", "import_obj") ∈ C04D.readRows ∧
    (C04R.parseObj cd (C04W.exportObj cd cfg (applyIgnore ig m))).map (fun r => (r, C04D.instantiate none (dim r)))
      = some (restrictObj cfg (applyIgnore ig m), some (className (dim (restrictObj cfg (applyIgnore ig m))))) := by
  refine ⟨by decide, by decide, ?_⟩
  rw [obj_round_trip_source cd h]
  simp [load_class_source]

/-- the same for tet and xyz -/
theorem tet_save_load_pipeline_source (cd : Codec C) (h : RoundTrips cd) (ig : Ignore) (m : Raw C) :
    ("tet", "tet", "export_tet") ∈ C04D.writeRows ∧ ("tet", "tet", "import_tet") ∈ C04D.readRows ∧
    (C04R.parseTet cd (C04W.exportTet cd (applyIgnore ig m))).map (fun r => (r, C04D.instantiate none (dim r)))
      = some (restrictTet (applyIgnore ig m), some (className (dim (restrictTet (applyIgnore ig m))))) := by
  refine ⟨by decide, by decide, ?_⟩
  rw [tet_round_trip_source cd h]
  simp [load_class_source]

theorem xyz_save_load_pipeline_source (cd : Codec C) (h : RoundTrips cd) (ig : Ignore) (m : Raw C) :
    ("xyz", "xyz", "export_xyz") ∈ C04D.writeRows ∧ ("xyz", "xyz", "import_xyz") ∈ C04D.readRows ∧
    (C04R.importXyz cd (C04W.exportXyz cd (applyIgnore ig m))).map (fun r => (r, C04D.instantiate none (dim r)))
      = some (restrictXyz (applyIgnore ig m), some "PointCloud") := by
  refine ⟨by decide, by decide, ?_⟩
  rw [xyz_round_trip_source cd h]
  have : C04D.instantiate none 0 = some "PointCloud" := by decide
  simp [restrictXyz, dim, this]

theorem medit_save_load_pipeline_source (cd : Codec C) (h : RoundTrips cd) (ig : Ignore) (m : Raw C) (hk : HardOk (applyIgnore ig m)) :
    ("mesh", "medit", "export_medit") ∈ C04D.writeRows ∧ ("mesh", "medit", "import_medit") ∈ C04D.readRows ∧
    (C04R.importMedit cd (C04W.exportMedit cd (applyIgnore ig m))).map (fun r => (r, C04D.instantiate none (dim r)))
      = some (restrictMedit (applyIgnore ig m), some (className (dim (restrictMedit (applyIgnore ig m))))) := by
  refine ⟨by decide, by decide, ?_⟩
  rw [medit_round_trip_source cd h _ hk]
  simp [load_class_source]

/-! ### round 6: the glue of `mesh.py` (`load`, `save`) read statement by statement -/

/-- `load(file, raw=True)` hands back what the reader returned, untouched -/
theorem load_raw_source {α : Type} (d : α) (dimf : α → Nat) (k : Option Int) :
    C04G.load (some d) dimf k true = some (.rawData d) := rfl

/-- `load(file)`: the object built from the content read, of the class its dimensionality implies; a reader that raises = no result -/
theorem load_mesh_source (m : Raw C) :
    C04G.load (some m) dim none false = some (.mesh (some (className (dim m))) m) ∧
    C04G.load (none : Option (Raw C)) dim none false = none := by
  refine ⟨?_, rfl⟩
  simp [C04G.load, load_class_source]

/-- `save`: what reaches `write_by_extension` is the mesh itself without `ignore_elements`, its restriction `applyIgnore` with it -/
theorem save_content_source (ig : Ignore) (m : Raw C) :
    C04G.saveContent none m = m ∧ C04G.saveContent (some ig) m = applyIgnore ig m := by
  refine ⟨rfl, ?_⟩
  have h : Mouette.Generated.C04Save.ignoreRows = Tables.saveIgnoreRows := by decide
  simp only [C04G.saveContent, h]
  exact (Mouette.IO.Tables.applyIgnore_table ig m).symm

/-! ### round 7: `geogram_ascii.py: import_attribute` read from the source -/

/-- the body read from the source is the loop of `impStep` (the definition the lemmas are about) -/
theorem import_attribute_bridge {V : Type} [DecidableEq V] (n : Nat) (data : List V) (attr : SAttr V) :
    C04A.importAttribute n data attr = List.foldl (impStep n data) attr (List.range (data.length / n)) := rfl

/-- whatever the DEFAULT value `d` of the (fresh, sparse) attribute and whatever the values: element `i` reads back as row `i` of the
chunk.  In particular a value equal to 0 under a non-zero default (the adjacency `0` under the default NOT_AN_ID: blind change C04-i) and a
value of tiny magnitude (C04-g) come back unchanged. -/
theorem import_attribute_dense_source {V : Type} [DecidableEq V] (n : Nat) (hn : 0 < n) (data : List V) (d : V) (i : Nat)
    (hi : i < data.length / n) :
    (C04A.importAttribute n data { dflt := d }).get n i = rowOf n data i := by
  rw [import_attribute_bridge]
  exact (impFold_spec n hn data d (data.length / n) (Nat.le_refl _)).2.1 i hi

/-- nothing is invented: an element beyond the chunk reads as the default -/
theorem import_attribute_nothing_else_source {V : Type} [DecidableEq V] (n : Nat) (hn : 0 < n) (data : List V) (d : V) (i : Nat)
    (hi : data.length / n ≤ i) :
    (C04A.importAttribute n data { dflt := d }).get n i = List.replicate n d := by
  rw [import_attribute_bridge]
  have h := (impFold_spec n hn data d (data.length / n) (Nat.le_refl _))
  simp [SAttr.get, h.2.2 i hi, h.1]

/-- the dense read-out of the filled attribute is the data of the chunk (what the hand model `stepImport` keeps as `vals`), up to the
incomplete last row that `len(data) // n_data` ignores -/
theorem import_attribute_values_source {V : Type} [DecidableEq V] (n : Nat) (hn : 0 < n) (data : List V) (d : V) :
    (List.range (data.length / n)).flatMap (fun i => (C04A.importAttribute n data { dflt := d }).get n i)
      = data.take (n * (data.length / n)) := by
  rw [← rows_concat n data (data.length / n) (Nat.mul_div_le _ _)]
  apply flatMap_congr_mem
  intro i hi
  exact import_attribute_dense_source n hn data d i (List.mem_range.mp hi)

/-! ### round 7: the thin wrappers `import_obj`, `import_off`, `import_tet`, `export_stl`, `import_stl` -/

/-- each text importer hands the lines of the file to ITS parser (and to no other), so it is the modelled reader of the format -/
theorem import_wrappers_source (cd : Codec C) (file : File) :
    C04Wrap.importObj cd file = importObj cd file ∧ C04Wrap.importOff cd file = importOff cd file ∧
    C04Wrap.importTet cd file = importTet cd file :=
  ⟨parse_obj_bridge cd file, parse_off_bridge cd file, parse_tet_bridge cd file⟩

/-- `export_stl` writes what a fresh `Binary_STL_Writer` writes: the modelled binary STL file -/
theorem export_stl_wrapper_source (cd : Codec C) (m : Raw C) : C04Wrap.exportStl cd m = exportStl cd m := export_stl_bridge cd m

/-- `import_stl` on a binary file: the vertices / faces returned by the external reader, as they are.  With the reader model of
`Model/IOStl.lean` (points merged, numbered in first-appearance order) this is `importStlMerged`; an ASCII file goes to `_import_stl_ascii` -/
theorem import_stl_wrapper_source [DecidableEq C] (cd : Codec C) (file : File) (a : Option (Raw C)) :
    C04Wrap.importStl false a ((stlSoup cd file).map (fun ts => mergeTris ts [])) = importStlMerged cd file ∧
    C04Wrap.importStl true a ((stlSoup cd file).map (fun ts => mergeTris ts [])) = a := by
  refine ⟨?_, rfl⟩
  unfold C04Wrap.importStl importStlMerged
  cases stlSoup cd file <;> rfl

/-! ### round 8: `geogram_ascii.py: export_attribute` and the chunk markers of `is_chunk_header` read from the source -/

/-- for a dense attribute `g` of the chunk model (container / name written between quotes, `dim * size` values): `export_attribute` writes
the header lines `[ATTR]`, "container", "name", "type", byte size, arity and then one datum per line, element by element and component
by component (bool as 0 / 1 through `int()`): exactly `chunkLines (attrChunk g)` of the hand model -/
theorem export_attribute_bridge (size : Nat) (cname aname : String) (g : Geo.GAttr)
    (hc : g.cont.name = "\"" ++ cname ++ "\"") (hn : g.name = "\"" ++ aname ++ "\"") (hl : g.vals.length = g.dim * size) :
    C04GW.exportAttribute size cname aname (viewOf g) = Geo.chunkLines (Geo.attrChunk g) :=
  exportAttribute_bridge size cname aname g hc hn hl

/-- a line starts a chunk exactly when it is one of the markers `is_chunk_header` tests for -/
theorem chunk_markers_bridge (s : String) : Geo.isHeader (.kw s) = C04GW.chunkMarkers.contains s := isHeader_markers s

/-! ### non-vacuity -/

private def demo : Raw Unit :=
  { verts := [((), (), ()), ((), (), ()), ((), (), ()), ((), (), ())], edges := [(0, 1), (1, 2), (0, 2), (2, 3)],
    faces := [[0, 1, 2], [0, 2, 3, 1]], cells := [[0, 1, 2, 3]], hard := some [3, 0] }
private def ucd : Codec Unit := { fmt := fun _ => "c", parse := fun _ => some (), r32 := id, zero := () }

example : HardOk demo := by
  intro k hk
  have : k = 3 ∨ k = 0 := by simpa [hardKeys, demo] using hk
  rcases this with rfl | rfl <;> decide
example : C04W.exportMedit ucd demo = exportMedit ucd demo ∧ (C04W.exportMedit ucd demo).length = 21 := by decide
example : C04W.exportObj ucd {} demo = [vLine ucd ((), (), ()), vLine ucd ((), (), ()), vLine ucd ((), (), ()), vLine ucd ((), (), ()),
    lLine (2, 3), lLine (0, 1), fLine [0, 1, 2], fLine [0, 2, 3, 1]] := by decide
example : (C04W.exportStl ucd demo).map List.length = some 4 ∧ C04W.countFaces demo = (1, 1, 0) := by decide
example : C04W.exportStl ucd { demo with faces := [[0, 1, 2, 3, 0]] } = none := by decide
example : C04R.parseTet ucd (C04W.exportTet ucd demo) = some (restrictTet demo) ∧ (restrictTet demo).cells = [[0, 1, 2, 3]] ∧
    C04R.importXyz ucd (C04W.exportXyz ucd demo) = some (restrictXyz demo) ∧ C04R.parseTet ucd [[Tok.int 1, Tok.kw "vertices"]] = none := by
  decide
example : C04R.parseObj ucd (C04W.exportObj ucd {} demo) = some (restrictObj {} demo) ∧ (restrictObj {} demo).faces = [[0, 1, 2], [0, 2, 3, 1]] ∧
    (C04R.parseOff ucd (C04W.exportOff ucd demo)).map (fun r => (r.faces, r.cells)) = some ([[0, 1, 2]], [[0, 2, 3, 1]]) ∧
    C04R.parseObj ucd [[Tok.kw "f", Tok.kw "1/2/3"]] = none ∧ C04R.parseOff ucd [[Tok.kw "COFF"], [Tok.int 0, Tok.int 0, Tok.int 0]] = none := by
  decide
example : C04R.importMedit ucd (C04W.exportMedit ucd demo) = some (restrictMedit demo) ∧ (restrictMedit demo).edges = [(2, 3), (0, 1)] ∧
    C04R.importMedit ucd [[Tok.kw "Triangles"], [Tok.int 2], [Tok.int 1, Tok.int 2, Tok.int 3, Tok.int 1]] = none ∧
    (C04R.importMedit ucd [[Tok.kw "End"], [Tok.kw "Triangles"], [Tok.int 5]]).map (·.faces) = some [] := by decide
example : C04G.load (some demo) dim (some 1) false = some (.mesh (some "VolumeMesh") demo) ∧
    (C04G.saveContent (some { cells := true }) demo).cells = [] ∧ (C04G.saveContent (some { cells := true }) demo).faces = demo.faces := by decide
example : (C04A.importAttribute 1 [0, 7, 5, 0] ({ dflt := 5 } : SAttr Nat)).rows = [(3, [0]), (1, [7]), (0, [0])] ∧
    (C04A.importAttribute 1 [0, 7, 5, 0] ({ dflt := 5 } : SAttr Nat)).get 1 2 = [5] ∧
    (C04A.importAttribute 2 [0, 0, 1, 2, 9] ({ dflt := 0 } : SAttr Nat)).get 2 0 = [0, 0] ∧
    (C04A.importAttribute 2 [0, 0, 1, 2, 9] ({ dflt := 0 } : SAttr Nat)).get 2 2 = [0, 0] := by decide
example : C04GW.exportAttribute 2 "GEO::Mesh::facets" "flag" (viewOf (Geo.GAttr.mk Geo.Cont.facets "\"flag\"" Geo.AType.bool 2 [.int 1, .int 0, .int 0, .int 1]))
    = [[.kw "[ATTR]"], [.kw "\"GEO::Mesh::facets\""], [.kw "\"flag\""], [.kw "\"bool\""], [.int 1], [.int 2], [.int 1], [.int 0], [.int 0], [.int 1]] := by
  decide
example : C04D.instantiate none (dim demo) = some "VolumeMesh" ∧ C04D.instantiate (some 2) 0 = some "SurfaceMesh" := by decide

end Mouette.Props.C04Source
