import Mouette.Props.C14Bisect
import Mouette.Lemmas.C14AngleR
import Mathlib.Tactic.Ring
import Mathlib.Tactic.Linarith
import Mathlib.Tactic.Positivity
/-!
# C14 (round 7) — the bisection of `ring` over ℝ: the hypothesis on `angle_3pts` discharged

`angle3ptsR` is the body of `geometry.angle_3pts` over ℝ (`atan2(|BA×BC|, BA·BC)`), the same value C12's translated body
`C12Prim.angle3` stands for. For the apex on the axis and two rim points of the unit circle it IS `arccos((c+z²)/(1+z²))`, and
`Real.arccos` is strictly decreasing on [−1, 1]: `ring_apex_defect_within_tolerance_real` has no hypothesis about the angle left.
-/
namespace Mouette.Props.C14
open Mouette.Generated.C14Verts Mouette.C14AngleR Mouette.Prim

/-- on rational points `angle3ptsR` is `atan2(√s², c)` of the pair C12's translated body of `angle_3pts` returns -/
theorem angle3ptsR_eq_source (A B C : V3) :
    angle3ptsR (castV A) (castV B) (castV C) =
      Complex.arg ⟨((Mouette.Generated.C12Prim.angle3 A B C).2 : ℝ), Real.sqrt ((Mouette.Generated.C12Prim.angle3 A B C).1 : ℝ)⟩ := by
  simp only [angle3ptsR, castV, Mouette.Generated.C12Prim.angle3, V3.norm2, V3.dot, V3.cross, V3.sub]
  push_cast
  congr 2
  congr 1
  ring

/-- `atan2(√E, d) = arccos(d / n)` when d² + E = n², n > 0 -/
theorem arg_eq_arccos (d E n : ℝ) (hn : 0 < n) (hE0 : 0 ≤ E) (hE : E = n ^ 2 - d ^ 2) :
    Complex.arg ⟨d, Real.sqrt E⟩ = Real.arccos (d / n) := by
  have hnorm : ‖(⟨d, Real.sqrt E⟩ : ℂ)‖ = n := by
    rw [Complex.norm_def, Complex.normSq_mk, Real.mul_self_sqrt hE0, hE]
    have : d * d + (n ^ 2 - d ^ 2) = n ^ 2 := by ring
    rw [this, Real.sqrt_sq hn.le]
  have hne : (⟨d, Real.sqrt E⟩ : ℂ) ≠ 0 := by
    intro h0; rw [h0, norm_zero] at hnorm; linarith
  rw [Complex.arg_of_im_nonneg_of_ne_zero (Real.sqrt_nonneg E) hne, hnorm]

/-- the apex angle seen from height z: `angle_3pts((1,0,0), (0,0,z), (c,s,0)) = arccos((c+z²)/(1+z²))` -/
theorem angle3ptsR_apex (c s z : ℝ) (h : c ^ 2 + s ^ 2 = 1) :
    angle3ptsR (1, 0, 0) (0, 0, z) (c, s, 0) = Real.arccos ((c + z ^ 2) / (1 + z ^ 2)) := by
  have hn : (0 : ℝ) < 1 + z ^ 2 := by positivity
  have key := arg_eq_arccos (c + z ^ 2) ((z * s) * (z * s) + (z * (1 - c)) * (z * (1 - c)) + s * s) (1 + z ^ 2) hn
    (by nlinarith [mul_self_nonneg (z * s), mul_self_nonneg (z * (1 - c)), mul_self_nonneg s])
    (by linear_combination (z ^ 2 + 1) * h)
  rw [← key]
  unfold angle3ptsR
  simp only []
  congr 2
  · ring
  · congr 1; ring

/-- **the apex of `ring` has the requested defect within the stopping tolerance — over ℝ, no hypothesis on the angle left**: rim
points A = (1,0,0), B = (c,s,0) on the unit circle with c < 1 (N ≥ 2: B ≠ A), `angle_3pts` = its source body over ℝ. In the stop
state (bracket on the axis, request bracketed, `|dfct P1 − dfct P2| < tol`) the returned apex meets the request within `tol`.
Still outside: float rounding; termination of the extension phase (`ring_bisect_terminates_partial` covers the bracketed phase). -/
theorem ring_apex_defect_within_tolerance_real (c s tol defect : ℝ) (N : Nat) (P1 P2 : ℝ × ℝ × ℝ)
    (h : c ^ 2 + s ^ 2 = 1) (hc : c < 1)
    (h1 : P1.1 = 0 ∧ P1.2.1 = 0) (h2 : P2.1 = 0 ∧ P2.2.1 = 0) (h0 : 0 ≤ P1.2.2) (h12 : P1.2.2 ≤ P2.2.2)
    (hb1 : 2 * Real.pi - (N : ℝ) * angle3ptsR (1, 0, 0) P1 (c, s, 0) ≤ defect)
    (hb2 : defect ≤ 2 * Real.pi - (N : ℝ) * angle3ptsR (1, 0, 0) P2 (c, s, 0))
    (hstop : |(2 * Real.pi - (N : ℝ) * angle3ptsR (1, 0, 0) P1 (c, s, 0)) -
      (2 * Real.pi - (N : ℝ) * angle3ptsR (1, 0, 0) P2 (c, s, 0))| < tol) :
    |(2 * Real.pi - (N : ℝ) * angle3ptsR (1, 0, 0) (ringApex P1 P2) (c, s, 0)) - defect| < tol := by
  have hc1 : -1 ≤ c := by nlinarith [sq_nonneg s, sq_nonneg (c + 1)]
  exact ring_apex_defect_within_tolerance_partial Real.pi c tol defect N Real.arccos angle3ptsR (1, 0, 0) (c, s, 0) P1 P2
    (fun x y hx hxy hy => Real.strictAntiOn_arccos ⟨hx, by linarith⟩ ⟨by linarith, hy⟩ hxy) hc1 hc
    (fun z _ => angle3ptsR_apex c s z h) h1 h2 h0 h12 hb1 hb2 hstop

end Mouette.Props.C14
