import Mouette.Lemmas.AttrSourceRun
import Mouette.Props.C05Source
import Mouette.Props.C05
/-
C05 round 5 — the history theorems about the TRANSLATED code, end to end: a script executed by the source-level step machine
`srcRun` (Lemmas/AttrSourceRun.lean: every operation is carried out by the definitions of Generated/C05Src.lean, the way the
harness drives the library) gives, operation by operation, the observations and — through the abstraction `toState` — the states
of the hand model `Attr.run`; hence `dense_refines`, `sparse_refines`, `sparse_dense_agree`, `growth_aligned`, … hold for it.
-/
namespace Mouette.Props.C05SourceRun
open Mouette.Attr Mouette.AttrSrc Mouette.Generated.C05Src Mouette.Props.C05Source
set_option linter.unusedSimpArgs false
set_option linter.unusedVariables false

/-- the source-level state as the model sees it -/
def absSt (nm : String) (st : SrcSt) : State := toState st.1 st.2 nm

theorem getAttribute_none {c : Cont} (nm : String) (h : Heap) (hc : c.attr = []) : getAttribute nm h c = .error .noAttr := by
  simp [getAttribute, attrMem, hc]

theorem getAttribute_some {c : Cont} (nm : String) (h : Heap) (a : Self) (hc : c.attr = [(nm, a)]) :
    getAttribute nm h c = .ok (a, h, c) := by
  simp [getAttribute, attrMem, attrGet, hc]

theorem toState_putBack (h' : Heap) (c : Cont) (nm : String) (a a' : Self) (hc : c.attr = [(nm, a)]) :
    toState h' (putBack c nm a') nm = { heap := h', size := c.data.length, attr := some a'.toAttr } ∧
    (putBack c nm a').attr = [(nm, a')] := by
  simp [toState, putBack, attrSet, hc]

/-- what one step must establish -/
def StepOk (dense : Bool) (nm : String) (st : SrcSt) (op : Op) : Prop :=
  absSt nm (srcStep dense nm st op).1 = (step dense (absSt nm st) op).1 ∧
  (srcStep dense nm st op).2 = (step dense (absSt nm st) op).2 ∧
  Good dense nm (srcStep dense nm st op).1.2

theorem good_putBack (dense : Bool) (nm : String) (c : Cont) (a a' : Self) (hc : c.attr = [(nm, a)]) (hok : ClsOk a')
    (hcls : a'.cls = (if dense then Cls.dense else Cls.sparse)) (hk : 1 ≤ a'.elemsize) : Good dense nm (putBack c nm a') :=
  Or.inr ⟨a', (toState_putBack [] c nm a a' hc).2, hok, hcls, hk⟩

theorem step_set (dense : Bool) (nm : String) (h : Heap) (c : Cont) (a : Self) (hc : c.attr = [(nm, a)]) (hok : ClsOk a)
    (hcls : a.cls = (if dense then Cls.dense else Cls.sparse)) (hk : 1 ≤ a.elemsize) (i : Int) (v : InVal) :
    StepOk dense nm (h, c) (.set i v) := by
  have hattr : (toState h c nm).attr = some a.toAttr := by simp [toState, hc]
  unfold StepOk absSt
  simp only [srcStep, getAttribute_some nm h a hc, step, hattr]
  rcases hok with ⟨hd1, r, hdat⟩ | ⟨hs1, d, hdat⟩
  · -- dense
    have hdisp : dispSet i v h a = denseSetitem i v h a := by simp [dispSet, hd1]
    simp only [hdisp, denseSetitem_exact a r hdat, boundsFail, toAttr_dense hdat]
    cases hg : oobGuard i a.nElem with
    | true => simp only [if_true]; exact ⟨by first | trivial | rfl, by first | trivial | rfl, Or.inr ⟨a, hc, Or.inl ⟨hd1, r, hdat⟩, hcls, hk⟩⟩
    | false =>
      simp only [Bool.false_eq_true, if_false]
      have hty : a.toAttr.ty = a.type := rfl
      have hkk : a.toAttr.k = a.elemsize := rfl
      rw [hty, hkk]
      cases hcv : checkVal a.type a.elemsize v with
      | error e => exact ⟨by first | trivial | rfl, by first | trivial | rfl, Or.inr ⟨a, hc, Or.inl ⟨hd1, r, hdat⟩, hcls, hk⟩⟩
      | ok val =>
        simp only [put, toAttr_dense hdat, hg, Bool.false_eq_true, if_false]
        refine ⟨?_, by first | trivial | rfl, good_putBack dense nm c a a hc (Or.inl ⟨hd1, r, hdat⟩) hcls hk⟩
        rw [(toState_putBack _ c nm a a hc).1]
        simp [toState, rowStore]
  · -- sparse
    have hdisp : dispSet i v h a = sparseSetitem i v h a := by simp [dispSet, hs1]
    simp only [hdisp, sparseSetitem_exact a d hdat, boundsFail, toAttr_sparse hdat]
    have hty : a.toAttr.ty = a.type := rfl
    have hkk : a.toAttr.k = a.elemsize := rfl
    rw [hty, hkk]
    cases hcv : checkVal a.type a.elemsize v with
    | error e => exact ⟨by first | trivial | rfl, by first | trivial | rfl, Or.inr ⟨a, hc, Or.inr ⟨hs1, d, hdat⟩, hcls, hk⟩⟩
    | ok val =>
      simp only [put, toAttr_sparse hdat]
      refine ⟨?_, by first | trivial | rfl, good_putBack dense nm c a _ hc (Or.inr ⟨hs1, _, rfl⟩) hcls hk⟩
      rw [(toState_putBack _ c nm a _ hc).1]
      simp [toState, Self.toAttr, Self.dflt]

/-- `a[i]` through the class of the object, against the model's `get` on ANY model state with the same heap -/
theorem dispGet_spec (a : Self) (hok : ClsOk a) (hk : 1 ≤ a.elemsize) (s : State) (i : Int) :
    (∃ e, dispGet i s.heap a = .error e ∧ Attr.get s a.toAttr i = .error e) ∨
    (∃ res s' hdl v, dispGet i s.heap a = .ok (res, s'.heap, a) ∧ Attr.get s a.toAttr i = .ok (s', hdl, v) ∧
      res.val s'.heap = v ∧ (1 < a.elemsize → res = .obj hdl) ∧ s'.size = s.size ∧ s'.attr = s.attr) := by
  rcases hok with ⟨hd1, r, hdat⟩ | ⟨hs1, d, hdat⟩
  · have hdisp : dispGet i s.heap a = denseGetitem i s.heap a := by simp [dispGet, hd1]
    rw [hdisp, denseGetitem_bridge a r hdat s i]
    unfold Attr.get
    rw [toAttr_dense hdat]
    cases hg : oobGuard i a.nElem with
    | true => left; exact ⟨.oob, by simp [hg], by simp [hg]⟩
    | false =>
      right
      refine ⟨(if a.elemsize = 1 then .byValue ((cellMat s.heap r).getD i.toNat []) else .obj (.row r i.toNat)), s, .row r i.toNat,
        (cellMat s.heap r).getD i.toNat [], by simp [hg], by simp [hg], ?_, ?_, rfl, rfl⟩
      · by_cases h1 : a.elemsize = 1 <;> simp [h1, Res.val]
      · intro h1; have : ¬ a.elemsize = 1 := by omega
        simp [this]
  · have hdisp : dispGet i s.heap a = sparseGetitem i s.heap a := by simp [dispGet, hs1]
    rw [hdisp, sparseGetitem_bridge a d hdat hk s i]
    unfold Attr.get
    rw [toAttr_sparse hdat]
    right
    cases hl : d.lookup i with
    | some r0 => exact ⟨.obj (.whole r0), s, .whole r0, cellVec s.heap r0, by simp [hl], by simp [hl], rfl, fun _ => rfl, rfl, rfl⟩
    | none =>
      refine ⟨.obj (.whole s.heap.length), { s with heap := s.heap ++ [.vec a.toAttr.dfltRow] }, .whole s.heap.length, a.toAttr.dfltRow,
        by simp [hl], by simp [hl], ?_, fun _ => rfl, rfl, rfl⟩
      simp [Res.val, cellVec_new]

theorem step_get (dense : Bool) (nm : String) (h : Heap) (c : Cont) (a : Self) (hc : c.attr = [(nm, a)]) (hok : ClsOk a)
    (hcls : a.cls = (if dense then Cls.dense else Cls.sparse)) (hk : 1 ≤ a.elemsize) (i : Int) :
    StepOk dense nm (h, c) (.get i) := by
  have hattr : (toState h c nm).attr = some a.toAttr := by simp [toState, hc]
  have hgood : Good dense nm (putBack c nm a) := good_putBack dense nm c a a hc hok hcls hk
  unfold StepOk absSt
  simp only [srcStep, getAttribute_some nm h a hc, step, hattr]
  rcases dispGet_spec a hok hk (toState h c nm) i with ⟨e, h1, h2⟩ | ⟨res, s', hdl, v, h1, h2, h3, h4, h5, h6⟩
  · have h1' : dispGet i h a = .error e := h1
    rw [h1', h2]
    exact ⟨by first | trivial | rfl, by first | trivial | rfl, Or.inr ⟨a, hc, hok, hcls, hk⟩⟩
  · have h1' : dispGet i h a = .ok (res, s'.heap, a) := h1
    rw [h1', h2]
    refine ⟨?_, by simp [h3], hgood⟩
    simp only
    rw [(toState_putBack _ c nm a a hc).1]
    cases s' with
    | mk hp sz att =>
      simp only at h5 h6
      simp [h5, h6, toState, hc]

theorem step_upd (dense : Bool) (nm : String) (h : Heap) (c : Cont) (a : Self) (hc : c.attr = [(nm, a)]) (hok : ClsOk a)
    (hcls : a.cls = (if dense then Cls.dense else Cls.sparse)) (hk : 1 ≤ a.elemsize) (i : Int) (cx : Nat) (x : Scalar) :
    StepOk dense nm (h, c) (.upd i cx x) := by
  have hattr : (toState h c nm).attr = some a.toAttr := by simp [toState, hc]
  have hgood : Good dense nm (putBack c nm a) := good_putBack dense nm c a a hc hok hcls hk
  have hkk : a.toAttr.k = a.elemsize := rfl
  unfold StepOk absSt
  simp only [srcStep, getAttribute_some nm h a hc, step, hattr]
  rcases dispGet_spec a hok hk (toState h c nm) i with ⟨e, h1, h2⟩ | ⟨res, s', hdl, v, h1, h2, h3, h4, h5, h6⟩
  · have h1' : dispGet i h a = .error e := h1
    rw [h1', h2]
    exact ⟨by first | trivial | rfl, by first | trivial | rfl, Or.inr ⟨a, hc, hok, hcls, hk⟩⟩
  · have h1' : dispGet i h a = .ok (res, s'.heap, a) := h1
    rw [h1', h2]
    simp only [hkk]
    cases s' with
    | mk hp sz att =>
      simp only at h5 h6 h4 h3 ⊢
      by_cases hgt : a.elemsize > 1
      · have hres := h4 hgt
        subst hres
        simp only [hgt, if_true]
        by_cases hcx : cx < a.elemsize
        · simp only [hcx, if_true]
          refine ⟨?_, trivial, hgood⟩
          rw [(toState_putBack _ c nm a a hc).1]
          simp [h5, h6, toState, hc]
        · simp only [hcx, if_false]
          refine ⟨?_, trivial, hgood⟩
          rw [(toState_putBack _ c nm a a hc).1]
          simp [h5, h6, toState, hc]
      · simp only [hgt, if_false]
        refine ⟨?_, trivial, hgood⟩
        rw [(toState_putBack _ c nm a a hc).1]
        simp [h5, h6, toState, hc]

theorem step_clear (dense : Bool) (nm : String) (h : Heap) (c : Cont) (a : Self) (hc : c.attr = [(nm, a)]) (hok : ClsOk a)
    (hcls : a.cls = (if dense then Cls.dense else Cls.sparse)) (hk : 1 ≤ a.elemsize) :
    StepOk dense nm (h, c) .clear := by
  have hattr : (toState h c nm).attr = some a.toAttr := by simp [toState, hc]
  unfold StepOk absSt
  simp only [srcStep, getAttribute_some nm h a hc, step, hattr]
  rcases hok with ⟨hd1, r, hdat⟩ | ⟨hs1, d, hdat⟩
  · have hdisp : dispClear h a = .ok ((), h ++ [.mat (List.replicate a.nElem a.toAttr.dfltRow)], { a with data := .array h.length }) := by
      simp [dispClear, hd1, denseClear, allocMat, npFull_default]
    rw [hdisp]
    simp only [clearAttr, toAttr_dense hdat]
    refine ⟨?_, by first | trivial | rfl, good_putBack dense nm c a _ hc (Or.inl ⟨hd1, _, rfl⟩) hcls hk⟩
    rw [(toState_putBack _ c nm a _ hc).1]
    simp [toState, Self.toAttr, Self.dflt]
  · have hdisp : dispClear h a = .ok ((), h, { a with data := .dict [] }) := by simp [dispClear, hs1, sparseClear]
    rw [hdisp]
    simp only [clearAttr, toAttr_sparse hdat]
    refine ⟨?_, by first | trivial | rfl, good_putBack dense nm c a _ hc (Or.inr ⟨hs1, _, rfl⟩) hcls hk⟩
    rw [(toState_putBack _ c nm a _ hc).1]
    simp [toState, Self.toAttr, Self.dflt]

theorem step_asArray (dense : Bool) (nm : String) (h : Heap) (c : Cont) (a : Self) (hc : c.attr = [(nm, a)]) (hok : ClsOk a)
    (hcls : a.cls = (if dense then Cls.dense else Cls.sparse)) (hk : 1 ≤ a.elemsize) :
    StepOk dense nm (h, c) .asArray := by
  have hattr : (toState h c nm).attr = some a.toAttr := by simp [toState, hc]
  have hgood : Good dense nm (putBack c nm a) := good_putBack dense nm c a a hc hok hcls hk
  have hsame : toState h (putBack c nm a) nm = toState h c nm := by
    rw [(toState_putBack h c nm a a hc).1]; simp [toState, hc]
  unfold StepOk absSt
  simp only [srcStep, getAttribute_some nm h a hc, step, hattr]
  rcases hok with ⟨hd1, r, hdat⟩ | ⟨hs1, d, hdat⟩
  · have hdisp : dispAsArray (contLen c) h a = .ok (denseAsArray h a, h, a) := by simp [dispAsArray, hd1]
    rw [hdisp]
    simp only [asArray, toAttr_dense hdat]
    exact ⟨hsame, by simp [denseAsArray, hdat, Data.asRef, toState], hgood⟩
  · have hdisp : dispAsArray (contLen c) h a = sparseAsArray c.data.length h a := by simp [dispAsArray, hs1, contLen]
    rw [hdisp, sparseAsArray_exact a d hdat h]
    simp only [asArray, toAttr_sparse hdat]
    have hsz : (toState h c nm).size = c.data.length := rfl
    have hhp : (toState h c nm).heap = h := rfl
    rw [hsz, hhp]
    cases hsa : sparseArray h c.data.length a.toAttr.dfltRow d (List.replicate c.data.length a.toAttr.dfltRow) with
    | error e => exact ⟨by first | trivial | rfl, by first | trivial | rfl, Or.inr ⟨a, hc, Or.inr ⟨hs1, d, hdat⟩, hcls, hk⟩⟩
    | ok rows => exact ⟨hsame, by first | trivial | rfl, hgood⟩

/-- an attribute operation on a container without the attribute: `get_attribute` raises, nothing changes -/
theorem step_noattr (dense : Bool) (nm : String) (h : Heap) (c : Cont) (hc : c.attr = []) (op : Op) (hop : op.isCont = false)
    (hcr : ∀ ty k d, op ≠ .create ty k d) (hdel : op ≠ .delete) : StepOk dense nm (h, c) op := by
  have hattr : (toState h c nm).attr = none := by simp [toState, hc]
  unfold StepOk absSt
  cases op with
  | create ty k d => exact absurd rfl (hcr ty k d)
  | delete => exact absurd rfl hdel
  | cclear => simp [Op.isCont] at hop
  | append => simp [Op.isCont] at hop
  | extendList n => simp [Op.isCont] at hop
  | extendCont m => simp [Op.isCont] at hop
  | extendSelf => simp [Op.isCont] at hop
  | set i v => simp only [srcStep, getAttribute_none nm h hc, step, hattr]; exact ⟨trivial, trivial, Or.inl hc⟩
  | get i => simp only [srcStep, getAttribute_none nm h hc, step, hattr]; exact ⟨trivial, trivial, Or.inl hc⟩
  | upd i cx x => simp only [srcStep, getAttribute_none nm h hc, step, hattr]; exact ⟨trivial, trivial, Or.inl hc⟩
  | clear => simp only [srcStep, getAttribute_none nm h hc, step, hattr]; exact ⟨trivial, trivial, Or.inl hc⟩
  | asArray => simp only [srcStep, getAttribute_none nm h hc, step, hattr]; exact ⟨trivial, trivial, Or.inl hc⟩

theorem cont_eta (c : Cont) : c = { data := c.data, attr := c.attr, id := c.id } := by cases c; rfl

/-- the attribute object built by `create_attribute` as written: class tag, storage kind and arity as asked -/
theorem createAttribute_good (dense : Bool) (nm : String) (ty : Ty) (k : Nat) (dv : Option Scalar) (h : Heap) (c : Cont)
    (hk : 1 ≤ k) (hc : c.attr = [] ∨ ∃ a, c.attr = [(nm, a)]) :
    match createAttribute false nm ty k dense dv none h c with
    | .ok (_, _, c') => Good dense nm c'
    | .error _ => True := by
  have hset : ∀ a', attrSet c.attr nm a' = [(nm, a')] := by
    intro a'
    rcases hc with h0 | ⟨a0, h1⟩
    · simp [h0, attrSet]
    · simp [h1, attrSet]
  unfold createAttribute
  simp only [Bool.and_false, Bool.false_eq_true, if_false, Option.isNone_none, if_true, contLen]
  cases dense with
  | true =>
    simp only [if_true, denseInit, checkDefaultValueType]
    cases dv with
    | none => simp [hset, AttrSrc.Good, ClsOk, allocMat, hk]
    | some x =>
      by_cases hx : x.ty = ty
      · simp [hset, AttrSrc.Good, ClsOk, allocMat, hk, pyTypeO, attrType, hx]
      · simp [pyTypeO, attrType, hx]
  | false =>
    simp only [Bool.false_eq_true, if_false, sparseInit, checkDefaultValueType]
    cases dv with
    | none => simp [hset, AttrSrc.Good, ClsOk, hk, attrSet]
    | some x =>
      by_cases hx : x.ty = ty
      · simp [hset, AttrSrc.Good, ClsOk, hk, pyTypeO, attrType, hx]
      · simp [pyTypeO, attrType, hx]

theorem good_single {dense : Bool} {nm : String} {c : Cont} (hg : Good dense nm c) : c.attr = [] ∨ ∃ a, c.attr = [(nm, a)] := by
  rcases hg with h0 | ⟨a, h1, _⟩
  · exact Or.inl h0
  · exact Or.inr ⟨a, h1⟩

theorem step_create (dense : Bool) (nm : String) (h : Heap) (c : Cont) (hg : Good dense nm c) (ty : Ty) (k : Nat) (dv : Option Scalar)
    (hk : 1 ≤ k) : StepOk dense nm (h, c) (.create ty k dv) := by
  have hb := createAttribute_bridge dense h c nm (good_single hg) ty k dv
  have hgd := createAttribute_good dense nm ty k dv h c hk (good_single hg)
  unfold StepOk absSt
  simp only [srcStep]
  cases hr : createAttribute false nm ty k dense dv none h c with
  | error e =>
    rw [hr] at hb
    simp only [contObs]
    exact ⟨by rw [← hb], by rw [← hb], hg⟩
  | ok p =>
    obtain ⟨u, h', c'⟩ := p
    rw [hr] at hb hgd
    simp only [contObs]
    exact ⟨by rw [← hb], by rw [← hb], hgd⟩

theorem step_delete (dense : Bool) (nm : String) (h : Heap) (c : Cont) (hg : Good dense nm c) : StepOk dense nm (h, c) .delete := by
  unfold StepOk absSt
  simp only [srcStep, deleteAttribute]
  rcases hg with h0 | ⟨a, h1, _⟩
  · simp [h0, attrMem, contObs, toState, step, AttrSrc.Good]
  · simp [h1, attrMem, attrDel, contObs, toState, step, AttrSrc.Good]

theorem step_cclear (dense : Bool) (nm : String) (h : Heap) (c : Cont) : StepOk dense nm (h, c) .cclear := by
  unfold StepOk absSt
  simp [srcStep, contClear, contObs, toState, step, AttrSrc.Good]

/-- `_expand` through the class of the object keeps class tag, storage kind and arity -/
theorem dispatchExpand_good (n : Nat) (h : Heap) (a : Self) (hok : ClsOk a) :
    ∃ h' a', dispatchExpand n h a = .ok ((), h', a') ∧ ClsOk a' ∧ a'.cls = a.cls ∧ a'.elemsize = a.elemsize := by
  rcases hok with ⟨hd1, r, hdat⟩ | ⟨hs1, d, hdat⟩
  · refine ⟨h ++ [Cell.mat (cellMat h a.data.asRef ++ npFull n a.elemsize (defaultValue a))],
      { a with data := .array h.length, nElem := n + a.nElem }, ?_, Or.inl ⟨hd1, h.length, rfl⟩, rfl, rfl⟩
    simp [dispatchExpand, hd1, denseExpand, allocMat]
  · exact ⟨h, a, by simp [dispatchExpand, hs1, sparseExpand], Or.inr ⟨hs1, d, hdat⟩, rfl, rfl⟩

/-- growth of a container holding the attribute: concrete result of the translated loop -/
theorem grow_some (dense : Bool) (nm : String) (h : Heap) (c : Cont) (a : Self) (hc : c.attr = [(nm, a)]) (hok : ClsOk a)
    (hcls : a.cls = (if dense then Cls.dense else Cls.sparse)) (hk : 1 ≤ a.elemsize) (extra : List Nat) :
    ∃ h' c', (match forAttrs h [(nm, a)] (dispatchExpand extra.length) with
        | .error e => Except.error e
        | .ok t1 => (Except.ok ((), t1.1, ({ c with data := c.data ++ extra, attr := t1.2 } : Cont)) : Except Err (Unit × Heap × Cont)))
        = .ok ((), h', c') ∧ Good dense nm c' ∧ toState h' c' nm = grow (toState h c nm) extra.length := by
  obtain ⟨h', a', e1, e2, e3, e4⟩ := dispatchExpand_good extra.length h a hok
  have hb := toState_grow h c.data nm a hok extra
  have hres : (match forAttrs h [(nm, a)] (dispatchExpand extra.length) with
        | .error e => Except.error e
        | .ok t1 => (Except.ok ((), t1.1, ({ c with data := c.data ++ extra, attr := t1.2 } : Cont)) : Except Err (Unit × Heap × Cont)))
        = .ok ((), h', { c with data := c.data ++ extra, attr := [(nm, a')] }) := by
    simp [forAttrs, e1]
  refine ⟨h', _, hres, Or.inr ⟨a', rfl, e2, by rw [e3]; exact hcls, by rw [e4]; exact hk⟩, ?_⟩
  simp only [forAttrs, e1, absC, Except.ok.injEq] at hb
  have hid : toState h' { c with data := c.data ++ extra, attr := [(nm, a')] } nm =
      toState h' { data := c.data ++ extra, attr := [(nm, a')] } nm := rfl
  rw [hid, hb]
  congr 1
  simp [toState, hc]

theorem step_grow (dense : Bool) (nm : String) (h : Heap) (c : Cont) (hg : Good dense nm c) (op : Op)
    (hop : op = .append ∨ (∃ n, op = .extendList n) ∨ (∃ m, op = .extendCont m) ∨ op = .extendSelf) :
    StepOk dense nm (h, c) op := by
  have hlist : ∀ k l, ((Other.seq k l).isA .list || (Other.seq k l).isA .tuple || (Other.seq k l).isA .set) = true := by
    intro k l; cases k <;> simp [Other.isA]
  unfold StepOk absSt
  rcases hg with h0 | ⟨a, h1, hok, hcls, hk⟩
  · -- no attribute: only the element list grows
    have hattr : (toState h c nm).attr = none := by simp [toState, h0]
    rcases hop with rfl | ⟨n, rfl⟩ | ⟨m, rfl⟩ | rfl
    · simp [srcStep, contAppend, h0, forAttrs, contObs, toState, step, grow, AttrSrc.Good]
    · simp [srcStep, contIadd, hlist, Other.elems, h0, forAttrs, contObs, toState, step, grow, AttrSrc.Good]
    · simp [srcStep, contIadd, Other.isA, Other.isCont, Other.dataOf, h0, forAttrs, contObs, toState, step, grow, AttrSrc.Good]
    · simp [srcStep, contIadd, Other.isA, Other.isCont, Other.dataOf, h0, forAttrs, contObs, toState, step, grow, AttrSrc.Good]
  · rcases hop with rfl | ⟨n, rfl⟩ | ⟨m, rfl⟩ | rfl
    · obtain ⟨h', c', e1, e2, e3⟩ := grow_some dense nm h c a h1 hok hcls hk [0]
      have : contAppend 0 h c = .ok ((), h', c') := by
        unfold contAppend; simp only [h1]; exact e1
      simp only [srcStep, this, contObs, step]
      exact ⟨e3, trivial, e2⟩
    · obtain ⟨h', c', e1, e2, e3⟩ := grow_some dense nm h c a h1 hok hcls hk (List.replicate n 0)
      have : contIadd (.seq .list (List.replicate n 0)) h c = .ok ((), h', c') := by
        unfold contIadd; simp only [hlist, if_true, Other.elems, h1]; exact e1
      simp only [srcStep, this, contObs, step]
      exact ⟨by simpa using e3, trivial, e2⟩
    · obtain ⟨h', c', e1, e2, e3⟩ := grow_some dense nm h c a h1 hok hcls hk (List.replicate m 0)
      have : contIadd (.cont (List.replicate m 0)) h c = .ok ((), h', c') := by
        unfold contIadd
        simp only [Other.isA, Bool.or_self, Bool.false_eq_true, if_false, Other.isCont, if_true, Other.dataOf, h1]; exact e1
      simp only [srcStep, this, contObs, step]
      exact ⟨by simpa using e3, trivial, e2⟩
    · obtain ⟨h', c', e1, e2, e3⟩ := grow_some dense nm h c a h1 hok hcls hk c.data
      have : contIadd .me h c = .ok ((), h', c') := by
        unfold contIadd
        simp only [Other.isA, Bool.or_self, Bool.false_eq_true, if_false, Other.isCont, if_true, Other.dataOf, h1]; exact e1
      simp only [srcStep, this, contObs, step]
      exact ⟨by simpa [toState] using e3, trivial, e2⟩

/-- the result of `register_array_as_attribute` on a well-shaped array -/
def RegOk (nm : String) (a : ArrIn) (dv : Option Scalar) (h : Heap) (c : Cont) (k : Nat) (slf : Self) (h' : Heap) (c' : Cont) : Prop :=
  c'.attr = [(nm, slf)] ∧ c'.data = c.data ∧
  slf.cls = .dense ∧ slf.type = a.ty ∧ slf.elemsize = k ∧ slf.nElem = c.data.length ∧ slf.dv = dv ∧
  (∃ r, slf.data = .array r ∧
    cellMat h' r = (if a.exact then a.rows h else (a.rows h).map (fun row => row.map (castTo a.ty)))) ∧
  (∀ q, q < h.length → h'[q]? = h[q]?) ∧ Good true nm c'

theorem registerArray_spec2 (w : Bool) (nm : String) (a : ArrIn) (dv : Option Scalar) (h : Heap) (c : Cont)
    (hc : c.attr = [] ∨ ∃ a0, c.attr = [(nm, a0)]) (h2 : a.ndim = 2) (hk : 1 ≤ a.k)
    (hrows : (a.rows h).length = c.data.length) (href : a.ref < h.length) (hdv : ∀ x, dv = some x → x.ty = a.ty) :
    ∃ slf h' c', registerArray w nm a dv h c = .ok (slf, h', c') ∧ RegOk nm a dv h c a.k slf h' c' := by
  have hset : ∀ a', attrSet c.attr nm a' = [(nm, a')] := by
    intro a'
    rcases hc with h0 | ⟨a0, h1⟩
    · simp [h0, attrSet]
    · simp [h1, attrSet]
  have hchk : ∀ (k n : Nat), checkDefaultValueType h { cls := .dense, type := a.ty, elemsize := k, dv := dv, nElem := n } =
      .ok ((), h, { cls := .dense, type := a.ty, elemsize := k, dv := dv, nElem := n }) := by
    intro k n
    unfold checkDefaultValueType
    cases hd : dv with
    | none => simp
    | some x => simp [pyTypeO, attrType, hdv x hd]
  have hfr : ∀ (cell : Cell) q, q < h.length → (h ++ [cell])[q]? = h[q]? := fun cell q hq => List.getElem?_append_left hq
  have hfr2 : ∀ (c1 c2 : Cell) q, q < h.length → ((h ++ [c1]) ++ [c2])[q]? = h[q]? := by
    intro c1 c2 q hq
    rw [List.getElem?_append_left (by simp; omega), List.getElem?_append_left hq]
  have hcm1 : ∀ (c1 : Cell), cellMat (h ++ [c1]) a.ref = cellMat h a.ref := by
    intro c1; unfold cellMat; rw [hfr c1 a.ref href]
  have hcm2 : ∀ (c1 : Cell) (m : List Val), cellMat (h ++ [c1, Cell.mat m]) (h.length + 1) = m := by
    intro c1 m
    have : h ++ [c1, Cell.mat m] = (h ++ [c1]) ++ [Cell.mat m] := by simp
    rw [this]
    have hl : (h ++ [c1]).length = h.length + 1 := by simp
    rw [← hl]; exact cellMat_new _ _
  have hfr2' : ∀ (c1 c2 : Cell) q, q < h.length → (h ++ [c1, c2])[q]? = h[q]? := fun c1 c2 q hq => List.getElem?_append_left hq
  have hne : ¬ a.ndim = 1 := by omega
  have hs1 : a.shape1? = some a.k := by simp [ArrIn.shape1?, h2]
  have hs0 : a.shape0 h = c.data.length := by simpa [ArrIn.shape0] using hrows
  unfold RegOk
  by_cases hex : a.exact = true
  ·
    cases hr : registerArray w nm a dv h c with
    | error e =>
      unfold registerArray at hr
      simp [hne, decide_false, Bool.false_eq_true, if_false, hs1, hs0, contLen, Bool.not_true, ite_self, denseInit, hchk, allocMat, hset, attrGet, List.lookup, beq_self_eq_true, Option.getD_some, astypeNoCopy, decide_true, if_true, hex] at hr
    | ok p =>
      obtain ⟨slf, h', c'⟩ := p
      unfold registerArray at hr
      simp only [hne, decide_false, Bool.false_eq_true, if_false, hs1, hs0, contLen, Bool.not_true, ite_self, denseInit, hchk, allocMat, hset, attrGet, List.lookup, beq_self_eq_true, Option.getD_some, astypeNoCopy, decide_true, if_true, hex, Bool.true_and, Except.ok.injEq, Prod.mk.injEq] at hr
      obtain ⟨e1, e2, e3⟩ := hr
      subst e1 e2 e3
      refine ⟨_, _, _, rfl, ?_⟩
      simp [hex, Data.asRef, ArrIn.rows, hcm1, hfr, AttrSrc.Good, ClsOk, hk, attrSet]
      exact fun q hq => hfr _ q hq
  · have hex' : a.exact = false := by simpa using hex
    cases hr : registerArray w nm a dv h c with
    | error e =>
      unfold registerArray at hr
      simp [hne, decide_false, Bool.false_eq_true, if_false, hs1, hs0, contLen, Bool.not_true, ite_self, denseInit, hchk, allocMat, hset, attrGet, List.lookup, beq_self_eq_true, Option.getD_some, astypeNoCopy, decide_true, if_true, hex'] at hr
    | ok p =>
      obtain ⟨slf, h', c'⟩ := p
      unfold registerArray at hr
      simp only [hne, decide_false, Bool.false_eq_true, if_false, hs1, hs0, contLen, Bool.not_true, ite_self, denseInit, hchk, allocMat, hset, attrGet, List.lookup, beq_self_eq_true, Option.getD_some, astypeNoCopy, decide_true, if_true, hex', Bool.false_and, Except.ok.injEq, Prod.mk.injEq] at hr
      obtain ⟨e1, e2, e3⟩ := hr
      subst e1 e2 e3
      refine ⟨_, _, _, rfl, ?_⟩
      simp [hex', Data.asRef, ArrIn.rows, hcm1, hfr2, AttrSrc.Good, ClsOk, cellMat_new, hk, attrSet]
      exact ⟨hcm2 _ _, fun q hq => hfr2' _ _ q hq⟩

/-- a 1-D array is registered as the same object seen with one more axis of length 1 -/
theorem registerArray_newaxis (w : Bool) (nm : String) (a : ArrIn) (dv : Option Scalar) (h : Heap) (c : Cont) (h1 : a.ndim = 1) :
    registerArray w nm a dv h c = registerArray w nm a.newaxis dv h c := by
  have hn : ¬ a.newaxis.ndim = 1 := by simp [ArrIn.newaxis, h1]
  unfold registerArray
  simp only [h1, hn, decide_true, decide_false, if_true, Bool.false_eq_true, if_false]

/-- `register_array_as_attribute` as written (repaired), on a well-shaped array `(n,)` or `(n,k)` with `n = len(container)` and a default
of the array's type (or none): whatever the duplicate-warning switch and whether or not the name exists, the name is bound to a
FRESH dense attribute object of the array's type and arity, whose storage holds exactly the rows of the array — the caller's
object itself when its dtype already is the attribute's (`exact`), a converted copy otherwise —, no other heap cell changes, and
the container is again one the step bridge applies to (scripts can go on from it) -/
theorem registerArray_spec (w : Bool) (nm : String) (a : ArrIn) (dv : Option Scalar) (h : Heap) (c : Cont)
    (hc : c.attr = [] ∨ ∃ a0, c.attr = [(nm, a0)]) (hnd : a.ndim = 1 ∨ a.ndim = 2) (hk : 1 ≤ a.k)
    (hrows : (a.rows h).length = c.data.length) (href : a.ref < h.length) (hdv : ∀ x, dv = some x → x.ty = a.ty) :
    ∃ slf h' c', registerArray w nm a dv h c = .ok (slf, h', c') ∧
      RegOk nm a dv h c (if a.ndim = 1 then 1 else a.k) slf h' c' := by
  rcases hnd with h1 | h2
  · rw [registerArray_newaxis w nm a dv h c h1]
    have := registerArray_spec2 w nm a.newaxis dv h c hc (by simp [ArrIn.newaxis, h1]) (by simp [ArrIn.newaxis]) hrows href hdv
    simpa [h1, RegOk, ArrIn.newaxis, ArrIn.rows] using this
  · have hne : ¬ a.ndim = 1 := by omega
    simpa [hne] using registerArray_spec2 w nm a dv h c hc h2 hk hrows href hdv

/-- a mis-shaped array (row count ≠ container size) is refused before anything is bound -/
theorem registerArray_bad_shape (w : Bool) (nm : String) (a : ArrIn) (dv : Option Scalar) (h : Heap) (c : Cont)
    (hrows : (a.rows h).length ≠ c.data.length) : registerArray w nm a dv h c = .error .size := by
  have h0 : ¬ a.shape0 h = c.data.length := by simpa [ArrIn.shape0] using hrows
  have h0' : ¬ a.newaxis.shape0 h = c.data.length := by simpa [ArrIn.shape0, ArrIn.newaxis, ArrIn.rows] using hrows
  unfold registerArray
  by_cases h1 : a.ndim = 1
  · have hs : a.newaxis.shape1? = some 1 := by simp [ArrIn.shape1?, ArrIn.newaxis, h1]
    simp [h1, hs, h0', contLen]
  · cases hs : a.shape1? <;> simp [h1, hs, h0, contLen]

/-- non-vacuity: a uint8-like (not `exact`) (2,) array registered on a 2-element container that already has an attribute "a": the new
attribute is dense Int of arity 1, its storage a NEW cell holding the rows, and the caller's cell is untouched -/
example :
    let h : Heap := [.mat [[.i 9], [.i 0]]]
    let c : Cont := { data := [0, 1], attr := [("a", { cls := .sparse, type := .str, elemsize := 2, data := .dict [] })] }
    (match registerArray false "a" { ref := 0, ty := .int, exact := false, ndim := 1, k := 0 } none h c with
     | .ok (slf, h', c') => (slf.cls, slf.type, slf.elemsize, slf.nElem, cellMat h' slf.data.asRef, cellMat h' 0, c'.attr.length)
     | .error _ => (.sparse, .bool, 0, 0, [], [], 0)) = (.dense, .int, 1, 2, [[.i 9], [.i 0]], [[.i 9], [.i 0]], 1) := by
  rfl

/-- `Type.dtype` as written: every attribute type is stored in a dtype that holds exactly the values of that type — what the
model's "stored after widening to the attribute's type" (`castTo`) relies on; two different types never share a storage dtype -/
theorem typeDtype_bridge (t : Ty) : (typeDtype t).holds t = true ∧ ∀ t', (typeDtype t).holds t' = true → t' = t := by
  cases t <;> simp [typeDtype, DType.holds]

/-- the two container constructors as written: `DataContainer()` is the empty container of the model, `DataContainer(data)` has
`len(data)` elements and no attribute; an `attributes` dict handed over is adopted as it is -/
theorem contInit_bridge (h : Heap) (c0 : Cont) (data : Option (List Nat)) (attrs : Option (List (String × Self))) (id : String) (nm : String) :
    ∃ c, contInit data attrs id h c0 = .ok ((), h, c) ∧ c.data = data.getD [] ∧ c.attr = attrs.getD [] ∧ c.id = id ∧
      (attrs = none → toState h c nm = { (init (data.getD []).length) with heap := h }) := by
  cases data <;> cases attrs <;> simp [contInit, baseContInit, toState, init]

/-- … and the harness's start state (a fresh container, then `n0` appends) is `srcInit n0` up to the element values -/
theorem srcInit_by_code (n0 : Nat) (nm : String) :
    ∃ c, contInit none none "t" [] {} = .ok ((), [], c) ∧ c.attr = [] ∧ c.data = [] ∧
      absSt nm ([], { c with data := List.replicate n0 0 }) = init n0 := by
  refine ⟨{ data := [], attr := [], id := "t" }, by simp [contInit, baseContInit], rfl, rfl, ?_⟩
  simp [absSt, toState, init]

/-- **the step bridge**: one operation executed by the translated code = one step of the hand model, seen through `toState`:
same state, same observation, and the reached container is again one the bridge applies to -/
theorem srcStep_bridge (dense : Bool) (nm : String) (st : SrcSt) (hg : Good dense nm st.2) (op : Op)
    (hk : ∀ ty k d, op = .create ty k d → 1 ≤ k) : StepOk dense nm st op := by
  obtain ⟨h, c⟩ := st
  cases op with
  | create ty k d => exact step_create dense nm h c hg ty k d (hk ty k d rfl)
  | delete => exact step_delete dense nm h c hg
  | cclear => exact step_cclear dense nm h c
  | append => exact step_grow dense nm h c hg _ (Or.inl rfl)
  | extendList n => exact step_grow dense nm h c hg _ (Or.inr (Or.inl ⟨n, rfl⟩))
  | extendCont m => exact step_grow dense nm h c hg _ (Or.inr (Or.inr (Or.inl ⟨m, rfl⟩)))
  | extendSelf => exact step_grow dense nm h c hg _ (Or.inr (Or.inr (Or.inr rfl)))
  | set i v =>
    rcases hg with h0 | ⟨a, h1, hok, hcls, hka⟩
    · exact step_noattr dense nm h c h0 _ rfl (fun _ _ _ hh => by cases hh) (fun hh => by cases hh)
    · exact step_set dense nm h c a h1 hok hcls hka i v
  | get i =>
    rcases hg with h0 | ⟨a, h1, hok, hcls, hka⟩
    · exact step_noattr dense nm h c h0 _ rfl (fun _ _ _ hh => by cases hh) (fun hh => by cases hh)
    · exact step_get dense nm h c a h1 hok hcls hka i
  | upd i cx x =>
    rcases hg with h0 | ⟨a, h1, hok, hcls, hka⟩
    · exact step_noattr dense nm h c h0 _ rfl (fun _ _ _ hh => by cases hh) (fun hh => by cases hh)
    · exact step_upd dense nm h c a h1 hok hcls hka i cx x
  | clear =>
    rcases hg with h0 | ⟨a, h1, hok, hcls, hka⟩
    · exact step_noattr dense nm h c h0 _ rfl (fun _ _ _ hh => by cases hh) (fun hh => by cases hh)
    · exact step_clear dense nm h c a h1 hok hcls hka
  | asArray =>
    rcases hg with h0 | ⟨a, h1, hok, hcls, hka⟩
    · exact step_noattr dense nm h c h0 _ rfl (fun _ _ _ hh => by cases hh) (fun hh => by cases hh)
    · exact step_asArray dense nm h c a h1 hok hcls hka

/-- **the run bridge**: a whole script executed by the translated code gives the observations of the hand model -/
theorem srcRunObs_bridge (dense : Bool) (nm : String) : ∀ (ops : List Op) (st : SrcSt), Good dense nm st.2 → arityOk ops = true →
    srcRunObs dense nm st ops = runObs dense (absSt nm st) ops := by
  intro ops
  induction ops with
  | nil => intro st _ _; rfl
  | cons op rest ih =>
    intro st hg ha
    have hk : ∀ ty k d, op = .create ty k d → 1 ≤ k := by
      intro ty k d hop; subst hop; simp [arityOk] at ha; exact ha.1
    have har : arityOk rest = true := by
      cases op <;> simp [arityOk] at ha <;> first | exact ha | exact ha.2
    obtain ⟨e1, e2, e3⟩ := srcStep_bridge dense nm st hg op hk
    have ih' := ih (srcStep dense nm st op).1 e3 har
    simp only [srcRunObs, srcRun, List.map_cons, runObs, run] at ih' ⊢
    rw [e2, ih', e1]

theorem absSt_init (nm : String) (n0 : Nat) : absSt nm (srcInit n0) = init n0 := by
  simp [absSt, srcInit, toState, init]

theorem good_srcInit (dense : Bool) (nm : String) (n0 : Nat) : Good dense nm (srcInit n0).2 := Or.inl rfl

/-! ### the history theorems of Props/C05.lean, about the translated code end to end -/

/-- every answer of the DENSE storage as written in the source (`ArrayAttribute` + `DataContainer`), for every script, is the one
the total-map specification allows: last accepted write or default, same accept / reject, OutOfBounds outside `[0,size)` -/
theorem src_dense_refines (nm : String) (n0 : Nat) (ops : List Op) (ha : arityOk ops = true) :
    Forall2 Matches (specRun (specInit n0) ops) (srcRunObs true nm (srcInit n0) ops) := by
  rw [srcRunObs_bridge true nm ops _ (good_srcInit true nm n0) ha, absSt_init]
  exact Mouette.Props.C05.dense_refines n0 ops

/-- the same for the SPARSE storage as written (`Attribute`), on well-indexed scripts -/
theorem src_sparse_refines (nm : String) (n0 : Nat) (ops : List Op) (ha : arityOk ops = true) (hw : wellIndexed n0 ops = true) :
    Forall2 Matches (specRun (specInit n0) ops) (srcRunObs false nm (srcInit n0) ops) := by
  rw [srcRunObs_bridge false nm ops _ (good_srcInit false nm n0) ha, absSt_init]
  exact Mouette.Props.C05.sparse_refines n0 ops hw

/-- sparse and dense storage as written give literally the same observations on every well-indexed script without in-place
updates of read values -/
theorem src_sparse_dense_agree (nm : String) (n0 : Nat) (ops : List Op) (ha : arityOk ops = true) (hw : wellIndexed n0 ops = true)
    (hmf : mutFree ops = true) :
    srcRunObs false nm (srcInit n0) ops = srcRunObs true nm (srcInit n0) ops := by
  rw [srcRunObs_bridge false nm ops _ (good_srcInit false nm n0) ha, srcRunObs_bridge true nm ops _ (good_srcInit true nm n0) ha,
    absSt_init]
  exact Mouette.Props.C05.sparse_dense_agree n0 ops hw hmf

/-- non-vacuity: a dense script through the translated code — create (custom default 7), write, grow, read the new entry,
export, read the container's size as index -/
example :
    srcRunObs true "a" (srcInit 2)
      [.create .int 2 (some (.i 7)), .set 1 (.vec [.i 3, .b true]), .append, .get 2, .get 1, .asArray, .get 3] =
    [.ok, .ok, .ok, .val [.i 7, .i 7], .val [.i 3, .i 1], .arr [[.i 7, .i 7], [.i 3, .i 1], [.i 7, .i 7]], .err .oob] := by
  rfl

example :
    srcRunObs false "a" (srcInit 2)
      [.create .float 1 none, .set 0 (.sc (.i 2)), .extendSelf, .asArray, .set 1 (.sc (.s "x"))] =
    [.ok, .ok, .ok, .arr [[.f 2], [.f 0], [.f 0], [.f 0]], .err .type] := by
  rfl

end Mouette.Props.C05SourceRun
