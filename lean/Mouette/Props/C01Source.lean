import Mouette.Props.C01
import Mouette.Lemmas.C01Source
/-!
# C01 (part 4) — method bodies TRANSLATED from `surface.py` / `linear.py`

`Generated/C01Src.lean` is written on every run from the bodies of `SurfaceMesh.is_edge_on_border`,
`_compute_interior_boundary_edges`, `_compute_mesh_type`, `_Connectivity._compute_face_ids`, `face_id`, `edge_to_faces`,
`face_to_edges` and `PolyLine._Connectivity._compute_edge_id`, `edge_id`, `other_edge_end`, `vertex_to_edges` (statement by
statement: the guards, the cache-filling loops, which dict / list is written with which key, the lookups).  The bridges below
identify them with `Model/Surface.lean`, so that the C01 answer theorems speak about what the source says now.
-/
namespace Mouette.Props.C01
open Mouette.Surface Mouette.SurfSource Mouette.Lemmas.C01Source

/-- **bridge** `SurfaceMesh.is_edge_on_border` -/
theorem source_is_edge_on_border_eq_model (S : Surf) (u v : Nat) :
    Mouette.Generated.C01Src.isEdgeOnBorder S u v = isEdgeOnBorder S u v := isEdgeOnBorder_bridge S u v

/-- **bridge** `_compute_interior_boundary_edges` (the loop that fills `_interior_edges` / `_boundary_edges`, calling the
translated `is_edge_on_border` on every edge of the container) -/
theorem source_interior_boundary_edges_eq_model (S : Surf) :
    Mouette.Generated.C01Src.computeInteriorBoundaryEdges S = (interiorEdges S, boundaryEdges S) :=
  computeInteriorBoundaryEdges_bridge S

/-- **bridge** `_compute_mesh_type` -/
theorem source_mesh_type_eq_model (S : Surf) :
    Mouette.Generated.C01Src.computeMeshType S = (isTriangular S, isQuad S) := computeMeshType_bridge S

/-- **bridge** `_compute_face_ids` + `face_id`: the lookup in the dict the loop fills (last write wins) is the model's `faceId` -/
theorem source_face_id_eq_model (S : Surf) (vs : List Nat) :
    Mouette.Generated.C01Src.faceId S (Mouette.Generated.C01Src.computeFaceIds S) vs = faceId S vs := faceId_bridge S vs

section onFaces
variable {faces : Faces} (nv : Nat) (so : Bool)

/-- **bridge** `_compute_edge_id` + `edge_id` on a built mesh -/
theorem source_edge_id_eq_model (u v : Nat) :
    Mouette.Generated.C01Src.edgeId (build nv faces so) (Mouette.Generated.C01Src.computeEdgeId (build nv faces so)) u v =
      edgeId (build nv faces so) u v := by
  apply edgeId_bridge
  · rfl
  · intro e he
    have he' : e ∈ edgesOf faces := he
    obtain ⟨f, i, a, b, _, rfl⟩ := mem_edgesOf.mp he'
    show key2 (key2 a b).1 (key2 a b).2 = key2 a b
    unfold key2
    by_cases h : a ≤ b
    · simp [h]
    · have : b ≤ a := by omega
      simp [h, this]

/-- the translated `edge_id` therefore satisfies the face-list specification of `edgeId_eq_spec` -/
theorem source_edge_id_spec (u v e : Nat) :
    Mouette.Generated.C01Src.edgeId (build nv faces so) (Mouette.Generated.C01Src.computeEdgeId (build nv faces so)) u v = some e ↔
      (build nv faces so).edges[e]? = some (key2 u v) := by
  rw [source_edge_id_eq_model]; exact edgeId_eq_spec nv so u v e

/-- the translated `is_edge_on_border` satisfies the face-list specification: `{u,v}` is an edge and one of the two directed
sides is missing -/
theorem source_is_edge_on_border_spec (u v : Nat) :
    Mouette.Generated.C01Src.isEdgeOnBorder (build nv faces so) u v = true ↔
      (∃ e : Nat, (build nv faces so).edges[e]? = some (key2 u v)) ∧
      ((∀ f i, ¬ IsSide faces f i u v) ∨ (∀ f i, ¬ IsSide faces f i v u)) := by
  rw [source_is_edge_on_border_eq_model]; exact isEdgeOnBorder_spec nv so u v

/-- the translated `face_id` satisfies `faceId_eq_spec` -/
theorem source_face_id_spec (vs : List Nat) :
    (∀ f, Mouette.Generated.C01Src.faceId (build nv faces so) (Mouette.Generated.C01Src.computeFaceIds (build nv faces so)) vs = some f →
      f < faces.length ∧ sortNat (fa faces f) = sortNat vs) ∧
    (Mouette.Generated.C01Src.faceId (build nv faces so) (Mouette.Generated.C01Src.computeFaceIds (build nv faces so)) vs = none ↔
      ∀ f, f < faces.length → sortNat (fa faces f) ≠ sortNat vs) := by
  rw [source_face_id_eq_model]; exact faceId_eq_spec nv so vs

/-- on a built mesh whose face vertices are `< nv`, every end point of a boundary edge is a vertex id -/
theorem borderEnds_lt (hR : ∀ F ∈ faces, ∀ v ∈ F, v < nv) : ∀ v ∈ borderEnds (build nv faces so), v < nv := by
  intro v hv
  unfold borderEnds at hv
  obtain ⟨e, _, hve⟩ := List.mem_flatMap.mp hv
  cases hE : (build nv faces so).edges[e]? with
  | none => simp [hE] at hve
  | some ab =>
    obtain ⟨a, b⟩ := ab
    simp only [hE, List.mem_cons, List.not_mem_nil, or_false] at hve
    have hmem : (a, b) ∈ edgesOf faces := List.mem_of_getElem? hE
    obtain ⟨f, i, u, w, ⟨hf, hi, hu, hw⟩, hk⟩ := mem_edgesOf.mp hmem
    have hF : fa faces f ∈ faces := by
      have : fa faces f = faces[f] := by simp [fa, List.getD, hf]
      rw [this]; exact List.getElem_mem hf
    have hi' : (i + 1) % (fa faces f).length < (fa faces f).length := Nat.mod_lt _ (by omega)
    have hu' : u < nv := by
      rw [← hu, getD_eq_getElem hi]; exact hR _ hF _ (List.getElem_mem hi)
    have hw' : w < nv := by
      rw [← hw, getD_eq_getElem hi']; exact hR _ hF _ (List.getElem_mem hi')
    unfold key2 at hk
    split at hk <;> (simp only [Prod.mk.injEq] at hk; rcases hve with rfl | rfl <;> omega)

/-- **bridge** `_compute_interior_boundary_vertices` (the loop over the boundary edges that fills the set `_boundary_vertices` and the
flag attribute, then the loop over all vertex ids that fills `_interior_vertices`): the set has exactly the elements of the model's
`boundaryVertices`, each once; the flag of a vertex id is the model's `isVertexOnBorder`; the interior list IS the model's -/
theorem source_interior_boundary_vertices_eq_model (hR : ∀ F ∈ faces, ∀ v ∈ F, v < nv) :
    (∀ v, v ∈ (Mouette.Generated.C01Src.computeInteriorBoundaryVertices (build nv faces so)).1 ↔ v ∈ boundaryVertices (build nv faces so)) ∧
    (Mouette.Generated.C01Src.computeInteriorBoundaryVertices (build nv faces so)).1.Nodup ∧
    (∀ v, v < nv → Mouette.PySrc.boolGet (Mouette.Generated.C01Src.computeInteriorBoundaryVertices (build nv faces so)).2.1 v =
      isVertexOnBorder (build nv faces so) v) ∧
    (Mouette.Generated.C01Src.computeInteriorBoundaryVertices (build nv faces so)).2.2 = interiorVertices (build nv faces so) := by
  obtain ⟨h1, h2, h3, h4⟩ := computeInteriorBoundaryVertices_bridge (build nv faces so) (borderEnds_lt nv so hR)
  refine ⟨h1, h2, ?_, h4⟩
  intro v hv
  rcases h3 v with h | h
  · exact h
  · exact absurd hv h

end onFaces

/-- the lists `_compute_interior_boundary_edges` fills partition the edge ids (statement of `border_partition`, for the
translated loop) -/
theorem source_border_partition (S : Surf) :
    ((Mouette.Generated.C01Src.computeInteriorBoundaryEdges S).2 ++ (Mouette.Generated.C01Src.computeInteriorBoundaryEdges S).1).Perm
        (List.range S.edges.length) ∧
    (∀ e, e ∈ (Mouette.Generated.C01Src.computeInteriorBoundaryEdges S).2 ↔
      ∃ a b, S.edges[e]? = some (a, b) ∧ Mouette.Generated.C01Src.isEdgeOnBorder S a b = true) := by
  rw [source_interior_boundary_edges_eq_model]
  refine ⟨(border_partition (S := S)).1, ?_⟩
  intro e
  rw [(border_partition (S := S)).2.1 e]
  constructor <;> rintro ⟨a, b, h1, h2⟩ <;> exact ⟨a, b, h1, by rw [source_is_edge_on_border_eq_model] at *; exact h2⟩

/-- **bridges** of the accessors whose body is a comprehension / a pair of calls -/
theorem source_edge_to_faces_eq_model (S : Surf) (u v : Nat) :
    Mouette.Generated.C01Src.edgeToFaces S u v = edgeToFaces S u v := edgeToFaces_bridge S u v
theorem source_face_to_edges_eq_model (S : Surf) (f : Nat) :
    Mouette.Generated.C01Src.faceToEdges S f = faceToEdges S f := faceToEdges_bridge S f
theorem source_vertex_to_edges_eq_model (S : Surf) (v : Nat) :
    Mouette.Generated.C01Src.vertexToEdges S v = vertexToEdges S v := vertexToEdges_bridge S v
theorem source_other_edge_end_eq_model (S : Surf) (e v : Nat) :
    Mouette.Generated.C01Src.otherEdgeEnd S e v = otherEdgeEnd S e v := otherEdgeEnd_bridge S e v

/-! non-vacuity: the translated functions run on two triangles sharing the edge 1-2 -/
example : Mouette.Generated.C01Src.computeInteriorBoundaryEdges (build 4 [[0, 1, 2], [2, 1, 3]] true) = ([1], [0, 2, 3, 4]) := by
  decide +kernel
example : Mouette.Generated.C01Src.isEdgeOnBorder (build 4 [[0, 1, 2], [2, 1, 3]] true) 1 2 = false ∧
    Mouette.Generated.C01Src.isEdgeOnBorder (build 4 [[0, 1, 2], [2, 1, 3]] true) 0 1 = true ∧
    Mouette.Generated.C01Src.isEdgeOnBorder (build 4 [[0, 1, 2], [2, 1, 3]] true) 0 3 = false := by decide +kernel
example : (Mouette.Generated.C01Src.computeInteriorBoundaryVertices (build 5 [[0, 1, 2], [2, 1, 3]] true)) =
    ([0, 1, 2, 3], [0, 1, 0, 2, 1, 3, 2, 3], [4]) := by decide +kernel
example : Mouette.Generated.C01Src.computeMeshType (build 4 [[0, 1, 2], [2, 1, 3]] true) = (true, false) := by decide +kernel
example : Mouette.Generated.C01Src.edgeId (build 4 [[0, 1, 2], [2, 1, 3]] true)
    (Mouette.Generated.C01Src.computeEdgeId (build 4 [[0, 1, 2], [2, 1, 3]] true)) 2 1 = some 1 := by decide +kernel

end Mouette.Props.C01
