import Mouette.Props.C01
import Mouette.Lemmas.C01Source
import Mouette.Lemmas.C01HalfEdge
import Mouette.Lemmas.C01Sort
import Mouette.Lemmas.C01Acc
/-!
# C01 (part 4) — method bodies TRANSLATED from `surface.py` / `linear.py`

`Generated/C01Src.lean` is written on every run from the bodies of `SurfaceMesh.is_edge_on_border`,
`_compute_interior_boundary_edges`, `_compute_mesh_type`, `_Connectivity._compute_face_ids`, `face_id`, `edge_to_faces`,
`face_to_edges` and `PolyLine._Connectivity._compute_edge_id`, `edge_id`, `other_edge_end`, `vertex_to_edges` (statement by
statement: the guards, the cache-filling loops, which dict / list is written with which key, the lookups).  The bridges below
identify them with `Model/Surface.lean`, so that the C01 answer theorems speak about what the source says now.
-/
namespace Mouette.Props.C01
open Mouette.Surface Mouette.SurfSource Mouette.Lemmas.C01Source

/-- **bridge** `SurfaceMesh.is_edge_on_border` -/
theorem source_is_edge_on_border_eq_model (S : Surf) (u v : Nat) :
    Mouette.Generated.C01Src.isEdgeOnBorder S u v = isEdgeOnBorder S u v := isEdgeOnBorder_bridge S u v

/-- **bridge** `_compute_interior_boundary_edges` (the loop that fills `_interior_edges` / `_boundary_edges`, calling the
translated `is_edge_on_border` on every edge of the container) -/
theorem source_interior_boundary_edges_eq_model (S : Surf) :
    Mouette.Generated.C01Src.computeInteriorBoundaryEdges S = (interiorEdges S, boundaryEdges S) :=
  computeInteriorBoundaryEdges_bridge S

/-- **bridge** `_compute_mesh_type` -/
theorem source_mesh_type_eq_model (S : Surf) :
    Mouette.Generated.C01Src.computeMeshType S = (isTriangular S, isQuad S) := computeMeshType_bridge S

/-- **bridge** `_compute_face_ids` + `face_id`: the lookup in the dict the loop fills (last write wins) is the model's `faceId` -/
theorem source_face_id_eq_model (S : Surf) (vs : List Nat) :
    Mouette.Generated.C01Src.faceId S (Mouette.Generated.C01Src.computeFaceIds S) vs = faceId S vs := faceId_bridge S vs

section onFaces
variable {faces : Faces} (nv : Nat) (so : Bool)

/-- **bridge** `_compute_edge_id` + `edge_id` on a built mesh -/
theorem source_edge_id_eq_model (u v : Nat) :
    Mouette.Generated.C01Src.edgeId (build nv faces so) (Mouette.Generated.C01Src.computeEdgeId (build nv faces so)) u v =
      edgeId (build nv faces so) u v := by
  apply edgeId_bridge
  · rfl
  · intro e he
    have he' : e ∈ edgesOf faces := he
    obtain ⟨f, i, a, b, _, rfl⟩ := mem_edgesOf.mp he'
    show key2 (key2 a b).1 (key2 a b).2 = key2 a b
    unfold key2
    by_cases h : a ≤ b
    · simp [h]
    · have : b ≤ a := by omega
      simp [h, this]

/-- the translated `edge_id` therefore satisfies the face-list specification of `edgeId_eq_spec` -/
theorem source_edge_id_spec (u v e : Nat) :
    Mouette.Generated.C01Src.edgeId (build nv faces so) (Mouette.Generated.C01Src.computeEdgeId (build nv faces so)) u v = some e ↔
      (build nv faces so).edges[e]? = some (key2 u v) := by
  rw [source_edge_id_eq_model]; exact edgeId_eq_spec nv so u v e

/-- the translated `is_edge_on_border` satisfies the face-list specification: `{u,v}` is an edge and one of the two directed
sides is missing -/
theorem source_is_edge_on_border_spec (u v : Nat) :
    Mouette.Generated.C01Src.isEdgeOnBorder (build nv faces so) u v = true ↔
      (∃ e : Nat, (build nv faces so).edges[e]? = some (key2 u v)) ∧
      ((∀ f i, ¬ IsSide faces f i u v) ∨ (∀ f i, ¬ IsSide faces f i v u)) := by
  rw [source_is_edge_on_border_eq_model]; exact isEdgeOnBorder_spec nv so u v

/-- the translated `face_id` satisfies `faceId_eq_spec` -/
theorem source_face_id_spec (vs : List Nat) :
    (∀ f, Mouette.Generated.C01Src.faceId (build nv faces so) (Mouette.Generated.C01Src.computeFaceIds (build nv faces so)) vs = some f →
      f < faces.length ∧ sortNat (fa faces f) = sortNat vs) ∧
    (Mouette.Generated.C01Src.faceId (build nv faces so) (Mouette.Generated.C01Src.computeFaceIds (build nv faces so)) vs = none ↔
      ∀ f, f < faces.length → sortNat (fa faces f) ≠ sortNat vs) := by
  rw [source_face_id_eq_model]; exact faceId_eq_spec nv so vs

/-- on a built mesh whose face vertices are `< nv`, every end point of a boundary edge is a vertex id -/
theorem borderEnds_lt (hR : ∀ F ∈ faces, ∀ v ∈ F, v < nv) : ∀ v ∈ borderEnds (build nv faces so), v < nv := by
  intro v hv
  unfold borderEnds at hv
  obtain ⟨e, _, hve⟩ := List.mem_flatMap.mp hv
  cases hE : (build nv faces so).edges[e]? with
  | none => simp [hE] at hve
  | some ab =>
    obtain ⟨a, b⟩ := ab
    simp only [hE, List.mem_cons, List.not_mem_nil, or_false] at hve
    have hmem : (a, b) ∈ edgesOf faces := List.mem_of_getElem? hE
    obtain ⟨f, i, u, w, ⟨hf, hi, hu, hw⟩, hk⟩ := mem_edgesOf.mp hmem
    have hF : fa faces f ∈ faces := by
      have : fa faces f = faces[f] := by simp [fa, List.getD, hf]
      rw [this]; exact List.getElem_mem hf
    have hi' : (i + 1) % (fa faces f).length < (fa faces f).length := Nat.mod_lt _ (by omega)
    have hu' : u < nv := by
      rw [← hu, getD_eq_getElem hi]; exact hR _ hF _ (List.getElem_mem hi)
    have hw' : w < nv := by
      rw [← hw, getD_eq_getElem hi']; exact hR _ hF _ (List.getElem_mem hi')
    unfold key2 at hk
    split at hk <;> (simp only [Prod.mk.injEq] at hk; rcases hve with rfl | rfl <;> omega)

/-- **bridge** `_compute_interior_boundary_vertices` (the loop over the boundary edges that fills the set `_boundary_vertices` and the
flag attribute, then the loop over all vertex ids that fills `_interior_vertices`): the set has exactly the elements of the model's
`boundaryVertices`, each once; the flag of a vertex id is the model's `isVertexOnBorder`; the interior list IS the model's -/
theorem source_interior_boundary_vertices_eq_model (hR : ∀ F ∈ faces, ∀ v ∈ F, v < nv) :
    (∀ v, v ∈ (Mouette.Generated.C01Src.computeInteriorBoundaryVertices (build nv faces so)).1 ↔ v ∈ boundaryVertices (build nv faces so)) ∧
    (Mouette.Generated.C01Src.computeInteriorBoundaryVertices (build nv faces so)).1.Nodup ∧
    (∀ v, v < nv → Mouette.PySrc.boolGet (Mouette.Generated.C01Src.computeInteriorBoundaryVertices (build nv faces so)).2.1 v =
      isVertexOnBorder (build nv faces so) v) ∧
    (Mouette.Generated.C01Src.computeInteriorBoundaryVertices (build nv faces so)).2.2 = interiorVertices (build nv faces so) := by
  obtain ⟨h1, h2, h3, h4⟩ := computeInteriorBoundaryVertices_bridge (build nv faces so) (borderEnds_lt nv so hR)
  refine ⟨h1, h2, ?_, h4⟩
  intro v hv
  rcases h3 v with h | h
  · exact h
  · exact absurd hv h

end onFaces

/-- the lists `_compute_interior_boundary_edges` fills partition the edge ids (statement of `border_partition`, for the
translated loop) -/
theorem source_border_partition (S : Surf) :
    ((Mouette.Generated.C01Src.computeInteriorBoundaryEdges S).2 ++ (Mouette.Generated.C01Src.computeInteriorBoundaryEdges S).1).Perm
        (List.range S.edges.length) ∧
    (∀ e, e ∈ (Mouette.Generated.C01Src.computeInteriorBoundaryEdges S).2 ↔
      ∃ a b, S.edges[e]? = some (a, b) ∧ Mouette.Generated.C01Src.isEdgeOnBorder S a b = true) := by
  rw [source_interior_boundary_edges_eq_model]
  refine ⟨(border_partition (S := S)).1, ?_⟩
  intro e
  rw [(border_partition (S := S)).2.1 e]
  constructor <;> rintro ⟨a, b, h1, h2⟩ <;> exact ⟨a, b, h1, by rw [source_is_edge_on_border_eq_model] at *; exact h2⟩

/-- **bridges** of the accessors whose body is a comprehension / a pair of calls -/
theorem source_edge_to_faces_eq_model (S : Surf) (u v : Nat) :
    Mouette.Generated.C01Src.edgeToFaces S u v = edgeToFaces S u v := edgeToFaces_bridge S u v
theorem source_face_to_edges_eq_model (S : Surf) (f : Nat) :
    Mouette.Generated.C01Src.faceToEdges S f = faceToEdges S f := faceToEdges_bridge S f
theorem source_vertex_to_edges_eq_model (S : Surf) (v : Nat) :
    Mouette.Generated.C01Src.vertexToEdges S v = vertexToEdges S v := vertexToEdges_bridge S v
theorem source_other_edge_end_eq_model (S : Surf) (e v : Nat) :
    Mouette.Generated.C01Src.otherEdgeEnd S e v = otherEdgeEnd S e v := otherEdgeEnd_bridge S e v

/-! ## `_compute_connectivity` and the accessors reading its caches (`Generated/C01HE.lean`) -/
section halfEdges
open Mouette.Lemmas.C01HalfEdge

/-- the caches the translated `_compute_connectivity` leaves on a built mesh -/
abbrev srcVF (faces : Faces) (nv : Nat) (so : Bool) : VFDict := (Mouette.Generated.C01HE.computeConnectivity (build nv faces so)).2.1
abbrev srcHE (faces : Faces) (nv : Nat) (so : Bool) : HEDict := (Mouette.Generated.C01HE.computeConnectivity (build nv faces so)).2.2.2.1
abbrev srcCN (faces : Faces) (nv : Nat) (so : Bool) : CnDict := (Mouette.Generated.C01HE.computeConnectivity (build nv faces so)).2.2.2.2

variable {faces : Faces} (nv : Nat) (so : Bool)

/-- **bridge** `_compute_connectivity` (corner loop, half-edge loops with their index expressions `F[(iV-1)%n]`, `F[(iV+1)%n]`, the
`_adjVF2Cn` lookups, the opposite pass writing field 3 of both entries): on a mesh whose faces have no repeated vertex
* `_adjVF2Cn` is the `face_corners` container with its positions (the model's `fcR`),
* `_half_edges` has, for every side of the model, the entry `[corner, previous, next, opposite, face, i, j]` under the key `(u,v)`,
  most recent side first, where `opposite` is the corner of the reversed side when the face list has it (the model's `oppOf`),
* `_Cn2he` maps every corner to its side. -/
theorem source_half_edge_tables_eq_model (hnd : ∀ F ∈ faces, F.Nodup) :
    srcVF faces nv so = (build nv faces so).fcR ∧
    srcHE faces nv so = (build nv faces so).sidesR.map (heE (build nv faces so).sidesR) ∧
    srcCN faces nv so = (build nv faces so).sidesR.map cnE := by
  have H : ∀ k i, k < faces.length → i < (fa faces k).length →
      dictGetD (build nv faces so).fc.zipIdx.reverse ((fa faces k).getD i 0, k) = offset faces k + i := by
    intro k i hk hi
    have hF : fa faces k ∈ faces := by
      have : fa faces k = faces[k] := by simp [fa, List.getD, hk]
      rw [this]; exact List.getElem_mem hk
    have h := vf2cn_eq nv so hk hi (hnd _ hF)
    unfold vertexToCornerInFace at h
    show ((List.find? (fun e => e.1 == ((fa faces k).getD i 0, k)) (build nv faces so).fcR).map (·.2)).getD 0 = _
    rw [h]; rfl
  obtain ⟨h1, h2⟩ := compute_tables (build nv faces so) faces rfl rfl H
  exact ⟨computeConnectivity_vf _, h1, h2⟩

/-- **bridges** of the accessors, on the caches the translated `_compute_connectivity` fills -/
theorem source_previous_corner_eq_model (hnd : ∀ F ∈ faces, F.Nodup) (c : Nat) :
    Mouette.Generated.C01HE.previousCorner (build nv faces so) (srcHE faces nv so) (srcCN faces nv so) (srcVF faces nv so) c =
      previousCorner (build nv faces so) c :=
  previousCorner_bridge _ _ _ _ (source_half_edge_tables_eq_model nv so hnd).2.1 (source_half_edge_tables_eq_model nv so hnd).2.2 c
theorem source_next_corner_eq_model (hnd : ∀ F ∈ faces, F.Nodup) (c : Nat) :
    Mouette.Generated.C01HE.nextCorner (build nv faces so) (srcHE faces nv so) (srcCN faces nv so) (srcVF faces nv so) c =
      nextCorner (build nv faces so) c :=
  nextCorner_bridge _ _ _ _ (source_half_edge_tables_eq_model nv so hnd).2.1 (source_half_edge_tables_eq_model nv so hnd).2.2 c
theorem source_opposite_corner_eq_model (hnd : ∀ F ∈ faces, F.Nodup) (c : Nat) :
    Mouette.Generated.C01HE.oppositeCorner (build nv faces so) (srcHE faces nv so) (srcCN faces nv so) (srcVF faces nv so) c =
      oppositeCorner (build nv faces so) c :=
  oppositeCorner_bridge _ _ _ _ (source_half_edge_tables_eq_model nv so hnd).2.1 (source_half_edge_tables_eq_model nv so hnd).2.2 c
theorem source_corner_to_half_edge_eq_model (hnd : ∀ F ∈ faces, F.Nodup) (c : Nat) :
    Mouette.Generated.C01HE.cornerToHalfEdge (build nv faces so) (srcHE faces nv so) (srcCN faces nv so) (srcVF faces nv so) c =
      cornerToHalfEdge (build nv faces so) c :=
  cornerToHalfEdge_bridge _ _ _ _ (source_half_edge_tables_eq_model nv so hnd).2.1 (source_half_edge_tables_eq_model nv so hnd).2.2 c
theorem source_half_edge_to_corner_eq_model (hnd : ∀ F ∈ faces, F.Nodup) (u v : Nat) :
    Mouette.Generated.C01HE.halfEdgeToCorner (build nv faces so) (srcHE faces nv so) (srcCN faces nv so) (srcVF faces nv so) u v =
      halfEdgeToCorner (build nv faces so) u v :=
  halfEdgeToCorner_bridge _ _ _ _ (source_half_edge_tables_eq_model nv so hnd).2.1 (source_half_edge_tables_eq_model nv so hnd).2.2 u v
theorem source_vertex_to_corner_in_face_eq_model (v f : Nat) :
    Mouette.Generated.C01HE.vertexToCornerInFace (build nv faces so) (srcHE faces nv so) (srcCN faces nv so) (srcVF faces nv so) v f =
      vertexToCornerInFace (build nv faces so) v f :=
  vertexToCornerInFace_bridge _ _ _ _ (computeConnectivity_vf _) v f
theorem source_direct_face_eq_model (hnd : ∀ F ∈ faces, F.Nodup) (u v : Nat) :
    Mouette.Generated.C01HE.directFace (build nv faces so) (srcHE faces nv so) (srcCN faces nv so) (srcVF faces nv so) u v =
      directFace (build nv faces so) u v :=
  directFace_bridge _ _ _ _ (source_half_edge_tables_eq_model nv so hnd).2.1 (source_half_edge_tables_eq_model nv so hnd).2.2 u v
/-- `direct_face(u, v, True)`: the code's triple of possibly-`None` values is the model's optional triple -/
theorem source_direct_face_inds_eq_model (hnd : ∀ F ∈ faces, F.Nodup) (u v : Nat) :
    Mouette.Generated.C01HE.directFaceInds (build nv faces so) (srcHE faces nv so) (srcCN faces nv so) (srcVF faces nv so) u v =
      tripleOf (directFaceInds (build nv faces so) u v) :=
  directFaceInds_bridge _ _ _ _ (source_half_edge_tables_eq_model nv so hnd).2.1 (source_half_edge_tables_eq_model nv so hnd).2.2 u v
theorem source_opposite_face_eq_model (hnd : ∀ F ∈ faces, F.Nodup) (u v F : Nat) :
    Mouette.Generated.C01HE.oppositeFace (build nv faces so) (srcHE faces nv so) (srcCN faces nv so) (srcVF faces nv so) u v F =
      oppositeFace (build nv faces so) u v F :=
  oppositeFace_bridge _ _ _ _ (source_half_edge_tables_eq_model nv so hnd).2.1 (source_half_edge_tables_eq_model nv so hnd).2.2 u v F
/-- `opposite_face(u, v, F, True)`, including which of the two local indices comes first in the returned triple -/
theorem source_opposite_face_inds_eq_model (hnd : ∀ F ∈ faces, F.Nodup) (u v F : Nat) :
    Mouette.Generated.C01HE.oppositeFaceInds (build nv faces so) (srcHE faces nv so) (srcCN faces nv so) (srcVF faces nv so) u v F =
      tripleOf (oppositeFaceInds (build nv faces so) u v F) :=
  oppositeFaceInds_bridge _ _ _ _ (source_half_edge_tables_eq_model nv so hnd).2.1 (source_half_edge_tables_eq_model nv so hnd).2.2 u v F
theorem source_vertex_to_faces_eq_model (v : Nat) :
    Mouette.Generated.C01HE.vertexToFaces (build nv faces so) (srcHE faces nv so) (srcCN faces nv so) (srcVF faces nv so) v =
      vertexToFaces (build nv faces so) v := rfl

/-- consequence: the translated `opposite_corner` satisfies the face-list specification `opposite_eq_spec` -/
theorem source_direct_face_spec (hO : Oriented faces) (hnd : ∀ F ∈ faces, F.Nodup) (u v f : Nat) :
    Mouette.Generated.C01HE.directFace (build nv faces so) (srcHE faces nv so) (srcCN faces nv so) (srcVF faces nv so) u v = some f ↔
      ∃ i, IsSide faces f i u v := by
  rw [source_direct_face_eq_model nv so hnd]; exact directFace_eq_spec nv so hO u v f

end halfEdges

/-! ## the walk loops of `_sort_vertex_neighborhoods` (`Generated/C01Sort.lean`) -/
section sortWalks
open Mouette.Lemmas.C01Sort Mouette.Generated.C01Sort

/-- **bridge, backward walk** (`Cn = opposite_corner(previous_corner(Cn))`, ranks 0,-1,-2,…, `is_boundary` + `break` when it
falls off the border): run over any iteration list `l`, the translated `for … break` loop leaves in `sort_index` the ranks of the
model's `walkBack` with fuel `l.length` (in front of the entries that were there), and its `is_boundary` flag -/
theorem source_sort_backward_walk_eq_model (S : Surf) (a b : V2Cn) (init : IdxDict) (l : List Nat) (c : Nat) (ind : Int)
    (acc : List (Nat × Int)) :
    ∃ ind' cn', l.foldl (sortVertexNeighborhoods_for2_step S a b) (false, dm acc ++ init, ind, false, some c) =
      ((walkBack S l.length c ind acc).2, dm (walkBack S l.length c ind acc).1 ++ init, ind', (walkBack S l.length c ind acc).2, cn') :=
  for2_walkBack S a b init l c ind acc

/-- **bridge, forward walk** (`Cn = next_corner(opposite_corner(Cn))`, ranks 0,1,2,…, `break` on the border): same statement with
the model's `walkFwd`; entries under the key `None` can only appear in the case (impossible on a mesh) where `next_corner` of an
existing opposite corner is `None` -/
theorem source_sort_forward_walk_eq_model (S : Surf) (a b : V2Cn) (init : IdxDict) (l : List Nat) (c : Nat) (ind : Int)
    (acc : List (Nat × Int)) :
    ∃ ex : IdxDict, (∀ e ∈ ex, e.1 = none) ∧ ∃ brk ind' cn',
      l.foldl (sortVertexNeighborhoods_for3_step S a b) (false, dm acc ++ init, ind, some c) =
        (brk, ex ++ (dm (walkFwd S l.length c ind acc) ++ init), ind', cn') :=
  for3_walkFwd S a b init l c ind acc

/-- **the sort key of a corner** read from the dictionary the walks leave (`sort_index[c]`) is the model's `keyOf`: the initial
zeros are the default, entries under `None` are never read -/
theorem source_sort_corner_rank_eq_model (ex : IdxDict) (hex : ∀ e ∈ ex, e.1 = none) (acc : List (Nat × Int)) (cs : List Nat) (c : Nat) :
    idxGet (ex ++ (dm acc ++ cs.map fun c => ((some c : Option Nat), (0 : Int)))) (some c) = keyOf acc c :=
  idxGet_dm ex hex acc cs c

/-! non-vacuity: 2×2 quad grid, interior vertex 4 (corners 2, 7, 9, 12): the backward walk closes up without meeting the border -/
example : (List.range 4).foldl (sortVertexNeighborhoods_for2_step (build 9 [[0,1,4,3],[1,2,5,4],[3,4,7,6],[4,5,8,7]] true) [] [])
    (false, [], 0, false, some 2) = (false, [(some 9, -3), (some 12, -2), (some 7, -1), (some 2, 0)], -4, false, some 2) := by
  decide +kernel

end sortWalks

/-! ## search loops and cache reads (`Generated/C01Acc.lean`) -/
section acc2
open Mouette.Lemmas.C01Acc

/-- **bridge** `in_face_index` (`for i,v in enumerate(face): if v==V: return i` … `return None`): the first position -/
theorem source_in_face_index_eq_model (S : Surf) (a b : V2Cn) (f v : Nat) :
    Mouette.Generated.C01Acc.inFaceIndex S a b f v = inFaceIndex S f v := inFaceIndex_bridge S a b f v
/-- **bridge** `common_edge` (`for i in range(n): if opposite_face(A,B,iF1)==iF2: return keyify(A,B)` … `return None,None`) -/
theorem source_common_edge_eq_model (S : Surf) (a b : V2Cn) (f1 f2 : Nat) :
    Mouette.Generated.C01Acc.commonEdge S a b f1 f2 = commonEdge S f1 f2 := commonEdge_bridge S a b f1 f2
theorem source_face_to_vertices_eq_model (S : Surf) (a b : V2Cn) (f : Nat) :
    Mouette.Generated.C01Acc.faceToVertices S a b f = faceOf S f := rfl
theorem source_edge_to_vertices_eq_model (S : Surf) (a b : V2Cn) (e : Nat) :
    Mouette.Generated.C01Acc.edgeToVertices S a b e = edgeToVertices S e := edgeToVertices_bridge S a b e
/-- **bridge** `corner_to_face` (`face_corners.adj(C)`; `none` = IndexError) -/
theorem source_corner_to_face_eq_model (S : Surf) (a b : V2Cn) (c : Nat) :
    Mouette.Generated.C01Acc.cornerToFace S a b c = cornerToFace S c := cornerToFace_bridge S a b c
/-- `vertex_to_corners` / `vertex_to_vertices` are reads of the tables `_sort_vertex_neighborhoods` leaves -/
theorem source_vertex_to_corners_reads_table (S : Surf) (a b : V2Cn) (ha : a = (List.range S.nv).map (vertexToCorners S)) (v : Nat)
    (hv : v < S.nv) : Mouette.Generated.C01Acc.vertexToCorners S a b v = some (vertexToCorners S v) := vertexToCorners_bridge S a b ha v hv
theorem source_vertex_to_vertices_reads_table (S : Surf) (a b : V2Cn) (hb : b = (List.range S.nv).map (vertexToVertices S)) (v : Nat)
    (hv : v < S.nv) : Mouette.Generated.C01Acc.vertexToVertices S a b v = some (vertexToVertices S v) := vertexToVertices_bridge S a b hb v hv

/-- **`_adjF2Cn`** (first write wins in the corner loop of the translated `_compute_connectivity`): a lookup is the first corner of the
face in the `face_corners` container -/
theorem source_face_first_corner_table_eq_model (S : Surf) (f : Nat) :
    dictGet (Mouette.Generated.C01HE.computeConnectivity S).2.2.1 f = faceToFirstCorner S f := computeConnectivity_f2cn S f
/-- **bridges** `face_to_first_corner`, `face_to_corners` (for a non-empty face), `face_to_faces`, on the `_adjF2Cn` the translated
`_compute_connectivity` fills -/
theorem source_face_to_first_corner_eq_model (S : Surf) (f : Nat) :
    Mouette.Generated.C01Acc.faceToFirstCorner S (Mouette.Generated.C01HE.computeConnectivity S).2.2.1 f = faceToFirstCorner S f :=
  faceToFirstCorner_bridge S _ (computeConnectivity_f2cn S) f
theorem source_face_to_corners_eq_model (S : Surf) (f : Nat) (hne : faceOf S f ≠ []) :
    Mouette.Generated.C01Acc.faceToCorners S (Mouette.Generated.C01HE.computeConnectivity S).2.2.1 f = faceToCorners S f :=
  faceToCorners_bridge S _ (computeConnectivity_f2cn S) f hne
theorem source_face_to_faces_eq_model (S : Surf) (f : Nat) :
    Mouette.Generated.C01Acc.faceToFaces S (Mouette.Generated.C01HE.computeConnectivity S).2.2.1 f = faceToFaces S f :=
  faceToFaces_bridge S _ f

example : Mouette.Generated.C01Acc.faceToCorners (build 4 [[0, 1, 2], [2, 1, 3]] true)
    (Mouette.Generated.C01HE.computeConnectivity (build 4 [[0, 1, 2], [2, 1, 3]] true)).2.2.1 1 = some [3, 4, 5] ∧
    Mouette.Generated.C01Acc.faceToFaces (build 4 [[0, 1, 2], [2, 1, 3]] true)
    (Mouette.Generated.C01HE.computeConnectivity (build 4 [[0, 1, 2], [2, 1, 3]] true)).2.2.1 1 = some [0] := by decide +kernel
example : Mouette.Generated.C01Acc.commonEdge (build 4 [[0, 1, 2], [2, 1, 3]] true) [] [] 0 1 = some (1, 2) ∧
    Mouette.Generated.C01Acc.inFaceIndex (build 4 [[0, 1, 2], [2, 1, 3]] true) [] [] 1 3 = some 2 ∧
    Mouette.Generated.C01Acc.inFaceIndex (build 4 [[0, 1, 2], [2, 1, 3]] true) [] [] 0 3 = none := by decide +kernel

/-- **the lazily cached accessors of `SurfaceMesh`** (`boundary_edges`, `interior_edges`, `boundary_vertices`, `interior_vertices`,
`is_vertex_on_border`, `is_triangular`, `is_quad`: each returns its cache; the lazy guard is the subject of the guard table), read on
the caches the TRANSLATED compute functions fill, give the model's answers (the vertex set as a set: Python's set order is not fixed) -/
theorem source_cached_accessors_eq_model {faces : Faces} (nv : Nat) (so : Bool) (hR : ∀ F ∈ faces, ∀ v ∈ F, v < nv) :
    let S := build nv faces so
    let ibe := Mouette.Generated.C01Src.computeInteriorBoundaryEdges S
    let ibv := Mouette.Generated.C01Src.computeInteriorBoundaryVertices S
    let mt := Mouette.Generated.C01Src.computeMeshType S
    Mouette.Generated.C01Acc.m_boundaryEdges ibe.2 ibe.1 ibv.1 ibv.2.2 ibv.2.1 mt.1 mt.2 = boundaryEdges S ∧
    Mouette.Generated.C01Acc.m_interiorEdges ibe.2 ibe.1 ibv.1 ibv.2.2 ibv.2.1 mt.1 mt.2 = interiorEdges S ∧
    Mouette.Generated.C01Acc.m_interiorVertices ibe.2 ibe.1 ibv.1 ibv.2.2 ibv.2.1 mt.1 mt.2 = interiorVertices S ∧
    (∀ v, v ∈ Mouette.Generated.C01Acc.m_boundaryVertices ibe.2 ibe.1 ibv.1 ibv.2.2 ibv.2.1 mt.1 mt.2 ↔ v ∈ boundaryVertices S) ∧
    (∀ v, v < nv → Mouette.Generated.C01Acc.m_isVertexOnBorder ibe.2 ibe.1 ibv.1 ibv.2.2 ibv.2.1 mt.1 mt.2 v = isVertexOnBorder S v) ∧
    Mouette.Generated.C01Acc.m_isTriangular ibe.2 ibe.1 ibv.1 ibv.2.2 ibv.2.1 mt.1 mt.2 = isTriangular S ∧
    Mouette.Generated.C01Acc.m_isQuad ibe.2 ibe.1 ibv.1 ibv.2.2 ibv.2.1 mt.1 mt.2 = isQuad S := by
  intro S ibe ibv mt
  have h1 : ibe = (interiorEdges S, boundaryEdges S) := source_interior_boundary_edges_eq_model S
  have h2 : mt = (isTriangular S, isQuad S) := source_mesh_type_eq_model S
  obtain ⟨hv1, _, hv3, hv4⟩ := source_interior_boundary_vertices_eq_model (faces := faces) nv so hR
  refine ⟨?_, ?_, ?_, ?_, ?_, ?_, ?_⟩
  · show ibe.2 = _; rw [h1]
  · show ibe.1 = _; rw [h1]
  · exact hv4
  · exact hv1
  · exact hv3
  · show mt.1 = _; rw [h2]
  · show mt.2 = _; rw [h2]

/-- **bridge** `PolyLine._Connectivity._compute_connectivity` (the loop over the edges that fills the neighbour sets `_adjV2V`, then the
recast of every set as a list): on a built mesh whose face vertices are `< nv`, for every vertex id the set has exactly the elements of
the model's `neighbours` (= the vertices joined to it by an edge), each once -/
theorem source_polyline_compute_connectivity_eq_model {faces : Faces} (nv : Nat) (so : Bool) (hR : ∀ F ∈ faces, ∀ v ∈ F, v < nv)
    (v : Nat) (hv : v < nv) :
    (∀ w, w ∈ v2cnGet (Mouette.Generated.C01Acc.polyComputeConnectivity (build nv faces so)) v ↔ w ∈ neighbours (build nv faces so) v) ∧
    (v2cnGet (Mouette.Generated.C01Acc.polyComputeConnectivity (build nv faces so)) v).Nodup := by
  apply polyComputeConnectivity_bridge _ _ v hv
  intro e he
  have he' : e ∈ edgesOf faces := he
  obtain ⟨f, i, u, w, ⟨hf, hi, hu, hw⟩, rfl⟩ := mem_edgesOf.mp he'
  have hF : fa faces f ∈ faces := by
    have : fa faces f = faces[f] := by simp [fa, List.getD, hf]
    rw [this]; exact List.getElem_mem hf
  have hi' : (i + 1) % (fa faces f).length < (fa faces f).length := Nat.mod_lt _ (by omega)
  have hu' : u < nv := by rw [← hu, getD_eq_getElem hi]; exact hR _ hF _ (List.getElem_mem hi)
  have hw' : w < nv := by rw [← hw, getD_eq_getElem hi']; exact hR _ hF _ (List.getElem_mem hi')
  show (key2 u w).1 < nv ∧ (key2 u w).2 < nv
  unfold key2
  split <;> exact ⟨by assumption, by assumption⟩

example : Mouette.Generated.C01Acc.polyComputeConnectivity (build 4 [[0, 1, 2], [2, 1, 3]] true) = [[1, 2], [0, 2, 3], [1, 0, 3], [1, 2]] := by
  decide +kernel

end acc2

/-! non-vacuity: the translated functions run on two triangles sharing the edge 1-2 -/
example : (Mouette.Generated.C01HE.computeConnectivity (build 4 [[0, 1, 2], [2, 1, 3]] true)).2.2.2.1 =
    [((3, 2), [some 5, some 4, some 3, none, some 1, some 2, some 0]),
     ((1, 3), [some 4, some 3, some 5, none, some 1, some 1, some 2]),
     ((2, 1), [some 3, some 5, some 4, some 1, some 1, some 0, some 1]),
     ((2, 0), [some 2, some 1, some 0, none, some 0, some 2, some 0]),
     ((1, 2), [some 1, some 0, some 2, some 3, some 0, some 1, some 2]),
     ((0, 1), [some 0, some 2, some 1, none, some 0, some 0, some 1])] := by decide +kernel
example : Mouette.Generated.C01HE.oppositeFaceInds (build 4 [[0, 1, 2], [2, 1, 3]] true)
    (srcHE [[0, 1, 2], [2, 1, 3]] 4 true) (srcCN [[0, 1, 2], [2, 1, 3]] 4 true) (srcVF [[0, 1, 2], [2, 1, 3]] 4 true) 1 2 0 =
    (some 1, some 1, some 0) := by decide +kernel
example : Mouette.Generated.C01Src.computeInteriorBoundaryEdges (build 4 [[0, 1, 2], [2, 1, 3]] true) = ([1], [0, 2, 3, 4]) := by
  decide +kernel
example : Mouette.Generated.C01Src.isEdgeOnBorder (build 4 [[0, 1, 2], [2, 1, 3]] true) 1 2 = false ∧
    Mouette.Generated.C01Src.isEdgeOnBorder (build 4 [[0, 1, 2], [2, 1, 3]] true) 0 1 = true ∧
    Mouette.Generated.C01Src.isEdgeOnBorder (build 4 [[0, 1, 2], [2, 1, 3]] true) 0 3 = false := by decide +kernel
example : (Mouette.Generated.C01Src.computeInteriorBoundaryVertices (build 5 [[0, 1, 2], [2, 1, 3]] true)) =
    ([0, 1, 2, 3], [0, 1, 0, 2, 1, 3, 2, 3], [4]) := by decide +kernel
example : Mouette.Generated.C01Src.computeMeshType (build 4 [[0, 1, 2], [2, 1, 3]] true) = (true, false) := by decide +kernel
example : Mouette.Generated.C01Src.edgeId (build 4 [[0, 1, 2], [2, 1, 3]] true)
    (Mouette.Generated.C01Src.computeEdgeId (build 4 [[0, 1, 2], [2, 1, 3]] true)) 2 1 = some 1 := by decide +kernel

end Mouette.Props.C01
