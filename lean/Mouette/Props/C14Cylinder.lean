import Mouette.Props.C14Oriented
/-!
# C14 (continued) — the cylinder is consistently oriented for ALL N ≥ 3; closed when the caps are filled

Faces are addressed (`CF`); `cylinderFaces_eq` ties them to the translated loop nest of `cylinder`.
-/
namespace Mouette.Props.C14
open Mouette.Generated.C14 Mouette.MeshCheck Mouette.ListCount

inductive CF where
  | capB (i : Nat) | capT (i : Nat) | s1 (i : Nat) | s2 (i : Nat)
deriving DecidableEq

def cylFace (N : Nat) : CF → List Nat
  | .capB i => [i, (i + 1) % N, 2 * N]
  | .capT i => [i + N, 2 * N + 1, (i + 1) % N + N]
  | .s1 i => [i, N + i, (i + 1) % N]
  | .s2 i => [N + i, N + (i + 1) % N, (i + 1) % N]

def CF.idx : CF → Nat
  | .capB i => i | .capT i => i | .s1 i => i | .s2 i => i

def CF.isCap : CF → Bool
  | .capB _ => true | .capT _ => true | _ => false

theorem cylinderFaces_eq (N : Nat) :
    cylinderFaces N true = (List.range N).flatMap (fun i => [cylFace N (.capB i), cylFace N (.capT i)]) ++
      (List.range N).flatMap (fun i => [cylFace N (.s1 i), cylFace N (.s2 i)]) ∧
    cylinderFaces N false = (List.range N).flatMap (fun i => [cylFace N (.s1 i), cylFace N (.s2 i)]) := by
  constructor <;> (rw [cylinderFaces_norm]; simp [cylinderFacesCanon, cylFace])

/-- consistent orientation: a directed edge lies in at most one face (caps included) -/
theorem cylinder_oriented (N : Nat) (hN : 3 ≤ N) (f g : CF) (hf : f.idx < N) (hg : g.idx < N) (e : Nat × Nat)
    (h1 : e ∈ sides (cylFace N f)) (h2 : e ∈ sides (cylFace N g)) : f = g := by
  cases f <;> cases g <;> simp only [CF.idx] at hf hg <;>
  (rename_i i i'
   obtain ⟨p, q⟩ := e
   have a1 := succ_mod_cases N i hf
   have a2 := succ_mod_cases N i' hg
   simp only [cylFace, sides_tri, List.mem_cons, Prod.mk.injEq, List.mem_nil_iff, or_false] at h1 h2
   rcases h1 with ⟨hp, hq⟩ | ⟨hp, hq⟩ | ⟨hp, hq⟩ <;> rcases h2 with ⟨e1, e2⟩ | ⟨e1, e2⟩ | ⟨e1, e2⟩ <;>
     (first | (exfalso; omega) | (have hii : i = i' := by omega
                                  subst hii; rfl)))

/-- with filled caps the surface is closed: every directed edge has its opposite in some face -/
theorem cylinder_closed (N : Nat) (hN : 1 ≤ N) (f : CF) (hf : f.idx < N) (e : Nat × Nat)
    (h : e ∈ sides (cylFace N f)) : ∃ g : CF, g.idx < N ∧ (e.2, e.1) ∈ sides (cylFace N g) := by
  cases f with
  | capB i =>
    obtain ⟨p, q⟩ := e
    simp only [CF.idx] at hf
    have b1 : (i + 1) % N < N := Nat.mod_lt _ (by omega)
    simp only [cylFace, sides_tri, List.mem_cons, Prod.mk.injEq, List.mem_nil_iff, or_false] at h
    rcases h with ⟨hp, hq⟩ | ⟨hp, hq⟩ | ⟨hp, hq⟩ <;> simp only [hp, hq]
    · exact ⟨.s1 i, hf, by simp [cylFace, sides_tri]⟩
    · exact ⟨.capB ((i + 1) % N), b1, by simp [cylFace, sides_tri]⟩
    · exact ⟨.capB (pm N i), pm_lt N i (by omega), by simp [cylFace, sides_tri, pm_succ N i hf]⟩
  | capT i =>
    obtain ⟨p, q⟩ := e
    simp only [CF.idx] at hf
    have b1 : (i + 1) % N < N := Nat.mod_lt _ (by omega)
    simp only [cylFace, sides_tri, List.mem_cons, Prod.mk.injEq, List.mem_nil_iff, or_false] at h
    rcases h with ⟨hp, hq⟩ | ⟨hp, hq⟩ | ⟨hp, hq⟩ <;> simp only [hp, hq]
    · exact ⟨.capT (pm N i), pm_lt N i (by omega), by simp [cylFace, sides_tri, pm_succ N i hf]⟩
    · exact ⟨.capT ((i + 1) % N), b1, by simp [cylFace, sides_tri]⟩
    · exact ⟨.s2 i, hf, by simp [cylFace, sides_tri]; omega⟩
  | s1 i =>
    obtain ⟨p, q⟩ := e
    simp only [CF.idx] at hf
    have b1 : (i + 1) % N < N := Nat.mod_lt _ (by omega)
    simp only [cylFace, sides_tri, List.mem_cons, Prod.mk.injEq, List.mem_nil_iff, or_false] at h
    rcases h with ⟨hp, hq⟩ | ⟨hp, hq⟩ | ⟨hp, hq⟩ <;> simp only [hp, hq]
    · exact ⟨.s2 (pm N i), pm_lt N i (by omega), by simp [cylFace, sides_tri, pm_succ N i hf]⟩
    · exact ⟨.s2 i, hf, by simp [cylFace, sides_tri]⟩
    · exact ⟨.capB i, hf, by simp [cylFace, sides_tri]⟩
  | s2 i =>
    obtain ⟨p, q⟩ := e
    simp only [CF.idx] at hf
    have b1 : (i + 1) % N < N := Nat.mod_lt _ (by omega)
    simp only [cylFace, sides_tri, List.mem_cons, Prod.mk.injEq, List.mem_nil_iff, or_false] at h
    rcases h with ⟨hp, hq⟩ | ⟨hp, hq⟩ | ⟨hp, hq⟩ <;> simp only [hp, hq]
    · exact ⟨.capT i, hf, by simp [cylFace, sides_tri]; omega⟩
    · exact ⟨.s1 ((i + 1) % N), b1, by simp [cylFace, sides_tri]⟩
    · exact ⟨.s1 i, hf, by simp [cylFace, sides_tri]⟩

/-- without caps: the only unmatched directed edges are the 2N rim edges `(i+1)%N → i` and `N+i → N+(i+1)%N`
(two border loops: an annulus); every other side edge is matched inside the side faces -/
theorem cylinder_open_border (N : Nat) (hN : 1 ≤ N) (f : CF) (hf : f.idx < N) (hs : f.isCap = false) (e : Nat × Nat)
    (h : e ∈ sides (cylFace N f)) :
    (∃ g : CF, g.idx < N ∧ g.isCap = false ∧ (e.2, e.1) ∈ sides (cylFace N g)) ∨
    (∃ i, i < N ∧ (e = ((i + 1) % N, i) ∨ e = (N + i, N + (i + 1) % N))) := by
  cases f with
  | capB i => simp [CF.isCap] at hs
  | capT i => simp [CF.isCap] at hs
  | s1 i =>
    obtain ⟨p, q⟩ := e
    simp only [CF.idx] at hf
    simp only [cylFace, sides_tri, List.mem_cons, Prod.mk.injEq, List.mem_nil_iff, or_false] at h
    rcases h with ⟨hp, hq⟩ | ⟨hp, hq⟩ | ⟨hp, hq⟩ <;> simp only [hp, hq]
    · exact Or.inl ⟨.s2 (pm N i), pm_lt N i (by omega), rfl, by simp [cylFace, sides_tri, pm_succ N i hf]⟩
    · exact Or.inl ⟨.s2 i, hf, rfl, by simp [cylFace, sides_tri]⟩
    · exact Or.inr ⟨i, hf, Or.inl rfl⟩
  | s2 i =>
    obtain ⟨p, q⟩ := e
    simp only [CF.idx] at hf
    have b1 : (i + 1) % N < N := Nat.mod_lt _ (by omega)
    simp only [cylFace, sides_tri, List.mem_cons, Prod.mk.injEq, List.mem_nil_iff, or_false] at h
    rcases h with ⟨hp, hq⟩ | ⟨hp, hq⟩ | ⟨hp, hq⟩ <;> simp only [hp, hq]
    · exact Or.inr ⟨i, hf, Or.inr rfl⟩
    · exact Or.inl ⟨.s1 ((i + 1) % N), b1, rfl, by simp [cylFace, sides_tri]⟩
    · exact Or.inl ⟨.s1 i, hf, rfl, by simp [cylFace, sides_tri]⟩

end Mouette.Props.C14
