import Mouette.Lemmas.TurnsR
import Mouette.Lemmas.Prim
/-
C12, round 2 —
(1) the angle utilities as EXECUTABLE exact models in units of turns (`Model/Turns.lean`, `Prim.cotanPair`) and their link
    to the real-number specifications of `Lemmas/AnglesR.lean` (`principalAngle`, `angleDiff`, `rect1`, `atan2`);
(2) `AABB.pad`: the pad is clamped at 0, the padded box contains the original, and the array given as padding
    ARGUMENT is not modified (frame condition of the heap model, repaired code).
-/
namespace Mouette.Props.C12T
open Real Mouette.Angles Mouette.Turns Mouette.Prim Mouette.AABB Mouette.AABB.EQ Mouette.AABB.Box Mouette.BoxHist

/-! ### turns -/

/-- exact reduction: `principalTurn t` is congruent to `t` modulo 1 turn and lies in (−1/2, 1/2] -/
theorem principalTurn_exact (t : ℚ) :
    (∃ k : ℤ, principalTurn t = t - k) ∧ -(1 / 2) < principalTurn t ∧ principalTurn t ≤ 1 / 2 := by
  have h := fractTurn_range t
  unfold principalTurn
  split_ifs with hc
  · refine ⟨⟨Rat.floor t + 1, by unfold fractTurn; push_cast; ring⟩, by linarith, by linarith⟩
  · refine ⟨⟨Rat.floor t, by unfold fractTurn; ring⟩, by linarith, by linarith⟩

/-- the executable model IS the real specification on exact inputs: `principal_angle(2π·t) = 2π·principalTurn t` -/
theorem principalTurn_spec (t : ℚ) : principalAngle (2 * π * (t : ℝ)) = 2 * π * ((principalTurn t : ℚ) : ℝ) := by
  unfold principalAngle principalTurn
  rw [pmod_turn]
  have hpi := pi_pos
  by_cases hc : (1 / 2 : ℚ) < fractTurn t
  · have hc' : ((1 / 2 : ℚ) : ℝ) < ((fractTurn t : ℚ) : ℝ) := by exact_mod_cast hc
    push_cast at hc'
    rw [if_pos (by nlinarith), if_pos hc]
    push_cast; ring
  · have hc' : ¬ ((1 / 2 : ℚ) : ℝ) < ((fractTurn t : ℚ) : ℝ) := by exact_mod_cast hc
    push_cast at hc'
    rw [if_neg (by nlinarith), if_neg hc]

/-- exact reduction: `angleDiffTurn ta tb` is congruent to `ta − tb` modulo 1 turn and lies in [−1/2, 1/2) -/
theorem angleDiffTurn_exact (ta tb : ℚ) :
    (∃ k : ℤ, angleDiffTurn ta tb = (ta - tb) - k) ∧ -(1 / 2) ≤ angleDiffTurn ta tb ∧ angleDiffTurn ta tb < 1 / 2 := by
  have h := fractTurn_range (ta - tb + 1 / 2)
  unfold angleDiffTurn
  refine ⟨⟨Rat.floor (ta - tb + 1 / 2), by unfold fractTurn; ring⟩, by linarith, by linarith⟩

/-- `angle_diff(2π·ta, 2π·tb) = 2π·angleDiffTurn ta tb` -/
theorem angleDiffTurn_spec (ta tb : ℚ) :
    angleDiff (2 * π * (ta : ℝ)) (2 * π * (tb : ℝ)) = 2 * π * ((angleDiffTurn ta tb : ℚ) : ℝ) := by
  unfold angleDiff angleDiffTurn
  have e : 2 * π * (ta : ℝ) - 2 * π * (tb : ℝ) + π = 2 * π * (((ta - tb + 1 / 2 : ℚ)) : ℝ) := by push_cast; ring
  rw [e, pmod_turn]
  push_cast; ring

/-- `roots(c, n)` for a unit `c` at `t` turns: `n` values, at `(t + k)/n` turns, each of which raised to `n` gives `c` back -/
theorem rootTurns_pow (t : ℚ) (n : ℕ) (hn : 0 < n) :
    (rootTurns t n).length = n ∧
    ∀ r ∈ rootTurns t n, (rect1 (2 * π * ((r : ℚ) : ℝ))) ^ n = rect1 (2 * π * (t : ℝ)) := by
  refine ⟨by simp [rootTurns], ?_⟩
  intro r hr
  simp only [rootTurns, List.mem_map, List.mem_range] at hr
  obtain ⟨k, _, rfl⟩ := hr
  unfold rect1
  rw [← Complex.exp_nat_mul]
  have hn' : (n : ℂ) ≠ 0 := by exact_mod_cast hn.ne'
  have e : (n : ℂ) * (((2 * π * (((t + (k : ℚ)) / (n : ℚ) : ℚ) : ℝ) : ℝ) : ℂ) * Complex.I)
      = ((2 * π * (t : ℝ) : ℝ) : ℂ) * Complex.I + (k : ℂ) * (2 * π * Complex.I) := by
    push_cast; field_simp
  rw [e, Complex.exp_add, Complex.exp_nat_mul_two_pi_mul_I, mul_one]

/-- the `(dot, |cross|²)` pair of `cotan` scales homogeneously: normalising `BA` and `BC` (as the code does) multiplies the
first component by `λμ` and the second by `(λμ)²`, so `first / sqrt second` is unchanged for `λμ > 0` -/
theorem cotanPair_scale (a b : V3) (l m : Rat) :
    V3.dot (V3.smul l a) (V3.smul m b) = l * m * V3.dot a b ∧
    V3.norm2 (V3.cross (V3.smul l a) (V3.smul m b)) = (l * m) * (l * m) * V3.norm2 (V3.cross a b) := by
  constructor <;> simp only [V3.dot, V3.norm2, V3.cross, V3.smul] <;> ring

/-- `cotan` and `angle_3pts` read the same two quantities: `cotanPair = swap (angle3)`, hence (with `cotan_reciprocal_tan`)
`cotan(A,B,C) = 1 / tan(angle_3pts(A,B,C))` -/
theorem cotanPair_eq_angle3 (A B C : V3) : cotanPair A B C = ((angle3 A B C).2, (angle3 A B C).1) := rfl

/-! ### `AABB.pad` -/

/-- the pad is clamped at 0: padding with `p` is padding with `max(p, 0)` (negative entries do nothing) -/
theorem pad_clamped (b : Box) (p : List Rat) : b.pad p = b.pad (p.map (fun x => rmax x 0)) := by
  unfold Box.pad
  simp only [List.length_map, List.map_map]
  have : ((fun x => rmax x 0) ∘ fun x => rmax x 0) = fun x => rmax x 0 := by
    funext x; simp [rmax_zero_idem]
  rw [this]

/-- the padded box contains the original one: minima do not increase, maxima do not decrease, for EVERY padding vector -/
theorem pad_superset (b b' : Box) (p : List Rat) (hl : b.lo.length = b.hi.length) (h : b.pad p = some b') :
    AllLe b'.lo b.lo ∧ AllLe b.hi b'.hi := by
  unfold Box.pad at h
  split at h
  · rename_i hp
    simp only [Option.some.injEq] at h
    subst h
    have hp' : p.length = b.lo.length := hp
    have hnn : ∀ x ∈ p.map (fun x => rmax x 0), 0 ≤ x := by
      intro x hx; obtain ⟨y, _, rfl⟩ := List.mem_map.mp hx; exact rmax_zero_nonneg y
    exact ⟨zipWith_sub_le (by simp [hp']) hnn, le_zipWith_add (by simp [hp', ← hl]) hnn⟩
  · cases h

/-- in the heap model: after `b.pad(vector i)` (repaired code) the box of `b` contains its former self, the padding
ARGUMENT array `i` (a caller array) is unchanged, and so is every other caller array -/
theorem padv_frame (n : Nat) (s : State) (h : Owned n s) (b i : Nat) :
    (step s (.padv b i)).1.heap.take n = s.heap.take n ∧
    (i < n → (step s (.padv b i)).1.get i = s.get i) := by
  have f := step_frame h (.padv b i)
  refine ⟨f.caller, ?_⟩
  intro hi
  have := congrArg (fun l => l.getD i []) f.caller
  simp only [List.getD_eq_getElem?_getD, List.getElem?_take, hi, if_true] at this
  simpa [State.get, List.getD_eq_getElem?_getD] using this

/-- the box after `pad` (heap model, box owning two distinct arrays) is `Box.pad` of the box before -/
theorem padAt_box (s s' : State) (b : BoxRef) (p : List Rat) (hne : b.lo ≠ b.hi)
    (hlo : b.lo < s.heap.length) (hhi : b.hi < s.heap.length) (h : padAt s b p = some s') :
    (s.box b).pad p = some (s'.box b) := by
  unfold padAt at h
  split at h
  · rename_i hp
    simp only [Option.some.injEq] at h
    subst h
    unfold Box.pad
    rw [if_pos hp]
    simp only [State.box, State.get, List.getD_eq_getElem?_getD, Option.some.injEq]
    have e1 : ((s.heap.set b.lo (List.zipWith (fun l x => l.addR (-x)) (s.heap[b.lo]?.getD []) (p.map fun x => rmax x 0)))[b.hi]?)
        = s.heap[b.hi]? := List.getElem?_set_ne hne
    congr 1
    · rw [List.getElem?_set_ne (Ne.symm hne), List.getElem?_set_self hlo]; rfl
    · rw [e1, List.getElem?_set_self (by simpa using hhi)]; rfl
  · cases h

end Mouette.Props.C12T
