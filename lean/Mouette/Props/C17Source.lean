import Mouette.Lemmas.TutteBridge3
import Mouette.Lemmas.TutteMaxPrinciple
import Mouette.Props.C17
/-!
# C17 (round 4) — the system the SOURCE assembles, and the discrete maximum principle

`vlib/gen/c17_translate.py` re-extracts on every run (`Generated/C17Sys.lean`) the Laplacian assembly of
`laplacian_op.py: laplacian` (weights, pairing, the four COO writes per pair, `n_coeffs`, the selection of the cotangents),
the sub-matrices / right-hand sides / solves / storage loops of `TutteEmbedding.run`, the `from_string` table and the keys
read by `flat_mesh`. This file proves

* BRIDGES: the triplets assembled from the translated pieces are the model's (`laplacian_source`); a solution of the
  system as written (`lap[free,:][:,free] x = −lap[free,:][:,bnd] x_B`) puts every free vertex at the weighted average of
  its neighbours (`system_source`); the storage loops write the model's slots and per-corner = per-vertex
  (`storage_source`); `from_string_source`; `flat_mesh_source` (corner `3T+i` is corner `i` of face `T`);
* PART B — the DISCRETE MAXIMUM PRINCIPLE on exact rationals (`max_principle_model`, `interior_in_every_halfplane_of_border`,
  `interior_strictly_inside_halfplane`, `tutte_interior_in_hull_source`): with positive weights (uniform always; cotangent when
  every corner cotangent is positive), neighbours of free vertices free or on the border, and every free vertex joined to the
  border by a path of free vertices, EVERY closed half-plane that contains the border positions contains every interior
  position (i.e. the interior lies in the convex hull of the border positions), strictly as soon as the vertex reaches a
  border vertex that is strictly inside the half-plane (for a strictly convex border polygon every supporting line misses a
  border vertex, so a connected interior is strictly inside the polygon).
NOT proved: Tutte/Floater (no flipped triangle) — the maximum principle is its first half.
-/
namespace Mouette.Props.C17Source
open Mouette Mouette.Tutte Mouette.Generated

/-! ## bridges -/

/-- the Laplacian as written in `laplacian_op.py` (uniform weights `0.5`, cotangent weights `cot/2` for `(p,q,r)`, pairing
`[(p,q,c),(q,r,a),(r,p,b)]`, entries `(i,i,v),(j,j,v),(i,j,−v),(j,i,−v)`, `12·|F|` coefficients, cotangents chosen by the flag
first) is the model's triplet list -/
theorem laplacian_source (cot : Option (List Rat)) (F : List (List Nat)) :
    genLapFrom cot 0 F = lapTriplets cot F ∧ (lapTriplets cot F).length = C17S.lapNCoeffs F.length ∧
    C17S.lapCotSelection = ("flag", "cotan") :=
  ⟨bridge_lapTriplets cot F 0, bridge_lapNCoeffs cot F, bridge_lapCotSelection⟩

/-- every row of the Laplacian assembled from the translated pieces sums to zero -/
theorem lap_row_sums_zero_source (cot : Option (List Rat)) (F : List (List Nat)) (r : Nat) :
    rowSum (genLapFrom cot 0 F) r = 0 := by
  rw [bridge_lapTriplets]; exact Props.C17.lap_row_sums_zero cot F r

theorem cover_of_faces (cot : Option (List Rat)) (F : List (List Nat)) (free bnd : List Nat)
    (tri : ∀ f, f ∈ F → f.length = 3) (cover : ∀ f, f ∈ F → ∀ x, x ∈ f → x ∈ free ++ bnd) :
    ∀ t, t ∈ lapTriplets cot F → t.2.1 ∈ free ++ bnd := by
  intro t ht
  obtain ⟨f, hf, _, hc⟩ := mem_lapTripletsFrom cot F 0 t tri ht
  exact cover f hf _ hc

/-- THE SYSTEM AS WRITTEN: if `u` restricted to `freeInds` solves `LI x = −LB·u_B` (matrices selected from the Laplacian by
`[freeInds,:][:,freeInds]` and `[freeInds,:][:,bndInds]`, as `run` does), then every free vertex is at the weighted average of
its neighbours. `spsolve` itself is not modelled: its answer is the hypothesis `hsol`. -/
theorem system_source (cot : Option (List Rat)) (F : List (List Nat)) (free bnd : List Nat) (u : Nat → Rat)
    (tri : ∀ f, f ∈ F → f.length = 3) (nd : (free ++ bnd).Nodup)
    (cover : ∀ f, f ∈ F → ∀ x, x ∈ f → x ∈ free ++ bnd)
    (hsol : (C17S.sysA (entry (lapTriplets cot F)) free bnd).map (fun row => dotL row (free.map u)) =
      C17S.sysRhs (C17S.sysB (entry (lapTriplets cot F)) free bnd) (bnd.map u)) :
    ∀ r, r ∈ free → wSum (lapTriplets cot F) r * u r = wDot (lapTriplets cot F) u r := by
  intro r hr
  apply Props.C17.interior_is_weighted_average
  exact mulRow_zero_of_source_system _ free bnd u nd hsol r hr
    (fun t ht _ => cover_of_faces cot F free bnd tri cover t ht)

/-- the storage loops as written produce the model's writes, and per-corner storage agrees with per-vertex storage -/
theorem storage_source (free bnd cv : List Nat) (nV c : Nat) (hc : c < cv.length) (hv : cv.getD c 0 < nV) :
    C17S.storeVertex free bnd = writes free bnd ∧ C17S.storeCorner free bnd = writes free bnd ∧
    (cornerStore cv (C17S.storeCorner free bnd)).getD c Src.zero =
      (vertexStore nV (C17S.storeVertex free bnd)).getD (cv.getD c 0) Src.zero := by
  obtain ⟨a, b⟩ := bridge_store free bnd
  exact ⟨a, b, by rw [a, b]; exact Props.C17.storage_agree free bnd cv nV c hc hv⟩

/-- `from_string`: "circle" ↦ CIRCLE, "square" ↦ SQUARE (the two strings `check_argument` accepts), tested in this order -/
theorem from_string_source :
    C17S.fromStringTable.lookup "circle" = (C17S.boundaryModes.lookup "CIRCLE") ∧
    C17S.fromStringTable.lookup "square" = (C17S.boundaryModes.lookup "SQUARE") ∧
    C17S.fromStringTable.map Prod.fst = ["circle", "square", "custom"] := by
  obtain ⟨a, b⟩ := bridge_fromString
  rw [a, b]; decide

/-- `flat_mesh` reads, for corner `i` of face `T`, the slot of that corner (per-corner storage) or of its vertex -/
theorem flat_mesh_source (F : List (List Nat)) (tri : ∀ f, f ∈ F → f.length = 3) (t i : Nat) (ht : t < F.length)
    (hi : i < 3) :
    F.flatten.getD (C17S.flatCornerKey t i) 0 = (F.getD t []).getD i 0 ∧
    C17S.flatVertexKey ((F.getD t []).getD i 0) = (F.getD t []).getD i 0 := by
  rw [(bridge_flatKeys t i 0).1, (bridge_flatKeys t i ((F.getD t []).getD i 0)).2]
  exact ⟨flatten_getD_tri F tri t i ht hi, rfl⟩

/-- `__init__` as written: only "square" / "circle" are accepted; without a custom boundary the mode is the one `from_string`
returns, with a custom boundary it is CUSTOM whatever string was passed; per-corner storage is the default -/
theorem init_source :
    C17S.initAllowedModes = ["square", "circle"] ∧ (∀ m, C17S.initMode false m = m) ∧
    (∀ m, some (C17S.initMode true m) = C17S.boundaryModes.lookup "CUSTOM") ∧
    C17S.initKeys = ("custom_boundary", "use_cotan") ∧ C17S.baseSaveOnCorners = ("save_on_corners", true) := by
  obtain ⟨a, b, c, d, e⟩ := bridge_init
  refine ⟨a, b, ?_, d, e⟩
  intro m
  rw [c m, (bridge_fromString).1]; rfl

/-! ## Part B: the discrete maximum principle -/

/-- neighbours of free vertices are free or border vertices as soon as the two lists cover the faces -/
theorem closed_of_cover (cot : Option (List Rat)) (F : List (List Nat)) (free bnd : List Nat)
    (tri : ∀ f, f ∈ F → f.length = 3) (cover : ∀ f, f ∈ F → ∀ x, x ∈ f → x ∈ free ++ bnd) :
    ∀ r, r ∈ free → ∀ j, Nbr (lapTriplets cot F) r j → j ∈ free ∨ j ∈ bnd := by
  rintro r _ j ⟨t, ht, _, h2, _⟩
  have := cover_of_faces cot F free bnd tri cover t ht
  rw [h2] at this
  exact List.mem_append.mp this

/-- Scalar maximum principle for the model's Laplacian: uniform weights (`cot = none`) or cotangent weights with every
corner cotangent positive. -/
theorem max_principle_model (cot : Option (List Rat)) (hpos : ∀ l, cot = some l → ∀ k, 0 < l.getD k 0)
    (F : List (List Nat)) (free bnd : List Nat) (g : Nat → Rat) (c : Rat)
    (hharm : ∀ r, r ∈ free → wSum (lapTriplets cot F) r * g r = wDot (lapTriplets cot F) g r)
    (closed : ∀ r, r ∈ free → ∀ j, Nbr (lapTriplets cot F) r j → j ∈ free ∨ j ∈ bnd)
    (conn : ∀ r, r ∈ free → ∃ b, b ∈ bnd ∧ Reach (lapTriplets cot F) free r b)
    (hb : ∀ b, b ∈ bnd → g b ≤ c) : ∀ r, r ∈ free → g r ≤ c :=
  max_principle _ free bnd g c (fun r _ => offNeg_lapTriplets cot hpos F r) hharm closed conn hb

/-- CONVEX HULL: every closed half-plane `α x + β y ≤ c` that contains all border positions contains every interior
position. -/
theorem interior_in_every_halfplane_of_border (cot : Option (List Rat))
    (hpos : ∀ l, cot = some l → ∀ k, 0 < l.getD k 0) (F : List (List Nat)) (free bnd : List Nat) (u v : Nat → Rat)
    (hu : ∀ r, r ∈ free → wSum (lapTriplets cot F) r * u r = wDot (lapTriplets cot F) u r)
    (hv : ∀ r, r ∈ free → wSum (lapTriplets cot F) r * v r = wDot (lapTriplets cot F) v r)
    (closed : ∀ r, r ∈ free → ∀ j, Nbr (lapTriplets cot F) r j → j ∈ free ∨ j ∈ bnd)
    (conn : ∀ r, r ∈ free → ∃ b, b ∈ bnd ∧ Reach (lapTriplets cot F) free r b)
    (α β c : Rat) (hb : ∀ b, b ∈ bnd → α * u b + β * v b ≤ c) :
    ∀ r, r ∈ free → α * u r + β * v r ≤ c :=
  max_principle_model cot hpos F free bnd (fun x => α * u x + β * v x) c
    (fun r hr => harmonic_linear _ u v α β r (hu r hr) (hv r hr)) closed conn hb

/-- STRICTLY INSIDE: if moreover the free vertex `r` is joined (through free vertices) to a border vertex `b0` that is
strictly inside the half-plane, then `r` is strictly inside it. For a strictly convex border polygon every supporting line
misses some border vertex; with a connected interior every interior vertex is then strictly inside every supporting
half-plane, i.e. strictly inside the polygon. -/
theorem interior_strictly_inside_halfplane (cot : Option (List Rat))
    (hpos : ∀ l, cot = some l → ∀ k, 0 < l.getD k 0) (F : List (List Nat)) (free bnd : List Nat) (u v : Nat → Rat)
    (hu : ∀ r, r ∈ free → wSum (lapTriplets cot F) r * u r = wDot (lapTriplets cot F) u r)
    (hv : ∀ r, r ∈ free → wSum (lapTriplets cot F) r * v r = wDot (lapTriplets cot F) v r)
    (closed : ∀ r, r ∈ free → ∀ j, Nbr (lapTriplets cot F) r j → j ∈ free ∨ j ∈ bnd)
    (conn : ∀ r, r ∈ free → ∃ b, b ∈ bnd ∧ Reach (lapTriplets cot F) free r b)
    (α β c : Rat) (hb : ∀ b, b ∈ bnd → α * u b + β * v b ≤ c)
    {r b0 : Nat} (hr : r ∈ free) (hp : Reach (lapTriplets cot F) free r b0) (hb0 : α * u b0 + β * v b0 < c) :
    α * u r + β * v r < c :=
  max_principle_strict _ free bnd (fun x => α * u x + β * v x) c
    (fun r _ => offNeg_lapTriplets cot hpos F r)
    (fun r hr => harmonic_linear _ u v α β r (hu r hr) (hv r hr)) closed conn hb hr hp hb0

/-- STRICTLY CONVEX BORDER (round 5): if at most two border positions lie on the line `α x + β y = c` of a supporting
half-plane (what strict convexity of the border polygon means: circle target, strictly convex custom target) and the free
vertex `r` reaches three distinct border vertices, then `r` is strictly inside that half-plane. -/
theorem interior_strictly_inside_of_strictly_convex_border (cot : Option (List Rat))
    (hpos : ∀ l, cot = some l → ∀ k, 0 < l.getD k 0) (F : List (List Nat)) (free bnd : List Nat) (u v : Nat → Rat)
    (hu : ∀ r, r ∈ free → wSum (lapTriplets cot F) r * u r = wDot (lapTriplets cot F) u r)
    (hv : ∀ r, r ∈ free → wSum (lapTriplets cot F) r * v r = wDot (lapTriplets cot F) v r)
    (closed : ∀ r, r ∈ free → ∀ j, Nbr (lapTriplets cot F) r j → j ∈ free ∨ j ∈ bnd)
    (conn : ∀ r, r ∈ free → ∃ b, b ∈ bnd ∧ Reach (lapTriplets cot F) free r b)
    (α β c : Rat) (hb : ∀ b, b ∈ bnd → α * u b + β * v b ≤ c)
    (strict : ∀ b1 b2 b3, b1 ∈ bnd → b2 ∈ bnd → b3 ∈ bnd → b1 ≠ b2 → b1 ≠ b3 → b2 ≠ b3 →
      ¬ (α * u b1 + β * v b1 = c ∧ α * u b2 + β * v b2 = c ∧ α * u b3 + β * v b3 = c))
    {r b1 b2 b3 : Nat} (hr : r ∈ free) (m1 : b1 ∈ bnd) (m2 : b2 ∈ bnd) (m3 : b3 ∈ bnd)
    (d12 : b1 ≠ b2) (d13 : b1 ≠ b3) (d23 : b2 ≠ b3)
    (p1 : Reach (lapTriplets cot F) free r b1) (p2 : Reach (lapTriplets cot F) free r b2)
    (p3 : Reach (lapTriplets cot F) free r b3) :
    α * u r + β * v r < c := by
  have key := fun (b0 : Nat) (p : Reach (lapTriplets cot F) free r b0) (h : α * u b0 + β * v b0 < c) =>
    interior_strictly_inside_halfplane cot hpos F free bnd u v hu hv closed conn α β c hb hr p h
  by_cases e1 : α * u b1 + β * v b1 = c
  · by_cases e2 : α * u b2 + β * v b2 = c
    · have e3 : α * u b3 + β * v b3 ≠ c := fun e3 => strict b1 b2 b3 m1 m2 m3 d12 d13 d23 ⟨e1, e2, e3⟩
      exact key b3 p3 (lt_of_le_of_ne (hb b3 m3) e3)
    · exact key b2 p2 (lt_of_le_of_ne (hb b2 m2) e2)
  · exact key b1 p1 (lt_of_le_of_ne (hb b1 m1) e1)

/-- SQUARE TARGET (round 5): border positions in the closed unit square (what `square_boundary_on_square` gives); a free vertex
that reaches the border vertices placed at the corners `(0,0)` and `(1,1)` lies in the OPEN unit square. (A vertex that only
reaches border vertices of one side lies on that side: the open finding "pocket behind a chord".) -/
theorem interior_strictly_inside_unit_square (cot : Option (List Rat))
    (hpos : ∀ l, cot = some l → ∀ k, 0 < l.getD k 0) (F : List (List Nat)) (free bnd : List Nat) (u v : Nat → Rat)
    (hu : ∀ r, r ∈ free → wSum (lapTriplets cot F) r * u r = wDot (lapTriplets cot F) u r)
    (hv : ∀ r, r ∈ free → wSum (lapTriplets cot F) r * v r = wDot (lapTriplets cot F) v r)
    (closed : ∀ r, r ∈ free → ∀ j, Nbr (lapTriplets cot F) r j → j ∈ free ∨ j ∈ bnd)
    (conn : ∀ r, r ∈ free → ∃ b, b ∈ bnd ∧ Reach (lapTriplets cot F) free r b)
    (hbox : ∀ b, b ∈ bnd → OnSquare (u b, v b))
    {r p q : Nat} (hr : r ∈ free) (hp : Reach (lapTriplets cot F) free r p) (hq : Reach (lapTriplets cot F) free r q)
    (p00 : u p = 0 ∧ v p = 0) (q11 : u q = 1 ∧ v q = 1) :
    0 < u r ∧ u r < 1 ∧ 0 < v r ∧ v r < 1 := by
  have S := fun (α β c : Rat) (hb : ∀ b, b ∈ bnd → α * u b + β * v b ≤ c) (b0 : Nat)
      (pp : Reach (lapTriplets cot F) free r b0) (h : α * u b0 + β * v b0 < c) =>
    interior_strictly_inside_halfplane cot hpos F free bnd u v hu hv closed conn α β c hb hr pp h
  have h1 := S 1 0 1 (fun b hb => by have := (hbox b hb).1; simp only [] at this; linarith) p hp (by rw [p00.1, p00.2]; norm_num)
  have h2 := S (-1) 0 0 (fun b hb => by have := (hbox b hb).1; simp only [] at this; linarith) q hq (by rw [q11.1, q11.2]; norm_num)
  have h3 := S 0 1 1 (fun b hb => by have := (hbox b hb).1; simp only [] at this; linarith) p hp (by rw [p00.1, p00.2]; norm_num)
  have h4 := S 0 (-1) 0 (fun b hb => by have := (hbox b hb).1; simp only [] at this; linarith) q hq (by rw [q11.1, q11.2]; norm_num)
  refine ⟨by linarith, by linarith, by linarith, by linarith⟩

/-- The two together, from the system AS WRITTEN IN THE SOURCE: if `(u, v)` restricted to `freeInds` solve the two systems
`run` hands to `spsolve`, the faces are triangles covered by the duplicate-free `freeInds ++ bndInds`, and every free vertex
reaches the border, then the interior positions lie in every half-plane that contains the border positions. -/
theorem tutte_interior_in_hull_source (cot : Option (List Rat)) (hpos : ∀ l, cot = some l → ∀ k, 0 < l.getD k 0)
    (F : List (List Nat)) (free bnd : List Nat) (u v : Nat → Rat)
    (tri : ∀ f, f ∈ F → f.length = 3) (nd : (free ++ bnd).Nodup)
    (cover : ∀ f, f ∈ F → ∀ x, x ∈ f → x ∈ free ++ bnd)
    (hsolU : (C17S.sysA (entry (lapTriplets cot F)) free bnd).map (fun row => dotL row (free.map u)) =
      C17S.sysRhs (C17S.sysB (entry (lapTriplets cot F)) free bnd) (bnd.map u))
    (hsolV : (C17S.sysA (entry (lapTriplets cot F)) free bnd).map (fun row => dotL row (free.map v)) =
      C17S.sysRhs (C17S.sysB (entry (lapTriplets cot F)) free bnd) (bnd.map v))
    (conn : ∀ r, r ∈ free → ∃ b, b ∈ bnd ∧ Reach (lapTriplets cot F) free r b)
    (α β c : Rat) (hb : ∀ b, b ∈ bnd → α * u b + β * v b ≤ c) :
    ∀ r, r ∈ free → α * u r + β * v r ≤ c :=
  interior_in_every_halfplane_of_border cot hpos F free bnd u v
    (system_source cot F free bnd u tri nd cover hsolU) (system_source cot F free bnd v tri nd cover hsolV)
    (closed_of_cover cot F free bnd tri cover) conn α β c hb

/-! ## non-vacuity -/

/-- fan of four triangles around vertex 4 (uniform weights): vertex 4 is free, reaches border vertex 0, its row has
positive weights, and the centre `u₄ = (u₀+u₁+u₂+u₃)/4` solves the system as written -/
example : Reach (lapTriplets none [[0, 1, 4], [1, 2, 4], [2, 3, 4], [3, 0, 4]]) [4] 4 0 :=
  Reach.step (by simp) ⟨(4, 0, -1 / 2), by decide +kernel, rfl, rfl, by decide⟩ (Reach.refl 0)
example : genLapFrom none 0 [[0, 1, 4]] =
    [(0, 0, 1/2), (1, 1, 1/2), (0, 1, -1/2), (1, 0, -1/2), (1, 1, 1/2), (4, 4, 1/2), (1, 4, -1/2), (4, 1, -1/2),
     (4, 4, 1/2), (0, 0, 1/2), (4, 0, -1/2), (0, 4, -1/2)] := by decide +kernel
example : let L := lapTriplets none [[0, 1, 4], [1, 2, 4], [2, 3, 4], [3, 0, 4]]
    let u : Nat → Rat := fun x => if x = 4 then 1 / 2 else if x = 0 ∨ x = 3 then 0 else 1
    (C17S.sysA (entry L) [4] [0, 1, 2, 3]).map (fun row => dotL row ([4].map u)) =
      C17S.sysRhs (C17S.sysB (entry L) [4] [0, 1, 2, 3]) ([0, 1, 2, 3].map u) := by decide +kernel
example : (C17S.storeVertex [4] [0, 1, 2, 3]) = [(4, Src.free 0), (0, Src.bnd 0), (1, Src.bnd 1), (2, Src.bnd 2), (3, Src.bnd 3)] := by
  decide

/-! ### non-vacuity of the strict theorems (round 6): the fan of four triangles, border on the four corners of the square -/

private def fanF : List (List Nat) := [[0, 1, 4], [1, 2, 4], [2, 3, 4], [3, 0, 4]]
private def fanU : Nat → Rat := fun x => if x = 4 then 1 / 2 else if x = 1 ∨ x = 2 then 1 else 0
private def fanV : Nat → Rat := fun x => if x = 4 then 1 / 2 else if x = 2 ∨ x = 3 then 1 else 0

private theorem fan_cols : ∀ t, t ∈ lapTriplets none fanF → t.2.1 ∈ [0, 1, 2, 3, 4] := by decide +kernel

private theorem fan_closed : ∀ r, r ∈ [4] → ∀ j, Nbr (lapTriplets none fanF) r j → j ∈ [4] ∨ j ∈ [0, 1, 2, 3] := by
  rintro r _ j ⟨t, ht, _, h2, _⟩
  have := fan_cols t ht
  rw [h2] at this
  simp only [List.mem_cons, List.mem_nil_iff, or_false] at this ⊢
  omega

private theorem fan_reach (b : Nat) (hb : b < 4) : Reach (lapTriplets none fanF) [4] 4 b := by
  refine Reach.step (by simp) ⟨(4, b, -1 / 2), ?_, rfl, rfl, Nat.ne_of_lt hb⟩ (Reach.refl b)
  have h : ∀ b, b < 4 → ((4, b, (-1 / 2 : Rat)) : Triplet) ∈ lapTriplets none fanF := by decide +kernel
  exact h b hb

private theorem fan_harmonic (g : Nat → Rat) (h : 4 * g 4 = g 0 + g 1 + g 2 + g 3) :
    ∀ r, r ∈ [4] → wSum (lapTriplets none fanF) r * g r = wDot (lapTriplets none fanF) g r := by
  intro r hr
  simp only [List.mem_cons, List.mem_nil_iff, or_false] at hr
  subst hr
  have hw : wSum (lapTriplets none fanF) 4 = 4 := by decide +kernel
  have hd : wDot (lapTriplets none fanF) g 4 = g 0 + g 1 + g 2 + g 3 := by
    simp [wDot, lapTriplets, lapTripletsFrom, faceTriplets, edgeTriplets, fanF]
    ring
  rw [hw, hd]; exact h

/-- `interior_strictly_inside_unit_square` applies: all its hypotheses hold for the fan (centre strictly inside the square) -/
example : 0 < fanU 4 ∧ fanU 4 < 1 ∧ 0 < fanV 4 ∧ fanV 4 < 1 :=
  interior_strictly_inside_unit_square none (fun l h => by cases h) fanF [4] [0, 1, 2, 3] fanU fanV
    (fan_harmonic fanU (by simp [fanU]; norm_num)) (fan_harmonic fanV (by simp [fanV]; norm_num)) fan_closed
    (fun r hr => ⟨0, by simp, by simp only [List.mem_cons, List.mem_nil_iff, or_false] at hr; subst hr; exact fan_reach 0 (by omega)⟩)
    (fun b hb => by
      simp only [List.mem_cons, List.mem_nil_iff, or_false] at hb
      rcases hb with rfl | rfl | rfl | rfl <;> (unfold OnSquare; simp [fanU, fanV]))
    (by simp) (fan_reach 0 (by omega)) (fan_reach 2 (by omega)) (by simp [fanU, fanV]) (by simp [fanU, fanV])

/-- `interior_strictly_inside_of_strictly_convex_border` applies to the same fan for the half-plane `x ≤ 1`: only the two
border vertices 1 and 2 lie on the line `x = 1`, the centre reaches 0, 1, 2, hence `u₄ < 1` -/
example : 1 * fanU 4 + 0 * fanV 4 < 1 :=
  interior_strictly_inside_of_strictly_convex_border none (fun l h => by cases h) fanF [4] [0, 1, 2, 3] fanU fanV
    (fan_harmonic fanU (by simp [fanU]; norm_num)) (fan_harmonic fanV (by simp [fanV]; norm_num)) fan_closed
    (fun r hr => ⟨0, by simp, by simp only [List.mem_cons, List.mem_nil_iff, or_false] at hr; subst hr; exact fan_reach 0 (by omega)⟩)
    1 0 1
    (fun b hb => by
      simp only [List.mem_cons, List.mem_nil_iff, or_false] at hb
      rcases hb with rfl | rfl | rfl | rfl <;> simp [fanU, fanV])
    (fun b1 b2 b3 m1 m2 m3 d12 d13 d23 => by
      simp only [List.mem_cons, List.mem_nil_iff, or_false] at m1 m2 m3
      rintro ⟨e1, e2, e3⟩
      have k : ∀ b, b = 0 ∨ b = 1 ∨ b = 2 ∨ b = 3 → 1 * fanU b + 0 * fanV b = 1 → b = 1 ∨ b = 2 := by
        intro b hb hbe
        rcases hb with rfl | rfl | rfl | rfl
        · simp [fanU] at hbe
        · exact Or.inl rfl
        · exact Or.inr rfl
        · simp [fanU] at hbe
      have := k b1 m1 e1; have := k b2 m2 e2; have := k b3 m3 e3
      omega)
    (r := 4) (b1 := 0) (b2 := 1) (b3 := 2) (by simp) (by simp) (by simp) (by simp) (by omega) (by omega) (by omega)
    (fan_reach 0 (by omega)) (fan_reach 1 (by omega)) (fan_reach 2 (by omega))

end Mouette.Props.C17Source
