import Mouette.Props.C14NoRepeat
import Mouette.Lemmas.C14Distinct
/-!
# C14 (round 5) — no two faces with the same vertex set (no reversed / re-ordered copy of a face), all resolutions

`FacesDistinct fs`: faces at different positions never have the same vertex SET (`facesDistinct_eq_true`: this is the executable
`facesDistinct` flag). Proved for ALL seven parametric families: torus (quads, triangles), unit_grid (quads, triangles), cylinder
(with and without caps), ring (closed, open), flat_ring, sphere_uv (pole fans and quad rows), unit_triangle (nu ≥ nv) — from the
addressed forms of the translated loop nests: the vertex set determines the address (row/column decoding of the row-major ids,
`omega` on the wrap-around cases; triangular numbering through `tv_inj`).
-/
namespace Mouette.Props.C14
open Mouette.Generated.C14 Mouette.MeshCheck Mouette.EdgeCount

theorem torus_quads_sameSet (M N : Nat) (hM : 3 ≤ M) (hN : 3 ≤ N) (i j i' j' : Nat) (hi : i < M) (hj : j < N)
    (hi' : i' < M) (hj' : j' < N) (h : SameSet (torusQuad M N i j) (torusQuad M N i' j')) : i = i' ∧ j = j' := by
  have a1 := succ_mod_cases M i hi
  have a2 := succ_mod_cases N j hj
  have a3 := succ_mod_cases M i' hi'
  have a4 := succ_mod_cases N j' hj'
  have e : ∀ i j, j < N → (torusQuad M N i j).map (rc N) =
      [(i, j), (i, (j + 1) % N), ((i + 1) % M, (j + 1) % N), ((i + 1) % M, j)] := by
    intro i j hj
    simp only [torusQuad, List.map, rc_mk _ _ _ hj, rc_mk _ _ _ (Nat.mod_lt (j + 1) (by omega : N > 0))]
  have := h.map_mem (rc N)
  rw [e i j hj, e i' j' hj'] at this
  have h1 := this.1 (i, j) (by simp)
  have h2 := this.2 (i', j') (by simp)
  simp only [List.mem_cons, Prod.mk.injEq, List.mem_nil_iff, or_false] at h1 h2
  omega

theorem torus_tris_sameSet (M N : Nat) (hM : 3 ≤ M) (hN : 3 ≤ N) (i j i' j' : Nat) (k k' : Bool) (hi : i < M) (hj : j < N)
    (hi' : i' < M) (hj' : j' < N) (h : SameSet (torusTri M N i j k) (torusTri M N i' j' k')) : i = i' ∧ j = j' ∧ k = k' := by
  have a1 := succ_mod_cases M i hi
  have a2 := succ_mod_cases N j hj
  have a3 := succ_mod_cases M i' hi'
  have a4 := succ_mod_cases N j' hj'
  have e : ∀ i j k, j < N → (torusTri M N i j k).map (rc N) =
      if k then [(i, (j + 1) % N), ((i + 1) % M, (j + 1) % N), ((i + 1) % M, j)]
      else [(i, j), (i, (j + 1) % N), ((i + 1) % M, j)] := by
    intro i j k hj
    cases k <;>
      simp [torusTri, List.map, rc_mk _ _ _ hj, rc_mk _ _ _ (Nat.mod_lt (j + 1) (by omega : N > 0))]
  have := h.map_mem (rc N)
  rw [e i j k hj, e i' j' k' hj'] at this
  cases k <;> cases k' <;> simp only [Bool.false_eq_true, if_false, if_true] at this <;>
    (have p1 := this.1 _ List.mem_cons_self
     have p2 := this.1 _ (List.mem_cons_of_mem _ List.mem_cons_self)
     have p3 := this.1 _ (List.mem_cons_of_mem _ (List.mem_cons_of_mem _ List.mem_cons_self))
     have q1 := this.2 _ List.mem_cons_self
     have q2 := this.2 _ (List.mem_cons_of_mem _ List.mem_cons_self)
     have q3 := this.2 _ (List.mem_cons_of_mem _ (List.mem_cons_of_mem _ List.mem_cons_self))
     simp only [List.mem_cons, Prod.mk.injEq, List.mem_nil_iff, or_false] at p1 p2 p3 q1 q2 q3
     first | (refine ⟨by omega, by omega, rfl⟩) | (exfalso; omega))

theorem grid_quads_sameSet (nv i j i' j' : Nat) (hj : j + 1 < nv) (hj' : j' + 1 < nv)
    (h : SameSet (gridQuad nv i j) (gridQuad nv i' j')) : i = i' ∧ j = j' := by
  have e : ∀ i j, j + 1 < nv → (gridQuad nv i j).map (rc nv) = [(i, j), (i, j + 1), (i + 1, j + 1), (i + 1, j)] := by
    intro i j hj
    simp only [gridQuad, Nat.add_assoc, List.map, rc_mk _ _ _ hj, rc_mk _ _ _ (by omega : j < nv)]
  have := h.map_mem (rc nv)
  rw [e i j hj, e i' j' hj'] at this
  have h1 := this.1 (i, j) (by simp)
  have h2 := this.2 (i', j') (by simp)
  simp only [List.mem_cons, Prod.mk.injEq, List.mem_nil_iff, or_false] at h1 h2
  omega

theorem grid_tris_sameSet (nv i j i' j' : Nat) (k k' : Bool) (hj : j + 1 < nv) (hj' : j' + 1 < nv)
    (h : SameSet (gridTri nv i j k) (gridTri nv i' j' k')) : i = i' ∧ j = j' ∧ k = k' := by
  have e : ∀ i j k, j + 1 < nv → (gridTri nv i j k).map (rc nv) =
      if k then [(i, j + 1), (i + 1, j + 1), (i + 1, j)] else [(i, j), (i, j + 1), (i + 1, j)] := by
    intro i j k hj
    cases k <;> simp [gridTri, Nat.add_assoc, List.map, rc_mk _ _ _ hj, rc_mk _ _ _ (by omega : j < nv)]
  have := h.map_mem (rc nv)
  rw [e i j k hj, e i' j' k' hj'] at this
  cases k <;> cases k' <;> simp only [Bool.false_eq_true, if_false, if_true] at this <;>
    (have p1 := this.1 _ List.mem_cons_self
     have p2 := this.1 _ (List.mem_cons_of_mem _ List.mem_cons_self)
     have p3 := this.1 _ (List.mem_cons_of_mem _ (List.mem_cons_of_mem _ List.mem_cons_self))
     have q1 := this.2 _ List.mem_cons_self
     have q2 := this.2 _ (List.mem_cons_of_mem _ List.mem_cons_self)
     have q3 := this.2 _ (List.mem_cons_of_mem _ (List.mem_cons_of_mem _ List.mem_cons_self))
     simp only [List.mem_cons, Prod.mk.injEq, List.mem_nil_iff, or_false] at p1 p2 p3 q1 q2 q3
     first | (refine ⟨by omega, by omega, rfl⟩) | (exfalso; omega))

/-! ## the families -/

theorem torus_facesDistinct (M N : Nat) (t : Bool) (hM : 3 ≤ M) (hN : 3 ≤ N) : FacesDistinct (torusFaces M N t) := by
  cases t
  · rw [(torusFaces_addressed M N).1]
    apply facesDistinct_addressed _ _ (nodup_grid2 M N)
    intro a ha b hb h; rw [mem_grid2] at ha hb
    have := torus_quads_sameSet M N hM hN a.1 a.2 b.1 b.2 ha.1 ha.2 hb.1 hb.2 h
    exact Prod.ext this.1 this.2
  · rw [(torusFaces_addressed M N).2]
    apply facesDistinct_addressed _ _ (nodup_grid2b M N)
    intro a ha b hb h; rw [mem_grid2b] at ha hb
    have := torus_tris_sameSet M N hM hN a.1 a.2.1 b.1 b.2.1 a.2.2 b.2.2 ha.1 ha.2 hb.1 hb.2 h
    exact Prod.ext this.1 (Prod.ext this.2.1 this.2.2)

theorem unit_grid_facesDistinct (nu nv : Nat) (t u : Bool) : FacesDistinct (unit_gridFaces nu nv t u) := by
  cases t
  · rw [(unit_gridFaces_addressed nu nv u).1]
    apply facesDistinct_addressed _ _ (nodup_grid2 _ _)
    intro a ha b hb h; rw [mem_grid2] at ha hb
    have := grid_quads_sameSet nv a.1 a.2 b.1 b.2 (by omega) (by omega) h
    exact Prod.ext this.1 this.2
  · rw [(unit_gridFaces_addressed nu nv u).2]
    apply facesDistinct_addressed _ _ (nodup_grid2b _ _)
    intro a ha b hb h; rw [mem_grid2b] at ha hb
    have := grid_tris_sameSet nv a.1 a.2.1 b.1 b.2.1 a.2.2 b.2.2 (by omega) (by omega) h
    exact Prod.ext this.1 (Prod.ext this.2.1 this.2.2)

theorem fan_facesDistinct (n : Nat) : FacesDistinct ((List.range n).map fanTri) := by
  apply facesDistinct_addressed _ _ List.nodup_range
  intro a _ b _ h
  have h1 := h.1 (a + 1) (by simp [fanTri])
  have h2 := h.1 (a + 2) (by simp [fanTri])
  simp only [fanTri, List.mem_cons, List.mem_nil_iff, or_false] at h1 h2
  omega

theorem flat_ring_facesDistinct (N c : Nat) : FacesDistinct (flat_ringFaces N c) := by
  rw [flat_ringFaces_eq, fanFaces_eq]; exact fan_facesDistinct _

theorem ring_facesDistinct (N c : Nat) (o : Bool) (hn : 3 ≤ N * c) : FacesDistinct (ringFaces N c o) := by
  cases o
  · rw [ringFaces_addressed N c (by omega)]
    apply facesDistinct_addressed _ _ (List.nodup_range' (step := 1) (by omega))
    intro a ha b hb h
    rw [List.mem_range'_1] at ha hb
    generalize N * c = n at *
    have h1 := h.1 a (by unfold ringTri; split <;> simp <;> omega)
    have h2 := h.2 b (by unfold ringTri; split <;> simp <;> omega)
    have h3 := h.1 (if a = n then 1 else a + 1) (by unfold ringTri; split <;> simp)
    unfold ringTri at h1 h2 h3
    split at h1 <;> split at h2 <;> simp only [List.mem_cons, List.mem_nil_iff, or_false] at h1 h2 h3 <;> omega
  · rw [ringFaces_open_eq N c (by omega)]; exact fan_facesDistinct _

theorem cylinder_facesDistinct (N : Nat) (fc : Bool) (hN : 3 ≤ N) : FacesDistinct (cylinderFaces N fc) := by
  rw [cylinderFaces_addressed]
  apply facesDistinct_addressed _ _ (nodup_cylAddr N fc)
  intro a ha b hb h
  rw [mem_cylAddr] at ha hb
  cases a <;> cases b <;> simp only [CF.idx, cylFace] at ha hb h <;>
    (rename_i i i'
     have a1 := succ_mod_cases N i ha.1
     have a2 := succ_mod_cases N i' hb.1
     have p1 := h.1 _ List.mem_cons_self
     have p2 := h.1 _ (List.mem_cons_of_mem _ List.mem_cons_self)
     have p3 := h.1 _ (List.mem_cons_of_mem _ (List.mem_cons_of_mem _ List.mem_cons_self))
     have q1 := h.2 _ List.mem_cons_self
     have q2 := h.2 _ (List.mem_cons_of_mem _ List.mem_cons_self)
     have q3 := h.2 _ (List.mem_cons_of_mem _ (List.mem_cons_of_mem _ List.mem_cons_self))
     simp only [List.mem_cons, List.mem_nil_iff, or_false] at p1 p2 p3 q1 q2 q3
     first | (congr 1; omega) | (exfalso; omega))

theorem unit_triangle_facesDistinct (nu nv : Nat) (u : Bool) (h : nv ≤ nu) : FacesDistinct (unit_triangleFaces nu nv u) := by
  rw [unit_triangleFaces_addressed nu nv u h]
  apply facesDistinct_addressed _ _ (nodup_triAddr nv)
  intro a ha b hb hs
  obtain ⟨j, i, d⟩ := a
  obtain ⟨j', i', d'⟩ := b
  simp only [mem_triAddr] at ha hb
  have key : tv j i = tv j' i' ∧ (tv j i = tv j' i' → j = j' → d = d') := by
    cases d <;> cases d' <;>
      simp only [triFace, Bool.false_eq_true, if_false, if_true, tv_succ_row, tv_succ_col] at hs <;>
      (have p1 := hs.1 _ List.mem_cons_self
       have p2 := hs.1 _ (List.mem_cons_of_mem _ List.mem_cons_self)
       have p3 := hs.1 _ (List.mem_cons_of_mem _ (List.mem_cons_of_mem _ List.mem_cons_self))
       have q1 := hs.2 _ List.mem_cons_self
       have q2 := hs.2 _ (List.mem_cons_of_mem _ List.mem_cons_self)
       have q3 := hs.2 _ (List.mem_cons_of_mem _ (List.mem_cons_of_mem _ List.mem_cons_self))
       simp only [List.mem_cons, List.mem_nil_iff, or_false] at p1 p2 p3 q1 q2 q3
       have := ha.2.2; have := hb.2.2
       refine ⟨by omega, fun hm hj => ?_⟩
       first | rfl | (exfalso; subst hj; simp only [true_implies, Bool.false_eq_true, false_implies] at *; omega))
  obtain ⟨rfl, rfl⟩ := tv_inj key.1 ha.2.1 hb.2.1
  have := key.2 key.1 rfl
  subst this; rfl

theorem sphere_uv_facesDistinct (a b : Nat) (ha : 1 ≤ a) (hb : 3 ≤ b) : FacesDistinct (sphere_uvFaces a b) := by
  rw [sphere_uvFaces_addressed a b ha]
  apply facesDistinct_addressed _ _ (nodup_sphAddr a b)
  intro f hf g hg hs
  rw [mem_sphAddr] at hf hg
  have hab : (a - 1) * b + b = a * b := by
    obtain ⟨a', rfl⟩ : ∃ a', a = a' + 1 := ⟨a - 1, by omega⟩
    rw [Nat.add_sub_cancel, Nat.succ_mul]
  have eq : ∀ j i, i < b → (sphFace a b (.quad j i)).map (fun v => rc b (v - 1)) =
      [(j, i), (j, (i + 1) % b), (j + 1, (i + 1) % b), (j + 1, i)] := by
    intro j i hi
    have hm : (i + 1) % b < b := Nat.mod_lt _ (by omega)
    have h1 : j * b + 1 + i - 1 = j * b + i := by omega
    have h2 : j * b + 1 + (i + 1) % b - 1 = j * b + (i + 1) % b := by omega
    have h3 : (j + 1) * b + 1 + (i + 1) % b - 1 = (j + 1) * b + (i + 1) % b := by omega
    have h4 : (j + 1) * b + 1 + i - 1 = (j + 1) * b + i := by omega
    simp only [sphFace, List.map, h1, h2, h3, h4, rc_mk _ _ _ hi, rc_mk _ _ _ hm]
  have bound : ∀ j, j + 1 < a → (j + 1) * b = j * b + b ∧ j * b + 2 * b ≤ a * b := by
    intro j hj
    have := Nat.mul_le_mul_right b (show j + 2 ≤ a by omega)
    rw [Nat.add_mul] at this
    exact ⟨Nat.succ_mul j b, this⟩
  cases f with
  | top i =>
    have a1 := succ_mod_cases b i hf
    cases g with
    | top i' =>
      have a2 := succ_mod_cases b i' hg
      simp only [sphFace] at hs
      have p1 := hs.1 _ List.mem_cons_self
      have q1 := hs.2 _ List.mem_cons_self
      simp only [List.mem_cons, List.mem_nil_iff, or_false] at p1 q1
      congr 1; omega
    | bot i' =>
      exfalso
      have p := hs.1 0 (by simp [sphFace])
      simp only [sphFace, List.mem_cons, List.mem_nil_iff, or_false] at p; omega
    | quad j' i' =>
      exfalso
      have p := hs.1 0 (by simp [sphFace])
      simp only [sphFace, List.mem_cons, List.mem_nil_iff, or_false] at p; omega
  | bot i =>
    have a1 := succ_mod_cases b i hf
    cases g with
    | top i' =>
      exfalso
      have p := hs.2 0 (by simp [sphFace])
      simp only [sphFace, List.mem_cons, List.mem_nil_iff, or_false] at p; omega
    | bot i' =>
      have a2 := succ_mod_cases b i' hg
      simp only [sphFace] at hs
      have p1 := hs.1 _ (List.mem_cons_of_mem _ List.mem_cons_self)
      have q1 := hs.2 _ (List.mem_cons_of_mem _ List.mem_cons_self)
      simp only [List.mem_cons, List.mem_nil_iff, or_false] at p1 q1
      congr 1; omega
    | quad j' i' =>
      exfalso
      have a2 := succ_mod_cases b i' hg.2
      have bd := bound j' hg.1
      have p := hs.1 (a * b + 1) (by simp [sphFace])
      simp only [sphFace, List.mem_cons, List.mem_nil_iff, or_false] at p; omega
  | quad j i =>
    have a1 := succ_mod_cases b i hf.2
    have bd := bound j hf.1
    cases g with
    | top i' =>
      exfalso
      have p := hs.2 0 (by simp [sphFace])
      simp only [sphFace, List.mem_cons, List.mem_nil_iff, or_false] at p; omega
    | bot i' =>
      exfalso
      have p := hs.2 (a * b + 1) (by simp [sphFace])
      simp only [sphFace, List.mem_cons, List.mem_nil_iff, or_false] at p; omega
    | quad j' i' =>
      have a2 := succ_mod_cases b i' hg.2
      have := hs.map_mem (fun v => rc b (v - 1))
      rw [eq j i hf.2, eq j' i' hg.2] at this
      have h1 := this.1 (j, i) (by simp)
      have h2 := this.2 (j', i') (by simp)
      simp only [List.mem_cons, Prod.mk.injEq, List.mem_nil_iff, or_false] at h1 h2
      have : j = j' ∧ i = i' := by omega
      rw [this.1, this.2]

/-- the property is the `facesDistinct` flag the driver evaluates (and the harness recomputes on the implementation's output) -/
theorem facesDistinct_flag (fs : List Face) (h : FacesDistinct fs) : facesDistinct fs = true := (facesDistinct_eq_true fs).mpr h

/-- non-vacuity: a reversed copy of a face is rejected; the family theorems apply to concrete resolutions -/
example : ¬ FacesDistinct [[0, 1, 2], [0, 2, 1]] := by
  intro h
  have := (facesDistinct_eq_true _).mpr h
  revert this; decide
example : facesDistinct (torusFaces 3 4 true) = true := facesDistinct_flag _ (torus_facesDistinct 3 4 true (by omega) (by omega))

end Mouette.Props.C14
