import Mouette.Generated.C14Verts
import Mathlib.Tactic.Ring
import Mathlib.Tactic.Linarith
import Mathlib.Tactic.FieldSimp
import Mathlib.Algebra.Order.Field.Basic
import Mathlib.Tactic.Positivity
import Mathlib.Tactic.LinearCombination
/-!
# C14 (round 3) — the bisection that places the apex of `ring`

`ringBisectStep` is one pass through the `while` loop of `mouette/procedural/rings.py: ring`, translated on every run by
`vlib/pyverts.py` with the aliasing semantics of numpy arrays (`a = b` binds the same object; `a *= k` updates that object in
place, for every name bound to it; `a = <expr>` rebinds). `angle_3pts` is uninterpreted; `dfct P = 2π − N·angle_3pts A P B` is
the angle defect reached with the apex at `P`.

* `ring_bisect_step_spec`: which bound moves in which branch (bracket extension: the OLD upper bound becomes the lower bound and
  the upper bound is doubled; otherwise one bound moves to the midpoint);
* `ring_bisect_bracket`: once the request is bracketed (`dfct P1 ≤ defect ≤ dfct P2`) it stays bracketed and the bracket halves;
  during the extension phase the lower bound stays strictly below the request;
* `bracket_midpoint_error`: for a monotone defect function, the value at any point of a bracket differs from the request by at
  most the spread of the bracket's ends — so, when the loop stops (`|dfct P1 − dfct P2| < 10⁻⁶`), the apex `(P1+P2)/2` has the
  requested angle defect up to 10⁻⁶ (given monotonicity of the angle along the axis, which is not proved here).
-/
namespace Mouette.Props.C14
open Mouette.Generated.C14Verts

section ordered
variable {K : Type} [Field K] [LinearOrder K] [IsStrictOrderedRing K]

/-- the midpoint of two points, as the source spells it -/
def mid3 (P Q : K × K × K) : K × K × K := ((P.1 + Q.1) / 2, (P.2.1 + Q.2.1) / 2, (P.2.2 + Q.2.2) / 2)

theorem ring_bisect_step_spec (pi : K) (ang : K × K × K → K × K × K → K × K × K → K) (N : Nat) (defect : K)
    (A B P1 P2 : K × K × K) :
    let dfct := fun P => 2 * pi - (N : K) * ang A P B
    let q := ringBisectStep pi ang N defect A B P1 P2
    (defect > dfct P2 → q = (P2, (2 * P2.1, 2 * P2.2.1, 2 * P2.2.2))) ∧
    (¬ defect > dfct P2 → defect > dfct (mid3 P1 P2) → q = (mid3 P1 P2, P2)) ∧
    (¬ defect > dfct P2 → ¬ defect > dfct (mid3 P1 P2) → q = (P1, mid3 P1 P2)) := by
  intro dfct q
  simp only [q, ringBisectStep, dfct, mid3]
  refine ⟨?_, ?_, ?_⟩
  · intro h; simp only [h, if_true]
  · intro h1 h2; simp only [h1, h2, if_false, if_true]
  · intro h1 h2; simp only [h1, h2, if_false]

/-- the bracket invariant of the dichotomy (after the repair of the exact-hit case: in the bracketed phase EVERY pass halves the
bracket — before, a midpoint hitting the request exactly left both bounds in place and the loop did not terminate) -/
theorem ring_bisect_bracket (pi : K) (ang : K × K × K → K × K × K → K × K × K → K) (N : Nat) (defect : K)
    (A B P1 P2 : K × K × K) :
    let dfct := fun P => 2 * pi - (N : K) * ang A P B
    let q := ringBisectStep pi ang N defect A B P1 P2
    (defect > dfct P2 → dfct q.1 < defect ∧ q.1 = P2) ∧
    (dfct P1 ≤ defect → defect ≤ dfct P2 → dfct q.1 ≤ defect ∧ defect ≤ dfct q.2 ∧
        q.2.1 - q.1.1 = (P2.1 - P1.1) / 2 ∧ q.2.2.1 - q.1.2.1 = (P2.2.1 - P1.2.1) / 2 ∧ q.2.2.2 - q.1.2.2 = (P2.2.2 - P1.2.2) / 2) := by
  intro dfct q
  have spec := ring_bisect_step_spec pi ang N defect A B P1 P2
  simp only at spec
  obtain ⟨s1, s2, s3⟩ := spec
  constructor
  · intro h
    have e : q = _ := s1 h
    rw [e]; exact ⟨h, rfl⟩
  · intro h1 h2
    have n1 : ¬ defect > dfct P2 := not_lt.mpr h2
    by_cases c2 : defect > dfct (mid3 P1 P2)
    · have e : q = _ := s2 n1 c2
      rw [e]
      refine ⟨le_of_lt c2, h2, ?_⟩
      simp only [mid3]
      refine ⟨by ring, by ring, by ring⟩
    · have e : q = _ := s3 n1 c2
      rw [e]
      refine ⟨h1, not_lt.mp c2, ?_⟩
      simp only [mid3]
      refine ⟨by ring, by ring, by ring⟩

/-- for a monotone function, a request bracketed by the values at the ends is met at every point of the bracket up to the
spread of the ends -/
theorem bracket_midpoint_error (g : K → K) (hg : ∀ x y, x ≤ y → g x ≤ g y) (a b m d : K) (ham : a ≤ m) (hmb : m ≤ b)
    (h1 : g a ≤ d) (h2 : d ≤ g b) : |g m - d| ≤ g b - g a := by
  have := hg a m ham
  have := hg m b hmb
  rw [abs_le]; constructor <;> linarith

/-- the initial bracket is z ∈ [0, 10] on the axis, the returned apex is the midpoint of the final bracket, and the loop stops
below 10⁻⁶ -/
theorem ring_bisect_frame (P1 P2 : K × K × K) :
    (ringBisectInit : (K × K × K) × (K × K × K)) = ((0, 0, 0), (0, 0, 10)) ∧ ringApex P1 P2 = mid3 P1 P2 ∧
    (ringStopThreshold : K) = 1 / 1000000 := by
  refine ⟨rfl, ?_, rfl⟩
  unfold ringApex mid3
  refine Prod.ext ?_ (Prod.ext ?_ ?_) <;> simp only [] <;> ring

/-! ## round 6: the defect is monotone along the axis, so the bisection meets the request within the stopping tolerance -/

/-- apex at height z on the axis, rim points A = (1,0,0) and B = (c,s,0) on the unit circle: (A−P)·(B−P) = c + z² and
|A−P|² = |B−P|² = 1 + z², i.e. the cosine of the apex angle is (c + z²)/(1 + z²) -/
theorem apex_cos_formula (c s z : K) (h : c ^ 2 + s ^ 2 = 1) :
    (1 - 0) * (c - 0) + (0 - 0) * (s - 0) + (0 - z) * (0 - z) = c + z ^ 2 ∧
    (1 - 0) ^ 2 + (0 - 0) ^ 2 + (0 - z) ^ 2 = 1 + z ^ 2 ∧ (c - 0) ^ 2 + (s - 0) ^ 2 + (0 - z) ^ 2 = 1 + z ^ 2 := by
  refine ⟨by ring, by ring, ?_⟩
  linear_combination h

/-- the cosine of the apex angle increases strictly with the height (for a rim angle that is not a full turn: c < 1) -/
theorem apex_cos_strict_mono (c z z' : K) (hc : c < 1) (hz : 0 ≤ z) (hzz : z < z') :
    (c + z ^ 2) / (1 + z ^ 2) < (c + z' ^ 2) / (1 + z' ^ 2) := by
  have h1 : 0 < 1 + z ^ 2 := by positivity
  have h2 : 0 < 1 + z' ^ 2 := by positivity
  have key : (c + z' ^ 2) / (1 + z' ^ 2) - (c + z ^ 2) / (1 + z ^ 2) =
      (z' ^ 2 - z ^ 2) * (1 - c) / ((1 + z ^ 2) * (1 + z' ^ 2)) := by
    field_simp; ring
  have hsq : 0 < z' ^ 2 - z ^ 2 := by nlinarith
  have : 0 < (z' ^ 2 - z ^ 2) * (1 - c) / ((1 + z ^ 2) * (1 + z' ^ 2)) :=
    div_pos (mul_pos hsq (by linarith)) (mul_pos h1 h2)
  linarith

/-- the cosine of the apex angle lies in [−1, 1] (for −1 ≤ c ≤ 1) -/
theorem apex_cos_bounds (c z : K) (hc1 : -1 ≤ c) (hc : c ≤ 1) : -1 ≤ (c + z ^ 2) / (1 + z ^ 2) ∧ (c + z ^ 2) / (1 + z ^ 2) ≤ 1 := by
  have h1 : 0 < 1 + z ^ 2 := by positivity
  constructor
  · rw [le_div_iff₀ h1]; nlinarith [sq_nonneg z]
  · rw [div_le_one h1]; linarith

/-- hence, for any `acos` strictly decreasing on [−1, 1] (e.g. `Real.arccos`), the defect 2π − N·acos(cos of the apex angle)
increases weakly with the height -/
theorem ring_defect_monotone (pi c : K) (N : Nat) (acos : K → K) (hac : ∀ x y, -1 ≤ x → x < y → y ≤ 1 → acos y < acos x)
    (hc1 : -1 ≤ c) (hc : c < 1) (z z' : K) (hz : 0 ≤ z) (hzz : z ≤ z') :
    2 * pi - (N : K) * acos ((c + z ^ 2) / (1 + z ^ 2)) ≤ 2 * pi - (N : K) * acos ((c + z' ^ 2) / (1 + z' ^ 2)) := by
  rcases eq_or_lt_of_le hzz with rfl | hlt
  · exact le_refl _
  · have := hac _ _ (apex_cos_bounds c z hc1 hc.le).1 (apex_cos_strict_mono c z z' hc hz hlt) (apex_cos_bounds c z' hc1 hc.le).2
    have hN : (0 : K) ≤ (N : K) := Nat.cast_nonneg N
    nlinarith

/-- the bracket stays on the axis, above the rim plane and ordered: invariant of `ringBisectStep` -/
theorem ring_bisect_axis_invariant (pi : K) (ang : K × K × K → K × K × K → K × K × K → K) (N : Nat) (defect : K)
    (A B P1 P2 : K × K × K) (h1 : P1.1 = 0 ∧ P1.2.1 = 0) (h2 : P2.1 = 0 ∧ P2.2.1 = 0) (h0 : 0 ≤ P1.2.2)
    (h12 : P1.2.2 ≤ P2.2.2) :
    let q := ringBisectStep pi ang N defect A B P1 P2
    (q.1.1 = 0 ∧ q.1.2.1 = 0) ∧ (q.2.1 = 0 ∧ q.2.2.1 = 0) ∧ 0 ≤ q.1.2.2 ∧ q.1.2.2 ≤ q.2.2.2 := by
  intro q
  have spec := ring_bisect_step_spec pi ang N defect A B P1 P2
  simp only at spec
  obtain ⟨s1, s2, s3⟩ := spec
  by_cases c1 : defect > 2 * pi - (N : K) * ang A P2 B
  · have e : q = _ := s1 c1
    rw [e]; simp only [h2.1, h2.2, mul_zero, and_self, true_and]
    constructor <;> linarith
  · by_cases c2 : defect > 2 * pi - (N : K) * ang A (mid3 P1 P2) B
    · have e : q = _ := s2 c1 c2
      rw [e]; simp only [mid3, h1.1, h1.2, h2.1, h2.2, add_zero, zero_div, and_self, true_and]
      constructor <;> linarith
    · have e : q = _ := s3 c1 c2
      rw [e]; simp only [mid3, h1.1, h1.2, h2.1, h2.2, add_zero, zero_div, and_self, true_and]
      constructor <;> linarith

/-- **the apex has the requested defect within the stopping tolerance** (PARTIAL). When the loop stops — bracket on the axis,
request bracketed (`ring_bisect_bracket`, `ring_bisect_axis_invariant`), `|dfct P1 − dfct P2| < tol` (`ring_bisect_frame`: 10⁻⁶) —
the returned apex `ringApex P1 P2` has `|dfct − defect| < tol`, PROVIDED `angle_3pts A P B = acos(cos of the apex angle)` for apexes
on the axis with `acos` strictly decreasing on [−1, 1] (the specification of `angle_3pts`; discharged over ℝ with `Real.arccos` in
Props/C14BisectReal.lean: `ring_apex_defect_within_tolerance_real`).
Missing for the full statement, exactly: (1) that specification of `angle_3pts` over ℝ with `Real.arccos` (C12 states it on the
float implementation numerically only); (2) termination of the float loop in the stop state (rounding is not modelled). -/
theorem ring_apex_defect_within_tolerance_partial (pi c tol defect : K) (N : Nat) (acos : K → K)
    (ang : K × K × K → K × K × K → K × K × K → K) (A B P1 P2 : K × K × K)
    (hac : ∀ x y, -1 ≤ x → x < y → y ≤ 1 → acos y < acos x) (hc1 : -1 ≤ c) (hc : c < 1)
    (hang : ∀ z, 0 ≤ z → ang A (0, 0, z) B = acos ((c + z ^ 2) / (1 + z ^ 2)))
    (h1 : P1.1 = 0 ∧ P1.2.1 = 0) (h2 : P2.1 = 0 ∧ P2.2.1 = 0) (h0 : 0 ≤ P1.2.2) (h12 : P1.2.2 ≤ P2.2.2)
    (hb1 : 2 * pi - (N : K) * ang A P1 B ≤ defect) (hb2 : defect ≤ 2 * pi - (N : K) * ang A P2 B)
    (hstop : |(2 * pi - (N : K) * ang A P1 B) - (2 * pi - (N : K) * ang A P2 B)| < tol) :
    |(2 * pi - (N : K) * ang A (ringApex P1 P2) B) - defect| < tol := by
  obtain ⟨x1, y1, z1⟩ := P1
  obtain ⟨x2, y2, z2⟩ := P2
  simp only at h1 h2 h0 h12
  obtain ⟨rfl, rfl⟩ := h1
  obtain ⟨rfl, rfl⟩ := h2
  have hm : ringApex ((0 : K), (0 : K), z1) (0, 0, z2) = (0, 0, (z1 + z2) / 2) := by
    unfold ringApex
    refine Prod.ext ?_ (Prod.ext ?_ ?_) <;> simp only [] <;> ring
  rw [hm]
  have hz2 : 0 ≤ z2 := le_trans h0 h12
  have hmid0 : 0 ≤ (z1 + z2) / 2 := by linarith
  rw [hang z1 h0] at hb1 hstop
  rw [hang z2 hz2] at hb2 hstop
  rw [hang _ hmid0]
  let g : K → K := fun z => 2 * pi - (N : K) * acos ((c + z ^ 2) / (1 + z ^ 2))
  have m1 : g z1 ≤ g ((z1 + z2) / 2) := ring_defect_monotone pi c N acos hac hc1 hc z1 _ h0 (by linarith)
  have m2 : g ((z1 + z2) / 2) ≤ g z2 := ring_defect_monotone pi c N acos hac hc1 hc _ z2 hmid0 (by linarith)
  simp only [g] at m1 m2
  rw [abs_lt] at hstop ⊢
  constructor <;> linarith

/-! ## round 7: the bracketed phase terminates in exact arithmetic -/

/-- `k` passes of the loop body from the state `s = (P1, P2)` -/
def bisectIter (pi : K) (ang : K × K × K → K × K × K → K × K × K → K) (N : Nat) (defect : K) (A B : K × K × K) :
    Nat → (K × K × K) × (K × K × K) → (K × K × K) × (K × K × K)
  | 0, s => s
  | k + 1, s => ringBisectStep pi ang N defect A B (bisectIter pi ang N defect A B k s).1 (bisectIter pi ang N defect A B k s).2

/-- once the request is bracketed, after k passes it is still bracketed and every coordinate width of the bracket is the initial
one divided by 2^k (for the initial bracket of `ring_bisect_frame`: 10/2^k along the axis) -/
theorem ring_bisect_width (pi : K) (ang : K × K × K → K × K × K → K × K × K → K) (N : Nat) (defect : K)
    (A B P1 P2 : K × K × K) (h1 : 2 * pi - (N : K) * ang A P1 B ≤ defect) (h2 : defect ≤ 2 * pi - (N : K) * ang A P2 B) (k : Nat) :
    let q := bisectIter pi ang N defect A B k (P1, P2)
    2 * pi - (N : K) * ang A q.1 B ≤ defect ∧ defect ≤ 2 * pi - (N : K) * ang A q.2 B ∧
    q.2.1 - q.1.1 = (P2.1 - P1.1) / 2 ^ k ∧ q.2.2.1 - q.1.2.1 = (P2.2.1 - P1.2.1) / 2 ^ k ∧
    q.2.2.2 - q.1.2.2 = (P2.2.2 - P1.2.2) / 2 ^ k := by
  induction k with
  | zero => simp [bisectIter, h1, h2]
  | succ k ih =>
    simp only at ih ⊢
    obtain ⟨b1, b2, w1, w2, w3⟩ := ih
    have br := (ring_bisect_bracket pi ang N defect A B (bisectIter pi ang N defect A B k (P1, P2)).1
      (bisectIter pi ang N defect A B k (P1, P2)).2).2 b1 b2
    simp only at br
    obtain ⟨c1, c2, v1, v2, v3⟩ := br
    refine ⟨c1, c2, ?_, ?_, ?_⟩
    · show (ringBisectStep _ _ _ _ _ _ _ _).2.1 - (ringBisectStep _ _ _ _ _ _ _ _).1.1 = _
      rw [v1, w1, pow_succ]; field_simp
    · show (ringBisectStep _ _ _ _ _ _ _ _).2.2.1 - (ringBisectStep _ _ _ _ _ _ _ _).1.2.1 = _
      rw [v2, w2, pow_succ]; field_simp
    · show (ringBisectStep _ _ _ _ _ _ _ _).2.2.2 - (ringBisectStep _ _ _ _ _ _ _ _).1.2.2 = _
      rw [v3, w3, pow_succ]; field_simp

/-- **termination of the bracketed phase** (PARTIAL): if the defect is L-Lipschitz in the apex position, then after k passes with
`L·(initial widths)/2^k < tol` the stop criterion `|dfct P1 − dfct P2| < tol` holds — in exact arithmetic the loop leaves the
bracketed phase after at most ⌈log₂(L·10/10⁻⁶)⌉ passes. Not covered: the extension phase (`defect > dfct P2`: the upper bound is
doubled until the request is bracketed — needs dfct → 2π along the axis, i.e. the limit of `arccos`), and float rounding. -/
theorem ring_bisect_terminates_partial (pi : K) (ang : K × K × K → K × K × K → K × K × K → K) (N : Nat) (defect L tol : K)
    (A B P1 P2 : K × K × K) (h1 : 2 * pi - (N : K) * ang A P1 B ≤ defect) (h2 : defect ≤ 2 * pi - (N : K) * ang A P2 B)
    (hL : ∀ P Q : K × K × K, |(2 * pi - (N : K) * ang A P B) - (2 * pi - (N : K) * ang A Q B)| ≤
      L * (|Q.1 - P.1| + |Q.2.1 - P.2.1| + |Q.2.2 - P.2.2|))
    (k : Nat) (hk : L * ((|P2.1 - P1.1| + |P2.2.1 - P1.2.1| + |P2.2.2 - P1.2.2|) / 2 ^ k) < tol) :
    let q := bisectIter pi ang N defect A B k (P1, P2)
    |(2 * pi - (N : K) * ang A q.1 B) - (2 * pi - (N : K) * ang A q.2 B)| < tol := by
  intro q
  obtain ⟨_, _, w1, w2, w3⟩ := ring_bisect_width pi ang N defect A B P1 P2 h1 h2 k
  have hp : (0 : K) < 2 ^ k := by positivity
  have e : |q.2.1 - q.1.1| + |q.2.2.1 - q.1.2.1| + |q.2.2.2 - q.1.2.2| =
      (|P2.1 - P1.1| + |P2.2.1 - P1.2.1| + |P2.2.2 - P1.2.2|) / 2 ^ k := by
    rw [w1, w2, w3, abs_div, abs_div, abs_div, abs_of_pos hp]; ring
  calc _ ≤ L * (|q.2.1 - q.1.1| + |q.2.2.1 - q.1.2.1| + |q.2.2.2 - q.1.2.2|) := hL q.1 q.2
    _ = L * ((|P2.1 - P1.1| + |P2.2.1 - P1.2.1| + |P2.2.2 - P1.2.2|) / 2 ^ k) := by rw [e]
    _ < tol := hk

/-- non-vacuity: two passes with the defect function dfct P = z (ang = −z, N = 1, π = 0), request 3, bracket [0, 10] → [5/2, 5] -/
example : bisectIter (0 : ℚ) (fun _ P _ => -P.2.2) 1 3 (0, 0, 0) (0, 0, 0) 2 ((0, 0, 0), (0, 0, 10)) = ((0, 0, 5 / 2), (0, 0, 5)) := by
  norm_num [bisectIter, ringBisectStep]
/-- non-vacuity of the hypotheses over ℚ: `acos x = −x` is strictly decreasing; the cosine formula at c = 0, z = 1, 2 -/
example : ((0 : ℚ) + 1 ^ 2) / (1 + 1 ^ 2) < (0 + 2 ^ 2) / (1 + 2 ^ 2) := apex_cos_strict_mono 0 1 2 (by norm_num) (by norm_num) (by norm_num)
example : ∀ x y : ℚ, x < y → (fun t => -t) y < (fun t => -t) x := fun x y h => by simpa using h

end ordered
end Mouette.Props.C14
