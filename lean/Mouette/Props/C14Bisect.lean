import Mouette.Generated.C14Verts
import Mathlib.Tactic.Ring
import Mathlib.Tactic.Linarith
import Mathlib.Tactic.FieldSimp
import Mathlib.Algebra.Order.Field.Basic
import Mathlib.Tactic.Positivity
import Mathlib.Tactic.LinearCombination
/-!
# C14 (round 3) — the bisection that places the apex of `ring`

`ringBisectStep` is one pass through the `while` loop of `mouette/procedural/rings.py: ring`, translated on every run by
`vlib/pyverts.py` with the aliasing semantics of numpy arrays (`a = b` binds the same object; `a *= k` updates that object in
place, for every name bound to it; `a = <expr>` rebinds). `angle_3pts` is uninterpreted; `dfct P = 2π − N·angle_3pts A P B` is
the angle defect reached with the apex at `P`.

* `ring_bisect_step_spec`: which bound moves in which branch (bracket extension: the OLD upper bound becomes the lower bound and
  the upper bound is doubled; otherwise one bound moves to the midpoint);
* `ring_bisect_bracket`: once the request is bracketed (`dfct P1 ≤ defect ≤ dfct P2`) it stays bracketed and the bracket halves;
  during the extension phase the lower bound stays strictly below the request;
* `bracket_midpoint_error`: for a monotone defect function, the value at any point of a bracket differs from the request by at
  most the spread of the bracket's ends — so, when the loop stops (`|dfct P1 − dfct P2| < 10⁻⁶`), the apex `(P1+P2)/2` has the
  requested angle defect up to 10⁻⁶ (given monotonicity of the angle along the axis, which is not proved here).
-/
namespace Mouette.Props.C14
open Mouette.Generated.C14Verts

section ordered
variable {K : Type} [Field K] [LinearOrder K] [IsStrictOrderedRing K]

/-- the midpoint of two points, as the source spells it -/
def mid3 (P Q : K × K × K) : K × K × K := ((P.1 + Q.1) / 2, (P.2.1 + Q.2.1) / 2, (P.2.2 + Q.2.2) / 2)

theorem ring_bisect_step_spec (pi : K) (ang : K × K × K → K × K × K → K × K × K → K) (N : Nat) (defect : K)
    (A B P1 P2 : K × K × K) :
    let dfct := fun P => 2 * pi - (N : K) * ang A P B
    let q := ringBisectStep pi ang N defect A B P1 P2
    (defect > dfct P2 → q = (P2, (2 * P2.1, 2 * P2.2.1, 2 * P2.2.2))) ∧
    (¬ defect > dfct P2 → defect > dfct (mid3 P1 P2) → q = (mid3 P1 P2, P2)) ∧
    (¬ defect > dfct P2 → ¬ defect > dfct (mid3 P1 P2) → defect < dfct (mid3 P1 P2) → q = (P1, mid3 P1 P2)) ∧
    (¬ defect > dfct P2 → ¬ defect > dfct (mid3 P1 P2) → ¬ defect < dfct (mid3 P1 P2) → q = (P1, P2)) := by
  intro dfct q
  simp only [q, ringBisectStep, dfct, mid3]
  refine ⟨?_, ?_, ?_, ?_⟩
  · intro h; simp only [h, if_true]
  · intro h1 h2; simp only [h1, h2, if_false, if_true]
  · intro h1 h2 h3; simp only [h1, h2, h3, if_false, if_true]
  · intro h1 h2 h3; simp only [h1, h2, h3, if_false]

/-- the bracket invariant of the dichotomy -/
theorem ring_bisect_bracket (pi : K) (ang : K × K × K → K × K × K → K × K × K → K) (N : Nat) (defect : K)
    (A B P1 P2 : K × K × K) :
    let dfct := fun P => 2 * pi - (N : K) * ang A P B
    let q := ringBisectStep pi ang N defect A B P1 P2
    (defect > dfct P2 → dfct q.1 < defect ∧ q.1 = P2) ∧
    (dfct P1 ≤ defect → defect ≤ dfct P2 → dfct q.1 ≤ defect ∧ defect ≤ dfct q.2 ∧
      (defect ≠ dfct (mid3 P1 P2) →
        q.2.1 - q.1.1 = (P2.1 - P1.1) / 2 ∧ q.2.2.1 - q.1.2.1 = (P2.2.1 - P1.2.1) / 2 ∧ q.2.2.2 - q.1.2.2 = (P2.2.2 - P1.2.2) / 2)) := by
  intro dfct q
  have spec := ring_bisect_step_spec pi ang N defect A B P1 P2
  simp only at spec
  obtain ⟨s1, s2, s3, s4⟩ := spec
  constructor
  · intro h
    have e : q = _ := s1 h
    rw [e]; exact ⟨h, rfl⟩
  · intro h1 h2
    have n1 : ¬ defect > dfct P2 := not_lt.mpr h2
    by_cases c2 : defect > dfct (mid3 P1 P2)
    · have e : q = _ := s2 n1 c2
      rw [e]
      refine ⟨le_of_lt c2, h2, fun _ => ?_⟩
      simp only [mid3]
      refine ⟨by ring, by ring, by ring⟩
    · by_cases c3 : defect < dfct (mid3 P1 P2)
      · have e : q = _ := s3 n1 c2 c3
        rw [e]
        refine ⟨h1, le_of_lt c3, fun _ => ?_⟩
        simp only [mid3]
        refine ⟨by ring, by ring, by ring⟩
      · have e : q = _ := s4 n1 c2 c3
        rw [e]
        refine ⟨h1, h2, fun hne => ?_⟩
        exact absurd (le_antisymm (not_lt.mp c2) (not_lt.mp c3)) hne

/-- for a monotone function, a request bracketed by the values at the ends is met at every point of the bracket up to the
spread of the ends -/
theorem bracket_midpoint_error (g : K → K) (hg : ∀ x y, x ≤ y → g x ≤ g y) (a b m d : K) (ham : a ≤ m) (hmb : m ≤ b)
    (h1 : g a ≤ d) (h2 : d ≤ g b) : |g m - d| ≤ g b - g a := by
  have := hg a m ham
  have := hg m b hmb
  rw [abs_le]; constructor <;> linarith

/-- the initial bracket is z ∈ [0, 10] on the axis, the returned apex is the midpoint of the final bracket, and the loop stops
below 10⁻⁶ -/
theorem ring_bisect_frame (P1 P2 : K × K × K) :
    (ringBisectInit : (K × K × K) × (K × K × K)) = ((0, 0, 0), (0, 0, 10)) ∧ ringApex P1 P2 = mid3 P1 P2 ∧
    (ringStopThreshold : K) = 1 / 1000000 := ⟨rfl, rfl, rfl⟩

/-! ## round 6: the defect is monotone along the axis, so the bisection meets the request within the stopping tolerance -/

/-- apex at height z on the axis, rim points A = (1,0,0) and B = (c,s,0) on the unit circle: (A−P)·(B−P) = c + z² and
|A−P|² = |B−P|² = 1 + z², i.e. the cosine of the apex angle is (c + z²)/(1 + z²) -/
theorem apex_cos_formula (c s z : K) (h : c ^ 2 + s ^ 2 = 1) :
    (1 - 0) * (c - 0) + (0 - 0) * (s - 0) + (0 - z) * (0 - z) = c + z ^ 2 ∧
    (1 - 0) ^ 2 + (0 - 0) ^ 2 + (0 - z) ^ 2 = 1 + z ^ 2 ∧ (c - 0) ^ 2 + (s - 0) ^ 2 + (0 - z) ^ 2 = 1 + z ^ 2 := by
  refine ⟨by ring, by ring, ?_⟩
  linear_combination h

/-- the cosine of the apex angle increases strictly with the height (for a rim angle that is not a full turn: c < 1) -/
theorem apex_cos_strict_mono (c z z' : K) (hc : c < 1) (hz : 0 ≤ z) (hzz : z < z') :
    (c + z ^ 2) / (1 + z ^ 2) < (c + z' ^ 2) / (1 + z' ^ 2) := by
  have h1 : 0 < 1 + z ^ 2 := by positivity
  have h2 : 0 < 1 + z' ^ 2 := by positivity
  have key : (c + z' ^ 2) / (1 + z' ^ 2) - (c + z ^ 2) / (1 + z ^ 2) =
      (z' ^ 2 - z ^ 2) * (1 - c) / ((1 + z ^ 2) * (1 + z' ^ 2)) := by
    field_simp; ring
  have hsq : 0 < z' ^ 2 - z ^ 2 := by nlinarith
  have : 0 < (z' ^ 2 - z ^ 2) * (1 - c) / ((1 + z ^ 2) * (1 + z' ^ 2)) :=
    div_pos (mul_pos hsq (by linarith)) (mul_pos h1 h2)
  linarith

/-- hence, for any strictly decreasing `acos`, the defect 2π − N·acos(cos of the apex angle) increases weakly with the height -/
theorem ring_defect_monotone (pi c : K) (N : Nat) (acos : K → K) (hac : ∀ x y, x < y → acos y < acos x) (hc : c < 1)
    (z z' : K) (hz : 0 ≤ z) (hzz : z ≤ z') :
    2 * pi - (N : K) * acos ((c + z ^ 2) / (1 + z ^ 2)) ≤ 2 * pi - (N : K) * acos ((c + z' ^ 2) / (1 + z' ^ 2)) := by
  rcases eq_or_lt_of_le hzz with rfl | hlt
  · exact le_refl _
  · have := hac _ _ (apex_cos_strict_mono c z z' hc hz hlt)
    have hN : (0 : K) ≤ (N : K) := Nat.cast_nonneg N
    nlinarith

/-- the bracket stays on the axis, above the rim plane and ordered: invariant of `ringBisectStep` -/
theorem ring_bisect_axis_invariant (pi : K) (ang : K × K × K → K × K × K → K × K × K → K) (N : Nat) (defect : K)
    (A B P1 P2 : K × K × K) (h1 : P1.1 = 0 ∧ P1.2.1 = 0) (h2 : P2.1 = 0 ∧ P2.2.1 = 0) (h0 : 0 ≤ P1.2.2)
    (h12 : P1.2.2 ≤ P2.2.2) :
    let q := ringBisectStep pi ang N defect A B P1 P2
    (q.1.1 = 0 ∧ q.1.2.1 = 0) ∧ (q.2.1 = 0 ∧ q.2.2.1 = 0) ∧ 0 ≤ q.1.2.2 ∧ q.1.2.2 ≤ q.2.2.2 := by
  intro q
  have spec := ring_bisect_step_spec pi ang N defect A B P1 P2
  simp only at spec
  obtain ⟨s1, s2, s3, s4⟩ := spec
  by_cases c1 : defect > 2 * pi - (N : K) * ang A P2 B
  · have e : q = _ := s1 c1
    rw [e]; simp only [h2.1, h2.2, mul_zero, and_self, true_and]
    constructor <;> linarith
  · by_cases c2 : defect > 2 * pi - (N : K) * ang A (mid3 P1 P2) B
    · have e : q = _ := s2 c1 c2
      rw [e]; simp only [mid3, h1.1, h1.2, h2.1, h2.2, add_zero, zero_div, and_self, true_and]
      constructor <;> linarith
    · by_cases c3 : defect < 2 * pi - (N : K) * ang A (mid3 P1 P2) B
      · have e : q = _ := s3 c1 c2 c3
        rw [e]; simp only [mid3, h1.1, h1.2, h2.1, h2.2, add_zero, zero_div, and_self, true_and]
        constructor <;> linarith
      · have e : q = _ := s4 c1 c2 c3
        rw [e]; exact ⟨h1, h2, h0, h12⟩

/-- **the apex has the requested defect within the stopping tolerance** (PARTIAL). When the loop stops — bracket on the axis,
request bracketed (`ring_bisect_bracket`, `ring_bisect_axis_invariant`), `|dfct P1 − dfct P2| < tol` (`ring_bisect_frame`: 10⁻⁶) —
the returned apex `ringApex P1 P2` has `|dfct − defect| < tol`, PROVIDED `angle_3pts A P B = acos(cos of the apex angle)` for apexes
on the axis with a strictly decreasing `acos` (the specification of `angle_3pts`: property C12).
Missing for the full statement, exactly: (1) that specification of `angle_3pts` over ℝ with `Real.arccos` (C12 states it on the
float implementation numerically only); (2) termination of the float loop in the stop state (rounding is not modelled). -/
theorem ring_apex_defect_within_tolerance_partial (pi c tol defect : K) (N : Nat) (acos : K → K)
    (ang : K × K × K → K × K × K → K × K × K → K) (A B P1 P2 : K × K × K)
    (hac : ∀ x y, x < y → acos y < acos x) (hc : c < 1)
    (hang : ∀ z, 0 ≤ z → ang A (0, 0, z) B = acos ((c + z ^ 2) / (1 + z ^ 2)))
    (h1 : P1.1 = 0 ∧ P1.2.1 = 0) (h2 : P2.1 = 0 ∧ P2.2.1 = 0) (h0 : 0 ≤ P1.2.2) (h12 : P1.2.2 ≤ P2.2.2)
    (hb1 : 2 * pi - (N : K) * ang A P1 B ≤ defect) (hb2 : defect ≤ 2 * pi - (N : K) * ang A P2 B)
    (hstop : |(2 * pi - (N : K) * ang A P1 B) - (2 * pi - (N : K) * ang A P2 B)| < tol) :
    |(2 * pi - (N : K) * ang A (ringApex P1 P2) B) - defect| < tol := by
  obtain ⟨x1, y1, z1⟩ := P1
  obtain ⟨x2, y2, z2⟩ := P2
  simp only at h1 h2 h0 h12
  obtain ⟨rfl, rfl⟩ := h1
  obtain ⟨rfl, rfl⟩ := h2
  have hm : ringApex ((0 : K), (0 : K), z1) (0, 0, z2) = (0, 0, (z1 + z2) / 2) := by
    simp [ringApex]
  rw [hm]
  have hz2 : 0 ≤ z2 := le_trans h0 h12
  have hmid0 : 0 ≤ (z1 + z2) / 2 := by linarith
  rw [hang z1 h0] at hb1 hstop
  rw [hang z2 hz2] at hb2 hstop
  rw [hang _ hmid0]
  let g : K → K := fun z => 2 * pi - (N : K) * acos ((c + z ^ 2) / (1 + z ^ 2))
  have m1 : g z1 ≤ g ((z1 + z2) / 2) := ring_defect_monotone pi c N acos hac hc z1 _ h0 (by linarith)
  have m2 : g ((z1 + z2) / 2) ≤ g z2 := ring_defect_monotone pi c N acos hac hc _ z2 hmid0 (by linarith)
  simp only [g] at m1 m2
  rw [abs_lt] at hstop ⊢
  constructor <;> linarith

/-- non-vacuity of the hypotheses over ℚ: `acos x = −x` is strictly decreasing; the cosine formula at c = 0, z = 1, 2 -/
example : ((0 : ℚ) + 1 ^ 2) / (1 + 1 ^ 2) < (0 + 2 ^ 2) / (1 + 2 ^ 2) := apex_cos_strict_mono 0 1 2 (by norm_num) (by norm_num) (by norm_num)
example : ∀ x y : ℚ, x < y → (fun t => -t) y < (fun t => -t) x := fun x y h => by simpa using h

end ordered
end Mouette.Props.C14
