import Mouette.Generated.C14Verts
import Mathlib.Tactic.Ring
import Mathlib.Tactic.Linarith
import Mathlib.Tactic.FieldSimp
import Mathlib.Algebra.Order.Field.Basic
/-!
# C14 (round 3) — the bisection that places the apex of `ring`

`ringBisectStep` is one pass through the `while` loop of `mouette/procedural/rings.py: ring`, translated on every run by
`vlib/pyverts.py` with the aliasing semantics of numpy arrays (`a = b` binds the same object; `a *= k` updates that object in
place, for every name bound to it; `a = <expr>` rebinds). `angle_3pts` is uninterpreted; `dfct P = 2π − N·angle_3pts A P B` is
the angle defect reached with the apex at `P`.

* `ring_bisect_step_spec`: which bound moves in which branch (bracket extension: the OLD upper bound becomes the lower bound and
  the upper bound is doubled; otherwise one bound moves to the midpoint);
* `ring_bisect_bracket`: once the request is bracketed (`dfct P1 ≤ defect ≤ dfct P2`) it stays bracketed and the bracket halves;
  during the extension phase the lower bound stays strictly below the request;
* `bracket_midpoint_error`: for a monotone defect function, the value at any point of a bracket differs from the request by at
  most the spread of the bracket's ends — so, when the loop stops (`|dfct P1 − dfct P2| < 10⁻⁶`), the apex `(P1+P2)/2` has the
  requested angle defect up to 10⁻⁶ (given monotonicity of the angle along the axis, which is not proved here).
-/
namespace Mouette.Props.C14
open Mouette.Generated.C14Verts

section ordered
variable {K : Type} [Field K] [LinearOrder K] [IsStrictOrderedRing K]

/-- the midpoint of two points, as the source spells it -/
def mid3 (P Q : K × K × K) : K × K × K := ((P.1 + Q.1) / 2, (P.2.1 + Q.2.1) / 2, (P.2.2 + Q.2.2) / 2)

theorem ring_bisect_step_spec (pi : K) (ang : K × K × K → K × K × K → K × K × K → K) (N : Nat) (defect : K)
    (A B P1 P2 : K × K × K) :
    let dfct := fun P => 2 * pi - (N : K) * ang A P B
    let q := ringBisectStep pi ang N defect A B P1 P2
    (defect > dfct P2 → q = (P2, (2 * P2.1, 2 * P2.2.1, 2 * P2.2.2))) ∧
    (¬ defect > dfct P2 → defect > dfct (mid3 P1 P2) → q = (mid3 P1 P2, P2)) ∧
    (¬ defect > dfct P2 → ¬ defect > dfct (mid3 P1 P2) → defect < dfct (mid3 P1 P2) → q = (P1, mid3 P1 P2)) ∧
    (¬ defect > dfct P2 → ¬ defect > dfct (mid3 P1 P2) → ¬ defect < dfct (mid3 P1 P2) → q = (P1, P2)) := by
  intro dfct q
  simp only [q, ringBisectStep, dfct, mid3]
  refine ⟨?_, ?_, ?_, ?_⟩
  · intro h; simp only [h, if_true]
  · intro h1 h2; simp only [h1, h2, if_false, if_true]
  · intro h1 h2 h3; simp only [h1, h2, h3, if_false, if_true]
  · intro h1 h2 h3; simp only [h1, h2, h3, if_false]

/-- the bracket invariant of the dichotomy -/
theorem ring_bisect_bracket (pi : K) (ang : K × K × K → K × K × K → K × K × K → K) (N : Nat) (defect : K)
    (A B P1 P2 : K × K × K) :
    let dfct := fun P => 2 * pi - (N : K) * ang A P B
    let q := ringBisectStep pi ang N defect A B P1 P2
    (defect > dfct P2 → dfct q.1 < defect ∧ q.1 = P2) ∧
    (dfct P1 ≤ defect → defect ≤ dfct P2 → dfct q.1 ≤ defect ∧ defect ≤ dfct q.2 ∧
      (defect ≠ dfct (mid3 P1 P2) →
        q.2.1 - q.1.1 = (P2.1 - P1.1) / 2 ∧ q.2.2.1 - q.1.2.1 = (P2.2.1 - P1.2.1) / 2 ∧ q.2.2.2 - q.1.2.2 = (P2.2.2 - P1.2.2) / 2)) := by
  intro dfct q
  have spec := ring_bisect_step_spec pi ang N defect A B P1 P2
  simp only at spec
  obtain ⟨s1, s2, s3, s4⟩ := spec
  constructor
  · intro h
    have e : q = _ := s1 h
    rw [e]; exact ⟨h, rfl⟩
  · intro h1 h2
    have n1 : ¬ defect > dfct P2 := not_lt.mpr h2
    by_cases c2 : defect > dfct (mid3 P1 P2)
    · have e : q = _ := s2 n1 c2
      rw [e]
      refine ⟨le_of_lt c2, h2, fun _ => ?_⟩
      simp only [mid3]
      refine ⟨by ring, by ring, by ring⟩
    · by_cases c3 : defect < dfct (mid3 P1 P2)
      · have e : q = _ := s3 n1 c2 c3
        rw [e]
        refine ⟨h1, le_of_lt c3, fun _ => ?_⟩
        simp only [mid3]
        refine ⟨by ring, by ring, by ring⟩
      · have e : q = _ := s4 n1 c2 c3
        rw [e]
        refine ⟨h1, h2, fun hne => ?_⟩
        exact absurd (le_antisymm (not_lt.mp c2) (not_lt.mp c3)) hne

/-- for a monotone function, a request bracketed by the values at the ends is met at every point of the bracket up to the
spread of the ends -/
theorem bracket_midpoint_error (g : K → K) (hg : ∀ x y, x ≤ y → g x ≤ g y) (a b m d : K) (ham : a ≤ m) (hmb : m ≤ b)
    (h1 : g a ≤ d) (h2 : d ≤ g b) : |g m - d| ≤ g b - g a := by
  have := hg a m ham
  have := hg m b hmb
  rw [abs_le]; constructor <;> linarith

/-- the initial bracket is z ∈ [0, 10] on the axis, the returned apex is the midpoint of the final bracket, and the loop stops
below 10⁻⁶ -/
theorem ring_bisect_frame (P1 P2 : K × K × K) :
    (ringBisectInit : (K × K × K) × (K × K × K)) = ((0, 0, 0), (0, 0, 10)) ∧ ringApex P1 P2 = mid3 P1 P2 ∧
    (ringStopThreshold : K) = 1 / 1000000 := ⟨rfl, rfl, rfl⟩

end ordered
end Mouette.Props.C14
