import Mouette.Props.C14
/-!
# C14 (continued) — `unit_triangle(nu, nv)` for nu ≥ nv: face count and index range, all resolutions

(For nu < nv the generator is broken: open finding `C14/unit_triangle/nu<nv`.)
-/
namespace Mouette.Props.C14
open Mouette.Generated.C14 Mouette.MeshCheck Mouette.ListCount

/-- triangular numbers in the form the generator uses (`kpt = j*(j+1)//2 + i`) -/
def tri (n : Nat) : Nat := n * (n + 1) / 2

theorem tri_succ (n : Nat) : tri (n + 1) = tri n + n + 1 := by
  unfold tri
  have h : (n + 1) * (n + 1 + 1) = n * (n + 1) + 2 * (n + 1) := by
    rw [Nat.mul_add, Nat.mul_one, Nat.succ_mul, Nat.mul_comm 2]; omega
  rw [h]; omega

theorem tri_mono {a b : Nat} (h : a ≤ b) : tri a ≤ tri b := by
  induction h with
  | refl => exact Nat.le_refl _
  | step _ ih => rw [tri_succ]; omega

/-- every face index of `unit_triangle(nu, nv)` is below the vertex count `nv(nv+1)/2`, whenever nu ≥ nv -/
theorem unit_triangle_inRange (nu nv : Nat) (u : Bool) (h : nv ≤ nu) :
    ∀ f ∈ unit_triangleFaces nu nv u, ∀ k ∈ f, k < unit_triangleNVerts nu nv u := by
  rw [unit_triangle_nverts nu nv u h]
  intro f hf k hk
  rw [unit_triangleFaces_norm] at hf
  simp only [unit_triangleFacesCanon, List.mem_flatMap, List.mem_range] at hf
  obtain ⟨j, hj, i, hi, hf⟩ := hf
  have hi' := List.all_eq_true.mp List.all_takeWhile i hi
  have hir := (List.takeWhile_sublist _).subset hi
  simp only [List.mem_range] at hir
  simp only [decide_eq_true_eq, not_or, Nat.not_lt] at hi'
  obtain ⟨hij, hjn⟩ := hi'
  have hj2 : j + 2 ≤ nv := by omega
  have t1 := tri_succ j
  have t2 : tri (j + 2) = tri (j + 1) + (j + 1) + 1 := tri_succ (j + 1)
  have t3 := tri_mono hj2
  have e : j * (j + 1) / 2 = tri j := rfl
  have e2 : nv * (nv + 1) / 2 = tri nv := rfl
  rw [e2]
  simp only [e, List.mem_append, List.mem_cons, List.mem_nil_iff, or_false] at hf
  rcases hf with hf | hf
  · by_cases c : i < j
    · simp only [c, if_true, List.mem_cons, List.mem_nil_iff, or_false] at hf
      subst hf; simp only [List.mem_cons, List.mem_nil_iff, or_false] at hk
      rcases hk with rfl | rfl | rfl <;> omega
    · simp [c] at hf
  · subst hf; simp only [List.mem_cons, List.mem_nil_iff, or_false] at hk
    rcases hk with rfl | rfl | rfl <;> omega

example : unit_triangleNVerts 4 3 false = 6 ∧ (unit_triangleFaces 4 3 false).length = 4 ∧
    allInRange 6 (unit_triangleFaces 4 3 false) = true ∧ dirEdgesNodup (unit_triangleFaces 4 3 false) = true := by decide

end Mouette.Props.C14
