import Mouette.Generated.C03P
import Mouette.Props.C03Source
/-!
# C03 (round 7) — single-return bodies of `volume.py` compiled into `Generated/C03P.lean`, and their bridges
-/
namespace Mouette.Props.C03Small
open Mouette.Vol Mouette.VolS Mouette.Generated Mouette.Props.C03Source

/-- `cell_to_vertex(c)` is the stored cell -/
theorem cell_to_vertex_bridge (m : Mesh) (c : Nat) : C03P.cell_to_vertex m c = m.cell c := rfl

/-- `n_F2C(f)` is the number of cells the hand model lists for `f` -/
theorem n_F2C_bridge (m : Mesh) (h4 : AllTets m) (f : Nat) : C03P.n_F2C m f = (m.conn.faceToCells f).length := by
  unfold C03P.n_F2C; rw [face_to_cells_bridge m h4]

/-- the four `id_*` properties return the ranges that the compiled loops of `Generated/C03S.lean` / `C03B.lean` iterate over -/
theorem id_lists_bridge (m : Mesh) :
    C03P.id_vertices m = List.range m.nV ∧ C03P.id_edges m = List.range m.nE ∧ C03P.id_faces m = List.range m.nF
    ∧ C03P.id_cells m = List.range m.nC := ⟨rfl, rfl, rfl, rfl⟩

theorem is_cell_tet_bridge (m : Mesh) (c : Nat) : C03P.is_cell_tet m c = ((m.cell c).length == 4) := rfl

theorem all_range_getD {α : Type} (l : List α) (d : α) (p : α → Bool) :
    (List.range l.length).all (fun i => p (l.getD i d)) = l.all p := by
  rw [Bool.eq_iff_iff, List.all_eq_true, List.all_eq_true]
  constructor
  · intro h x hx
    obtain ⟨i, hi, rfl⟩ := List.mem_iff_getElem.1 hx
    have := h i (List.mem_range.2 hi)
    rwa [List.getD_eq_getElem?_getD, List.getElem?_eq_getElem hi] at this
  · intro h i hi
    have hi' := List.mem_range.1 hi
    rw [List.getD_eq_getElem?_getD, List.getElem?_eq_getElem hi']
    exact h _ (List.getElem_mem _)

/-- `is_tetrahedral()` as the source computes it is the hand model's `Mesh.isTetrahedral` (the guard of
`_sort_edge_neighborhoods`) -/
theorem is_tetrahedral_bridge (m : Mesh) : C03P.is_tetrahedral m = m.isTetrahedral := by
  unfold C03P.is_tetrahedral C03P.is_cell_tet Mesh.isTetrahedral Mesh.cell Mesh.nC
  exact all_range_getD m.cells [] (fun C => C.length == 4)

example : C03P.is_tetrahedral Mouette.Props.C03.twoTets = true ∧ C03P.n_F2C Mouette.Props.C03.twoTets 0 = 2
    ∧ C03P.cell_to_vertex Mouette.Props.C03.twoTets 1 = [1, 2, 3, 4] ∧ C03P.id_cells Mouette.Props.C03.twoTets = [0, 1] := by
  decide +kernel

end Mouette.Props.C03Small
