import Mouette.Generated.C03P
import Mouette.Generated.C03B
import Mouette.Props.C03Source
/-!
# C03 (round 7) — single-return bodies of `volume.py` compiled into `Generated/C03P.lean`, and their bridges
-/
namespace Mouette.Props.C03Small
open Mouette.Vol Mouette.VolS Mouette.Generated Mouette.Props.C03Source

/-- `cell_to_vertex(c)` is the stored cell -/
theorem cell_to_vertex_bridge (m : Mesh) (c : Nat) : C03P.cell_to_vertex m c = m.cell c := rfl

/-- `n_F2C(f)` is the number of cells the hand model lists for `f` -/
theorem n_F2C_bridge (m : Mesh) (h4 : AllTets m) (f : Nat) : C03P.n_F2C m f = (m.conn.faceToCells f).length := by
  unfold C03P.n_F2C; rw [face_to_cells_bridge m h4]

/-- the four `id_*` properties return the ranges that the compiled loops of `Generated/C03S.lean` / `C03B.lean` iterate over -/
theorem id_lists_bridge (m : Mesh) :
    C03P.id_vertices m = List.range m.nV ∧ C03P.id_edges m = List.range m.nE ∧ C03P.id_faces m = List.range m.nF
    ∧ C03P.id_cells m = List.range m.nC := ⟨rfl, rfl, rfl, rfl⟩

theorem is_cell_tet_bridge (m : Mesh) (c : Nat) : C03P.is_cell_tet m c = ((m.cell c).length == 4) := rfl

theorem all_range_getD {α : Type} (l : List α) (d : α) (p : α → Bool) :
    (List.range l.length).all (fun i => p (l.getD i d)) = l.all p := by
  rw [Bool.eq_iff_iff, List.all_eq_true, List.all_eq_true]
  constructor
  · intro h x hx
    obtain ⟨i, hi, rfl⟩ := List.mem_iff_getElem.1 hx
    have := h i (List.mem_range.2 hi)
    rwa [List.getD_eq_getElem?_getD, List.getElem?_eq_getElem hi] at this
  · intro h i hi
    have hi' := List.mem_range.1 hi
    rw [List.getD_eq_getElem?_getD, List.getElem?_eq_getElem hi']
    exact h _ (List.getElem_mem _)

/-- `is_tetrahedral()` as the source computes it is the hand model's `Mesh.isTetrahedral` (the guard of
`_sort_edge_neighborhoods`) -/
theorem is_tetrahedral_bridge (m : Mesh) : C03P.is_tetrahedral m = m.isTetrahedral := by
  unfold C03P.is_tetrahedral C03P.is_cell_tet Mesh.isTetrahedral Mesh.cell Mesh.nC
  exact all_range_getD m.cells [] (fun C => C.length == 4)

example : C03P.is_tetrahedral Mouette.Props.C03.twoTets = true ∧ C03P.n_F2C Mouette.Props.C03.twoTets 0 = 2
    ∧ C03P.cell_to_vertex Mouette.Props.C03.twoTets 1 = [1, 2, 3, 4] ∧ C03P.id_cells Mouette.Props.C03.twoTets = [0, 1] := by
  decide +kernel

/-! ## round 8: `common_face`, `in_cell_index`, `in_cell_face_index`, `is_edge_on_border` -/

theorem common_face_bridge (m : Mesh) (c1 c2 : Nat) : C03P.common_face m c1 c2 = m.commonFace c1 c2 := by
  unfold C03P.common_face Mesh.commonFace setInter
  simp only []
  by_cases h : ((m.cell c1).eraseDups.filter fun v => (m.cell c2).contains v).length = 3
  · simp [h]
  · simp [h]

/-- `for i, v in enumerate(l): if p(v): return i` / `return None` is `findIdx?` -/
theorem find_range_eq_findIdx? {α : Type} (l : List α) (d : α) (p : α → Bool) :
    (List.range l.length).find? (fun i => p (l.getD i d)) = l.findIdx? p := by
  induction l with
  | nil => rfl
  | cons a r ih =>
    rw [List.length_cons, List.range_succ_eq_map, List.find?_cons, List.findIdx?_cons]
    by_cases ha : p a = true
    · simp [ha]
    · have ha' : p a = false := by simpa using ha
      simp only [List.getD_cons_zero, ha', Bool.false_eq_true, if_false]
      rw [List.find?_map]
      have : ((fun i => p ((a :: r).getD i d)) ∘ Nat.succ) = fun i => p (r.getD i d) := by
        funext i; simp [Function.comp]
      rw [this, ih]

theorem in_cell_index_bridge (m : Mesh) (c v : Nat) : C03P.in_cell_index m c v = m.inCellIndex c v := by
  unfold C03P.in_cell_index Mesh.inCellIndex
  simp only []
  rw [find_range_eq_findIdx? (m.cell c) 0 (fun x => x == v), List.findIdx?_eq_guard_findIdx_lt]
  have : List.findIdx (fun x => x == v) (m.cell c) = List.idxOf v (m.cell c) := rfl
  rw [this]
  by_cases h : List.idxOf v (m.cell c) < (m.cell c).length <;> simp [Option.guard, h]

theorem in_cell_face_index_bridge (m : Mesh) (c f : Nat) : C03P.in_cell_face_index m c f = m.inCellFaceIndex c f := rfl

/-- both call forms of `is_edge_on_border` read the flags computed by `_compute_interior_boundary_edges` -/
theorem is_edge_on_border_bridge (m : Mesh) (h4 : AllTets m) (e u v : Nat) :
    C03P.is_edge_on_border m e = m.conn.isEdgeOnBorder e
    ∧ C03P.is_edge_on_border_pair m u v = m.conn.isEdgeOnBorder (m.edgeIdD u v) := by
  unfold C03P.is_edge_on_border C03P.is_edge_on_border_pair Conn.isEdgeOnBorder flagGet
  rw [(boundary_edges_bridge m h4).1]
  exact ⟨rfl, rfl⟩

example : C03P.common_face Mouette.Props.C03.twoTets 0 1 = some 0 ∧ C03P.in_cell_index Mouette.Props.C03.twoTets 1 4 = some 3
    ∧ C03P.in_cell_index Mouette.Props.C03.twoTets 0 4 = none ∧ C03P.in_cell_face_index Mouette.Props.C03.twoTets 1 0 = some 3
    ∧ C03P.is_edge_on_border Mouette.Props.C03.twoTets 1 = true := by decide +kernel

/-! ## round 9: `cell_to_edge`, `boundary_mesh` -/

theorem foldl_append_isSome (g : Nat → Option Nat) (l : List Nat) (acc : List Nat) :
    l.foldl (fun acc j => if (g j).isSome = true then acc ++ [(g j).getD 0] else acc) acc = acc ++ l.filterMap g := by
  induction l generalizing acc with
  | nil => simp
  | cons a r ih =>
    simp only [List.foldl, ih, List.filterMap_cons]
    cases h : g a <;> simp

/-- **`cell_to_edge(c)`** as the source builds the entry `_adjC2E[c]` = the hand model's `Mesh.cellToEdge` -/
theorem cell_to_edge_bridge (m : Mesh) (c : Nat) : C03P.cell_to_edge m c = m.cellToEdge c := by
  unfold C03P.cell_to_edge Mesh.cellToEdge
  simp only []
  have h1 : ∀ (i : Nat) (acc : List Nat),
      (List.range i).foldl (fun acc x3 =>
        if (m.edgeId ((m.cell c).getD i 0) ((m.cell c).getD x3 0)).isSome = true
        then acc ++ [(m.edgeId ((m.cell c).getD i 0) ((m.cell c).getD x3 0)).getD 0] else acc) acc
      = acc ++ (List.range i).filterMap (fun j => m.edgeId ((m.cell c).getD i 0) ((m.cell c).getD j 0)) :=
    fun i acc => foldl_append_isSome (fun j => m.edgeId ((m.cell c).getD i 0) ((m.cell c).getD j 0)) _ acc
  simp only [h1]
  rw [flatMap_fold]; simp

/-- **`boundary_mesh`**: `None` as long as the boundary connectivity is not enabled (the `AttributeError` on `None` is caught),
the `mesh` attribute of the boundary connectivity afterwards — the very object, as the oracle's identity clause observes -/
theorem boundary_mesh_spec {β μ : Type} (mesh : β → μ) :
    C03P.boundary_mesh (none : Option β) mesh = none ∧ (∀ b : β, C03P.boundary_mesh (some b) mesh = some (mesh b))
    ∧ C03P.boundary_mesh_reads = ("boundary_connectivity", "mesh") := ⟨rfl, fun _ => rfl, by decide⟩

example : C03P.cell_to_edge Mouette.Props.C03.twoTets 0 = [5, 3, 1, 4, 0, 2] := by decide +kernel
example : C03P.boundary_mesh (some (C03B.extract_surface_boundary Mouette.Props.C03.twoTets)) (·.obj0_faces.length) = some 6
    ∧ C03P.boundary_mesh (none : Option Nat) (· + 1) = none := by decide +kernel

end Mouette.Props.C03Small
