import Mouette.Props.C14Euler
/-!
# C14 (round 3) — `ring` (closed and open) and `flat_ring` are oriented disks for ALL admissible parameters:
χ = 1 and the unmatched sides are exactly the sides of ONE polygon (one border loop). Theorems are about the translated
terms `ringFaces`, `flat_ringFaces`.
-/
namespace Mouette.Props.C14
open Mouette.Generated.C14 Mouette.MeshCheck Mouette.ListCount Mouette.EdgeCount

/-! ## closed ring -/

def ringNext (n i : Nat) : Nat := if i = n then 1 else i + 1

theorem ringTri_eq (n i : Nat) : ringTri n i = [0, i, ringNext n i] := by
  unfold ringTri ringNext; by_cases h : i = n <;> simp [h]

theorem ringFaces_addressed (N c : Nat) (h : 1 ≤ N * c) :
    ringFaces N c false = (List.range' 1 (N * c)).map (ringTri (N * c)) := by
  have e : List.range' 1 (N * c) = List.range' 1 (N * c - 1) ++ [N * c] := by
    have : N * c = (N * c - 1) + 1 := by omega
    conv => lhs; rw [this, List.range'_concat]
    simp; omega
  rw [e, List.map_append]
  rw [ringFaces_norm]
  simp only [ringFacesCanon, Bool.false_eq_true, if_false, List.map_cons, List.map_nil]
  congr 1
  · rw [List.map_eq_flatMap]
    apply flatMap_congr_on
    intro i hi
    rw [List.mem_range'_1] at hi
    have hm : (i + 1) % (N * c + 1) = i + 1 := Nat.mod_eq_of_lt (by omega)
    have hne : i ≠ N * c := by omega
    simp [hm, ringTri, hne]
  · simp [ringTri]

theorem mem_dirEdges_ring (n : Nat) (p q : Nat) :
    (p, q) ∈ dirEdges ((List.range' 1 n).map (ringTri n)) ↔ ∃ i, 1 ≤ i ∧ i ≤ n ∧
      ((p = 0 ∧ q = i) ∨ (p = i ∧ q = ringNext n i) ∨ (p = ringNext n i ∧ q = 0)) := by
  rw [mem_dirEdges_map]
  simp only [List.mem_range'_1, ringTri_eq, sides_tri, List.mem_cons, Prod.mk.injEq, List.mem_nil_iff, or_false]
  constructor
  · rintro ⟨i, hi, h⟩; exact ⟨i, by omega, by omega, h⟩
  · rintro ⟨i, h1, h2, h⟩; exact ⟨i, by omega, h⟩

theorem ring_face_border (n : Nat) (hn : 3 ≤ n) (i : Nat) (hi : i ∈ List.range' 1 n) :
    ((sides (ringTri n i)).filter
      (fun e => !(dirEdges ((List.range' 1 n).map (ringTri n))).contains (e.2, e.1))).length = 1 := by
  rw [List.mem_range'_1] at hi
  have m1 : (i, 0) ∈ dirEdges ((List.range' 1 n).map (ringTri n)) := by
    rw [mem_dirEdges_ring]
    by_cases c : i = 1
    · exact ⟨n, by omega, by omega, by simp [ringNext, c]⟩
    · refine ⟨i - 1, by omega, by omega, ?_⟩
      have : ¬ (i - 1 = n) := by omega
      simp only [ringNext, this, if_false, and_true]; omega
  have m2 : (0, ringNext n i) ∈ dirEdges ((List.range' 1 n).map (ringTri n)) := by
    rw [mem_dirEdges_ring]
    refine ⟨ringNext n i, ?_, ?_, Or.inl ⟨rfl, rfl⟩⟩ <;> (unfold ringNext; split <;> omega)
  have u : (ringNext n i, i) ∉ dirEdges ((List.range' 1 n).map (ringTri n)) := by
    rw [mem_dirEdges_ring]
    rintro ⟨j, h1, h2, h⟩
    unfold ringNext at h
    split at h <;> split at h <;> omega
  simp [ringTri_eq, sides_tri, m1, m2, u]

theorem ring_face_sides (n : Nat) (hn : 3 ≤ n) (i : Nat) (hi : 1 ≤ i ∧ i ≤ n) :
    (sides (ringTri n i)).Nodup ∧ ∀ e ∈ sides (ringTri n i), e.1 ≠ e.2 := by
  rw [ringTri_eq]
  simp only [sides_tri, List.nodup_cons, List.mem_cons, Prod.mk.injEq, List.mem_nil_iff, or_false,
      not_or, not_and, List.nodup_nil, and_true, not_false_eq_true, forall_eq_or_imp, forall_eq, ne_eq]
  unfold ringNext; split <;> omega

/-- closed ring (n = N·n_cover ≥ 3 rim vertices): consistently oriented, exactly n unmatched sides, χ = 1 -/
theorem ring_closed_euler (N c : Nat) (hn : 3 ≤ N * c) :
    (dirEdges (ringFaces N c false)).Nodup ∧ numBorder (ringFaces N c false) = N * c ∧
    euler (ringNVerts N c false) (ringFaces N c false) = 1 := by
  rw [ringFaces_addressed N c (by omega)]
  generalize hnn : N * c = n at hn ⊢
  have hA : (List.range' 1 n).Nodup := List.nodup_range'
  have hs : ∀ i ∈ List.range' 1 n, (sides (ringTri n i)).Nodup :=
    fun i hi => (ring_face_sides n hn i (by rw [List.mem_range'_1] at hi; omega)).1
  have hl : ∀ i ∈ List.range' 1 n, ∀ e ∈ sides (ringTri n i), e.1 ≠ e.2 :=
    fun i hi => (ring_face_sides n hn i (by rw [List.mem_range'_1] at hi; omega)).2
  have hor : ∀ i ∈ List.range' 1 n, ∀ j ∈ List.range' 1 n, ∀ e, e ∈ sides (ringTri n i) → e ∈ sides (ringTri n j) → i = j := by
    intro i hi j hj e h1 h2
    rw [List.mem_range'_1] at hi hj
    exact ring_oriented n hn i j (by omega) (by omega) e h1 h2
  have hbd : numBorder ((List.range' 1 n).map (ringTri n)) = n := by
    rw [numBorder_addressed _ _ (fun _ => 1) (ring_face_border n hn), sum_map_const]; simp
  refine ⟨dirEdges_nodup_addressed _ _ hA hs hor, hbd, ?_⟩
  apply euler_addressed _ _ _ hA hs hor hl n hbd
  rw [sum_map_const_on _ _ 3 (by intro i _; rw [ringTri_eq]; rfl), ← hnn, ring_nverts N c false (by omega), hnn]
  simp
  omega

/-- the rim of the closed ring as a polygon 1, 2, …, n -/
def ringRim (n : Nat) : List Nat := (List.range n).map (fun k => k + 1)

/-- closed ring: the unmatched sides are exactly the sides of ONE n-gon around the apex (one border loop: a disk) -/
theorem ring_closed_loop (N c : Nat) (hn : 3 ≤ N * c) :
    BorderLoops (ringFaces N c false) [ringRim (N * c)] ∧ (ringRim (N * c)).length = N * c := by
  rw [ringFaces_addressed N c (by omega)]
  generalize N * c = n at hn ⊢
  refine ⟨⟨?_, by simp, ?_⟩, by simp [ringRim]⟩
  · intro cc hc
    simp only [List.mem_cons, List.mem_nil_iff, or_false] at hc
    subst hc
    unfold ringRim
    rw [List.nodup_iff_pairwise_ne, List.pairwise_map]
    apply List.Pairwise.imp _ List.nodup_range
    intro a b hab h; omega
  · rintro ⟨p, q⟩
    simp only [List.mem_cons, List.mem_nil_iff, or_false, exists_eq_left, ringRim, mem_sides_map_range, Prod.mk.injEq]
    constructor
    · rintro ⟨h1, h2⟩
      rw [mem_dirEdges_ring] at h1
      obtain ⟨i, hi1, hi2, h⟩ := h1
      rcases h with ⟨hp, hq⟩ | ⟨hp, hq⟩ | ⟨hp, hq⟩
      · exfalso; apply h2; rw [hp, hq, mem_dirEdges_ring]
        by_cases c1 : i = 1
        · exact ⟨n, by omega, by omega, by simp [ringNext, c1]⟩
        · refine ⟨i - 1, by omega, by omega, ?_⟩
          have : ¬ (i - 1 = n) := by omega
          simp only [ringNext, this, if_false, and_true]; omega
      · refine ⟨i - 1, by omega, ?_⟩
        have a3 := succ_mod_cases n (i - 1) (by omega)
        rw [hp, hq]; unfold ringNext; split <;> omega
      · exfalso; apply h2; rw [hp, hq, mem_dirEdges_ring]
        refine ⟨ringNext n i, ?_, ?_, Or.inl ⟨rfl, rfl⟩⟩ <;> (unfold ringNext; split <;> omega)
    · rintro ⟨k, hk, rfl, rfl⟩
      have a3 := succ_mod_cases n k hk
      constructor
      · rw [mem_dirEdges_ring]
        refine ⟨k + 1, by omega, by omega, Or.inr (Or.inl ⟨rfl, ?_⟩)⟩
        unfold ringNext; split <;> omega
      · rw [mem_dirEdges_ring]
        rintro ⟨j, h1, h2, h⟩
        unfold ringNext at h
        split at h <;> omega
/-! ## open fans: `flat_ring` and the open `ring` -/

theorem fanFaces_eq (n : Nat) : (List.range n).flatMap (fun i => [fanTri i]) = (List.range n).map fanTri := by
  rw [List.map_eq_flatMap]

theorem ringFaces_open_eq (N c : Nat) (h : 1 ≤ N * c) : ringFaces N c true = (List.range (N * c)).map fanTri := by
  rw [ringFaces_norm]
  simp only [ringFacesCanon, if_true]
  generalize N * c = n at h ⊢
  obtain ⟨m, rfl⟩ : ∃ m, n = m + 1 := ⟨n - 1, by omega⟩
  rw [List.range_succ, List.map_append, Nat.add_sub_cancel, List.range'_eq_map_range, List.flatMap_map,
    List.map_eq_flatMap]
  congr 1
  apply flatMap_congr_on
  intro i _
  simp only [fanTri, List.cons.injEq, and_true, true_and]
  omega


theorem mem_dirEdges_fan (n : Nat) (p q : Nat) :
    (p, q) ∈ dirEdges ((List.range n).map fanTri) ↔ ∃ i, i < n ∧
      ((p = 0 ∧ q = i + 1) ∨ (p = i + 1 ∧ q = i + 2) ∨ (p = i + 2 ∧ q = 0)) := by
  rw [mem_dirEdges_map]
  simp only [List.mem_range, fanTri, sides_tri, List.mem_cons, Prod.mk.injEq, List.mem_nil_iff, or_false]

theorem fan_facts (n i : Nat) (hi : i < n) :
    ((i + 1, 0) ∈ dirEdges ((List.range n).map fanTri) ↔ i ≠ 0) ∧
    ((i + 2, i + 1) ∉ dirEdges ((List.range n).map fanTri)) ∧
    ((0, i + 2) ∈ dirEdges ((List.range n).map fanTri) ↔ i + 1 ≠ n) := by
  refine ⟨?_, ?_, ?_⟩
  · rw [mem_dirEdges_fan]
    constructor
    · rintro ⟨j, hj, h⟩; omega
    · intro h; exact ⟨i - 1, by omega, by omega⟩
  · rw [mem_dirEdges_fan]
    rintro ⟨j, hj, h⟩; omega
  · rw [mem_dirEdges_fan]
    constructor
    · rintro ⟨j, hj, h⟩; omega
    · intro h; exact ⟨i + 1, by omega, by omega⟩

theorem fan_face_border (n : Nat) (i : Nat) (hi : i ∈ List.range n) :
    ((sides (fanTri i)).filter
      (fun e => !(dirEdges ((List.range n).map fanTri)).contains (e.2, e.1))).length =
      1 + ((if i = 0 then 1 else 0) + (if i = n - 1 then 1 else 0)) := by
  rw [List.mem_range] at hi
  obtain ⟨f1, f2, f3⟩ := fan_facts n i hi
  by_cases c0 : i = 0 <;> by_cases c1 : i = n - 1
  · have g1 : (i + 1, 0) ∉ dirEdges ((List.range n).map fanTri) := fun h => (f1.mp h) c0
    have g3 : (0, i + 2) ∉ dirEdges ((List.range n).map fanTri) := fun h => (f3.mp h) (by omega)
    rw [if_pos c0, if_pos c1]
    simp [fanTri, sides_tri, g1, f2, g3]
  · have g1 : (i + 1, 0) ∉ dirEdges ((List.range n).map fanTri) := fun h => (f1.mp h) c0
    have g3 : (0, i + 2) ∈ dirEdges ((List.range n).map fanTri) := f3.mpr (by omega)
    rw [if_pos c0, if_neg c1]
    simp [fanTri, sides_tri, g1, f2, g3]
  · have g1 : (i + 1, 0) ∈ dirEdges ((List.range n).map fanTri) := f1.mpr c0
    have g3 : (0, i + 2) ∉ dirEdges ((List.range n).map fanTri) := fun h => (f3.mp h) (by omega)
    rw [if_neg c0, if_pos c1]
    simp [fanTri, sides_tri, g1, f2, g3]
  · have g1 : (i + 1, 0) ∈ dirEdges ((List.range n).map fanTri) := f1.mpr c0
    have g3 : (0, i + 2) ∈ dirEdges ((List.range n).map fanTri) := f3.mpr (by omega)
    rw [if_neg c0, if_neg c1]
    simp [fanTri, sides_tri, g1, f2, g3]

/-- open fan of n ≥ 1 triangles over the vertices 0 … n+1: consistently oriented, n + 2 unmatched sides, χ = 1 -/
theorem fan_euler (n : Nat) (hn : 1 ≤ n) :
    (dirEdges ((List.range n).map fanTri)).Nodup ∧ numBorder ((List.range n).map fanTri) = n + 2 ∧
    euler (n + 2) ((List.range n).map fanTri) = 1 := by
  have hA : (List.range n).Nodup := List.nodup_range
  have hsl : ∀ i, (sides (fanTri i)).Nodup ∧ ∀ e ∈ sides (fanTri i), e.1 ≠ e.2 := by
    intro i
    simp only [fanTri, sides_tri, List.nodup_cons, List.mem_cons, Prod.mk.injEq, List.mem_nil_iff, or_false,
      not_or, not_and, List.nodup_nil, and_true, not_false_eq_true, forall_eq_or_imp, forall_eq, ne_eq]
    omega
  have hor : ∀ i ∈ List.range n, ∀ j ∈ List.range n, ∀ e, e ∈ sides (fanTri i) → e ∈ sides (fanTri j) → i = j :=
    fun i _ j _ e h1 h2 => flat_ring_oriented i j e h1 h2
  have hbd : numBorder ((List.range n).map fanTri) = n + 2 := by
    rw [numBorder_addressed _ _ _ (fan_face_border n), sum_map_add, sum_map_add, sum_map_const,
      sum_range_indicator n 0 (by omega), sum_range_indicator n (n - 1) (by omega)]
    simp
  refine ⟨dirEdges_nodup_addressed _ _ hA (fun i _ => (hsl i).1) hor, hbd, ?_⟩
  apply euler_addressed _ _ _ hA (fun i _ => (hsl i).1) hor (fun i _ => (hsl i).2) (n + 2) hbd
  rw [sum_map_const_on _ _ 3 (by intro i _; rfl)]
  simp; omega

/-- the border of the open fan as a polygon 0, 1, …, n+1 -/
def fanRim (n : Nat) : List Nat := (List.range (n + 2)).map (fun k => k)

/-- open fan: the unmatched sides are exactly the sides of ONE (n+2)-gon (one border loop: a disk) -/
theorem fan_loop (n : Nat) (hn : 1 ≤ n) : BorderLoops ((List.range n).map fanTri) [fanRim n] ∧ (fanRim n).length = n + 2 := by
  refine ⟨⟨?_, by simp, ?_⟩, by simp [fanRim]⟩
  · intro cc hc
    simp only [List.mem_cons, List.mem_nil_iff, or_false] at hc
    subst hc
    unfold fanRim
    rw [List.map_id']; exact List.nodup_range
  · rintro ⟨p, q⟩
    simp only [List.mem_cons, List.mem_nil_iff, or_false, exists_eq_left, fanRim, mem_sides_map_range, Prod.mk.injEq]
    constructor
    · rintro ⟨h1, h2⟩
      rw [mem_dirEdges_fan] at h1
      obtain ⟨i, hi, h⟩ := h1
      obtain ⟨f1, f2, f3⟩ := fan_facts n i hi
      rcases h with ⟨hp, hq⟩ | ⟨hp, hq⟩ | ⟨hp, hq⟩
      · rw [hp, hq] at h2
        have : i = 0 := by
          by_cases c : i = 0
          · exact c
          · exact absurd (f1.mpr c) h2
        refine ⟨0, by omega, ?_⟩
        have a3 := succ_mod_cases (n + 2) 0 (by omega)
        omega
      · refine ⟨i + 1, by omega, ?_⟩
        have a3 := succ_mod_cases (n + 2) (i + 1) (by omega)
        omega
      · rw [hp, hq] at h2
        have : i + 1 = n := by
          by_cases c : i + 1 = n
          · exact c
          · exact absurd (f3.mpr c) h2
        refine ⟨n + 1, by omega, ?_⟩
        have a3 := succ_mod_cases (n + 2) (n + 1) (by omega)
        omega
    · rintro ⟨k, hk, hp, hq⟩
      rw [hp, hq]
      have a3 := succ_mod_cases (n + 2) k hk
      by_cases c0 : k = 0
      · obtain ⟨f1, f2, f3⟩ := fan_facts n 0 (by omega)
        subst c0
        have e1 : (0 + 1) % (n + 2) = 0 + 1 := by omega
        rw [e1]
        exact ⟨(mem_dirEdges_fan n 0 1).mpr ⟨0, by omega, by omega⟩, fun h => (f1.mp h) rfl⟩
      · by_cases c1 : k = n + 1
        · obtain ⟨f1, f2, f3⟩ := fan_facts n (n - 1) (by omega)
          have e1 : (k + 1) % (n + 2) = 0 := by omega
          have e2 : n - 1 + 2 = k := by omega
          rw [e1]
          refine ⟨(mem_dirEdges_fan n k 0).mpr ⟨n - 1, by omega, by omega⟩, ?_⟩
          intro h; rw [← e2] at h; exact (f3.mp h) (by omega)
        · obtain ⟨f1, f2, f3⟩ := fan_facts n (k - 1) (by omega)
          have e1 : (k + 1) % (n + 2) = k + 1 := by omega
          rw [e1]
          refine ⟨(mem_dirEdges_fan n k (k + 1)).mpr ⟨k - 1, by omega, by omega⟩, ?_⟩
          intro h
          have e2 : k - 1 + 2 = k + 1 := by omega
          have e3 : k - 1 + 1 = k := by omega
          rw [e2, e3] at f2; exact f2 h

/-- `flat_ring(N, n_cover)` (n = N·n_cover ≥ 1): an oriented disk — χ = 1, one border loop of n + 2 sides -/
theorem flat_ring_euler (N c : Nat) (hn : 1 ≤ N * c) :
    (dirEdges (flat_ringFaces N c)).Nodup ∧ numBorder (flat_ringFaces N c) = N * c + 2 ∧
    euler (flat_ringNVerts N c) (flat_ringFaces N c) = 1 ∧ BorderLoops (flat_ringFaces N c) [fanRim (N * c)] := by
  rw [flat_ringFaces_eq, fanFaces_eq, flat_ring_nverts]
  exact ⟨(fan_euler _ hn).1, (fan_euler _ hn).2.1, (fan_euler _ hn).2.2, (fan_loop _ hn).1⟩

/-- open `ring(N, n_cover, open=True)`: the same fan — χ = 1, one border loop -/
theorem ring_open_euler (N c : Nat) (hn : 1 ≤ N * c) :
    (dirEdges (ringFaces N c true)).Nodup ∧ numBorder (ringFaces N c true) = N * c + 2 ∧
    euler (ringNVerts N c true) (ringFaces N c true) = 1 ∧ BorderLoops (ringFaces N c true) [fanRim (N * c)] := by
  rw [ringFaces_open_eq N c hn, ring_nverts N c true hn]
  simp only [if_true]
  exact ⟨(fan_euler _ hn).1, (fan_euler _ hn).2.1, (fan_euler _ hn).2.2, (fan_loop _ hn).1⟩

end Mouette.Props.C14
