import Mouette.Generated.C09Heap
import Mouette.Lemmas.C09Heap
import Mouette.Props.C09Source
/-
C09, round 6: the two Dijkstra loops with the four `PriorityQueue` use sites bound to priority_queue.py AS TRANSLATED by
property C20 (Generated/C20PQ.lean: `heappush` / `heappop` of the binary-heap model of heapq). The heap invariant is part of
the loop invariant (Lemmas/C09Heap.lean), so the theorems below have NO hypothesis on the queue: the pop contract `PopOK`
that Props/C09 assumes is a consequence (`heappop_ok`) for every queue the loops generate.
-/
namespace Mouette.Props.C09
open Mouette.Dijkstra Mouette.PQ Mouette.BinHeap
open Mouette.Generated

/-! ### bridges: the translated loops on the translated queue are the heap loop of Lemmas/C09Heap -/

theorem bridge_relaxH_sp : C09H.relaxH_sp = relaxH := by
  funext v s e
  unfold C09H.relaxH_sp relaxH C20PQ.push
  simp only
  split <;> (cases h : State.visited _ e.1 <;> simp)

theorem bridge_relaxH_set : C09H.relaxH_set = relaxH := by
  funext v s e
  unfold C09H.relaxH_set relaxH C20PQ.push
  simp only
  split <;> (cases h : State.visited _ e.1 <;> simp)

theorem empty_pop (q : Queue) (h : C20PQ.empty q = true) : heappop q = none := by
  apply (heappop_none_iff q).mpr
  unfold C20PQ.empty at h
  exact List.eq_nil_of_length_eq_zero (by simpa using h)

/-- `while not queue.empty(): v = queue.get().x; …` with `empty` / `get` of the translated class = one `heappop` step -/
theorem bridge_stepH_sp : C09H.stepH_sp = stepH := by
  funext adj s
  unfold C09H.stepH_sp stepH
  rw [bridge_relaxH_sp]
  by_cases he : C20PQ.empty s.queue = true
  · rw [if_pos he, empty_pop _ he]
  · rw [if_neg he]
    unfold C20PQ.get_
    cases heappop s.queue with
    | none => rfl
    | some r => rfl

theorem bridge_stepH_set : C09H.stepH_set = stepH := by
  funext adj s
  unfold C09H.stepH_set stepH
  rw [bridge_relaxH_set]
  by_cases he : C20PQ.empty s.queue = true
  · rw [if_pos he, empty_pop _ he]
  · rw [if_neg he]
    unfold C20PQ.get_
    cases heappop s.queue with
    | none => rfl
    | some r => rfl

/-- `queue = PriorityQueue(); …; queue.push(start, 0.)` -/
theorem bridge_initH_sp : C09H.initH_sp = initH := by funext start; rfl
theorem bridge_initH_set : C09H.initH_set = initH := by funext start; rfl

/-! ### what a final state of the abstract loop gives (for any way it was reached) -/

theorem final_optimal {adj : Adj} {n start : Nat} {s : State} (F : Final adj start n s) {t : Nat}
    (hconn : ∃ l W, PathW adj start t l W) :
    ∃ l d, pathTo s n start t = .ok l ∧ l.head? = some start ∧ l.getLast? = some t ∧ PathW adj start t l d ∧ l.Nodup ∧
      ∀ l' W', PathW adj start t l' W' → d ≤ W' := by
  obtain ⟨v, b, order, I⟩ := F.reach
  obtain ⟨l0, W0, hp0⟩ := hconn
  obtain ⟨d, hd, _⟩ := F.lower_bound hp0 0 I.dist_start
  obtain ⟨l, h1, h2, h3⟩ := F.path_valid hd
  refine ⟨l, d, h1, h2.head, h2.last, h2, h3, ?_⟩
  intro l' W' hp'
  obtain ⟨dt, hdt, hle⟩ := F.lower_bound hp' 0 I.dist_start
  rw [hd] at hdt
  simp at hdt; subst hdt
  linarith

theorem final_keyError {adj : Adj} {n start : Nat} {s : State} (F : Final adj start n s) {t : Nat}
    (h : ¬ ∃ l W, PathW adj start t l W) : pathTo s n start t = .keyError := by
  apply F.path_keyError
  cases hd : s.dist t with
  | none => rfl
  | some d =>
    obtain ⟨l, _, h2, _⟩ := F.path_valid hd
    exact absurd ⟨l, d, h2⟩ h

section
variable {adj : Adj} {n start : Nat}

/-- P0 on the real queue: the heap loop terminates within the fuel `1 + Σ deg` with an empty heap, and its tables are
those of a final state of the abstract loop -/
theorem heap_run_final (hnn : NonNeg adj) (hwf : WF adj n) (hs : start < n) :
    (runH adj n start).queue = [] ∧ stepH adj (runH adj n start) = none ∧
    ∃ s, Final adj start n s ∧ (runH adj n start).pred = s.pred ∧ (runH adj n start).dist = s.dist ∧
      (runH adj n start).visited = s.visited := by
  obtain ⟨s, S, F⟩ := heap_final hnn hwf hs
  have hq : (runH adj n start).queue = [] := by
    have := S.perm; rw [F.empty] at this; exact List.Perm.eq_nil this
  refine ⟨hq, ?_, s, F, S.pred, S.dist, S.vis⟩
  unfold stepH
  rw [hq]
  rfl

/-- P1 `heap_dijkstra_optimal`: NO assumption on the queue — for every connected pair the path back-tracked from the tables
of the loop run on heapq's binary heap is a valid edge path start → t of minimum total weight -/
theorem heap_dijkstra_optimal (hnn : NonNeg adj) (hwf : WF adj n) (hs : start < n) {t : Nat}
    (hconn : ∃ l W, PathW adj start t l W) :
    ∃ l d, pathTo (runH adj n start) n start t = .ok l ∧ l.head? = some start ∧ l.getLast? = some t ∧
      PathW adj start t l d ∧ l.Nodup ∧ ∀ l' W', PathW adj start t l' W' → d ≤ W' := by
  obtain ⟨s, S, F⟩ := heap_final hnn hwf hs
  have : pathTo (runH adj n start) n start t = pathTo s n start t := by unfold pathTo; rw [S.pred]
  rw [this]
  exact final_optimal F hconn

/-- `shortest_path` as written, every piece translated, the queue included -/
def shortestPath_heap (adj : Adj) (n start : Nat) (targets : List Nat) : List Res :=
  let s := iterG (C09H.stepH_sp adj) (fuel adj n) (C09H.initH_sp start)
  targets.map (C09G.pathTo_sp s n start)

theorem shortestPath_heap_eq (adj : Adj) (n start : Nat) (targets : List Nat) :
    shortestPath_heap adj n start targets = targets.map (pathTo (runH adj n start) n start) := by
  unfold shortestPath_heap runH
  rw [bridge_stepH_sp, bridge_initH_sp, bridge_pathTo_sp]

theorem source_heap_shortest_path_optimal (hnn : NonNeg adj) (hwf : WF adj n) (hs : start < n)
    (targets : List Nat) (i : Nat) (hi : i < targets.length) (hconn : ∃ l W, PathW adj start targets[i] l W) :
    ∃ l d, (shortestPath_heap adj n start targets)[i]? = some (.ok l) ∧ l.head? = some start ∧
      l.getLast? = some targets[i] ∧ PathW adj start targets[i] l d ∧ ∀ l' W', PathW adj start targets[i] l' W' → d ≤ W' := by
  obtain ⟨l, d, h1, h2, h3, h4, _, h6⟩ := heap_dijkstra_optimal hnn hwf hs hconn
  refine ⟨l, d, ?_, h2, h3, h4, h6⟩
  rw [shortestPath_heap_eq]
  simp only [List.getElem?_map, List.getElem?_eq_getElem hi, Option.map_some]
  rw [h1]

/-- a target that is not connected to the start: the `KeyError` of the code, on the real queue too -/
theorem heap_unreachable_keyError (hnn : NonNeg adj) (hwf : WF adj n) (hs : start < n) (t : Nat)
    (h : ¬ ∃ l W, PathW adj start t l W) : pathTo (runH adj n start) n start t = .keyError := by
  obtain ⟨s, S, F⟩ := heap_final hnn hwf hs
  have : pathTo (runH adj n start) n start t = pathTo s n start t := by unfold pathTo; rw [S.pred]
  rw [this]
  exact final_keyError F h

/-! ### the set query (general branch) on the real queue -/

/-- back-tracking from the sink on ANY state -/
theorem backSet_eq (s : State) (n start : Nat) :
    C09G.backSet s n start (n + 2) =
      (match (match back s.pred start (n + 2) n [] with | .ok p => Res.ok p.dropLast | r => r) with
       | .ok p => (.ok p, p.getLast?.getD start)
       | r => (r, start)) := by
  have h := backLoop_set_eq s.pred start (n + 2) n [] [] (by simp)
  unfold C09G.backSet
  simp only
  generalize back s.pred start (n + 2) n [] = r1 at h ⊢
  generalize C09G.backLoop_set s.pred start (n + 2) n [] = r2 at h ⊢
  cases r1 <;> cases r2 <;> simp [Res.mapOk] at h ⊢
  rename_i p l
  rw [h]
  refine ⟨rfl, ?_⟩
  cases l with
  | nil => simp
  | cons a t => simp

theorem final_sink {targets : List Nat} {s : State} (hwf : WF adj n) (hs : start < n)
    (F : Final (sinkAdj adj n targets) start (n + 1) s)
    (hconn : ∃ t ∈ targets, ∃ l W, PathW adj start t l W) :
    ∃ p ind d, C09G.backSet s n start (n + 2) = (.ok p, ind) ∧ ind ∈ targets ∧ p.head? = some start ∧
      p.getLast? = some ind ∧ PathW adj start ind p d ∧ p.Nodup ∧
      ∀ t ∈ targets, ∀ l' W', PathW adj start t l' W' → d ≤ W' := by
  obtain ⟨v, b, order, I⟩ := F.reach
  obtain ⟨t0, ht0, l0, W0, hp0⟩ := hconn
  obtain ⟨d, hd, _⟩ := F.lower_bound (path_to_sink hwf hp0 hs ht0) 0 I.dist_start
  obtain ⟨l, hl, hpl, hnd⟩ := F.path_valid hd
  obtain ⟨ind, hind, hpi, hlast⟩ := sink_path_drop hwf hpl rfl (by omega) hnd
  have hb : back s.pred start (n + 2) n [] = .ok l := hl
  refine ⟨l.dropLast, ind, d, ?_, hind, hpi.head, hlast, hpi, hnd.sublist (List.dropLast_sublist l), ?_⟩
  · rw [backSet_eq, hb]
    simp [hlast]
  · intro t htt l' W' hp'
    obtain ⟨d', hd', hle⟩ := F.lower_bound (path_to_sink hwf hp' hs htt) 0 I.dist_start
    rw [hd] at hd'
    simp at hd'; subst hd'
    linarith

/-- `shortest_path_to_vertex_set` as written, every piece translated, the queue included (dispatch, both loops on the
translated `PriorityQueue`, both back-trackings) -/
def vertexSet_heap (adj : Adj) (n start : Nat) (targets : List Nat) (exportMesh : Bool) : Option (Res × Nat) :=
  C09G.vertexSet_src
    (fun t => C09G.pathTo_sp (iterG (C09H.stepH_sp adj) (fuel adj n) (C09H.initH_sp start)) n start t)
    (fun _ => C09G.backSet (iterG (C09H.stepH_set (sinkAdj adj n targets)) (fuel (sinkAdj adj n targets) (n + 1))
      (C09H.initH_set start)) n start (n + 2)) targets exportMesh

/-- P1 for the set query with NO assumption on the queue: a member of the set nearest to the start, a valid shortest path
to it, index = end of the path; for single and for several targets, both export flags -/
theorem source_heap_vertex_set_nearest (hnn : NonNeg adj) (hwf : WF adj n) (hs : start < n) {targets : List Nat}
    (exportMesh : Bool) (ht : ∀ t ∈ targets, t < n) (hconn : ∃ t ∈ targets, ∃ l W, PathW adj start t l W) :
    ∃ p ind d, vertexSet_heap adj n start targets exportMesh = some (.ok p, ind) ∧ ind ∈ targets ∧
      p.head? = some start ∧ p.getLast? = some ind ∧ PathW adj start ind p d ∧
      (∀ t ∈ targets, ∀ l' W', PathW adj start t l' W' → d ≤ W') := by
  unfold vertexSet_heap C09G.vertexSet_src
  rw [bridge_stepH_sp, bridge_initH_sp, bridge_stepH_set, bridge_initH_set, bridge_pathTo_sp]
  match targets, hconn, ht with
  | [], ⟨t, htm, _⟩, _ => simp at htm
  | [t], ⟨t0, ht0, hc⟩, _ =>
    simp at ht0; subst ht0
    obtain ⟨l, d, h1, h2, h3, h4, _, h6⟩ := heap_dijkstra_optimal hnn hwf hs hc
    have h1' : pathTo (iterG (stepH adj) (fuel adj n) (initH start)) n start t0 = .ok l := h1
    refine ⟨l, t0, d, ?_, by simp, h2, h3, h4, ?_⟩
    · cases exportMesh <;> simp [h1']
    · intro t ht' l' W' hp'
      simp at ht'; subst ht'
      exact h6 l' W' hp'
  | t1 :: t2 :: rest, hc, ht' =>
    obtain ⟨s, S, F⟩ := heap_final (sinkAdj_nonneg (n := n) (targets := t1 :: t2 :: rest) hnn) (sinkAdj_wf hwf ht')
      (by omega : start < n + 1)
    obtain ⟨p, ind, d, h1, h2, h3, h4, h5, _, h7⟩ := final_sink hwf hs F hc
    have hb : C09G.backSet (iterG (stepH (sinkAdj adj n (t1 :: t2 :: rest))) (fuel (sinkAdj adj n (t1 :: t2 :: rest)) (n + 1))
        (initH start)) n start (n + 2) = C09G.backSet s n start (n + 2) := by
      have e : (runH (sinkAdj adj n (t1 :: t2 :: rest)) (n + 1) start).pred = s.pred := S.pred
      unfold C09G.backSet
      simp only
      unfold runH at e
      rw [e]
    refine ⟨p, ind, d, ?_, h2, h3, h4, h5, h7⟩
    simp only [List.length_cons]
    rw [if_neg (by omega), if_neg (by omega), hb, h1]

end

/-! ### duplicated targets, `set(targets)` -/

/-- `bridge_connBuild_dups`: with duplicated targets the second assignment of a target rewrites existing entries with the
same value: the dict of dicts is the model's sink graph over the DISTINCT targets (first occurrences, in order) -/
theorem bridge_connBuild_dups (mode : C09G.WMode) (len w : Nat → Rat) (ies : List (Nat × Nat × Nat)) (n : Nat) (targets : List Nat)
    (hl : ∀ ie ∈ ies, ie.2.1 ≠ ie.2.2) (hd : DistinctEdges (ies.map (toW mode len w)))
    (hwf : ∀ ie ∈ ies, ie.2.1 < n ∧ ie.2.2 < n) (ht : ∀ t ∈ targets, t < n) :
    C09G.connBuild mode len w ies n targets = sinkAdj (adjOf (ies.map (toW mode len w))) n (dedupL targets) := by
  have hW : ∀ e ∈ ies.map (toW mode len w), e.1 < n ∧ e.2.1 < n := by
    intro e he
    obtain ⟨ie, hie, rfl⟩ := List.mem_map.mp he
    exact hwf ie hie
  have h0 := bridge_connBuild mode len w ies n [] hl hd hwf (by simp) List.nodup_nil
  have hkeys : ∀ u, ∀ p ∈ adjOf (ies.map (toW mode len w)) u, p.1 < n := adjOf_wf hW
  have hn : adjOf (ies.map (toW mode len w)) n = [] := by
    apply List.eq_nil_iff_forall_not_mem.mpr
    intro p hp
    obtain ⟨e, he, h | h⟩ := adjOf_key hp
    · have := (hW e he).1; omega
    · have := (hW e he).2; omega
  have hedges : ies.foldl (C09G.connEdge mode len w) (fun _ => []) = sinkRows (adjOf (ies.map (toW mode len w))) n 0 [] := by
    have : C09G.connBuild mode len w ies n [] = ies.foldl (C09G.connEdge mode len w) (fun _ => []) := rfl
    rw [← this, h0, ← sinkRows_zero]
  unfold C09G.connBuild
  simp only [hedges]
  have hs : (fun c s => C09G.connSink n c s) = sinkStepW n 0 := by
    funext c s; exact connSink_eq n c s
  rw [show targets.foldl (C09G.connSink n) (sinkRows (adjOf (ies.map (toW mode len w))) n 0 []) =
      targets.foldl (sinkStepW n 0) (sinkRows (adjOf (ies.map (toW mode len w))) n 0 []) from
        congrArg (fun f => targets.foldl f _) hs]
  rw [sink_fold_dups 0 hkeys targets [] ht List.nodup_nil, sinkRows_zero]
  rfl

/-- `shortest_path_to_vertex_set` with EVERYTHING translated: the dict-of-dicts construction, both loops on the translated
`PriorityQueue`, both back-trackings, the dispatch -/
def vertexSet_all (mode : C09G.WMode) (len w : Nat → Rat) (ies : List (Nat × Nat × Nat)) (n start : Nat)
    (targets : List Nat) (exportMesh : Bool) : Option (Res × Nat) :=
  let adj := adjOf (ies.map (toW mode len w))
  let cn := C09G.connBuild mode len w ies n targets
  C09G.vertexSet_src
    (fun t => C09G.pathTo_sp (iterG (C09H.stepH_sp adj) (fuel adj n) (C09H.initH_sp start)) n start t)
    (fun _ => C09G.backSet (iterG (C09H.stepH_set cn) (fuel cn (n + 1)) (C09H.initH_set start)) n start (n + 2))
    targets exportMesh

/-- P1, duplicated targets allowed, no assumption on the queue, the graph built as the code builds it: the returned
index is a member of the target collection nearest to the start, the path a valid shortest path to it -/
theorem source_all_translated_vertex_set (mode : C09G.WMode) (len w : Nat → Rat)
    (ies : List (Nat × Nat × Nat)) {n start : Nat} {targets : List Nat} (exportMesh : Bool) (hs : start < n)
    (hnn : ∀ ie ∈ ies, 0 ≤ C09G.connWeight mode len w ie.1)
    (hl : ∀ ie ∈ ies, ie.2.1 ≠ ie.2.2) (hd : DistinctEdges (ies.map (toW mode len w)))
    (hwf : ∀ ie ∈ ies, ie.2.1 < n ∧ ie.2.2 < n) (ht : ∀ t ∈ targets, t < n)
    (hconn : ∃ t ∈ targets, ∃ l W, PathW (adjOf (ies.map (toW mode len w))) start t l W) :
    ∃ p ind d, vertexSet_all mode len w ies n start targets exportMesh = some (.ok p, ind) ∧ ind ∈ targets ∧
      p.head? = some start ∧ p.getLast? = some ind ∧ PathW (adjOf (ies.map (toW mode len w))) start ind p d ∧
      (∀ t ∈ targets, ∀ l' W', PathW (adjOf (ies.map (toW mode len w))) start t l' W' → d ≤ W') := by
  have hnnA : NonNeg (adjOf (ies.map (toW mode len w))) := adjOf_nonneg (by
    intro e he
    obtain ⟨ie, hie, rfl⟩ := List.mem_map.mp he
    exact hnn ie hie)
  have hwfA : WF (adjOf (ies.map (toW mode len w))) n := adjOf_wf (by
    intro e he
    obtain ⟨ie, hie, rfl⟩ := List.mem_map.mp he
    exact hwf ie hie)
  unfold vertexSet_all C09G.vertexSet_src
  simp only [bridge_connBuild_dups mode len w ies n targets hl hd hwf ht]
  rw [bridge_stepH_sp, bridge_initH_sp, bridge_stepH_set, bridge_initH_set, bridge_pathTo_sp]
  match targets, hconn, ht with
  | [], ⟨t, htm, _⟩, _ => simp at htm
  | [t], ⟨t0, ht0, hc⟩, _ =>
    simp at ht0; subst ht0
    obtain ⟨l, d, h1, h2, h3, h4, _, h6⟩ := heap_dijkstra_optimal hnnA hwfA hs hc
    have h1' : pathTo (iterG (stepH (adjOf (ies.map (toW mode len w)))) (fuel (adjOf (ies.map (toW mode len w))) n) (initH start))
        n start t0 = .ok l := h1
    refine ⟨l, t0, d, ?_, by simp, h2, h3, h4, ?_⟩
    · cases exportMesh <;> simp [h1']
    · intro t ht' l' W' hp'
      simp at ht'; subst ht'
      exact h6 l' W' hp'
  | t1 :: t2 :: rest, hc, ht' =>
    have htD : ∀ t ∈ dedupL (t1 :: t2 :: rest), t < n := fun t h => ht' t ((mem_dedupL _ t).mp h)
    have hcD : ∃ t ∈ dedupL (t1 :: t2 :: rest), ∃ l W, PathW (adjOf (ies.map (toW mode len w))) start t l W := by
      obtain ⟨t, htm, hp⟩ := hc
      exact ⟨t, (mem_dedupL _ t).mpr htm, hp⟩
    obtain ⟨s, S, F⟩ := heap_final (sinkAdj_nonneg (n := n) (targets := dedupL (t1 :: t2 :: rest)) hnnA) (sinkAdj_wf hwfA htD)
      (by omega : start < n + 1)
    obtain ⟨p, ind, d, h1, h2, h3, h4, h5, _, h7⟩ := final_sink hwfA hs F hcD
    have hb : C09G.backSet (iterG (stepH (sinkAdj (adjOf (ies.map (toW mode len w))) n (dedupL (t1 :: t2 :: rest))))
        (fuel (sinkAdj (adjOf (ies.map (toW mode len w))) n (dedupL (t1 :: t2 :: rest))) (n + 1))
        (initH start)) n start (n + 2) = C09G.backSet s n start (n + 2) := by
      have e : (runH (sinkAdj (adjOf (ies.map (toW mode len w))) n (dedupL (t1 :: t2 :: rest))) (n + 1) start).pred = s.pred := S.pred
      unfold C09G.backSet
      simp only
      unfold runH at e
      rw [e]
    refine ⟨p, ind, d, ?_, (mem_dedupL _ ind).mp h2, h3, h4, h5, fun t htm => h7 t ((mem_dedupL _ t).mpr htm)⟩
    simp only [List.length_cons]
    rw [if_neg (by omega), if_neg (by omega), hb, h1]

theorem nodup_eraseDups_nat : ∀ (k : Nat) (l : List Nat), l.length ≤ k → l.eraseDups.Nodup
  | 0, l, h => by
    have : l = [] := List.eq_nil_of_length_eq_zero (by omega)
    subst this; simp
  | _+1, [], _ => by simp
  | k+1, a :: as, h => by
    rw [List.eraseDups_cons, List.nodup_cons]
    constructor
    · intro hm
      rw [List.mem_eraseDups, List.mem_filter] at hm
      simp at hm
    · apply nodup_eraseDups_nat k
      have := List.length_filter_le (fun b => !b == a) as
      simp only [List.length_cons] at h
      omega

/-- `targets = set(targets)` in `shortest_path`: the returned dict has exactly one entry per DISTINCT requested target, and
(queue included) every entry of a target connected to the start is a minimum-weight path to it -/
theorem source_shortest_path_dict {adj : Adj} {n start : Nat} (hnn : NonNeg adj) (hwf : WF adj n) (hs : start < n) (coll : List Nat) :
    (C09G.targetsOf none coll).Nodup ∧ (∀ t, t ∈ C09G.targetsOf none coll ↔ t ∈ coll) ∧
    ∀ t ∈ coll, (∃ l W, PathW adj start t l W) →
      ∃ (i : Nat) (l : List Nat) (d : Rat), (C09G.targetsOf none coll)[i]? = some t ∧
        (shortestPath_heap adj n start (C09G.targetsOf none coll))[i]? = some (Res.ok l) ∧
        PathW adj start t l d ∧ ∀ l' W', PathW adj start t l' W' → d ≤ W' := by
  have hm : ∀ t, t ∈ C09G.targetsOf none coll ↔ t ∈ coll := mem_targetsOf_coll coll
  refine ⟨?_, hm, ?_⟩
  · unfold C09G.targetsOf
    exact nodup_eraseDups_nat _ _ (Nat.le_refl _)
  · intro t ht hc
    obtain ⟨i, hi, hit⟩ := List.getElem_of_mem ((hm t).mpr ht)
    have hc' : ∃ l W, PathW adj start (C09G.targetsOf none coll)[i] l W := by rw [hit]; exact hc
    obtain ⟨l, d, h1, _, _, h4, h5⟩ := source_heap_shortest_path_optimal hnn hwf hs (C09G.targetsOf none coll) i hi hc'
    rw [hit] at h4 h5
    exact ⟨i, l, d, by rw [List.getElem?_eq_getElem hi, hit], h1, h4, h5⟩

/-! ### non-vacuity: the heap loop on the example graph of Props/C09 -/

example : C09G.pathTo_sp (iterG (C09H.stepH_sp (adjOf exEdges)) (fuel (adjOf exEdges) 6) (C09H.initH_sp 0)) 6 0 3 = .ok [0, 1, 2, 3] := by
  decide +kernel
example : shortestPath_heap (adjOf exEdges) 6 0 [3, 5] = [.ok [0, 1, 2, 3], .keyError] := by decide +kernel
example : vertexSet_heap (adjOf exEdges) 6 0 [5, 3] false = some (.ok [0, 1, 2, 3], 3) := by decide +kernel
example : vertexSet_heap (adjOf exEdges) 6 0 [2] true = some (.ok [0, 1, 2], 2) := by decide +kernel
/-- duplicated targets: the dict keeps one sink entry per distinct target -/
example : C09G.connBuild .one (fun _ => 0) (fun _ => 0) [(0, 0, 1), (1, 1, 2)] 3 [2, 0, 2, 2] 3 = [(2, 0), (0, 0)] := by decide +kernel
example : vertexSet_all .custom (fun _ => 0) (fun e => [2, 2, 5, 0, 1].getD e 0)
    [(0, 0, 1), (1, 1, 2), (2, 0, 2), (3, 2, 3), (4, 4, 5)] 6 0 [3, 3, 5, 3] false = some (.ok [0, 1, 2, 3], 3) := by decide +kernel
example : (runH (adjOf exEdges) 6 0).queue = [] ∧ (runH (adjOf exEdges) 6 0).dist 3 = some 4 := by decide +kernel

end Mouette.Props.C09
