import Mouette.Props.C14
/-!
# C14 (continued) — no unused vertex and simple faces, for ALL admissible resolutions

Every vertex index below the vertex count occurs in some face; every face has pairwise distinct vertices.
Together with `*_inRange`, `*_nverts`, `*_nfaces` (Props/C14.lean) this gives, for every parameter choice, the clauses
"indices in range, no unused vertex, counts are the documented functions" of the statement as theorems about the
translated source.
-/
namespace Mouette.Props.C14
open Mouette.Generated.C14 Mouette.MeshCheck Mouette.ListCount

private theorem div_mod_decomp (k N : Nat) : k / N * N + k % N = k := by
  rw [Nat.mul_comm]; exact Nat.div_add_mod k N

theorem torus_noUnused (M N : Nat) (t : Bool) :
    ∀ k < torusNVerts M N t, ∃ f ∈ torusFaces M N t, k ∈ f := by
  rw [torus_nverts]
  intro k hk
  have hN : 0 < N := by
    rcases Nat.eq_zero_or_pos N with h | h
    · subst h; simp at hk
    · exact h
  have hi : k / N < M := by rw [Nat.div_lt_iff_lt_mul hN]; exact hk
  have hj : k % N < N := Nat.mod_lt _ hN
  have hk' := div_mod_decomp k N
  rw [torusFaces_norm]
  simp only [torusFacesCanon, List.mem_flatMap, List.mem_range]
  cases t
  · refine ⟨_, ⟨k / N, hi, k % N, hj, by simp; rfl⟩, ?_⟩
    simp [hk']
  · refine ⟨[k / N * N + k % N, k / N * N + (k % N + 1) % N, (k / N + 1) % M * N + k % N],
      ⟨k / N, hi, k % N, hj, by simp⟩, ?_⟩
    simp [hk']

/-- every vertex of the grid is a corner of some face as soon as both resolutions are ≥ 2 -/
theorem unit_grid_noUnused (nu nv : Nat) (t u : Bool) (hu : 2 ≤ nu) (hv : 2 ≤ nv) :
    ∀ k < unit_gridNVerts nu nv t u, ∃ f ∈ unit_gridFaces nu nv t u, k ∈ f := by
  rw [unit_grid_nverts]
  intro k hk
  have hN : 0 < nv := by omega
  have hi : k / nv < nu := by rw [Nat.div_lt_iff_lt_mul hN]; exact hk
  have hj : k % nv < nv := Nat.mod_lt _ hN
  have hk' := div_mod_decomp k nv
  -- the face whose lower-left corner is (i', j') = (min i (nu-2), min j (nv-2))
  obtain ⟨i', hi', hii⟩ : ∃ i', i' < nu - 1 ∧ (k / nv = i' ∨ k / nv = i' + 1) := by
    by_cases h : k / nv < nu - 1
    · exact ⟨k / nv, h, Or.inl rfl⟩
    · exact ⟨k / nv - 1, by omega, Or.inr (by omega)⟩
  obtain ⟨j', hj', hjj⟩ : ∃ j', j' < nv - 1 ∧ (k % nv = j' ∨ k % nv = j' + 1) := by
    by_cases h : k % nv < nv - 1
    · exact ⟨k % nv, h, Or.inl rfl⟩
    · exact ⟨k % nv - 1, by omega, Or.inr (by omega)⟩
  have e0 : (i' + 1) * nv = i' * nv + nv := Nat.succ_mul i' nv
  rw [unit_gridFaces_norm]
  simp only [unit_gridFacesCanon, List.mem_flatMap, List.mem_range]
  cases t
  · refine ⟨[i' * nv + j', i' * nv + j' + 1, (i' + 1) * nv + j' + 1, (i' + 1) * nv + j'],
      ⟨i', by omega, j', by omega, by simp [hi', hj']⟩, ?_⟩
    simp only [List.mem_cons, List.mem_nil_iff, or_false]
    rcases hii with h1 | h1 <;> rcases hjj with h2 | h2 <;> rw [h1, h2] at hk' <;> omega
  · rcases hii with h1 | h1 <;> rcases hjj with h2 | h2 <;> rw [h1, h2] at hk'
    · exact ⟨[i' * nv + j', i' * nv + j' + 1, (i' + 1) * nv + j'],
        ⟨i', by omega, j', by omega, by simp [hi', hj']⟩, by simp; omega⟩
    · exact ⟨[i' * nv + j', i' * nv + j' + 1, (i' + 1) * nv + j'],
        ⟨i', by omega, j', by omega, by simp [hi', hj']⟩, by simp; omega⟩
    · exact ⟨[i' * nv + j', i' * nv + j' + 1, (i' + 1) * nv + j'],
        ⟨i', by omega, j', by omega, by simp [hi', hj']⟩, by simp; omega⟩
    · exact ⟨[i' * nv + j' + 1, (i' + 1) * nv + j' + 1, (i' + 1) * nv + j'],
        ⟨i', by omega, j', by omega, by simp [hi', hj']⟩, by simp; omega⟩

theorem flat_ring_noUnused (N c : Nat) (h : 1 ≤ N * c) :
    ∀ k < flat_ringNVerts N c, ∃ f ∈ flat_ringFaces N c, k ∈ f := by
  rw [flat_ring_nverts]
  intro k hk
  rw [flat_ringFaces_norm]
  simp only [flat_ringFacesCanon, List.mem_flatMap, List.mem_range]
  by_cases h0 : k = 0
  · exact ⟨[0, 0 + 1, 0 + 2], ⟨0, by omega, by simp⟩, by simp [h0]⟩
  · by_cases h1 : k = N * c + 1
    · exact ⟨[0, (N * c - 1) + 1, (N * c - 1) + 2], ⟨N * c - 1, by omega, by simp⟩, by simp; omega⟩
    · exact ⟨[0, (k - 1) + 1, (k - 1) + 2], ⟨k - 1, by omega, by simp⟩, by simp; omega⟩

theorem ring_noUnused (N c : Nat) (o : Bool) (h : 1 ≤ N * c) :
    ∀ k < ringNVerts N c o, ∃ f ∈ ringFaces N c o, k ∈ f := by
  rw [ring_nverts N c o h]
  intro k hk
  rw [ringFaces_norm]
  simp only [ringFacesCanon, List.mem_append, List.mem_flatMap, List.mem_range'_1]
  by_cases hlast : k = 0 ∨ N * c ≤ k
  · -- apex, or one of the vertices of the closing face
    cases o
    · refine ⟨[0, N * c, 1], Or.inr (by simp), ?_⟩
      simp at hk ⊢; omega
    · refine ⟨[0, N * c, N * c + 1], Or.inr (by simp), ?_⟩
      simp at hk ⊢; omega
  · have hk1 : 1 ≤ k ∧ k < N * c := by omega
    have hm : (k + 1) % (N * c + 1) = k + 1 := Nat.mod_eq_of_lt (by omega)
    refine ⟨[0, k, k + 1], Or.inl ⟨k, by omega, ?_⟩, by simp⟩
    cases o <;> simp [hm]

theorem cylinder_noUnused (N : Nat) (fc : Bool) (hN : 1 ≤ N) :
    ∀ k < cylinderNVerts N fc, ∃ f ∈ cylinderFaces N fc, k ∈ f := by
  rw [cylinder_nverts]
  intro k hk
  rw [cylinderFaces_norm]
  simp only [cylinderFacesCanon, List.mem_append, List.mem_flatMap, List.mem_range]
  by_cases h1 : k < N
  · exact ⟨[k, N + k, (k + 1) % N], Or.inr ⟨k, h1, by simp⟩, by simp⟩
  · by_cases h2 : k < 2 * N
    · exact ⟨[k - N, N + (k - N), (k - N + 1) % N], Or.inr ⟨k - N, by omega, by simp⟩, by simp; omega⟩
    · cases fc
      · simp at hk; omega
      · simp only [if_true, List.mem_flatMap, List.mem_range]
        simp at hk
        by_cases h3 : k = 2 * N
        · exact ⟨[0, (0 + 1) % N, 2 * N], Or.inl ⟨0, by omega, by simp⟩, by simp [h3]⟩
        · exact ⟨[0 + N, 2 * N + 1, (0 + 1) % N + N], Or.inl ⟨0, by omega, by simp⟩, by simp; omega⟩

theorem sphere_uv_noUnused (a b : Nat) (ha : 1 ≤ a) (hb : 1 ≤ b) :
    ∀ k < sphere_uvNVerts a b, ∃ f ∈ sphere_uvFaces a b, k ∈ f := by
  intro k hk
  rw [sphere_uv_nverts] at hk
  rw [sphere_uvFaces_norm]
  simp only [sphere_uvFacesCanon, List.mem_append, List.mem_flatMap, List.mem_range, sphere_uv_nverts]
  have hab : b * (a - 1) + b = a * b := by
    obtain ⟨a', rfl⟩ : ∃ a', a = a' + 1 := ⟨a - 1, by omega⟩
    rw [Nat.add_sub_cancel, Nat.succ_mul, Nat.mul_comm]
  by_cases h0 : k = 0
  · -- north pole: in the first top-fan triangle
    exact ⟨[0 + 1, 0, (0 + 1) % b + 1], Or.inl ⟨0, by omega, by simp⟩, by simp [h0]⟩
  · by_cases hS : k = a * b + 1
    · -- south pole
      exact ⟨[a * b + 2 - 1, 0 + b * (a - 1) + 1, (0 + 1) % b + b * (a - 1) + 1],
        Or.inl ⟨0, by omega, by simp⟩, by simp [hS]⟩
    · -- ring vertex k = r*b + i + 1
      have hk1 : k - 1 < a * b := by omega
      have hr : (k - 1) / b < a := by rw [Nat.div_lt_iff_lt_mul (by omega)]; exact hk1
      have hi : (k - 1) % b < b := Nat.mod_lt _ (by omega)
      have hd := div_mod_decomp (k - 1) b
      by_cases hr0 : (k - 1) / b = 0
      · -- first ring: top fan triangle i
        refine ⟨[(k - 1) % b + 1, 0, ((k - 1) % b + 1) % b + 1], Or.inl ⟨(k - 1) % b, hi, by simp⟩, ?_⟩
        rw [hr0] at hd; simp; omega
      · -- ring r+1 ≥ 1: corner i3 of the quad in row r
        obtain ⟨r, hr'⟩ : ∃ r, (k - 1) / b = r + 1 := ⟨(k - 1) / b - 1, (Nat.sub_add_cancel (Nat.pos_of_ne_zero hr0)).symm⟩
        rw [hr'] at hd hr
        have e0 : (r + 1) * b = r * b + b := Nat.succ_mul r b
        refine ⟨[r * b + 1 + (k - 1) % b, r * b + 1 + ((k - 1) % b + 1) % b,
            (r + 1) * b + 1 + ((k - 1) % b + 1) % b, (r + 1) * b + 1 + (k - 1) % b],
          Or.inr ⟨r, by omega, (k - 1) % b, hi, by simp⟩, ?_⟩
        simp; omega

/-! ## simple faces (pairwise distinct vertices) -/

theorem torus_facesSimple (M N : Nat) (t : Bool) (hM : 2 ≤ M) (hN : 2 ≤ N) :
    ∀ f ∈ torusFaces M N t, 3 ≤ f.length ∧ f.Nodup := by
  intro f hf
  rw [torusFaces_norm] at hf
  simp only [torusFacesCanon, List.mem_flatMap, List.mem_range] at hf
  obtain ⟨i, hi, j, hj, hf⟩ := hf
  have h1 : (i + 1) % M < M := Nat.mod_lt _ (by omega)
  have h2 : (j + 1) % N < N := Nat.mod_lt _ (by omega)
  have h1' : (i + 1) % M ≠ i := by
    by_cases h : i + 1 < M
    · rw [Nat.mod_eq_of_lt h]; omega
    · have : i + 1 = M := by omega
      rw [this, Nat.mod_self]; omega
  have h2' : (j + 1) % N ≠ j := by
    by_cases h : j + 1 < N
    · rw [Nat.mod_eq_of_lt h]; omega
    · have : j + 1 = N := by omega
      rw [this, Nat.mod_self]; omega
  -- rows i and i' = (i+1)%M are different blocks of N consecutive indices
  have hrow : ∀ x y, x < N → y < N → i * N + x ≠ (i + 1) % M * N + y := by
    intro x y hx hy heq
    rcases Nat.lt_or_gt_of_ne h1' with h | h
    · have := Nat.mul_le_mul_right N (show (i + 1) % M + 1 ≤ i by omega)
      rw [Nat.succ_mul] at this; omega
    · have := Nat.mul_le_mul_right N (show i + 1 ≤ (i + 1) % M by omega)
      rw [Nat.succ_mul] at this; omega
  have r1 := hrow j j hj hj
  have r2 := hrow j ((j + 1) % N) hj h2
  have r3 := hrow ((j + 1) % N) j h2 hj
  have r4 := hrow ((j + 1) % N) ((j + 1) % N) h2 h2
  cases t <;> simp at hf
  · subst hf; refine ⟨by simp, ?_⟩
    simp only [List.nodup_cons, List.mem_cons, List.mem_nil_iff, or_false, not_or, List.nodup_nil, and_true, not_false_eq_true]
    omega
  · rcases hf with rfl | rfl <;> refine ⟨by simp, ?_⟩ <;>
      simp only [List.nodup_cons, List.mem_cons, List.mem_nil_iff, or_false, not_or, List.nodup_nil, and_true, not_false_eq_true] <;>
      omega

theorem unit_grid_facesSimple (nu nv : Nat) (t u : Bool) :
    ∀ f ∈ unit_gridFaces nu nv t u, 3 ≤ f.length ∧ f.Nodup := by
  intro f hf
  rw [unit_gridFaces_norm] at hf
  simp only [unit_gridFacesCanon, List.mem_flatMap, List.mem_range] at hf
  obtain ⟨i, hi, j, hj, hf⟩ := hf
  by_cases hc : i < nu - 1 ∧ j < nv - 1
  · have e0 : (i + 1) * nv = i * nv + nv := Nat.succ_mul i nv
    cases t <;> simp [hc] at hf
    · subst hf; refine ⟨by simp, ?_⟩
      simp only [List.nodup_cons, List.mem_cons, List.mem_nil_iff, or_false, not_or, List.nodup_nil, and_true, not_false_eq_true]
      omega
    · rcases hf with rfl | rfl <;> refine ⟨by simp, ?_⟩ <;>
        simp only [List.nodup_cons, List.mem_cons, List.mem_nil_iff, or_false, not_or, List.nodup_nil, and_true, not_false_eq_true] <;>
        omega
  · simp [hc] at hf

end Mouette.Props.C14
