import Mouette.Lemmas.AttrRun
import Mouette.Lemmas.AttrHandlesRun
import Mouette.Lemmas.AttrHandlesTotal
import Mouette.Lemmas.AttrMulti
import Mouette.Generated.C05
import Mouette.Generated.C05Storage
/-
C05 — attributes are total maps with defaults; sparse and dense storage agree.

Model: `Mouette.Attr` (Model/Attr.lean: heap of vector / matrix cells, sparse dict of references, dense matrix with row
views), specification: `Mouette.Attr.Spec` (Model/AttrSpec.lean: total map `Int → Option Val`, `none` = the entry whose
read value was updated in place, which the statement leaves unconstrained).
All theorems quantify over EVERY initial size and EVERY operation script.
-/
namespace Mouette.Props.C05
open Mouette.Attr

/-! ## translated fragments (re-extracted from mesh_attributes.py on every run) -/

/-- P0 `cast_lattice`: the normal-form lattice accepts exactly reflexive pairs and bool→int, bool→float, int→float -/
theorem cast_lattice (a b : Ty) :
    canCast a b = true ↔ (a = b ∨ (a, b) = (.bool, .int) ∨ (a, b) = (.bool, .float) ∨ (a, b) = (.int, .float)) := by
  cases a <;> cases b <;> decide

/-- bridge: `_can_be_casted` as written in the source (reflexive guard + literal set) is the normal form -/
theorem gen_canCast_eq (a b : Ty) : Generated.C05.canCast a b = canCast a b := by
  cases a <;> cases b <;> decide

/-- the lattice is a partial order (reflexive, transitive, antisymmetric): widening only -/
theorem cast_partial_order :
    (∀ a, canCast a a = true) ∧ (∀ a b c, canCast a b = true → canCast b c = true → canCast a c = true) ∧
    (∀ a b, canCast a b = true → canCast b a = true → a = b) := by
  refine ⟨?_, ?_, ?_⟩
  · intro a; cases a <;> decide
  · intro a b c; cases a <;> cases b <;> cases c <;> decide
  · intro a b; cases a <;> cases b <;> decide

/-- bridge: the dense bounds guard as written in the source is the model's guard … -/
theorem gen_oobGuard_eq (key : Int) (n : Nat) : Generated.C05.oobGuard key n = oobGuard key n := by
  unfold Generated.C05.oobGuard oobGuard
  by_cases h1 : key < 0 <;> by_cases h2 : (n : Int) ≤ key <;> simp [h1, h2] <;> omega

/-- … and it rejects EXACTLY the indices outside the container, the container's size included -/
theorem gen_oobGuard_exact (key : Int) (n : Nat) :
    Generated.C05.oobGuard key n = true ↔ ¬ (0 ≤ key ∧ key < (n : Int)) := by
  unfold Generated.C05.oobGuard
  by_cases h1 : key < 0 <;> by_cases h2 : (n : Int) ≤ key <;> simp [h1, h2] <;> omega

/-- bridge: the default values written in `Type.default_value` are the model's -/
theorem gen_zero_eq (t : Ty) : Generated.C05.zero t = some t.zero := by
  cases t <;> rfl

/-- the `Type` multi-value table is a function on `SUPPORTED_TYPES`: every supported Python type belongs to
exactly one member -/
theorem type_table_functional :
    ∀ n ∈ Generated.C05.supportedTypes,
      ((Generated.C05.typeTable.filter (fun r => r.2.contains n)).length = 1) := by
  decide

/-! ## refinement of both storages to the total-map specification, for every script -/

/-- P0 `dense_refines`: for every script, every answer of the dense storage (values, accept/reject with the same error
kind, exports, OutOfBounds for every index outside `[0,size)`) is the one the total-map specification allows -/
theorem dense_refines (n0 : Nat) (ops : List Op) :
    Forall2 Matches (specRun (specInit n0) ops) (runObs true (init n0) ops) :=
  refines_aux true ops _ _ (good_init true n0) (fun h => by cases h)

/-- P0 `sparse_refines`: the same for the sparse storage, on scripts whose indexed operations address elements of the
container (the statement does not constrain the sparse storage elsewhere) -/
theorem sparse_refines (n0 : Nat) (ops : List Op) (hw : wellIndexed n0 ops = true) :
    Forall2 Matches (specRun (specInit n0) ops) (runObs false (init n0) ops) :=
  refines_aux false ops _ _ (good_init false n0) (fun _ => hw)

/-- P0 `sparse_dense_agree`: on the same well-indexed script without in-place updates of read values, sparse and dense
storage give literally the same observations (answers, accept/reject, exports) -/
theorem sparse_dense_agree (n0 : Nat) (ops : List Op) (hw : wellIndexed n0 ops = true) (hmf : mutFree ops = true) :
    runObs false (init n0) ops = runObs true (init n0) ops :=
  forall2_unique (specRun_total ops _ hmf (fun ta h => by cases h)) (sparse_refines n0 ops hw) (dense_refines n0 ops)

/-- … and with in-place updates they agree on everything the specification constrains: every pair of observations is
allowed by one common specification observation (equal except at entries updated in place through a read) -/
theorem sparse_dense_agree_masked (n0 : Nat) (ops : List Op) (hw : wellIndexed n0 ops = true) :
    Forall2 (fun o1 o2 => ∃ so, Matches so o1 ∧ Matches so o2) (runObs false (init n0) ops) (runObs true (init n0) ops) :=
  forall2_common (sparse_refines n0 ops hw) (dense_refines n0 ops)

/-! ## growth keeps attributes aligned -/

/-- `append`, `+= list`, `+= container`, `+= itself` are all `grow` by the number of appended elements -/
theorem growth_ops (dense : Bool) (s : State) (n m : Nat) :
    step dense s .append = (grow s 1, .ok) ∧ step dense s (.extendList n) = (grow s n, .ok) ∧
    step dense s (.extendCont m) = (grow s m, .ok) ∧ step dense s .extendSelf = (grow s s.size, .ok) :=
  ⟨rfl, rfl, rfl, rfl⟩

/-- P0 `growth_aligned`: after ANY script, growing the container by `m` elements leaves the attribute answering for
exactly `size + m` indices (dense: `n_elem` and the matrix have `size + m` rows), old indices keep their answers and
the new ones read the default -/
theorem growth_aligned (dense : Bool) (n0 : Nat) (ops : List Op) (m : Nat)
    (hw : dense = false → wellIndexed n0 ops = true) :
    let s := final dense (init n0) ops
    let s' := grow s m
    s'.size = s.size + m ∧
    (s.attr = none → s'.attr = none) ∧
    ∀ a, s.attr = some a → ∃ a', s'.attr = some a' ∧ a'.ty = a.ty ∧ a'.k = a.k ∧ a'.dflt = a.dflt ∧
      (∀ n arr, a'.store = .dense n arr → n = s'.size ∧ (cellMat s'.heap arr).length = s'.size) ∧
      (∀ i : Int, 0 ≤ i → i < (s.size : Int) → read s' a' i = read s a i) ∧
      (∀ i : Int, (s.size : Int) ≤ i → i < (s'.size : Int) → read s' a' i = .ok a.dfltRow) ∧
      (∀ i : Int, (s'.size : Int) ≤ i → dense = true → read s' a' i = .error .oob) := by
  intro s s'
  have hg : Good dense s (specFinal (specInit n0) ops) := good_final dense ops _ _ (good_init dense n0) hw
  refine ⟨?_, ?_, ?_⟩
  · show (grow s m).size = s.size + m
    cases ha : s.attr with
    | none => rw [grow_none ha]
    | some a => rw [grow_some ha]
  · intro ha; show (grow s m).attr = none; rw [grow_none ha]; exact ha
  · intro a ha
    have hs' : s' = { heap := (expandAttr s.heap a m).1, size := s.size + m, attr := some (expandAttr s.heap a m).2 } :=
      grow_some ha
    obtain ⟨e1, e2, e3, hok', ekeys, hold, hnew⟩ :=
      expand_spec (h' := (expandAttr s.heap a m).1) (a' := (expandAttr s.heap a m).2) (m := m) (hg.inv a ha) rfl
    have hmode' : isDense (expandAttr s.heap a m).2 = dense := by rw [isDense_expand]; exact hg.mode a ha
    rcases R_cases hg.rel with ⟨hn, _⟩ | ⟨a0, ta, ha0, _, _, _, _, hki, _, _⟩
    · rw [ha] at hn; cases hn
    · rw [ha] at ha0; injection ha0 with ha0; subst ha0
      refine ⟨(expandAttr s.heap a m).2, by rw [hs'], e1, e2, e3, ?_, ?_, ?_, ?_⟩
      · intro n arr hst
        rw [hs']; simp only
        unfold StoreOk at hok'; rw [hst] at hok'; simp only at hok'
        obtain ⟨h1, rows, h2, h3⟩ := hok'
        refine ⟨h1, ?_⟩
        unfold cellMat; rw [h2]; exact h3
      · intro i h0 hi
        have hb1 := boundsFail_eq (i := i) (hg.mode a ha) (hg.inv a ha) (fun _ => inRange_iff.mpr ⟨h0, hi⟩)
        have hb2 := boundsFail_eq (i := i) (size := s.size + m) hmode' hok'
          (fun _ => inRange_iff.mpr ⟨h0, by omega⟩)
        rw [inRange_iff.mpr ⟨h0, hi⟩] at hb1
        rw [inRange_iff.mpr ⟨h0, (by omega : i < ((s.size + m : Nat) : Int))⟩] at hb2
        rw [read_eq, read_eq, hb1, hb2, hs']; simp only [Bool.not_true, Bool.false_eq_true, if_false]
        rw [hold i h0 hi]
      · intro i hi1 hi2
        have hi2' : i < ((s.size + m : Nat) : Int) := by rw [hs'] at hi2; exact hi2
        have hb2 := boundsFail_eq (i := i) (size := s.size + m) hmode' hok'
          (fun _ => inRange_iff.mpr ⟨by omega, hi2'⟩)
        rw [inRange_iff.mpr ⟨(by omega : 0 ≤ i), hi2'⟩] at hb2
        rw [read_eq, hb2, hs']; simp only [Bool.not_true, Bool.false_eq_true, if_false]
        rw [hnew i hi1 hi2' (fun p hp e => by have := hki p hp; omega)]
      · intro i hi hd
        have hi' : ((s.size + m : Nat) : Int) ≤ i := by rw [hs'] at hi; exact hi
        have hb2 := boundsFail_eq (i := i) (size := s.size + m) hmode' hok' (fun h => by rw [hd] at h; cases h)
        have : inRange i (s.size + m) = false := by
          cases h : inRange i (s.size + m) with
          | false => rfl
          | true => have := inRange_iff.mp h; omega
        rw [this] at hb2
        rw [read_eq, hb2]; rfl

/-! ## reads are isolated -/

/-- P0 `read_isolated`: after ANY script (in-place updates included, no index hypothesis), in either storage mode,
updating in place the value obtained by reading entry `i` (`v = a[i]; v[c] = x`) changes what NO other entry `j ≥ 0`
reads, and preserves the storage invariant -/
theorem read_isolated (dense : Bool) (n0 : Nat) (ops : List Op) :
    let s := final dense (init n0) ops
    ∀ a, s.attr = some a → ∀ (i : Int) (s' : State) (hd : Handle) (v : Val), get s a i = .ok (s', hd, v) →
      ∀ (c : Nat) (x : Scalar) (j : Int), j ≠ i → 0 ≤ j →
        read { s' with heap := mutate s'.heap hd c x } a j = read s a j := by
  intro s a ha i s' hd v hg c x j hji hj
  have hinv : Inv s := inv_final dense ops _ (inv_init n0)
  obtain ⟨_, _, _, _, _, hmu⟩ := get_spec (hinv a ha) hg
  rw [read_eq, read_eq]; simp only
  rw [(hmu c x).2 j hji hj]

/-- the storage invariant (distinct keys own distinct well-typed cells; dense matrix aligned with the container) holds
after every script in both modes: this is the `AliasFree` of attribute storage -/
theorem storage_invariant (dense : Bool) (n0 : Nat) (ops : List Op) : Inv (final dense (init n0) ops) :=
  inv_final dense ops _ (inv_init n0)

/-! ## P1: export and clear -/

/-- P1 `asArray_eq_tabulate`: the export has exactly `size` rows and row `i` is what `a[i]` reads -/
theorem asArray_eq_tabulate (dense : Bool) (n0 : Nat) (ops : List Op) (hw : dense = false → wellIndexed n0 ops = true) :
    let s := final dense (init n0) ops
    ∀ a, s.attr = some a → ∃ rows, asArray s a = .ok rows ∧ rows.length = s.size ∧
      ∀ i : Nat, i < s.size → read s a (i : Int) = .ok (rows.getD i []) := by
  intro s a ha
  have hg : Good dense s (specFinal (specInit n0) ops) := good_final dense ops _ _ (good_init dense n0) hw
  rcases R_cases hg.rel with ⟨hn, _⟩ | ⟨a0, ta, ha0, _, _, _, _, hki, _, _⟩
  · rw [ha] at hn; cases hn
  · rw [ha] at ha0; injection ha0 with ha0; subst ha0
    obtain ⟨rows, h1, h2, h3⟩ := asArray_spec (hg.inv a ha) hki
    refine ⟨rows, h1, h2, ?_⟩
    intro i hi
    have hb := boundsFail_eq (i := (i : Int)) (hg.mode a ha) (hg.inv a ha) (fun _ => inRange_iff.mpr ⟨by omega, by omega⟩)
    rw [inRange_iff.mpr ⟨(by omega : (0 : Int) ≤ i), (by omega : (i : Int) < s.size)⟩] at hb
    rw [read_eq, hb, h3 i hi]; rfl

/-- P1 `clear_resets`: after `clear()` every index of the container reads the default -/
theorem clear_resets (dense : Bool) (n0 : Nat) (ops : List Op) :
    let s := final dense (init n0) ops
    ∀ a, s.attr = some a →
      ∃ a', (step dense s .clear).1.attr = some a' ∧ (step dense s .clear).1.size = s.size ∧
        ∀ i : Int, 0 ≤ i → i < (s.size : Int) → read (step dense s .clear).1 a' i = .ok a.dfltRow := by
  intro s a ha
  have hinv : Inv s := inv_final dense ops _ (inv_init n0)
  have hmode : ModeOk dense s := modeOk_final dense ops _ (inv_init n0) (fun a h => by cases h)
  obtain ⟨_, _, _, hok', _, hl⟩ := clear_spec (h' := (clearAttr s.heap a).1) (a' := (clearAttr s.heap a).2) (hinv a ha) rfl
  rw [step_clear_some ha]
  refine ⟨(clearAttr s.heap a).2, rfl, rfl, ?_⟩
  intro i h0 hi
  have hb := boundsFail_eq (i := i) (dense := dense) (by rw [isDense_clear]; exact hmode a ha) hok'
    (fun _ => inRange_iff.mpr ⟨h0, hi⟩)
  rw [inRange_iff.mpr ⟨h0, hi⟩] at hb
  rw [read_eq, hb]; simp only [Bool.not_true, Bool.false_eq_true, if_false]
  rw [hl i h0 hi]

/-! ## non-vacuity: concrete scripts (tests of the definitions, not proofs of the property) -/

/-- a well-indexed script with writes, widening, growth by itself, a rejected value and an export; sparse = dense -/
example :
    let ops : List Op := [.create .float 2 none, .set 1 (.vec [.i 3, .b true]), .extendSelf, .get 1, .get 3,
                          .set 0 (.vec [.s "x", .f 1]), .asArray]
    wellIndexed 2 ops = true ∧ mutFree ops = true ∧
    runObs true (init 2) ops = [.ok, .ok, .ok, .val [.f 3, .f 1], .val [.f 0, .f 0], .err .type,
      .arr [[.f 0, .f 0], [.f 3, .f 1], [.f 0, .f 0], [.f 0, .f 0]]] := by
  refine ⟨by decide, by decide, by rfl⟩

/-- dense storage: index == size is OutOfBounds (read and write), as is -1 -/
example : runObs true (init 3) [.create .int 1 none, .get 3, .set 3 (.sc (.i 1)), .get (-1)]
    = [.ok, .err .oob, .err .oob, .err .oob] := by rfl

/-- the in-place update of a read default (sparse, vector) leaves the other unset entries at the default -/
example : runObs false (init 2) [.create .int 3 none, .upd 1 1 (.i (-1)), .get 0, .asArray]
    = [.ok, .ok, .val [.i 0, .i 0, .i 0], .arr [[.i 0, .i 0, .i 0], [.i 0, .i 0, .i 0]]] := by rfl

/-! ## round 2: reads that stay alive (stale handles) and write-side aliasing

Extended model `Mouette.Attr.step2` (Model/AttrHandles.lean): `hold i` keeps the object `a[i]` evaluates to, `updH h c x`
updates it in place later (after any writes / growth / clear / re-creation), `setFromRead i j` is `a[j] = a[i]`,
`setShared v keys` writes ONE caller vector under several keys and lets the caller update it afterwards.
`Held.orig` records (ghost) the entry a handle was read from; it is `none` for caller vectors and for reads made before
the attribute object or its storage was replaced (`create`, `delete`, container `clear`, `attr.clear()`). -/

/-- P0 `dense_refines_ext`: every script of base AND extended operations on the dense storage is matched by the extended
total-map specification: in particular an update through a handle read from entry `i` leaves every other entry's
answers as specified, `a[j] = a[i]` and shared-vector writes behave like independent writes -/
theorem dense_refines_ext (n0 : Nat) (ops : List Op2) :
    Forall2 Matches2 (specRun2 (specInit2 n0) ops) (run2 true (init2 n0) ops) :=
  refines2_aux true ops _ _ (goodR_init true n0) (fun h => by cases h)

/-- P0 `sparse_refines_ext`: the same for the sparse storage on well-indexed scripts -/
theorem sparse_refines_ext (n0 : Nat) (ops : List Op2) (hw : wellIndexed2 n0 ops = true) :
    Forall2 Matches2 (specRun2 (specInit2 n0) ops) (run2 false (init2 n0) ops) :=
  refines2_aux false ops _ _ (goodR_init false n0) (fun _ => hw)

/-- P0 `sparse_dense_agree_ext`: on the same well-indexed extended script both storages give observations allowed by one
common specification observation (equal wherever the specification is determined) -/
theorem sparse_dense_agree_ext (n0 : Nat) (ops : List Op2) (hw : wellIndexed2 n0 ops = true) :
    Forall2 (fun o1 o2 => ∃ so, Matches2 so o1 ∧ Matches2 so o2) (run2 false (init2 n0) ops) (run2 true (init2 n0) ops) :=
  forall2_common2 (sparse_refines_ext n0 ops hw) (dense_refines_ext n0 ops)

/-- P0 `sparse_dense_agree_ext_eq`: on a well-indexed extended script without in-place updates (`upd`, `updH`) — but with
reads kept alive, `a[j] = a[i]` and shared-vector writes — sparse and dense observations are literally EQUAL -/
theorem sparse_dense_agree_ext_eq (n0 : Nat) (ops : List Op2) (hw : wellIndexed2 n0 ops = true) (hmf : mutFree2 ops = true) :
    run2 false (init2 n0) ops = run2 true (init2 n0) ops :=
  forall2_unique2 (specRun2_total ops _ hmf (fun ta h => by cases h)) (sparse_refines_ext n0 ops hw) (dense_refines_ext n0 ops)

/-- P0 `read_isolated_ext` (stale handles, write-side aliasing): after ANY extended script, in either storage mode, an
in-place update through ANY registered read result — however old, whatever writes (`a[j] = a[i]`, one vector under
several keys), growth, clear or re-creation happened since — changes what NO entry `j ≥ 0` reads other than the entry
the handle was read from, and keeps the storage invariant -/
theorem read_isolated_ext (dense : Bool) (n0 : Nat) (ops : List Op2) :
    let s := final2 dense (init2 n0) ops
    ∀ hl ∈ s.held, ∀ hd, hl.hd = some hd → ∀ a, s.st.attr = some a → ∀ (c : Nat) (x : Scalar),
      StoreOk (mutate s.st.heap hd c x) s.st.size a ∧
      ∀ j : Int, 0 ≤ j → hl.orig ≠ some j →
        read { s.st with heap := mutate s.st.heap hd c x } a j = read s.st a j := by
  intro s hl hmem hd hhd a ha c x
  have hg : Good2 dense s := good2_final dense ops _ (good2_init dense n0)
  refine ⟨storeOk_mutate hd c x (hg.inv a ha), ?_⟩
  intro j hj hne
  rw [read_eq, read_eq]; simp only
  rw [mutate_isolated c x (hg.inv a ha) ((hg.hinv hl hmem).2 a ha) hhd j hj hne]

/-- P0 `read_isolated_after_writes`: the atomic form (`v = a[i]; v[c] = x`) also holds after any extended script, i.e.
after `a[j] = a[i]` and after one vector was written under several keys -/
theorem read_isolated_after_writes (dense : Bool) (n0 : Nat) (ops : List Op2) :
    let s := (final2 dense (init2 n0) ops).st
    ∀ a, s.attr = some a → ∀ (i : Int) (s' : State) (hd : Handle) (v : Val), get s a i = .ok (s', hd, v) →
      ∀ (c : Nat) (x : Scalar) (j : Int), j ≠ i → 0 ≤ j →
        read { s' with heap := mutate s'.heap hd c x } a j = read s a j := by
  intro s a ha i s' hd v hg c x j hji hj
  have hinv : Inv s := (good2_final dense ops _ (good2_init dense n0)).inv
  obtain ⟨_, _, _, _, _, hmu⟩ := get_spec (hinv a ha) hg
  rw [read_eq, read_eq]; simp only
  rw [(hmu c x).2 j hji hj]

/-- P0 `caller_vector_isolated`: the vector the caller wrote under several keys is NOT shared with the attribute: after
`setShared (vec l) keys` (from any reachable state) updating the caller's vector in place changes no entry at all -/
theorem caller_vector_isolated (dense : Bool) (n0 : Nat) (ops : List Op2) (l : List Scalar) (keys : List Int) :
    let s := final2 dense (init2 n0) ops
    let s' := (step2 dense s (.setShared (.vec l) keys)).1
    s.st.attr ≠ none →
    ∀ a', s'.st.attr = some a' → ∀ (c : Nat) (x : Scalar) (j : Int), 0 ≤ j →
      read { s'.st with heap := mutate s'.st.heap (.whole s.st.heap.length) c x } a' j = read s'.st a' j := by
  intro s s' hne a' ha' c x j hj
  have hg : Good2 dense s := good2_final dense ops _ (good2_init dense n0)
  have hg' : Good2 dense s' := good2_step dense s _ hg
  have hmem : ({ orig := none, hd := some (.whole s.st.heap.length) } : Held) ∈ s'.held := by
    show _ ∈ (step2 dense s (.setShared (.vec l) keys)).1.held
    simp only [step2]
    cases ha : s.st.attr with
    | none => exact absurd ha hne
    | some a => simp
  rw [read_eq, read_eq]; simp only
  rw [mutate_isolated c x (hg'.inv a' ha') ((hg'.hinv _ hmem).2 a' ha') rfl j hj (by simp)]

/-- P0 `dense_handle_stale_after_growth` (what the code does): the dense storage REPLACES its matrix when the container
grows (`np.concatenate`), so after `append` / `+=` every read result obtained before — row views of the old matrix —
is dead: updating it in place changes NO entry, not even the one it was read from -/
theorem dense_handle_stale_after_growth (n0 : Nat) (ops : List Op2) (m : Nat) :
    let s := final2 true (init2 n0) ops
    ∀ hl ∈ s.held, ∀ hd, hl.hd = some hd → ∀ a, s.st.attr = some a → ∀ (c : Nat) (x : Scalar),
      ∃ a', (grow s.st m).attr = some a' ∧ ∀ j : Int, 0 ≤ j →
        read { (grow s.st m) with heap := mutate (grow s.st m).heap hd c x } a' j = read (grow s.st m) a' j := by
  intro s hl hmem hd hhd a ha c x
  have hg : Good2 true s := good2_final true ops _ (good2_init true n0)
  obtain ⟨a', h1, h2⟩ := dense_grow_dead m hg.inv hg.mode ha hd ((hg.hinv hl hmem).1 hd hhd) c x
  refine ⟨a', h1, ?_⟩
  intro j hj
  rw [read_eq, read_eq]; simp only
  rw [h2 j hj]

/-- a value read from the attribute re-validates to itself (`a[j] = a[i]` stores the value of entry `i`), arity ≥ 1 -/
theorem checkVal_idem (ty : Ty) (k : Nat) (hk : 1 ≤ k) (v : InVal) (w : Val) (h : checkVal ty k v = .ok w) :
    checkVal ty k (toInVal k w) = .ok w := by
  have hcast : ∀ x : Scalar, canCast x.ty ty = true → canCast (castTo ty x).ty ty = true ∧ castTo ty (castTo ty x) = castTo ty x := by
    intro x; cases ty <;> cases x <;> simp [canCast, castTo, Scalar.ty]
  cases v with
  | sc x =>
    simp only [checkVal] at h
    by_cases hk1 : k > 1
    · rw [if_pos hk1] at h; cases h
    · rw [if_neg hk1] at h
      by_cases hc : canCast x.ty ty = true
      · rw [if_pos hc] at h; injection h with h; subst h
        simp only [toInVal, hk1, if_false, checkVal]
        rw [if_pos (hcast x hc).1, (hcast x hc).2]
      · rw [if_neg hc] at h; cases h
  | vec l =>
    simp only [checkVal] at h
    by_cases hk1 : k > 1
    · rw [if_pos hk1] at h
      by_cases hl : l.length ≠ k
      · rw [if_pos hl] at h; cases h
      · rw [if_neg hl] at h
        by_cases hall : l.all (fun x => canCast x.ty ty) = true
        · rw [if_pos hall] at h; injection h with h; subst h
          simp only [toInVal, hk1, if_true, checkVal, List.length_map]
          rw [if_neg hl]
          have h2 : (l.map (castTo ty)).all (fun x => canCast x.ty ty) = true := by
            rw [List.all_eq_true] at hall ⊢
            intro y hy; rw [List.mem_map] at hy; obtain ⟨x0, hx0, rfl⟩ := hy
            exact (hcast x0 (hall x0 hx0)).1
          rw [if_pos h2, List.map_map]
          congr 1
          apply List.map_congr_left
          intro x0 hx0
          rw [List.all_eq_true] at hall
          exact (hcast x0 (hall x0 hx0)).2
        · rw [if_neg hall] at h; cases h
    · rw [if_neg hk1] at h; cases h

/-- non-vacuity (a test): one vector written under two keys, `a[2] = a[0]`, then in-place updates through a handle read
before, through the caller's vector and through a fresh read: only the entry read changes, in both storages -/
example :
    let ops : List Op2 := [.base (.create .int 2 none), .setShared (.vec [.i 1, .i 2]) [0, 1], .setFromRead 0 2,
      .hold 0, .updH 1 0 (.i 9), .updH 0 1 (.i 7), .base (.upd 2 0 (.i 5)), .base (.get 1), .base .asArray]
    wellIndexed2 3 ops = true ∧
    run2 false (init2 3) ops = [.ok, .ok, .ok, .val [.i 1, .i 2], .ok, .ok, .ok, .val [.i 1, .i 2],
      .arr [[.i 9, .i 2], [.i 1, .i 2], [.i 5, .i 2]]] ∧
    run2 true (init2 3) ops = run2 false (init2 3) ops := by
  refine ⟨by decide, by rfl, by rfl⟩

/-- dense: a row view taken before growth is dead afterwards; the sparse object stays live (a test) -/
example :
    let ops : List Op2 := [.base (.create .int 2 none), .base (.set 0 (.vec [.i 1, .i 2])), .hold 0, .base .append,
      .updH 0 0 (.i 9), .base (.get 0)]
    (run2 true (init2 1) ops).getLast? = some (.val [.i 1, .i 2]) ∧
    (run2 false (init2 1) ops).getLast? = some (.val [.i 9, .i 2]) := by
  refine ⟨by rfl, by rfl⟩

/-! ## round 3: several attributes on one container (histories on one object)

Model `Mouette.Attr.stepM` (Model/AttrMulti.lean): `on a op` steps attribute `a`, `cont op` (append / `+=` / container
clear) steps EVERY attribute; attribute `a` is sparse for even `a`, dense for odd `a`. -/

/-- P0 `multi_project`: in EVERY well-formed multi-attribute script, attribute `a` ends in exactly the state, and gives
exactly the observations, of the single-attribute run on the script it sees (its own operations — creation, deletion and
re-creation under the same name included — and every container operation) -/
theorem multi_project (n0 K a : Nat) (ha : a < K) (ops : List OpM) (hwf : wfM ops = true) :
    (finalM (initM n0 K) ops).sts[a]? = some (final (modeOf a) (init n0) (proj a ops)) ∧
    projObs a ops (runM (initM n0 K) ops) = runObs (modeOf a) (init n0) (proj a ops) :=
  multi_project_aux a ops _ _ hwf (initM_getElem? n0 K a ha)

/-- P0 `multi_frame`: an operation on attribute `b` changes NOTHING of another attribute `a` -/
theorem multi_frame (s : StateM) (a b : Nat) (op : Op) (hne : b ≠ a) : (stepM s (.on b op)).1.sts[a]? = s.sts[a]? := by
  simp only [stepM]
  cases hb : s.sts[b]? with
  | none => rfl
  | some stb => simp only; rw [List.getElem?_set_ne hne]

/-- P0 `multi_refines`: every attribute of a multi-attribute history is a total map: the observations of dense attribute
`a` (odd) refine the total-map specification run on the script it sees; for sparse attributes (even) the same on
well-indexed scripts -/
theorem multi_refines (n0 K a : Nat) (ha : a < K) (ops : List OpM) (hwf : wfM ops = true)
    (hw : modeOf a = false → wellIndexed n0 (proj a ops) = true) :
    Forall2 Matches (specRun (specInit n0) (proj a ops)) (projObs a ops (runM (initM n0 K) ops)) := by
  rw [(multi_project n0 K a ha ops hwf).2]
  cases hm : modeOf a with
  | true => exact dense_refines n0 (proj a ops)
  | false => exact sparse_refines n0 (proj a ops) (hw hm)

/-- P0 `multi_growth_aligned`: after every well-formed multi-attribute script all attributes agree on the container size
(the one obtained from the container operations alone), and every dense attribute has exactly that many rows -/
theorem multi_growth_aligned (n0 K a b : Nat) (ha : a < K) (hb : b < K) (ops : List OpM) (hwf : wfM ops = true) :
    ∃ sta stb, (finalM (initM n0 K) ops).sts[a]? = some sta ∧ (finalM (initM n0 K) ops).sts[b]? = some stb ∧
      sta.size = stb.size ∧ Inv sta ∧
      (∀ att n arr, sta.attr = some att → att.store = .dense n arr → n = sta.size ∧ (cellMat sta.heap arr).length = sta.size) := by
  obtain ⟨h1, _⟩ := multi_project n0 K a ha ops hwf
  obtain ⟨h2, _⟩ := multi_project n0 K b hb ops hwf
  refine ⟨_, _, h1, h2, ?_, inv_final _ _ _ (inv_init n0), ?_⟩
  · rw [final_size, final_size]; exact sizeFold_proj a b ops n0 hwf
  · intro att n arr hat hst
    have hinv := inv_final (modeOf a) (proj a ops) _ (inv_init n0) att hat
    unfold StoreOk at hinv; rw [hst] at hinv; simp only at hinv
    obtain ⟨e1, rows, e2, e3⟩ := hinv
    exact ⟨e1, by unfold cellMat; rw [e2]; exact e3⟩

/-- P0 `recreate_fresh`: deleting an attribute and creating it again under the same name starts from the default at
every index, whatever was written before (in either storage, after any script) -/
theorem recreate_fresh (dense : Bool) (n0 : Nat) (ops : List Op) (ty : Ty) (k : Nat) :
    let s := final dense (init n0) (ops ++ [.delete, .create ty k none])
    ∃ a, s.attr = some a ∧ a.ty = ty ∧ a.k = k ∧
      ∀ i : Int, 0 ≤ i → i < (s.size : Int) → read s a i = .ok (List.replicate k ty.zero) := by
  intro s
  have hfin : ∀ (l1 l2 : List Op) (st : State), final dense st (l1 ++ l2) = final dense (final dense st l1) l2 := by
    intro l1; induction l1 with
    | nil => intro l2 st; rfl
    | cons o r ih => intro l2 st; simp only [List.cons_append, final]; exact ih l2 _
  have hs : s = mkAttr dense { (final dense (init n0) ops) with attr := none } ty k ty.zero := by
    show final dense (init n0) (ops ++ [.delete, .create ty k none]) = _
    rw [hfin]; simp only [final, step]
  obtain ⟨hsz, a', ha', e1, e2, e3, hok, _, hl⟩ := mkAttr_spec dense { (final dense (init n0) ops) with attr := none } ty k ty.zero
  refine ⟨a', by rw [hs]; exact ha', e1, e2, ?_⟩
  intro i h0 hi
  have hsize : s.size = (final dense (init n0) ops).size := by rw [hs, hsz]
  have hmode : isDense a' = dense := by
    have := modeOk_mkAttr dense { (final dense (init n0) ops) with attr := none } ty k ty.zero a' ha'; exact this
  have hb := boundsFail_eq (i := i) (size := (final dense (init n0) ops).size) hmode (by simpa using hok)
    (fun _ => inRange_iff.mpr ⟨h0, by rw [← hsize]; exact hi⟩)
  rw [inRange_iff.mpr ⟨h0, (by rw [← hsize]; exact hi : i < ((final dense (init n0) ops).size : Int))⟩] at hb
  rw [read_eq, hb]; simp only [Bool.not_true, Bool.false_eq_true, if_false]
  rw [hs, hl i h0 (by rw [← hsize]; exact hi)]

/-- non-vacuity (a test): a sparse and a dense attribute on one container, growth, delete and re-create -/
example :
    let ops : List OpM := [.on 0 (.create .int 1 none), .on 1 (.create .int 1 (some (.i 7))), .on 0 (.set 1 (.sc (.i 5))),
      .cont .append, .on 1 (.get 2), .on 0 (.get 1), .on 0 .delete, .on 0 (.create .int 1 none), .on 0 (.get 1), .on 1 .asArray]
    wfM ops = true ∧
    runM (initM 2 2) ops = [.ok, .ok, .ok, .ok, .val [.i 7], .val [.i 5], .ok, .ok, .val [.i 0], .arr [[.i 7], [.i 7], [.i 7]]] := by
  refine ⟨by decide, by rfl⟩

/-! ## round 3: translated resets / growth (re-extracted from mesh_attributes.py and data_container.py on every run) -/

/-- bridge `gen_storage_eq`: what the source does on growth and clear is what the model does: `_expand(m)` builds a new
dense matrix = old rows followed by `m` default rows and adds `m` to `n_elem` (sparse: nothing); `clear()` builds a new
dense matrix of `n_elem` default rows (sparse: empty dict); `append` / `+= list` / `+= container` expand every attribute
by the number of appended elements, the container operand's length being read BEFORE the extension (`+= itself`) -/
theorem gen_storage_eq :
    (∀ (h : Heap) (a : Attr) (n arr m : Nat), a.store = .dense n arr →
      (Generated.C05.denseExpand n m).1 = true ∧ (Generated.C05.denseExpand n m).2.2.1 = true ∧
      (expandAttr h a m).2.store = .dense (Generated.C05.denseExpand n m).2.2.2 h.length ∧
      cellMat (expandAttr h a m).1 h.length = cellMat h arr ++ List.replicate (Generated.C05.denseExpand n m).2.1 a.dfltRow) ∧
    (∀ (h : Heap) (a : Attr) (data : List (Int × Nat)) (m : Nat), a.store = .sparse data →
      Generated.C05.sparseExpandIsNoop = true ∧ expandAttr h a m = (h, a)) ∧
    (∀ (h : Heap) (a : Attr) (n arr : Nat), a.store = .dense n arr →
      cellMat (clearAttr h a).1 h.length = List.replicate (Generated.C05.denseClearRows n) a.dfltRow) ∧
    (∀ (h : Heap) (a : Attr) (data : List (Int × Nat)), a.store = .sparse data →
      Generated.C05.sparseClearIsEmptyDict = true ∧ (clearAttr h a).2.store = .sparse []) ∧
    (∀ (dense : Bool) (s : State) (n m : Nat),
      step dense s .append = (grow s Generated.C05.appendCount, .ok) ∧
      step dense s (.extendList n) = (grow s (Generated.C05.extendListCount n), .ok) ∧
      step dense s (.extendCont m) = (grow s (Generated.C05.extendContainerCount m), .ok) ∧
      step dense s .extendSelf = (grow s (Generated.C05.extendContainerCount s.size), .ok)) := by
  refine ⟨?_, ?_, ?_, ?_, ?_⟩
  · intro h a n arr m hst
    refine ⟨rfl, rfl, by simp [expandAttr, hst, Generated.C05.denseExpand], ?_⟩
    simp only [expandAttr, hst, Generated.C05.denseExpand]; exact cellMat_new _ _
  · intro h a data m hst; exact ⟨rfl, by simp [expandAttr, hst]⟩
  · intro h a n arr hst
    simp only [clearAttr, hst, Generated.C05.denseClearRows]; exact cellMat_new _ _
  · intro h a data hst; exact ⟨rfl, by simp [clearAttr, hst]⟩
  · intro dense s n m; exact ⟨rfl, rfl, rfl, rfl⟩

end Mouette.Props.C05
