import Mouette.Lemmas.AttrRun
import Mouette.Generated.C05
/-
C05 — attributes are total maps with defaults; sparse and dense storage agree.

Model: `Mouette.Attr` (Model/Attr.lean: heap of vector / matrix cells, sparse dict of references, dense matrix with row
views), specification: `Mouette.Attr.Spec` (Model/AttrSpec.lean: total map `Int → Option Val`, `none` = the entry whose
read value was updated in place, which the statement leaves unconstrained).
All theorems quantify over EVERY initial size and EVERY operation script.
-/
namespace Mouette.Props.C05
open Mouette.Attr

/-! ## translated fragments (re-extracted from mesh_attributes.py on every run) -/

/-- P0 `cast_lattice`: the normal-form lattice accepts exactly reflexive pairs and bool→int, bool→float, int→float -/
theorem cast_lattice (a b : Ty) :
    canCast a b = true ↔ (a = b ∨ (a, b) = (.bool, .int) ∨ (a, b) = (.bool, .float) ∨ (a, b) = (.int, .float)) := by
  cases a <;> cases b <;> decide

/-- bridge: `_can_be_casted` as written in the source (reflexive guard + literal set) is the normal form -/
theorem gen_canCast_eq (a b : Ty) : Generated.C05.canCast a b = canCast a b := by
  cases a <;> cases b <;> decide

/-- the lattice is a partial order (reflexive, transitive, antisymmetric): widening only -/
theorem cast_partial_order :
    (∀ a, canCast a a = true) ∧ (∀ a b c, canCast a b = true → canCast b c = true → canCast a c = true) ∧
    (∀ a b, canCast a b = true → canCast b a = true → a = b) := by
  refine ⟨?_, ?_, ?_⟩
  · intro a; cases a <;> decide
  · intro a b c; cases a <;> cases b <;> cases c <;> decide
  · intro a b; cases a <;> cases b <;> decide

/-- bridge: the dense bounds guard as written in the source is the model's guard … -/
theorem gen_oobGuard_eq (key : Int) (n : Nat) : Generated.C05.oobGuard key n = oobGuard key n := by
  unfold Generated.C05.oobGuard oobGuard
  by_cases h1 : key < 0 <;> by_cases h2 : (n : Int) ≤ key <;> simp [h1, h2] <;> omega

/-- … and it rejects EXACTLY the indices outside the container, the container's size included -/
theorem gen_oobGuard_exact (key : Int) (n : Nat) :
    Generated.C05.oobGuard key n = true ↔ ¬ (0 ≤ key ∧ key < (n : Int)) := by
  unfold Generated.C05.oobGuard
  by_cases h1 : key < 0 <;> by_cases h2 : (n : Int) ≤ key <;> simp [h1, h2] <;> omega

/-- bridge: the default values written in `Type.default_value` are the model's -/
theorem gen_zero_eq (t : Ty) : Generated.C05.zero t = some t.zero := by
  cases t <;> rfl

/-- the `Type` multi-value table is a function on `SUPPORTED_TYPES`: every supported Python type belongs to
exactly one member -/
theorem type_table_functional :
    ∀ n ∈ Generated.C05.supportedTypes,
      ((Generated.C05.typeTable.filter (fun r => r.2.contains n)).length = 1) := by
  decide

/-! ## refinement of both storages to the total-map specification, for every script -/

/-- P0 `dense_refines`: for every script, every answer of the dense storage (values, accept/reject with the same error
kind, exports, OutOfBounds for every index outside `[0,size)`) is the one the total-map specification allows -/
theorem dense_refines (n0 : Nat) (ops : List Op) :
    Forall2 Matches (specRun (specInit n0) ops) (runObs true (init n0) ops) :=
  refines_aux true ops _ _ (good_init true n0) (fun h => by cases h)

/-- P0 `sparse_refines`: the same for the sparse storage, on scripts whose indexed operations address elements of the
container (the statement does not constrain the sparse storage elsewhere) -/
theorem sparse_refines (n0 : Nat) (ops : List Op) (hw : wellIndexed n0 ops = true) :
    Forall2 Matches (specRun (specInit n0) ops) (runObs false (init n0) ops) :=
  refines_aux false ops _ _ (good_init false n0) (fun _ => hw)

/-- P0 `sparse_dense_agree`: on the same well-indexed script without in-place updates of read values, sparse and dense
storage give literally the same observations (answers, accept/reject, exports) -/
theorem sparse_dense_agree (n0 : Nat) (ops : List Op) (hw : wellIndexed n0 ops = true) (hmf : mutFree ops = true) :
    runObs false (init n0) ops = runObs true (init n0) ops :=
  forall2_unique (specRun_total ops _ hmf (fun ta h => by cases h)) (sparse_refines n0 ops hw) (dense_refines n0 ops)

/-- … and with in-place updates they agree on everything the specification constrains: every pair of observations is
allowed by one common specification observation (equal except at entries updated in place through a read) -/
theorem sparse_dense_agree_masked (n0 : Nat) (ops : List Op) (hw : wellIndexed n0 ops = true) :
    Forall2 (fun o1 o2 => ∃ so, Matches so o1 ∧ Matches so o2) (runObs false (init n0) ops) (runObs true (init n0) ops) :=
  forall2_common (sparse_refines n0 ops hw) (dense_refines n0 ops)

/-! ## growth keeps attributes aligned -/

/-- `append`, `+= list`, `+= container`, `+= itself` are all `grow` by the number of appended elements -/
theorem growth_ops (dense : Bool) (s : State) (n m : Nat) :
    step dense s .append = (grow s 1, .ok) ∧ step dense s (.extendList n) = (grow s n, .ok) ∧
    step dense s (.extendCont m) = (grow s m, .ok) ∧ step dense s .extendSelf = (grow s s.size, .ok) :=
  ⟨rfl, rfl, rfl, rfl⟩

/-- P0 `growth_aligned`: after ANY script, growing the container by `m` elements leaves the attribute answering for
exactly `size + m` indices (dense: `n_elem` and the matrix have `size + m` rows), old indices keep their answers and
the new ones read the default -/
theorem growth_aligned (dense : Bool) (n0 : Nat) (ops : List Op) (m : Nat)
    (hw : dense = false → wellIndexed n0 ops = true) :
    let s := final dense (init n0) ops
    let s' := grow s m
    s'.size = s.size + m ∧
    (s.attr = none → s'.attr = none) ∧
    ∀ a, s.attr = some a → ∃ a', s'.attr = some a' ∧ a'.ty = a.ty ∧ a'.k = a.k ∧ a'.dflt = a.dflt ∧
      (∀ n arr, a'.store = .dense n arr → n = s'.size ∧ (cellMat s'.heap arr).length = s'.size) ∧
      (∀ i : Int, 0 ≤ i → i < (s.size : Int) → read s' a' i = read s a i) ∧
      (∀ i : Int, (s.size : Int) ≤ i → i < (s'.size : Int) → read s' a' i = .ok a.dfltRow) ∧
      (∀ i : Int, (s'.size : Int) ≤ i → dense = true → read s' a' i = .error .oob) := by
  intro s s'
  have hg : Good dense s (specFinal (specInit n0) ops) := good_final dense ops _ _ (good_init dense n0) hw
  refine ⟨?_, ?_, ?_⟩
  · show (grow s m).size = s.size + m
    cases ha : s.attr with
    | none => rw [grow_none ha]
    | some a => rw [grow_some ha]
  · intro ha; show (grow s m).attr = none; rw [grow_none ha]; exact ha
  · intro a ha
    have hs' : s' = { heap := (expandAttr s.heap a m).1, size := s.size + m, attr := some (expandAttr s.heap a m).2 } :=
      grow_some ha
    obtain ⟨e1, e2, e3, hok', ekeys, hold, hnew⟩ :=
      expand_spec (h' := (expandAttr s.heap a m).1) (a' := (expandAttr s.heap a m).2) (m := m) (hg.inv a ha) rfl
    have hmode' : isDense (expandAttr s.heap a m).2 = dense := by rw [isDense_expand]; exact hg.mode a ha
    rcases R_cases hg.rel with ⟨hn, _⟩ | ⟨a0, ta, ha0, _, _, _, _, hki, _, _⟩
    · rw [ha] at hn; cases hn
    · rw [ha] at ha0; injection ha0 with ha0; subst ha0
      refine ⟨(expandAttr s.heap a m).2, by rw [hs'], e1, e2, e3, ?_, ?_, ?_, ?_⟩
      · intro n arr hst
        rw [hs']; simp only
        unfold StoreOk at hok'; rw [hst] at hok'; simp only at hok'
        obtain ⟨h1, rows, h2, h3⟩ := hok'
        refine ⟨h1, ?_⟩
        unfold cellMat; rw [h2]; exact h3
      · intro i h0 hi
        have hb1 := boundsFail_eq (i := i) (hg.mode a ha) (hg.inv a ha) (fun _ => inRange_iff.mpr ⟨h0, hi⟩)
        have hb2 := boundsFail_eq (i := i) (size := s.size + m) hmode' hok'
          (fun _ => inRange_iff.mpr ⟨h0, by omega⟩)
        rw [inRange_iff.mpr ⟨h0, hi⟩] at hb1
        rw [inRange_iff.mpr ⟨h0, (by omega : i < ((s.size + m : Nat) : Int))⟩] at hb2
        rw [read_eq, read_eq, hb1, hb2, hs']; simp only [Bool.not_true, Bool.false_eq_true, if_false]
        rw [hold i h0 hi]
      · intro i hi1 hi2
        have hi2' : i < ((s.size + m : Nat) : Int) := by rw [hs'] at hi2; exact hi2
        have hb2 := boundsFail_eq (i := i) (size := s.size + m) hmode' hok'
          (fun _ => inRange_iff.mpr ⟨by omega, hi2'⟩)
        rw [inRange_iff.mpr ⟨(by omega : 0 ≤ i), hi2'⟩] at hb2
        rw [read_eq, hb2, hs']; simp only [Bool.not_true, Bool.false_eq_true, if_false]
        rw [hnew i hi1 hi2' (fun p hp e => by have := hki p hp; omega)]
      · intro i hi hd
        have hi' : ((s.size + m : Nat) : Int) ≤ i := by rw [hs'] at hi; exact hi
        have hb2 := boundsFail_eq (i := i) (size := s.size + m) hmode' hok' (fun h => by rw [hd] at h; cases h)
        have : inRange i (s.size + m) = false := by
          cases h : inRange i (s.size + m) with
          | false => rfl
          | true => have := inRange_iff.mp h; omega
        rw [this] at hb2
        rw [read_eq, hb2]; rfl

/-! ## reads are isolated -/

/-- P0 `read_isolated`: after ANY script (in-place updates included, no index hypothesis), in either storage mode,
updating in place the value obtained by reading entry `i` (`v = a[i]; v[c] = x`) changes what NO other entry `j ≥ 0`
reads, and preserves the storage invariant -/
theorem read_isolated (dense : Bool) (n0 : Nat) (ops : List Op) :
    let s := final dense (init n0) ops
    ∀ a, s.attr = some a → ∀ (i : Int) (s' : State) (hd : Handle) (v : Val), get s a i = .ok (s', hd, v) →
      ∀ (c : Nat) (x : Scalar) (j : Int), j ≠ i → 0 ≤ j →
        read { s' with heap := mutate s'.heap hd c x } a j = read s a j := by
  intro s a ha i s' hd v hg c x j hji hj
  have hinv : Inv s := inv_final dense ops _ (inv_init n0)
  obtain ⟨_, _, _, _, _, hmu⟩ := get_spec (hinv a ha) hg
  rw [read_eq, read_eq]; simp only
  rw [(hmu c x).2 j hji hj]

/-- the storage invariant (distinct keys own distinct well-typed cells; dense matrix aligned with the container) holds
after every script in both modes: this is the `AliasFree` of attribute storage -/
theorem storage_invariant (dense : Bool) (n0 : Nat) (ops : List Op) : Inv (final dense (init n0) ops) :=
  inv_final dense ops _ (inv_init n0)

/-! ## P1: export and clear -/

/-- P1 `asArray_eq_tabulate`: the export has exactly `size` rows and row `i` is what `a[i]` reads -/
theorem asArray_eq_tabulate (dense : Bool) (n0 : Nat) (ops : List Op) (hw : dense = false → wellIndexed n0 ops = true) :
    let s := final dense (init n0) ops
    ∀ a, s.attr = some a → ∃ rows, asArray s a = .ok rows ∧ rows.length = s.size ∧
      ∀ i : Nat, i < s.size → read s a (i : Int) = .ok (rows.getD i []) := by
  intro s a ha
  have hg : Good dense s (specFinal (specInit n0) ops) := good_final dense ops _ _ (good_init dense n0) hw
  rcases R_cases hg.rel with ⟨hn, _⟩ | ⟨a0, ta, ha0, _, _, _, _, hki, _, _⟩
  · rw [ha] at hn; cases hn
  · rw [ha] at ha0; injection ha0 with ha0; subst ha0
    obtain ⟨rows, h1, h2, h3⟩ := asArray_spec (hg.inv a ha) hki
    refine ⟨rows, h1, h2, ?_⟩
    intro i hi
    have hb := boundsFail_eq (i := (i : Int)) (hg.mode a ha) (hg.inv a ha) (fun _ => inRange_iff.mpr ⟨by omega, by omega⟩)
    rw [inRange_iff.mpr ⟨(by omega : (0 : Int) ≤ i), (by omega : (i : Int) < s.size)⟩] at hb
    rw [read_eq, hb, h3 i hi]; rfl

/-- P1 `clear_resets`: after `clear()` every index of the container reads the default -/
theorem clear_resets (dense : Bool) (n0 : Nat) (ops : List Op) :
    let s := final dense (init n0) ops
    ∀ a, s.attr = some a →
      ∃ a', (step dense s .clear).1.attr = some a' ∧ (step dense s .clear).1.size = s.size ∧
        ∀ i : Int, 0 ≤ i → i < (s.size : Int) → read (step dense s .clear).1 a' i = .ok a.dfltRow := by
  intro s a ha
  have hinv : Inv s := inv_final dense ops _ (inv_init n0)
  have hmode : ModeOk dense s := modeOk_final dense ops _ (inv_init n0) (fun a h => by cases h)
  obtain ⟨_, _, _, hok', _, hl⟩ := clear_spec (h' := (clearAttr s.heap a).1) (a' := (clearAttr s.heap a).2) (hinv a ha) rfl
  rw [step_clear_some ha]
  refine ⟨(clearAttr s.heap a).2, rfl, rfl, ?_⟩
  intro i h0 hi
  have hb := boundsFail_eq (i := i) (dense := dense) (by rw [isDense_clear]; exact hmode a ha) hok'
    (fun _ => inRange_iff.mpr ⟨h0, hi⟩)
  rw [inRange_iff.mpr ⟨h0, hi⟩] at hb
  rw [read_eq, hb]; simp only [Bool.not_true, Bool.false_eq_true, if_false]
  rw [hl i h0 hi]

/-! ## non-vacuity: concrete scripts (tests of the definitions, not proofs of the property) -/

/-- a well-indexed script with writes, widening, growth by itself, a rejected value and an export; sparse = dense -/
example :
    let ops : List Op := [.create .float 2 none, .set 1 (.vec [.i 3, .b true]), .extendSelf, .get 1, .get 3,
                          .set 0 (.vec [.s "x", .f 1]), .asArray]
    wellIndexed 2 ops = true ∧ mutFree ops = true ∧
    runObs true (init 2) ops = [.ok, .ok, .ok, .val [.f 3, .f 1], .val [.f 0, .f 0], .err .type,
      .arr [[.f 0, .f 0], [.f 3, .f 1], [.f 0, .f 0], [.f 0, .f 0]]] := by
  refine ⟨by decide, by decide, by rfl⟩

/-- dense storage: index == size is OutOfBounds (read and write), as is -1 -/
example : runObs true (init 3) [.create .int 1 none, .get 3, .set 3 (.sc (.i 1)), .get (-1)]
    = [.ok, .err .oob, .err .oob, .err .oob] := by rfl

/-- the in-place update of a read default (sparse, vector) leaves the other unset entries at the default -/
example : runObs false (init 2) [.create .int 3 none, .upd 1 1 (.i (-1)), .get 0, .asArray]
    = [.ok, .ok, .val [.i 0, .i 0, .i 0], .arr [[.i 0, .i 0, .i 0], [.i 0, .i 0, .i 0]]] := by rfl

end Mouette.Props.C05
