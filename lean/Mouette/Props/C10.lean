import Mouette.Lemmas.TreesForest
/-
C10 — spanning trees and forests span, are acyclic, and respect exclusions.

Theorems about the executable model `Mouette/Model/Trees.lean` of the breadth-first trees
(`Edge/Face/CellSpanningTree.compute` + `SpanningTree.traverse`), for EVERY adjacency `g.adj` (with connector
ids), exclusion predicate `g.excl`, root and size, under the only hypothesis that admissible neighbours are
element ids `< n` (`WF`) and `root < n`.
  `Hops g a t k`      : `t` is joined to `a` by `k` admissible (non-excluded) adjacencies
  `TreeDepth par r x d`: following `par` from `x` reaches `r` in `d` steps (so the tables are acyclic)

Proved in sibling modules (same namespace):
  kruskal_spanning_forest (Props/C10Kruskal), kruskal_minimum (Props/C10KruskalMin),
  orient_spec / mst_orientation (Props/C10Orient).
-/
namespace Mouette.Props.C10
open Mouette.Trees

section
variable {g : Cfg} {n root : Nat}

/-- P0 termination: the loop `while len(queue) > 0` exits within `Σ deg + 1` iterations -/
theorem bfs_terminates (hwf : WF g n) (hr : root < n) :
    (brun g n root).queue = [] ∧ bstep g (brun g n root) = none := by
  have h := (bfinal_run hwf hr).empty
  refine ⟨h, ?_⟩
  unfold bstep
  rw [h]

/-- P0 `parent_children_consistent`: `c ∈ children[p] ↔ parent[c] = p`, no child is listed twice, the root has no
parent, and every reached non-root element has one. -/
theorem parent_children_consistent (hwf : WF g n) (hr : root < n) (skipInf : Bool) :
    let t := bfsTree g n root skipInf
    (∀ p c, c ∈ t.children p ↔ t.parent c = some p) ∧ (∀ p, (t.children p).Nodup) ∧ t.parent root = none ∧
    (∀ x, t.reached x = true → x ≠ root → ∃ p, t.parent x = some p) ∧
    (∀ c p, t.parent c = some p → t.reached c = true ∧ t.reached p = true) := by
  intro t
  have T := bfsTree_ok hwf hr skipInf
  exact ⟨T.ch_iff, T.ch_nodup, T.parent_root, T.reached_par, T.par_reached⟩

/-- P0 `tree_edges_are_adjacencies`: every parent link is an adjacency of the mesh through a connector that is not
excluded, and the edge list consists exactly of the `keyify(parent, child)` links. -/
theorem tree_edges_are_adjacencies (hwf : WF g n) (hr : root < n) (skipInf : Bool) :
    let t := bfsTree g n root skipInf
    (∀ c p, t.parent c = some p → ∃ k, (c, k) ∈ g.adj p ∧ g.excl k = false) ∧
    (∀ e, e ∈ t.edges ↔ ∃ c p, t.parent c = some p ∧ e = keyify p c) := by
  have F := bfinal_run hwf hr
  have I := F.inv
  intro t
  constructor
  · intro c p hp
    exact mem_nbrs.mp (I.par_ok c p hp).2.2.1
  · intro e
    show e ∈ mkEdges _ _ (List.range n) ↔ _
    unfold mkEdges
    simp only [List.mem_filterMap, List.mem_range]
    constructor
    · rintro ⟨v, _, hv⟩
      cases hp : (brun g n root).parent v with
      | none => rw [hp] at hv; simp at hv
      | some p =>
        rw [hp] at hv
        by_cases hk : (if skipInf = true then ((brun g n root).dist v).isSome else true) = true
        · rw [if_pos hk] at hv
          simp at hv
          exact ⟨v, p, hp, hv.symm⟩
        · rw [if_neg hk] at hv
          simp at hv
    · rintro ⟨c, p, hp, rfl⟩
      obtain ⟨h1, _, _, dp, _, h5⟩ := I.par_ok c p hp
      refine ⟨c, I.seen_lt c h1, ?_⟩
      have hp' : (brun g n root).parent c = some p := hp
      cases skipInf <;> simp [hp', h5]

/-- P0 `edge_count`: one fewer tree edge than reached elements. -/
theorem edge_count (hwf : WF g n) (hr : root < n) (skipInf : Bool) :
    let t := bfsTree g n root skipInf
    t.edges.length + 1 = ((List.range n).filter t.reached).length := by
  have F := bfinal_run hwf hr
  have I := F.inv
  intro t
  show (mkEdges _ _ (List.range n)).length + 1 = _
  rw [length_mkEdges]
  have := count_root t.reached
    (fun v => (if skipInf then ((brun g n root).dist v).isSome else true) && ((brun g n root).parent v).isSome) root
    ?_ ?_ n
  · rw [this, if_pos hr]
  · intro v
    show (brun g n root).seen v = _
    by_cases hvr : v = root
    · subst hvr; simp [I.seen_root]
    · have hb : (v == root) = false := by simpa using hvr
      rw [hb, Bool.false_or]
      cases hp : (brun g n root).parent v with
      | none =>
        simp
        cases hs : (brun g n root).seen v with
        | false => rfl
        | true =>
          obtain ⟨p, hp'⟩ := I.par_some v hs hvr
          rw [hp] at hp'; simp at hp'
      | some p =>
        obtain ⟨h1, _, _, dp, _, h5⟩ := I.par_ok v p hp
        cases skipInf <;> simp [h1, h5]
  · simp [I.parent_root]

/-- P1 `reached_eq_component`: the tree reaches exactly the elements joined to the root by admissible
(non-excluded) adjacencies. -/
theorem reached_eq_component (hwf : WF g n) (hr : root < n) (skipInf : Bool) (x : Nat) :
    (bfsTree g n root skipInf).reached x = true ↔ ∃ k, Hops g root x k := by
  have F := bfinal_run hwf hr
  have I := F.inv
  show (brun g n root).seen x = true ↔ _
  constructor
  · intro hx
    obtain ⟨d, hd⟩ := I.dist_some x hx
    exact ⟨d, (I.tree_path d x hx hd).2⟩
  · rintro ⟨k, hk⟩
    exact (F.closed hk I.seen_root).1

/-- P1 `bfs_min_hops`: every reached element hangs in the tree at a depth equal to its minimum hop distance to
the root (the parent chain is an admissible path of that length, and no admissible path is shorter). -/
theorem bfs_min_hops (hwf : WF g n) (hr : root < n) (skipInf : Bool) (x : Nat)
    (hx : (bfsTree g n root skipInf).reached x = true) :
    ∃ d, (bfsTree g n root skipInf).depth x = some d ∧ TreeDepth (bfsTree g n root skipInf).parent root x d ∧
      Hops g root x d ∧ ∀ k, Hops g root x k → d ≤ k := by
  have F := bfinal_run hwf hr
  have I := F.inv
  have hx' : (brun g n root).seen x = true := hx
  obtain ⟨d, hd⟩ := I.dist_some x hx'
  obtain ⟨t1, t2⟩ := I.tree_path d x hx' hd
  refine ⟨d, hd, t1, t2, ?_⟩
  intro k hk
  have := (F.closed hk I.seen_root).2
  simp [dget, hd, I.dist_root] at this
  exact this

/-- P0/P1 `traverse_once_parent_first`: `traverse()` in BFS and in DFS order terminates (work list empty within
fuel `n+1`), starts with `(root, None)`, yields every reached element exactly once together with its parent, and
yields every parent before its children. -/
theorem traverse_once_parent_first (hwf : WF g n) (hr : root < n) (skipInf : Bool) (bfs : Bool) :
    let t := bfsTree g n root skipInf
    ∃ O, traverse bfs n t = (O, []) ∧ (nodes O).Nodup ∧ (∀ x, x ∈ nodes O ↔ t.reached x = true) ∧
      (∀ e ∈ O, e.2 = t.parent e.1) ∧ O.head? = some (root, none) ∧
      (∀ c ∈ nodes O, ∀ p, t.parent c = some p → p ∈ nodes O ∧ (nodes O).idxOf p < (nodes O).idxOf c) := by
  intro t
  exact traverse_spec (bfsTree_ok hwf hr skipInf) bfs

/-- P1 `forest_one_tree_per_component` (for an undirected admissible adjacency): every tree of the forest is the
breadth-first tree of its root; every element is reached by some tree; no element is reached by two trees;
the roots lie in pairwise different connected components — so there is exactly one tree per component and
every element is covered once. -/
theorem forest_one_tree_per_component (hwf : WF g n) (hs : Sym g) (skipInf : Bool) :
    let ts := forest g n skipInf
    (∀ t ∈ ts, t.root < n ∧ t = bfsTree g n t.root skipInf) ∧
    (∀ x, x < n → ∃ t ∈ ts, t.reached x = true) ∧
    ts.Pairwise (fun t1 t2 => ∀ x, ¬ (t1.reached x = true ∧ t2.reached x = true)) ∧
    ts.Pairwise (fun t1 t2 => ¬ Conn g t1.root t2.root) := by
  intro ts
  have I0 : FInv g n skipInf (fun _ => false, []) :=
    { vis_iff := by simp, is_bfs := by simp, disj := List.Pairwise.nil, roots := List.Pairwise.nil }
  obtain ⟨I, hcov⟩ := finv_fold hwf hs (List.range n) _ (fun v hv => List.mem_range.mp hv) I0
  refine ⟨I.is_bfs, ?_, I.disj, I.roots⟩
  intro x hx
  exact (I.vis_iff x).mp (hcov x (Or.inr (List.mem_range.mpr hx)))

end

/-! ### non-vacuity (tests of the model on a concrete graph: a 4-cycle 0-1-2-3 with a pendant 4 and an isolated
pair 5-6; connector ids = positions; connector 1 (edge 1-2) excluded) -/

def exAdj : Adj := fun u => match u with
  | 0 => [(1, 0), (3, 3)]
  | 1 => [(0, 0), (2, 1)]
  | 2 => [(1, 1), (3, 2), (4, 4)]
  | 3 => [(2, 2), (0, 3)]
  | 4 => [(2, 4)]
  | 5 => [(6, 5)]
  | 6 => [(5, 5)]
  | _ => []

def exG : Cfg := { adj := exAdj, excl := fun k => k == 1 }

theorem exG_wf : WF exG 7 := by
  intro u x hx
  obtain ⟨k, hk, _⟩ := mem_nbrs.mp hx
  have : u < 7 ∨ 7 ≤ u := by omega
  clear this
  simp only [exG, exAdj] at hk
  split at hk <;> simp at hk <;> omega

example : (List.range 7).map (bfsTree exG 7 0 true).parent = [none, some 0, some 3, some 0, some 2, none, none] := by
  decide +kernel
example : (bfsTree exG 7 0 true).edges = [(0, 1), (2, 3), (0, 3), (2, 4)] := by decide +kernel
example : (traverse false 7 (bfsTree exG 7 0 true)).1.map (·.1) = [0, 3, 2, 4, 1] := by decide +kernel
example : (traverse true 7 (bfsTree exG 7 0 true)).1.map (·.1) = [0, 1, 3, 2, 4] := by decide +kernel
example : (forest exG 7 true).map (·.root) = [0, 5] := by decide +kernel
theorem exG_sym : Sym exG := by
  intro u x hx
  have hu : u < 7 := by
    by_contra h
    have h0 : exAdj u = [] := by
      unfold exAdj
      split <;> first | omega | rfl
    have : nbrs exG u = [] := by simp [nbrs, exG, h0]
    rw [this] at hx
    simp at hx
  have key : ∀ u < 7, ∀ x ∈ nbrs exG u, u ∈ nbrs exG x := by decide
  exact key u hu x hx
example : (kruskalLoop [(1, 2, 1), (0, 2, 1), (2, 3, 2), (0, 1, 3)] (ufInit 4)).2 = [(1, 2), (0, 2), (2, 3)] := by
  decide +kernel

end Mouette.Props.C10
