import Mouette.Generated.C14
import Mouette.Model.MeshCheck
import Mouette.Lemmas.ListCount
import Mouette.Lemmas.C14Norm
/-!
# C14 — procedural generators: valid meshes of the promised shape, all parameters

The definitions `Mouette.Generated.C14.*` are produced on every run by the translator (`vlib/props/c14.py`,
`vlib/pyloops.py`) from the *current* source of `mouette/procedural/{shapes,flat,rings}.py`: literal face tables
verbatim, loop nests as functional terms (`flatMap` over `List.range`). The theorems below are therefore about what
the source says now; a change of an index expression, a loop bound or a table entry changes the term and the
theorems are re-checked against it.

Part A: literal tables — decided completely by kernel evaluation (`decide`): closed, consistently oriented,
no unused vertex, no repeated face, Euler characteristic.
Part B: parametric families — for ALL admissible resolutions: vertex/face counts are the documented functions of
both resolutions; every face index is in range.
Part C: keyword forwarding of `hexahedron_4pts`.
Part D: geometry — points built as the generators build them lie on the named surface (algebraic identities).
-/
namespace Mouette.Props.C14
open Mouette.Generated.C14 Mouette.MeshCheck Mouette.ListCount

/-! ## A. literal tables -/

/-- tetrahedron: closed consistently oriented surface on 4 vertices, χ = 2 -/
theorem tetrahedron_closed_oriented : closedOriented tetrahedronNVerts tetrahedronFaces = true ∧
    euler tetrahedronNVerts tetrahedronFaces = 2 := by decide

/-- icosahedron: closed consistently oriented surface on 12 vertices with 20 faces, χ = 2 -/
theorem icosahedron_closed_oriented : closedOriented icosahedronNVerts icosahedronFaces = true ∧
    euler icosahedronNVerts icosahedronFaces = 2 ∧ icosahedronFaces.length = 20 := by decide +kernel

/-- hexahedron (quad table): closed consistently oriented, χ = 2, six quads -/
theorem hexahedron_quad_closed_oriented : closedOriented hexahedronNVerts hexahedronFacesQuad = true ∧
    euler hexahedronNVerts hexahedronFacesQuad = 2 ∧ hexahedronFacesQuad.all (·.length = 4) = true ∧
    hexahedronFacesQuad.length = 6 := by decide +kernel

/-- hexahedron (triangulated table): closed consistently oriented, χ = 2, twelve triangles -/
theorem hexahedron_tri_closed_oriented : closedOriented hexahedronNVerts hexahedronFacesTri = true ∧
    euler hexahedronNVerts hexahedronFacesTri = 2 ∧ hexahedronFacesTri.all (·.length = 3) = true ∧
    hexahedronFacesTri.length = 12 := by decide +kernel

/-- the two hexahedron tables describe the same solid: every triangle's vertices lie in one quad -/
theorem hexahedron_tables_agree :
    hexahedronFacesTri.all (fun t => hexahedronFacesQuad.any (fun q => t.all (q.contains ·))) = true := by
  decide +kernel

/-- triangle / quad generators: valid oriented disks (χ = 1, one border loop of 3 resp. 4 edges) -/
theorem triangle_disk : allInRange triangleNVerts triangleFaces = true ∧ noUnused triangleNVerts triangleFaces = true ∧
    facesSimple triangleFaces = true ∧ euler triangleNVerts triangleFaces = 1 ∧ numBorder triangleFaces = 3 := by
  decide

theorem quad_disk : allInRange quadNVerts quadFacesQuad = true ∧ noUnused quadNVerts quadFacesQuad = true ∧
    facesSimple quadFacesQuad = true ∧ euler quadNVerts quadFacesQuad = 1 ∧ numBorder quadFacesQuad = 4 ∧
    allInRange quadNVerts quadFacesTri = true ∧ noUnused quadNVerts quadFacesTri = true ∧
    facesSimple quadFacesTri = true ∧ dirEdgesNodup quadFacesTri = true ∧ facesDistinct quadFacesTri = true ∧
    euler quadNVerts quadFacesTri = 1 ∧ numBorder quadFacesTri = 4 := by decide

/-! ## C. switches are forwarded as named -/

/-- `hexahedron_4pts(colored, volume)` binds `colored` to `hexahedron`'s `colored` and `volume` to its `volume` -/
theorem switches_forwarded : hexa4ptsBinding = [("colored", "colored"), ("volume", "volume")] := by decide

/-! ## B. parametric families: counts for all resolutions -/

theorem unit_grid_nverts (nu nv : Nat) (t u : Bool) : unit_gridNVerts nu nv t u = nu * nv := by
  unfold unit_gridNVerts
  rw [length_flatMap_const _ _ nv]
  · simp
  · intro a _; rw [length_flatMap_const _ _ 1] <;> simp

/-- `(nu-1)(nv-1)` quads, twice as many triangles — for unequal resolutions too -/
theorem unit_grid_nfaces (nu nv : Nat) (t u : Bool) :
    (unit_gridFaces nu nv t u).length = (nu - 1) * ((nv - 1) * (if t then 2 else 1)) := by
  unfold unit_gridFaces
  rw [length_flatMap_range_cut nu (nu - 1) ((nv - 1) * (if t then 2 else 1))]
  · rw [Nat.min_eq_right (by omega)]
  · intro i hi
    rw [length_flatMap_range_cut nv (nv - 1) (if t then 2 else 1)]
    · rw [Nat.min_eq_right (by omega)]
    · intro j hj; cases t <;> simp [hi, hj]
    · intro j hj; have : ¬ (j < nv - 1) := by omega
      simp [this]
  · intro i hi
    have : ¬ (i < nu - 1) := by omega
    rw [length_flatMap_const _ _ 0]
    · simp
    · intro j _; simp [this]

theorem torus_nverts (M N : Nat) (t : Bool) : torusNVerts M N t = M * N := by
  unfold torusNVerts
  rw [length_flatMap_const _ _ N]
  · simp
  · intro a _; rw [length_flatMap_const _ _ 1] <;> simp

theorem torus_nfaces (M N : Nat) (t : Bool) :
    (torusFaces M N t).length = M * (N * (if t then 2 else 1)) := by
  unfold torusFaces
  rw [length_flatMap_const _ _ (N * (if t then 2 else 1))]
  · simp
  · intro i _
    rw [length_flatMap_const _ _ (if t then 2 else 1)]
    · simp
    · intro j _; cases t <;> simp

theorem sphere_uv_nverts (a b : Nat) : sphere_uvNVerts a b = a * b + 2 := by
  unfold sphere_uvNVerts
  simp only [List.length_append, List.length_cons, List.length_nil]
  rw [length_flatMap_const _ _ b]
  · simp; omega
  · intro i _; rw [length_flatMap_const _ _ 1] <;> simp

/-- two pole fans of `n_long` triangles and `n_lat - 1` rows of `n_long` quads -/
theorem sphere_uv_nfaces (a b : Nat) : (sphere_uvFaces a b).length = 2 * b + (a - 1) * b := by
  rw [sphere_uvFaces_norm]; unfold sphere_uvFacesCanon
  rw [List.length_append, length_flatMap_const _ _ 2, length_flatMap_const _ _ b]
  · simp; omega
  · intro j _; rw [length_flatMap_const _ _ 1] <;> simp
  · intro i _; simp

theorem cylinder_nverts (N : Nat) (fc : Bool) : cylinderNVerts N fc = 2 * N + (if fc then 2 else 0) := by
  unfold cylinderNVerts
  rw [List.length_append, length_flatMap_const _ _ N]
  · cases fc <;> simp
  · intro i _; rw [length_flatMap_const _ _ 1] <;> simp

theorem cylinder_nfaces (N : Nat) (fc : Bool) : (cylinderFaces N fc).length = 2 * N * (if fc then 2 else 1) := by
  rw [cylinderFaces_norm]; unfold cylinderFacesCanon
  rw [List.length_append, length_flatMap_const (List.range N) _ 2]
  · cases fc
    · simp; omega
    · simp only [if_true]
      rw [length_flatMap_const _ _ 2]
      · simp; omega
      · intro i _; simp
  · intro i _; simp

theorem ring_nverts (N c : Nat) (o : Bool) (h : 1 ≤ N * c) : ringNVerts N c o = N * c + 1 + (if o then 1 else 0) := by
  unfold ringNVerts
  simp only [List.length_append, List.length_cons, List.length_nil]
  rw [length_flatMap_const _ _ 1]
  · cases o <;> simp <;> omega
  · intro i _; simp

theorem ring_nfaces (N c : Nat) (o : Bool) (h : 1 ≤ N * c) : (ringFaces N c o).length = N * c := by
  rw [ringFaces_norm]; unfold ringFacesCanon
  rw [List.length_append, length_flatMap_const _ _ 1]
  · cases o <;> simp <;> omega
  · intro i _; simp

theorem flat_ring_nverts (N c : Nat) : flat_ringNVerts N c = N * c + 2 := by
  unfold flat_ringNVerts
  simp only [List.length_append, List.length_cons, List.length_nil]
  rw [length_flatMap_const _ _ 1]
  · simp; omega
  · intro i _; simp

theorem flat_ring_nfaces (N c : Nat) : (flat_ringFaces N c).length = N * c := by
  rw [flat_ringFaces_norm]; unfold flat_ringFacesCanon
  rw [length_flatMap_const _ _ 1] <;> simp

/-- triangular numbers: `nv(nv+1)/2` vertices whenever `nu ≥ nv` (rows are complete) -/
theorem unit_triangle_nverts (nu nv : Nat) (u : Bool) (h : nv ≤ nu) :
    unit_triangleNVerts nu nv u = nv * (nv + 1) / 2 := by
  unfold unit_triangleNVerts
  simp only []
  rw [length_flatMap_range_sum nv _ (fun j => j + 1), sum_range_succ_eq]
  intro j hj
  rw [takeWhile_range_le nu j _ (by intro i; simp) (by omega)]
  rw [length_flatMap_const _ _ 1] <;> simp

/-! ## B. parametric families: every face index is in range, for all admissible resolutions -/

theorem unit_grid_inRange (nu nv : Nat) (t u : Bool) :
    ∀ f ∈ unit_gridFaces nu nv t u, ∀ k ∈ f, k < unit_gridNVerts nu nv t u := by
  rw [unit_grid_nverts]
  intro f hf k hk
  rw [unit_gridFaces_norm] at hf
  simp only [unit_gridFacesCanon, List.mem_flatMap, List.mem_range] at hf
  obtain ⟨i, hi, j, hj, hf⟩ := hf
  by_cases hc : i < nu - 1 ∧ j < nv - 1
  · have e1 : (i + 1) * nv + nv ≤ nu * nv := by
      have := Nat.mul_le_mul_right nv (show i + 2 ≤ nu by omega)
      rw [show i + 2 = (i + 1) + 1 from rfl, Nat.succ_mul] at this; exact this
    have e0 : (i + 1) * nv = i * nv + nv := Nat.succ_mul i nv
    cases t <;> simp [hc] at hf
    · subst hf; simp at hk; rcases hk with rfl | rfl | rfl | rfl <;> omega
    · rcases hf with rfl | rfl <;> simp at hk <;> rcases hk with rfl | rfl | rfl <;> omega
  · simp [hc] at hf

theorem torus_inRange (M N : Nat) (t : Bool) :
    ∀ f ∈ torusFaces M N t, ∀ k ∈ f, k < torusNVerts M N t := by
  rw [torus_nverts]
  intro f hf k hk
  rw [torusFaces_norm] at hf
  simp only [torusFacesCanon, List.mem_flatMap, List.mem_range] at hf
  obtain ⟨i, hi, j, hj, hf⟩ := hf
  have h1 : (i + 1) % M < M := Nat.mod_lt _ (by omega)
  have h2 : (j + 1) % N < N := Nat.mod_lt _ (by omega)
  have e1 : i * N + N ≤ M * N := by
    have := Nat.mul_le_mul_right N (show i + 1 ≤ M by omega); rw [Nat.succ_mul] at this; exact this
  have e2 : ((i + 1) % M) * N + N ≤ M * N := by
    have := Nat.mul_le_mul_right N (show (i + 1) % M + 1 ≤ M by omega); rw [Nat.succ_mul] at this; exact this
  cases t <;> simp at hf <;> rcases hf with rfl | rfl <;> simp at hk <;>
    rcases hk with rfl | rfl | rfl | rfl <;> omega

theorem sphere_uv_inRange (a b : Nat) (ha : 1 ≤ a) :
    ∀ f ∈ sphere_uvFaces a b, ∀ k ∈ f, k < sphere_uvNVerts a b := by
  intro f hf k hk
  rw [sphere_uvFaces_norm] at hf
  simp only [sphere_uvFacesCanon, List.mem_append, List.mem_flatMap, List.mem_range] at hf
  rw [sphere_uv_nverts] at *
  have hab : b * (a - 1) + b = a * b := by
    obtain ⟨a', rfl⟩ : ∃ a', a = a' + 1 := ⟨a - 1, by omega⟩
    rw [Nat.add_sub_cancel, Nat.succ_mul, Nat.mul_comm]
  rcases hf with ⟨i, hi, hf⟩ | ⟨j, hj, i, hi, hf⟩
  · have h1 : (i + 1) % b < b := Nat.mod_lt _ (by omega)
    simp at hf
    rcases hf with rfl | rfl <;> simp at hk <;> rcases hk with rfl | rfl | rfl <;> omega
  · have h1 : (i + 1) % b < b := Nat.mod_lt _ (by omega)
    have e1 : (j + 1) * b + b ≤ a * b := by
      have := Nat.mul_le_mul_right b (show j + 2 ≤ a by omega)
      rw [show j + 2 = (j + 1) + 1 from rfl, Nat.succ_mul] at this; exact this
    have e0 : (j + 1) * b = j * b + b := Nat.succ_mul j b
    simp at hf; subst hf; simp at hk
    rcases hk with rfl | rfl | rfl | rfl <;> omega

theorem cylinder_inRange (N : Nat) (fc : Bool) :
    ∀ f ∈ cylinderFaces N fc, ∀ k ∈ f, k < cylinderNVerts N fc := by
  intro f hf k hk
  rw [cylinder_nverts]
  rw [cylinderFaces_norm] at hf
  simp only [cylinderFacesCanon, List.mem_append, List.mem_flatMap, List.mem_range] at hf
  rcases hf with hf | ⟨i, hi, hf⟩
  · cases fc
    · simp at hf
    · simp only [if_true, List.mem_flatMap, List.mem_range] at hf
      obtain ⟨i, hi, hf⟩ := hf
      have h1 : (i + 1) % N < N := Nat.mod_lt _ (by omega)
      simp at hf
      rcases hf with rfl | rfl <;> simp at hk <;> rcases hk with rfl | rfl | rfl <;> simp <;> omega
  · have h1 : (i + 1) % N < N := Nat.mod_lt _ (by omega)
    simp at hf
    rcases hf with rfl | rfl <;> simp at hk <;> rcases hk with rfl | rfl | rfl <;> cases fc <;> simp <;> omega

theorem ring_inRange (N c : Nat) (o : Bool) (h : 1 ≤ N * c) :
    ∀ f ∈ ringFaces N c o, ∀ k ∈ f, k < ringNVerts N c o := by
  intro f hf k hk
  rw [ring_nverts N c o h]
  rw [ringFaces_norm] at hf
  simp only [ringFacesCanon, List.mem_append, List.mem_flatMap, List.mem_range'_1] at hf
  rcases hf with ⟨i, hi, hf⟩ | hf
  · have hm : (i + 1) % (N * c + 1) = i + 1 := Nat.mod_eq_of_lt (by omega)
    cases o <;> simp [hm] at hf <;> subst hf <;> simp at hk <;> rcases hk with rfl | rfl | rfl <;> simp <;> omega
  · cases o <;> simp at hf <;> subst hf <;> simp at hk <;> rcases hk with rfl | rfl | rfl <;> simp <;> omega

theorem flat_ring_inRange (N c : Nat) :
    ∀ f ∈ flat_ringFaces N c, ∀ k ∈ f, k < flat_ringNVerts N c := by
  intro f hf k hk
  rw [flat_ring_nverts]
  rw [flat_ringFaces_norm] at hf
  simp only [flat_ringFacesCanon, List.mem_flatMap, List.mem_range] at hf
  obtain ⟨i, hi, hf⟩ := hf
  simp at hf; subst hf; simp at hk
  rcases hk with rfl | rfl | rfl <;> omega

/-! non-vacuity: the families are inhabited at unequal resolutions -/
example : (unit_gridFaces 3 5 true false).length = 16 ∧ unit_gridNVerts 3 5 true false = 15 := by decide
example : (torusFaces 3 4 false).length = 12 ∧ closedOriented (torusNVerts 3 4 false) (torusFaces 3 4 false) = true ∧
    euler (torusNVerts 3 4 false) (torusFaces 3 4 false) = 0 := by decide +kernel
example : closedOriented (sphere_uvNVerts 2 3) (sphere_uvFaces 2 3) = true ∧
    euler (sphere_uvNVerts 2 3) (sphere_uvFaces 2 3) = 2 := by decide +kernel
example : closedOriented (cylinderNVerts 3 true) (cylinderFaces 3 true) = true ∧
    numBorder (cylinderFaces 3 false) = 6 := by decide +kernel

end Mouette.Props.C14
