import Mouette.Generated.C12Vec
import Mouette.Generated.C12Prim
import Mouette.Lemmas.BoxSource
import Mouette.Lemmas.BoxHist
import Mouette.Props.C12R
/-!
# C12 (round 5) - `Vec.*` and the norm / dot / distance / cotan / face_basis family, as the SOURCE defines them now

`vlib/gen/c12_source.py: translate_vec` re-extracts the bodies into `Generated/C12Vec.lean` (vocabulary `Model/VecSource.lean`).
Bridges: the three norms are those of the box algebra (`normG_box`, `vecNorm_eq_normG`), `dot` is the dot product of the
vector models (`dot_bridge`), `distance` is the root of `sqDistR` (`distance_bridge`), `Vec.normalized` is the repaired
error-state model (`normalized_bridge`: numpy's error state is restored on return and on raise), `Vec.normalize` never touches
it (`normalize_frame`), `cotan` is `cotanPair` once the normalisations cancel (`cotan_bridge`, `cotan_source_reciprocal_tan`),
`face_basis` is orthogonal with its third vector along the normal (`faceBasis_orthogonal`), `Vec(a)` is a view
(`vec_new_is_view`), `.x/.y/.z` read and write components 0/1/2 (`accessor_table`).
-/
namespace Mouette.Props.C12V
open Mouette.AABB Mouette.AABB.EQ Mouette.AABB.Box Mouette.BoxS Mouette.VecS Mouette.BoxHist Mouette.Prim Mouette.Angles
open Mouette.Generated

theorem max_fin (x y : Rat) : EQ.max (fin x) (fin y) = fin (if x ≤ y then y else x) := by
  unfold EQ.max
  by_cases h : x ≤ y
  · rw [if_pos (fin_le_fin.mpr h), if_pos h]
  · rw [if_neg (fun hh => h (fin_le_fin.mp hh)), if_neg h]

theorem normL2sq_ofPt : ∀ x : List Rat, normL2sq (ofPt x) = fin (vdot x x)
  | [] => rfl
  | a :: as => by
    have ih := normL2sq_ofPt as
    simp only [ofPt, List.map_cons, normL2sq, EQ.sq, vdot, List.zipWith_cons_cons, List.foldr_cons] at ih ⊢
    rw [ih]; rfl

theorem normL1_ofPt : ∀ x : List Rat, normL1 (ofPt x) = fin (vsum (vabs x))
  | [] => rfl
  | a :: as => by
    have ih := normL1_ofPt as
    simp only [ofPt, List.map_cons, normL1, EQ.abs, vsum, vabs, List.foldr_cons] at ih ⊢
    rw [ih]; rfl

theorem normLinf_ofPt : ∀ x : List Rat, normLinf (ofPt x) = fin (vmaxl (vabs x))
  | [] => rfl
  | a :: as => by
    have ih := normLinf_ofPt as
    simp only [ofPt, List.map_cons, normLinf, EQ.abs, vmaxl, vabs, List.foldr_cons] at ih ⊢
    rw [ih]
    exact max_fin _ _

/-- **`norm(x, which)` of geometry.py is the norm of the box algebra** (l2 by its square) for the three accepted names, and
raises for any other -/
theorem normG_box (x : List Rat) (w : String) :
    (C12Vec.normG x w).map (fun v => fin v.repr) =
      if w = "l2" ∨ w = "l1" ∨ w = "linf" then some (normOf w (ofPt x)) else none := by
  unfold C12Vec.normG normOf
  by_cases h1 : w = "l1"
  · subst h1; simp +decide [normL1_ofPt, NVal.repr]
  · by_cases h2 : w = "linf"
    · subst h2; simp +decide [normLinf_ofPt, NVal.repr]
    · by_cases h3 : w = "l2"
      · subst h3; simp +decide [normL2sq_ofPt, NVal.repr]
      · have e1 : (w == "l1") = false := beq_eq_false_iff_ne.mpr h1
        have e2 : (w == "linf") = false := beq_eq_false_iff_ne.mpr h2
        have e3 : (w == "l2") = false := beq_eq_false_iff_ne.mpr h3
        simp [h1, h2, h3, e1, e2, e3, List.contains, List.elem]

/-- `Vec.norm` computes what `norm` computes (it only lacks the argument check) -/
theorem vecNorm_eq_normG (x : List Rat) (w : String) (hw : w = "l2" ∨ w = "l1" ∨ w = "linf") :
    C12Vec.vecNorm x w = C12Vec.normG x w := by
  rcases hw with rfl | rfl | rfl <;> simp +decide [C12Vec.vecNorm, C12Vec.normG]

/-- `dot` / `Vec.dot` are the dot products of the vector models -/
theorem dot_bridge (a b : V3) (c d : V2) :
    C12Vec.dotG [a.x, a.y, a.z] [b.x, b.y, b.z] = V3.dot a b ∧ C12Vec.vecDot [a.x, a.y, a.z] [b.x, b.y, b.z] = V3.dot a b ∧
    C12Vec.dotG [c.x, c.y] [d.x, d.y] = V2.dot c d := by
  refine ⟨?_, ?_, ?_⟩ <;> simp [C12Vec.dotG, C12Vec.vecDot, vdot, V3.dot, V2.dot] <;> ring

theorem vdot_vsub_self : ∀ (A B : List Rat), vdot (vsub B A) (vsub B A) = sqDistR A B
  | [], _ => by cases ‹List Rat› <;> simp [vdot, vsub, sqDistR]
  | _ :: _, [] => by simp [vdot, vsub, sqDistR]
  | a :: as, b :: bs => by
    have ih := vdot_vsub_self as bs
    simp only [vdot, vsub, List.zipWith_cons_cons, List.foldr_cons, sqDistR] at ih ⊢
    rw [ih]; ring

/-- **`distance(A, B)` is the square root of the squared distance of the models** (`sqDistR`, the quantity the k-d tree theorems
and the box distances are stated with) -/
theorem distance_bridge (A B : List Rat) : C12Vec.distanceG A B "l2" = some (NVal.sqrt (sqDistR A B)) := by
  simp +decide [C12Vec.distanceG, C12Vec.normG, vdot_vsub_self]

/-- **`Vec.normalized` leaves numpy's error state as found, on return and on raise**: its body is the repaired model -/
theorem normalized_bridge (e : Err) (v : List Rat) : C12Vec.normalized e v = normalizedRepaired e v := by
  unfold C12Vec.normalized normalizedRepaired divRaises
  cases isZero v <;> simp [Err.all]

theorem normalized_frame (e : Err) (v : List Rat) : (C12Vec.normalized e v).1 = e := by
  rw [normalized_bridge]; unfold normalizedRepaired; split <;> rfl

/-- `Vec.normalize` (in place, outside any error-state context) never changes the error state either -/
theorem normalize_frame (e : Err) (v : List Rat) : (C12Vec.normalize e v).1 = e := by
  unfold C12Vec.normalize; split <;> rfl

/-- `cotan`: once the two normalisations cancel, the body is the model's pair `(BA·BC, |BA×BC|²)` -/
theorem cotan_bridge (A B C : V3) : C12Vec.cotanPair A B C = Prim.cotanPair A B C := rfl

/-- **cotangent (source)**: `cotan(A,B,C) = c/√s²` is the reciprocal tangent of the angle `atan2(√s², c)` that the body of
`angle_3pts` builds from the same two quantities -/
theorem cotan_source_reciprocal_tan (A B C : V3) :
    C12Vec.cotanPair A B C = ((C12Prim.angle3 A B C).2, (C12Prim.angle3 A B C).1) ∧
    1 / Real.tan (atan2 (Real.sqrt ((C12Prim.angle3 A B C).1 : ℝ)) ((C12Prim.angle3 A B C).2 : ℝ)) =
      ((C12Vec.cotanPair A B C).1 : ℝ) / Real.sqrt ((C12Vec.cotanPair A B C).2 : ℝ) :=
  ⟨rfl, Mouette.Props.C12R.cotan_reciprocal_tan _ _⟩

/-- **`face_basis` is orthogonal** (orthonormal after the three normalisations): first vector along `AB`, third along the
normal `AB × AC`, second completing the frame -/
theorem faceBasis_orthogonal (pA pB pC : V3) :
    let b := C12Vec.faceBasisRaw pA pB pC
    b.1 = V3.sub pB pA ∧ b.2.2 = V3.cross (V3.sub pB pA) (V3.sub pC pA) ∧
    V3.dot b.1 b.2.1 = 0 ∧ V3.dot b.1 b.2.2 = 0 ∧ V3.dot b.2.1 b.2.2 = 0 := by
  refine ⟨rfl, rfl, ?_, ?_, ?_⟩ <;> simp only [C12Vec.faceBasisRaw, V3.dot, V3.cross, V3.sub] <;> ring

/-- … and its third vector is the axis on which the circumcentre model places its centres -/
theorem faceBasis_normal_is_circumcenter_axis (v1 v2 v3 ctr n : V3) (h : Prim.circumcenter v1 v2 v3 = some (ctr, n)) :
    n = (C12Vec.faceBasisRaw v1 v2 v3).2.2 := by
  unfold Prim.circumcenter at h
  simp only at h
  split at h
  · cases h
  · simp only [Option.some.injEq, Prod.mk.injEq] at h
    exact h.2.symm

/-- `Vec(a)` is `np.asarray(a).view(Vec)`: a VIEW of an ndarray argument (hence `AABB.__init__` must copy, `ctor_copies`) -/
theorem vec_new_is_view : C12Vec.vecNewConversions = ["np.asarray", "np.asarray"] := rfl

theorem accessor_table : C12Vec.vecAccessors = [("x", 0), ("x=", 0), ("y", 1), ("y=", 1), ("z", 2), ("z=", 2)] := rfl

example : C12Vec.normG [3, -4] "l2" = some (NVal.sqrt 25) ∧ C12Vec.normG [3, -4] "l1" = some (NVal.exact 7) ∧
    C12Vec.normG [3, -4] "linf" = some (NVal.exact 4) ∧ C12Vec.normG [3, -4] "l3" = none := by decide +kernel
example : C12Vec.normalized Err.default [0, 0] = (Err.default, false) ∧ C12Vec.normalized Err.default [0, 2] = (Err.default, true) := by
  decide +kernel

end Mouette.Props.C12V
