import Mouette.Props.C14Derived
import Mouette.Generated.C14Solids
import Mouette.Lemmas.C14DualLemmas
/-!
# C14 (round 6) — `dual_mesh`: positions and face rings

`dualVerts` / `dualFaces` are the two filling loops of `dual_mesh` (re-extracted on every run): vertex F of the dual is `dual_pts[F]`,
face V of the dual is `vertex_to_faces(V)`. What `vertex_to_faces` returns is C01's business (`ring_sorted`): here it enters as the
hypothesis `RingAt fs V (r V)` for every vertex — the ids of the faces around V, each once, in rotational order (F → G share an edge
{V, w} run V → w in F and w → V in G). Under it, for a consistently oriented primal surface with simple faces:

* `dual_positions`, `dual_face_is_ring`: dual vertex F sits at `dual_pts F`; dual face V IS the ring of V (so: the cyclic ring of the
  primal faces around V);
* `dual_inRange`, `dual_noUnused`: the dual's indices are in range and every dual vertex is used;
* `dual_closed`: every directed side (F, G) of a dual face has its opposite (G, F) in the dual face of the other end of the primal
  edge the two faces share — the dual of a closed surface is closed, its faces are glued along opposite directions;
* `dual_face_simple`: no dual face repeats a vertex.
* `dual_side_unique`, `dual_oriented` (round 7): when two primal faces share at most one edge, each directed dual side lies in ONE
  dual face — the dual is consistently oriented.
-/
namespace Mouette.Props.C14
open Mouette.Generated.C14 Mouette.Generated.C14Solids Mouette.MeshCheck Mouette.EdgeCount Mouette.C14Dual

theorem dual_loops {α : Type} (nF nV : Nat) (p : Nat → α) (r : Nat → List Nat) :
    dualVerts nF p = (List.range nF).map p ∧ dualFaces nV r = (List.range nV).map r ∧
    (dualVerts nF p).length = dualNVerts nF nV ∧ (dualFaces nV r).length = dualNFaces nF nV := by
  have e1 : dualVerts nF p = (List.range nF).map p := by simp [dualVerts, List.map_eq_flatMap]
  have e2 : dualFaces nV r = (List.range nV).map r := by simp [dualFaces, List.map_eq_flatMap]
  refine ⟨e1, e2, ?_, ?_⟩
  · rw [e1, (dual_counts nF nV).1]; simp
  · rw [e2, (dual_counts nF nV).2]; simp

/-- dual vertex F is at `dual_pts F` (the barycentre / circumcentre of face F according to `dual_modes_as_named`) -/
theorem dual_positions {α : Type} (nF : Nat) (p : Nat → α) (F : Nat) (hF : F < nF) : (dualVerts nF p)[F]? = some (p F) := by
  rw [(dual_loops nF 0 p (fun _ => [])).1]; simp [hF]

/-- dual face V is the ring `vertex_to_faces(V)` -/
theorem dual_face_is_ring (nV : Nat) (r : Nat → List Nat) (V : Nat) (hV : V < nV) : (dualFaces nV r)[V]? = some (r V) := by
  rw [(dual_loops 0 nV (fun _ => ()) r).2.1]; simp [hV]

theorem mem_dualFaces (nV : Nat) (r : Nat → List Nat) (f : List Nat) : f ∈ dualFaces nV r ↔ ∃ V, V < nV ∧ f = r V := by
  rw [(dual_loops 0 nV (fun _ => ()) r).2.1]
  simp only [List.mem_map, List.mem_range]
  constructor
  · rintro ⟨V, hV, rfl⟩; exact ⟨V, hV, rfl⟩
  · rintro ⟨V, hV, rfl⟩; exact ⟨V, hV, rfl⟩

section rings
variable (fs : List Face) (nV : Nat) (r : Nat → List Nat) (hr : ∀ V, V < nV → RingAt fs V (r V))
include hr

/-- every index of a dual face is a dual vertex (a primal face id) -/
theorem dual_inRange : ∀ f ∈ dualFaces nV r, ∀ F ∈ f, F < (dualVerts fs.length (fun F => F)).length := by
  intro f hf F hF
  obtain ⟨V, hV, rfl⟩ := (mem_dualFaces nV r f).mp hf
  rw [(dual_loops fs.length nV (fun F => F) r).1]; simp
  exact ((hr V hV).mem F).mp hF |>.1

/-- every dual vertex is used: a non-empty primal face with indices in range lies in the ring of each of its vertices -/
theorem dual_noUnused (hin : ∀ f ∈ fs, ∀ v ∈ f, v < nV) (hne : ∀ f ∈ fs, f ≠ []) :
    ∀ F, F < fs.length → ∃ f ∈ dualFaces nV r, F ∈ f := by
  intro F hF
  have g : fs.getD F [] = fs[F] := by simp [List.getD, hF]
  have hm : fs[F] ∈ fs := List.getElem_mem hF
  obtain ⟨v, hv⟩ := List.exists_mem_of_ne_nil _ (hne _ hm)
  have hvn := hin _ hm v hv
  exact ⟨r v, (mem_dualFaces nV r _).mpr ⟨v, hvn, rfl⟩, ((hr v hvn).mem F).mpr ⟨hF, g ▸ hv⟩⟩

/-- no dual face repeats a vertex -/
theorem dual_face_simple : ∀ f ∈ dualFaces nV r, f.Nodup := by
  intro f hf
  obtain ⟨V, hV, rfl⟩ := (mem_dualFaces nV r f).mp hf
  exact (hr V hV).nodup

/-- the dual of a closed oriented surface is closed: the opposite of every directed side (F, G) of the dual face of V is a side of
the dual face of w, the other end of the primal edge F and G share -/
theorem dual_closed (hnd : (dirEdges fs).Nodup) (hs : ∀ f ∈ fs, f.Nodup) (hin : ∀ f ∈ fs, ∀ v ∈ f, v < nV) :
    ∀ V, V < nV → ∀ p ∈ sides (r V), ∃ w, w < nV ∧ (p.2, p.1) ∈ sides (r w) := by
  intro V hV p hp
  obtain ⟨F, G⟩ := p
  obtain ⟨w, h1, h2⟩ := (hr V hV).step (F, G) hp
  simp only at h1 h2
  have hFG := side_mem (r V) (F, G) hp
  have hFl := (((hr V hV).mem F).mp hFG.1).1
  have hGl := (((hr V hV).mem G).mp hFG.2).1
  have gG : fs.getD G [] = fs[G] := by simp [List.getD, hGl]
  have hGm : fs[G] ∈ fs := List.getElem_mem hGl
  have hwG : w ∈ fs.getD G [] := (side_mem _ _ h2).1
  have hw : w < nV := hin _ hGm w (gG ▸ hwG)
  refine ⟨w, hw, ?_⟩
  have hGw : G ∈ r w := ((hr w hw).mem G).mpr ⟨hGl, hwG⟩
  obtain ⟨G', hG'⟩ := has_successor (r w) G hGw
  obtain ⟨x, k1, k2⟩ := (hr w hw).step (G, G') hG'
  simp only at k1 k2
  have hx : x = V := side_out_unique _ (gG ▸ hs _ hGm) w x V k1 h2
  subst hx
  have hG'l := (((hr w hw).mem G').mp (side_mem (r w) (G, G') hG').2).1
  have : G' = F := oriented_index fs hnd G' F hG'l hFl (x, w) k2 h1
  subst this
  exact hG'

/-- a directed side (F, G) of a dual face lies in the dual face of ONE vertex only, when two primal faces share at most one edge -/
theorem dual_side_unique (hsh : ShareAtMostOneEdge fs) (V V' : Nat) (hV : V < nV) (hV' : V' < nV) (p : Nat × Nat)
    (h1 : p ∈ sides (r V)) (h2 : p ∈ sides (r V')) : V = V' := by
  obtain ⟨w, a1, a2⟩ := (hr V hV).step p h1
  obtain ⟨w', b1, b2⟩ := (hr V' hV').step p h2
  have := hsh p.1 p.2 (V, w) (V', w') a1 a2 b1 b2
  exact (Prod.mk.injEq _ _ _ _ ▸ this).1

/-- hence the dual is consistently oriented: all directed sides of all dual faces are pairwise distinct -/
theorem dual_oriented (hsh : ShareAtMostOneEdge fs) : (dirEdges (dualFaces nV r)).Nodup := by
  rw [(dual_loops 0 nV (fun _ => ()) r).2.1]
  apply dirEdges_nodup_addressed _ _ List.nodup_range
  · intro V hV; exact sides_nodup _ (hr V (List.mem_range.mp hV)).nodup
  · intro V hV V' hV' e h1 h2
    exact dual_side_unique fs nV r hr hsh V V' (List.mem_range.mp hV) (List.mem_range.mp hV') e h1 h2

end rings

/-- non-vacuity: the ring `vertex_to_faces(0)` of the tetrahedron satisfies the hypothesis -/
example : RingAt tetrahedronFaces 0 [1, 2, 3] := by
  refine ⟨by decide, ?_, ?_⟩
  · intro F
    rcases (by omega : F = 0 ∨ F = 1 ∨ F = 2 ∨ F = 3 ∨ 4 ≤ F) with rfl | rfl | rfl | rfl | h
    · decide
    · decide
    · decide
    · decide
    · have : tetrahedronFaces.length = 4 := rfl
      constructor
      · intro hF; simp only [List.mem_cons, List.mem_nil_iff, or_false] at hF; omega
      · intro hF; omega
  · intro p hp
    have : p = (1, 2) ∨ p = (2, 3) ∨ p = (3, 1) := by simpa [sides] using hp
    rcases this with rfl | rfl | rfl
    · exact ⟨3, by decide, by decide⟩
    · exact ⟨1, by decide, by decide⟩
    · exact ⟨2, by decide, by decide⟩
/-- non-vacuity of `ShareAtMostOneEdge`: decided on the translated tables -/
example : ShareAtMostOneEdge tetrahedronFaces ∧ ShareAtMostOneEdge icosahedronFaces ∧ ShareAtMostOneEdge hexahedronFacesQuad :=
  ⟨shareAtMostOneEdge_of_check _ (by decide +kernel), shareAtMostOneEdge_of_check _ (by decide +kernel),
    shareAtMostOneEdge_of_check _ (by decide +kernel)⟩
example : dualFaces 2 (fun V => [V, V + 1]) = [[0, 1], [1, 2]] ∧ dualVerts 3 (fun F => 10 * F) = [0, 10, 20] := by decide

end Mouette.Props.C14
