import Mouette.Props.C20Source
/-!
# C20 (round 5) - ONE refinement from the TRANSLATED union-find to the hand-model API used by other properties

C10 (Kruskal: `Model/Trees.lean` `kruskalLoop`, `ufInit`) and C11/C12/C16 (cutting: `Model/Cutting.lean` `ufRange`, `applyUnions`,
`findAll`, `findFaces`) are stated on the hand model `UF.init / add / find / connected / union`. This file proves, once, that
the definitions extracted from `unionfind.py` on every run (`Generated/C20UF.lean`) SIMULATE that API step by step:

* `Sim g s` : the translated state `g` (with its dict `_indx`) represents the model state `s` (`IndxInv g ∧ g.toState = s`);
* `OSim o o'` : two raising results agree: both raise, or both return the same answer in `Sim`-related states;
* `sim_init`, `sim_add`, `sim_ctor`, `sim_range`, `sim_find`, `sim_connected`, `sim_union`, `sim_len`, `sim_contains`,
  `sim_nComps`;
* the folds the other properties use, mirrored on the translated definitions: `srcApplyUnions`/`sim_applyUnions`,
  `srcFindAll`/`sim_findAll`, `srcFindFaces`/`sim_findFaces`, `srcKruskalLoop`/`sim_kruskalLoop` (right-hand sides are
  DEFINITIONALLY `Cutting.applyUnions`, `Cutting.findAll`, `Cutting.findFaces`, `Trees.kruskalLoop`: `rfl` connects them).

`UF.union` is union by size with the test `<`; the source's spelling is extracted (`C20.sizCmp`, `sizCmp_spelling`: `<` or
`<=`). The simulation theorems are stated for `UF.unionC C20.sizCmp` (they hold for either spelling); every `…_lt` corollary
takes the hypothesis `hc : C20.sizCmp = ltCmp` (discharged by `rfl` as long as the source says `<`) and then speaks about
`UF.union` itself, so that a harmless switch to `<=` breaks nothing here.
-/
namespace Mouette.Props.C20Refine
open Mouette.UF Mouette.UFS Mouette.C20Src
open Mouette.Generated
open Mouette.Props.C20Source

/-- the source spells the size test of `union` either `<` (as the hand model `UF.union` does) or `<=` -/
theorem sizCmp_spelling : C20.sizCmp = ltCmp ∨ C20.sizCmp = leCmp := by
  first
    | exact Or.inl rfl
    | exact Or.inr rfl

/-- the translated state `g` represents the model state `s` -/
def Sim (g : St) (s : State) : Prop := IndxInv g ∧ g.toState = s

/-- two raising results agree -/
def OSim {α : Type} (o : Option (St × α)) (o' : Option (State × α)) : Prop :=
  match o, o' with
  | none, none => True
  | some (g, a), some (s, a') => Sim g s ∧ a = a'
  | _, _ => False

theorem sim_init : Sim C20.init UF.init := ⟨init_bridge.2, init_bridge.1⟩

theorem sim_add {g : St} {s : State} (h : Sim g s) (x : Nat) : Sim (C20.add g x) (UF.add s x) := by
  obtain ⟨i, rfl⟩ := h
  exact ⟨(addStep_bridge i x).2, (addStep_bridge i x).1⟩

theorem sim_ctor {g : St} {s : State} (h : Sim g s) (l : List Nat) : Sim (C20.ctor g l) (l.foldl UF.add s) := by
  obtain ⟨i, rfl⟩ := h
  exact ⟨(ctor_bridge l i).2, (ctor_bridge l i).1⟩

/-- `UnionFind(range(n))` is `Trees.ufInit n` / `Cutting.ufRange n` -/
theorem sim_range (n : Nat) : Sim (C20.ctor C20.init (List.range n)) ((List.range n).foldl UF.add UF.init) :=
  sim_ctor sim_init _

theorem sim_len {g : St} {s : State} (h : Sim g s) : C20.len g = s.nElts := by
  obtain ⟨_, rfl⟩ := h; rfl

theorem sim_nComps {g : St} {s : State} (h : Sim g s) : g.nComps = s.nComps := by
  obtain ⟨_, rfl⟩ := h; rfl

theorem sim_contains {g : St} {s : State} (h : Sim g s) (x : Nat) : C20.contains g x = s.mem x := by
  obtain ⟨i, rfl⟩ := h; exact contains_bridge i x

theorem sim_find {g : St} {s : State} (h : Sim g s) (x : Nat) : OSim (C20.find g x) (UF.find s x) := by
  obtain ⟨i, rfl⟩ := h
  obtain ⟨b, c⟩ := find_bridge i x
  rw [← b]
  cases hf : C20.find g x with
  | none => trivial
  | some r => obtain ⟨g', r⟩ := r; exact ⟨⟨(c g' r hf).1, rfl⟩, rfl⟩

theorem sim_connected {g : St} {s : State} (h : Sim g s) (x y : Nat) :
    OSim (C20.connected g x y) (UF.connected s x y) := by
  obtain ⟨i, rfl⟩ := h
  obtain ⟨b, c⟩ := connected_bridge i x y
  rw [← b]
  cases hf : C20.connected g x y with
  | none => trivial
  | some r => obtain ⟨g', r⟩ := r; exact ⟨⟨(c g' r hf).1, rfl⟩, rfl⟩

/-- whatever the spelling of the size test: the translated `union` never raises and is `unionC` with that test -/
theorem sim_unionC {g : St} {s : State} (h : Sim g s) (x y : Nat) :
    ∃ g', C20.union g x y = some (g', ()) ∧ Sim g' (UF.unionC C20.sizCmp s x y) := by
  obtain ⟨i, rfl⟩ := h
  obtain ⟨g', e, t, i'⟩ := union_bridge i x y
  exact ⟨g', e, i', t⟩

/-- … and, when the source spells it `<`, it is the hand model's `UF.union` -/
theorem sim_union_lt (hc : C20.sizCmp = ltCmp) {g : St} {s : State} (h : Sim g s) (x y : Nat) :
    ∃ g', C20.union g x y = some (g', ()) ∧ Sim g' (UF.union s x y) := by
  obtain ⟨g', e, h'⟩ := sim_unionC h x y
  rw [hc, unionC_lt] at h'
  exact ⟨g', e, h'⟩

/-- `union` as a state transformer (it never raises) -/
def srcUnion (g : St) (x y : Nat) : St := match C20.union g x y with | some (g', _) => g' | none => g

theorem sim_srcUnion {g : St} {s : State} (h : Sim g s) (x y : Nat) :
    Sim (srcUnion g x y) (UF.unionC C20.sizCmp s x y) := by
  obtain ⟨g', e, h'⟩ := sim_unionC h x y
  simp only [srcUnion, e]; exact h'

/-! ### the folds of the cutting model (C11/C12/C16) -/

def srcApplyUnions (g : St) (ps : List (Nat × Nat)) : St := ps.foldl (fun g p => srcUnion g p.1 p.2) g

theorem sim_applyUnions : ∀ (ps : List (Nat × Nat)) {g : St} {s : State}, Sim g s →
    Sim (srcApplyUnions g ps) (ps.foldl (fun s p => UF.unionC C20.sizCmp s p.1 p.2) s) := by
  intro ps
  induction ps with
  | nil => intro g s h; exact h
  | cons p ps ih => intro g s h; exact ih (sim_srcUnion h p.1 p.2)

/-- right-hand side = `Cutting.applyUnions s ps` (definitionally) -/
theorem sim_applyUnions_lt (hc : C20.sizCmp = ltCmp) (ps : List (Nat × Nat)) {g : St} {s : State} (h : Sim g s) :
    Sim (srcApplyUnions g ps) (ps.foldl (fun s p => UF.union s p.1 p.2) s) := by
  have := sim_applyUnions ps h
  simp only [hc, unionC_lt] at this
  exact this

/-- `[uf.find(v) for v in l]` on the translated `find` -/
def srcFindAll (g : St) : List Nat → Option (St × List Nat)
  | [] => some (g, [])
  | x :: xs => match C20.find g x with
    | none => none
    | some (g1, r) => match srcFindAll g1 xs with
      | none => none
      | some (g2, rs) => some (g2, r :: rs)

/-- the model's fold, spelled as in `Model/Cutting.lean` (`Cutting.findAll` is definitionally this function) -/
def mFindAll (s : State) : List Nat → Option (State × List Nat)
  | [] => some (s, [])
  | x :: xs => match UF.find s x with
    | none => none
    | some (s1, r) => match mFindAll s1 xs with
      | none => none
      | some (s2, rs) => some (s2, r :: rs)

theorem sim_findAll : ∀ (l : List Nat) {g : St} {s : State}, Sim g s → OSim (srcFindAll g l) (mFindAll s l) := by
  intro l
  induction l with
  | nil => intro g s h; exact ⟨h, rfl⟩
  | cons x xs ih =>
    intro g s h
    have hf := sim_find h x
    unfold srcFindAll mFindAll
    cases h1 : C20.find g x with
    | none =>
      rw [h1] at hf
      cases h2 : UF.find s x with
      | none => trivial
      | some r => rw [h2] at hf; exact hf.elim
    | some r =>
      obtain ⟨g1, r1⟩ := r
      rw [h1] at hf
      cases h2 : UF.find s x with
      | none => rw [h2] at hf; exact hf.elim
      | some r' =>
        obtain ⟨s1, r2⟩ := r'
        rw [h2] at hf
        obtain ⟨hs, hr⟩ := hf
        subst hr
        have ih' := ih hs
        simp only []
        cases h3 : srcFindAll g1 xs with
        | none =>
          rw [h3] at ih'
          cases h4 : mFindAll s1 xs with
          | none => trivial
          | some r => rw [h4] at ih'; exact ih'.elim
        | some r =>
          obtain ⟨g2, rs⟩ := r
          rw [h3] at ih'
          cases h4 : mFindAll s1 xs with
          | none => rw [h4] at ih'; exact ih'.elim
          | some r' =>
            obtain ⟨s2, rs'⟩ := r'
            rw [h4] at ih'
            obtain ⟨hs2, hrs⟩ := ih'
            subst hrs
            exact ⟨hs2, rfl⟩

def srcFindFaces (g : St) : List (List Nat) → Option (St × List (List Nat))
  | [] => some (g, [])
  | f :: fs => match srcFindAll g f with
    | none => none
    | some (g1, r) => match srcFindFaces g1 fs with
      | none => none
      | some (g2, rs) => some (g2, r :: rs)

def mFindFaces (s : State) : List (List Nat) → Option (State × List (List Nat))
  | [] => some (s, [])
  | f :: fs => match mFindAll s f with
    | none => none
    | some (s1, r) => match mFindFaces s1 fs with
      | none => none
      | some (s2, rs) => some (s2, r :: rs)

theorem sim_findFaces : ∀ (l : List (List Nat)) {g : St} {s : State}, Sim g s →
    OSim (srcFindFaces g l) (mFindFaces s l) := by
  intro l
  induction l with
  | nil => intro g s h; exact ⟨h, rfl⟩
  | cons x xs ih =>
    intro g s h
    have hf := sim_findAll x h
    unfold srcFindFaces mFindFaces
    cases h1 : srcFindAll g x with
    | none =>
      rw [h1] at hf
      cases h2 : mFindAll s x with
      | none => trivial
      | some r => rw [h2] at hf; exact hf.elim
    | some r =>
      obtain ⟨g1, r1⟩ := r
      rw [h1] at hf
      cases h2 : mFindAll s x with
      | none => rw [h2] at hf; exact hf.elim
      | some r' =>
        obtain ⟨s1, r2⟩ := r'
        rw [h2] at hf
        obtain ⟨hs, hr⟩ := hf
        subst hr
        have ih' := ih hs
        simp only []
        cases h3 : srcFindFaces g1 xs with
        | none =>
          rw [h3] at ih'
          cases h4 : mFindFaces s1 xs with
          | none => trivial
          | some r => rw [h4] at ih'; exact ih'.elim
        | some r =>
          obtain ⟨g2, rs⟩ := r
          rw [h3] at ih'
          cases h4 : mFindFaces s1 xs with
          | none => rw [h4] at ih'; exact ih'.elim
          | some r' =>
            obtain ⟨s2, rs'⟩ := r'
            rw [h4] at ih'
            obtain ⟨hs2, hrs⟩ := ih'
            subst hrs
            exact ⟨hs2, rfl⟩

/-! ### the Kruskal loop (C10) -/

/-- one step of the Kruskal loop on the translated `connected` / `union` (`key` = `Trees.keyify`) -/
def srcKStep {β : Type} (key : Nat → Nat → β) (acc : St × List β) (e : Nat × Nat × Rat) : St × List β :=
  match C20.connected acc.1 e.1 e.2.1 with
  | some (g1, true) => (g1, acc.2)
  | some (g1, false) => (srcUnion g1 e.1 e.2.1, acc.2 ++ [key e.1 e.2.1])
  | none => acc

def srcKruskalLoop {β : Type} (key : Nat → Nat → β) (es : List (Nat × Nat × Rat)) (g : St) : St × List β :=
  es.foldl (srcKStep key) (g, [])

/-- the model's step with the size test `c` -/
def mKStep {β : Type} (c : Nat → Nat → Bool) (key : Nat → Nat → β) (acc : State × List β) (e : Nat × Nat × Rat) :
    State × List β :=
  match UF.connected acc.1 e.1 e.2.1 with
  | some (s1, true) => (s1, acc.2)
  | some (s1, false) => (UF.unionC c s1 e.1 e.2.1, acc.2 ++ [key e.1 e.2.1])
  | none => acc

/-- with `<` it is the step of `Trees.kruskalLoop`, spelled as in `Model/Trees.lean` -/
theorem mKStep_lt {β : Type} (key : Nat → Nat → β) (acc : State × List β) (e : Nat × Nat × Rat) :
    mKStep ltCmp key acc e =
      (match UF.connected acc.1 e.1 e.2.1 with
       | some (s1, true) => (s1, acc.2)
       | some (s1, false) => (UF.union s1 e.1 e.2.1, acc.2 ++ [key e.1 e.2.1])
       | none => acc) := by
  simp only [mKStep, unionC_lt]

theorem sim_kStep {β : Type} (key : Nat → Nat → β) {g : St} {s : State} (h : Sim g s) (out : List β)
    (e : Nat × Nat × Rat) :
    Sim (srcKStep key (g, out) e).1 (mKStep C20.sizCmp key (s, out) e).1 ∧
      (srcKStep key (g, out) e).2 = (mKStep C20.sizCmp key (s, out) e).2 := by
  have hc := sim_connected h e.1 e.2.1
  unfold srcKStep mKStep
  simp only []
  cases h1 : C20.connected g e.1 e.2.1 with
  | none =>
    rw [h1] at hc
    cases h2 : UF.connected s e.1 e.2.1 with
    | none => exact ⟨h, rfl⟩
    | some r => rw [h2] at hc; exact hc.elim
  | some r =>
    obtain ⟨g1, b⟩ := r
    rw [h1] at hc
    cases h2 : UF.connected s e.1 e.2.1 with
    | none => rw [h2] at hc; exact hc.elim
    | some r' =>
      obtain ⟨s1, b'⟩ := r'
      rw [h2] at hc
      obtain ⟨hs, hb⟩ := hc
      subst hb
      cases b with
      | true => exact ⟨hs, rfl⟩
      | false => exact ⟨sim_srcUnion hs _ _, rfl⟩

/-- the whole Kruskal loop run on the translated union-find selects the same edges, in the same order, as the model's
loop, and ends in a `Sim`-related state -/
theorem sim_kruskalLoop {β : Type} (key : Nat → Nat → β) (es : List (Nat × Nat × Rat)) {g : St} {s : State}
    (h : Sim g s) :
    Sim (srcKruskalLoop key es g).1 (es.foldl (mKStep C20.sizCmp key) (s, [])).1 ∧
      (srcKruskalLoop key es g).2 = (es.foldl (mKStep C20.sizCmp key) (s, [])).2 := by
  have aux : ∀ (es : List (Nat × Nat × Rat)) (g : St) (s : State) (out : List β), Sim g s →
      Sim (es.foldl (srcKStep key) (g, out)).1 (es.foldl (mKStep C20.sizCmp key) (s, out)).1 ∧
        (es.foldl (srcKStep key) (g, out)).2 = (es.foldl (mKStep C20.sizCmp key) (s, out)).2 := by
    intro es
    induction es with
    | nil => intro g s out h; exact ⟨h, rfl⟩
    | cons e es ih =>
      intro g s out h
      obtain ⟨a, b⟩ := sim_kStep key h out e
      rw [List.foldl_cons, List.foldl_cons]
      have e1 : srcKStep key (g, out) e = ((srcKStep key (g, out) e).1, (mKStep C20.sizCmp key (s, out) e).2) := by
        rw [← b]
      have e2 : mKStep C20.sizCmp key (s, out) e
          = ((mKStep C20.sizCmp key (s, out) e).1, (mKStep C20.sizCmp key (s, out) e).2) := rfl
      rw [e1, e2]
      exact ih _ _ _ a
  exact aux es g s [] h

/-- the source spelling the test `<`: the loop of `Trees.kruskalLoop` (`es.foldl (mKStep ltCmp keyify) (s, [])`, see `mKStep_lt`) -/
theorem sim_kruskalLoop_lt (hc : C20.sizCmp = ltCmp) {β : Type} (key : Nat → Nat → β) (es : List (Nat × Nat × Rat))
    {g : St} {s : State} (h : Sim g s) :
    Sim (srcKruskalLoop key es g).1 (es.foldl (mKStep ltCmp key) (s, [])).1 ∧
      (srcKruskalLoop key es g).2 = (es.foldl (mKStep ltCmp key) (s, [])).2 := by
  have := sim_kruskalLoop key es h
  rw [hc] at this
  exact this

-- non-vacuity: Kruskal on a triangle with a pendant vertex, run on the TRANSLATED union-find built by `UnionFind(range(4))`
example : (srcKruskalLoop (fun a b => (a, b)) [(0, 1, 1), (1, 2, 1), (0, 2, 2), (2, 3, 5)]
      (C20.ctor C20.init (List.range 4))).2 = [(0, 1), (1, 2), (2, 3)] ∧
    (srcKruskalLoop (fun a b => (a, b)) [(0, 1, 1), (1, 2, 1), (0, 2, 2), (2, 3, 5)]
      (C20.ctor C20.init (List.range 4))).1.nComps = 1 ∧
    (srcFindAll (srcApplyUnions (C20.ctor C20.init (List.range 4)) [(0, 1), (2, 3)]) [0, 1, 2, 3]).map
      (fun r => decide (r.2.getD 0 9 = r.2.getD 1 9) && decide (r.2.getD 2 9 = r.2.getD 3 9) &&
        decide (r.2.getD 0 9 ≠ r.2.getD 2 9)) = some true := by decide

end Mouette.Props.C20Refine
