import Mouette.Lemmas.CuttingThm
import Mouette.Lemmas.CuttingPrune
import Mouette.Lemmas.CuttingNested
import Mouette.Lemmas.CuttingPruneFix
import Mouette.Lemmas.CuttingEuler
import Mouette.Lemmas.CuttingDualTree
import Mouette.Lemmas.CuttingTwins
/-!
# C16 — cutting along singularities (partial)

Theorems about the model `Mouette.Cutting` of `SingularityCutter._prune_edge_tree` and
`SingularityCutter._build_mesh_with_cuts` (the model is tied to the source by the correspondence run).

Corners are addressed "flat": corner `c` is position `c` of `F.flatten`; `vertOf F c = F.flatten[c]` is the
original vertex of the corner and `newOf o c = o.faces.flatten[c]` its vertex in the cut mesh. Because the output
face list has the shape of the input (`faces_in_bijection`), `newOf o c` is the entry `F'[i][j]` of the output face
for the same `(i,j)` for which `F[i][j] = vertOf F c` (`faces_nested` restates the main clauses face by face).

Round 2 adds: termination and fixpoint of the pruning (`prune_queue_empty`, `prune_fixpoint`), and the counting part of
the Euler characteristic (`vertex_count`, `twin_sides_shared`, `edge_count_partial`, `euler_formula_partial`,
`euler_characteristic_partial`, `euler_iff_vertex_count`, `euler_formula_of_report`).

NOT proved (tree–cotree theorem; checked on every run by the oracle with `surface_stats`): the cut mesh is ONE
component with ONE border loop and Euler characteristic 1; every singular vertex has a copy on that border; the cut
graph is connected. For χ: that a spanning tree of uncut dual edges makes all `2·|uncut|` corner unions effective
(V' = F + 2) is proved in round 3 (`all_unions_effective_of_dual_forest`); what remains a hypothesis is that sides of the
cut mesh coincide only when glued (false for the one-edge slit, an open finding), decided per run by the driver; round 4: the
other two edge hypotheses (`hR`, `hdisj`: no corner starts two glued sides) are PROVED from the uncut edges being distinct
undirected edges (`no_corner_starts_two_glued_sides`, `euler_characteristic_of_dual_tree_partial2`). The stages before pruning (shortest paths,
Kruskal on paths, dual Dijkstra) are not modelled.
-/
namespace Mouette.Props.C16
open Mouette Mouette.Cutting Mouette.UF

/-! ## faces in bijection (P0) -/

/-- The cut mesh has as many faces as the input, in the same order, each with the same number of corners —
for every input on which `_build_mesh_with_cuts` returns (no hypothesis on `F`). -/
theorem faces_in_bijection {nV : Nat} {F : List Face} {uncut : List (Nat × Nat)} {o : Out}
    (h : build nV F uncut = .ok o) :
    o.faces.length = F.length ∧ o.faces.map List.length = F.map List.length := by
  have hs := build_shape h
  refine ⟨?_, hs⟩
  have := congrArg List.length hs
  simpa using this

/-- On triangle lists whose union pairs exist the build never fails in the `find`/`imap` stages: the only
possible error is the `TypeError` of a missing half edge. -/
theorem build_total_of_pairs {nV : Nat} {F : List Face} {uncut : List (Nat × Nat)} (tri : AllTri F)
    (o : Out) (h : build nV F uncut = .ok o) :
    ∃ ps, unionPairs (halfEdges F) (cornerFaces F) uncut = some ps := by
  obtain ⟨ps, s1, fl⟩ := build_flat tri h
  exact ⟨ps, fl.hps⟩

/-! ## ref_vertex (P0) -/

/-- `ref_vertex (F'[i][j]) = F[i][j]`: the map from cut vertices to original vertices is defined on every
corner's vertex and consistent face by face. -/
theorem ref_vertex_face_by_face {nV : Nat} {F : List Face} {uncut : List (Nat × Nat)} {o : Out}
    (tri : AllTri F) (valid : ∀ c, c < F.flatten.length → vertOf F c < nV)
    (h : build nV F uncut = .ok o) :
    ∀ c, c < F.flatten.length → lastWrite o.ref (newOf o c) = some (vertOf F c) := by
  obtain ⟨ps, s1, fl⟩ := build_flat tri h
  intro c hc
  have hc3 : c < 3 * F.length := by rw [← fl.len]; exact hc
  have hcv : c < (cornerVerts F).length := hc
  apply lastWrite_of_all
  · refine ⟨(newOf o c, vertOf F c), ?_, rfl⟩
    rw [fl.ref, fl.newOf_eq c hc3]
    apply List.mem_map.mpr
    refine ⟨c, ?_, rfl⟩
    rw [fl.cs7, List.mem_flatMap]
    exact ⟨vertOf F c, by simpa using valid c hc, mem_cornersOf.mpr ⟨hcv, rfl⟩⟩
  · intro p hp hk
    rw [fl.ref] at hp
    obtain ⟨c', hc', rfl⟩ := List.mem_map.mp hp
    simp only [] at hk ⊢
    rw [fl.cs7, List.mem_flatMap] at hc'
    obtain ⟨v, _, hcv'⟩ := hc'
    have hc'3 : c' < 3 * F.length := by
      have := (mem_cornersOf.mp hcv').1
      rw [← fl.len]; exact this
    rw [← fl.newOf_eq c' hc'3] at hk
    have hroot := fl.newOf_inj hc'3 hc3 hk
    have l1 := fl.root_label fl.pairs_vert hc'3
    have l2 := fl.root_label fl.pairs_vert hc3
    rw [← l1, ← l2, hroot]

/-- `ref_vertex` is onto the original vertices used by faces, and its keys are vertices of the cut mesh. -/
theorem ref_vertex_onto {nV : Nat} {F : List Face} {uncut : List (Nat × Nat)} {o : Out}
    (tri : AllTri F) (valid : ∀ c, c < F.flatten.length → vertOf F c < nV)
    (h : build nV F uncut = .ok o) :
    ∀ c, c < F.flatten.length → ∃ k, k < o.pos.length ∧ lastWrite o.ref k = some (vertOf F c) := by
  obtain ⟨ps, s1, fl⟩ := build_flat tri h
  intro c hc
  have hc3 : c < 3 * F.length := by rw [← fl.len]; exact hc
  refine ⟨newOf o c, ?_, ref_vertex_face_by_face tri valid h c hc⟩
  rw [fl.pos, orderVerts_length, fl.newOf_eq c hc3]
  exact wfmap_lt fl.wf (fl.look_some c hc3)

/-- every vertex of the cut mesh is a corner of some output face (no isolated duplicates are kept) -/
theorem output_vertices_all_used {nV : Nat} {F : List Face} {uncut : List (Nat × Nat)} {o : Out}
    (tri : AllTri F) (h : build nV F uncut = .ok o) :
    ∀ k, k < o.pos.length → ∃ c, c < F.flatten.length ∧ newOf o c = k := by
  obtain ⟨ps, s1, fl⟩ := build_flat tri h
  intro k hk
  rw [fl.pos, orderVerts_length] at hk
  have hmem : k ∈ (buildImap o.roots3).map Prod.snd := by rw [fl.wf.1]; simpa using hk
  obtain ⟨e, he, hek⟩ := List.mem_map.mp hmem
  have hkey : e.1 ∈ o.roots3.flatten := by
    rcases foldl_imapStep_keys o.roots3.flatten [] e he with h0 | h0
    · simp at h0
    · exact h0
  rw [fl.roots3] at hkey
  obtain ⟨c, hc, hce⟩ := List.mem_map.mp hkey
  have hc3 : c < 3 * F.length := by simpa using hc
  refine ⟨c, by rw [fl.len]; exact hc3, ?_⟩
  rw [fl.newOf_eq c hc3]
  have hl : (buildImap o.roots3).lookup e.1 = some k :=
    lookup_of_mem_nodup _ fl.wf.2 (by rw [← hek]; exact he)
  unfold look
  rw [hce, hl]; rfl

/-! ## corner positions (P0) -/

/-- The vertex of the cut mesh used by corner `c` carries the position of the original vertex of that corner
(positions are represented by the id of the input vertex they are copied from). -/
theorem corner_positions_preserved {nV : Nat} {F : List Face} {uncut : List (Nat × Nat)} {o : Out}
    (tri : AllTri F) (h : build nV F uncut = .ok o) :
    ∀ c, c < F.flatten.length → o.pos[newOf o c]? = some (some (vertOf F c)) := by
  obtain ⟨ps, s1, fl⟩ := build_flat tri h
  intro c hc
  have hc3 : c < 3 * F.length := by rw [← fl.len]; exact hc
  have hm := mem_range_elts fl.elts hc3
  have hlt : classOf s1 c < (cornerVerts F).length := by
    have := classOf_lt fl.inv hm
    rw [fl.elts] at this
    have hl : (cornerVerts F).length = 3 * F.length := fl.len
    rw [hl]; simpa using this
  rw [fl.pos, fl.newOf_eq c hc3, orderVerts_spec fl.wf (fl.look_some c hc3) hlt]
  have := fl.root_label fl.pairs_vert hc3
  unfold vertOf at this
  rw [this]; rfl

/-! ## the same, face by face (nested form of the statement) -/

/-- `ref_vertex (F'[i][j]) = F[i][j]` and `position (F'[i][j]) = position (F[i][j])` for every face `i` and corner
`j`: the output face list and the input face list are related entry by entry. -/
theorem faces_nested {nV : Nat} {F : List Face} {uncut : List (Nat × Nat)} {o : Out}
    (tri : AllTri F) (valid : ∀ c, c < F.flatten.length → vertOf F c < nV)
    (h : build nV F uncut = .ok o) :
    List.Forall₂ (List.Forall₂ (fun k v => lastWrite o.ref k = some v ∧ o.pos[k]? = some (some v))) o.faces F := by
  apply forall2_nested_of_flat o.faces F (faces_in_bijection h).2
  intro c hc
  exact ⟨ref_vertex_face_by_face tri valid h c hc, corner_positions_preserved tri h c hc⟩

/-! ## only the cut edges are opened (P1) -/

/-- Soundness: two corners receive the same vertex in the cut mesh only if they are linked by a chain of unions
across uncut interior edges — stated for EVERY labelling `lab` that is constant on each union pair (take for `lab`
the class of the corner in the equivalence closure of the pairs). -/
theorem glued_only_if_linked {α : Type} {nV : Nat} {F : List Face} {uncut : List (Nat × Nat)} {o : Out}
    (tri : AllTri F) (h : build nV F uncut = .ok o) (lab : Nat → α)
    (hlab : ∀ ps, unionPairs (halfEdges F) (cornerFaces F) uncut = some ps → ∀ p, p ∈ ps → lab p.1 = lab p.2) :
    ∀ c c', c < F.flatten.length → c' < F.flatten.length → newOf o c = newOf o c' → lab c = lab c' := by
  obtain ⟨ps, s1, fl⟩ := build_flat tri h
  intro c c' hc hc' hn
  have hc3 : c < 3 * F.length := by rw [← fl.len]; exact hc
  have hc'3 : c' < 3 * F.length := by rw [← fl.len]; exact hc'
  have ok : PairsOK (3 * F.length) lab ps := by
    intro p hp
    have := fl.pairs_vert p hp
    exact ⟨this.1, this.2.1, hlab ps fl.hps p hp⟩
  have hroot := fl.newOf_inj hc3 hc'3 hn
  rw [← fl.root_label ok hc3, ← fl.root_label ok hc'3, hroot]

/-- Corollary: corners glued together belong to one original vertex. -/
theorem glued_same_vertex {nV : Nat} {F : List Face} {uncut : List (Nat × Nat)} {o : Out}
    (tri : AllTri F) (h : build nV F uncut = .ok o) :
    ∀ c c', c < F.flatten.length → c' < F.flatten.length → newOf o c = newOf o c' → vertOf F c = vertOf F c' := by
  apply glued_only_if_linked tri h (vertOf F)
  intro ps hps p hp
  exact (unionPairs_spec uncut ps hps p hp).2.2

/-- Completeness: across every uncut interior edge the two faces share both end vertices in the cut mesh
(the pairs are exactly the `(A-corner, A-corner)`, `(B-corner, B-corner)` of the two faces of the edge). -/
theorem uncut_edges_glued {nV : Nat} {F : List Face} {uncut : List (Nat × Nat)} {o : Out}
    (tri : AllTri F) (h : build nV F uncut = .ok o) :
    ∀ ps, unionPairs (halfEdges F) (cornerFaces F) uncut = some ps →
      ∀ p, p ∈ ps → newOf o p.1 = newOf o p.2 := by
  obtain ⟨ps, s1, fl⟩ := build_flat tri h
  intro ps' hps' p hp
  rw [fl.hps] at hps'
  injection hps' with hps'
  subst hps'
  have hb : ∀ q, q ∈ ps → q.1 < 3 * F.length ∧ q.2 < 3 * F.length := by
    intro q hq; have := fl.pairs_vert q hq; exact ⟨this.1, this.2.1⟩
  obtain ⟨inv0, he0, _⟩ := ufRange_spec (fun _ => ()) (3 * F.length)
  have hj := (applyUnions_joins (3 * F.length) ps _ inv0 he0 hb).1 p hp
  rw [← fl.hs1] at hj
  rw [fl.newOf_eq p.1 (hb p hp).1, fl.newOf_eq p.2 (hb p hp).2, hj]

/-- The second round of `find` (for `ref_vertex`) returns the same roots as the first one: the flag `S` the driver
reports on every case is always 1. -/
theorem stable_roots {nV : Nat} {F : List Face} {uncut : List (Nat × Nat)} {o : Out}
    (tri : AllTri F) (h : build nV F uncut = .ok o) : stableRoots o = true := by
  obtain ⟨ps, s1, fl⟩ := build_flat tri h
  unfold stableRoots
  rw [fl.roots7, all_zip_map, List.all_eq_true]
  intro c hc
  rw [fl.cs7, List.mem_flatMap] at hc
  obtain ⟨v, _, hcv⟩ := hc
  have hc3 : c < 3 * F.length := by
    have := (mem_cornersOf.mp hcv).1
    rw [← fl.len]; exact this
  rw [fl.roots3]
  show ((List.map (classOf s1) (List.range (3 * F.length))).getD c (classOf s1 c + 1) == classOf s1 c) = true
  rw [List.getD_eq_getElem?_getD, List.getElem?_map, List.getElem?_range hc3]
  simp

/-! ## Euler characteristic of the cut mesh (P1, partial) -/

/-- Vertex count: the number of vertices of the cut mesh is the number of union-find classes of corners, i.e.
`3F` minus the number of unions (two per uncut edge) that joined two distinct classes. -/
theorem vertex_count {nV : Nat} {F : List Face} {uncut : List (Nat × Nat)} {o : Out}
    (tri : AllTri F) (h : build nV F uncut = .ok o) :
    ∃ ps, unionPairs (halfEdges F) (cornerFaces F) uncut = some ps ∧ ps.length = 2 * uncut.length ∧
      o.pos.length + effCount (ufRange (3 * F.length)) ps = 3 * F.length := by
  obtain ⟨ps, s1, fl⟩ := build_flat tri h
  refine ⟨ps, fl.hps, unionPairs_length _ _ uncut ps fl.hps, ?_⟩
  obtain ⟨inv0, he0, _⟩ := ufRange_spec (fun _ => ()) (3 * F.length)
  have hb : ∀ q, q ∈ ps → q.1 < 3 * F.length ∧ q.2 < 3 * F.length := by
    intro q hq; have := fl.pairs_vert q hq; exact ⟨this.1, this.2.1⟩
  have := nComps_applyUnions (3 * F.length) ps _ inv0 he0 hb
  rw [← fl.hs1, ufRange_nComps] at this
  rw [fl.vertex_count]; exact this

/-- Glued sides are shared: the two sides of every uncut interior edge (they start at the corners `t.1`, `t.2`)
are one undirected edge of the cut mesh. There is one such pair per uncut edge. -/
theorem twin_sides_shared {nV : Nat} {F : List Face} {uncut : List (Nat × Nat)} {o : Out}
    (tri : AllTri F) (h : build nV F uncut = .ok o) :
    ∀ ps, unionPairs (halfEdges F) (cornerFaces F) uncut = some ps →
      (twins ps).length = uncut.length ∧
      ∀ t, t ∈ twins ps → t.1 < 3 * F.length ∧ t.2 < 3 * F.length ∧ sideKey o t.1 = sideKey o t.2 := by
  obtain ⟨ps0, s1, fl⟩ := build_flat tri h
  intro ps hps
  obtain ⟨hl, hall⟩ := twins_spec tri uncut ps hps
  refine ⟨hl, ?_⟩
  intro t ht
  obtain ⟨p, q, hp, hq, rfl, n1, n2⟩ := hall t ht
  have hps0 : ps0 = ps := by have := fl.hps; rw [hps] at this; exact (Option.some.inj this).symm
  subst hps0
  have g1 := uncut_edges_glued tri h ps0 hps p hp
  have g2 := uncut_edges_glued tri h ps0 hps q hq
  refine ⟨(fl.pairs_vert p hp).1, (fl.pairs_vert q hq).2.1, ?_⟩
  unfold sideKey
  simp only []
  rw [n1, n2, g1, ← g2, ukey_swap]

/-- Edge count (PARTIAL: under explicit hypotheses on the twin list and on the output): if no corner starts two
glued sides (`hR`, `hdisj`: the uncut edges are pairwise distinct interior edges of a manifold input) and the ONLY
coincidences between sides of the cut mesh are those twins (`sep`: every other side is a border side, met once),
then the cut mesh has exactly `3F − |uncut|` edges.
The hypothesis `sep` is needed: it fails for the one-edge slit (known finding `C16/slit-of-one-edge/closed`). -/
theorem edge_count_partial {nV : Nat} {F : List Face} {uncut : List (Nat × Nat)} {o : Out}
    (tri : AllTri F) (h : build nV F uncut = .ok o) (ps : List (Nat × Nat))
    (hps : unionPairs (halfEdges F) (cornerFaces F) uncut = some ps)
    (hR : ((twins ps).map Prod.snd).Nodup) (hdisj : ∀ t, t ∈ twins ps → t.1 ∉ (twins ps).map Prod.snd)
    (sep : ∀ a b, a < 3 * F.length → b < 3 * F.length → sideKey o a = sideKey o b →
      a = b ∨ (a, b) ∈ twins ps ∨ (b, a) ∈ twins ps) :
    edgeCount o F.length + uncut.length = 3 * F.length := by
  obtain ⟨hl, hall⟩ := twin_sides_shared tri h ps hps
  have := card_image_twins (3 * F.length) (sideKey o) (twins ps)
    (fun t ht => ⟨(hall t ht).1, (hall t ht).2.1⟩) (fun t ht => (hall t ht).2.2) hR hdisj sep
  rw [hl] at this
  exact this

/-
FULL STATEMENT (not proved):
  theorem euler_characteristic_of_dual_tree : AllTri F → build nV F uncut = .ok o → F manifold →
      (the uncut interior edges are pairwise distinct and, as dual edges, form a spanning tree of the faces:
       |uncut| = |F| − 1 and the union-find over faces across them has one class) →
      (o.pos.length : Int) − edgeCount o F.length + F.length = 1
What is proved below replaces "spanning tree of the faces + manifold" by its three consequences that are used:
  (all_effective) every one of the 2·|uncut| corner unions joins two distinct classes — this is the vertex-count
                  statement `V' = 3F − 2|uncut| = F + 2`; ROUND 3: now proved from the dual forest
                  (`all_unions_effective_of_dual_forest`, `euler_characteristic_of_dual_tree_partial`);
  (hR, hdisj)     no corner starts two glued sides (distinct interior edges of a manifold input);
  (sep)           sides of the cut mesh coincide only when glued.
-/
/-- χ(cut mesh) = V' − E' + F = 1 when |uncut| = F − 1 — PARTIAL, see the comment above for the full statement and
for what exactly the three hypotheses replace. -/
theorem euler_characteristic_partial {nV : Nat} {F : List Face} {uncut : List (Nat × Nat)} {o : Out}
    (tri : AllTri F) (h : build nV F uncut = .ok o) (ps : List (Nat × Nat))
    (hps : unionPairs (halfEdges F) (cornerFaces F) uncut = some ps)
    (tree_size : uncut.length + 1 = F.length)
    (all_effective : effCount (ufRange (3 * F.length)) ps = ps.length)
    (hR : ((twins ps).map Prod.snd).Nodup) (hdisj : ∀ t, t ∈ twins ps → t.1 ∉ (twins ps).map Prod.snd)
    (sep : ∀ a b, a < 3 * F.length → b < 3 * F.length → sideKey o a = sideKey o b →
      a = b ∨ (a, b) ∈ twins ps ∨ (b, a) ∈ twins ps) :
    (o.pos.length : Int) - (edgeCount o F.length : Int) + (F.length : Int) = 1 := by
  obtain ⟨ps', hps', hlen, hv⟩ := vertex_count tri h
  have : ps' = ps := by rw [hps] at hps'; exact (Option.some.inj hps').symm
  subst this
  have he := edge_count_partial tri h ps' hps hR hdisj sep
  rw [all_effective, hlen] at hv
  omega

/-- General form (also covers the real runs, where pruned leaves are "zipped" back and `uncut` is larger than a
spanning tree): χ = F + |uncut| − (number of effective corner unions), under the same edge hypotheses. -/
theorem euler_formula_partial {nV : Nat} {F : List Face} {uncut : List (Nat × Nat)} {o : Out}
    (tri : AllTri F) (h : build nV F uncut = .ok o) (ps : List (Nat × Nat))
    (hps : unionPairs (halfEdges F) (cornerFaces F) uncut = some ps)
    (hR : ((twins ps).map Prod.snd).Nodup) (hdisj : ∀ t, t ∈ twins ps → t.1 ∉ (twins ps).map Prod.snd)
    (sep : ∀ a b, a < 3 * F.length → b < 3 * F.length → sideKey o a = sideKey o b →
      a = b ∨ (a, b) ∈ twins ps ∨ (b, a) ∈ twins ps) :
    (o.pos.length : Int) - (edgeCount o F.length : Int) + (F.length : Int)
      = (F.length : Int) + (uncut.length : Int) - (effCount (ufRange (3 * F.length)) ps : Int) := by
  obtain ⟨ps', hps', hlen, hv⟩ := vertex_count tri h
  have : ps' = ps := by rw [hps] at hps'; exact (Option.some.inj hps').symm
  subst this
  have he := edge_count_partial tri h ps' hps hR hdisj sep
  omega

/-- The same, from what the driver reports on every case (`eulerReport`: V', effective unions, |uncut| and the Boolean
`edgeHyp` deciding the three edge hypotheses): when the flag is 1 the Euler characteristic of the model's output is
`F + |uncut| − effective` — the harness compares this number with the χ it measures on the implementation's mesh. -/
theorem euler_formula_of_report {nV : Nat} {F : List Face} {uncut : List (Nat × Nat)} {o : Out}
    (tri : AllTri F) (h : build nV F uncut = .ok o) {V eff u : Nat}
    (hrep : eulerReport F uncut o = some (V, eff, u, true)) :
    V = o.pos.length ∧ u = uncut.length ∧
    (V : Int) - (edgeCount o F.length : Int) + (F.length : Int) = (F.length : Int) + (u : Int) - (eff : Int) := by
  unfold eulerReport at hrep
  split at hrep
  · cases hrep
  · rename_i ps hps
    simp only [Option.some.injEq, Prod.mk.injEq] at hrep
    obtain ⟨hV, heff, hu, hyp⟩ := hrep
    obtain ⟨hR, hdisj, sep⟩ := edgeHyp_sound hyp
    have := euler_formula_partial tri h ps hps hR hdisj sep
    subst hV; subst heff; subst hu
    exact ⟨rfl, rfl, this⟩

/-- Round 3 — the step that was missing: along a DUAL FOREST every corner union is effective. If the uncut edges
(`a ≠ b` for each) are processed in the order of the code and each one joins two different classes of a union-find over
the faces (`effCount (ufRange F) (facePairs es) = |uncut|`), then all `2·|uncut|` unions of corners performed by
`_build_mesh_with_cuts` join two distinct classes. -/
theorem all_unions_effective_of_dual_forest {F : List Face} {uncut : List (Nat × Nat)} (tri : AllTri F)
    (ps : List (Nat × Nat)) (hps : unionPairs (halfEdges F) (cornerFaces F) uncut = some ps)
    (hne : ∀ ab, ab ∈ uncut → ab.1 ≠ ab.2) :
    ∃ es, ps = pairsOfEdges es ∧ es.length = uncut.length ∧
      (∀ p, p ∈ facePairs es → p.1 < F.length ∧ p.2 < F.length) ∧
      (effCount (ufRange F.length) (facePairs es) = es.length →
        effCount (ufRange (3 * F.length)) ps = ps.length) := by
  obtain ⟨es, e1, e2, e3⟩ := unionPairs_edges tri uncut ps hps hne
  refine ⟨es, e1, e2, ?_, ?_⟩
  · intro p hp
    clear e1 e2
    induction es with
    | nil => simp [facePairs] at hp
    | cons e l ih =>
      simp only [facePairs, List.mem_cons] at hp
      rcases hp with hp | hp
      · subst hp; exact ⟨(e3 e List.mem_cons_self).g1, (e3 e List.mem_cons_self).g2⟩
      · exact ih (fun x hx => e3 x (List.mem_cons_of_mem _ hx)) hp
  · intro hdual
    obtain ⟨inv0, he0, r0⟩ := ufRange_spec (vertOf F) (3 * F.length)
    obtain ⟨invt, het, _⟩ := ufRange_spec (fun _ => ()) F.length
    have := effective_of_dual_forest (vertOf F) (3 * F.length) F.length (Nat.le_refl _) es _ _ e3 inv0 he0 r0 invt het
      (faceCompat_init _ _) hdual
    have hl := unionPairs_length _ _ uncut ps hps
    rw [e1] at hl ⊢
    rw [this, hl, e2]

/-- χ(cut mesh) = 1 for a dual SPANNING TREE (`|uncut| = F − 1`, the union-find over the faces across the uncut edges
ends with one class). Still `_partial`: the three edge hypotheses `hR`, `hdisj`, `sep` (sides of the cut mesh coincide
only when glued) remain; the vertex-count hypothesis `all_effective` of `euler_characteristic_partial` is now PROVED. -/
theorem euler_characteristic_of_dual_tree_partial {nV : Nat} {F : List Face} {uncut : List (Nat × Nat)} {o : Out}
    (tri : AllTri F) (h : build nV F uncut = .ok o) (ps : List (Nat × Nat))
    (hps : unionPairs (halfEdges F) (cornerFaces F) uncut = some ps)
    (hne : ∀ ab, ab ∈ uncut → ab.1 ≠ ab.2)
    (tree_size : uncut.length + 1 = F.length)
    (one_class : ∀ es, ps = pairsOfEdges es → (applyUnions (ufRange F.length) (facePairs es)).nComps = 1)
    (hR : ((twins ps).map Prod.snd).Nodup) (hdisj : ∀ t, t ∈ twins ps → t.1 ∉ (twins ps).map Prod.snd)
    (sep : ∀ a b, a < 3 * F.length → b < 3 * F.length → sideKey o a = sideKey o b →
      a = b ∨ (a, b) ∈ twins ps ∨ (b, a) ∈ twins ps) :
    (o.pos.length : Int) - (edgeCount o F.length : Int) + (F.length : Int) = 1 := by
  obtain ⟨es, e1, e2, hb, himp⟩ := all_unions_effective_of_dual_forest tri ps hps hne
  have hfl : (facePairs es).length + 1 = F.length := by rw [facePairs_length, e2]; exact tree_size
  have hall := all_effective_of_one_class F.length (facePairs es) hb hfl (one_class es e1)
  rw [facePairs_length] at hall
  exact euler_characteristic_partial tri h ps hps tree_size (himp hall) hR hdisj sep

/-- Reduction of χ = 1 to the vertex count alone: with the edge count in hand, χ = 1 is EQUIVALENT to
`V' = F + 2`, i.e. to all corner unions being effective. -/
theorem euler_iff_vertex_count {nV : Nat} {F : List Face} {uncut : List (Nat × Nat)} {o : Out}
    (tri : AllTri F) (h : build nV F uncut = .ok o) (ps : List (Nat × Nat))
    (hps : unionPairs (halfEdges F) (cornerFaces F) uncut = some ps)
    (tree_size : uncut.length + 1 = F.length)
    (hR : ((twins ps).map Prod.snd).Nodup) (hdisj : ∀ t, t ∈ twins ps → t.1 ∉ (twins ps).map Prod.snd)
    (sep : ∀ a b, a < 3 * F.length → b < 3 * F.length → sideKey o a = sideKey o b →
      a = b ∨ (a, b) ∈ twins ps ∨ (b, a) ∈ twins ps) :
    ((o.pos.length : Int) - (edgeCount o F.length : Int) + (F.length : Int) = 1) ↔
      effCount (ufRange (3 * F.length)) ps = ps.length := by
  obtain ⟨ps', hps', hlen, hv⟩ := vertex_count tri h
  have : ps' = ps := by rw [hps] at hps'; exact (Option.some.inj hps').symm
  subst this
  have he := edge_count_partial tri h ps' hps hR hdisj sep
  have hle := effCount_le (ufRange (3 * F.length)) ps'
  constructor
  · intro hchi; omega
  · intro hall; rw [hall, hlen] at hv; omega

/-! ## round 4: the hypotheses `hR`, `hdisj` are discharged -/

/-- No corner starts two glued sides, as soon as the uncut pairs are pairwise distinct and none is the reverse of another
(distinct undirected non-loop edges — what `mesh.edges` restricted to the uncut interior edges is): the hypotheses `hR` and
`hdisj` of `edge_count_partial` / `euler_characteristic_*_partial` are theorems. -/
theorem no_corner_starts_two_glued_sides {F : List Face} (tri : AllTri F) (uncut ps : List (Nat × Nat))
    (hps : unionPairs (halfEdges F) (cornerFaces F) uncut = some ps) (nd : uncut.Nodup)
    (norev : ∀ x, x ∈ uncut → ∀ y, y ∈ uncut → x ≠ (y.2, y.1)) :
    ((twins ps).map Prod.snd).Nodup ∧ ∀ t, t ∈ twins ps → t.1 ∉ (twins ps).map Prod.snd :=
  edge_hyps_of_distinct_edges tri uncut ps hps nd norev

/-- χ(cut mesh) = 1 for a dual SPANNING TREE of distinct uncut edges. Still `_partial`, but only ONE hypothesis about the
output is left: `sep` (sides of the cut mesh coincide only when glued — false for the one-edge slit, an open finding).
FULL STATEMENT (not proved): the same without `sep`, for a manifold input whose cut graph is not a single edge. -/
theorem euler_characteristic_of_dual_tree_partial2 {nV : Nat} {F : List Face} {uncut : List (Nat × Nat)} {o : Out}
    (tri : AllTri F) (h : build nV F uncut = .ok o) (ps : List (Nat × Nat))
    (hps : unionPairs (halfEdges F) (cornerFaces F) uncut = some ps)
    (nd : uncut.Nodup) (norev : ∀ x, x ∈ uncut → ∀ y, y ∈ uncut → x ≠ (y.2, y.1))
    (tree_size : uncut.length + 1 = F.length)
    (one_class : ∀ es, ps = pairsOfEdges es → (applyUnions (ufRange F.length) (facePairs es)).nComps = 1)
    (sep : ∀ a b, a < 3 * F.length → b < 3 * F.length → sideKey o a = sideKey o b →
      a = b ∨ (a, b) ∈ twins ps ∨ (b, a) ∈ twins ps) :
    (o.pos.length : Int) - (edgeCount o F.length : Int) + (F.length : Int) = 1 := by
  obtain ⟨hR, hdisj⟩ := no_corner_starts_two_glued_sides tri uncut ps hps nd norev
  have hne : ∀ ab, ab ∈ uncut → ab.1 ≠ ab.2 := by
    intro ab hab heq
    apply norev ab hab ab hab
    cases ab with
    | mk a b => simp only [] at heq; subst heq; rfl
  exact euler_characteristic_of_dual_tree_partial tri h ps hps hne tree_size one_class hR hdisj sep

/-- the general Euler formula with `hR`, `hdisj` discharged: χ = F + |uncut| − (effective corner unions) -/
theorem euler_formula_partial2 {nV : Nat} {F : List Face} {uncut : List (Nat × Nat)} {o : Out}
    (tri : AllTri F) (h : build nV F uncut = .ok o) (ps : List (Nat × Nat))
    (hps : unionPairs (halfEdges F) (cornerFaces F) uncut = some ps)
    (nd : uncut.Nodup) (norev : ∀ x, x ∈ uncut → ∀ y, y ∈ uncut → x ≠ (y.2, y.1))
    (sep : ∀ a b, a < 3 * F.length → b < 3 * F.length → sideKey o a = sideKey o b →
      a = b ∨ (a, b) ∈ twins ps ∨ (b, a) ∈ twins ps) :
    (o.pos.length : Int) - (edgeCount o F.length : Int) + (F.length : Int)
      = (F.length : Int) + (uncut.length : Int) - (effCount (ufRange (3 * F.length)) ps : Int) := by
  obtain ⟨hR, hdisj⟩ := no_corner_starts_two_glued_sides tri uncut ps hps nd norev
  exact euler_formula_partial tri h ps hps hR hdisj sep

example : ([(0, 2)] : List (Nat × Nat)).Nodup ∧ ∀ x, x ∈ [((0 : Nat), (2 : Nat))] → ∀ y, y ∈ [((0 : Nat), (2 : Nat))] → x ≠ (y.2, y.1) := by
  refine ⟨by decide, ?_⟩
  intro x hx y hy
  simp at hx hy; subst hx; subst hy; decide

/-! ## pruning (P1) -/

/-- Pruning never removes an edge of a sub-graph `K` of the cut graph all of whose leaves are singular:
paths between two singular vertices, cycles (homology loops) and border loops survive. -/
theorem prune_keeps_singular_core (nV : Nat) (E : List (Nat × Nat)) (cut sing K : List Nat)
    (cc : CoreClosed E sing K) (hK : ∀ e, e ∈ K → e ∈ cut) :
    ∀ e, e ∈ K → e ∈ (prune nV E cut sing).1 := by
  have inv0 : PInv E sing K (cut, pruneInit nV E cut sing) := ⟨hK, pruneInit_ok nV E cut sing⟩
  exact (pruneLoop_inv cc _ _ inv0).1

/-- Pruning only removes edges. -/
theorem prune_subset (nV : Nat) (E : List (Nat × Nat)) (cut sing : List Nat) :
    ∀ e, e ∈ (prune nV E cut sing).1 → e ∈ cut :=
  fun _ h => pruneLoop_sub _ _ h

/-- `cut graph ⊇ border` survives pruning: a set of edges in which every vertex has no or at least two edges
(such as the border loops) is kept whatever the singularities are. -/
theorem prune_keeps_loops (nV : Nat) (E : List (Nat × Nat)) (cut sing K : List Nat)
    (loops : ∀ e, e ∈ K → ∀ A, (other E e A).isSome = true →
      ∃ e', e' ∈ K ∧ e' ≠ e ∧ (other E e' A).isSome = true)
    (hK : ∀ e, e ∈ K → e ∈ cut) : ∀ e, e ∈ K → e ∈ (prune nV E cut sing).1 :=
  prune_keeps_singular_core nV E cut sing K (fun e he A hA _ => loops e he A hA) hK

/-- `set(id_edges) - evisited` contains every edge the dual tree did not cross (in particular border edges). -/
theorem cutEdges0_mem (nE : Nat) (evisited : List Nat) (e : Nat) :
    e ∈ cutEdges0 nE evisited ↔ e < nE ∧ e ∉ evisited := by
  simp [cutEdges0]

/-- The fuel of the model suffices: `_prune_edge_tree` ends with an empty queue (the flag `Q0` reported by the
driver is always 0), for every cut set without repeated edge ids. -/
theorem prune_queue_empty (nV : Nat) (E : List (Nat × Nat)) (cut sing : List Nat) (nd : cut.Nodup) :
    (prune nV E cut sing).2 = [] := by
  unfold prune
  apply pruneLoop_queue_empty _ _ nd
  have := pruneInit_length_le nV E cut sing
  show cut.length + (pruneInit nV E cut sing).length < nV + cut.length + 1
  omega

/-- Fixpoint: after pruning no non-singular vertex of degree 1 is left in the cut graph. -/
theorem prune_fixpoint (nV : Nat) (E : List (Nat × Nat)) (cut sing : List Nat) (nd : cut.Nodup) :
    ∀ v, v < nV → v ∉ sing → degree E (prune nV E cut sing).1 v ≠ 1 := by
  intro v hv hs hd
  have hq := prune_queue_empty nV E cut sing nd
  have inv := pruneLoop_leafQueued (nV := nV) (E := E) (sing := sing) (nV + cut.length + 1)
    (cut, pruneInit nV E cut sing) nd (pruneInit_leafQueued nV E cut sing)
  have hmem := inv v hv hs hd
  unfold prune at hq
  rw [hq] at hmem
  simp at hmem

/-- The same for the cut set the code starts from (`set(id_edges) - evisited`), whatever `evisited` is. -/
theorem prune_fixpoint_run (nV nE : Nat) (E : List (Nat × Nat)) (evisited sing : List Nat) :
    (prune nV E (cutEdges0 nE evisited) sing).2 = [] ∧
    ∀ v, v < nV → v ∉ sing → degree E (prune nV E (cutEdges0 nE evisited) sing).1 v ≠ 1 :=
  ⟨prune_queue_empty nV E _ sing (cutEdges0_nodup nE evisited),
   prune_fixpoint nV E _ sing (cutEdges0_nodup nE evisited)⟩

/-! ## non-vacuity -/

/-- two triangles `[0,1,2],[0,2,3]` glued along the uncut edge `(0,2)` -/
example : (build 4 [[0, 1, 2], [0, 2, 3]] [(0, 2)]).toOption.map (·.faces) = some [[0, 1, 2], [0, 2, 3]] := by
  decide +kernel

/-- same, edge cut: six vertices -/
example : (build 4 [[0, 1, 2], [0, 2, 3]] []).toOption.map (·.faces) = some [[0, 1, 2], [3, 4, 5]] := by
  decide +kernel

example : AllTri [[0, 1, 2], [0, 2, 3]] := by
  intro f hf; simp at hf; rcases hf with rfl | rfl <;> rfl

/-- two triangles glued along `(0,2)`: one uncut edge = spanning tree of the two faces; both unions are effective,
V' = 4, E' = 5, F = 2, χ = 1 (hypotheses of `euler_characteristic_partial` on a concrete case) -/
example : unionPairs (halfEdges [[0, 1, 2], [0, 2, 3]]) (cornerFaces [[0, 1, 2], [0, 2, 3]]) [(0, 2)]
    = some [(3, 0), (4, 2)] := by decide +kernel
example : effCount (ufRange 6) [(3, 0), (4, 2)] = 2 := by decide +kernel
example : twins [(3, 0), (4, 2)] = [(3, 2)] := rfl
/-- its dual forest: the single dual edge joins faces 1 and 0, which are in different classes -/
example : facePairs [((3, 0), (4, 2))] = [(1, 0)] ∧ effCount (ufRange 2) [(1, 0)] = 1 := by decide +kernel
example : (build 4 [[0, 1, 2], [0, 2, 3]] [(0, 2)]).toOption.map (fun o => (o.pos.length, edgeCount o 2))
    = some (4, 5) := by decide +kernel

/-- a triangle loop `0-1-2` with a pendant path `2-3-4`: the path is pruned, the loop stays; with vertex 4
singular everything stays. -/
example : (prune 5 [(0, 1), (1, 2), (0, 2), (2, 3), (3, 4)] [0, 1, 2, 3, 4] []).1 = [0, 1, 2] := by decide +kernel
example : (prune 5 [(0, 1), (1, 2), (0, 2), (2, 3), (3, 4)] [0, 1, 2, 3, 4] [4]).1 = [0, 1, 2, 3, 4] := by
  decide +kernel

example : CoreClosed [(0, 1), (1, 2), (0, 2), (2, 3), (3, 4)] [] [0, 1, 2] := by
  intro e he A hA _
  simp at he
  rcases he with rfl | rfl | rfl
  · by_cases h0 : 0 = A
    · subst h0; exact ⟨2, by simp, by simp, by decide⟩
    · by_cases h1 : 1 = A
      · subst h1; exact ⟨1, by simp, by simp, by decide⟩
      · simp [other, h0, h1] at hA
  · by_cases h1 : 1 = A
    · subst h1; exact ⟨0, by simp, by simp, by decide⟩
    · by_cases h2 : 2 = A
      · subst h2; exact ⟨2, by simp, by simp, by decide⟩
      · simp [other, h1, h2] at hA
  · by_cases h0 : 0 = A
    · subst h0; exact ⟨0, by simp, by simp, by decide⟩
    · by_cases h2 : 2 = A
      · subst h2; exact ⟨1, by simp, by simp, by decide⟩
      · simp [other, h0, h2] at hA

end Mouette.Props.C16
