import Mouette.Lemmas.CuttingThm
import Mouette.Lemmas.CuttingPrune
import Mouette.Lemmas.CuttingNested
/-!
# C16 — cutting along singularities (partial)

Theorems about the model `Mouette.Cutting` of `SingularityCutter._prune_edge_tree` and
`SingularityCutter._build_mesh_with_cuts` (the model is tied to the source by the correspondence run).

Corners are addressed "flat": corner `c` is position `c` of `F.flatten`; `vertOf F c = F.flatten[c]` is the
original vertex of the corner and `newOf o c = o.faces.flatten[c]` its vertex in the cut mesh. Because the output
face list has the shape of the input (`faces_in_bijection`), `newOf o c` is the entry `F'[i][j]` of the output face
for the same `(i,j)` for which `F[i][j] = vertOf F c` (`faces_nested` restates the main clauses face by face).

NOT proved (tree–cotree theorem; checked on every run by the oracle with `surface_stats`): the cut mesh is ONE
component with ONE border loop and Euler characteristic 1; every singular vertex has a copy on that border; the cut
graph is connected. The stages before pruning (shortest paths, Kruskal on paths, dual Dijkstra) are not modelled.
-/
namespace Mouette.Props.C16
open Mouette Mouette.Cutting Mouette.UF

/-! ## faces in bijection (P0) -/

/-- The cut mesh has as many faces as the input, in the same order, each with the same number of corners —
for every input on which `_build_mesh_with_cuts` returns (no hypothesis on `F`). -/
theorem faces_in_bijection {nV : Nat} {F : List Face} {uncut : List (Nat × Nat)} {o : Out}
    (h : build nV F uncut = .ok o) :
    o.faces.length = F.length ∧ o.faces.map List.length = F.map List.length := by
  have hs := build_shape h
  refine ⟨?_, hs⟩
  have := congrArg List.length hs
  simpa using this

/-- On triangle lists whose union pairs exist the build never fails in the `find`/`imap` stages: the only
possible error is the `TypeError` of a missing half edge. -/
theorem build_total_of_pairs {nV : Nat} {F : List Face} {uncut : List (Nat × Nat)} (tri : AllTri F)
    (o : Out) (h : build nV F uncut = .ok o) :
    ∃ ps, unionPairs (halfEdges F) (cornerFaces F) uncut = some ps := by
  obtain ⟨ps, s1, fl⟩ := build_flat tri h
  exact ⟨ps, fl.hps⟩

/-! ## ref_vertex (P0) -/

/-- `ref_vertex (F'[i][j]) = F[i][j]`: the map from cut vertices to original vertices is defined on every
corner's vertex and consistent face by face. -/
theorem ref_vertex_face_by_face {nV : Nat} {F : List Face} {uncut : List (Nat × Nat)} {o : Out}
    (tri : AllTri F) (valid : ∀ c, c < F.flatten.length → vertOf F c < nV)
    (h : build nV F uncut = .ok o) :
    ∀ c, c < F.flatten.length → lastWrite o.ref (newOf o c) = some (vertOf F c) := by
  obtain ⟨ps, s1, fl⟩ := build_flat tri h
  intro c hc
  have hc3 : c < 3 * F.length := by rw [← fl.len]; exact hc
  have hcv : c < (cornerVerts F).length := hc
  apply lastWrite_of_all
  · refine ⟨(newOf o c, vertOf F c), ?_, rfl⟩
    rw [fl.ref, fl.newOf_eq c hc3]
    apply List.mem_map.mpr
    refine ⟨c, ?_, rfl⟩
    rw [fl.cs7, List.mem_flatMap]
    exact ⟨vertOf F c, by simpa using valid c hc, mem_cornersOf.mpr ⟨hcv, rfl⟩⟩
  · intro p hp hk
    rw [fl.ref] at hp
    obtain ⟨c', hc', rfl⟩ := List.mem_map.mp hp
    simp only [] at hk ⊢
    rw [fl.cs7, List.mem_flatMap] at hc'
    obtain ⟨v, _, hcv'⟩ := hc'
    have hc'3 : c' < 3 * F.length := by
      have := (mem_cornersOf.mp hcv').1
      rw [← fl.len]; exact this
    rw [← fl.newOf_eq c' hc'3] at hk
    have hroot := fl.newOf_inj hc'3 hc3 hk
    have l1 := fl.root_label fl.pairs_vert hc'3
    have l2 := fl.root_label fl.pairs_vert hc3
    rw [← l1, ← l2, hroot]

/-- `ref_vertex` is onto the original vertices used by faces, and its keys are vertices of the cut mesh. -/
theorem ref_vertex_onto {nV : Nat} {F : List Face} {uncut : List (Nat × Nat)} {o : Out}
    (tri : AllTri F) (valid : ∀ c, c < F.flatten.length → vertOf F c < nV)
    (h : build nV F uncut = .ok o) :
    ∀ c, c < F.flatten.length → ∃ k, k < o.pos.length ∧ lastWrite o.ref k = some (vertOf F c) := by
  obtain ⟨ps, s1, fl⟩ := build_flat tri h
  intro c hc
  have hc3 : c < 3 * F.length := by rw [← fl.len]; exact hc
  refine ⟨newOf o c, ?_, ref_vertex_face_by_face tri valid h c hc⟩
  rw [fl.pos, orderVerts_length, fl.newOf_eq c hc3]
  exact wfmap_lt fl.wf (fl.look_some c hc3)

/-- every vertex of the cut mesh is a corner of some output face (no isolated duplicates are kept) -/
theorem output_vertices_all_used {nV : Nat} {F : List Face} {uncut : List (Nat × Nat)} {o : Out}
    (tri : AllTri F) (h : build nV F uncut = .ok o) :
    ∀ k, k < o.pos.length → ∃ c, c < F.flatten.length ∧ newOf o c = k := by
  obtain ⟨ps, s1, fl⟩ := build_flat tri h
  intro k hk
  rw [fl.pos, orderVerts_length] at hk
  have hmem : k ∈ (buildImap o.roots3).map Prod.snd := by rw [fl.wf.1]; simpa using hk
  obtain ⟨e, he, hek⟩ := List.mem_map.mp hmem
  have hkey : e.1 ∈ o.roots3.flatten := by
    rcases foldl_imapStep_keys o.roots3.flatten [] e he with h0 | h0
    · simp at h0
    · exact h0
  rw [fl.roots3] at hkey
  obtain ⟨c, hc, hce⟩ := List.mem_map.mp hkey
  have hc3 : c < 3 * F.length := by simpa using hc
  refine ⟨c, by rw [fl.len]; exact hc3, ?_⟩
  rw [fl.newOf_eq c hc3]
  have hl : (buildImap o.roots3).lookup e.1 = some k :=
    lookup_of_mem_nodup _ fl.wf.2 (by rw [← hek]; exact he)
  unfold look
  rw [hce, hl]; rfl

/-! ## corner positions (P0) -/

/-- The vertex of the cut mesh used by corner `c` carries the position of the original vertex of that corner
(positions are represented by the id of the input vertex they are copied from). -/
theorem corner_positions_preserved {nV : Nat} {F : List Face} {uncut : List (Nat × Nat)} {o : Out}
    (tri : AllTri F) (h : build nV F uncut = .ok o) :
    ∀ c, c < F.flatten.length → o.pos[newOf o c]? = some (some (vertOf F c)) := by
  obtain ⟨ps, s1, fl⟩ := build_flat tri h
  intro c hc
  have hc3 : c < 3 * F.length := by rw [← fl.len]; exact hc
  have hm := mem_range_elts fl.elts hc3
  have hlt : classOf s1 c < (cornerVerts F).length := by
    have := classOf_lt fl.inv hm
    rw [fl.elts] at this
    have hl : (cornerVerts F).length = 3 * F.length := fl.len
    rw [hl]; simpa using this
  rw [fl.pos, fl.newOf_eq c hc3, orderVerts_spec fl.wf (fl.look_some c hc3) hlt]
  have := fl.root_label fl.pairs_vert hc3
  unfold vertOf at this
  rw [this]; rfl

/-! ## the same, face by face (nested form of the statement) -/

/-- `ref_vertex (F'[i][j]) = F[i][j]` and `position (F'[i][j]) = position (F[i][j])` for every face `i` and corner
`j`: the output face list and the input face list are related entry by entry. -/
theorem faces_nested {nV : Nat} {F : List Face} {uncut : List (Nat × Nat)} {o : Out}
    (tri : AllTri F) (valid : ∀ c, c < F.flatten.length → vertOf F c < nV)
    (h : build nV F uncut = .ok o) :
    List.Forall₂ (List.Forall₂ (fun k v => lastWrite o.ref k = some v ∧ o.pos[k]? = some (some v))) o.faces F := by
  apply forall2_nested_of_flat o.faces F (faces_in_bijection h).2
  intro c hc
  exact ⟨ref_vertex_face_by_face tri valid h c hc, corner_positions_preserved tri h c hc⟩

/-! ## only the cut edges are opened (P1) -/

/-- Soundness: two corners receive the same vertex in the cut mesh only if they are linked by a chain of unions
across uncut interior edges — stated for EVERY labelling `lab` that is constant on each union pair (take for `lab`
the class of the corner in the equivalence closure of the pairs). -/
theorem glued_only_if_linked {α : Type} {nV : Nat} {F : List Face} {uncut : List (Nat × Nat)} {o : Out}
    (tri : AllTri F) (h : build nV F uncut = .ok o) (lab : Nat → α)
    (hlab : ∀ ps, unionPairs (halfEdges F) (cornerFaces F) uncut = some ps → ∀ p, p ∈ ps → lab p.1 = lab p.2) :
    ∀ c c', c < F.flatten.length → c' < F.flatten.length → newOf o c = newOf o c' → lab c = lab c' := by
  obtain ⟨ps, s1, fl⟩ := build_flat tri h
  intro c c' hc hc' hn
  have hc3 : c < 3 * F.length := by rw [← fl.len]; exact hc
  have hc'3 : c' < 3 * F.length := by rw [← fl.len]; exact hc'
  have ok : PairsOK (3 * F.length) lab ps := by
    intro p hp
    have := fl.pairs_vert p hp
    exact ⟨this.1, this.2.1, hlab ps fl.hps p hp⟩
  have hroot := fl.newOf_inj hc3 hc'3 hn
  rw [← fl.root_label ok hc3, ← fl.root_label ok hc'3, hroot]

/-- Corollary: corners glued together belong to one original vertex. -/
theorem glued_same_vertex {nV : Nat} {F : List Face} {uncut : List (Nat × Nat)} {o : Out}
    (tri : AllTri F) (h : build nV F uncut = .ok o) :
    ∀ c c', c < F.flatten.length → c' < F.flatten.length → newOf o c = newOf o c' → vertOf F c = vertOf F c' := by
  apply glued_only_if_linked tri h (vertOf F)
  intro ps hps p hp
  exact (unionPairs_spec uncut ps hps p hp).2.2

/-- Completeness: across every uncut interior edge the two faces share both end vertices in the cut mesh
(the pairs are exactly the `(A-corner, A-corner)`, `(B-corner, B-corner)` of the two faces of the edge). -/
theorem uncut_edges_glued {nV : Nat} {F : List Face} {uncut : List (Nat × Nat)} {o : Out}
    (tri : AllTri F) (h : build nV F uncut = .ok o) :
    ∀ ps, unionPairs (halfEdges F) (cornerFaces F) uncut = some ps →
      ∀ p, p ∈ ps → newOf o p.1 = newOf o p.2 := by
  obtain ⟨ps, s1, fl⟩ := build_flat tri h
  intro ps' hps' p hp
  rw [fl.hps] at hps'
  injection hps' with hps'
  subst hps'
  have hb : ∀ q, q ∈ ps → q.1 < 3 * F.length ∧ q.2 < 3 * F.length := by
    intro q hq; have := fl.pairs_vert q hq; exact ⟨this.1, this.2.1⟩
  obtain ⟨inv0, he0, _⟩ := ufRange_spec (fun _ => ()) (3 * F.length)
  have hj := (applyUnions_joins (3 * F.length) ps _ inv0 he0 hb).1 p hp
  rw [← fl.hs1] at hj
  rw [fl.newOf_eq p.1 (hb p hp).1, fl.newOf_eq p.2 (hb p hp).2, hj]

/-- The second round of `find` (for `ref_vertex`) returns the same roots as the first one: the flag `S` the driver
reports on every case is always 1. -/
theorem stable_roots {nV : Nat} {F : List Face} {uncut : List (Nat × Nat)} {o : Out}
    (tri : AllTri F) (h : build nV F uncut = .ok o) : stableRoots o = true := by
  obtain ⟨ps, s1, fl⟩ := build_flat tri h
  unfold stableRoots
  rw [fl.roots7, all_zip_map, List.all_eq_true]
  intro c hc
  rw [fl.cs7, List.mem_flatMap] at hc
  obtain ⟨v, _, hcv⟩ := hc
  have hc3 : c < 3 * F.length := by
    have := (mem_cornersOf.mp hcv).1
    rw [← fl.len]; exact this
  rw [fl.roots3]
  show ((List.map (classOf s1) (List.range (3 * F.length))).getD c (classOf s1 c + 1) == classOf s1 c) = true
  rw [List.getD_eq_getElem?_getD, List.getElem?_map, List.getElem?_range hc3]
  simp

/-! ## pruning (P1) -/

/-- Pruning never removes an edge of a sub-graph `K` of the cut graph all of whose leaves are singular:
paths between two singular vertices, cycles (homology loops) and border loops survive. -/
theorem prune_keeps_singular_core (nV : Nat) (E : List (Nat × Nat)) (cut sing K : List Nat)
    (cc : CoreClosed E sing K) (hK : ∀ e, e ∈ K → e ∈ cut) :
    ∀ e, e ∈ K → e ∈ (prune nV E cut sing).1 := by
  have inv0 : PInv E sing K (cut, pruneInit nV E cut sing) := ⟨hK, pruneInit_ok nV E cut sing⟩
  exact (pruneLoop_inv cc _ _ inv0).1

/-- Pruning only removes edges. -/
theorem prune_subset (nV : Nat) (E : List (Nat × Nat)) (cut sing : List Nat) :
    ∀ e, e ∈ (prune nV E cut sing).1 → e ∈ cut :=
  fun _ h => pruneLoop_sub _ _ h

/-- `cut graph ⊇ border` survives pruning: a set of edges in which every vertex has no or at least two edges
(such as the border loops) is kept whatever the singularities are. -/
theorem prune_keeps_loops (nV : Nat) (E : List (Nat × Nat)) (cut sing K : List Nat)
    (loops : ∀ e, e ∈ K → ∀ A, (other E e A).isSome = true →
      ∃ e', e' ∈ K ∧ e' ≠ e ∧ (other E e' A).isSome = true)
    (hK : ∀ e, e ∈ K → e ∈ cut) : ∀ e, e ∈ K → e ∈ (prune nV E cut sing).1 :=
  prune_keeps_singular_core nV E cut sing K (fun e he A hA _ => loops e he A hA) hK

/-- `set(id_edges) - evisited` contains every edge the dual tree did not cross (in particular border edges). -/
theorem cutEdges0_mem (nE : Nat) (evisited : List Nat) (e : Nat) :
    e ∈ cutEdges0 nE evisited ↔ e < nE ∧ e ∉ evisited := by
  simp [cutEdges0]

/-! ## non-vacuity -/

/-- two triangles `[0,1,2],[0,2,3]` glued along the uncut edge `(0,2)` -/
example : (build 4 [[0, 1, 2], [0, 2, 3]] [(0, 2)]).toOption.map (·.faces) = some [[0, 1, 2], [0, 2, 3]] := by
  decide +kernel

/-- same, edge cut: six vertices -/
example : (build 4 [[0, 1, 2], [0, 2, 3]] []).toOption.map (·.faces) = some [[0, 1, 2], [3, 4, 5]] := by
  decide +kernel

example : AllTri [[0, 1, 2], [0, 2, 3]] := by
  intro f hf; simp at hf; rcases hf with rfl | rfl <;> rfl

/-- a triangle loop `0-1-2` with a pendant path `2-3-4`: the path is pruned, the loop stays; with vertex 4
singular everything stays. -/
example : (prune 5 [(0, 1), (1, 2), (0, 2), (2, 3), (3, 4)] [0, 1, 2, 3, 4] []).1 = [0, 1, 2] := by decide +kernel
example : (prune 5 [(0, 1), (1, 2), (0, 2), (2, 3), (3, 4)] [0, 1, 2, 3, 4] [4]).1 = [0, 1, 2, 3, 4] := by
  decide +kernel

example : CoreClosed [(0, 1), (1, 2), (0, 2), (2, 3), (3, 4)] [] [0, 1, 2] := by
  intro e he A hA _
  simp at he
  rcases he with rfl | rfl | rfl
  · by_cases h0 : 0 = A
    · subst h0; exact ⟨2, by simp, by simp, by decide⟩
    · by_cases h1 : 1 = A
      · subst h1; exact ⟨1, by simp, by simp, by decide⟩
      · simp [other, h0, h1] at hA
  · by_cases h1 : 1 = A
    · subst h1; exact ⟨0, by simp, by simp, by decide⟩
    · by_cases h2 : 2 = A
      · subst h2; exact ⟨2, by simp, by simp, by decide⟩
      · simp [other, h1, h2] at hA
  · by_cases h0 : 0 = A
    · subst h0; exact ⟨0, by simp, by simp, by decide⟩
    · by_cases h2 : 2 = A
      · subst h2; exact ⟨1, by simp, by simp, by decide⟩
      · simp [other, h0, h2] at hA

end Mouette.Props.C16
